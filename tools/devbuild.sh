#!/bin/bash
# devbuild.sh <cmd-package-dir e.g. ./cmd/sim-dbsim> <output binary> [repo dir]
# Builds a simulation test binary the same way ./check does (module
# replacement onto the repo working tree + probe/instrumentation overlay).
set -eu
PKG="$1"; OUT="$2"; REPO="${3:-/repo}"
VERIF="$(cd "$(dirname "$0")/.." && pwd)"
export GOFLAGS=-mod=mod GOPROXY=off GOSUMDB=off GOTOOLCHAIN=local CGO_ENABLED=0
GO=go1.26.8
command -v $GO >/dev/null 2>&1 || GO=/opt/veriftools/go1.26.8/bin/go
WORK="$(dirname "$OUT")/devwork-$(echo "$REPO" | md5sum | cut -c1-8)"
mkdir -p "$WORK"
"$VERIF/tools/run-instrument.sh" "$REPO" "$WORK" > "$WORK/instrument.log" 2>&1 || { cat "$WORK/instrument.log"; exit 2; }
[ -f "$WORK/bbolt/go.mod" ] || { echo "instrumented bbolt copy missing"; exit 2; }
sed "s#=> /repo#=> $REPO#" "$VERIF/harness/go.mod" > "$WORK/go.mod"
echo "replace go.etcd.io/bbolt => $WORK/bbolt" >> "$WORK/go.mod"
cp "$VERIF/harness/go.sum" "$WORK/go.sum"
cd "$VERIF/harness" && $GO test -c -modfile="$WORK/go.mod" -overlay "$WORK/overlay.json" -o "$OUT" "$PKG"
