// instrument rewrites, at check time and from the CURRENT working tree, the
// files of btcwallet (and of a private copy of bbolt) that contain
// concurrency so that the simulator's scheduler (verifsim/simrt) decides every
// mutex acquisition order and every goroutine start — and, for the files
// listed as "mediated", every channel operation and select.
//
// Nothing under the repository is modified: rewritten copies go to
// <work>/ovl/... and are selected with `go build -overlay`; bbolt (module
// cache files cannot be overlaid) is copied to <work>/bbolt and selected with
// a `replace` directive.
//
// Rewrites (typed: keyed on go/types, never on names alone):
//
//	x.Lock()            x: sync.Mutex          -> simrt.Lock(site, &x)
//	x.Unlock()                                 -> simrt.Unlock(site, &x)
//	x.Lock()/Unlock()   x: sync.RWMutex        -> simrt.WLock / WUnlock
//	x.RLock()/RUnlock()                        -> simrt.RLock / RUnlock
//	go f(a, b)                                 -> { a', b' := a, b; simrt.Go(site, func() { f(a', b') }) }
//
// and in mediated files additionally
//
//	ch <- v             -> simrt.Send(site, ch, v)
//	<-ch                -> simrt.Recv(site, ch)
//	v, ok := <-ch       -> v, ok := simrt.Recv2(site, ch)
//	close(ch)           -> simrt.Close(site, ch)
//	select { ... }      -> switch i, rv, ok := simrt.Select(site, hasDefault, cases...); i { ... }
//
// Output on stdout: one "<original path>\t<rewritten path>" line per
// overlaid file.
package main

import (
	"bytes"
	"flag"
	"fmt"
	"go/ast"
	"go/format"
	"go/token"
	"go/types"
	"io/fs"
	"os"
	"path/filepath"
	"sort"
	"strconv"
	"strings"

	"golang.org/x/tools/go/ast/astutil"
	"golang.org/x/tools/go/packages"
)

const rtPath = "verifsim/simrt"
const rtName = "verifsimrt"

var (
	fRepo    = flag.String("repo", "/repo", "repository working tree")
	fWork    = flag.String("work", "", "work directory")
	fModfile = flag.String("modfile", "", "go.mod to load packages with")
	fHarness = flag.String("harness", "/verif/harness", "harness module directory")
)

// packages to instrument: import path -> set of mediated file base names
var targets = map[string]map[string]bool{
	"github.com/btcsuite/btcwallet/wallet":       {},
	"github.com/btcsuite/btcwallet/waddrmgr":     {},
	"github.com/btcsuite/btcwallet/wtxmgr":       {},
	"github.com/btcsuite/btcwallet/walletdb/bdb": {},
	"github.com/btcsuite/btcwallet/chain":        {"queue.go": true, "neutrino.go": true},
	"go.etcd.io/bbolt":                           {},
}

// only these files of package chain are touched at all
var onlyFiles = map[string]map[string]bool{
	"github.com/btcsuite/btcwallet/chain": {"queue.go": true, "block_filterer.go": true, "neutrino.go": true},
}

// packages in which `for ... range <map>` is rewritten to iterate in an order
// decided by the run's seed (simrt.MapKeys) instead of by the Go runtime
var mapOrder = map[string]bool{
	"github.com/btcsuite/btcwallet/wallet":   true,
	"github.com/btcsuite/btcwallet/waddrmgr": true,
	"github.com/btcsuite/btcwallet/wtxmgr":   true,
	"github.com/btcsuite/btcwallet/chain":    true,
}

func die(format string, a ...any) {
	fmt.Fprintf(os.Stderr, "instrument: "+format+"\n", a...)
	os.Exit(1)
}

func main() {
	flag.Parse()
	if *fWork == "" {
		die("-work required")
	}
	var pats []string
	for p := range targets {
		pats = append(pats, p)
	}
	sort.Strings(pats)
	cfg := &packages.Config{
		Mode: packages.NeedName | packages.NeedFiles | packages.NeedCompiledGoFiles | packages.NeedSyntax |
			packages.NeedTypes | packages.NeedTypesInfo | packages.NeedImports | packages.NeedModule,
		Dir: *fHarness,
		Env: append(os.Environ(), "GOFLAGS=-mod=mod", "GOPROXY=off", "GOSUMDB=off", "GOTOOLCHAIN=local", "CGO_ENABLED=0"),
	}
	if *fModfile != "" {
		cfg.BuildFlags = []string{"-modfile=" + *fModfile}
	}
	pkgs, err := packages.Load(cfg, pats...)
	if err != nil {
		die("load: %v", err)
	}
	bad := false
	for _, p := range pkgs {
		for _, e := range p.Errors {
			fmt.Fprintf(os.Stderr, "instrument: %s: %v\n", p.PkgPath, e)
			bad = true
		}
	}
	if bad {
		os.Exit(1)
	}
	sort.Slice(pkgs, func(i, j int) bool { return pkgs[i].PkgPath < pkgs[j].PkgPath })
	var bboltDir string
	var bboltFiles = map[string][]byte{}
	stats := map[string]int{}
	for _, p := range pkgs {
		mediated := targets[p.PkgPath]
		only := onlyFiles[p.PkgPath]
		for i, f := range p.Syntax {
			path := p.CompiledGoFiles[i]
			base := filepath.Base(path)
			if strings.HasSuffix(base, "_test.go") {
				continue
			}
			if only != nil && !only[base] {
				continue
			}
			in := &inst{pkg: p, file: f, fset: p.Fset, mediate: mediated[base], base: base, stats: stats}
			out, changed := in.run()
			if !changed {
				continue
			}
			if p.PkgPath == "go.etcd.io/bbolt" {
				bboltDir = filepath.Dir(path)
				bboltFiles[base] = out
				continue
			}
			rel, err := filepath.Rel(*fRepo, path)
			if err != nil || strings.HasPrefix(rel, "..") {
				die("file %s of %s is not under the repository %s (module replacement missing?)", path, p.PkgPath, *fRepo)
			}
			dst := filepath.Join(*fWork, "ovl", rel)
			writeIfChanged(dst, out)
			fmt.Printf("%s\t%s\n", path, dst)
		}
	}
	if bboltDir != "" {
		copyBbolt(bboltDir, filepath.Join(*fWork, "bbolt"), bboltFiles)
	}
	var ks []string
	for k := range stats {
		ks = append(ks, k)
	}
	sort.Strings(ks)
	for _, k := range ks {
		fmt.Fprintf(os.Stderr, "instrument: %s=%d\n", k, stats[k])
	}
}

func writeIfChanged(dst string, data []byte) {
	if old, err := os.ReadFile(dst); err == nil && bytes.Equal(old, data) {
		return
	}
	if err := os.MkdirAll(filepath.Dir(dst), 0o755); err != nil {
		die("%v", err)
	}
	if err := os.WriteFile(dst, data, 0o644); err != nil {
		die("%v", err)
	}
}

func copyBbolt(src, dst string, rewritten map[string][]byte) {
	err := filepath.WalkDir(src, func(p string, d fs.DirEntry, err error) error {
		if err != nil {
			return err
		}
		rel, _ := filepath.Rel(src, p)
		if d.IsDir() {
			if rel != "." && (strings.HasPrefix(d.Name(), ".") || d.Name() == "cmd" || d.Name() == "tests" || d.Name() == "scripts") {
				return filepath.SkipDir
			}
			return os.MkdirAll(filepath.Join(dst, rel), 0o755)
		}
		if strings.HasSuffix(d.Name(), "_test.go") {
			return nil
		}
		data, err := os.ReadFile(p)
		if err != nil {
			return err
		}
		if filepath.Dir(rel) == "." {
			if r, ok := rewritten[d.Name()]; ok {
				data = r
			}
			data = diskHooks(d.Name(), data)
		}
		writeIfChanged(filepath.Join(dst, rel), data)
		return nil
	})
	if err != nil {
		die("copy bbolt: %v", err)
	}
	writeIfChanged(filepath.Join(dst, "zz_verif_disk.go"), []byte(verifDiskGo))
}

// diskHooks routes the copy's file writes, syncs and truncations through
// hooks a simulation can install per database path (lost / torn writes at a
// crash point, see harness/sims/dbsim). Without hooks the copy behaves as the
// original.
func diskHooks(name string, data []byte) []byte {
	must := func(old, new string) {
		if !bytes.Contains(data, []byte(old)) {
			die("bbolt copy: %s: pattern %q not found", name, old)
		}
		data = bytes.Replace(data, []byte(old), []byte(new), -1)
	}
	switch name {
	case "bolt_linux.go":
		must("\treturn syscall.Fdatasync(int(db.file.Fd()))", "\tif err := verifSync(db); err != nil {\n\t\treturn err\n\t}\n\treturn syscall.Fdatasync(int(db.file.Fd()))")
	case "db.go":
		must("db.ops.writeAt = db.file.WriteAt", "db.ops.writeAt = db.file.WriteAt\n\tdb.verifWrapWriteAt()")
		must("if err := db.file.Truncate(int64(sz)); err != nil {", "verifTruncate(db, int64(sz))\n\t\t\tif err := db.file.Truncate(int64(sz)); err != nil {")
		must("if err := db.file.Sync(); err != nil {", "if err := verifSync(db); err != nil {\n\t\t\treturn err\n\t\t}\n\t\tif err := db.file.Sync(); err != nil {")
	}
	return data
}

const verifDiskGo = `package bbolt

// Added to the private copy of bbolt at check time (tools/instrument).

// VerifDiskHooks observes, and can fail, the file operations of one database.
type VerifDiskHooks struct {
	WriteAt  func(b []byte, off int64) error
	Sync     func() error
	Truncate func(size int64)
}

// VerifDisk maps a database path to its hooks; set before the file is opened.
var VerifDisk = map[string]*VerifDiskHooks{}

func verifSync(db *DB) error {
	if h := VerifDisk[db.path]; h != nil && h.Sync != nil {
		return h.Sync()
	}
	return nil
}

func verifTruncate(db *DB, size int64) {
	if h := VerifDisk[db.path]; h != nil && h.Truncate != nil {
		h.Truncate(size)
	}
}

func (db *DB) verifWrapWriteAt() {
	h := VerifDisk[db.path]
	if h == nil || h.WriteAt == nil {
		return
	}
	real := db.ops.writeAt
	db.ops.writeAt = func(b []byte, off int64) (int, error) {
		if err := h.WriteAt(b, off); err != nil {
			return 0, err
		}
		return real(b, off)
	}
}
`

type inst struct {
	pkg     *packages.Package
	file    *ast.File
	fset    *token.FileSet
	mediate bool
	base    string
	changed bool
	n       int
	skip    map[ast.Node]bool
	funcs   []string
	stats   map[string]int
}

func (in *inst) site(kind string, pos token.Pos) string {
	fn := "init"
	if len(in.funcs) > 0 {
		fn = in.funcs[len(in.funcs)-1]
	}
	return fmt.Sprintf("%s:%s#%s:%s:%d", kind, in.pkg.Name, fn, in.base, in.fset.Position(pos).Line)
}

func lit(s string) *ast.BasicLit { return &ast.BasicLit{Kind: token.STRING, Value: strconv.Quote(s)} }

func rt(name string) ast.Expr {
	return &ast.SelectorExpr{X: ast.NewIdent(rtName), Sel: ast.NewIdent(name)}
}

func call(fn string, args ...ast.Expr) *ast.CallExpr {
	return &ast.CallExpr{Fun: rt(fn), Args: args}
}

func (in *inst) tmp(prefix string) *ast.Ident {
	in.n++
	return ast.NewIdent(fmt.Sprintf("_vs%s%d", prefix, in.n))
}

func isSyncNamed(t types.Type, name string) bool {
	if p, ok := t.(*types.Pointer); ok {
		t = p.Elem()
	}
	n, ok := t.(*types.Named)
	if !ok {
		return false
	}
	o := n.Obj()
	return o.Pkg() != nil && o.Pkg().Path() == "sync" && o.Name() == name
}

// mutexCall recognises x.Lock() etc. on sync.Mutex / sync.RWMutex and returns
// the replacement call.
func (in *inst) mutexCall(c *ast.CallExpr) ast.Expr {
	se, ok := c.Fun.(*ast.SelectorExpr)
	if !ok || len(c.Args) != 0 {
		return nil
	}
	m := se.Sel.Name
	if m != "Lock" && m != "Unlock" && m != "RLock" && m != "RUnlock" {
		return nil
	}
	sel := in.pkg.TypesInfo.Selections[se]
	if sel == nil || sel.Kind() != types.MethodVal {
		return nil
	}
	fn, ok := sel.Obj().(*types.Func)
	if !ok {
		return nil
	}
	sig := fn.Type().(*types.Signature)
	if sig.Recv() == nil {
		return nil
	}
	rtyp := sig.Recv().Type()
	isM, isRW := isSyncNamed(rtyp, "Mutex"), isSyncNamed(rtyp, "RWMutex")
	if !isM && !isRW {
		return nil
	}
	// Make the path through embedded fields explicit.
	var e ast.Expr = se.X
	t := in.pkg.TypesInfo.TypeOf(se.X)
	idx := sel.Index()
	for _, i := range idx[:len(idx)-1] {
		if p, ok := t.Underlying().(*types.Pointer); ok {
			t = p.Elem()
		}
		st, ok := t.Underlying().(*types.Struct)
		if !ok {
			die("%s: cannot resolve embedded mutex path", in.fset.Position(c.Pos()))
		}
		f := st.Field(i)
		e = &ast.SelectorExpr{X: e, Sel: ast.NewIdent(f.Name())}
		t = f.Type()
	}
	if _, isPtr := t.Underlying().(*types.Pointer); !isPtr {
		e = &ast.UnaryExpr{Op: token.AND, X: e}
	}
	name := m
	kind := strings.ToLower(m)
	if isRW && (m == "Lock" || m == "Unlock") {
		name = "W" + m
		kind = "w" + kind
	}
	in.stats[in.pkg.Name+".mutex"]++
	return call(name, lit(in.site(kind, c.Pos())), e)
}

func (in *inst) run() ([]byte, bool) {
	in.skip = map[ast.Node]bool{}
	pre := func(c *astutil.Cursor) bool {
		switch n := c.Node().(type) {
		case *ast.FuncDecl:
			in.funcs = append(in.funcs, n.Name.Name)
		case *ast.SelectStmt:
			if in.mediate {
				for _, cl := range n.Body.List {
					cc := cl.(*ast.CommClause)
					switch s := cc.Comm.(type) {
					case *ast.SendStmt:
						in.skip[s] = true
					case *ast.ExprStmt:
						in.skip[ast.Unparen(s.X)] = true
					case *ast.AssignStmt:
						in.skip[s] = true
						in.skip[ast.Unparen(s.Rhs[0])] = true
					}
				}
			}
		case *ast.LabeledStmt:
			if _, ok := n.Stmt.(*ast.SelectStmt); ok && in.mediate {
				die("%s: labeled select is not supported by the instrumenter", in.fset.Position(n.Pos()))
			}
		}
		return true
	}
	post := func(c *astutil.Cursor) bool {
		switch n := c.Node().(type) {
		case *ast.FuncDecl:
			in.funcs = in.funcs[:len(in.funcs)-1]
		case *ast.CallExpr:
			if r := in.mutexCall(n); r != nil {
				c.Replace(r)
				in.changed = true
				return true
			}
			if in.mediate {
				if id, ok := n.Fun.(*ast.Ident); ok && id.Name == "close" && len(n.Args) == 1 {
					if _, isBuiltin := in.pkg.TypesInfo.Uses[id].(*types.Builtin); isBuiltin {
						c.Replace(call("Close", lit(in.site("close", n.Pos())), n.Args[0]))
						in.changed = true
						in.stats[in.pkg.Name+".close"]++
					}
				}
			}
		case *ast.GoStmt:
			c.Replace(in.goStmt(n))
			in.changed = true
			in.stats[in.pkg.Name+".go"]++
		case *ast.SendStmt:
			if in.mediate && !in.skip[n] {
				c.Replace(&ast.ExprStmt{X: call("Send", lit(in.site("send", n.Pos())), n.Chan, in.sendValue(n.Chan, n.Value))})
				in.changed = true
				in.stats[in.pkg.Name+".send"]++
			}
		case *ast.UnaryExpr:
			if in.mediate && n.Op == token.ARROW && !in.skip[n] {
				// `v, ok := <-ch` needs Recv2: decided by the parent
				if as, ok := c.Parent().(*ast.AssignStmt); ok && len(as.Lhs) == 2 && len(as.Rhs) == 1 {
					c.Replace(call("Recv2", lit(in.site("recv", n.Pos())), n.X))
				} else if vs, ok := c.Parent().(*ast.ValueSpec); ok && len(vs.Names) == 2 && len(vs.Values) == 1 {
					c.Replace(call("Recv2", lit(in.site("recv", n.Pos())), n.X))
				} else {
					c.Replace(call("Recv", lit(in.site("recv", n.Pos())), n.X))
				}
				in.changed = true
				in.stats[in.pkg.Name+".recv"]++
			}
		case *ast.RangeStmt:
			if mapOrder[in.pkg.PkgPath] {
				if r := in.mapRange(n, c.Parent()); r != nil {
					c.Replace(r)
					in.changed = true
					in.stats[in.pkg.Name+".maprange"]++
					return true
				}
			}
			if in.mediate {
				if t := in.pkg.TypesInfo.TypeOf(n.X); t != nil {
					if _, isChan := t.Underlying().(*types.Chan); isChan {
						die("%s: range over channel is not supported by the instrumenter", in.fset.Position(n.Pos()))
					}
				}
			}
		case *ast.SelectStmt:
			if in.mediate {
				c.Replace(in.selectStmt(n))
				in.changed = true
				in.stats[in.pkg.Name+".select"]++
			}
		}
		return true
	}
	astutil.Apply(in.file, pre, post)
	if !in.changed {
		return nil, false
	}
	astutil.AddNamedImport(in.fset, in.file, rtName, rtPath)
	// Drop ordinary comments (the printer may misplace them around replaced
	// nodes); keep directives (//go:..., // +build, //line).
	var keep []*ast.CommentGroup
	for _, g := range in.file.Comments {
		for _, cm := range g.List {
			if strings.HasPrefix(cm.Text, "//go:") || strings.HasPrefix(cm.Text, "// +build") || strings.HasPrefix(cm.Text, "//line") {
				keep = append(keep, g)
				break
			}
		}
	}
	in.file.Comments = keep
	in.file.Doc = nil
	ast.Inspect(in.file, func(n ast.Node) bool {
		switch d := n.(type) {
		case *ast.FuncDecl:
			if !hasDirective(d.Doc) {
				d.Doc = nil
			}
		case *ast.GenDecl:
			if !hasDirective(d.Doc) {
				d.Doc = nil
			}
		case *ast.Field:
			d.Doc, d.Comment = nil, nil
		case *ast.ValueSpec:
			d.Doc, d.Comment = nil, nil
		case *ast.TypeSpec:
			d.Doc, d.Comment = nil, nil
		case *ast.ImportSpec:
			d.Doc, d.Comment = nil, nil
		}
		return true
	})
	var buf bytes.Buffer
	fmt.Fprintf(&buf, "// Code generated by /verif/tools/instrument from %s; DO NOT EDIT.\n\n", in.base)
	if err := format.Node(&buf, in.fset, in.file); err != nil {
		die("print %s: %v", in.base, err)
	}
	return buf.Bytes(), true
}

func hasDirective(g *ast.CommentGroup) bool {
	if g == nil {
		return false
	}
	for _, cm := range g.List {
		if strings.HasPrefix(cm.Text, "//go:") || strings.HasPrefix(cm.Text, "// +build") {
			return true
		}
	}
	return false
}

func isConstLike(e ast.Expr) bool {
	switch x := e.(type) {
	case *ast.BasicLit:
		return true
	case *ast.Ident:
		return x.Name == "nil" || x.Name == "true" || x.Name == "false"
	}
	return false
}

// goStmt: arguments are evaluated at the go statement, as Go does.
func (in *inst) goStmt(g *ast.GoStmt) ast.Stmt {
	site := lit(in.site("go", g.Pos()))
	c := g.Call
	if fl, ok := c.Fun.(*ast.FuncLit); ok && len(c.Args) == 0 {
		return &ast.ExprStmt{X: call("Go", site, fl)}
	}
	var stmts []ast.Stmt
	args := make([]ast.Expr, len(c.Args))
	for i, a := range c.Args {
		if isConstLike(a) {
			args[i] = a
			continue
		}
		id := in.tmp("a")
		stmts = append(stmts, &ast.AssignStmt{Lhs: []ast.Expr{id}, Tok: token.DEFINE, Rhs: []ast.Expr{a}})
		args[i] = ast.NewIdent(id.Name)
	}
	inner := &ast.CallExpr{Fun: c.Fun, Args: args}
	if c.Ellipsis.IsValid() {
		inner.Ellipsis = token.Pos(1)
	}
	fl := &ast.FuncLit{Type: &ast.FuncType{Params: &ast.FieldList{}},
		Body: &ast.BlockStmt{List: []ast.Stmt{&ast.ExprStmt{X: inner}}}}
	stmts = append(stmts, &ast.ExprStmt{X: call("Go", site, fl)})
	if len(stmts) == 1 {
		return stmts[0]
	}
	return &ast.BlockStmt{List: stmts}
}

// mapRange rewrites `for k, v := range m` over a map into an iteration over
// simrt.MapKeys(site, m): the keys in an order that is a function of the run's
// seed. Entries removed during the iteration are skipped, as Go does; entries
// added during the iteration are not visited, which Go permits.
func (in *inst) mapRange(r *ast.RangeStmt, parent ast.Node) ast.Stmt {
	t := in.pkg.TypesInfo.TypeOf(r.X)
	if t == nil {
		return nil
	}
	if _, isMap := t.Underlying().(*types.Map); !isMap {
		return nil
	}
	in.n++
	k := in.n
	kv := ast.NewIdent(fmt.Sprintf("_vsk%d", k))
	var pre []ast.Stmt
	var m ast.Expr = r.X
	switch ast.Unparen(r.X).(type) {
	case *ast.Ident, *ast.SelectorExpr:
	default:
		if _, labeled := parent.(*ast.LabeledStmt); labeled {
			die("%s: labeled range over a non-trivial map expression is not supported", in.fset.Position(r.Pos()))
		}
		mv := ast.NewIdent(fmt.Sprintf("_vsm%d", k))
		pre = append(pre, &ast.AssignStmt{Lhs: []ast.Expr{mv}, Tok: token.DEFINE, Rhs: []ast.Expr{r.X}})
		m = ast.NewIdent(mv.Name)
	}
	isBlank := func(e ast.Expr) bool {
		if e == nil {
			return true
		}
		id, ok := e.(*ast.Ident)
		return ok && id.Name == "_"
	}
	idx := func() ast.Expr { return &ast.IndexExpr{X: m, Index: ast.NewIdent(kv.Name)} }
	var body []ast.Stmt
	vv := ast.NewIdent(fmt.Sprintf("_vsv%d", k))
	okv := ast.NewIdent(fmt.Sprintf("_vsok%d", k))
	// presence check (entry may have been deleted during the iteration)
	body = append(body, &ast.AssignStmt{Lhs: []ast.Expr{vv, okv}, Tok: token.DEFINE, Rhs: []ast.Expr{idx()}})
	body = append(body, &ast.IfStmt{Cond: &ast.UnaryExpr{Op: token.NOT, X: ast.NewIdent(okv.Name)},
		Body: &ast.BlockStmt{List: []ast.Stmt{&ast.BranchStmt{Tok: token.CONTINUE}}}})
	body = append(body, &ast.AssignStmt{Lhs: []ast.Expr{ast.NewIdent("_")}, Tok: token.ASSIGN, Rhs: []ast.Expr{ast.NewIdent(vv.Name)}})
	if !isBlank(r.Key) {
		body = append(body, &ast.AssignStmt{Lhs: []ast.Expr{r.Key}, Tok: r.Tok, Rhs: []ast.Expr{ast.NewIdent(kv.Name)}})
	}
	if !isBlank(r.Value) {
		body = append(body, &ast.AssignStmt{Lhs: []ast.Expr{r.Value}, Tok: r.Tok, Rhs: []ast.Expr{ast.NewIdent(vv.Name)}})
	}
	if r.Tok == token.DEFINE {
		// a variable may be declared and not used by the body only if Go
		// accepted the original loop, in which it was used; nothing to add
	}
	// the original body keeps its own scope (it may redeclare the loop variables)
	body = append(body, r.Body)
	loop := &ast.RangeStmt{Key: ast.NewIdent("_"), Value: kv, Tok: token.DEFINE,
		X: call("MapKeys", lit(in.site("maprange", r.Pos())), m), Body: &ast.BlockStmt{List: body}}
	if len(pre) == 0 {
		return loop
	}
	return &ast.BlockStmt{List: append(pre, loop)}
}

// sendValue converts the value of a send to `any` when the channel's element
// type is the empty interface, so that the generic helpers infer the
// channel's element type and not the value's concrete type.
func (in *inst) sendValue(ch, v ast.Expr) ast.Expr {
	t := in.pkg.TypesInfo.TypeOf(ch)
	if t == nil {
		return v
	}
	c, ok := t.Underlying().(*types.Chan)
	if !ok {
		return v
	}
	if it, ok := c.Elem().Underlying().(*types.Interface); ok && it.Empty() {
		return &ast.CallExpr{Fun: ast.NewIdent("any"), Args: []ast.Expr{v}}
	}
	return v
}

// selectStmt builds the switch over simrt.Select. Channel and value
// expressions are evaluated once, in source order, as Go does.
func (in *inst) selectStmt(s *ast.SelectStmt) ast.Stmt {
	in.n++
	k := in.n
	iv := ast.NewIdent(fmt.Sprintf("_vsi%d", k))
	rv := ast.NewIdent(fmt.Sprintf("_vsr%d", k))
	okv := ast.NewIdent(fmt.Sprintf("_vso%d", k))
	var pre []ast.Stmt
	var cases []ast.Expr
	var clauses []ast.Stmt
	hasDefault := false
	idx := 0
	use := func() ast.Stmt {
		return &ast.AssignStmt{Lhs: []ast.Expr{ast.NewIdent("_"), ast.NewIdent("_")}, Tok: token.ASSIGN,
			Rhs: []ast.Expr{ast.NewIdent(rv.Name), ast.NewIdent(okv.Name)}}
	}
	for _, cl := range s.Body.List {
		cc := cl.(*ast.CommClause)
		if cc.Comm == nil {
			hasDefault = true
			clauses = append(clauses, &ast.CaseClause{List: nil, Body: append([]ast.Stmt{use()}, cc.Body...)})
			continue
		}
		chv := ast.NewIdent(fmt.Sprintf("_vsc%d_%d", k, idx))
		var body []ast.Stmt
		body = append(body, use())
		switch c := cc.Comm.(type) {
		case *ast.SendStmt:
			vv := ast.NewIdent(fmt.Sprintf("_vsv%d_%d", k, idx))
			pre = append(pre, &ast.AssignStmt{Lhs: []ast.Expr{chv}, Tok: token.DEFINE, Rhs: []ast.Expr{c.Chan}})
			// the value keeps its static type through a typed helper: SendCase converts
			pre = append(pre, &ast.AssignStmt{Lhs: []ast.Expr{vv}, Tok: token.DEFINE,
				Rhs: []ast.Expr{call("SendCase", ast.NewIdent(chv.Name), in.sendValue(c.Chan, c.Value))}})
			cases = append(cases, ast.NewIdent(vv.Name))
		case *ast.ExprStmt:
			u := ast.Unparen(c.X).(*ast.UnaryExpr)
			pre = append(pre, &ast.AssignStmt{Lhs: []ast.Expr{chv}, Tok: token.DEFINE, Rhs: []ast.Expr{u.X}})
			cases = append(cases, call("RecvCase", ast.NewIdent(chv.Name)))
		case *ast.AssignStmt:
			u := ast.Unparen(c.Rhs[0]).(*ast.UnaryExpr)
			pre = append(pre, &ast.AssignStmt{Lhs: []ast.Expr{chv}, Tok: token.DEFINE, Rhs: []ast.Expr{u.X}})
			cases = append(cases, call("RecvCase", ast.NewIdent(chv.Name)))
			rhs := []ast.Expr{call("As", ast.NewIdent(chv.Name), ast.NewIdent(rv.Name))}
			if len(c.Lhs) == 2 {
				rhs = append(rhs, ast.NewIdent(okv.Name))
			}
			body = append(body, &ast.AssignStmt{Lhs: c.Lhs, Tok: c.Tok, Rhs: rhs})
		default:
			die("%s: unsupported select clause", in.fset.Position(cc.Pos()))
		}
		body = append(body, cc.Body...)
		clauses = append(clauses, &ast.CaseClause{
			List: []ast.Expr{&ast.BasicLit{Kind: token.INT, Value: strconv.Itoa(idx)}}, Body: body})
		idx++
	}
	hd := "false"
	if hasDefault {
		hd = "true"
	} else {
		// Select returns -1 only when there is a default clause; the clause
		// keeps a select whose cases all return a terminating statement
		clauses = append(clauses, &ast.CaseClause{List: nil, Body: []ast.Stmt{use(),
			&ast.ExprStmt{X: &ast.CallExpr{Fun: ast.NewIdent("panic"), Args: []ast.Expr{lit("verifsimrt: select without default returned no clause")}}}}})
	}
	args := append([]ast.Expr{lit(in.site("select", s.Pos())), ast.NewIdent(hd)}, cases...)
	sw := &ast.SwitchStmt{
		Init: &ast.AssignStmt{Lhs: []ast.Expr{iv, rv, okv}, Tok: token.DEFINE, Rhs: []ast.Expr{call("Select", args...)}},
		Tag:  ast.NewIdent(iv.Name),
		Body: &ast.BlockStmt{List: clauses},
	}
	return &ast.BlockStmt{List: append(pre, sw)}
}
