#!/bin/bash
# run-instrument.sh <repo> <workdir>
# Produces <workdir>/overlay.json for `go build -overlay`:
#   1. probe files: every /verif/harness/probes/<pkgdir>/<file>.go is ADDED to
#      <repo>/<pkgdir>/<file>.go (add-only: the overlay never replaces an
#      existing file with a probe; if the target exists the script fails);
#   2. rewritten copies of the files that contain concurrency (mutex / go /
#      select statements routed through verifsim/simrt), generated from the
#      CURRENT contents of <repo> by tools/instrument (if present).
# Nothing under <repo> is modified.
set -eu
REPO="$1"; WORK="$2"
VERIF="$(cd "$(dirname "$0")/.." && pwd)"
export GOFLAGS=-mod=mod GOPROXY=off GOSUMDB=off GOTOOLCHAIN=local
GO=go1.26.8
command -v $GO >/dev/null 2>&1 || GO=/opt/veriftools/go1.26.8/bin/go
# go/packages runs the `go` found on PATH: make that go1.26.8
export PATH="/opt/veriftools/go1.26.8/bin:$PATH"
mkdir -p "$WORK/ovl"
ENTRIES="$WORK/overlay.entries"
: > "$ENTRIES"
# 1. probes
if [ -d "$VERIF/harness/probes" ]; then
  (cd "$VERIF/harness/probes" && find . -name '*.go' | sort) | while read -r f; do
    f="${f#./}"
    tgt="$REPO/$f"
    if [ -e "$tgt" ]; then echo "probe target already exists in repo: $tgt" >&2; exit 1; fi
    printf '%s\t%s\n' "$tgt" "$VERIF/harness/probes/$f" >> "$ENTRIES"
  done
fi
# 2. instrumenter
if [ -d "$VERIF/tools/instrument" ]; then
  INS="$VERIF/build/bin/instrument"
  mkdir -p "$VERIF/build/bin"
  (cd "$VERIF/tools/instrument" && $GO build -o "$INS" .)
  # packages are loaded with the pristine bbolt from the module cache (no
  # replace), the rewritten copy is what the build then uses
  sed "s#=> /repo#=> $REPO#" "$VERIF/harness/go.mod" > "$WORK/load.mod"
  cp "$VERIF/harness/go.sum" "$WORK/load.sum"
  "$INS" -repo "$REPO" -work "$WORK" -modfile "$WORK/load.mod" -harness "$VERIF/harness" >> "$ENTRIES"
fi
python3 - "$ENTRIES" "$WORK/overlay.json" <<'PY'
import json,sys
rep={}
for l in open(sys.argv[1]):
    l=l.rstrip('\n')
    if not l: continue
    a,b=l.split('\t')
    rep[a]=b
json.dump({"Replace":rep},open(sys.argv[2],'w'),indent=1)
PY
