#!/bin/bash
# runs every claimed check once (tier $1, default quick) and prints one line each
TIER="${1:-quick}"
cd "$(dirname "$0")/.."
for id in $(python3 -c "import json;print(' '.join(c['property_id'] for c in json.load(open('MANIFEST.json'))['checks']))"); do
  out=$(./check $id $TIER 2>&1); rc=$?
  echo "$id exit=$rc $(echo "$out" | grep '^summary' | cut -c1-160)"
  echo "$out" | grep "^VIOLATION\|^KNOWN-FINDING\|^INFRA" | cut -c1-200
done
