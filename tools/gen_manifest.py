#!/usr/bin/env python3
"""Regenerates /verif/MANIFEST.json from the table below (one place to edit)."""
import json, os

ROOT = os.path.dirname(os.path.dirname(os.path.abspath(__file__)))
base = json.load(open('/root/.vp/BASELINE.json'))

TB = ("real bbolt/bdb on tmpfs; faults are injected at the walletdb interface (k-th write, commit failure, panic), "
      "not below bbolt; a clean batch is evidence over the sampled seeds, not proof")

# id -> (engine, level, technique, text, note, design_ref)
CHECKS = {
 "C18": ("queuesim", "exploration",
         "deterministic simulation: seeded scheduler over instrumented queue.go (every select/channel op a PRNG decision), FIFO + porcupine linearizability + progress oracles",
         "Seeded search over interleavings of producer(s), consumer, Stop and the real ConcurrentQueue worker whose selects are decided by the run PRNG; "
         "FIFO/no-loss/no-duplicate checked directly and by porcupine against a queue model on step-stamped histories; producer progress and worker termination checked at quiescence. "
         "Exploration is the right level: the state space (schedules x burst patterns x buffer sizes) is unbounded, the oracle is exact.",
         "simrt's mediated channel operations are assumed to implement Go channel semantics; only chain/queue.go runs (the backends that own a queue do not). " + TB,
         "DESIGN.md §3.1, §3.2, §6 C18"),
}

CHECKS["C09"] = ("walletsim", "exploration",
  "deterministic simulation: whole wallet under a seeded scheduler (every mutex/goroutine/db-transaction boundary of wallet, waddrmgr, bdb, bbolt a PRNG decision, target-site bias on the commit->callback window), uniqueness + gap-free + porcupine counter + restart-equivalence oracles",
  "2-4 user tasks issue NewAddress / NewChangeAddress / CurrentAddress / SendOutputs / dry-run CreateSimpleTx concurrently on the real wallet; the scheduler explores interleavings at every lock acquisition and at the point between bbolt's commit and waddrmgr's on-commit callback. Oracle: all issued addresses distinct, indices per branch gap-free (resolved by independent hdkeychain derivation), linearizable w.r.t. a fetch-and-increment counter, and a manager reopened on the committed image agrees with memory. Exploration: schedules are sampled, not enumerated.",
  "channel operations inside the wallet run natively in the synctest bubble; FundPsbt and account-import call sites of the mutex are not driven yet. " + TB,
  "DESIGN.md §3.1-3.4, §6 C09")
CHECKS["C15"] = ("walletsim", "exploration",
  "deterministic simulation: whole wallet attached to a simulated validating node + bitcoind-style client; seeded chain evolutions (extensions, reorgs, stale/duplicate notifications, lag, stop/restart while the node moves, backend call failures at start-up) with the tip/window/confirmation oracle at every synchronised point and a bounded-liveness check",
  "The real wallet processes notification histories produced by simchain from seeded chain evolutions; at every synchronised point synced-to must equal the node tip, every remembered hash of the window must be the best chain's, and every transaction reported confirmed must be in that block of the best chain; a synchronised point must be reached within 120 simulated seconds after faults stop. Exploration over histories; oracle exact against the node's ground truth.",
  "simchain stands in for the real backends (protocol modelled on chain/bitcoind_client.go); backend RPC failures are injected only into the start-up synchronisation (the statement does not cover failures while a notification is processed). " + TB,
  "DESIGN.md §3.4, §6 C15")

CHECKS["C17"] = ("vaultsim", "exploration",
  "deterministic simulation: a real waddrmgr.Manager and snacl keys write ciphertexts to a simulated disk that corrupts stored blobs (bit flips, truncation, extension, torn writes, key swaps) across lock/unlock, re-keying and restarts; registry oracle (every ciphertext ever produced -> key, plaintext)",
  "Ciphertexts produced by Manager.Encrypt / snacl.CryptoKey / snacl.SecretKey are persisted in the wallet database file and read back in later sessions (after lock/unlock, private and public passphrase change with injected write/commit failures, restart) with seeded storage faults applied; a decrypt must return exactly the registered plaintext for an intact blob under its own key and an error in every other case; DeriveKey/Unlock/Open must accept exactly the creating passphrase (near-miss set) before and after the parameter round trip. The per-blob sweep of every bit flip / truncation length is input enumeration that runs inside the simulator (said candidly in DESIGN.md §6 C17); the stateful part is what needs the simulator. Three genuine defects of the unchanged tree are recorded as known findings.",
  "entropy (snacl's prng) is replaced by a seeded stream through an add-only overlay probe; scrypt parameters are the fast ones. " + TB,
  "DESIGN.md §6 C17, §10")

CHECKS["C20"] = ("walletsim", "exploration",
  "deterministic simulation: whole wallet + simulated node; at every broadcast (initial and each re-broadcast after a restart) the backend answer class is a seeded fault (accept, already-in-mempool, already-confirmed, fee/generic/conflict rejection, transport error, subscription failure); before/after snapshot oracle and re-offer oracle on the backend's received calls",
  "Seeded wallet histories (receipts, sends incl. chained unconfirmed ones, built-then-published transactions, leases, blocks, restarts) with a backend answer class injected at every broadcast. A failed attempt must leave balance, spendable set and unconfirmed set as before (the tx and its unconfirmed descendants forgotten, unrelated ones kept); 'already in mempool' must keep it recorded once; an accepted send must be recorded with inputs unspendable and own outputs counted once; after every restart each still-unconfirmed wallet transaction must have been offered to the backend again, parents first. Exploration over histories x answer classes.",
  "answer classes are kept consistent with node state (a node that already has the tx answers so); a database failure of the removal transaction itself is not injected (the statement does not cover it). " + TB,
  "DESIGN.md §3.4, §6 C20")

CHECKS["C06"] = ("walletsim", "exploration",
  "deterministic simulation: whole wallet + simulated node; seeded wallet histories and transaction requests incl. 1-4 concurrent senders; eligibility oracle recomputed from the node's ground truth and an independent key derivation, script-engine verification of every input",
  "For every transaction the real wallet creates (SendOutputs, dry CreateSimpleTx, SendOutputsWithInput) each input is checked against the set of wallet outputs derived independently from the simulated node (outputs paying to issued addresses, unspent in chain and mempool) and the six eligibility conditions of the statement (account, scope, confirmations w.r.t. the backend height, coinbase maturity, user locks, leases on the simulated clock); inputs pairwise distinct; no reuse of inputs of a transaction published before the request started; every input verifies under txscript.StandardVerifyFlags for all four default address types; explicitly selected ineligible inputs (eight kinds) must be refused. Exploration over wallet states x requests x schedules.",
  "requests are issued at synchronised points so that the wallet's view equals the node's; inside a parallel section only the cross-transaction and signature conditions are decided; FundPsbt is not driven; conservation and fee floor are asserted as side conditions (not a C07 claim). " + TB,
  "DESIGN.md §3.4, §6 C06")

CHECKS["C11"] = ("dbsim", "exploration",
  "deterministic simulation: seeded programs of transactions (commit / error / panic / injected commit failure / injected k-th write failure / manual rollback, reopen, read transaction held across a writer) over the real bdb+bbolt file through the public walletdb API, against a nested-map reference model compared after every operation",
  "Random transaction programs (put/delete/get, nested bucket create/delete to depth 4, sequences, forward/backward cursor walks with seek, ForEach, cursor delete) run on the real driver; every read is compared with the model-with-own-writes, every transaction end with a full recursive dump, every outcome (nil, error, panic, failed commit, failed write) with commit/rollback of the model, reopen with the model, an old read transaction with its snapshot, documented error values where bdb's convertErr defines them. Exploration: the space of programs is unbounded; the oracle is exact. Two cursor behaviours of the pinned bbolt inside a dirty transaction are known findings.",
  "concurrent readers under the scheduler are not part of this check (snapshot isolation is checked with a read transaction held across a writer in one task); Cursor.Last on a bucket emptied in the same read-write transaction is never called (bbolt hangs). " + TB,
  "DESIGN.md §3.3, §6 C11")
CHECKS["C19"] = ("migsim", "fault_enumeration",
  "deterministic simulation with enumerated fault positions: generated migration.Manager tables over a real walletdb namespace; for each case a failure is injected at every migration position p, at every database write k, and at commit; plus the real wallet's version checks on a database whose stored version was raised",
  "For every generated (version table, stored version) the upgrade is run fault-free and then once per migration position p (that migration fails after partial writes), once per mutating database call k until the fault no longer fires, and once with a failing commit — all inside one walletdb.Update as wallet.OpenWithRetry does. Oracle: the trace of applied migrations is exactly the ascending list of versions above the stored one, the stored version ends at latest, and after any failure the stored version and the whole bucket dump are unchanged; a newer-than-known version is refused (migration.ErrReversion; wtxmgr/waddrmgr/wallet.Open on a real wallet database) with the file bytes unchanged. fault_enumeration: per case all p and all k are enumerated (counts in the evidence); the cases themselves are sampled.",
  "real old-format migrations of wtxmgr/waddrmgr are not run (they need old data); " + TB,
  "DESIGN.md §6 C19")

LEDGER_TECH = "deterministic simulation: a real wtxmgr.Store on bbolt driven by the seeded event stream of a validating node over a generated transaction universe (mempool, blocks, rollbacks to every height, re-mining in other blocks, RBF, abandon, redelivery, leases on the simulated clock, reopen); reference ledger recomputed from facts after every event"
CHECKS["C01"] = ("ledgersim+walletsim", "exploration", LEDGER_TECH,
  "After every event of a seeded chain-consistent history the store's Balance is compared with the ledger fold on a grid of 8 minimum-confirmation values x 5 sync heights around the maturity boundary, UnspentOutputs field by field (amount, block hash/height/time, coinbase flag, script) and OutputsToWatch by inclusion. The ledger keeps no running totals, so it cannot share the implementation's failure mode. Exploration over histories x graph shapes.",
  "histories are restricted to what a validating node can emit (no two conflicting transactions in the mempool at once, parents before children); a second simulation (walletsim/c01w.go) runs the whole wallet over the C06 and C15 workloads (receipts on four address types and two accounts, coinbases near maturity, wallet-authored sends, locks, leases, reorgs, invalidated and reconsidered blocks, delivery lag, restarts) and after every operation, with the wallet idle, compares Wallet.CalculateBalance (9 minimum-confirmation values), Wallet.ListUnspent (5 ranges; amount, confirmations, script, account) and Wallet.CalculateAccountBalances with the statement evaluated over the wallet's OWN known transaction set (RangeTransactions + credits + inputs + ListLeasedOutputs). " + TB, "DESIGN.md §3.5, §6 C01")
CHECKS["C02"] = ("ledgersim", "exploration", LEDGER_TECH + "; plus a second real store built directly from the final facts (path independence)",
  "The ledger's transition rules are the sentences of the statement, checked after every event (unconfirmed set, known set, credits); at the end of each run a fresh real store receives only the final facts and must agree with the store that lived through the connect / disconnect / reconnect-in-other-order history on balances, spendable outputs, unconfirmed set and details of every universe transaction.",
  "leases are not facts: the clock is advanced past every expiry before the two stores are compared. " + TB, "DESIGN.md §6 C02")
CHECKS["C12"] = ("ledgersim", "exploration", LEDGER_TECH + "; lease model over the simulated clock with clock steps placed on and around expiry instants",
  "Lease / release / extend / sweep / list operations by 2-3 identifiers interleaved with receipts, spends, confirmations, reorgs, reopen and clock advances chosen relative to live expiries (d-1, d, d+1); the lease model decides availability in Balance, UnspentOutputs and OutputsToWatch, the error values for foreign identifiers and unknown outputs, returned expiries, removal by a confirmed spend and survival of reopen.",
  "expiry is stored in whole seconds: runs use whole-second clock steps; one run in eight uses sub-second steps and asserts nothing lease-dependent inside the sub-second window. " + TB, "DESIGN.md §6 C12")
CHECKS["C13"] = ("ledgersim+walletsim", "exploration", LEDGER_TECH + "; per-transaction details and range queries derived from the ledger",
  "After every event, for every universe transaction TxDetails / UniqueTxDetails (own, nil, wrong block) must equal the ledger-derived details (block, credits with amount / change / spent flag, debits with amounts), PreviousPkScripts the scripts of debited credits, and RangeTransactions over fixed and random ranges in both directions must report each known transaction exactly once, in block order, honouring early stop.",
  "a second simulation (walletsim/c13w.go) runs the whole wallet over the C06 and C15 workloads and after every operation compares Wallet.GetTransactions over nine height ranges in both directions (each known transaction once, under the right block or as unconfirmed, blocks in range order, nothing else; summaries' own outputs / inputs / debit amounts / account and internal flags) with the known set obtained by direct lookup of every transaction the node ever saw or the wallet authored. " + TB, "DESIGN.md §6 C13")
CHECKS["C14"] = ("ledgersim", "exploration", LEDGER_TECH + "; map iteration order inside wtxmgr is a seeded choice (instrumented range-over-map), 8 different orders per query",
  "After every event Store.UnminedTxs is called under 8 different seeded map-iteration orders and must return a permutation of the ledger's unconfirmed set with every transaction after each unconfirmed parent; DependencySort is additionally fed generated graphs (diamonds, duplicate edges, chains, independent roots, conflicting siblings, parents outside the set). Because range-over-map in wtxmgr is rewritten to a seeded order, an order-dependent failure replays exactly.",
  TB, "DESIGN.md §3.2, §6 C14")
CHECKS["C16"] = ("walletsim", "exploration",
  "deterministic simulation: a chain generated to satisfy the look-ahead condition exactly (addresses derived independently from the seed), then the real wallet restored from the seed with recovery window W on the simulated backend (real BlockFilterer), with seeded interruptions of the recovery; completeness oracle against the generated chain",
  "Blocks pay harness-derived addresses of the four default scopes and both branches with every index at most W-1 beyond the lowest index not yet paid in earlier blocks (jumps to the last index of the window are favoured), later blocks spend recovered outputs, block times have gaps of seconds to days, the birthday is at or before the first paying block; the restore runs locked or unlocked and is interrupted (Stop + reopen, or a lock request) at seeded scheduling points. Afterwards every paid address must be known and marked used, every paying / spending transaction recorded, the spendable set and balance equal the chain's, every branch's key count above the highest used index, and the first filtered block not later than the first paying block.",
  "invalid BIP32 children (probability 2^-127) cannot be produced; chains longer than the 2000-block batch are generated in 1 run of 25. " + TB, "DESIGN.md §6 C16")

CHECKS["C10"] = ("ledgersim+addrsim", "fault_enumeration",
  "deterministic simulation with enumerated fault positions, two simulations run side by side (wtxmgr.Store in ledgersim, waddrmgr.Manager in addrsim): for every sampled mutating operation of the real transaction store and of the real address manager reached by a seeded history, the operation is executed once per mutating database call k with that call failing, once with the commit failing, and once fault-free; pre/post database dumps and the query set are compared with the pre-state and with the reference model",
  "Host histories are the C01 mix (mempool, blocks, rollbacks, RBF, abandon, reconnect, leases). For each enumerated operation instance and each k = 1..n (n = number of mutating database calls of that operation, read off as the last k that fired) the k-th call fails: the operation must report an error (or have its full effect), the rolled-back database dump and the balance / unspent / unconfirmed / lease / details queries must equal the pre-state through the same Store object, a failing commit likewise, and the final fault-free attempt must succeed with exactly the model's effect. fault_enumeration: all k of every selected operation instance (1 in 4 in quick, all in thorough); operations and states are sampled. Evidence lists instances and k positions per operation kind. Address manager (addrsim/c10.go): every read-write transaction of a selected operation (next/extend addresses, new account, rename, imports of keys/scripts/xpub accounts, mark-used, passphrase changes public and private, SetSyncedTo, SetBirthday, ConvertToWatchingOnly, new scoped manager) is attempted with the k-th mutating call failing for k = 1..n, then with the commit failing, then fault-free; after each failed attempt the namespace dump must equal the pre-state, the RUNNING manager must answer the restart observer's ~200 queries, its lock state and its passphrases as before the operation (memory not ahead of disk), a fault must not be swallowed, and the fault-free retry must succeed with the same result as a run without faults.",
  "faults below bbolt (torn pages) are not injected: bbolt is the durable substrate and is exercised for C11. Three address-manager signatures whose root causes are recorded under C08 are listed as known findings. " + TB,
  "DESIGN.md §6 C10")

ADDR_TECH = "deterministic simulation: a real waddrmgr.Manager on bbolt driven by seeded operation histories (next/extend/derive/lookup/mark-used, lock/unlock with right and near-miss passphrases, passphrase changes, accounts incl. imported xpub accounts and custom scopes, key/script imports, sync state, restarts and crash-restarts from commit images, deliberately rolled-back transactions, injected commit/write failures)"
CHECKS["C03"] = ("addrsim+walletsim", "exploration", ADDR_TECH + "; oracle = an independent BIP32 implementation (keyoracle) written in the harness",
  "Every address object returned or looked up is compared with keyoracle (address, type, public key, derivation path and fingerprint, internal flag, account, imported/compressed flags); whenever the model says unlocked and not watch-only its private key must be the oracle's and a signature made with it must verify — for objects returned at issue time, looked up later, created while locked, created by Extend, and loaded after restart; indices per branch consecutive without repetition; imported keys and scripts byte-identical; a second wallet created from the same seed issues the same addresses. keyoracle is cross-checked against hdkeychain and BIP32 test vector 1 in its own unit test.",
  "invalid BIP32 children cannot be produced; accounts created after wallet creation derive from the stored (padded) coin-type key, which the oracle models. Wallet level (walletsim/acctw.go, a second simulation of this property): on simnet the whole wallet is driven through account-import previews (ImportAccountDryRun, always rolled back) and real imports of foreign account keys in seven key-version x address-type variants, NextAccount, addresses of own and imported accounts, dry-run sends, renames, wallet Lock / account operations while locked / Unlock, restarts and blocks; every address of an imported account must be child branch/index of the imported key in the account's own format with true derivation info, previews must show children of the previewed key, and PrivKeyForAddress while unlocked must return the key of exactly the address's public key. " + TB, "DESIGN.md §3.5, §6 C03")
CHECKS["C04"] = ("addrsim+walletsim", "exploration", ADDR_TECH + "; multi-pattern scan of the database file image at commit boundaries for every secret the run produced",
  "The harness keeps the run's secret set (passphrases, seed, master/coin-type/account extended private keys raw and serialised, every derived and imported private key raw and WIF, imported secret scripts) and quasi-secret set (extended public keys, public keys, hash160s, address strings) from keyoracle; commit-boundary images (every commit in thorough, 1 in 8 plus all create/import/passphrase/account/convert commits in quick) are scanned, free pages included, and every stored field is additionally decrypted under the PUBLIC crypto key and searched for secrets. After ConvertToWatchingOnly on a copy the reopened copy must resolve every address, refuse Unlock and every private accessor, and hold no secret.",
  "patterns shorter than 16 bytes are not used (chance matches); no transaction is ever recorded in addrsim, so quasi-secrets must never appear. A second simulation (walletsim/c04w.go) converts through the wallet's own entry point Wallet.InitAccounts(scope, watchOnly=true, n) after issuing addresses / funding, reopens, and checks that every issued address is still known, no passphrase unlocks, no private accessor answers and the image holds none of the run's secrets. " + TB, "DESIGN.md §6 C04")
CHECKS["C05"] = ("addrsim+walletsim", "exploration", ADDR_TECH + "; access-control model over {locked, unlocked, watch-only} plus an overlay probe that hands out aliases of the live clear-text key buffers",
  "After every operation every private-material accessor is probed on managed objects; in locked / watch-only state each must fail with the locked / watching-only error class; the current private passphrase always unlocks, eight near-miss variants never do and leave the manager locked; passphrase changes take effect immediately and after restart. Memory: aliases of master, crypto, account, address and script clear-text buffers and of the derived-key cache captured while unlocked must read all-zero after Lock and after a failed Unlock, and a fresh enumeration must report no live secret.",
  "the memory probe is an add-only overlay file (harness/probes/waddrmgr); the Go garbage collector may keep copies the probe cannot see. addrsim also places another caller's Unlock or Lock INSIDE an uncommitted passphrase change (between ChangePassphrase returning and its transaction committing). Wallet level (walletsim/acctw.go, a second simulation of this property): on simnet the whole wallet is driven through account-import previews (ImportAccountDryRun, always rolled back) and real imports of foreign account keys in seven key-version x address-type variants, NextAccount, addresses of own and imported accounts, dry-run sends, renames, wallet Lock / account operations while locked / Unlock, restarts and blocks; Wallet.Unlock with the current passphrase must always succeed (after previews, imports, restarts) and PrivKeyForAddress must be refused with the locked error while locked. " + TB, "DESIGN.md §6 C05")
CHECKS["C08"] = ("addrsim+walletsim", "exploration", ADDR_TECH + "; restart observer: a fresh manager opened on the latest commit image must answer ~200 queries exactly as the running one",
  "After committed operations (every 4th in quick, all in thorough) and after every rolled-back one, the latest commit image is opened by a fresh waddrmgr.Open and both managers answer the same queries (addresses with all metadata, account properties, last addresses, names, used flags, sync state, block hashes); after a rolled-back transaction (dry-run pattern, closure error, injected commit or write failure) the next committed issuing call must return exactly the address a manager restarted on the image would issue.",
  "addresses only ever derived inside a rolled-back transaction are not queried (they were never issued). Wallet level (walletsim/acctw.go, a second simulation of this property): on simnet the whole wallet is driven through account-import previews (ImportAccountDryRun, always rolled back) and real imports of foreign account keys in seven key-version x address-type variants, NextAccount, addresses of own and imported accounts, dry-run sends, renames, wallet Lock / account operations while locked / Unlock, restarts and blocks; a manager freshly opened on the latest commit image must answer the wallet-level query set (scopes, every account's properties / name / key / schema / counts, last addresses, every issued address with its metadata, sync state) exactly as the running wallet, and the next address the running wallet issues must be the one the reopened copy issues. " + TB, "DESIGN.md §6 C08")

NOT_APPLICABLE = [
 {"property_id": "C07", "reason": "pure function of its input (outputs, fee rate, coin list, change script): no schedule, clock, I/O, fault or history for a simulator to own; the deciding technique would be input enumeration/property-based testing, which is a different family (DESIGN.md §7)"},
]

def main():
    checks = []
    for pid in sorted(CHECKS):
        eng, level, tech, text, note, ref = CHECKS[pid]
        eng = eng.split("+")[0]
        checks.append({
            "property_id": pid,
            "quick_cmd": f"./check {pid} quick",
            "thorough_cmd": f"./check {pid} thorough",
            "evidence_file": f"/verif/evidence/{pid}.json",
            "replay_cmd_template": f"./check {pid} --replay {{path}}",
            "engine": eng,
            "level_claimed": {"category": level, "text": text, "design_ref": ref},
            "level_note": note,
            "technique": tech,
        })
    engines = {}
    for pid, v in CHECKS.items():
        for e in v[0].split("+"):
            engines.setdefault(e, []).append(pid)
    props = [json.loads(l)["id"] for l in open(os.path.join(ROOT, "properties.jsonl"))]
    na = [x for x in NOT_APPLICABLE if x["property_id"] not in CHECKS]
    listed = set(CHECKS) | {x["property_id"] for x in na}
    for p in props:
        if p not in listed:
            na.append({"property_id": p, "reason": "not yet claimed: the simulation for this property is still being built (see DESIGN.md §6 for its design)"})
    m = {
        "version": 1,
        "setup_cmd": "cd /verif && ./check build",
        "hooks": {
            "guard": "none in /repo: all instrumentation is generated at check time from the current working tree and applied with `go build -overlay` (probe files ADDED to packages; rewritten copies of the files containing mutex/go/select statements); bbolt is instrumented in a private copy selected with a go.mod replace. No file under /repo is modified, so there is no build tag to switch off.",
            "enable": "./check <id> runs tools/run-instrument.sh <repo> <workdir> and builds harness/cmd/sim with -overlay <workdir>/overlay.json -modfile <workdir>/go.mod (all six btcwallet modules replaced onto the working tree of $VERIF_REPO, default /repo)",
            "baseline_off_cmd": base["cmd"],
            "source_commits": [],
            "add_only": True,
        },
        "engines": [{"name": e, "path": f"/verif/harness/sims/{e}", "serves_properties": sorted(ps),
                     "kind_free_text": "deterministic simulation (synctest bubble, seeded plans, fault injection, reference-model oracle)"} for e, ps in sorted(engines.items())],
        "checks": checks,
        "notes": "Deterministic simulation with fault injection. ./check <id> [quick|thorough]; exit 0 held, 1 VIOLATION (replay file printed), 2 infrastructure trouble. VERIF_SEED selects the base seed, VERIF_BUDGET_S the exploration budget per worker, VERIF_REPO the tree.",
        "not_applicable": sorted(na, key=lambda x: x["property_id"]),
    }
    json.dump(m, open(os.path.join(ROOT, "MANIFEST.json"), "w"), indent=1)
    print("checks:", [c["property_id"] for c in checks], "not_applicable:", [x["property_id"] for x in m["not_applicable"]])

main()
