#!/bin/bash
# BASE=<commit> evaluates against that commit of /repo instead of HEAD (for
# changes written before a later repair touched the same lines).
# seeded_verify.sh <id> <name> <outdir> <demo-file> <demo-pkg-dir> <module-dir> <test-run-regex>
# Confirms a seeded change in a scratch worktree: demonstration passes on the
# unchanged tree, fails with the change, and the affected module's existing
# tests pass with the change. Then applies it to /repo, runs ./check <id> quick,
# and reverts. Writes /verif/seeded/<name>/{patch.diff,<demo>,meta.json}.
set -u
ID="$1"; NAME="$2"; OUT="$3"; DEMO="$4"; PKG="$5"; MOD="$6"; RUN="$7"
export GOFLAGS=-mod=mod GOPROXY=off GOSUMDB=off
WT=/tmp/me/seedverify-$NAME
rm -rf "$WT"; git -C /repo worktree add --detach "$WT" ${BASE:-HEAD} >/dev/null 2>&1 || exit 2
cp "$OUT/$DEMO" "$WT/$PKG/$DEMO"
( cd "$WT/$PKG" && go test -count=1 -run "$RUN" . ) > /tmp/me/sv-clean.log 2>&1; A=$?
( cd "$WT" && git apply "$OUT/patch.diff" ) || { echo "patch does not apply"; git -C /repo worktree remove --force "$WT"; exit 2; }
( cd "$WT/$PKG" && go test -count=1 -run "$RUN" . ) > /tmp/me/sv-mut.log 2>&1; B=$?
rm -f "$WT/$PKG/$DEMO"
( cd "$WT/$MOD" && go test -count=1 ./... ) > /tmp/me/sv-suite.log 2>&1; C=$?
# chain.TestBitcoindEvents needs a bitcoind binary; it fails on the unchanged
# tree in this sandbox and is not part of the pinned suite (BASELINE.json)
if [ $C -ne 0 ] && ! grep -E "^--- FAIL|^panic|\[build failed\]|\[setup failed\]" /tmp/me/sv-suite.log | grep -qv "TestBitcoindEvents"; then C=0; fi
echo "demo unchanged exit=$A (want 0); demo with change exit=$B (want !=0); existing tests of $MOD with change exit=$C (want 0)"
# run my check against the scratch worktree that carries the change (never
# against /repo itself: other checks may be running from it)
( cd ${VERIF_DIR:-/verif} && VERIF_EVIDENCE_DIR=/tmp/me/sv-evidence VERIF_REPO="$WT" VERIF_BUDGET_S=${BUDGET:-40} ./check "$ID" quick ) > /tmp/me/sv-check-$NAME.log 2>&1; D=$?
cp /tmp/me/sv-check-$NAME.log /tmp/me/sv-check.log
git -C /repo worktree remove --force "$WT"
rm -rf /verif/build/work-$(echo "$WT" | md5sum | cut -c1-8)
grep "violation detail\|VIOLATION\|summary\|INFRA" /tmp/me/sv-check.log | cut -c1-300
echo "check exit=$D"
mkdir -p /verif/seeded/$NAME
cp "$OUT/patch.diff" "$OUT/$DEMO" /verif/seeded/$NAME/
[ -f "$OUT/notes.md" ] && cp "$OUT/notes.md" /verif/seeded/$NAME/
SIGS=$(grep "violation detail" /tmp/me/sv-check.log | sed 's/.*sig=\([^ ]*\).*/\1/' | sort -u | tr '\n' ' ')
python3 - "$ID" "$NAME" "$A" "$B" "$C" "$D" "$SIGS" "$DEMO" "$PKG" "$MOD" "$RUN" <<'PY'
import json,sys
i,name,a,b,c,d,sigs,demo,pkg,mod,run=sys.argv[1:]
meta={"property":i,"name":name,"demonstration":{"file":demo,"place_in":pkg,"run":"go test -count=1 -run '%s' ."%run,
 "passes_on_unchanged_tree":a=="0","fails_with_change":b!="0"},
 "existing_tests_pass_with_change":{"module":mod,"cmd":"go test -count=1 ./...","ok":c=="0"},
 "check":{"cmd":"./check %s quick"%i,"exit":int(d),"caught":d=="1","signatures":sigs.split()},
 "needs_to_manifest":"see notes.md"}
import os
if os.environ.get("BASE"): meta["base_commit"]=os.environ["BASE"]
json.dump(meta,open('/verif/seeded/%s/meta.json'%name,'w'),indent=1)
print(json.dumps(meta["check"]))
PY
