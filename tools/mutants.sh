#!/bin/bash
# mutants.sh [-j N] [-b seconds] [<id> ...]
# Sensitivity regression for the checks themselves: every patch under
# /verif/mutants/<id>/*.diff is applied to a scratch worktree of /repo's HEAD
# (never to /repo), `./check <id> quick` is run against that worktree through
# VERIF_REPO, and the verdict is recorded in /verif/mutants/RESULTS.jsonl
# (one line per mutant: applied?, exit code, signatures). Scratch worktrees and
# their build directories are removed after each mutant.
set -u
J=3; B=30
while getopts "j:b:" o; do case $o in j) J=$OPTARG;; b) B=$OPTARG;; esac; done
shift $((OPTIND-1))
export GOFLAGS=-mod=mod GOPROXY=off GOSUMDB=off GOTOOLCHAIN=local
V=/verif
IDS="$*"
[ -z "$IDS" ] && IDS=$(ls $V/mutants | grep '^C[0-9]')
SCR=/tmp/me/mutants; mkdir -p $SCR
OUT=$V/mutants/RESULTS.jsonl
one() {
  id=$1; diff=$2; name=$(basename "$diff" .diff)
  WT=$SCR/wt-$id-$name
  rm -rf "$WT"; git -C /repo worktree add --detach "$WT" HEAD >/dev/null 2>&1 || { echo "{\"property\":\"$id\",\"mutant\":\"$name\",\"verdict\":\"infra\"}"; return; }
  if ! ( cd "$WT" && git apply "$diff" ) 2>/dev/null; then
    # patches written before the repairs may need fuzz
    if ! ( cd "$WT" && patch -p1 -s -F3 < "$diff" ) >/dev/null 2>&1; then
      git -C /repo worktree remove --force "$WT"
      echo "{\"property\":\"$id\",\"mutant\":\"$name\",\"verdict\":\"does-not-apply\"}"; return
    fi
  fi
  LOG=$SCR/$id-$name.log
  ( cd $V && VERIF_EVIDENCE_DIR=$SCR/evidence VERIF_REPO="$WT" VERIF_BUDGET_S=$B VERIF_WORKERS=$((16/J)) ./check "$id" quick ) > "$LOG" 2>&1; rc=$?
  sigs=$(grep "violation detail" "$LOG" | sed 's/.*sig=\([^ ]*\).*/\1/' | sort -u | head -6 | tr '\n' ' ')
  git -C /repo worktree remove --force "$WT"
  rm -rf $V/build/work-$(echo "$WT" | md5sum | cut -c1-8)
  v=missed; [ $rc -eq 1 ] && v=caught; [ $rc -ge 2 ] && v=infra
  echo "{\"property\":\"$id\",\"mutant\":\"$name\",\"verdict\":\"$v\",\"exit\":$rc,\"signatures\":\"$sigs\",\"repo_head\":\"$(git -C /repo rev-parse --short HEAD)\"}"
  [ $v = caught ] && rm -f "$LOG"
}
export -f one; export V SCR B J
for id in $IDS; do for d in $V/mutants/$id/*.diff; do [ -f "$d" ] && echo "$id $d"; done; done | grep -E "${ONLY:-.}" > $SCR/list.$$
TMPOUT=$SCR/results.$$; : > $TMPOUT
xargs -P $J -L 1 bash -c 'one $0 $1' < $SCR/list.$$ >> $TMPOUT
# merge: newest verdict per (property, mutant)
python3 - "$OUT" "$TMPOUT" <<'PY'
import json,sys,os
out,new=sys.argv[1:]
res={}
for f in (out,new):
    if os.path.exists(f):
        for l in open(f):
            l=l.strip()
            if l:
                e=json.loads(l); res[(e['property'],e['mutant'])]=e
with open(out,'w') as w:
    for k in sorted(res): w.write(json.dumps(res[k])+'\n')
from collections import Counter
c=Counter((e['property'],e['verdict']) for e in res.values())
for k in sorted(c): print(k,c[k])
PY
git -C /repo worktree prune
