// Package faultdb is the disk as btcwallet sees it: a walletdb.DB wrapper
// around the real bdb/bbolt database that can fail the k-th mutating call,
// fail a commit, panic inside a transaction, hand out commit-boundary file
// images, and offer yield points to the scheduler at transaction boundaries.
//
// Everything above walletdb (waddrmgr, wtxmgr, wallet, migration) only ever
// sees the walletdb interfaces, so the wrapper is accepted everywhere.
package faultdb

import (
	"bytes"
	"errors"
	"io"
	"os"

	"github.com/btcsuite/btcwallet/walletdb"
)

// ErrInjected is the error returned by an injected write failure.
var ErrInjected = errors.New("faultdb: injected write failure")

// ErrInjectedCommit is returned by an injected commit failure.
var ErrInjectedCommit = errors.New("faultdb: injected commit failure")

// InjectedPanic is the value panicked with by an injected panic.
type InjectedPanic struct{}

// DB wraps a walletdb.DB.
type DB struct {
	Inner walletdb.DB

	// FailWriteAt: the FailWriteAt-th mutating call counted since the last
	// Arm/Reset returns Err (0 = off). One-shot: fires once.
	FailWriteAt int
	// PanicAt: the PanicAt-th mutating call panics with InjectedPanic.
	PanicAt int
	// FailCommit: the next commit of a read-write transaction is turned into
	// a rollback and returns ErrInjectedCommit. One-shot.
	FailCommit bool
	// Err is the error injected for FailWriteAt (default ErrInjected).
	Err error

	// Writes counts mutating calls since the last Arm/Reset.
	Writes int
	// Fired counts injected faults that actually fired since Arm/Reset.
	Fired int
	// Commits counts successful read-write commits over the DB's lifetime.
	Commits int
	// Rollbacks counts rolled-back read-write transactions (lifetime).
	Rollbacks int
	// LastKind is the kind of the mutating call that the last fault hit.
	LastKind string

	// AfterCommit, if set, runs after every successful read-write commit
	// (after the commit callbacks). Used for file-image capture.
	AfterCommit func(db *DB)
	// Yield, if set, is called at transaction boundaries ("update.begin",
	// "view.begin", "commit.callbacks") so that a scheduler can interleave
	// tasks there.
	Yield func(site string)
	// OnWrite, if set, observes every mutating call (kind, bucket key, key).
	OnWrite func(kind string, key []byte)
}

// Wrap wraps an open database.
func Wrap(inner walletdb.DB) *DB { return &DB{Inner: inner} }

// Arm resets the counters and arms a write failure at the k-th mutating call.
func (d *DB) Arm(k int) {
	d.Reset()
	d.FailWriteAt = k
}

// Reset disarms all faults and zeroes the per-operation counters.
func (d *DB) Reset() {
	d.FailWriteAt, d.PanicAt, d.FailCommit = 0, 0, false
	d.Writes, d.Fired = 0, 0
}

func (d *DB) yield(site string) {
	if d.Yield != nil {
		d.Yield(site)
	}
}

// mutate is called before every mutating call; it returns the injected error
// if this is the armed one.
func (d *DB) mutate(kind string, key []byte) error {
	d.Writes++
	if d.OnWrite != nil {
		d.OnWrite(kind, key)
	}
	if d.PanicAt != 0 && d.Writes == d.PanicAt {
		d.PanicAt = 0
		d.Fired++
		d.LastKind = kind
		panic(InjectedPanic{})
	}
	if d.FailWriteAt != 0 && d.Writes == d.FailWriteAt {
		d.FailWriteAt = 0
		d.Fired++
		d.LastKind = kind
		if d.Err != nil {
			return d.Err
		}
		return ErrInjected
	}
	return nil
}

func (d *DB) BeginReadTx() (walletdb.ReadTx, error) {
	d.yield("view.begin")
	tx, err := d.Inner.BeginReadTx()
	if err != nil {
		return nil, err
	}
	return &rtx{d: d, in: tx}, nil
}

func (d *DB) BeginReadWriteTx() (walletdb.ReadWriteTx, error) {
	d.yield("update.begin")
	tx, err := d.Inner.BeginReadWriteTx()
	if err != nil {
		return nil, err
	}
	return &rwtx{d: d, in: tx, manual: true}, nil
}

func (d *DB) Copy(w io.Writer) error { return d.Inner.Copy(w) }
func (d *DB) Close() error           { return d.Inner.Close() }
func (d *DB) PrintStats() string     { return d.Inner.PrintStats() }

func (d *DB) View(f func(tx walletdb.ReadTx) error, reset func()) error {
	d.yield("view.begin")
	return d.Inner.View(func(tx walletdb.ReadTx) error {
		return f(&rtx{d: d, in: tx})
	}, reset)
}

func (d *DB) Update(f func(tx walletdb.ReadWriteTx) error, reset func()) error {
	d.yield("update.begin")
	injected := false
	err := d.Inner.Update(func(tx walletdb.ReadWriteTx) error {
		if err := f(&rwtx{d: d, in: tx}); err != nil {
			return err
		}
		if d.FailCommit {
			// Returning an error from the function makes the real Update
			// roll back: changes gone, no commit callbacks, error returned —
			// what a failed bbolt commit looks like to the caller.
			d.FailCommit = false
			d.Fired++
			d.LastKind = "commit"
			injected = true
			return ErrInjectedCommit
		}
		return nil
	}, reset)
	if err != nil {
		d.Rollbacks++
		_ = injected
		return err
	}
	d.Commits++
	if d.AfterCommit != nil {
		d.AfterCommit(d)
	}
	return nil
}

// Batch runs f as an ordinary update (the wrapper does not batch).
func (d *DB) Batch(f func(tx walletdb.ReadWriteTx) error) error {
	return d.Update(f, func() {})
}

// Image returns the bytes a crash right now would leave behind: a consistent
// copy of the database file as of the last commit.
func (d *DB) Image() ([]byte, error) {
	var b bytes.Buffer
	if err := d.Inner.Copy(&b); err != nil {
		return nil, err
	}
	return b.Bytes(), nil
}

// WriteImage stores Image() at path.
func (d *DB) WriteImage(path string) error {
	img, err := d.Image()
	if err != nil {
		return err
	}
	return os.WriteFile(path, img, 0o600)
}

// ---- read transaction

type rtx struct {
	d  *DB
	in walletdb.ReadTx
}

func (t *rtx) ReadBucket(key []byte) walletdb.ReadBucket {
	b := t.in.ReadBucket(key)
	if b == nil {
		return nil
	}
	return &rbucket{in: b}
}
func (t *rtx) ForEachBucket(f func(key []byte) error) error { return t.in.ForEachBucket(f) }
func (t *rtx) Rollback() error                              { return t.in.Rollback() }

// rbucket passes reads through; it exists so that code under test cannot
// type-assert its way to a writable bucket.
type rbucket struct{ in walletdb.ReadBucket }

func (b *rbucket) NestedReadBucket(key []byte) walletdb.ReadBucket {
	n := b.in.NestedReadBucket(key)
	if n == nil {
		return nil
	}
	return &rbucket{in: n}
}
func (b *rbucket) ForEach(f func(k, v []byte) error) error { return b.in.ForEach(f) }
func (b *rbucket) Get(key []byte) []byte                   { return b.in.Get(key) }
func (b *rbucket) ReadCursor() walletdb.ReadCursor         { return b.in.ReadCursor() }
func (b *rbucket) Sequence() uint64                        { return b.in.Sequence() }

// ---- read-write transaction

type rwtx struct {
	d      *DB
	in     walletdb.ReadWriteTx
	manual bool
	done   bool
}

func (t *rwtx) ReadBucket(key []byte) walletdb.ReadBucket {
	b := t.in.ReadWriteBucket(key)
	if b == nil {
		return nil
	}
	return &rwbucket{t: t, in: b}
}
func (t *rwtx) ForEachBucket(f func(key []byte) error) error { return t.in.ForEachBucket(f) }
func (t *rwtx) Rollback() error {
	if t.manual && !t.done {
		t.done = true
		t.d.Rollbacks++
	}
	return t.in.Rollback()
}
func (t *rwtx) ReadWriteBucket(key []byte) walletdb.ReadWriteBucket {
	b := t.in.ReadWriteBucket(key)
	if b == nil {
		return nil
	}
	return &rwbucket{t: t, in: b}
}
func (t *rwtx) CreateTopLevelBucket(key []byte) (walletdb.ReadWriteBucket, error) {
	if err := t.d.mutate("CreateTopLevelBucket", key); err != nil {
		return nil, err
	}
	b, err := t.in.CreateTopLevelBucket(key)
	if err != nil || b == nil {
		return nil, err
	}
	return &rwbucket{t: t, in: b}, nil
}
func (t *rwtx) DeleteTopLevelBucket(key []byte) error {
	if err := t.d.mutate("DeleteTopLevelBucket", key); err != nil {
		return err
	}
	return t.in.DeleteTopLevelBucket(key)
}
func (t *rwtx) Commit() error {
	if t.d.FailCommit {
		t.d.FailCommit = false
		t.d.Fired++
		t.d.LastKind = "commit"
		t.done = true
		t.d.Rollbacks++
		_ = t.in.Rollback()
		return ErrInjectedCommit
	}
	err := t.in.Commit()
	if t.manual && !t.done {
		t.done = true
		if err == nil {
			t.d.Commits++
			if t.d.AfterCommit != nil {
				t.d.AfterCommit(t.d)
			}
		} else {
			t.d.Rollbacks++
		}
	}
	return err
}
func (t *rwtx) OnCommit(f func()) {
	t.in.OnCommit(func() {
		t.d.yield("commit.callbacks")
		f()
	})
}

type rwbucket struct {
	t  *rwtx
	in walletdb.ReadWriteBucket
}

func (b *rwbucket) NestedReadBucket(key []byte) walletdb.ReadBucket {
	n := b.in.NestedReadWriteBucket(key)
	if n == nil {
		return nil
	}
	return &rwbucket{t: b.t, in: n}
}
func (b *rwbucket) ForEach(f func(k, v []byte) error) error { return b.in.ForEach(f) }
func (b *rwbucket) Get(key []byte) []byte                   { return b.in.Get(key) }
func (b *rwbucket) ReadCursor() walletdb.ReadCursor         { return b.in.ReadCursor() }
func (b *rwbucket) Sequence() uint64                        { return b.in.Sequence() }
func (b *rwbucket) NestedReadWriteBucket(key []byte) walletdb.ReadWriteBucket {
	n := b.in.NestedReadWriteBucket(key)
	if n == nil {
		return nil
	}
	return &rwbucket{t: b.t, in: n}
}
func (b *rwbucket) CreateBucket(key []byte) (walletdb.ReadWriteBucket, error) {
	if err := b.t.d.mutate("CreateBucket", key); err != nil {
		return nil, err
	}
	n, err := b.in.CreateBucket(key)
	if err != nil || n == nil {
		return nil, err
	}
	return &rwbucket{t: b.t, in: n}, nil
}
func (b *rwbucket) CreateBucketIfNotExists(key []byte) (walletdb.ReadWriteBucket, error) {
	if err := b.t.d.mutate("CreateBucketIfNotExists", key); err != nil {
		return nil, err
	}
	n, err := b.in.CreateBucketIfNotExists(key)
	if err != nil || n == nil {
		return nil, err
	}
	return &rwbucket{t: b.t, in: n}, nil
}
func (b *rwbucket) DeleteNestedBucket(key []byte) error {
	if err := b.t.d.mutate("DeleteNestedBucket", key); err != nil {
		return err
	}
	return b.in.DeleteNestedBucket(key)
}
func (b *rwbucket) Put(key, value []byte) error {
	if err := b.t.d.mutate("Put", key); err != nil {
		return err
	}
	return b.in.Put(key, value)
}
func (b *rwbucket) Delete(key []byte) error {
	if err := b.t.d.mutate("Delete", key); err != nil {
		return err
	}
	return b.in.Delete(key)
}
func (b *rwbucket) ReadWriteCursor() walletdb.ReadWriteCursor {
	return &rwcursor{b: b, in: b.in.ReadWriteCursor()}
}
func (b *rwbucket) Tx() walletdb.ReadWriteTx { return b.t }
func (b *rwbucket) NextSequence() (uint64, error) {
	if err := b.t.d.mutate("NextSequence", nil); err != nil {
		return 0, err
	}
	return b.in.NextSequence()
}
func (b *rwbucket) SetSequence(v uint64) error {
	if err := b.t.d.mutate("SetSequence", nil); err != nil {
		return err
	}
	return b.in.SetSequence(v)
}

type rwcursor struct {
	b  *rwbucket
	in walletdb.ReadWriteCursor
}

func (c *rwcursor) First() (k, v []byte)          { return c.in.First() }
func (c *rwcursor) Last() (k, v []byte)           { return c.in.Last() }
func (c *rwcursor) Next() (k, v []byte)           { return c.in.Next() }
func (c *rwcursor) Prev() (k, v []byte)           { return c.in.Prev() }
func (c *rwcursor) Seek(s []byte) (k, v []byte)   { return c.in.Seek(s) }
func (c *rwcursor) Delete() error {
	if err := c.b.t.d.mutate("CursorDelete", nil); err != nil {
		return err
	}
	return c.in.Delete()
}
