// Package keyoracle is the reference model for hierarchical key derivation
// and address encoding: an independent BIP32 implementation (CKDpriv /
// CKDpub over btcec: HMAC-SHA512, scalar addition mod n, point addition)
// with btcsuite's legacy leading-zero rule as a flag, the BIP86 taproot
// tweak, and address encoders for P2PKH / nested P2WKH / P2WKH / P2TR.
//
// It never calls hdkeychain's derivation nor anything in waddrmgr. btcutil's
// address constructors are used for the final text encoding only (base58check
// / bech32 are not what is under test; the derivation is).
package keyoracle

import (
	"crypto/hmac"
	"crypto/sha256"
	"crypto/sha512"
	"encoding/binary"
	"errors"
	"fmt"

	"github.com/btcsuite/btcd/btcec/v2"
	"github.com/btcsuite/btcd/btcutil"
	"github.com/btcsuite/btcd/btcutil/base58"
	"github.com/btcsuite/btcd/chaincfg"
)

// Hardened is the first hardened child index.
const Hardened uint32 = 0x80000000

// ErrInvalidChild is returned for the (probability 2^-127) indices that do
// not derive to a usable key.
var ErrInvalidChild = errors.New("keyoracle: invalid child")

// ErrHardenedFromPublic is returned by Child on a public key with i >= 2^31.
var ErrHardenedFromPublic = errors.New("keyoracle: hardened child of a public key")

// ExtKey is an extended key: a private scalar (or nil), the public point,
// the chain code and the serialization metadata.
type ExtKey struct {
	priv     *[32]byte // big-endian scalar, nil for a public extended key
	pub      *btcec.PublicKey
	Chain    [32]byte
	Depth    uint8
	ParentFP [4]byte
	ChildNum uint32
}

// IsPrivate tells whether the key carries the private scalar.
func (k *ExtKey) IsPrivate() bool { return k.priv != nil }

// PrivBytes returns a copy of the 32-byte big-endian private scalar (nil for
// public keys).
func (k *ExtKey) PrivBytes() []byte {
	if k.priv == nil {
		return nil
	}
	b := make([]byte, 32)
	copy(b, k.priv[:])
	return b
}

// PubKey returns the public point.
func (k *ExtKey) PubKey() *btcec.PublicKey { return k.pub }

// PubBytes returns the 33-byte compressed public key.
func (k *ExtKey) PubBytes() []byte { return k.pub.SerializeCompressed() }

// HasLeadingZero reports whether the private scalar starts with a zero byte
// (the case in which btcsuite's legacy hardened derivation departs from
// BIP32).
func (k *ExtKey) HasLeadingZero() bool { return k.priv != nil && k.priv[0] == 0 }

func pubFromScalar(s *btcec.ModNScalar) *btcec.PublicKey {
	var j btcec.JacobianPoint
	btcec.ScalarBaseMultNonConst(s, &j)
	j.ToAffine()
	return btcec.NewPublicKey(&j.X, &j.Y)
}

// Master returns m for a seed: I = HMAC-SHA512("Bitcoin seed", seed).
func Master(seed []byte) (*ExtKey, error) {
	if len(seed) < 16 || len(seed) > 64 {
		return nil, fmt.Errorf("keyoracle: seed length %d", len(seed))
	}
	mac := hmac.New(sha512.New, []byte("Bitcoin seed"))
	mac.Write(seed)
	I := mac.Sum(nil)
	var s btcec.ModNScalar
	if overflow := s.SetByteSlice(I[:32]); overflow || s.IsZero() {
		return nil, ErrInvalidChild
	}
	k := &ExtKey{priv: new([32]byte)}
	copy(k.priv[:], I[:32])
	copy(k.Chain[:], I[32:])
	k.pub = pubFromScalar(&s)
	return k, nil
}

// Child derives child i. For a private key it is CKDpriv, for a public key
// CKDpub (i must then be < 2^31).
//
// legacy selects btcsuite's historical rule for HARDENED children of a
// private key whose scalar has leading zero bytes: the key material is
// placed left-aligned after the 0x00 pad byte (0x00 || stripped-key ||
// zero fill) instead of BIP32's ser256 (right-aligned). With no leading zero
// byte the two rules coincide. Non-hardened derivation is unaffected.
func (k *ExtKey) Child(i uint32, legacy bool) (*ExtKey, error) {
	data := make([]byte, 37)
	if i >= Hardened {
		if k.priv == nil {
			return nil, ErrHardenedFromPublic
		}
		if legacy {
			stripped := k.priv[:]
			for len(stripped) > 0 && stripped[0] == 0 {
				stripped = stripped[1:]
			}
			copy(data[1:], stripped)
		} else {
			copy(data[1:33], k.priv[:])
		}
	} else {
		copy(data, k.pub.SerializeCompressed())
	}
	binary.BigEndian.PutUint32(data[33:], i)
	mac := hmac.New(sha512.New, k.Chain[:])
	mac.Write(data)
	I := mac.Sum(nil)

	var il btcec.ModNScalar
	if overflow := il.SetByteSlice(I[:32]); overflow || il.IsZero() {
		return nil, ErrInvalidChild
	}
	c := &ExtKey{Depth: k.Depth + 1, ChildNum: i}
	copy(c.Chain[:], I[32:])
	copy(c.ParentFP[:], btcutil.Hash160(k.pub.SerializeCompressed())[:4])
	if k.priv != nil {
		var kp btcec.ModNScalar
		kp.SetByteSlice(k.priv[:])
		kp.Add(&il)
		if kp.IsZero() {
			return nil, ErrInvalidChild
		}
		b := kp.Bytes()
		c.priv = &b
		c.pub = pubFromScalar(&kp)
		return c, nil
	}
	var ilJ, pJ, sum btcec.JacobianPoint
	btcec.ScalarBaseMultNonConst(&il, &ilJ)
	k.pub.AsJacobian(&pJ)
	btcec.AddNonConst(&ilJ, &pJ, &sum)
	if (sum.X.IsZero() && sum.Y.IsZero()) || sum.Z.IsZero() {
		return nil, ErrInvalidChild
	}
	sum.ToAffine()
	c.pub = btcec.NewPublicKey(&sum.X, &sum.Y)
	return c, nil
}

// Neuter returns the public extended key.
func (k *ExtKey) Neuter() *ExtKey {
	c := *k
	c.priv = nil
	return &c
}

// Fingerprint is the first four bytes of HASH160(compressed pubkey) as the
// big-endian integer hardware wallets use.
func (k *ExtKey) Fingerprint() uint32 {
	return binary.BigEndian.Uint32(btcutil.Hash160(k.pub.SerializeCompressed())[:4])
}

// Serialize returns the base58check text form with the given 4-byte version
// (xprv/xpub/tprv/tpub ...).
func (k *ExtKey) Serialize(version [4]byte) string {
	b := make([]byte, 0, 82)
	b = append(b, version[:]...)
	b = append(b, k.Depth)
	b = append(b, k.ParentFP[:]...)
	var cn [4]byte
	binary.BigEndian.PutUint32(cn[:], k.ChildNum)
	b = append(b, cn[:]...)
	b = append(b, k.Chain[:]...)
	if k.priv != nil {
		b = append(b, 0)
		b = append(b, k.priv[:]...)
	} else {
		b = append(b, k.pub.SerializeCompressed()...)
	}
	h1 := sha256.Sum256(b)
	h2 := sha256.Sum256(h1[:])
	b = append(b, h2[:4]...)
	return base58.Encode(b)
}

// XPrv / XPub serialize with the network's BIP32 versions.
func (k *ExtKey) XPrv(net *chaincfg.Params) string { return k.Serialize(net.HDPrivateKeyID) }
func (k *ExtKey) XPub(net *chaincfg.Params) string {
	return k.Neuter().Serialize(net.HDPublicKeyID)
}

// ---------------------------------------------------------------- addresses

// AddrType mirrors the four key-based address formats of the wallet. The
// numeric values are the oracle's own (they are translated by the caller).
type AddrType int

const (
	P2PKH AddrType = iota
	NP2WKH
	P2WKH
	P2TR
)

func (t AddrType) String() string {
	switch t {
	case P2PKH:
		return "p2pkh"
	case NP2WKH:
		return "np2wkh"
	case P2WKH:
		return "p2wkh"
	case P2TR:
		return "p2tr"
	}
	return "?"
}

func taggedHash(tag string, msgs ...[]byte) [32]byte {
	t := sha256.Sum256([]byte(tag))
	h := sha256.New()
	h.Write(t[:])
	h.Write(t[:])
	for _, m := range msgs {
		h.Write(m)
	}
	var out [32]byte
	copy(out[:], h.Sum(nil))
	return out
}

// TaprootOutputKey computes the BIP86 output key Q = lift_x(P) + H_TapTweak(x(P))*G
// and returns its 32-byte x-only serialization.
func TaprootOutputKey(internal *btcec.PublicKey) []byte {
	ser := internal.SerializeCompressed()
	x := ser[1:]
	// lift_x: the point with this x and even y.
	even := make([]byte, 33)
	even[0] = 0x02
	copy(even[1:], x)
	p, err := btcec.ParsePubKey(even)
	if err != nil {
		panic("keyoracle: lift_x failed: " + err.Error())
	}
	th := taggedHash("TapTweak", x)
	var t btcec.ModNScalar
	t.SetByteSlice(th[:])
	var tG, pJ, q btcec.JacobianPoint
	btcec.ScalarBaseMultNonConst(&t, &tG)
	p.AsJacobian(&pJ)
	btcec.AddNonConst(&tG, &pJ, &q)
	q.ToAffine()
	qs := btcec.NewPublicKey(&q.X, &q.Y).SerializeCompressed()
	return qs[1:]
}

// ScriptID returns the bytes the wallet keys an address by (hash160 of the
// key, hash160 of the nested script, or the x-only taproot output key).
func ScriptID(pub *btcec.PublicKey, t AddrType) []byte {
	h := btcutil.Hash160(pub.SerializeCompressed())
	switch t {
	case P2PKH, P2WKH:
		return h
	case NP2WKH:
		script := append([]byte{0x00, 0x14}, h...)
		return btcutil.Hash160(script)
	case P2TR:
		return TaprootOutputKey(pub)
	}
	return nil
}

// NestedScript is the redeem script 0 <20-byte key hash> of a nested P2WKH
// address.
func NestedScript(pub *btcec.PublicKey) []byte {
	return append([]byte{0x00, 0x14}, btcutil.Hash160(pub.SerializeCompressed())...)
}

// Address encodes the (compressed) public key in the given format.
func Address(pub *btcec.PublicKey, t AddrType, net *chaincfg.Params) (btcutil.Address, error) {
	id := ScriptID(pub, t)
	switch t {
	case P2PKH:
		return btcutil.NewAddressPubKeyHash(id, net)
	case P2WKH:
		return btcutil.NewAddressWitnessPubKeyHash(id, net)
	case NP2WKH:
		return btcutil.NewAddressScriptHashFromHash(id, net)
	case P2TR:
		return btcutil.NewAddressTaproot(id, net)
	}
	return nil, fmt.Errorf("keyoracle: unknown address type %d", t)
}

// WIF encodes a private key in wallet import format (base58check of
// netID || key || [0x01]).
func WIF(priv []byte, compressed bool, net *chaincfg.Params) string {
	b := make([]byte, 0, 38)
	b = append(b, net.PrivateKeyID)
	b = append(b, priv...)
	if compressed {
		b = append(b, 0x01)
	}
	h1 := sha256.Sum256(b)
	h2 := sha256.Sum256(h1[:])
	b = append(b, h2[:4]...)
	return base58.Encode(b)
}

// ---------------------------------------------------------------- wallet tree

// Scope is m/purpose'/coin'.
type Scope struct{ Purpose, Coin uint32 }

// Oracle answers (scope, account, branch, index) <-> key for one seed the way
// btcwallet lays its tree out:
//
//	m -> purpose' -> coin' -> account' -> branch -> index
//
// Hardened steps follow btcsuite's legacy rule. One subtlety is modelled
// exactly as the code base behaves and is documented where addrsim uses it:
// the account key of account 0 is derived from the in-memory coin-type key
// (legacy rule applies if that key has a leading zero byte), whereas keys of
// later accounts are derived from the coin-type key after it went through its
// text serialization (32 bytes with the zero kept), for which the legacy rule
// and BIP32 coincide. Both wallets created from the same seed do the same, so
// "re-created from the same seed issues the same addresses" is unaffected.
type Oracle struct {
	Seed   []byte
	Net    *chaincfg.Params
	master *ExtKey
	coin   map[Scope]*ExtKey
	purp   map[Scope]*ExtKey
	acct   map[acctKey]*ExtKey
	branch map[branchKey]*ExtKey
}

type acctKey struct {
	s Scope
	a uint32
}
type branchKey struct {
	s Scope
	a uint32
	b uint32
}

// New builds the oracle for a seed.
func New(seed []byte, net *chaincfg.Params) (*Oracle, error) {
	m, err := Master(seed)
	if err != nil {
		return nil, err
	}
	return &Oracle{Seed: append([]byte(nil), seed...), Net: net, master: m,
		coin: map[Scope]*ExtKey{}, purp: map[Scope]*ExtKey{},
		acct: map[acctKey]*ExtKey{}, branch: map[branchKey]*ExtKey{}}, nil
}

// MasterKey is m.
func (o *Oracle) MasterKey() *ExtKey { return o.master }

// PurposeKey is m/purpose'. The master key always keeps its 32 bytes in
// btcsuite's implementation, so this step equals BIP32 under either rule.
func (o *Oracle) PurposeKey(s Scope) (*ExtKey, error) {
	if k, ok := o.purp[s]; ok {
		return k, nil
	}
	k, err := o.master.Child(s.Purpose+Hardened, false)
	if err != nil {
		return nil, err
	}
	o.purp[s] = k
	return k, nil
}

// CoinTypeKey is m/purpose'/coin' (legacy rule on the purpose key).
func (o *Oracle) CoinTypeKey(s Scope) (*ExtKey, error) {
	if k, ok := o.coin[s]; ok {
		return k, nil
	}
	p, err := o.PurposeKey(s)
	if err != nil {
		return nil, err
	}
	k, err := p.Child(s.Coin+Hardened, true)
	if err != nil {
		return nil, err
	}
	o.coin[s] = k
	return k, nil
}

// AccountKey is m/purpose'/coin'/account'. See the type comment for the
// account-0 subtlety.
func (o *Oracle) AccountKey(s Scope, account uint32) (*ExtKey, error) {
	ak := acctKey{s, account}
	if k, ok := o.acct[ak]; ok {
		return k, nil
	}
	c, err := o.CoinTypeKey(s)
	if err != nil {
		return nil, err
	}
	k, err := c.Child(account+Hardened, account == 0)
	if err != nil {
		return nil, err
	}
	o.acct[ak] = k
	return k, nil
}

// LeadingZeroOnPath reports whether the purpose or coin-type key of the scope
// has a leading zero byte, i.e. whether the legacy rule is actually exercised
// for that scope.
func (o *Oracle) LeadingZeroOnPath(s Scope) (purpose, coin bool) {
	p, err := o.PurposeKey(s)
	if err != nil {
		return false, false
	}
	c, err := o.CoinTypeKey(s)
	if err != nil {
		return p.HasLeadingZero(), false
	}
	return p.HasLeadingZero(), c.HasLeadingZero()
}

// AddrKey is account/branch/index below an account key (private or public).
// Non-hardened steps: the rule flag is irrelevant.
func AddrKey(acct *ExtKey, branch, index uint32) (*ExtKey, error) {
	b, err := acct.Child(branch, true)
	if err != nil {
		return nil, err
	}
	return b.Child(index, true)
}

// Key returns the extended private key of (scope, account, branch, index).
func (o *Oracle) Key(s Scope, account, branch, index uint32) (*ExtKey, error) {
	bk := branchKey{s, account, branch}
	b, ok := o.branch[bk]
	if !ok {
		a, err := o.AccountKey(s, account)
		if err != nil {
			return nil, err
		}
		b, err = a.Child(branch, true)
		if err != nil {
			return nil, err
		}
		o.branch[bk] = b
	}
	return b.Child(index, true)
}
