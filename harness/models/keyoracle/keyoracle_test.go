package keyoracle

import (
	"bytes"
	"encoding/hex"
	"testing"

	"github.com/btcsuite/btcd/btcec/v2"
	"github.com/btcsuite/btcd/btcec/v2/schnorr"
	"github.com/btcsuite/btcd/btcutil"
	"github.com/btcsuite/btcd/btcutil/hdkeychain"
	"github.com/btcsuite/btcd/chaincfg"
	"github.com/btcsuite/btcd/txscript"

	"verifsim/core"
)

// BIP32 test vector 1.
func TestBIP32Vector1(t *testing.T) {
	seed, _ := hex.DecodeString("000102030405060708090a0b0c0d0e0f")
	net := &chaincfg.MainNetParams
	m, err := Master(seed)
	if err != nil {
		t.Fatal(err)
	}
	type step struct {
		i          uint32
		xpub, xprv string
	}
	if got := m.XPrv(net); got != "xprv9s21ZrQH143K3QTDL4LXw2F7HEK3wJUD2nW2nRk4stbPy6cq3jPPqjiChkVvvNKmPGJxWUtg6LnF5kejMRNNU3TGtRBeJgk33yuGBxrMPHi" {
		t.Fatalf("m xprv: %s", got)
	}
	if got := m.XPub(net); got != "xpub661MyMwAqRbcFtXgS5sYJABqqG9YLmC4Q1Rdap9gSE8NqtwybGhePY2gZ29ESFjqJoCu1Rupje8YtGqsefD265TMg7usUDFdp6W1EGMcet8" {
		t.Fatalf("m xpub: %s", got)
	}
	steps := []step{
		{Hardened + 0, "xpub68Gmy5EdvgibQVfPdqkBBCHxA5htiqg55crXYuXoQRKfDBFA1WEjWgP6LHhwBZeNK1VTsfTFUHCdrfp1bgwQ9xv5ski8PX9rL2dZXvgGDnw",
			"xprv9uHRZZhk6KAJC1avXpDAp4MDc3sQKNxDiPvvkX8Br5ngLNv1TxvUxt4cV1rGL5hj6KCesnDYUhd7oWgT11eZG7XnxHrnYeSvkzY7d2bhkJ7"},
		{1, "xpub6ASuArnXKPbfEwhqN6e3mwBcDTgzisQN1wXN9BJcM47sSikHjJf3UFHKkNAWbWMiGj7Wf5uMash7SyYq527Hqck2AxYysAA7xmALppuCkwQ",
			"xprv9wTYmMFdV23N2TdNG573QoEsfRrWKQgWeibmLntzniatZvR9BmLnvSxqu53Kw1UmYPxLgboyZQaXwTCg8MSY3H2EU4pWcQDnRnrVA1xe8fs"},
		{Hardened + 2, "xpub6D4BDPcP2GT577Vvch3R8wDkScZWzQzMMUm3PWbmWvVJrZwQY4VUNgqFJPMM3No2dFDFGTsxxpG5uJh7n7epu4trkrX7x7DogT5Uv6fcLW5",
			"xprv9z4pot5VBttmtdRTWfWQmoH1taj2axGVzFqSb8C9xaxKymcFzXBDptWmT7FwuEzG3ryjH4ktypQSAewRiNMjANTtpgP4mLTj34bhnZX7UiM"},
		{2, "xpub6FHa3pjLCk84BayeJxFW2SP4XRrFd1JYnxeLeU8EqN3vDfZmbqBqaGJAyiLjTAwm6ZLRQUMv1ZACTj37sR62cfN7fe5JnJ7dh8zL4fiyLHV",
			"xprvA2JDeKCSNNZky6uBCviVfJSKyQ1mDYahRjijr5idH2WwLsEd4Hsb2Tyh8RfQMuPh7f7RtyzTtdrbdqqsunu5Mm3wDvUAKRHSC34sJ7in334"},
		{1000000000, "xpub6H1LXWLaKsWFhvm6RVpEL9P4KfRZSW7abD2ttkWP3SSQvnyA8FSVqNTEcYFgJS2UaFcxupHiYkro49S8yGasTvXEYBVPamhGW6cFJodrTHy",
			"xprvA41z7zogVVwxVSgdKUHDy1SKmdb533PjDz7J6N6mV6uS3ze1ai8FHa8kmHScGpWmj4WggLyQjgPie1rFSruoUihUZREPSL39UNdE3BBDu76"},
	}
	k := m
	kpub := (*ExtKey)(nil)
	for n, s := range steps {
		k, err = k.Child(s.i, false)
		if err != nil {
			t.Fatal(err)
		}
		if got := k.XPrv(net); got != s.xprv {
			t.Fatalf("step %d xprv: %s", n, got)
		}
		if got := k.XPub(net); got != s.xpub {
			t.Fatalf("step %d xpub: %s", n, got)
		}
		// CKDpub must agree with CKDpriv on non-hardened steps.
		if s.i < Hardened && kpub != nil {
			c, err := kpub.Child(s.i, false)
			if err != nil {
				t.Fatal(err)
			}
			if got := c.XPub(net); got != s.xpub {
				t.Fatalf("step %d CKDpub: %s", n, got)
			}
		}
		kpub = k.Neuter()
	}
}

// Two independent implementations agreeing on random paths (neither is
// waddrmgr): keyoracle vs hdkeychain, standard rule vs Derive and legacy rule
// vs DeriveNonStandard, private and public derivation, serialization.
func TestAgainstHdkeychainRandomPaths(t *testing.T) {
	nets := []*chaincfg.Params{&chaincfg.MainNetParams, &chaincfg.TestNet3Params, &chaincfg.RegressionNetParams}
	r := core.NewRand(20260927)
	for run := 0; run < 300; run++ {
		net := nets[r.Intn(len(nets))]
		seed := r.Bytes(r.Range(16, 64))
		m, err := Master(seed)
		if err != nil {
			t.Fatal(err)
		}
		hm, err := hdkeychain.NewMaster(seed, net)
		if err != nil {
			t.Fatal(err)
		}
		if m.XPrv(net) != hm.String() {
			t.Fatalf("master differs")
		}
		for _, legacy := range []bool{false, true} {
			k, hk := m, hm
			depth := r.Range(1, 6)
			for d := 0; d < depth; d++ {
				var i uint32
				switch r.Intn(4) {
				case 0:
					i = uint32(r.Intn(5))
				case 1:
					i = Hardened + uint32(r.Intn(100))
				case 2:
					i = uint32(r.Uint64() & 0x7fffffff)
				default:
					i = Hardened + uint32(r.Uint64()&0x7fffffff)
				}
				// hdkeychain keeps all 32 bytes of the master key (NewMaster),
				// so the legacy rule can only bite below depth 0.
				k, err = k.Child(i, legacy && d > 0)
				if err != nil {
					t.Fatal(err)
				}
				if legacy {
					hk, err = hk.DeriveNonStandard(i) // nolint:staticcheck
				} else {
					hk, err = hk.Derive(i)
				}
				if err != nil {
					t.Fatal(err)
				}
				hp, _ := hk.ECPrivKey()
				if !bytes.Equal(hp.Serialize(), k.PrivBytes()) {
					t.Fatalf("run %d legacy=%v depth %d index %d: private keys differ", run, legacy, d, i)
				}
				if k.XPrv(net) != hk.String() {
					// hdkeychain's legacy path stores stripped key bytes but pads on
					// serialization, so the text forms must agree too.
					t.Fatalf("xprv text differs: %s vs %s", k.XPrv(net), hk.String())
				}
				hn, _ := hk.Neuter()
				if k.XPub(net) != hn.String() {
					t.Fatalf("xpub text differs")
				}
			}
			// public derivation below the last key
			kp, hn := k.Neuter(), func() *hdkeychain.ExtendedKey { n, _ := hk.Neuter(); return n }()
			for d := 0; d < 2; d++ {
				i := uint32(r.Uint64() & 0x7fffffff)
				kp, err = kp.Child(i, legacy)
				if err != nil {
					t.Fatal(err)
				}
				hn, err = hn.Derive(i)
				if err != nil {
					t.Fatal(err)
				}
				hpk, _ := hn.ECPubKey()
				if !hpk.IsEqual(kp.PubKey()) {
					t.Fatalf("CKDpub differs")
				}
				// and it equals the private derivation
				k, _ = k.Child(i, legacy)
				if !k.PubKey().IsEqual(kp.PubKey()) {
					t.Fatalf("CKDpub != neuter(CKDpriv)")
				}
			}
		}
	}
}

// A seed whose intermediate key has a leading zero byte: the legacy rule and
// BIP32 must differ for the hardened child, and each must match its
// hdkeychain counterpart.
func TestLegacyLeadingZero(t *testing.T) {
	r := core.NewRand(7)
	found := 0
	for try := 0; try < 20000 && found < 3; try++ {
		seed := r.Bytes(32)
		m, _ := Master(seed)
		p, err := m.Child(Hardened+44, false)
		if err != nil || !p.HasLeadingZero() {
			continue
		}
		found++
		std, _ := p.Child(Hardened, false)
		leg, _ := p.Child(Hardened, true)
		if bytes.Equal(std.PrivBytes(), leg.PrivBytes()) {
			t.Fatalf("legacy and standard agree despite leading zero")
		}
		hm, _ := hdkeychain.NewMaster(seed, &chaincfg.MainNetParams)
		hp, _ := hm.DeriveNonStandard(Hardened + 44) // nolint:staticcheck
		hl, _ := hp.DeriveNonStandard(Hardened)      // nolint:staticcheck
		hs, _ := hp.Derive(Hardened)
		a, _ := hl.ECPrivKey()
		b, _ := hs.ECPrivKey()
		if !bytes.Equal(a.Serialize(), leg.PrivBytes()) {
			t.Fatalf("legacy != DeriveNonStandard")
		}
		if !bytes.Equal(b.Serialize(), std.PrivBytes()) {
			t.Fatalf("standard != Derive")
		}
		// a key that went through its text form keeps 32 bytes: legacy == standard
		hp2, _ := hdkeychain.NewKeyFromString(hp.String())
		hl2, _ := hp2.DeriveNonStandard(Hardened) // nolint:staticcheck
		c, _ := hl2.ECPrivKey()
		if !bytes.Equal(c.Serialize(), std.PrivBytes()) {
			t.Fatalf("reparsed legacy != standard")
		}
	}
	if found == 0 {
		t.Fatalf("no leading-zero seed found")
	}
}

// Address encoders against btcd's txscript/btcutil on random keys.
func TestAddressEncoders(t *testing.T) {
	r := core.NewRand(99)
	net := &chaincfg.TestNet3Params
	for i := 0; i < 200; i++ {
		priv, pub := btcec.PrivKeyFromBytes(r.Bytes(32))
		_ = priv
		tap := txscript.ComputeTaprootKeyNoScript(pub)
		if !bytes.Equal(schnorr.SerializePubKey(tap), TaprootOutputKey(pub)) {
			t.Fatalf("taproot tweak differs")
		}
		a, err := Address(pub, NP2WKH, net)
		if err != nil {
			t.Fatal(err)
		}
		w, _ := btcutil.NewAddressWitnessPubKeyHash(btcutil.Hash160(pub.SerializeCompressed()), net)
		ws, _ := txscript.PayToAddrScript(w)
		n, _ := btcutil.NewAddressScriptHash(ws, net)
		if a.String() != n.String() {
			t.Fatalf("nested address differs")
		}
		wif, _ := btcutil.NewWIF(priv, net, i%2 == 0)
		if WIF(priv.Serialize(), i%2 == 0, net) != wif.String() {
			t.Fatalf("WIF differs")
		}
	}
}

// The wallet tree: purpose/coin/account with the account-0 subtlety, against
// hdkeychain performing the same sequence of calls waddrmgr performs.
func TestOracleTree(t *testing.T) {
	r := core.NewRand(5)
	net := &chaincfg.MainNetParams
	for i := 0; i < 50; i++ {
		seed := r.Bytes(32)
		o, err := New(seed, net)
		if err != nil {
			t.Fatal(err)
		}
		s := Scope{Purpose: uint32(r.Intn(100)), Coin: uint32(r.Intn(3))}
		hm, _ := hdkeychain.NewMaster(seed, net)
		hp, _ := hm.DeriveNonStandard(s.Purpose + Hardened) // nolint:staticcheck
		hc, _ := hp.DeriveNonStandard(s.Coin + Hardened)    // nolint:staticcheck
		ha0, _ := hc.DeriveNonStandard(Hardened)            // nolint:staticcheck
		hc2, _ := hdkeychain.NewKeyFromString(hc.String())
		ha3, _ := hc2.DeriveNonStandard(Hardened + 3) // nolint:staticcheck
		a0, _ := o.AccountKey(s, 0)
		a3, _ := o.AccountKey(s, 3)
		if a0.XPrv(net) != ha0.String() || a3.XPrv(net) != ha3.String() {
			t.Fatalf("account keys differ")
		}
		k, _ := o.Key(s, 3, 1, 17)
		hb, _ := ha3.DeriveNonStandard(1) // nolint:staticcheck
		hk, _ := hb.DeriveNonStandard(17) // nolint:staticcheck
		hpk, _ := hk.ECPrivKey()
		if !bytes.Equal(hpk.Serialize(), k.PrivBytes()) {
			t.Fatalf("address key differs")
		}
	}
}
