package dbmodel

import (
	"fmt"

	"github.com/btcsuite/btcwallet/walletdb"
)

// TxReader is what a dump needs from a transaction (read or read-write).
type TxReader interface {
	ReadBucket(key []byte) walletdb.ReadBucket
	ForEachBucket(func(key []byte) error) error
}

// DumpTx reads the whole database through a transaction into a model tree
// (only the walletdb read interfaces are used). prob describes an ordering /
// consistency problem seen while reading ("" if none): keys not strictly
// ascending, a listed bucket that cannot be opened, a value for a bucket key.
// Values are copied: they are only valid during the transaction.
func DumpTx(tx TxReader) (root *Bucket, prob string) {
	root = NewBucket()
	var names []string
	err := tx.ForEachBucket(func(k []byte) error {
		names = append(names, string(k))
		return nil
	})
	if err != nil {
		return root, "ForEachBucket: " + err.Error()
	}
	for i, n := range names {
		if i > 0 && names[i-1] >= n {
			prob = fmt.Sprintf("order: ForEachBucket not strictly ascending: %x then %x", names[i-1], n)
		}
		b := tx.ReadBucket([]byte(n))
		if b == nil {
			return root, fmt.Sprintf("ForEachBucket listed %x but ReadBucket returns nil", n)
		}
		sub, pr := DumpBucket(b)
		root.Sub[n] = sub
		if pr != "" && prob == "" {
			prob = pr
		}
	}
	return root, prob
}

// MaxDumpDepth bounds the recursion of a dump: a bucket adapter that hands
// out an ancestor as "nested bucket" would otherwise recurse for ever.
const MaxDumpDepth = 12

// DumpBucket reads one bucket recursively.
func DumpBucket(b walletdb.ReadBucket) (out *Bucket, prob string) { return dumpBucket(b, 1) }

func dumpBucket(b walletdb.ReadBucket, depth int) (out *Bucket, prob string) {
	out = NewBucket()
	if depth > MaxDumpDepth {
		return out, fmt.Sprintf("buckets nested deeper than %d: a nested bucket seems to contain itself", MaxDumpDepth)
	}
	out.Seq = b.Sequence()
	var subs []string
	prev, first := "", true
	err := b.ForEach(func(k, v []byte) error {
		ks := string(k)
		if !first && prev >= ks {
			prob = fmt.Sprintf("order: ForEach not strictly ascending: %x then %x", prev, ks)
		}
		prev, first = ks, false
		if nb := b.NestedReadBucket(k); nb != nil {
			if v != nil {
				prob = fmt.Sprintf("ForEach gave a non-nil value for nested bucket %x", ks)
			}
			subs = append(subs, ks)
		} else {
			out.KV[ks] = append([]byte{}, v...)
		}
		return nil
	})
	if err != nil {
		return out, "ForEach: " + err.Error()
	}
	for _, s := range subs {
		nb := b.NestedReadBucket([]byte(s))
		if nb == nil {
			return out, fmt.Sprintf("nested bucket %x vanished during dump", s)
		}
		sub, pr := dumpBucket(nb, depth+1)
		out.Sub[s] = sub
		if pr != "" && prob == "" {
			prob = pr
		}
	}
	return out, prob
}
