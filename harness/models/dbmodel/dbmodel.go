// Package dbmodel is the reference model of a walletdb database: a tree of
// buckets, each holding byte-string keys that map either to a value or to a
// nested bucket, plus a per-bucket sequence number. It is written from the
// walletdb interface documentation (and, where that is silent, from what the
// property statements need: presence, byte equality, ordering), not from
// bbolt: plain Go maps, sorted on demand, copy-on-snapshot. It shares no code
// and no data structure with the implementation.
//
// Snapshots are deep copies (Clone); a transaction works on a clone of the
// committed tree and either replaces it (commit) or is dropped (rollback).
package dbmodel

import (
	"bytes"
	"encoding/binary"
	"fmt"
	"hash/fnv"
	"sort"
)

// Err names the documented walletdb error an operation must produce ("" =
// success). The simulation maps the names onto the walletdb error values.
type Err string

const (
	OK                    Err = ""
	ErrKeyRequired        Err = "ErrKeyRequired"
	ErrKeyTooLarge        Err = "ErrKeyTooLarge"
	ErrBucketNameRequired Err = "ErrBucketNameRequired"
	ErrBucketExists       Err = "ErrBucketExists"
	ErrBucketNotFound     Err = "ErrBucketNotFound"
	ErrIncompatibleValue  Err = "ErrIncompatibleValue"
	// ErrAny: the call must fail, the interface does not say with which
	// error (deleting a bucket with the empty name: it cannot exist, and
	// bbolt answers ErrBucketNotFound or ErrIncompatibleValue depending on
	// whether the parent is empty).
	ErrAny Err = "error"
)

// MaxKeySize is the largest key a Put accepts (walletdb.ErrKeyTooLarge
// beyond it; the bdb backend inherits bbolt's limit).
const MaxKeySize = 32768

// Bucket is one namespace: values, nested buckets and a sequence. A key is
// either in KV or in Sub, never in both.
type Bucket struct {
	KV  map[string][]byte
	Sub map[string]*Bucket
	Seq uint64
}

func NewBucket() *Bucket {
	return &Bucket{KV: map[string][]byte{}, Sub: map[string]*Bucket{}}
}

// Clone returns a deep copy (snapshot).
func (b *Bucket) Clone() *Bucket {
	c := &Bucket{KV: make(map[string][]byte, len(b.KV)), Sub: make(map[string]*Bucket, len(b.Sub)), Seq: b.Seq}
	for k, v := range b.KV {
		c.KV[k] = append([]byte{}, v...)
	}
	for k, s := range b.Sub {
		c.Sub[k] = s.Clone()
	}
	return c
}

// Keys returns all keys of the bucket (values and nested buckets) in
// ascending byte order.
func (b *Bucket) Keys() []string {
	ks := make([]string, 0, len(b.KV)+len(b.Sub))
	for k := range b.KV {
		ks = append(ks, k)
	}
	for k := range b.Sub {
		ks = append(ks, k)
	}
	sort.Strings(ks) // Go string comparison is bytewise
	return ks
}

// ValueKeys returns the keys that hold values, ascending.
func (b *Bucket) ValueKeys() []string {
	ks := make([]string, 0, len(b.KV))
	for k := range b.KV {
		ks = append(ks, k)
	}
	sort.Strings(ks)
	return ks
}

// SubKeys returns the keys that hold nested buckets, ascending.
func (b *Bucket) SubKeys() []string {
	ks := make([]string, 0, len(b.Sub))
	for k := range b.Sub {
		ks = append(ks, k)
	}
	sort.Strings(ks)
	return ks
}

// Len is the number of keys (values + nested buckets).
func (b *Bucket) Len() int { return len(b.KV) + len(b.Sub) }

// Walk follows a path of nested bucket names; nil if any is missing.
func (b *Bucket) Walk(path []string) *Bucket {
	cur := b
	for _, p := range path {
		n, ok := cur.Sub[p]
		if !ok {
			return nil
		}
		cur = n
	}
	return cur
}

// SeekIndex returns the index in keys (ascending) of the first key >= seek,
// or len(keys).
func SeekIndex(keys []string, seek string) int {
	return sort.SearchStrings(keys, seek)
}

// Put stores a value.
func (b *Bucket) Put(k string, v []byte) Err {
	switch {
	case len(k) == 0:
		return ErrKeyRequired
	case len(k) > MaxKeySize:
		return ErrKeyTooLarge
	}
	if _, isB := b.Sub[k]; isB {
		return ErrIncompatibleValue
	}
	b.KV[k] = append([]byte{}, v...)
	return OK
}

// Delete removes a value; a missing key is not an error.
func (b *Bucket) Delete(k string) Err {
	if _, isB := b.Sub[k]; isB {
		return ErrIncompatibleValue
	}
	delete(b.KV, k)
	return OK
}

// CreateBucket creates a nested bucket.
func (b *Bucket) CreateBucket(k string) (*Bucket, Err) {
	if len(k) == 0 {
		return nil, ErrBucketNameRequired
	}
	if _, isB := b.Sub[k]; isB {
		return nil, ErrBucketExists
	}
	if _, isV := b.KV[k]; isV {
		return nil, ErrIncompatibleValue
	}
	n := NewBucket()
	b.Sub[k] = n
	return n, OK
}

// CreateBucketIfNotExists creates or returns a nested bucket.
func (b *Bucket) CreateBucketIfNotExists(k string) (*Bucket, Err) {
	if len(k) == 0 {
		return nil, ErrBucketNameRequired
	}
	if n, isB := b.Sub[k]; isB {
		return n, OK
	}
	return b.CreateBucket(k)
}

// DeleteBucket removes a nested bucket and everything below it.
func (b *Bucket) DeleteBucket(k string) Err {
	if len(k) == 0 {
		return ErrAny
	}
	if _, isV := b.KV[k]; isV {
		return ErrIncompatibleValue
	}
	if _, isB := b.Sub[k]; !isB {
		return ErrBucketNotFound
	}
	delete(b.Sub, k)
	return OK
}

// NextSequence increments and returns the sequence.
func (b *Bucket) NextSequence() uint64 { b.Seq++; return b.Seq }

// TotalBytes is a rough size of the subtree (keys + values).
func (b *Bucket) TotalBytes() int {
	n := 0
	for k, v := range b.KV {
		n += len(k) + len(v)
	}
	for k, s := range b.Sub {
		n += len(k) + s.TotalBytes()
	}
	return n
}

// CountBuckets is the number of buckets in the subtree below b.
func (b *Bucket) CountBuckets() int {
	n := 0
	for _, s := range b.Sub {
		n += 1 + s.CountBuckets()
	}
	return n
}

// Diff describes the first difference between two trees ("" if equal). Values
// are compared by bytes (nil and empty are the same value).
func Diff(want, got *Bucket) string { return diff(want, got, "/") }

func diff(want, got *Bucket, path string) string {
	if want.Seq != got.Seq {
		return fmt.Sprintf("%s: sequence want %d got %d", path, want.Seq, got.Seq)
	}
	wk, gk := want.Keys(), got.Keys()
	for i := 0; i < len(wk) || i < len(gk); i++ {
		switch {
		case i >= len(wk):
			return fmt.Sprintf("%s: unexpected key %x", path, gk[i])
		case i >= len(gk):
			return fmt.Sprintf("%s: missing key %x", path, wk[i])
		case wk[i] != gk[i]:
			if wk[i] < gk[i] {
				return fmt.Sprintf("%s: missing key %x", path, wk[i])
			}
			return fmt.Sprintf("%s: unexpected key %x", path, gk[i])
		}
	}
	for _, k := range wk {
		ws, wIsB := want.Sub[k]
		gs, gIsB := got.Sub[k]
		if wIsB != gIsB {
			return fmt.Sprintf("%s: key %x: want bucket=%v got bucket=%v", path, k, wIsB, gIsB)
		}
		if wIsB {
			if d := diff(ws, gs, path+fmt.Sprintf("%x/", k)); d != "" {
				return d
			}
			continue
		}
		if !bytes.Equal(want.KV[k], got.KV[k]) {
			return fmt.Sprintf("%s: key %x: want value %s got %s", path, k, Short(want.KV[k]), Short(got.KV[k]))
		}
	}
	return ""
}

// Short renders bytes for messages.
func Short(b []byte) string {
	if len(b) > 24 {
		return fmt.Sprintf("%x..(%d bytes)", b[:24], len(b))
	}
	return fmt.Sprintf("%x", b)
}

// Digest is a hash of the whole tree (order independent of map iteration).
func (b *Bucket) Digest() uint64 {
	h := fnv.New64a()
	b.digest(h.Write)
	return h.Sum64()
}

func (b *Bucket) digest(w func([]byte) (int, error)) {
	var n [8]byte
	binary.LittleEndian.PutUint64(n[:], b.Seq)
	w(n[:])
	for _, k := range b.Keys() {
		binary.LittleEndian.PutUint64(n[:], uint64(len(k)))
		w(n[:])
		w([]byte(k))
		if s, ok := b.Sub[k]; ok {
			w([]byte{1})
			s.digest(w)
			w([]byte{2})
			continue
		}
		v := b.KV[k]
		binary.LittleEndian.PutUint64(n[:], uint64(len(v)))
		w([]byte{0})
		w(n[:])
		w(v)
	}
}
