// Package ledger is the reference model ("ledger truth") of what a wallet
// transaction store must report. It is written from the TEXT of properties
// C01, C02, C12, C13 and C14, not from wtxmgr's implementation:
//
//   - the state is only: the set of known transactions, each with
//     `block (hash, height, time) | unmined` and its set of credited
//     (output index, change) pairs; the leases (outpoint -> id, expiry); and
//     the coinbase maturity constant;
//   - every reported quantity (spent, balance, unspent, outputs to watch,
//     details, ranges, topological predicate) is a FOLD over that set that is
//     recomputed from scratch on every call. There are no running totals, no
//     indexes and no spent flags, so the model cannot share the failure mode
//     of an incrementally maintained counter;
//   - the transition rules are the sentences of C02 (disconnect, confirm) and
//     C12 (lease, release, expiry, confirmed spend).
//
// Nothing in here imports btcwallet code.
package ledger

import (
	"bytes"
	"fmt"
	"hash/fnv"
	"sort"
	"time"

	"github.com/btcsuite/btcd/chaincfg/chainhash"
	"github.com/btcsuite/btcd/wire"
)

// Block identifies a block of the best chain as the node announced it.
type Block struct {
	Hash   chainhash.Hash
	Height int32
	Time   time.Time
}

// Tx is one known transaction.
type Tx struct {
	Hash chainhash.Hash
	Msg  *wire.MsgTx
	// Credits is the set of credited (wallet-owned) output indexes; the value
	// is the change flag.
	Credits map[uint32]bool
	// Block is the block that currently confirms the transaction; nil while
	// it is unconfirmed.
	Block *Block
}

// LockID mirrors the 32-byte lease identifier.
type LockID [32]byte

// Lease is one lease entry. An entry whose expiry has been reached is dead
// (the output is available again) whether or not it has been swept.
type Lease struct {
	ID     LockID
	Expiry time.Time
}

// Ledger is the whole model state.
type Ledger struct {
	Maturity int32
	Txs      map[chainhash.Hash]*Tx
	Leases   map[wire.OutPoint]Lease
}

// New returns an empty ledger.
func New(maturity int32) *Ledger {
	return &Ledger{
		Maturity: maturity,
		Txs:      map[chainhash.Hash]*Tx{},
		Leases:   map[wire.OutPoint]Lease{},
	}
}

// Clone returns a deep copy of the state (transactions are immutable and
// shared; their status is copied).
func (l *Ledger) Clone() *Ledger {
	c := New(l.Maturity)
	for h, t := range l.Txs {
		n := *t
		if t.Block != nil {
			b := *t.Block
			n.Block = &b
		}
		c.Txs[h] = &n
	}
	for op, le := range l.Leases {
		c.Leases[op] = le
	}
	return c
}

// IsCoinbase: a coinbase has exactly one input whose previous outpoint is the
// null hash with index 0xffffffff (consensus definition).
func IsCoinbase(m *wire.MsgTx) bool {
	if len(m.TxIn) != 1 {
		return false
	}
	p := m.TxIn[0].PreviousOutPoint
	return p.Index == 0xffffffff && p.Hash == (chainhash.Hash{})
}

// ---------------------------------------------------------------- helpers

func hashLess(a, b *chainhash.Hash) bool { return bytes.Compare(a[:], b[:]) < 0 }

// SortedHashes returns the known transaction hashes in byte order (the model
// never exposes Go map order).
func (l *Ledger) SortedHashes() []chainhash.Hash {
	hs := make([]chainhash.Hash, 0, len(l.Txs))
	for h := range l.Txs {
		hs = append(hs, h)
	}
	sort.Slice(hs, func(i, j int) bool { return hashLess(&hs[i], &hs[j]) })
	return hs
}

// CreditIndexes returns the credited output indexes of t in ascending order.
func (t *Tx) CreditIndexes() []uint32 {
	ix := make([]uint32, 0, len(t.Credits))
	for i := range t.Credits {
		ix = append(ix, i)
	}
	sort.Slice(ix, func(a, b int) bool { return ix[a] < ix[b] })
	return ix
}

// Known reports whether the transaction is currently known.
func (l *Ledger) Known(h chainhash.Hash) bool { return l.Txs[h] != nil }

// View is an index over the current set, built from scratch by (*Ledger).View
// on every use: the transactions in canonical order, and for every outpoint /
// transaction hash the known transactions spending it. It is a derived value
// (a fold), never maintained incrementally; it must not be kept across a
// transition.
type View struct {
	*Ledger
	hashes   []chainhash.Hash
	spenders map[wire.OutPoint][]*Tx
	children map[chainhash.Hash][]*Tx
}

// View builds the index from the set.
func (l *Ledger) View() *View {
	v := &View{Ledger: l, hashes: l.SortedHashes(),
		spenders: map[wire.OutPoint][]*Tx{}, children: map[chainhash.Hash][]*Tx{}}
	for _, h := range v.hashes {
		t := l.Txs[h]
		seenOp := map[wire.OutPoint]bool{}
		seenTx := map[chainhash.Hash]bool{}
		for _, in := range t.Msg.TxIn {
			op := in.PreviousOutPoint
			if !seenOp[op] {
				seenOp[op] = true
				v.spenders[op] = append(v.spenders[op], t)
			}
			if !seenTx[op.Hash] {
				seenTx[op.Hash] = true
				v.children[op.Hash] = append(v.children[op.Hash], t)
			}
		}
	}
	return v
}

// Spenders returns the known transactions that have an input spending op.
func (v *View) Spenders(op wire.OutPoint) []*Tx { return v.spenders[op] }

// Spenders (convenience; builds a fresh view).
func (l *Ledger) Spenders(op wire.OutPoint) []*Tx { return l.View().Spenders(op) }

// Spent: some known transaction (confirmed or not) spends op.
func (v *View) Spent(op wire.OutPoint) bool { return len(v.spenders[op]) > 0 }

// Spent (convenience; builds a fresh view).
func (l *Ledger) Spent(op wire.OutPoint) bool { return l.View().Spent(op) }

// SpentByMined: some known CONFIRMED transaction spends op.
func (v *View) SpentByMined(op wire.OutPoint) bool {
	for _, s := range v.spenders[op] {
		if s.Block != nil {
			return true
		}
	}
	return false
}

// SpentByUnmined: some known UNCONFIRMED transaction spends op.
func (v *View) SpentByUnmined(op wire.OutPoint) bool {
	for _, s := range v.spenders[op] {
		if s.Block == nil {
			return true
		}
	}
	return false
}

// Credit returns the known transaction and whether op is one of its credited
// outputs.
func (l *Ledger) Credit(op wire.OutPoint) (*Tx, bool) {
	t := l.Txs[op.Hash]
	if t == nil {
		return nil, false
	}
	_, ok := t.Credits[op.Index]
	return t, ok
}

// Children returns the known transactions spending ANY output of h.
func (v *View) Children(h chainhash.Hash) []*Tx { return v.children[h] }

// Descendants returns every known transaction that depends (transitively, via
// any output) on one of the roots; the roots themselves are not included
// unless they descend from another root. keep filters which transactions are
// followed/collected (nil = all).
func (v *View) Descendants(roots []chainhash.Hash, keep func(*Tx) bool) []chainhash.Hash {
	seen := map[chainhash.Hash]bool{}
	var order []chainhash.Hash
	var walk func(h chainhash.Hash)
	walk = func(h chainhash.Hash) {
		for _, c := range v.Children(h) {
			if seen[c.Hash] || (keep != nil && !keep(c)) {
				continue
			}
			seen[c.Hash] = true
			order = append(order, c.Hash)
			walk(c.Hash)
		}
	}
	for _, r := range roots {
		walk(r)
	}
	return order
}

// DescendantDepth returns the number of levels of known descendants below h
// (0 = none). Used only for reach counters.
func (v *View) DescendantDepth(h chainhash.Hash) int {
	d := 0
	for _, c := range v.Children(h) {
		if x := 1 + v.DescendantDepth(c.Hash); x > d {
			d = x
		}
	}
	return d
}

// Conflicts returns the known transactions other than m itself that spend an
// outpoint m spends.
func (v *View) Conflicts(m *wire.MsgTx) []*Tx {
	self := m.TxHash()
	seen := map[chainhash.Hash]bool{}
	var out []*Tx
	for _, in := range m.TxIn {
		for _, s := range v.spenders[in.PreviousOutPoint] {
			if s.Hash != self && !seen[s.Hash] {
				seen[s.Hash] = true
				out = append(out, s)
			}
		}
	}
	return out
}

// ---------------------------------------------------------------- transitions

func copyCredits(c map[uint32]bool) map[uint32]bool {
	n := make(map[uint32]bool, len(c))
	for k, v := range c {
		n[k] = v
	}
	return n
}

// InsertUnmined: an unconfirmed transaction is seen. Seeing a transaction that
// is already known (confirmed or not) again changes nothing (repeated
// delivery). Returns true when the transaction became known.
func (l *Ledger) InsertUnmined(m *wire.MsgTx, credits map[uint32]bool) bool {
	h := m.TxHash()
	if l.Txs[h] != nil {
		return false
	}
	l.Txs[h] = &Tx{Hash: h, Msg: m, Credits: copyCredits(credits)}
	return true
}

// ConfirmResult says what a confirmation did.
type ConfirmResult struct {
	// Changed is false for a repeated delivery of the same (tx, block) fact.
	Changed bool
	// WasUnmined: the transaction was known as unconfirmed before.
	WasUnmined bool
	// Removed lists the unconfirmed conflicts and their unconfirmed
	// descendants that disappeared.
	Removed []chainhash.Hash
	// LeasesCleared lists the leased outpoints released by this confirmed
	// spend.
	LeasesCleared []wire.OutPoint
}

// Confirm: the transaction is confirmed in blk. C02: "when a transaction
// confirms, every unconfirmed transaction that conflicts with it, and all
// unconfirmed descendants of those, disappear and unrelated ones stay".
// C12: "a confirmed spend of the output removes the lease".
func (l *Ledger) Confirm(m *wire.MsgTx, credits map[uint32]bool, blk Block) ConfirmResult {
	h := m.TxHash()
	var res ConfirmResult
	t := l.Txs[h]
	if t != nil && t.Block != nil && t.Block.Hash == blk.Hash && t.Block.Height == blk.Height {
		return res // same fact delivered again
	}
	res.Changed = true
	b := blk
	if t == nil {
		t = &Tx{Hash: h, Msg: m, Credits: copyCredits(credits)}
		l.Txs[h] = t
	} else {
		res.WasUnmined = t.Block == nil
	}
	t.Block = &b

	// conflicting unconfirmed transactions and their unconfirmed descendants
	unmined := func(x *Tx) bool { return x.Block == nil }
	var roots []chainhash.Hash
	v := l.View()
	for _, c := range v.Conflicts(m) {
		if c.Block == nil {
			roots = append(roots, c.Hash)
		}
	}
	gone := append([]chainhash.Hash{}, roots...)
	gone = append(gone, v.Descendants(roots, unmined)...)
	res.Removed = l.remove(gone)

	for _, in := range m.TxIn {
		if _, ok := l.Leases[in.PreviousOutPoint]; ok {
			delete(l.Leases, in.PreviousOutPoint)
			res.LeasesCleared = append(res.LeasesCleared, in.PreviousOutPoint)
		}
	}
	return res
}

func (l *Ledger) remove(hs []chainhash.Hash) []chainhash.Hash {
	var out []chainhash.Hash
	for _, h := range hs {
		if l.Txs[h] != nil {
			delete(l.Txs, h)
			out = append(out, h)
		}
	}
	return out
}

// DisconnectResult says what a disconnection did.
type DisconnectResult struct {
	Unmined []chainhash.Hash // became unconfirmed again, credits intact
	Removed []chainhash.Hash // coinbases of disconnected blocks and everything depending on them
	Blocks  []Block          // the disconnected blocks that held known transactions (ascending height)
	// ViaNonWallet is the subset of Removed that depends on a disconnected
	// coinbase ONLY through outputs of the coinbase that are not wallet
	// credits (classification aid for violation signatures; the transition
	// itself does not distinguish).
	ViaNonWallet []chainhash.Hash
}

// Disconnect: all blocks at height >= height are disconnected. C02: "their
// non-coinbase transactions become unconfirmed again with their credits
// intact, while coinbase transactions of disconnected blocks and every
// transaction depending on them disappear".
func (l *Ledger) Disconnect(height int32) DisconnectResult {
	var res DisconnectResult
	var coinbases []chainhash.Hash
	seenBlk := map[chainhash.Hash]bool{}
	for _, h := range l.SortedHashes() {
		t := l.Txs[h]
		if t.Block == nil || t.Block.Height < height {
			continue
		}
		if !seenBlk[t.Block.Hash] {
			seenBlk[t.Block.Hash] = true
			res.Blocks = append(res.Blocks, *t.Block)
		}
		if IsCoinbase(t.Msg) {
			coinbases = append(coinbases, h)
			continue
		}
		t.Block = nil
		res.Unmined = append(res.Unmined, h)
	}
	sort.Slice(res.Blocks, func(i, j int) bool { return res.Blocks[i].Height < res.Blocks[j].Height })
	v := l.View()
	gone := append([]chainhash.Hash{}, coinbases...)
	gone = append(gone, v.Descendants(coinbases, nil)...)
	// classification: what is reachable when the first hop leaves the
	// coinbase through a credited output
	viaCredit := map[chainhash.Hash]bool{}
	for _, cb := range coinbases {
		var first []chainhash.Hash
		for _, c := range v.Children(cb) {
			for _, in := range c.Msg.TxIn {
				if _, ok := l.Txs[cb].Credits[in.PreviousOutPoint.Index]; ok && in.PreviousOutPoint.Hash == cb {
					first = append(first, c.Hash)
					break
				}
			}
		}
		for _, h := range first {
			viaCredit[h] = true
		}
		for _, h := range v.Descendants(first, nil) {
			viaCredit[h] = true
		}
	}
	isCB := map[chainhash.Hash]bool{}
	for _, cb := range coinbases {
		isCB[cb] = true
	}
	for _, h := range gone {
		if !isCB[h] && !viaCredit[h] {
			res.ViaNonWallet = append(res.ViaNonWallet, h)
		}
	}
	res.Removed = l.remove(gone)
	// a transaction listed as "became unconfirmed" that then disappeared is
	// only reported as removed
	var still []chainhash.Hash
	for _, h := range res.Unmined {
		if l.Txs[h] != nil {
			still = append(still, h)
		}
	}
	res.Unmined = still
	return res
}

// RemoveUnmined: an unconfirmed transaction is abandoned; it and every
// transaction depending on it disappear (C02/C20: descendants go too).
// Returns the removed hashes; nothing happens unless h is known and
// unconfirmed.
func (l *Ledger) RemoveUnmined(h chainhash.Hash) []chainhash.Hash {
	t := l.Txs[h]
	if t == nil || t.Block != nil {
		return nil
	}
	gone := []chainhash.Hash{h}
	gone = append(gone, l.View().Descendants([]chainhash.Hash{h}, nil)...)
	return l.remove(gone)
}

// ---------------------------------------------------------------- leases

// Leased: op has a lease whose expiry has not been reached ("available again
// exactly when ... the lease's expiry time is reached": now >= expiry).
func (l *Ledger) Leased(op wire.OutPoint, now time.Time) bool {
	le, ok := l.Leases[op]
	return ok && now.Before(le.Expiry)
}

// Knowledge of an output for the purpose of leasing.
const (
	OutputUnknown  = 0 // not a credited output of any known transaction: leasing must fail
	OutputKnown    = 1 // credited output of a known transaction without a confirmed spender
	OutputUnstated = 2 // credited, but a confirmed transaction spends it: the statement is silent
)

// OutputKnowledge classifies op for "leasing an output the wallet does not
// know fails".
func (l *Ledger) OutputKnowledge(op wire.OutPoint) int {
	if _, ok := l.Credit(op); !ok {
		return OutputUnknown
	}
	if l.View().SpentByMined(op) {
		return OutputUnstated
	}
	return OutputKnown
}

// Lease outcomes.
const (
	LeaseOK         = "nil"
	LeaseUnknown    = "ErrUnknownOutput"
	LeaseAlready    = "ErrOutputAlreadyLocked"
	LeaseNotAllowed = "ErrOutputUnlockNotAllowed"
)

// Lock leases op to id for d starting at now. Same id: extension. Another id
// holding a live lease: refused. The returned expiry is now + d.
// The caller decides what to do for OutputUnstated (this method treats it as
// known when force is true and as unknown otherwise).
func (l *Ledger) Lock(id LockID, op wire.OutPoint, d time.Duration, now time.Time, treatUnstatedAsKnown bool) (time.Time, string) {
	switch l.OutputKnowledge(op) {
	case OutputUnknown:
		return time.Time{}, LeaseUnknown
	case OutputUnstated:
		if !treatUnstatedAsKnown {
			return time.Time{}, LeaseUnknown
		}
	}
	if l.Leased(op, now) && l.Leases[op].ID != id {
		return time.Time{}, LeaseAlready
	}
	exp := now.Add(d)
	l.Leases[op] = Lease{ID: id, Expiry: exp}
	return exp, LeaseOK
}

// Unlock releases op if id holds it. Releasing an output that is not leased
// (or whose lease has expired) succeeds and changes nothing.
func (l *Ledger) Unlock(id LockID, op wire.OutPoint, now time.Time, treatUnstatedAsKnown bool) string {
	switch l.OutputKnowledge(op) {
	case OutputUnknown:
		return LeaseUnknown
	case OutputUnstated:
		if !treatUnstatedAsKnown {
			return LeaseUnknown
		}
	}
	if !l.Leased(op, now) {
		return LeaseOK
	}
	if l.Leases[op].ID != id {
		return LeaseNotAllowed
	}
	delete(l.Leases, op)
	return LeaseOK
}

// Sweep drops the entries whose expiry has been reached. It returns how many
// were dropped and how many live ones remain.
func (l *Ledger) Sweep(now time.Time) (expired, live int) {
	for _, op := range l.LeasedOutpoints() {
		if !now.Before(l.Leases[op].Expiry) {
			delete(l.Leases, op)
			expired++
		} else {
			live++
		}
	}
	return
}

// LeasedOutpoints returns all lease entries' outpoints (live or not) in a
// canonical order.
func (l *Ledger) LeasedOutpoints() []wire.OutPoint {
	ops := make([]wire.OutPoint, 0, len(l.Leases))
	for op := range l.Leases {
		ops = append(ops, op)
	}
	sort.Slice(ops, func(i, j int) bool {
		if c := bytes.Compare(ops[i].Hash[:], ops[j].Hash[:]); c != 0 {
			return c < 0
		}
		return ops[i].Index < ops[j].Index
	})
	return ops
}

// ---------------------------------------------------------------- folds (C01)

// Utxo is one spendable output as C01 describes it.
type Utxo struct {
	OutPoint wire.OutPoint
	Amount   int64
	PkScript []byte
	Block    *Block // nil = unconfirmed
	Coinbase bool
	Change   bool
}

// LeaseMode selects how leases are taken into account by the folds (the
// alternatives exist only to classify a mismatch, never to accept one).
type LeaseMode int

const (
	LeasesByExpiry LeaseMode = iota // the property: live iff now < expiry
	LeasesIgnored                   // as if nothing was leased
	LeasesAllLive                   // as if every entry, expired or not, was live
)

func (l *Ledger) leasedMode(op wire.OutPoint, now time.Time, mode LeaseMode) bool {
	switch mode {
	case LeasesIgnored:
		return false
	case LeasesAllLive:
		_, ok := l.Leases[op]
		return ok
	}
	return l.Leased(op, now)
}

// Confirmations of a transaction at a sync height (0 for unconfirmed).
func Confirmations(t *Tx, syncHeight int32) int32 {
	if t.Block == nil {
		return 0
	}
	return syncHeight - t.Block.Height + 1
}

// Balance (C01): "the sum of the wallet-credited, positive-value outputs of
// currently known transactions that no known transaction spends, that are not
// leased, that have at least that many confirmations (unconfirmed ones count
// only at zero) and that, if coinbase, have matured".
func (v *View) Balance(minConf, syncHeight int32, now time.Time) int64 {
	return v.BalanceMode(minConf, syncHeight, now, LeasesByExpiry)
}

// Balance (convenience; builds a fresh view).
func (l *Ledger) Balance(minConf, syncHeight int32, now time.Time) int64 {
	return l.View().Balance(minConf, syncHeight, now)
}

func (v *View) BalanceMode(minConf, syncHeight int32, now time.Time, mode LeaseMode) int64 {
	l := v.Ledger
	var sum int64
	for _, h := range v.hashes {
		t := l.Txs[h]
		confs := Confirmations(t, syncHeight)
		if t.Block == nil {
			if minConf != 0 {
				continue
			}
		} else if confs < minConf {
			continue
		}
		if IsCoinbase(t.Msg) && (t.Block == nil || confs < l.Maturity) {
			continue
		}
		for _, i := range t.CreditIndexes() {
			val := t.Msg.TxOut[i].Value
			op := wire.OutPoint{Hash: h, Index: i}
			if val <= 0 || v.Spent(op) || l.leasedMode(op, now, mode) {
				continue
			}
			sum += val
		}
	}
	return sum
}

// Unspent (C01): "the list of spendable outputs is exactly the credited
// outputs that are unspent and unleased, each with its correct amount,
// confirming block and coinbase flag".
func (v *View) Unspent(now time.Time) []Utxo {
	l := v.Ledger
	var out []Utxo
	for _, h := range v.hashes {
		t := l.Txs[h]
		for _, i := range t.CreditIndexes() {
			op := wire.OutPoint{Hash: h, Index: i}
			if v.Spent(op) || l.Leased(op, now) {
				continue
			}
			out = append(out, l.utxo(t, i))
		}
	}
	return out
}

func (l *Ledger) utxo(t *Tx, i uint32) Utxo {
	return Utxo{
		OutPoint: wire.OutPoint{Hash: t.Hash, Index: i},
		Amount:   t.Msg.TxOut[i].Value,
		PkScript: t.Msg.TxOut[i].PkScript,
		Block:    t.Block,
		Coinbase: IsCoinbase(t.Msg),
		Change:   t.Credits[i],
	}
}

// WatchLower: every credited output of a known transaction that no CONFIRMED
// transaction spends (leased ones and unconfirmed ones included) must be
// watched. WatchUpper: nothing but credited outputs of known transactions may
// be reported.
func (v *View) WatchLower() []Utxo {
	l := v.Ledger
	var out []Utxo
	for _, h := range v.hashes {
		t := l.Txs[h]
		for _, i := range t.CreditIndexes() {
			if !v.SpentByMined(wire.OutPoint{Hash: h, Index: i}) {
				out = append(out, l.utxo(t, i))
			}
		}
	}
	return out
}

// ---------------------------------------------------------------- folds (C02/C13)

// UnminedHashes returns the hashes of the known unconfirmed transactions.
func (l *Ledger) UnminedHashes() []chainhash.Hash {
	var out []chainhash.Hash
	for _, h := range l.SortedHashes() {
		if l.Txs[h].Block == nil {
			out = append(out, h)
		}
	}
	return out
}

// CreditRec / DebitRec / Details: what C13 says the history shows.
type CreditRec struct {
	Index  uint32
	Amount int64
	Change bool
	Spent  bool
}
type DebitRec struct {
	Index  uint32 // input index
	Amount int64
}
type Details struct {
	Hash    chainhash.Hash
	Block   *Block // nil = unconfirmed (reported with height -1)
	Credits []CreditRec
	Debits  []DebitRec
	// PrevScripts are the scripts of the debited credits, in input order.
	PrevScripts [][]byte
}

// Details (C13): "each credited output listed with its amount, change flag and
// a spent flag that is true exactly when a known confirmed or unconfirmed
// transaction spends it, and with a debit entry carrying the spent amount for
// exactly those inputs that spend wallet credits". nil when unknown.
func (v *View) Details(h chainhash.Hash) *Details {
	l := v.Ledger
	t := l.Txs[h]
	if t == nil {
		return nil
	}
	d := &Details{Hash: h, Block: t.Block}
	for _, i := range t.CreditIndexes() {
		d.Credits = append(d.Credits, CreditRec{
			Index:  i,
			Amount: t.Msg.TxOut[i].Value,
			Change: t.Credits[i],
			Spent:  v.Spent(wire.OutPoint{Hash: h, Index: i}),
		})
	}
	for i, in := range t.Msg.TxIn {
		p, ok := l.Credit(in.PreviousOutPoint)
		if !ok {
			continue
		}
		out := p.Msg.TxOut[in.PreviousOutPoint.Index]
		d.Debits = append(d.Debits, DebitRec{Index: uint32(i), Amount: out.Value})
		d.PrevScripts = append(d.PrevScripts, out.PkScript)
	}
	return d
}

// Group is one callback of a range iteration: the transactions of one block,
// or all unconfirmed ones (Height -1).
type Group struct {
	Height int32
	Txs    []chainhash.Hash // byte order; the order inside a group is not specified
}

// Range (C13, RangeTransactions contract): heights [begin,end] where -1 stands
// for "including the unconfirmed transactions" and is above every block;
// reverse order when the end comes before the begin, in which case the
// unconfirmed group comes first; otherwise it comes last. Every known
// transaction in range appears in exactly one group.
func (l *Ledger) Range(begin, end int32) []Group {
	const inf = int32(1<<31 - 1)
	b, e := begin, end
	if b < 0 {
		b = inf
	}
	if e < 0 {
		e = inf
	}
	lo, hi, forward := b, e, true
	if !(b < e) {
		lo, hi, forward = e, b, false
	}
	byHeight := map[int32][]chainhash.Hash{}
	var unmined []chainhash.Hash
	for _, h := range l.SortedHashes() {
		t := l.Txs[h]
		if t.Block == nil {
			unmined = append(unmined, h)
			continue
		}
		if t.Block.Height >= lo && t.Block.Height <= hi {
			byHeight[t.Block.Height] = append(byHeight[t.Block.Height], h)
		}
	}
	heights := make([]int32, 0, len(byHeight))
	for h := range byHeight {
		heights = append(heights, h)
	}
	sort.Slice(heights, func(i, j int) bool {
		if forward {
			return heights[i] < heights[j]
		}
		return heights[i] > heights[j]
	})
	var out []Group
	withUnmined := (begin < 0 || end < 0) && len(unmined) > 0
	if withUnmined && begin < 0 {
		out = append(out, Group{Height: -1, Txs: unmined})
	}
	for _, h := range heights {
		out = append(out, Group{Height: h, Txs: byHeight[h]})
	}
	if withUnmined && begin >= 0 {
		out = append(out, Group{Height: -1, Txs: unmined})
	}
	return out
}

// ---------------------------------------------------------------- C14

// Topological-order verdicts.
const (
	TopoOK                = ""
	TopoNotPermutation    = "not-permutation"
	TopoChildBeforeParent = "child-before-parent"
)

// CheckTopo (C14): got "contains every transaction of set exactly once and
// places each transaction after every transaction of the set whose output it
// spends".
func CheckTopo(set []*wire.MsgTx, got []*wire.MsgTx) (verdict, detail string) {
	want := map[chainhash.Hash]int{}
	for _, m := range set {
		want[m.TxHash()]++
	}
	pos := map[chainhash.Hash]int{}
	for i, m := range got {
		if m == nil {
			return TopoNotPermutation, fmt.Sprintf("nil entry at position %d", i)
		}
		h := m.TxHash()
		if want[h] == 0 {
			return TopoNotPermutation, fmt.Sprintf("position %d holds %v which is not in the set (or is repeated)", i, h)
		}
		want[h]--
		pos[h] = i
	}
	if len(got) != len(set) {
		return TopoNotPermutation, fmt.Sprintf("%d transactions returned for a set of %d", len(got), len(set))
	}
	for i, m := range got {
		for _, in := range m.TxIn {
			if p, ok := pos[in.PreviousOutPoint.Hash]; ok && p >= i && in.PreviousOutPoint.Hash != m.TxHash() {
				return TopoChildBeforeParent, fmt.Sprintf("%v at position %d spends %v which is at position %d", m.TxHash(), i, in.PreviousOutPoint, p)
			}
		}
	}
	return TopoOK, ""
}

// UnminedMsgs returns the unconfirmed transactions (canonical order).
func (l *Ledger) UnminedMsgs() []*wire.MsgTx {
	var out []*wire.MsgTx
	for _, h := range l.UnminedHashes() {
		out = append(out, l.Txs[h].Msg)
	}
	return out
}

// ---------------------------------------------------------------- digest

// Digest is a compact hash of the abstract state (for counting distinct runs).
func (l *Ledger) Digest() uint64 {
	f := fnv.New64a()
	for _, h := range l.SortedHashes() {
		t := l.Txs[h]
		f.Write(h[:4])
		if t.Block == nil {
			f.Write([]byte{0xff})
		} else {
			fmt.Fprintf(f, "%d", t.Block.Height)
			f.Write(t.Block.Hash[:2])
		}
	}
	for _, op := range l.LeasedOutpoints() {
		le := l.Leases[op]
		f.Write(op.Hash[:4])
		fmt.Fprintf(f, "%d/%d/%d", op.Index, le.ID[0], le.Expiry.Unix())
	}
	return f.Sum64()
}
