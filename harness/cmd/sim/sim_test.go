// The simulation binary. It is a test binary because testing/synctest needs
// a *testing.T; the runner (core.Main) decides what it does.
package sim

import (
	"testing"

	"verifsim/core"
	_ "verifsim/sims/addrsim"
	_ "verifsim/sims/dbsim"
	_ "verifsim/sims/ledgersim"
	_ "verifsim/sims/migsim"
	_ "verifsim/sims/nqsim"
	_ "verifsim/sims/queuesim"
	_ "verifsim/sims/toysim"
	_ "verifsim/sims/vaultsim"
	_ "verifsim/sims/walletsim"
)

func TestMain(m *testing.M) { core.Main(m) }

func TestSim(t *testing.T) { core.Entry(t) }
