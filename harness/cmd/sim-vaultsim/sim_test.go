// Development binary with only vaultsim.
package sim

import (
	"testing"

	"verifsim/core"
	_ "verifsim/sims/vaultsim"
)

func TestMain(m *testing.M) { core.Main(m) }

func TestSim(t *testing.T) { core.Entry(t) }
