// Development binary with only migsim.
package sim

import (
	"testing"

	"verifsim/core"
	_ "verifsim/sims/migsim"
)

func TestMain(m *testing.M) { core.Main(m) }

func TestSim(t *testing.T) { core.Entry(t) }
