// Development binary with only ledgersim.
package sim

import (
	"testing"

	"verifsim/core"
	_ "verifsim/sims/ledgersim"
)

func TestMain(m *testing.M) { core.Main(m) }

func TestSim(t *testing.T) { core.Entry(t) }
