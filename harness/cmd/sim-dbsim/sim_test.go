// Development binary with only dbsim.
package sim

import (
	"testing"

	"verifsim/core"
	_ "verifsim/sims/dbsim"
)

func TestMain(m *testing.M) { core.Main(m) }

func TestSim(t *testing.T) { core.Entry(t) }
