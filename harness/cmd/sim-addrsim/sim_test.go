// Development binary with only addrsim.
package sim

import (
	"testing"

	"verifsim/core"
	_ "verifsim/sims/addrsim"
)

func TestMain(m *testing.M) { core.Main(m) }

func TestSim(t *testing.T) { core.Entry(t) }
