package simchain

import (
	"errors"
	"sync"
	"time"

	"github.com/btcsuite/btcd/btcjson"
	"github.com/btcsuite/btcd/btcutil"
	"github.com/btcsuite/btcd/chaincfg/chainhash"
	"github.com/btcsuite/btcd/txscript"
	"github.com/btcsuite/btcd/wire"
	"github.com/btcsuite/btcwallet/chain"
	"github.com/btcsuite/btcwallet/waddrmgr"
	"github.com/btcsuite/btcwallet/wtxmgr"
)

// Announce is one "transaction confirmed in block" notification the client put
// into its queue; the harness keeps the log across client sessions.
type Announce struct {
	Tx    chainhash.Hash // zero for a disconnect or a session marker
	Block chainhash.Hash // zero for a session marker
	Disc  bool           // BlockDisconnected of Block
}

// nodeEvent is what the node pushes to a subscribed client (bitcoind: ZMQ
// rawblock / rawtx). The client turns them into wallet notifications when the
// harness lets it (Deliver), so the wallet may lag the node arbitrarily.
type nodeEvent struct {
	block *Block
	tx    *wire.MsgTx
	disc  []*Block // blocks disconnected without replacement, tip first
}

// ErrInjected is returned by a backend call the harness armed to fail.
var ErrInjected = errors.New("simchain: injected backend failure")

// SendRec records one SendRawTransaction call received by the backend.
type SendRec struct {
	Tx     *wire.MsgTx
	TxID   chainhash.Hash
	Answer string // accept | in-mempool | known | confirmed | reject | transport
	Height int32  // node height at the time
}

// Client implements chain.Interface, modelled on chain/bitcoind_client.go:
// Start queues ClientConnected; watch filters grow through NotifyReceived and
// Rescan; per connected block it emits RelevantTx for each match, then
// FilteredBlockConnected, then BlockConnected; reorgs emit BlockDisconnected
// tip-down, then the new blocks; Rescan walks the best chain from the given
// hash and ends with RescanFinished; FilterBlocks uses the real
// chain.BlockFilterer; the notification queue is the real
// chain.ConcurrentQueue.
type Client struct {
	node *Node
	q    *chain.ConcurrentQueue

	mu               sync.Mutex // short critical sections only; never held while sending to the queue
	started, stopped bool
	watchedAddrs     map[string]bool
	watchedOutPoints map[wire.OutPoint]bool
	mempool          map[chainhash.Hash]bool
	notifyBlocks     bool
	// AnnounceLog, when set, receives every confirmed-transaction
	// announcement in the order the client queued them.
	AnnounceLog *[]Announce
	best             waddrmgr.BlockStamp
	birthday         time.Time
	pending          []nodeEvent
	out              []interface{} // notifications produced under mu, sent after unlock

	// FailNext[name] = n: the next n calls of that method fail with ErrInjected.
	FailNext map[string]int
	// FailNth[name] = n: exactly the n-th call from now fails (n counts down).
	FailNth map[string]int
	// SendAnswer, if set, decides the answer class of the next
	// SendRawTransaction calls (one entry consumed per call). "" or exhausted:
	// honest node behaviour.
	SendAnswers []string
	// Dialect: "" answers with the chain package's error values directly;
	// "bitcoind", "bitcoind28", "btcd", "btcd-legacy" answer with the message
	// such a backend words its refusal in, mapped the way the repository's
	// client for that backend maps it (BitcoindClient.MapRPCErr itself; for
	// btcd the same passes over the real tables, see harness/probes/chain).
	Dialect string
	// BeforeSend, if set, observes every SendRawTransaction call before the
	// node sees the transaction (crash-before-broadcast faults).
	BeforeSend func(tx *wire.MsgTx)
	// Sends records every SendRawTransaction call.
	Sends []SendRec
	// Calls counts calls per method; Fired counts injected failures.
	Calls map[string]int
	Fired map[string]int
	// FilterBlocksFrom records the lowest height requested through FilterBlocks.
	FilterBlocksMin int32
	RescanStarts    []int32
	// delivered RelevantTx notifications (for redelivery faults)
	deliveredTx []chain.RelevantTx

	// AsyncRescan: Rescan returns at once and the rescan advances only when
	// the harness calls StepRescan, so that new blocks and reorgs can be
	// announced (through Deliver) WHILE the rescan is running, as with the
	// real bitcoind client whose rescan runs in its own goroutine.
	lastDisc    []*Block // recently emitted genuine disconnects (for repeated delivery)
	AsyncRescan bool
	// BtcdStyleRescan: the rescan reports only the relevant transactions of
	// each block and RescanFinished, no per-block FilteredBlockConnected /
	// BlockConnected (btcd's rescan does that; the wallet then catches up its
	// block hashes itself through GetBlockHash when the rescan finishes).
	BtcdStyleRescan bool
	rescanCur       *Block // last block the running rescan has notified (nil: no rescan running)
}

// NewClient attaches a client to the node. birthday mirrors
// BitcoindClient.SetBirthday (blocks before it are not filtered).
func NewClient(n *Node, birthday time.Time, queueBuf int) *Client {
	c := &Client{node: n, q: chain.NewConcurrentQueue(queueBuf),
		watchedAddrs: map[string]bool{}, watchedOutPoints: map[wire.OutPoint]bool{},
		mempool: map[chainhash.Hash]bool{}, FailNext: map[string]int{}, FailNth: map[string]int{}, Calls: map[string]int{},
		Fired: map[string]int{}, birthday: birthday, FilterBlocksMin: -1}
	tip := n.Tip()
	c.best = waddrmgr.BlockStamp{Hash: tip.Hash, Height: tip.Height, Timestamp: tip.Time()}
	return c
}

func (c *Client) fail(name string) bool {
	c.Calls[name]++
	if c.FailNext[name] > 0 {
		c.FailNext[name]--
		c.Fired[name]++
		return true
	}
	if n := c.FailNth[name]; n > 0 {
		c.FailNth[name] = n - 1
		if n == 1 {
			c.Fired[name]++
			return true
		}
	}
	return false
}

// flush sends the notifications produced under the lock to the queue.
func (c *Client) flush(out []interface{}) {
	for _, n := range out {
		c.q.ChanIn() <- n
	}
}

func (c *Client) take() []interface{} {
	o := c.out
	c.out = nil
	return o
}

// ---- chain.Interface

func (c *Client) Start() error {
	c.mu.Lock()
	if c.started {
		c.mu.Unlock()
		return nil
	}
	c.started = true
	c.mu.Unlock()
	c.q.Start()
	c.node.subs = append(c.node.subs, c)
	c.q.ChanIn() <- chain.ClientConnected{}
	return nil
}

func (c *Client) Stop() {
	c.mu.Lock()
	if c.stopped {
		c.mu.Unlock()
		return
	}
	c.stopped = true
	c.mu.Unlock()
	for i, s := range c.node.subs {
		if s == c {
			c.node.subs = append(c.node.subs[:i], c.node.subs[i+1:]...)
			break
		}
	}
	c.q.Stop()
}

func (c *Client) Stopped() bool {
	c.mu.Lock()
	defer c.mu.Unlock()
	return c.stopped
}

func (c *Client) WaitForShutdown() {}

func (c *Client) GetBestBlock() (*chainhash.Hash, int32, error) {
	c.mu.Lock()
	defer c.mu.Unlock()
	if c.fail("GetBestBlock") {
		return nil, 0, ErrInjected
	}
	t := c.node.Tip()
	h := t.Hash
	return &h, t.Height, nil
}

func (c *Client) GetBlock(h *chainhash.Hash) (*wire.MsgBlock, error) {
	c.mu.Lock()
	defer c.mu.Unlock()
	if c.fail("GetBlock") {
		return nil, ErrInjected
	}
	b := c.node.BlockByHash(h)
	if b == nil {
		return nil, errors.New("Block not found")
	}
	return b.Msg, nil
}

func (c *Client) GetBlockHash(height int64) (*chainhash.Hash, error) {
	c.mu.Lock()
	defer c.mu.Unlock()
	if c.fail("GetBlockHash") {
		return nil, ErrInjected
	}
	if height < 0 || int(height) >= len(c.node.Best) {
		return nil, errors.New("Block height out of range")
	}
	h := c.node.Best[height].Hash
	return &h, nil
}

func (c *Client) GetBlockHeader(h *chainhash.Hash) (*wire.BlockHeader, error) {
	c.mu.Lock()
	defer c.mu.Unlock()
	if c.fail("GetBlockHeader") {
		return nil, ErrInjected
	}
	b := c.node.BlockByHash(h)
	if b == nil {
		return nil, errors.New("Block not found")
	}
	hdr := b.Msg.Header
	return &hdr, nil
}

func (c *Client) IsCurrent() bool { return true }

func (c *Client) BackEnd() string { return "simchain" }

func (c *Client) BlockStamp() (*waddrmgr.BlockStamp, error) {
	c.mu.Lock()
	defer c.mu.Unlock()
	b := c.best
	return &b, nil
}

func (c *Client) Notifications() <-chan interface{} { return c.q.ChanOut() }

func (c *Client) TestMempoolAccept([]*wire.MsgTx, float64) ([]*btcjson.TestMempoolAcceptResult, error) {
	return nil, errors.New("not supported")
}

func (c *Client) MapRPCErr(err error) error { return err }

func (c *Client) NotifyReceived(addrs []btcutil.Address) error {
	c.mu.Lock()
	defer c.mu.Unlock()
	if c.fail("NotifyReceived") {
		return ErrInjected
	}
	for _, a := range addrs {
		c.watchedAddrs[a.String()] = true
	}
	// BitcoindClient.NotifyReceived: updateWatchedFilters, then
	// `_ = c.NotifyBlocks()` — which re-evaluates the best block when the
	// client becomes a block-notification client here
	c.becomeBlockClient()
	return nil
}

func (c *Client) NotifyBlocks() error {
	c.mu.Lock()
	defer c.mu.Unlock()
	if c.fail("NotifyBlocks") {
		return ErrInjected
	}
	c.becomeBlockClient()
	return nil
}

func (c *Client) becomeBlockClient() {
	if !c.notifyBlocks {
		// re-evaluate the best block, as BitcoindClient.NotifyBlocks does
		t := c.node.Tip()
		c.best = waddrmgr.BlockStamp{Hash: t.Hash, Height: t.Height, Timestamp: t.Time()}
		// node events that are already reflected in that tip are dropped
		var keep []nodeEvent
		for _, e := range c.pending {
			if e.block != nil && c.node.OnBest(e.block) && e.block.Height <= t.Height {
				continue
			}
			if e.disc != nil {
				continue // the best block was just re-evaluated against the node
			}
			keep = append(keep, e)
		}
		c.pending = keep
	}
	c.notifyBlocks = true
}

// SendRawTransaction: the answer class is the honest node's unless the harness
// forced one.
func (c *Client) SendRawTransaction(tx *wire.MsgTx, allowHighFees bool) (*chainhash.Hash, error) {
	c.mu.Lock()
	defer c.mu.Unlock()
	c.Calls["SendRawTransaction"]++
	if c.BeforeSend != nil {
		c.BeforeSend(tx)
	}
	id := tx.TxHash()
	forced := ""
	if len(c.SendAnswers) > 0 {
		forced = c.SendAnswers[0]
		c.SendAnswers = c.SendAnswers[1:]
	}
	rec := SendRec{Tx: tx, TxID: id, Height: c.node.Tip().Height}
	defer func() { c.Sends = append(c.Sends, rec) }()
	switch forced {
	case "transport":
		rec.Answer = "transport"
		c.Fired["send.transport"]++
		return nil, ErrInjected
	case "reject-fee":
		rec.Answer = "reject"
		c.Fired["send.reject-fee"]++
		return nil, c.answer("fee", id)
	case "reject-generic":
		rec.Answer = "reject"
		c.Fired["send.reject-generic"]++
		return nil, c.answer("generic", id)
	case "reject-conflict":
		rec.Answer = "reject"
		c.Fired["send.reject-conflict"]++
		return nil, c.answer("conflict", id)
	case "accept-but-known":
		// the node accepts it and answers "already known" (a retry whose
		// first attempt got through): classes that are consistent with node
		// state are produced only when the node state matches
	}
	err := c.node.Accept(tx)
	switch {
	case err == nil:
		rec.Answer = "accept"
		return &id, nil
	case errors.Is(err, ErrAlreadyInMempool):
		rec.Answer = "in-mempool"
		return nil, c.answer("in-mempool", id)
	case errors.Is(err, ErrAlreadyConfirmed):
		rec.Answer = "confirmed"
		return nil, c.answer("confirmed", id)
	case errors.Is(err, ErrMempoolConflict):
		rec.Answer = "reject"
		return nil, c.answer("conflict", id)
	default:
		rec.Answer = "reject"
		return nil, c.answer("missing", id)
	}
}

func (c *Client) FilterBlocks(req *chain.FilterBlocksRequest) (*chain.FilterBlocksResponse, error) {
	c.mu.Lock()
	defer c.mu.Unlock()
	if c.fail("FilterBlocks") {
		return nil, ErrInjected
	}
	bf := chain.NewBlockFilterer(c.node.Params, req)
	for i, block := range req.Blocks {
		if c.FilterBlocksMin < 0 || block.Height < c.FilterBlocksMin {
			c.FilterBlocksMin = block.Height
		}
		b := c.node.BlockByHash(&block.Hash)
		if b == nil {
			return nil, errors.New("Block not found")
		}
		if !bf.FilterBlock(b.Msg) {
			continue
		}
		return &chain.FilterBlocksResponse{
			BatchIndex: uint32(i), BlockMeta: block,
			FoundExternalAddrs: bf.FoundExternal, FoundInternalAddrs: bf.FoundInternal,
			FoundOutPoints: bf.FoundOutPoints, RelevantTxns: bf.RelevantTxns,
		}, nil
	}
	return nil, nil
}

// Rescan walks the best chain from blockHash (exclusive) to the tip, emitting
// the notifications of every block, then RescanFinished. Synchronous: all
// notifications are queued before it returns.
func (c *Client) Rescan(blockHash *chainhash.Hash, addrs []btcutil.Address,
	outPoints map[wire.OutPoint]btcutil.Address) error {

	c.mu.Lock()
	if c.fail("Rescan") {
		c.mu.Unlock()
		return ErrInjected
	}
	if blockHash == nil {
		c.mu.Unlock()
		return errors.New("rescan requires a starting block hash")
	}
	for _, a := range addrs {
		c.watchedAddrs[a.String()] = true
	}
	for op := range outPoints {
		c.watchedOutPoints[op] = true
	}
	start := c.node.BlockByHash(blockHash)
	if start == nil {
		c.mu.Unlock()
		return errors.New("Block not found")
	}
	c.RescanStarts = append(c.RescanStarts, start.Height)
	if c.AsyncRescan {
		c.rescanCur = start
		out := c.take()
		c.mu.Unlock()
		c.flush(out)
		return nil
	}
	// If the start block is not on the best chain any more, rewind to the
	// fork point first (BitcoindClient.rescan signals disconnected blocks).
	cur := start
	for !c.node.OnBest(cur) {
		c.out = append(c.out, chain.BlockDisconnected{Block: wtxmgr.Block{Hash: cur.Hash, Height: cur.Height}, Time: cur.Time()})
		c.logDisc(cur.Hash)
		cur = c.node.BlockByHash(&cur.Msg.Header.PrevBlock)
	}
	for h := cur.Height + 1; int(h) < len(c.node.Best); h++ {
		b := c.node.Best[h]
		c.rescanBlock(b)
	}
	tip := c.node.Tip()
	// blocks notified by the rescan are not notified again as "new"
	if c.notifyBlocks {
		c.best = waddrmgr.BlockStamp{Hash: tip.Hash, Height: tip.Height, Timestamp: tip.Time()}
		var keep []nodeEvent
		for _, e := range c.pending {
			if e.block != nil || e.disc != nil {
				continue
			}
			keep = append(keep, e)
		}
		c.pending = keep
	}
	th := tip.Hash
	c.out = append(c.out, &chain.RescanFinished{Hash: &th, Height: tip.Height, Time: tip.Time()})
	out := c.take()
	c.mu.Unlock()
	c.flush(out)
	return nil
}

// RescanActive reports whether an asynchronous rescan is still running.
func (c *Client) RescanActive() bool {
	c.mu.Lock()
	defer c.mu.Unlock()
	return c.rescanCur != nil
}

// StepRescan advances a running asynchronous rescan by up to n blocks (n <= 0:
// until it has caught up with the node's tip, which ends it with
// RescanFinished). Like BitcoindClient.rescan it is reorg-aware: if the block
// it stands on has left the best chain it signals BlockDisconnected and walks
// back to the fork point before continuing.
func (c *Client) StepRescan(n int) int {
	c.mu.Lock()
	if c.rescanCur == nil || c.stopped {
		c.mu.Unlock()
		return 0
	}
	k := 0
	for n <= 0 || k < n {
		for !c.node.OnBest(c.rescanCur) {
			b := c.rescanCur
			c.out = append(c.out, chain.BlockDisconnected{Block: wtxmgr.Block{Hash: b.Hash, Height: b.Height}, Time: b.Time()})
			c.logDisc(b.Hash)
			c.rescanCur = c.node.BlockByHash(&b.Msg.Header.PrevBlock)
		}
		if c.rescanCur.Hash == c.node.Tip().Hash {
			tip := c.node.Tip()
			th := tip.Hash
			c.out = append(c.out, &chain.RescanFinished{Hash: &th, Height: tip.Height, Time: tip.Time()})
			c.rescanCur = nil
			break
		}
		nb := c.node.Best[c.rescanCur.Height+1]
		c.rescanBlock(nb)
		c.rescanCur = nb
		k++
	}
	out := c.take()
	c.mu.Unlock()
	c.flush(out)
	return k
}

// ---- notification production (under mu; results go to c.out)

func (c *Client) shouldFilter(ts time.Time) bool {
	empty := len(c.watchedAddrs) == 0 && len(c.watchedOutPoints) == 0
	return !(ts.Before(c.birthday) || empty)
}

// rescanBlock reports one block of a rescan.
func (c *Client) rescanBlock(b *Block) {
	if !c.BtcdStyleRescan {
		c.filterBlock(b, true)
		return
	}
	meta := wtxmgr.BlockMeta{Block: wtxmgr.Block{Hash: b.Hash, Height: b.Height}, Time: b.Time()}
	if c.shouldFilter(b.Time()) {
		for _, tx := range b.Msg.Transactions {
			c.filterTx(tx, &meta, true)
		}
	}
}

func (c *Client) filterBlock(b *Block, notify bool) {
	meta := wtxmgr.BlockMeta{Block: wtxmgr.Block{Hash: b.Hash, Height: b.Height}, Time: b.Time()}
	var relevant []*wtxmgr.TxRecord
	if c.shouldFilter(b.Time()) {
		for _, tx := range b.Msg.Transactions {
			if ok, rec := c.filterTx(tx, &meta, notify); ok {
				relevant = append(relevant, rec)
			}
		}
	}
	if notify && c.notifyBlocks {
		m := meta
		c.out = append(c.out, chain.FilteredBlockConnected{Block: &m, RelevantTxs: relevant})
		c.out = append(c.out, chain.BlockConnected(meta))
	}
}

func (c *Client) filterTx(tx *wire.MsgTx, block *wtxmgr.BlockMeta, notify bool) (bool, *wtxmgr.TxRecord) {
	rec, err := wtxmgr.NewTxRecordFromMsgTx(tx, time.Now())
	if err != nil {
		return false, nil
	}
	if block != nil {
		rec.Received = block.Time
	}
	id := tx.TxHash()
	emit := func() {
		n := chain.RelevantTx{TxRecord: rec, Block: block}
		c.out = append(c.out, n)
		c.deliveredTx = append(c.deliveredTx, n)
		if block != nil && c.AnnounceLog != nil {
			*c.AnnounceLog = append(*c.AnnounceLog, Announce{Tx: id, Block: block.Hash})
		}
	}
	if c.mempool[id] && notify && block != nil {
		emit()
		return true, rec
	}
	relevant := false
	for _, in := range tx.TxIn {
		if c.watchedOutPoints[in.PreviousOutPoint] {
			relevant = true
			break
		}
		if c.BtcdStyleRescan {
			// btcd's transaction filter matches inputs by outpoint only; the
			// bitcoind client also recognises a spender by the script its
			// signature script / witness reveals
			continue
		}
		pk, err := txscript.ComputePkScript(in.SignatureScript, in.Witness)
		if err != nil {
			continue
		}
		addr, err := pk.Address(c.node.Params)
		if err != nil {
			continue
		}
		if c.watchedAddrs[addr.String()] {
			relevant = true
			break
		}
	}
	for i, out := range tx.TxOut {
		_, addrs, _, err := txscript.ExtractPkScriptAddrs(out.PkScript, c.node.Params)
		if err != nil {
			continue
		}
		for _, a := range addrs {
			if c.watchedAddrs[a.String()] {
				relevant = true
				c.watchedOutPoints[wire.OutPoint{Hash: id, Index: uint32(i)}] = true
			}
		}
	}
	if !relevant {
		return false, rec
	}
	if block == nil {
		c.mempool[id] = true
	}
	if notify {
		emit()
	}
	return true, rec
}

// processBlock is BitcoindClient.ntfnHandler's block branch.
func (c *Client) processBlock(nb *Block) {
	if nb.Msg.Header.PrevBlock == c.best.Hash {
		c.filterBlock(nb, true)
		c.best = waddrmgr.BlockStamp{Hash: nb.Hash, Height: nb.Height, Timestamp: nb.Time()}
		return
	}
	c.reorg(nb)
}

// reorg is BitcoindClient.reorg: rewind to the common ancestor of the client's
// best block and the announced block (BlockDisconnected tip-down), then notify
// the new branch.
func (c *Client) reorg(nb *Block) {
	if nb.Height < c.best.Height {
		return // "multiple reorgs": wait for the branch to catch up
	}
	if nb.Hash == c.best.Hash {
		return
	}
	// new branch from nb back to the height of the client's best block
	var toNotify []*Block
	x := nb
	for x.Height > c.best.Height {
		toNotify = append([]*Block{x}, toNotify...)
		x = c.node.BlockByHash(&x.Msg.Header.PrevBlock)
	}
	// x is at the client's height; walk both back until they meet
	cur := c.node.BlockByHash(&c.best.Hash)
	for x.Hash != cur.Hash {
		c.out = c.appendDisc(cur)
		toNotify = append([]*Block{x}, toNotify...)
		x = c.node.BlockByHash(&x.Msg.Header.PrevBlock)
		cur = c.node.BlockByHash(&cur.Msg.Header.PrevBlock)
	}
	c.best = waddrmgr.BlockStamp{Hash: cur.Hash, Height: cur.Height, Timestamp: cur.Time()}
	for _, b := range toNotify {
		c.filterBlock(b, true)
		c.best = waddrmgr.BlockStamp{Hash: b.Hash, Height: b.Height, Timestamp: b.Time()}
	}
}

func (c *Client) appendDisc(b *Block) []interface{} {
	if !c.notifyBlocks {
		return c.out
	}
	c.lastDisc = append(c.lastDisc, b)
	if len(c.lastDisc) > 16 {
		c.lastDisc = c.lastDisc[1:]
	}
	c.logDisc(b.Hash)
	return append(c.out, chain.BlockDisconnected{Block: wtxmgr.Block{Hash: b.Hash, Height: b.Height}, Time: b.Time()})
}

func (c *Client) logDisc(h chainhash.Hash) {
	if c.AnnounceLog != nil {
		*c.AnnounceLog = append(*c.AnnounceLog, Announce{Block: h, Disc: true})
	}
}

// RepeatDisconnect queues a genuine BlockDisconnected notification a second
// time (repeated delivery of the same fact). Returns false if there is none.
func (c *Client) RepeatDisconnect(i int) bool {
	c.mu.Lock()
	if c.stopped || len(c.lastDisc) == 0 {
		c.mu.Unlock()
		return false
	}
	b := c.lastDisc[((i%len(c.lastDisc))+len(c.lastDisc))%len(c.lastDisc)]
	// only while it is still true that the block is not on the client's chain
	cur := c.node.BlockByHash(&c.best.Hash)
	for cur != nil && cur.Height > b.Height {
		cur = c.node.BlockByHash(&cur.Msg.Header.PrevBlock)
	}
	if cur != nil && cur.Hash == b.Hash {
		c.mu.Unlock()
		return false
	}
	c.mu.Unlock()
	c.q.ChanIn() <- chain.BlockDisconnected{Block: wtxmgr.Block{Hash: b.Hash, Height: b.Height}, Time: b.Time()}
	return true
}

// ---- harness controls

// Pending returns the number of node events not yet turned into notifications.
func (c *Client) Pending() int {
	c.mu.Lock()
	defer c.mu.Unlock()
	return len(c.pending)
}

// Deliver processes up to n pending node events (n <= 0: all) and queues the
// resulting notifications. Returns how many events were processed.
func (c *Client) Deliver(n int) int {
	c.mu.Lock()
	if c.stopped || !c.started {
		c.mu.Unlock()
		return 0
	}
	k := 0
	for len(c.pending) > 0 && (n <= 0 || k < n) {
		e := c.pending[0]
		c.pending = c.pending[1:]
		k++
		if e.disc != nil {
			if !c.notifyBlocks {
				continue
			}
			for _, b := range e.disc {
				if b.Hash != c.best.Hash {
					continue // the client never announced this block
				}
				c.out = c.appendDisc(b)
				par := c.node.BlockByHash(&b.Msg.Header.PrevBlock)
				c.best = waddrmgr.BlockStamp{Hash: par.Hash, Height: par.Height, Timestamp: par.Time()}
			}
		} else if e.block != nil {
			if !c.notifyBlocks {
				continue // bitcoind: the client is not a rescan client yet
			}
			c.processBlock(e.block)
		} else if e.tx != nil {
			if !c.notifyBlocks {
				continue
			}
			c.filterTx(e.tx, nil, true)
		}
	}
	out := c.take()
	c.mu.Unlock()
	c.flush(out)
	return k
}

// Redeliver queues an already delivered RelevantTx notification again
// (duplicate delivery of the same fact is normal in production).
func (c *Client) Redeliver(i int) bool {
	c.mu.Lock()
	if c.stopped || len(c.deliveredTx) == 0 {
		c.mu.Unlock()
		return false
	}
	n := c.deliveredTx[((i%len(c.deliveredTx))+len(c.deliveredTx))%len(c.deliveredTx)]
	// only facts that are still true are redelivered: a validating node never
	// announces a transaction in a block that is not on its best chain
	if n.Block != nil {
		// the block must be on the chain the CLIENT has notified so far (an
		// ancestor of, or equal to, its best block) — not merely on the node's
		// best chain, which the client may not have announced yet
		b := c.node.BlockByHash(&n.Block.Hash)
		cur := c.node.BlockByHash(&c.best.Hash)
		for cur != nil && b != nil && cur.Height > b.Height {
			cur = c.node.BlockByHash(&cur.Msg.Header.PrevBlock)
		}
		if b == nil || cur == nil || cur.Hash != b.Hash {
			c.mu.Unlock()
			return false
		}
	} else if !c.node.InMempool(n.TxRecord.Hash) {
		c.mu.Unlock()
		return false
	}
	c.mu.Unlock()
	c.q.ChanIn() <- n
	return true
}

// StaleDisconnect queues a BlockDisconnected for a block the wallet does not
// have at that height (a stale / repeated notification).
func (c *Client) StaleDisconnect(b *Block) {
	c.mu.Lock()
	if c.stopped {
		c.mu.Unlock()
		return
	}
	c.mu.Unlock()
	c.q.ChanIn() <- chain.BlockDisconnected{Block: wtxmgr.Block{Hash: b.Hash, Height: b.Height}, Time: b.Time()}
}

// Best returns the last block the client has notified.
func (c *Client) Best() waddrmgr.BlockStamp {
	c.mu.Lock()
	defer c.mu.Unlock()
	return c.best
}

// answer words a refusal the way the modelled backend does and maps it the
// way the repository's client for that backend does.
func (c *Client) answer(class string, id chainhash.Hash) error {
	var raw string
	switch c.Dialect {
	case "":
		switch class {
		case "fee":
			return chain.ErrInsufficientFee
		case "generic":
			return errors.New("64: scriptsig-not-pushonly")
		case "conflict":
			return chain.ErrMempoolConflict
		case "in-mempool":
			return chain.ErrTxAlreadyInMempool
		case "confirmed":
			return chain.ErrTxAlreadyConfirmed
		default:
			return chain.ErrMissingInputsOrSpent
		}
	case "bitcoind", "bitcoind28":
		switch class {
		case "fee":
			raw = "-26: insufficient fee, rejecting replacement " + id.String()
		case "generic":
			raw = "-26: scriptsig-not-pushonly"
		case "conflict":
			raw = "-26: txn-mempool-conflict"
		case "in-mempool":
			raw = "-27: txn-already-in-mempool"
		case "confirmed":
			raw = "-27: Transaction already in block chain"
			if c.Dialect == "bitcoind28" {
				raw = "-27: Transaction outputs already in utxo set"
			}
		default:
			raw = "-25: bad-txns-inputs-missingorspent"
		}
		return (*chain.BitcoindClient)(nil).MapRPCErr(errors.New(raw))
	default: // btcd, btcd-legacy
		legacy := c.Dialect == "btcd-legacy"
		switch class {
		case "fee":
			raw = "-26: replacement transaction " + id.String() + " has an insufficient fee rate: needs more than 1000, has 900"
		case "generic":
			raw = "-26: transaction " + id.String() + " has a non-standard input"
		case "conflict":
			raw = "-26: output " + id.String() + ":0 already spent in mempool"
			if legacy {
				raw = "-26: output " + id.String() + ":0 already spent by transaction " + id.String() + " in the memory pool"
			}
		case "in-mempool":
			raw = "-26: already have transaction in mempool " + id.String()
			if legacy {
				raw = "-27: already have transaction " + id.String()
			}
		case "confirmed":
			raw = "-27: transaction already exists in blockchain " + id.String()
			if legacy {
				raw = "-27: transaction already exists"
			}
		default:
			raw = "-25: orphan transaction " + id.String() + " references outputs of unknown or fully-spent transaction " + id.String()
		}
		return chain.VerifBtcdMapRPCErr(errors.New(raw), !legacy)
	}
}
