// Package simchain is the simulated chain backend: a validating node (ground
// truth, plain data) and a chain.Interface client modelled on
// chain/bitcoind_client.go's observable protocol.
package simchain

import (
	"crypto/sha256"
	"encoding/binary"
	"errors"
	"fmt"
	"sort"
	"time"

	"github.com/btcsuite/btcd/chaincfg"
	"github.com/btcsuite/btcd/chaincfg/chainhash"
	"github.com/btcsuite/btcd/txscript"
	"github.com/btcsuite/btcd/wire"
)

// Block of the simulated node.
type Block struct {
	Hash   chainhash.Hash
	Height int32
	Msg    *wire.MsgBlock
}

func (b *Block) Time() time.Time { return b.Msg.Header.Timestamp }

// Node is the ground truth: a block tree with a best chain, a UTXO view and a
// mempool with standard acceptance rules (inputs exist and are unspent in
// chain ∪ mempool). "Foreign" outpoints (funding from outside the wallet) are
// recognised by their hash prefix and always exist until spent.
type Node struct {
	Params *chaincfg.Params
	blocks map[chainhash.Hash]*Block
	Best   []*Block // index = height
	// Mempool in acceptance order.
	Mempool []*wire.MsgTx
	inPool  map[chainhash.Hash]bool
	// spent: outpoint -> spender txid for the best chain and the mempool.
	chainSpent map[wire.OutPoint]chainhash.Hash
	poolSpent  map[wire.OutPoint]chainhash.Hash
	// txs confirmed in the best chain: txid -> height
	confirmed map[chainhash.Hash]int32
	txByID    map[chainhash.Hash]*wire.MsgTx // every tx ever seen
	nonce     uint32
	// Stale holds the tips of branches that were once best and were reorged
	// away (invalidateblock / reconsiderblock scenarios return to them).
	Stale []*Block
	// Announce receives node events (new best-chain block, mempool entry) in
	// order; clients subscribe by appending.
	subs []*Client
	// AllowUnknownInputs: accept transactions whose inputs are not known to
	// the node at all (used for foreign funding); always true for foreign
	// outpoints.
}

// ForeignOutPoint returns a never-before-used outpoint that is not created by
// any transaction of the simulation (money from outside).
func ForeignOutPoint(n uint64) wire.OutPoint {
	var h chainhash.Hash
	copy(h[:], []byte("foreign-funding-outpoint"))
	binary.LittleEndian.PutUint64(h[24:], n)
	return wire.OutPoint{Hash: h, Index: uint32(n % 3)}
}

// IsForeign reports whether an outpoint is a foreign funding outpoint.
func IsForeign(op wire.OutPoint) bool {
	return string(op.Hash[:24]) == "foreign-funding-outpoint"
}

// NewNode creates a node whose genesis block has the given timestamp. The
// returned params are a private copy (regtest network magic, own genesis).
func NewNode(base *chaincfg.Params, genesisTime time.Time, maturity uint16) *Node {
	p := *base
	g := *base.GenesisBlock
	g.Header.Timestamp = genesisTime
	gh := g.BlockHash()
	p.GenesisBlock = &g
	p.GenesisHash = &gh
	p.CoinbaseMaturity = maturity
	p.Checkpoints = nil
	n := &Node{Params: &p, blocks: map[chainhash.Hash]*Block{}, inPool: map[chainhash.Hash]bool{},
		chainSpent: map[wire.OutPoint]chainhash.Hash{}, poolSpent: map[wire.OutPoint]chainhash.Hash{},
		confirmed: map[chainhash.Hash]int32{}, txByID: map[chainhash.Hash]*wire.MsgTx{}}
	b := &Block{Hash: gh, Height: 0, Msg: &g}
	n.blocks[gh] = b
	n.Best = []*Block{b}
	return n
}

func (n *Node) Tip() *Block { return n.Best[len(n.Best)-1] }

func (n *Node) BlockByHash(h *chainhash.Hash) *Block { return n.blocks[*h] }

func (n *Node) OnBest(b *Block) bool {
	return int(b.Height) < len(n.Best) && n.Best[b.Height] == b
}

// Confirmed returns the height a transaction is confirmed at on the best
// chain, or -1.
func (n *Node) Confirmed(txid chainhash.Hash) int32 {
	if h, ok := n.confirmed[txid]; ok {
		return h
	}
	return -1
}

func (n *Node) InMempool(txid chainhash.Hash) bool { return n.inPool[txid] }

func (n *Node) Tx(txid chainhash.Hash) *wire.MsgTx { return n.txByID[txid] }

// KnownTxIDs lists every transaction the node ever saw (any branch, mempool,
// evicted), sorted.
func (n *Node) KnownTxIDs() []chainhash.Hash {
	out := make([]chainhash.Hash, 0, len(n.txByID))
	for id := range n.txByID {
		out = append(out, id)
	}
	sort.Slice(out, func(i, j int) bool { return out[i].String() < out[j].String() })
	return out
}

// Errors of mempool acceptance.
var (
	ErrMissingOrSpent   = errors.New("bad-txns-inputs-missingorspent")
	ErrAlreadyInMempool = errors.New("txn-already-in-mempool")
	ErrAlreadyConfirmed = errors.New("transaction already in block chain")
	ErrMempoolConflict  = errors.New("txn-mempool-conflict")
)

func isCoinbase(tx *wire.MsgTx) bool {
	return len(tx.TxIn) == 1 && tx.TxIn[0].PreviousOutPoint.Index == 0xffffffff &&
		tx.TxIn[0].PreviousOutPoint.Hash == chainhash.Hash{}
}

// outputExists: the outpoint is created by a confirmed or mempool transaction
// (and, for coinbase outputs, is mature at the next block), or is foreign.
func (n *Node) outputExists(op wire.OutPoint) bool {
	if IsForeign(op) {
		return true
	}
	tx := n.txByID[op.Hash]
	if tx == nil || int(op.Index) >= len(tx.TxOut) {
		return false
	}
	if h, ok := n.confirmed[op.Hash]; ok {
		if isCoinbase(tx) {
			return n.Tip().Height+1-h >= int32(n.Params.CoinbaseMaturity)
		}
		return true
	}
	return n.inPool[op.Hash]
}

// CheckAccept tells whether a transaction would be accepted to the mempool.
func (n *Node) CheckAccept(tx *wire.MsgTx) error {
	id := tx.TxHash()
	if n.inPool[id] {
		return ErrAlreadyInMempool
	}
	if _, ok := n.confirmed[id]; ok {
		return ErrAlreadyConfirmed
	}
	seen := map[wire.OutPoint]bool{}
	for _, in := range tx.TxIn {
		op := in.PreviousOutPoint
		if seen[op] {
			return ErrMissingOrSpent
		}
		seen[op] = true
		if !n.outputExists(op) {
			return ErrMissingOrSpent
		}
		if _, ok := n.chainSpent[op]; ok {
			return ErrMissingOrSpent
		}
		if _, ok := n.poolSpent[op]; ok {
			return ErrMempoolConflict
		}
	}
	return nil
}

// Accept adds a transaction to the mempool (standard acceptance) and
// announces it to the subscribed clients.
func (n *Node) Accept(tx *wire.MsgTx) error {
	if err := n.CheckAccept(tx); err != nil {
		return err
	}
	n.addPool(tx)
	for _, c := range n.subs {
		c.pending = append(c.pending, nodeEvent{tx: tx})
	}
	return nil
}

func (n *Node) addPool(tx *wire.MsgTx) {
	id := tx.TxHash()
	n.txByID[id] = tx
	n.inPool[id] = true
	n.Mempool = append(n.Mempool, tx)
	for _, in := range tx.TxIn {
		n.poolSpent[in.PreviousOutPoint] = id
	}
}

func (n *Node) removePool(id chainhash.Hash) {
	if !n.inPool[id] {
		return
	}
	delete(n.inPool, id)
	for i, t := range n.Mempool {
		if t.TxHash() == id {
			for _, in := range t.TxIn {
				if n.poolSpent[in.PreviousOutPoint] == id {
					delete(n.poolSpent, in.PreviousOutPoint)
				}
			}
			n.Mempool = append(n.Mempool[:i], n.Mempool[i+1:]...)
			return
		}
	}
}

// Evict removes a mempool transaction and all its mempool descendants
// (replacement / expiry). Returns the evicted txids.
func (n *Node) Evict(id chainhash.Hash) []chainhash.Hash {
	var out []chainhash.Hash
	var rec func(id chainhash.Hash)
	rec = func(id chainhash.Hash) {
		if !n.inPool[id] {
			return
		}
		tx := n.txByID[id]
		for i := range tx.TxOut {
			if sp, ok := n.poolSpent[wire.OutPoint{Hash: id, Index: uint32(i)}]; ok {
				rec(sp)
			}
		}
		n.removePool(id)
		out = append(out, id)
	}
	rec(id)
	return out
}

// CoinbaseTx builds a unique coinbase paying value to pkScript.
func (n *Node) CoinbaseTx(height int32, pkScript []byte, value int64) *wire.MsgTx {
	n.nonce++
	tx := wire.NewMsgTx(2)
	sb := txscript.NewScriptBuilder().AddInt64(int64(height)).AddInt64(int64(n.nonce))
	sig, _ := sb.Script()
	tx.AddTxIn(&wire.TxIn{PreviousOutPoint: wire.OutPoint{Index: 0xffffffff}, SignatureScript: sig, Sequence: 0xffffffff})
	if pkScript == nil {
		pkScript = []byte{txscript.OP_TRUE}
	}
	tx.AddTxOut(&wire.TxOut{Value: value, PkScript: pkScript})
	return tx
}

func merkle(txs []*wire.MsgTx) chainhash.Hash {
	h := sha256.New()
	for _, t := range txs {
		id := t.TxHash()
		h.Write(id[:])
	}
	var out chainhash.Hash
	copy(out[:], h.Sum(nil))
	return out
}

// buildBlock makes a block on parent with the given transactions (coinbase
// first) and timestamp.
func (n *Node) buildBlock(parent *Block, txs []*wire.MsgTx, ts time.Time) *Block {
	n.nonce++
	hdr := wire.BlockHeader{Version: 4, PrevBlock: parent.Hash, MerkleRoot: merkle(txs),
		Timestamp: ts, Bits: n.Params.PowLimitBits, Nonce: n.nonce}
	msg := &wire.MsgBlock{Header: hdr, Transactions: txs}
	b := &Block{Hash: hdr.BlockHash(), Height: parent.Height + 1, Msg: msg}
	n.blocks[b.Hash] = b
	return b
}

// connect appends a block to the best chain (it must extend the tip).
func (n *Node) connect(b *Block) {
	if b.Msg.Header.PrevBlock != n.Tip().Hash {
		panic("simchain: connect: block does not extend the tip")
	}
	n.Best = append(n.Best, b)
	for _, tx := range b.Msg.Transactions {
		id := tx.TxHash()
		n.txByID[id] = tx
		n.confirmed[id] = b.Height
		n.removePool(id)
		if !isCoinbase(tx) {
			for _, in := range tx.TxIn {
				n.chainSpent[in.PreviousOutPoint] = id
				// a mempool tx spending the same outpoint now conflicts
				if sp, ok := n.poolSpent[in.PreviousOutPoint]; ok && sp != id {
					n.Evict(sp)
				}
			}
		}
	}
}

// disconnectTip removes the tip from the best chain; its non-coinbase
// transactions return to the mempool (in block order) if still valid, as
// bitcoind does. Descendants of its coinbase become invalid and are dropped.
func (n *Node) disconnectTip() *Block {
	b := n.Tip()
	n.Best = n.Best[:len(n.Best)-1]
	for _, tx := range b.Msg.Transactions {
		id := tx.TxHash()
		delete(n.confirmed, id)
		if !isCoinbase(tx) {
			for _, in := range tx.TxIn {
				if n.chainSpent[in.PreviousOutPoint] == id {
					delete(n.chainSpent, in.PreviousOutPoint)
				}
			}
		}
	}
	// mempool transactions that spent outputs of this block's coinbase (or of
	// now-immature coinbases) are no longer valid
	for _, tx := range b.Msg.Transactions {
		if isCoinbase(tx) {
			id := tx.TxHash()
			for i := range tx.TxOut {
				if sp, ok := n.poolSpent[wire.OutPoint{Hash: id, Index: uint32(i)}]; ok {
					n.Evict(sp)
				}
			}
		}
	}
	return b
}

// MineOpts selects what goes into a mined block.
type MineOpts struct {
	// Txs to include, in this order (must be a topologically valid selection
	// of mempool transactions and/or fresh transactions valid on the tip).
	Txs []*wire.MsgTx
	// CoinbaseScript receives CoinbaseValue (nil: anyone-can-spend).
	CoinbaseScript []byte
	CoinbaseValue  int64
	// Dt is the timestamp increment over the parent (>= 1s).
	Dt time.Duration
}

// validInBlock filters txs to those valid on top of the current best chain in
// the given order (each input exists in chain or earlier in the block and is
// unspent in the chain and the block).
func (n *Node) validInBlock(txs []*wire.MsgTx) []*wire.MsgTx {
	inBlock := map[chainhash.Hash]*wire.MsgTx{}
	spent := map[wire.OutPoint]bool{}
	var out []*wire.MsgTx
	for _, tx := range txs {
		id := tx.TxHash()
		if _, ok := n.confirmed[id]; ok {
			continue
		}
		if inBlock[id] != nil {
			continue
		}
		ok := true
		for _, in := range tx.TxIn {
			op := in.PreviousOutPoint
			if spent[op] {
				ok = false
				break
			}
			if _, s := n.chainSpent[op]; s {
				ok = false
				break
			}
			if IsForeign(op) {
				continue
			}
			if p := inBlock[op.Hash]; p != nil {
				if int(op.Index) >= len(p.TxOut) {
					ok = false
				}
				continue
			}
			h, conf := n.confirmed[op.Hash]
			if !conf {
				ok = false
				break
			}
			ptx := n.txByID[op.Hash]
			if int(op.Index) >= len(ptx.TxOut) {
				ok = false
				break
			}
			if isCoinbase(ptx) && n.Tip().Height+1-h < int32(n.Params.CoinbaseMaturity) {
				ok = false
				break
			}
		}
		if !ok {
			continue
		}
		for _, in := range tx.TxIn {
			spent[in.PreviousOutPoint] = true
		}
		inBlock[id] = tx
		out = append(out, tx)
	}
	return out
}

// Mine builds a block on the tip, connects it and announces it.
func (n *Node) Mine(o MineOpts) *Block {
	if o.Dt < time.Second {
		o.Dt = time.Second
	}
	parent := n.Tip()
	txs := n.validInBlock(o.Txs)
	cb := n.CoinbaseTx(parent.Height+1, o.CoinbaseScript, o.CoinbaseValue)
	all := append([]*wire.MsgTx{cb}, txs...)
	b := n.buildBlock(parent, all, parent.Time().Add(o.Dt))
	n.connect(b)
	n.announce(b)
	return b
}

func (n *Node) announce(b *Block) {
	for _, c := range n.subs {
		c.pending = append(c.pending, nodeEvent{block: b})
	}
}

// Reorg disconnects `depth` blocks from the tip and mines `blocks` new ones
// (each described by MineOpts; Txs are filtered for validity at that point).
// Disconnected non-coinbase transactions return to the mempool when still
// valid and are re-announced as mempool entries; each new block is announced
// as it connects, as a node does.
func (n *Node) Reorg(depth int, blocks []MineOpts) (disconnected []*Block, connected []*Block) {
	if depth > len(n.Best)-1 {
		depth = len(n.Best) - 1
	}
	var back []*wire.MsgTx
	if depth > 0 {
		n.Stale = append(n.Stale, n.Tip())
	}
	for i := 0; i < depth; i++ {
		b := n.disconnectTip()
		disconnected = append(disconnected, b)
		var txs []*wire.MsgTx
		for _, tx := range b.Msg.Transactions {
			if !isCoinbase(tx) {
				txs = append(txs, tx)
			}
		}
		back = append(txs, back...)
	}
	// old mempool entries stay; returning transactions are re-validated in
	// chain order
	for _, tx := range back {
		if n.CheckAccept(tx) == nil {
			n.addPool(tx)
			for _, c := range n.subs {
				c.pending = append(c.pending, nodeEvent{tx: tx})
			}
		}
	}
	// mempool entries that depended on something that did not make it back
	n.pruneOrphans()
	for _, o := range blocks {
		if o.Dt < time.Second {
			o.Dt = time.Second
		}
		parent := n.Tip()
		txs := n.validInBlock(o.Txs)
		cb := n.CoinbaseTx(parent.Height+1, o.CoinbaseScript, o.CoinbaseValue)
		b := n.buildBlock(parent, append([]*wire.MsgTx{cb}, txs...), parent.Time().Add(o.Dt))
		n.connect(b)
		n.announce(b)
		connected = append(connected, b)
	}
	return
}

// pruneOrphans drops mempool transactions with an input that neither exists
// nor is foreign (their parent was in a disconnected block and did not return).
func (n *Node) pruneOrphans() {
	for changed := true; changed; {
		changed = false
		for _, tx := range append([]*wire.MsgTx(nil), n.Mempool...) {
			for _, in := range tx.TxIn {
				op := in.PreviousOutPoint
				_, spentInChain := n.chainSpent[op]
				if !n.outputExists(op) || spentInChain {
					n.Evict(tx.TxHash())
					changed = true
					break
				}
			}
		}
	}
}

// String for traces.
func (n *Node) String() string {
	return fmt.Sprintf("node{height=%d tip=%s mempool=%d}", n.Tip().Height, n.Tip().Hash.String()[:8], len(n.Mempool))
}

// SpentBy returns the transaction (best chain or mempool) that spends op.
func (n *Node) SpentBy(op wire.OutPoint) (chainhash.Hash, bool) {
	if h, ok := n.chainSpent[op]; ok {
		return h, true
	}
	if h, ok := n.poolSpent[op]; ok {
		return h, true
	}
	return chainhash.Hash{}, false
}

// TxOut returns the output an outpoint refers to (nil if the node never saw
// the transaction).
func (n *Node) TxOut(op wire.OutPoint) *wire.TxOut {
	tx := n.txByID[op.Hash]
	if tx == nil || int(op.Index) >= len(tx.TxOut) {
		return nil
	}
	return tx.TxOut[op.Index]
}

// IsCoinbase reports whether the transaction with that id is a coinbase.
func (n *Node) IsCoinbase(id chainhash.Hash) bool {
	tx := n.txByID[id]
	return tx != nil && isCoinbase(tx)
}

// Known reports whether the transaction is in the best chain or the mempool.
func (n *Node) Known(id chainhash.Hash) bool {
	if _, ok := n.confirmed[id]; ok {
		return true
	}
	return n.inPool[id]
}

// SwitchBack makes a formerly best branch (n.Stale[i]) the best chain again,
// as `invalidateblock` on the current branch followed by `reconsiderblock`
// does: the current branch is disconnected down to the fork point and the old
// blocks — the very same blocks, same hashes — are connected and announced
// again. If the old branch is shorter than the current one it is extended by
// `extend` fresh blocks first... (the caller mines them afterwards); a client
// modelled on bitcoind ignores a branch that is lower than its best block.
// Returns the number of blocks disconnected and reconnected.
func (n *Node) SwitchBack(i int) (int, int) {
	if len(n.Stale) == 0 {
		return 0, 0
	}
	tip := n.Stale[((i%len(n.Stale))+len(n.Stale))%len(n.Stale)]
	// branch from the fork point to tip
	var branch []*Block
	x := tip
	for !n.OnBest(x) {
		branch = append([]*Block{x}, branch...)
		x = n.blocks[x.Msg.Header.PrevBlock]
		if x == nil {
			return 0, 0
		}
	}
	if len(branch) == 0 {
		return 0, 0
	}
	depth := len(n.Best) - 1 - int(x.Height)
	if depth > 0 {
		n.Stale = append(n.Stale, n.Tip())
	}
	var back []*wire.MsgTx
	for k := 0; k < depth; k++ {
		b := n.disconnectTip()
		var txs []*wire.MsgTx
		for _, tx := range b.Msg.Transactions {
			if !isCoinbase(tx) {
				txs = append(txs, tx)
			}
		}
		back = append(txs, back...)
	}
	for _, tx := range back {
		if n.CheckAccept(tx) == nil {
			n.addPool(tx)
			for _, c := range n.subs {
				c.pending = append(c.pending, nodeEvent{tx: tx})
			}
		}
	}
	n.pruneOrphans()
	for _, b := range branch {
		n.connect(b)
		n.announce(b)
	}
	n.pruneOrphans()
	// the branch is best again: no longer stale
	var keep []*Block
	for _, s := range n.Stale {
		if !n.OnBest(s) {
			keep = append(keep, s)
		}
	}
	n.Stale = keep
	return depth, len(branch)
}

// Invalidate disconnects `depth` blocks from the tip WITHOUT a replacement
// branch (bitcoind/btcd `invalidateblock`): the best chain becomes shorter.
// Subscribed clients are told about the disconnected blocks, tip first, as a
// backend with per-block disconnect notifications (btcd) does. The branch
// stays in n.Stale so that SwitchBack (`reconsiderblock`) can return to it.
func (n *Node) Invalidate(depth int) []*Block {
	if depth > len(n.Best)-1 {
		depth = len(n.Best) - 1
	}
	if depth <= 0 {
		return nil
	}
	n.Stale = append(n.Stale, n.Tip())
	var out []*Block
	var back []*wire.MsgTx
	for i := 0; i < depth; i++ {
		b := n.disconnectTip()
		out = append(out, b)
		var txs []*wire.MsgTx
		for _, tx := range b.Msg.Transactions {
			if !isCoinbase(tx) {
				txs = append(txs, tx)
			}
		}
		back = append(txs, back...)
	}
	for _, c := range n.subs {
		c.pending = append(c.pending, nodeEvent{disc: out})
	}
	for _, tx := range back {
		if n.CheckAccept(tx) == nil {
			n.addPool(tx)
			for _, c := range n.subs {
				c.pending = append(c.pending, nodeEvent{tx: tx})
			}
		}
	}
	n.pruneOrphans()
	return out
}
