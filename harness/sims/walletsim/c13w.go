package walletsim

import (
	"fmt"
	"github.com/btcsuite/btcd/btcec/v2"
	"github.com/btcsuite/btcwallet/waddrmgr"
	"sort"
	"verifsim/core"

	"github.com/btcsuite/btcd/btcutil"
	"github.com/btcsuite/btcd/chaincfg/chainhash"
	"github.com/btcsuite/btcwallet/wallet"
	"github.com/btcsuite/btcwallet/walletdb"

	"verifsim/simrt"
)

// C13 at wallet level: Wallet.GetTransactions (the accessor the property
// names beside the store's own) over height ranges in both directions must
// report every transaction the store knows exactly once, under the block that
// currently confirms it or as unconfirmed, and nothing else. ledgersim decides
// the store-level statement with its reference ledger; here the "known set"
// is obtained by direct lookup (TxStore.TxDetails per candidate hash: every
// transaction the node ever saw plus everything the wallet authored), which
// does not share the range iterator's code, and the wallet processes real
// notification histories (the C06 / C15 workloads incl. reorgs, invalidated
// blocks, restarts).

type knownRec struct {
	hash     chainhash.Hash
	height   int32
	block    chainhash.Hash
	nCredits int
	nDebits  int
	debitSum btcutil.Amount
}

func (x *world) checkC13w(label string) {
	if !x.running || x.violated || x.w == nil {
		return
	}
	simrt.WaitIdle("harness:c13w")
	if x.client != nil && x.client.RescanActive() {
		return
	}
	cands := map[chainhash.Hash]bool{}
	for _, id := range x.node.KnownTxIDs() {
		cands[id] = true
	}
	for _, t := range x.sent {
		cands[t.TxHash()] = true
	}
	for _, t := range x.built {
		cands[t.TxHash()] = true
	}
	ids := make([]chainhash.Hash, 0, len(cands))
	for id := range cands {
		ids = append(ids, id)
	}
	sort.Slice(ids, func(i, j int) bool { return ids[i].String() < ids[j].String() })
	known := map[chainhash.Hash]knownRec{}
	uncredited, nOwn := "", 0
	sync := x.w.Manager.SyncedTo()
	err := walletdb.View(x.w.Database(), func(tx walletdb.ReadTx) error {
		ns := tx.ReadBucket(wtxmgrNS)
		for i := range ids {
			d, err := x.w.TxStore.TxDetails(ns, &ids[i])
			if err != nil {
				return fmt.Errorf("TxDetails(%s): %w", short(ids[i]), err)
			}
			if d == nil {
				continue
			}
			// "Each credited output": an output that pays an address the
			// wallet itself issued (before the payment was made — the
			// workload pays issued addresses only) is a credited output.
			if !x.hadCrash && uncredited == "" {
				for oi, o := range d.MsgTx.TxOut {
					_, own := x.byScript[string(o.PkScript)]
					ki, ownKey := x.importedKeyScripts[string(o.PkScript)]
					if !own && !ownKey {
						continue
					}
					nOwn++
					listed := false
					for _, c := range d.Credits {
						if int(c.Index) == oi {
							listed = true
						}
					}
					if !listed {
						var to btcutil.Address
						if ownKey {
							to = x.importedKeys[ki]
						} else {
							to = x.issuedAddrs[x.byScript[string(o.PkScript)]].addr
						}
						uncredited = fmt.Sprintf("output %d of %s (%d sat) pays %s, an address the wallet issued or imported the key of, and is not among the transaction's credits %v", oi, short(ids[i]), o.Value, to, d.Credits)
					}
				}
			}
			k := knownRec{hash: ids[i], height: d.Block.Height, block: d.Block.Hash, nCredits: len(d.Credits), nDebits: len(d.Debits)}
			for _, db := range d.Debits {
				k.debitSum += db.Amount
			}
			known[ids[i]] = k
		}
		return nil
	})
	if err != nil {
		x.fail("c13w:store-error:TxDetails", "%v", err)
		return
	}
	if x.w.Manager.SyncedTo() != sync {
		return
	}
	x.env.Count("probe.c13w-checked")
	if nOwn > 0 {
		x.env.Count("probe.c13w-own-outputs-checked")
	}
	if uncredited != "" {
		x.fail("c13w:own-output-not-listed-as-credit", "%s: %s", label, uncredited)
		return
	}
	maxH := int32(0)
	nUnmined := 0
	for _, k := range known {
		if k.height > maxH {
			maxH = k.height
		}
		if k.height < 0 {
			nUnmined++
		}
	}
	if nUnmined > 0 {
		x.env.Count("probe.c13w-with-unconfirmed")
	}
	tip := sync.Height
	type rg struct{ a, b int32 }
	ranges := []rg{{0, -1}, {0, tip}, {tip, 0}, {-1, 0}, {maxH, maxH}, {maxH, -1}, {tip / 2, tip}, {tip, tip / 2}, {tip + 1, tip + 50}}
	for _, g := range ranges {
		res, err := x.w.GetTransactions(wallet.NewBlockIdentifierFromHeight(g.a), wallet.NewBlockIdentifierFromHeight(g.b), "", nil)
		if err != nil {
			x.fail("c13w:store-error:GetTransactions", "%s: GetTransactions(%d,%d) failed: %v", label, g.a, g.b, err)
			return
		}
		// the statement's expectation for this range
		lo, hi := g.a, g.b
		unmined := lo < 0 || hi < 0
		if lo < 0 {
			lo = 1 << 30 // -1 sorts after every height
		}
		if hi < 0 {
			hi = 1 << 30
		}
		if lo > hi {
			lo, hi = hi, lo
		}
		want := map[chainhash.Hash]knownRec{}
		for id, k := range known {
			if k.height < 0 {
				if unmined {
					want[id] = k
				}
				continue
			}
			if k.height >= lo && k.height <= hi {
				want[id] = k
			}
		}
		got := map[chainhash.Hash]bool{}
		see := func(ts *wallet.TransactionSummary, height int32, bh *chainhash.Hash) bool {
			id := *ts.Hash
			if got[id] {
				x.fail("c13w:range:duplicate", "%s: GetTransactions(%d,%d) reports %s twice", label, g.a, g.b, short(id))
				return false
			}
			got[id] = true
			k, ok := want[id]
			if !ok {
				if kk, isKnown := known[id]; isKnown {
					x.fail("c13w:range:extra", "%s: GetTransactions(%d,%d) reports %s (at %d) which direct lookup files at height %d, outside the range", label, g.a, g.b, short(id), height, kk.height)
				} else {
					x.fail("c13w:range:unknown-tx", "%s: GetTransactions(%d,%d) reports %s which direct lookup does not know", label, g.a, g.b, short(id))
				}
				return false
			}
			if k.height != height || (bh != nil && *bh != k.block) {
				x.fail("c13w:range:wrong-block", "%s: GetTransactions(%d,%d) reports %s at height %d, direct lookup files it at %d %s", label, g.a, g.b, short(id), height, k.height, short(k.block))
				return false
			}
			if len(ts.MyOutputs) != k.nCredits || len(ts.MyInputs) != k.nDebits {
				x.fail("c13w:summary:credits-debits", "%s: summary of %s lists %d own outputs / %d own inputs, its record has %d credits / %d debits", label, short(id), len(ts.MyOutputs), len(ts.MyInputs), k.nCredits, k.nDebits)
				return false
			}
			for _, mo := range ts.MyOutputs {
				if ts.Tx == nil || int(mo.Index) >= len(ts.Tx.TxOut) {
					x.fail("c13w:summary:output-index", "%s: summary of %s lists own output %d, the transaction has no such output", label, short(id), mo.Index)
					return false
				}
				if idx, ok := x.byScript[string(ts.Tx.TxOut[mo.Index].PkScript)]; ok {
					is := x.issuedAddrs[idx]
					if mo.Account != is.account || mo.Internal != (is.branch == 1) {
						x.fail("c13w:summary:output-account", "%s: summary of %s files output %d under account %d internal=%v; the address is account %d branch %d", label, short(id), mo.Index, mo.Account, mo.Internal, is.account, is.branch)
						return false
					}
				}
			}
			var in btcutil.Amount
			for _, mi := range ts.MyInputs {
				in += mi.PreviousAmount
			}
			if in != k.debitSum {
				x.fail("c13w:summary:debit-amount", "%s: summary of %s debits %v, its record %v", label, short(id), in, k.debitSum)
				return false
			}
			return true
		}
		lastH := int32(-2)
		asc := g.a <= g.b || g.b < 0
		if g.a < 0 {
			asc = false
		}
		for _, b := range res.MinedTransactions {
			if b.Height < 0 || b.Hash == nil {
				x.fail("c13w:range:unconfirmed-listed-as-block", "%s: GetTransactions(%d,%d) lists a block of height %d among the mined ones", label, g.a, g.b, b.Height)
				return
			}
			if lastH != -2 && ((asc && b.Height <= lastH) || (!asc && b.Height >= lastH)) {
				x.fail("c13w:range:block-order", "%s: GetTransactions(%d,%d) lists block %d after block %d", label, g.a, g.b, b.Height, lastH)
				return
			}
			lastH = b.Height
			for i := range b.Transactions {
				if !see(&b.Transactions[i], b.Height, b.Hash) {
					return
				}
			}
		}
		for i := range res.UnminedTransactions {
			if !see(&res.UnminedTransactions[i], -1, nil) {
				return
			}
		}
		for id, k := range want {
			if !got[id] {
				x.fail("c13w:range:missing", "%s: GetTransactions(%d,%d) omits %s, which direct lookup files at height %d", label, g.a, g.b, short(id), k.height)
				return
			}
		}
	}
}

// importkey: a single private key imported through Wallet.ImportPrivateKey
// (no rescan, start block = the wallet's current tip, so that the birthday is
// left alone); later payments to its address are the wallet's.
func (rs *runState) importkey(step int, op core.Op) {
	x := rs.x
	sc := []waddrmgr.KeyScope{waddrmgr.KeyScopeBIP0044, waddrmgr.KeyScopeBIP0049Plus, waddrmgr.KeyScopeBIP0084}[int(uint64(op.Arg(0))%3)]
	raw := core.NewRand(core.Mix(x.p.Seed, 0x1319+uint64(len(x.importedKeys)))).Bytes(32)
	priv, _ := btcec.PrivKeyFromBytes(raw)
	wif, err := btcutil.NewWIF(priv, x.params, true)
	if err != nil {
		return
	}
	st := x.w.Manager.SyncedTo()
	as, err := x.w.ImportPrivateKey(sc, wif, &st, false)
	x.env.Count("op.ImportPrivateKey")
	x.env.Eff()
	x.env.Logf("%d importkey scope=%d -> %s err=%v", step, sc.Purpose, as, err)
	if err != nil {
		return
	}
	addr, err := btcutil.DecodeAddress(as, x.params)
	if err != nil {
		return
	}
	if x.importedKeyScripts == nil {
		x.importedKeyScripts = map[string]int{}
	}
	x.importedKeyScripts[string(payTo(addr, 0).PkScript)] = len(x.importedKeys)
	x.importedKeys = append(x.importedKeys, addr)
}
