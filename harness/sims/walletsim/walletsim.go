package walletsim

import (
	"fmt"
	"github.com/btcsuite/btclog"
	"os"
	"sort"
	"time"

	"github.com/btcsuite/btcd/btcutil"
	"github.com/btcsuite/btcd/btcutil/psbt"
	"github.com/btcsuite/btcd/chaincfg/chainhash"
	"github.com/btcsuite/btcd/wire"
	"github.com/btcsuite/btcwallet/waddrmgr"
	"github.com/btcsuite/btcwallet/wallet"
	"github.com/btcsuite/btcwallet/walletdb"

	"verifsim/core"
	"verifsim/faultdb"
	"verifsim/simchain"
	"verifsim/simrt"
)

type sim struct{}

func init() { core.Register(sim{}) }

func (sim) Name() string { return "walletsim" }
func (sim) Props() []string {
	return []string{"C09", "C15", "C20", "C06", "C16", "C04", "C01", "C03", "C05", "C08", "C13", "C10", "C12", "C02"}
}
func (sim) Level(string) string { return "exploration" }
func (sim) Rule(prop string) string {
	switch prop {
	case "C09":
		return "C09: a case is (parallel sections of address-issuing calls by 2-4 user tasks on the same and on different scope/account/branch, scheduling strategy + seed, target-site bias on the commit->callback window); every mutex acquisition, goroutine start and database-transaction boundary of wallet, waddrmgr, bdb and bbolt is a scheduler decision."
	case "C04":
		return "C04 (wallet level): a case is (addresses issued on several scopes, optional raw accounts created by an earlier InitAccounts call, optional receipt, then Wallet.InitAccounts(scope, watchOnly=true, n), stop and reopen)."
	case "C16":
		return "C16: a case is (seed, recovery window W, a generated chain whose blocks pay harness-derived addresses of the four default scopes / both branches obeying the look-ahead condition exactly, spends of recovered outputs, block-time gaps from seconds to days, birthday at or before the first paying block, locked or unlocked restore, 0-3 interruptions (Stop + reopen, or a lock request) at seeded scheduling points inside the recovery)."
	case "C06":
		return "C06: a case is (wallet history: receipts on all four default address types and two accounts, coinbase credits near maturity, locks, leases, clock, blocks, reorgs; requests: SendOutputs / dry CreateSimpleTx / SendOutputsWithInput with eligible and ineligible explicit inputs, random outputs, fee rates, minconf, scope, account, selection strategy; 1-4 concurrent senders)."
	case "C20":
		return "C20: a case is (wallet history of receipts, sends incl. chained unconfirmed ones, built-then-published transactions, leases, blocks, restarts; at every broadcast — initial and each re-broadcast after a restart — a backend answer class: accepted, already in mempool, already confirmed, rejected (fee / generic / conflict), transport error, subscription failure)."
	case "C12":
		return "C12 (wallet level): a case is (receipts on four address types, leases through Wallet.LeaseOutput under two identifiers, releases, the clock, blocks, restarts, and the leased coin spent whole by a transaction that someone else hands to the node, while the wallet is up or down, under a bitcoind-style or an outpoint-only (btcd-style) transaction filter)."
	case "C10":
		return "C10 (wallet level): the C03/C05/C08 wallet-level workload with a database fault (the k-th mutating call of the next operation, or its commit) in front of account-import previews, imports, NextAccount and address requests; after a fault fired the running wallet must answer as a manager opened on the database, previews of fresh keys must show those keys, and everything that follows in the run is attributed to the failed operation."
	case "C03", "C05", "C08":
		return prop + " (wallet level): a case is (addresses on the default scopes, optional receipts, then a mix of account-import previews (ImportAccountDryRun: seven key-version x address-type variants, 1-4 foreign keys), real imports (often into the scope just previewed with another key or format), NextAccount, addresses of own and imported accounts, dry-run sends, renames, wallet lock / account operations while locked / unlock, restarts, blocks, restart observations, private-key checks)."
	case "C02":
		return "C02 (wallet level): a case is (the C15 workload — extensions, reorgs, stale and repeated notifications, delivery lag, stop / restart phases while the node moves, backend call failures, a crash at a commit — with wallet-authored spends in the mix); at every point where the wallet has caught up with the node: nothing confirmed in a disconnected block, coinbases of disconnected blocks and their dependants gone, recorded transactions that are still valid kept with their credits, and a fresh store given only the wallet's final facts answers like the wallet's."
	case "C13":
		return "C13 (wallet level): a case is (the C06 or the C15 workload); after every operation, with the wallet idle, Wallet.GetTransactions over nine height ranges in both directions is compared with the known set obtained by direct lookup of every transaction the node ever saw or the wallet authored."
	case "C01":
		return "C01 (wallet level): a case is (the C06 or the C15 workload — receipts on four address types and two accounts, coinbases near maturity, wallet-authored sends, locks, leases, clock, blocks, reorgs, invalidated and reconsidered blocks, delivery lag, restarts); after every operation, with the wallet idle, CalculateBalance / ListUnspent / CalculateAccountBalances are compared with the statement evaluated over the wallet's own known transaction set."
	case "C15":
		return "C15: a case is (chain evolution: extensions, reorgs of depth 1..D, stale/repeated notifications, delivery lag, wallet stop/restart phases while the node moves, backend call failures; wallet transactions placed in the affected blocks)."
	}
	return ""
}
func (sim) Components() map[string][]string {
	return map[string][]string{
		"real": {"wallet.Wallet incl. all its goroutines (instrumented from the working tree)", "waddrmgr", "wtxmgr", "walletdb/bdb", "bbolt (instrumented copy)",
			"txauthor/txsizes/txrules", "chain.ConcurrentQueue", "chain.BlockFilterer", "btcd txscript/hdkeychain/btcec"},
		"stub":    {"chain backend (simchain node + client modelled on chain/bitcoind_client.go)", "OS clock (synctest fake clock)", "scrypt cost (N=16)"},
		"not_run": {"rpc server", "cmd/", "legacy keystore", "btcd / bitcoind / neutrino clients"},
	}
}
func (sim) Assumptions() []string {
	return []string{
		"simchain reproduces the notification protocol of chain/bitcoind_client.go (RelevantTx, FilteredBlockConnected, BlockConnected per block; BlockDisconnected tip-down on reorg; synchronous rescan ending in RescanFinished); a divergence between it and a real backend is outside what this check sees",
		"channel operations inside the wallet are executed natively inside the synctest bubble (durably blocking); select statements with several ready cases are resolved by the Go runtime, not by the seed — workloads avoid making several cases ready at once, and the determinism self-test measures the residue",
	}
}
func (sim) Explain(prop string, st map[string]int64) string {
	var probes []string
	switch prop {
	case "C09":
		probes = []string{"probe.parked-between-commit-and-callback", "probe.same-branch-concurrent", "probe.dryrun-derived-change", "probe.psbt-change-issued", "probe.index-consumed-by-failed-call", "probe.porcupine-checked"}
	case "C04":
		probes = []string{"probe.wallet-level-conversion", "probe.conversion-with-accounts-requested", "probe.reopened-after-conversion", "probe.secret-patterns-scanned"}
	case "C16":
		probes = []string{"probe.paid-last-index-of-window", "probe.spend-of-recovered-output", "probe.spend-in-the-block-of-the-payment-it-spends", "probe.recovery-interrupted", "probe.recovery-interrupted-midway", "probe.lock-during-recovery",
			"probe.recovery-locked", "probe.recovery-unlocked", "probe.batch-boundary-crossed", "probe.c16-checked", "probe.checked-after-resumed-recovery"}
	case "C06":
		probes = []string{"probe.two-senders-in-flight", "probe.spent-mature-coinbase", "probe.spent-unconfirmed-coin", "probe.explicit-ineligible:locked", "probe.explicit-ineligible:leased",
			"probe.explicit-ineligible:other-account", "probe.explicit-ineligible:other-scope", "probe.explicit-ineligible:too-few-confirmations", "probe.explicit-ineligible:immature-coinbase",
			"probe.explicit-ineligible:already-spent", "probe.explicit-ineligible:unknown-outpoint", "probe.account-import-preview", "probe.verified:pubkeyhash", "probe.verified:witness_v0_keyhash", "probe.verified:scripthash", "probe.verified:witness_v1_taproot"}
	case "C20":
		probes = []string{"probe.rejection-with-other-unmined", "probe.chained-unconfirmed-send", "probe.already-in-mempool", "probe.already-confirmed",
			"probe.rejection-of-recorded-tx", "probe.resend-with-unmined", "probe.resend-chain", "fault.backend-answer.transport", "fault.backend-answer.reject-fee",
			"fault.backend-answer.reject-generic", "fault.backend-answer.reject-conflict", "fault.backend-answer.notify-received-fails", "fault.backend-answer.notify-received-2nd-fails", "probe.resend-rejected", "probe.rejection-with-recorded-child", "probe.resend-child-of-two-outputs-of-one-parent", "probe.foreign-child-of-wallet-tx", "fault.crash-before-broadcast"}
	case "C12":
		probes = []string{"probe.c12w-checked", "probe.c12w-active-lease-checked", "probe.c12w-leased-coin-spent-outside", "probe.c12w-spent-outside-while-wallet-down", "probe.c12w-confirmed-spend-of-leased-output", "probe.c12w-lease-beside-coin-selection", "probe.c12w-lease-committed-before-the-selecting-transaction-began"}
	case "C10":
		probes = []string{"fault.db.write", "fault.db.commit", "probe.fault-fired-in:importdry2", "probe.fault-fired-in:importacct", "probe.fault-fired-in:newaddr", "probe.fault-fired-in:newaddri", "probe.fault-fired-in:newacct", "probe.restart-observations"}
	case "C03", "C05", "C08":
		probes = []string{"probe.account-import-preview", "probe.preview-while-locked", "probe.account-imported", "probe.import-after-preview", "probe.imported-address-checked",
			"probe.restart-observations", "probe.next-address-compared", "probe.private-key-checked", "probe.private-access-while-locked"}
	case "C02":
		probes = []string{"probe.c02w-checked", "probe.c02w-with-unconfirmed", "probe.c02w-direct-construction-compared", "probe.c02w-compared-with-both-kinds", "probe.reorg-with-wallet-tx", "probe.restart-tip-not-on-chain", "probe.node-moved-while-stopped", "fault.crash-at-commit"}
	case "C13":
		probes = []string{"probe.c13w-checked", "probe.c13w-with-unconfirmed", "probe.reorg-with-wallet-tx", "probe.same-address-paid-twice-by-one-transaction", "probe.payment-to-an-imported-single-key", "probe.c13w-own-outputs-checked"}
	case "C01":
		probes = []string{"probe.c01w-checked", "probe.c01w-with-leases", "probe.c01w-unconfirmed-credit", "probe.c01w-immature-coinbase", "probe.c01w-account-balances-checked"}
	case "C15":
		probes = []string{"probe.repeated-disconnect", "probe.reorg-back-to-known-blocks", "probe.chain-shortened", "probe.ops-during-initial-rescan", "probe.reorg-during-start-up-rescan", "probe.reorg-depth>1", "probe.reorg-with-wallet-tx", "probe.restart-tip-not-on-chain", "probe.stale-disconnect", "probe.reorg-equal-height", "probe.sync-after-backend-failure", "probe.node-moved-while-stopped", "fault.crash-at-commit", "probe.crash-lost-later-commits"}
	}
	s := "probes: "
	for _, k := range probes {
		s += fmt.Sprintf("%s=%d ", k, st[k])
		if st[k] == 0 {
			s += "(COVERAGE HOLE) "
		}
	}
	return s
}

// ---------------------------------------------------------------- generation

func (sim) Generate(prop, tier string, seed uint64) *core.Plan {
	r := core.NewRand(seed)
	p := &core.Plan{Cfg: map[string]int64{}}
	strategies := []string{"random", "random", "pct", "rtb1", "rtb3", "rtb6"}
	p.Sched = strategies[r.Intn(len(strategies))]
	p.SchedSeed = r.Uint64()
	p.Cfg["maturity"] = []int64{1, 2, 3, 5, 100}[r.Intn(5)]
	p.Cfg["prechain"] = int64(r.Range(1, 6))
	p.Cfg["queue_buf"] = []int64{0, 1, 5, 20}[r.Intn(4)]
	if tier == "thorough" {
		p.Cfg["thorough"] = 1 // longer histories per run
	}
	switch prop {
	case "C09":
		genC09(r, p)
	case "C15":
		genC15(r, p)
	case "C20":
		genC20(r, p)
	case "C06":
		genC06(r, p)
	case "C16":
		genC16(r, p)
	case "C04":
		genC04w(r, p)
	case "C01", "C13":
		genC01w(r, p)
	case "C03", "C05", "C08":
		genAcctW(r, p)
	case "C10":
		genAcctWFaults(r, p)
	case "C12":
		genC12w(r, p)
	case "C02":
		genC02w(r, p)
	}
	return p
}

func genC09(r *core.Rand, p *core.Plan) {
	// bias towards the window the property names
	if r.Chance(1, 2) {
		p.Cfg["target_commit_window"] = 1
	}
	if r.Chance(1, 4) {
		// mutex releases are scheduling points too (code that picks
		// something under a lock and uses it after releasing it)
		p.Cfg["yield_after_unlock"] = 1
	}
	ntasks := r.Range(2, 4)
	sections := r.Range(1, 3)
	if p.Cfg["thorough"] == 1 {
		sections = r.Range(2, 5)
	}
	// a few sequential warm-up calls
	for i := 0; i < r.Intn(3); i++ {
		p.Ops = append(p.Ops, core.Op{K: "newaddr", A: []int64{int64(r.Intn(4)), 0, int64(r.Intn(2))}})
	}
	// optional funding so that sends need change
	funded := r.Chance(1, 2)
	if funded {
		p.Ops = append(p.Ops, core.Op{K: "newaddr", A: []int64{0, 0, 0}})
		for i := 0; i < r.Range(2, 4); i++ {
			p.Ops = append(p.Ops, core.Op{K: "fund", A: []int64{int64(r.Intn(4)), int64(r.Range(1, 50)) * 1e6}})
		}
		p.Ops = append(p.Ops, core.Op{K: "mine", A: []int64{int64(p.Cfg["maturity"]%6 + 1), 100, -1, 600}})
		p.Ops = append(p.Ops, core.Op{K: "sync"})
	}
	for s := 0; s < sections; s++ {
		sameBranch := r.Chance(2, 3)
		sc, kind := int64(r.Intn(4)), int64(r.Intn(2))
		for t := 1; t <= ntasks; t++ {
			n := r.Range(1, 3)
			for i := 0; i < n; i++ {
				if !sameBranch {
					sc, kind = int64(r.Intn(4)), int64(r.Intn(3))
				}
				switch {
				case funded && r.Chance(1, 4):
					p.Ops = append(p.Ops, core.Op{K: "send", T: t, A: []int64{int64(r.Range(1, 20)) * 1e5, 1, 1000, -1, 0, 0, int64(r.Intn(2))}})
				case funded && r.Chance(1, 5):
					p.Ops = append(p.Ops, core.Op{K: "dryrun", T: t, A: []int64{int64(r.Range(1, 20)) * 1e5, 1, 1000, -1, 0, 0}})
				case funded && r.Chance(1, 4):
					p.Ops = append(p.Ops, core.Op{K: "fundpsbt", T: t, A: []int64{int64(r.Intn(8)), int64(r.Range(1, 10)) * 1e5}})
				case r.Chance(1, 8):
					p.Ops = append(p.Ops, core.Op{K: "newaddr", T: t, A: []int64{sc, 0, 2}})
				case r.Chance(1, 7):
					// another caller's account operation on the same account,
					// free to land in the commit window of an issuing call
					p.Ops = append(p.Ops, core.Op{K: "rename", T: t, A: []int64{sc}})
				default:
					p.Ops = append(p.Ops, core.Op{K: "newaddr", T: t, A: []int64{sc, 0, kind}})
				}
			}
		}
		p.Ops = append(p.Ops, core.Op{K: "join"})
	}
}

func genC15(r *core.Rand, p *core.Plan) {
	p.Sched = []string{"rtb0", "rtb1", "random", "rtb3"}[r.Intn(4)]
	n := r.Range(6, 30)
	if p.Cfg["thorough"] == 1 {
		n = r.Range(20, 70)
	}
	p.Ops = append(p.Ops, core.Op{K: "newaddr", A: []int64{int64(r.Intn(4)), 0, 0}})
	p.Ops = append(p.Ops, core.Op{K: "newaddr", A: []int64{int64(r.Intn(4)), 0, 0}})
	maxDepth := r.Range(1, 8)
	if r.Chance(1, 3) {
		p.Cfg["async_rescan"] = 1
		if r.Chance(1, 2) {
			p.Cfg["reorg_during_rescan"] = 1
		}
	}
	if r.Chance(1, 2) {
		p.Cfg["btcd_rescan"] = 1 // rescans report transactions only; the wallet catches up block hashes itself
	}
	for i := 0; i < n; i++ {
		switch r.Weighted([]int{20, 25, 18, 12, 14, 5, 4, 4, 6, 4, 3, 8, 7}) {
		case 12:
			// power loss while the wallet is processing what the node did:
			// the durable state is the database as of the k-th commit
			switch r.Intn(3) {
			case 0:
				p.Ops = append(p.Ops, core.Op{K: "mine", A: []int64{int64(r.Range(1, 4)), int64(r.Range(40, 100)), int64(r.Range(-1, 3)), 600, int64(r.Uint64() >> 1)}})
			case 1:
				d := r.Range(1, maxDepth)
				p.Ops = append(p.Ops, core.Op{K: "reorg", A: []int64{int64(d), int64(d + r.Range(0, 2)), int64(r.Range(0, 100)), int64(r.Uint64() >> 1)}})
			default:
				p.Ops = append(p.Ops, core.Op{K: "fund", A: []int64{int64(r.Intn(6)), int64(r.Range(1, 50)) * 1e6}})
				p.Ops = append(p.Ops, core.Op{K: "mine", A: []int64{int64(r.Range(1, 2)), 100, -1, 600, int64(r.Uint64() >> 1)}})
			}
			p.Ops = append(p.Ops, core.Op{K: "crashsync", A: []int64{int64(r.Range(1, 6))}})
		case 11:
			if r.Chance(1, 2) {
				// invalidateblock ... reconsiderblock: the chain gets shorter,
				// then returns to the very same blocks
				p.Ops = append(p.Ops, core.Op{K: "invalidate", A: []int64{int64(r.Range(1, 4))}})
				if r.Chance(2, 3) {
					p.Ops = append(p.Ops, core.Op{K: "sync"})
				}
				if r.Chance(1, 4) {
					p.Ops = append(p.Ops, core.Op{K: "mine", A: []int64{1, 100, -1, 600, int64(r.Uint64() >> 1)}})
					p.Ops = append(p.Ops, core.Op{K: "sync"})
				}
				p.Ops = append(p.Ops, core.Op{K: "switchback", A: []int64{0, int64(r.Uint64() >> 1), 0}})
				p.Ops = append(p.Ops, core.Op{K: "sync"})
			} else {
				p.Ops = append(p.Ops, core.Op{K: "switchback", A: []int64{int64(r.Intn(4)), int64(r.Uint64() >> 1)}})
			}
		case 0:
			p.Ops = append(p.Ops, core.Op{K: "fund", A: []int64{int64(r.Intn(6)), int64(r.Range(1, 50)) * 1e6}})
		case 1:
			cb := int64(-1)
			if r.Chance(1, 4) {
				cb = int64(r.Intn(6))
			}
			p.Ops = append(p.Ops, core.Op{K: "mine", A: []int64{int64(r.Range(1, 3)), int64(r.Range(40, 100)), cb, int64(r.Range(1, 1200)), int64(r.Uint64() >> 1)}})
		case 2:
			d := r.Range(1, maxDepth)
			extra := r.Range(0, 2) // new branch length = depth + extra (0: equal height)
			p.Ops = append(p.Ops, core.Op{K: "reorg", A: []int64{int64(d), int64(d + extra), int64(r.Range(0, 100)), int64(r.Uint64() >> 1)}})
		case 3:
			p.Ops = append(p.Ops, core.Op{K: "deliver", A: []int64{int64(r.Range(1, 4))}})
		case 4:
			p.Ops = append(p.Ops, core.Op{K: "sync"})
		case 5:
			p.Ops = append(p.Ops, core.Op{K: "stale", A: []int64{int64(r.Intn(4)), int64(r.Intn(5))}})
		case 6:
			p.Ops = append(p.Ops, core.Op{K: "redeliver", A: []int64{int64(r.Intn(50))}})
		case 7:
			p.Ops = append(p.Ops, core.Op{K: "clock", A: []int64{int64(r.Range(1, 7200))}})
		case 8:
			p.Ops = append(p.Ops, core.Op{K: "stop"})
			if r.Chance(1, 3) {
				p.Ops = append(p.Ops, core.Op{K: "failnext", A: []int64{int64(r.Intn(len(failMethods))), int64(r.Range(1, 3))}})
			}
			// the node moves while the wallet is stopped
			for j := 0; j < r.Range(0, 3); j++ {
				if r.Chance(1, 2) {
					p.Ops = append(p.Ops, core.Op{K: "mine", A: []int64{int64(r.Range(1, 3)), 100, -1, 600, int64(r.Uint64() >> 1)}})
				} else {
					d := r.Range(1, maxDepth)
					p.Ops = append(p.Ops, core.Op{K: "reorg", A: []int64{int64(d), int64(d + r.Range(0, 2)), int64(r.Range(0, 100)), int64(r.Uint64() >> 1)}})
					if r.Chance(1, 3) {
						p.Ops = append(p.Ops, core.Op{K: "switchback", A: []int64{int64(r.Intn(4)), int64(r.Uint64() >> 1)}})
					}
				}
			}
			if p.Cfg["async_rescan"] == 1 && r.Chance(2, 3) {
				// blocks found, reorgs and deliveries while the start-up
				// rescan is still running
				p.Ops = append(p.Ops, core.Op{K: "start", A: []int64{1}})
				for j := 0; j < r.Range(1, 5); j++ {
					k := r.Intn(4)
					if p.Cfg["reorg_during_rescan"] == 1 && r.Chance(1, 3) {
						k = 4
					}
					switch k {
					case 4:
						d := r.Range(1, 3)
						p.Ops = append(p.Ops, core.Op{K: "reorg", A: []int64{int64(d), int64(d + r.Range(0, 2)), int64(r.Range(0, 100)), int64(r.Uint64() >> 1)}})
					case 0:
						p.Ops = append(p.Ops, core.Op{K: "mine", A: []int64{int64(r.Range(1, 2)), 100, int64(r.Range(-1, 3)), 600, int64(r.Uint64() >> 1)}})
					case 1:
						p.Ops = append(p.Ops, core.Op{K: "fund", A: []int64{int64(r.Intn(6)), int64(r.Range(1, 50)) * 1e6}})
					case 2:
						p.Ops = append(p.Ops, core.Op{K: "rescanstep", A: []int64{int64(r.Range(1, 3))}})
					case 3:
						p.Ops = append(p.Ops, core.Op{K: "deliver", A: []int64{int64(r.Range(1, 3))}})
					}
				}
				p.Ops = append(p.Ops, core.Op{K: "sync"})
			} else {
				p.Ops = append(p.Ops, core.Op{K: "start"})
			}
		case 9:
			p.Ops = append(p.Ops, core.Op{K: "send", A: []int64{int64(r.Range(1, 20)) * 1e5, int64(r.Intn(2)), 1000, -1, 0, 0, 0}})
		case 10:
			p.Ops = append(p.Ops, core.Op{K: "newaddr", A: []int64{int64(r.Intn(4)), 0, int64(r.Intn(2))}})
		}
	}
	p.Ops = append(p.Ops, core.Op{K: "sync"})
}

// Rescan is deliberately not in this list: when chainClient.Rescan returns an
// error the wallet's rescanBatchHandler keeps the failed batch as "current"
// and every retry is merged into a next batch that is never submitted, so the
// wallet never becomes synced again until restart. Observed with this
// simulator; it is a liveness defect under a backend RPC failure, which is
// outside the statement of C15 (and of every listed property), so it is not
// checked and not reported.
var failMethods = []string{"GetBlockHash", "GetBlockHeader", "GetBestBlock", "NotifyBlocks"}

// ---------------------------------------------------------------- execution

// issuing call record (C09)
type issueRec struct {
	task      int
	kind      string
	scope     waddrmgr.KeyScope
	branch    uint32
	index     uint32
	addr      string
	call, ret int
	current   bool
}

type runState struct {
	sent6                   []sentRec
	x                       *world
	issues                  []issueRec
	errs                    map[string]int
	section                 int
	renames                 int
	previews, imports, obsN int
	chpassN                 int
	faultArmed              bool
}

func (sim) Execute(env *core.Env, p *core.Plan) {
	strategy := p.Sched
	if strategy == "" {
		strategy = "random"
	}
	cfg := simrt.Config{Seed: p.SchedSeed, Strategy: strategy, StuckAfter: 24 * time.Hour,
		MaxSteps: 3_000_000, ExpectedSteps: 3000 + 400*len(p.Ops), Trace: env.Verbose}
	if p.C("target_commit_window", 0) == 1 {
		cfg.TargetSites = []string{"db:commit.callbacks"}
	}
	cfg.YieldAfterUnlock = p.C("yield_after_unlock", 0) == 1
	if env.Verbose && os.Getenv("VERIF_WALLET_LOG") != "" {
		l := btclog.NewBackend(os.Stdout).Logger("WLLT")
		l.SetLevel(btclog.LevelDebug)
		wallet.UseLogger(l)
	}
	var x *world
	rs := &runState{errs: map[string]int{}}
	rep := simrt.Run(cfg, func() {
		var err error
		x, err = newWorld(env, p)
		if err != nil {
			env.Fail(p.Prop, "setup-failed", "cannot set up the wallet: %v", err)
			return
		}
		rs.x = x
		defer func() {
			if x.running {
				x.stop()
			} else if x.db != nil {
				_ = x.db.Close()
			}
		}()
		if x.w != nil {
			// initial synchronisation and unlock
			if !x.syncPoint("initial") {
				return
			}
			if err := x.w.Unlock(x.privPass, nil); err != nil {
				x.fail("setup-failed", "unlock: %v", err)
				return
			}
		}
		rs.run()
	})
	env.Add("sched.steps", int64(rep.Steps))
	env.Add("sched.preemptions", int64(rep.Preemptions))
	env.Add("sched.tasks", int64(rep.Tasks))
	env.Add("probe.parked-between-commit-and-callback", int64(rep.TargetHits))
	for _, k := range core.SortedKeys(rep.SiteHits) {
		env.Add("site."+k, int64(rep.SiteHits[k]))
	}
	if rep.Steps > 50 && (rep.SiteHits["lock:bbolt"] == 0 || rep.SiteHits["lock:wallet"]+rep.SiteHits["rlock:waddrmgr"] == 0) {
		env.Infra("the binary was built without the instrumentation overlay / instrumented bbolt (no scheduler decisions at bbolt or wallet locks in %d steps)", rep.Steps)
	}
	env.State("sched:%x", rep.SchedHash)
	env.Logf("steps=%d sched=%x", rep.Steps, rep.SchedHash)
	if env.Verbose {
		for _, d := range rep.Decisions {
			env.Logf("sched %s", d)
		}
	}
	if x != nil && !x.violated {
		if rep.Stuck {
			x.fail("stuck", "no runnable task for the liveness bound with the workload unfinished: %s", rep.StuckInfo)
		} else if rep.StepLimit {
			x.fail("step-limit", "workload did not finish within %d scheduling steps", rep.Steps)
		}
	}
}

func (rs *runState) run() {
	x := rs.x
	ops := x.p.Ops
	for i := 0; i < len(ops) && !x.violated; i++ {
		x.env.Step(i)
		op := ops[i]
		if op.T > 0 {
			// a maximal run of user-task operations forms a parallel section
			j := i
			for j < len(ops) && ops[j].T > 0 {
				j++
			}
			rs.parallel(i, ops[i:j])
			i = j - 1
			continue
		}
		rs.exec(0, i, op)
		if rs.faultArmed && op.K != "faultnext" {
			rs.afterFault(i, op.K)
		}
		if x.prop == "C01" {
			x.checkC01w(fmt.Sprintf("after op %d %s", i, op.K))
		}
		if x.prop == "C13" {
			x.checkC13w(fmt.Sprintf("after op %d %s", i, op.K))
		}
	}
	if !x.violated {
		rs.final()
	}
}

// parallel runs the operations of each task in its own scheduler task.
func (rs *runState) parallel(base int, ops []core.Op) {
	x := rs.x
	if !x.running {
		return
	}
	byTask := map[int][]int{}
	for k, op := range ops {
		t := op.T
		if t > 4 {
			t = 1 + t%4
		}
		byTask[t] = append(byTask[t], k)
	}
	var ts []int
	for t := range byTask {
		ts = append(ts, t)
	}
	sort.Ints(ts)
	if len(ts) > 1 {
		x.env.Count("probe.parallel-sections")
	}
	pre := rs.snapshotCounts()
	first := len(rs.issues)
	failedBefore := rs.errs["send"] + rs.errs["NewAddress"] + rs.errs["NewChangeAddress"] + rs.errs["CurrentAddress"]
	done := 0
	rs.section++
	for _, t := range ts {
		t := t
		simrt.GoNamed(fmt.Sprintf("u%d.%d", t, rs.section), func() {
			defer func() { done++ }()
			for _, k := range byTask[t] {
				if x.violated {
					return
				}
				rs.exec(t, base+k, ops[k])
			}
		})
	}
	ok := x.quiesce(func() bool { return done == len(ts) }, 2*time.Hour)
	if !ok && !x.violated {
		x.fail("stuck:parallel-section", "user tasks did not finish: %v", simrt.Alive())
		return
	}
	if x.prop == "C09" && !x.violated {
		failed := rs.errs["send"] + rs.errs["NewAddress"] + rs.errs["NewChangeAddress"] + rs.errs["CurrentAddress"] - failedBefore
		rs.checkC09(pre, rs.issues[first:], failed)
	}
}

func (rs *runState) exec(task, step int, op core.Op) {
	x := rs.x
	env := x.env
	switch op.K {
	case "newaddr":
		if !x.running {
			return
		}
		scope := scopes[int(uint64(op.Arg(0))%uint64(len(scopes)))]
		account := uint32(0)
		if op.Arg(1) == 1 && x.haveAcct1 {
			account, scope = 1, x.acct1Scope
		}
		kind := int(uint64(op.Arg(2)) % 3)
		var addr btcutil.Address
		var err error
		call := simrt.Step()
		name := [...]string{"NewAddress", "NewChangeAddress", "CurrentAddress"}[kind]
		switch kind {
		case 0:
			addr, err = x.w.NewAddress(account, scope)
		case 1:
			addr, err = x.w.NewChangeAddress(account, scope)
		case 2:
			addr, err = x.w.CurrentAddress(account, scope)
		}
		ret := simrt.Step()
		env.Count("op." + name)
		env.Eff()
		if err != nil {
			rs.errs[name]++
			env.Logf("%d t%d %s scope=%d err=%v", step, task, name, scope.Purpose, err)
			if injected(err) {
				return
			}
			x.fail("issuing-call-failed:"+name, "%s(account 0, scope %v) failed without any injected fault: %v", name, scope, err)
			return
		}
		is, ok := x.record(addr, scope, account, name)
		if !ok && x.prop == "C16" {
			// recoveries reach indices beyond the range the harness resolves
			// addresses in; which child an address is belongs to C03
			return
		}
		if !ok {
			info := ""
			if ma, e := x.w.AddressInfo(addr); e == nil {
				if pk, isPk := ma.(waddrmgr.ManagedPubKeyAddress); isPk {
					sc, dp, _ := pk.DerivationInfo()
					info = fmt.Sprintf(" (the wallet says: scope %v path %+v)", sc, dp)
				}
			}
			x.fail("address-not-seed-child:"+name, "%s returned %s which is not child <400 of the seed on scope %v account %d%s", name, addr, scope, account, info)
			return
		}
		rs.issues = append(rs.issues, issueRec{task: task, kind: name, scope: scope, branch: is.branch, index: is.index,
			addr: addr.String(), call: call, ret: ret, current: kind == 2})
		env.Logf("%d t%d %s scope=%d -> %d/%d", step, task, name, scope.Purpose, is.branch, is.index)
	case "fund":
		if len(x.issuedAddrs) == 0 {
			return
		}
		a := x.issuedAddrs[int(uint64(op.Arg(0))%uint64(len(x.issuedAddrs)))]
		v := op.Arg(1)
		if v < 1000 {
			v = 1000
		}
		outs := []*wire.TxOut{payTo(a.addr, v), {Value: 777, PkScript: foreignScript(x.foreignN)}}
		if (x.prop == "C13" || x.prop == "C01") && (v/1e6)%4 == 0 {
			// the same address paid twice by one transaction
			outs = append(outs, payTo(a.addr, v/4+1000))
			env.Count("probe.same-address-paid-twice-by-one-transaction")
		}
		tx := x.foreignTx(outs)
		if err := x.node.Accept(tx); err == nil {
			x.funding = append(x.funding, tx)
			env.Count("op.fund")
			env.Eff()
			env.Logf("%d fund %s %d", step, a.addr, v)
		}
	case "mine":
		n := int(op.Arg(0))
		if n < 1 {
			n = 1
		}
		if n > 150 {
			n = 150
		}
		r := core.NewRand(uint64(op.Arg(4)) + 17)
		for i := 0; i < n; i++ {
			o := simchain.MineOpts{Txs: x.pickMempool(r, int(op.Arg(1))), CoinbaseValue: 50e8, Dt: time.Duration(op.Arg(3)) * time.Second}
			if op.Arg(2) >= 0 && len(x.issuedAddrs) > 0 {
				a := x.issuedAddrs[int(uint64(op.Arg(2))%uint64(len(x.issuedAddrs)))]
				o.CoinbaseScript = payTo(a.addr, 0).PkScript
			}
			b := x.node.Mine(o)
			if x.prop == "C16" {
				x.afterMine(b)
			}
			env.Logf("%d mine h=%d txs=%d", step, b.Height, len(b.Msg.Transactions))
		}
		env.Count("op.mine")
		env.Eff()
		if !x.running && x.w != nil {
			env.Count("probe.node-moved-while-stopped")
		}
	case "reorg":
		duringRescan := false
		if x.rescanRunning() {
			if x.p.C("reorg_during_rescan", 0) == 0 || x.prop != "C15" {
				return // see rescanRunning
			}
			// The client's block-notification path is up to date, and the
			// reorg reaches it at once: BlockDisconnected tip-down, then
			// the new branch — a valid evolution of the best chain.
			x.client.Deliver(0)
			env.Count("probe.reorg-during-start-up-rescan")
			duringRescan = true
			defer func() { x.client.Deliver(0) }()
		}
		depth, newLen := int(op.Arg(0)), int(op.Arg(1))
		if depth < 1 {
			depth = 1
		}
		maxd := len(x.node.Best) - 1
		if depth > maxd {
			depth = maxd
		}
		if depth < 1 {
			return
		}
		if newLen < depth {
			newLen = depth
		}
		if newLen > depth+3 {
			newLen = depth + 3
		}
		r := core.NewRand(uint64(op.Arg(3)) + 29)
		// does the disconnected part hold wallet transactions?
		walletTx := false
		for i := 0; i < depth; i++ {
			b := x.node.Best[len(x.node.Best)-1-i]
			if len(b.Msg.Transactions) > 1 {
				walletTx = true
			}
		}
		var blocks []simchain.MineOpts
		for i := 0; i < newLen; i++ {
			blocks = append(blocks, simchain.MineOpts{CoinbaseValue: 50e8, Dt: time.Duration(r.Range(1, 900)) * time.Second})
		}
		// Txs are chosen per block at connect time from the mempool as it is then
		disc, conn := x.reorgWithFill(depth, blocks, r, int(op.Arg(2)))
		if duringRescan {
			if x.discDuringRescan == nil {
				x.discDuringRescan = map[chainhash.Hash]bool{}
			}
			for _, b := range disc {
				x.discDuringRescan[b.Hash] = true
			}
		}
		if x.running {
			// remember which transactions a reorg un-confirmed while the
			// wallet was up, having been confirmed when it was last started
			for _, b := range disc {
				for _, t := range b.Msg.Transactions {
					if h := t.TxHash(); x.confirmedAtStart[h] {
						x.unconfirmedByReorgAfterStart[h] = true
					}
				}
			}
		}
		env.Count("op.reorg")
		env.Eff()
		if depth > 1 {
			env.Count("probe.reorg-depth>1")
		}
		if walletTx {
			env.Count("probe.reorg-with-wallet-tx")
		}
		if newLen == depth {
			env.Count("probe.reorg-equal-height")
		}
		if !x.running && x.w != nil {
			env.Count("probe.node-moved-while-stopped")
		}
		env.Logf("%d reorg depth=%d disc=%d conn=%d tip=%d", step, depth, len(disc), len(conn), x.node.Tip().Height)
	case "invalidate":
		// the backend's best chain becomes shorter (invalidateblock): blocks
		// are disconnected without a replacement branch
		if x.rescanRunning() {
			return
		}
		d := int(op.Arg(0))
		if d < 1 {
			d = 1
		}
		if d > 6 {
			d = 6
		}
		disc := x.node.Invalidate(d)
		if len(disc) == 0 {
			return
		}
		env.Count("op.invalidate")
		env.Count("probe.chain-shortened")
		env.Eff()
		if !x.running && x.w != nil {
			env.Count("probe.node-moved-while-stopped")
		}
		env.Logf("%d invalidate %d tip=%d", step, len(disc), x.node.Tip().Height)
	case "switchback":
		// the best chain returns to blocks it had before (same hashes)
		if x.rescanRunning() {
			return
		}
		d, c := x.node.SwitchBack(int(op.Arg(0)))
		if c == 0 {
			return
		}
		// a bitcoind-style client ignores a branch lower than its best block:
		// make the restored branch at least as high as what it replaced
		r := core.NewRand(uint64(op.Arg(1)) + 41)
		for c < d && op.Arg(2) == 0 {
			x.node.Mine(simchain.MineOpts{Txs: x.pickMempool(r, 100), CoinbaseValue: 50e8, Dt: 10 * time.Minute})
			c++
		}
		env.Count("op.switchback")
		env.Count("probe.reorg-back-to-known-blocks")
		env.Eff()
		if !x.running && x.w != nil {
			env.Count("probe.node-moved-while-stopped")
		}
		env.Logf("%d switchback disc=%d conn=%d tip=%d", step, d, c, x.node.Tip().Height)
	case "rescanstep":
		if !x.running {
			return
		}
		if k := x.client.StepRescan(int(op.Arg(0))); k > 0 {
			env.Count("op.rescanstep")
			env.Eff()
			env.Logf("%d rescanstep %d", step, k)
		}
	case "deliver":
		if !x.running {
			return
		}
		n := int(op.Arg(0))
		k := x.client.Deliver(n)
		if k > 0 {
			env.Eff()
		}
		env.Count("op.deliver")
		env.Logf("%d deliver %d", step, k)
	case "sync":
		if !x.running {
			return
		}
		env.Count("op.sync")
		env.Eff()
		x.syncPoint(fmt.Sprintf("op%d", step))
	case "stale":
		if !x.running {
			return
		}
		// a disconnect notification for a block the wallet does not have at
		// that height: either beyond its tip or with a hash it never saw
		kind := int(uint64(op.Arg(0)) % 4)
		if kind == 3 {
			// the same genuine disconnect delivered twice
			if x.client.RepeatDisconnect(int(op.Arg(1))) {
				env.Count("probe.repeated-disconnect")
				env.Count("fault.repeated-disconnect")
				env.Eff()
			}
			return
		}
		tip := x.node.Tip()
		var b *simchain.Block
		switch kind {
		case 0: // future block
			fake := *tip
			fake.Height = tip.Height + 1 + int32(op.Arg(1)%3)
			fake.Hash = chainhash.HashH([]byte(fmt.Sprintf("stale-%d-%d", step, fake.Height)))
			b = &fake
		case 1: // unknown hash at a known height
			h := tip.Height - int32(uint64(op.Arg(1))%uint64(tip.Height+1))
			fake := *x.node.Best[h]
			fake.Hash = chainhash.HashH([]byte(fmt.Sprintf("stale-%d-%d", step, h)))
			b = &fake
		case 2: // repeated: unknown hash at the tip height
			fake := *tip
			fake.Hash = chainhash.HashH([]byte(fmt.Sprintf("stale-tip-%d", step)))
			b = &fake
		}
		x.client.StaleDisconnect(b)
		env.Count("probe.stale-disconnect")
		env.Count("fault.stale-disconnect")
		env.Eff()
		env.Logf("%d stale kind=%d h=%d", step, kind, b.Height)
	case "redeliver":
		if !x.running {
			return
		}
		if x.client.Redeliver(int(op.Arg(0))) {
			env.Count("fault.redelivered-relevant-tx")
			env.Eff()
		}
	case "failnext":
		// Backend call failures are injected into the start-up synchronisation
		// only (which the wallet retries): a failing call while a connect /
		// disconnect notification is being processed makes the wallet drop
		// that notification, which no property statement covers. The op is
		// therefore effective only while the wallet is stopped and is applied
		// to the client of the next start.
		if x.running {
			return
		}
		m := failMethods[int(uint64(op.Arg(0))%uint64(len(failMethods)))]
		n := int(op.Arg(1))
		if n < 1 {
			n = 1
		}
		if n > 3 {
			n = 3
		}
		if x.pendingFail == nil {
			x.pendingFail = map[string]int{}
		}
		x.pendingFail[m] += n
		env.Count("op.failnext")
		env.Logf("%d failnext %s %d", step, m, n)
	case "stop":
		if x.running {
			x.harvestFaults()
			if sn, err := x.snap(); err == nil {
				x.unminedAtStart = sn.unmined
				x.unminedChildAtStart = map[chainhash.Hash]bool{}
				for h := range sn.unmined {
					if len(x.unminedDescendants(h)) > 0 {
						x.unminedChildAtStart[h] = true
					}
				}
			}
			x.stop()
			env.Count("op.stop")
			env.Eff()
			env.Logf("%d stop", step)
		}
	case "start":
		if !x.running {
			if sel := op.Arg(1); sel > 0 && x.prop == "C20" {
				x.beforeAttach = func() { rs.publishDetached(step, sel-1) }
			}
			// is the wallet's remembered tip still on the node's chain?
			if err := x.reopen(); err != nil {
				x.fail("restart-failed", "cannot reopen the wallet: %v", err)
				return
			}
			x.lockedOps = map[wire.OutPoint]bool{} // LockOutpoint is in-memory state of the wallet
			x.confirmedAtStart = map[chainhash.Hash]bool{}
			for _, t := range x.sent {
				if h := t.TxHash(); x.node.Confirmed(h) >= 0 {
					x.confirmedAtStart[h] = true
				}
			}
			st := x.w.Manager.SyncedTo()
			if b := x.node.BlockByHash(&st.Hash); b == nil || !x.node.OnBest(b) {
				env.Count("probe.restart-tip-not-on-chain")
			}
			env.Count("op.start")
			env.Eff()
			env.Logf("%d start synced=%d", step, st.Height)
			if op.Arg(0) == 1 && x.client.AsyncRescan {
				// lazy start: the wallet gets as far as asking for the rescan;
				// the following operations (blocks, reorgs, rescan steps,
				// deliveries) happen WHILE the initial rescan is running
				x.quiesce(nil, 0)
				if x.client.RescanActive() {
					env.Count("probe.ops-during-initial-rescan")
				}
				return
			}
			if !x.syncPoint(fmt.Sprintf("restart%d", step)) {
				return
			}
			if x.prop == "C20" {
				x.resendSyncedHeight = x.node.Tip().Height
				for _, sr := range x.client.Sends {
					if sr.Answer == "reject" || sr.Answer == "transport" {
						env.Count("probe.resend-rejected")
					}
				}
				x.checkResend(fmt.Sprintf("restart%d", step))
				x.client.SendAnswers = nil
				if x.violated {
					return
				}
			}
			if err := x.w.Unlock(x.privPass, nil); err != nil {
				x.fail("restart-failed", "unlock after restart: %v", err)
			}
		}
	case "send", "dryrun":
		if !x.running {
			return
		}
		rs.send(task, step, op)
	case "pay":
		rs.pay(step, op)
	case "spendcoin":
		rs.spendcoin(step, op)
	case "createwallet":
		rs.createwallet(step, op)
	case "send6":
		if x.running {
			rs.send6(task, step, op)
		}
	case "lockop":
		if x.running {
			rs.lockop(step, op)
		}
	case "initaccts":
		if x.running {
			rs.initaccts(step, op)
		}
	case "reopencheck":
		rs.reopencheck(step, op)
	case "importdry":
		if x.running {
			rs.importdry(step, op)
		}
	case "lease12":
		if x.running {
			rs.lease12(step, op)
		}
	case "leaserace":
		if x.running {
			rs.leaserace(step, op)
		}
	case "resync":
		rs.resync(step, op)
	case "bdayblock":
		rs.bdayblock(step, op)
	case "importkeyb":
		rs.importkeyb(step, op)
	case "importkey":
		if x.running {
			rs.importkey(step, op)
		}
	case "fundkey":
		if len(x.importedKeys) == 0 {
			return
		}
		a := x.importedKeys[int(uint64(op.Arg(0))%uint64(len(x.importedKeys)))]
		v := op.Arg(1)
		if v < 1000 {
			v = 1000
		}
		tx := x.foreignTx([]*wire.TxOut{payTo(a, v), {Value: 555, PkScript: foreignScript(x.foreignN)}})
		if err := x.node.Accept(tx); err == nil {
			x.funding = append(x.funding, tx)
			env.Count("op.fundkey")
			env.Count("probe.payment-to-an-imported-single-key")
			env.Eff()
			env.Logf("%d fundkey %s %d", step, a, v)
		}
	case "release12":
		if x.running {
			rs.release12(step, op)
		}
	case "buildwhole":
		if x.running {
			rs.buildwhole(step, op)
		}
	case "replacefund":
		rs.replacefund(step, op)
	case "submitbuilt":
		rs.submitbuilt(step)
	case "spendoutside":
		if x.running && rs.buildwhole(step, op) != nil {
			rs.submitbuilt(step)
		}
	case "faultnext":
		rs.faultnext(step, op)
	case "importdry2":
		if x.running {
			rs.importdry2(step, op)
		}
	case "importacct":
		if x.running {
			rs.importacct(step, op)
		}
	case "newaddri":
		if x.running {
			rs.newaddri(step, op)
		}
	case "renamei":
		if x.running {
			rs.renamei(step, op)
		}
	case "privcheck":
		if x.running {
			rs.privcheck(step, op)
		}
	case "wlock":
		if x.running {
			rs.wlock(step)
		}
	case "wunlock":
		if x.running {
			rs.wunlock(step)
		}
	case "wchpass":
		if x.running {
			rs.wchpass(step, op)
		}
	case "observe":
		rs.observe(step, op)
	case "rename":
		if x.running {
			scope := scopes[int(uint64(op.Arg(0))%uint64(len(scopes)))]
			rs.renames++
			err := x.w.RenameAccount(scope, 0, fmt.Sprintf("name-%d", rs.renames))
			env.Count("op.RenameAccount")
			env.Eff()
			env.Logf("%d t%d RenameAccount scope=%d err=%v", step, task, scope.Purpose, err)
			if err != nil {
				x.fail("rename-failed", "RenameAccount(scope %v, account 0) failed without any injected fault: %v", scope, err)
			}
		}
	case "newacct":
		if x.running && !x.haveAcct1 {
			sc := scopes[int(uint64(op.Arg(0))%uint64(len(scopes)))]
			if n, err := x.w.NextAccount(sc, "second"); err == nil && n == 1 {
				x.haveAcct1, x.acct1Scope = true, sc
				env.Count("op.NextAccount")
				env.Eff()
			}
		}
	case "failnth":
		if !x.running {
			m := []string{"FilterBlocks", "GetBlockHash", "GetBlockHeader"}[int(uint64(op.Arg(0))%3)]
			n := int(op.Arg(1))
			if n < 1 {
				n = 1
			}
			if n > 6 {
				n = 6
			}
			x.pendingFailNth = map[string]int{m: n}
			env.Count("fault.backend-call-during-resumed-recovery." + m)
		}
	case "crashsync":
		rs.crashsync(task, step, op)
	case "sendcrash":
		if x.running {
			rs.sendcrash(task, step, op)
		}
	case "fundchild":
		rs.fundchild(step, op)
	case "sendself":
		if x.running {
			rs.sendself(step, op)
		}
	case "sendx":
		if x.running {
			rs.sendx(step, op)
		}
	case "build":
		if x.running {
			rs.build(step, op)
		}
	case "publish":
		if x.running {
			rs.publish(step, op)
		}
	case "lease":
		if x.running {
			rs.lease(step, op)
		}
	case "resend-answers":
		if !x.running {
			x.pendingResend = nil
			for _, a := range op.A {
				x.pendingResend = append(x.pendingResend, answerClasses[int(uint64(a)%7)])
			}
		}
	case "fundpsbt":
		if x.running {
			rs.fundpsbt(task, step, op)
		}
	case "join":
		// separator between parallel sections
	case "clock":
		d := op.Arg(0)
		if d < 1 {
			d = 1
		}
		if d > 86400 {
			d = 86400
		}
		if d > 7200 {
			d = 7200
		}
		time.Sleep(time.Duration(d) * time.Second)
		simrt.Yield("harness:after-sleep")
		env.Eff()
	}
}

// reorgWithFill performs the reorg, filling each new block with a PRNG
// subset of the mempool as it is when that block is built.
func (x *world) reorgWithFill(depth int, blocks []simchain.MineOpts, r *core.Rand, keepPct int) ([]*simchain.Block, []*simchain.Block) {
	disc, _ := x.node.Reorg(depth, nil)
	var conn []*simchain.Block
	for _, o := range blocks {
		o.Txs = x.pickMempool(r, keepPct)
		conn = append(conn, x.node.Mine(o))
	}
	return disc, conn
}

func (x *world) harvestFaults() {
	if x.client == nil {
		return
	}
	for _, k := range core.SortedKeys(x.client.Fired) {
		x.env.Add("fault.backend."+k, int64(x.client.Fired[k]))
		x.client.Fired[k] = 0
	}
}

// send issues SendOutputs / CreateSimpleTx(dryRun).
func (rs *runState) send(task, step int, op core.Op) {
	x := rs.x
	env := x.env
	amount := op.Arg(0)
	if amount < 1000 {
		amount = 1000
	}
	minconf := int32(op.Arg(1))
	if minconf < 0 {
		minconf = 0
	}
	fee := btcutil.Amount(op.Arg(2))
	if fee < 1000 {
		fee = 1000
	}
	var scope *waddrmgr.KeyScope
	if op.Arg(3) >= 0 {
		s := scopes[int(uint64(op.Arg(3))%uint64(len(scopes)))]
		scope = &s
	}
	x.foreignN++
	outs := []*wire.TxOut{{Value: amount, PkScript: foreignScript(x.foreignN)}}
	var strat wallet.CoinSelectionStrategy = wallet.CoinSelectionLargest
	call := simrt.Step()
	var tx *wire.MsgTx
	var err error
	dry := op.K == "dryrun"
	if dry {
		var a interface{}
		_ = a
		at, e := x.w.CreateSimpleTx(scope, 0, outs, minconf, fee, strat, true)
		err = e
		if at != nil {
			tx = at.Tx
		}
		env.Count("op.CreateSimpleTx.dryrun")
	} else {
		tx, err = x.w.SendOutputs(outs, scope, 0, minconf, fee, strat, "")
		env.Count("op.SendOutputs")
	}
	ret := simrt.Step()
	env.Eff()
	if err != nil {
		rs.errs[op.K]++
		env.Logf("%d t%d %s err=%v", step, task, op.K, err)
		return
	}
	if !dry {
		x.sent = append(x.sent, tx)
	}
	// the change output, if any, is an issued internal address
	for _, o := range tx.TxOut {
		if scriptEq(o.PkScript, outs[0].PkScript) && o.Value == amount {
			continue
		}
		addr := addrOfScript(o.PkScript, x)
		if addr == nil {
			continue
		}
		cs := waddrmgr.KeyScopeBIP0086 // default change scope of the wallet
		if scope != nil {
			cs = *scope
		}
		br, idx, ok := x.resolve(cs, 0, addr, 400)
		if !ok {
			// change may be in another scope: search all
			for _, s := range scopes {
				if br, idx, ok = x.resolve(s, 0, addr, 400); ok {
					cs = s
					break
				}
			}
		}
		if !ok {
			x.fail("change-not-seed-child", "change output %s of a wallet transaction is not a child of the seed", addr)
			return
		}
		if !dry {
			rs.issues = append(rs.issues, issueRec{task: task, kind: "send-change", scope: cs, branch: br, index: idx, addr: addr.String(), call: call, ret: ret})
			x.record(addr, cs, 0, "send-change")
		} else {
			env.Count("probe.dryrun-derived-change")
		}
	}
	env.Logf("%d t%d %s ok tx=%s", step, task, op.K, tx.TxHash().String()[:8])
}

func addrOfScript(pk []byte, x *world) btcutil.Address {
	_, addrs, _, err := extractAddrs(pk, x)
	if err != nil || len(addrs) != 1 {
		return nil
	}
	return addrs[0]
}

// snapshotCounts reads the key counts of account 0 of every scope.
func (rs *runState) snapshotCounts() map[waddrmgr.KeyScope]acctCounts {
	out := map[waddrmgr.KeyScope]acctCounts{}
	for _, s := range scopes {
		c, err := rs.x.keyCounts(s, 0)
		if err == nil {
			out[s] = c
		}
	}
	return out
}

func (rs *runState) final() {
	x := rs.x
	if x.running {
		x.harvestFaults()
	}
	if (x.prop == "C15" || x.prop == "C02") && x.running {
		x.syncPoint("final")
	}
}

var _ = walletdb.View

// fundpsbt: FundPsbt with an explicitly selected wallet input; the change
// output it adds is a freshly issued (and committed) internal address.
func (rs *runState) fundpsbt(task, step int, op core.Op) {
	x := rs.x
	env := x.env
	coins := x.coins()
	var keys []wire.OutPoint
	for k, c := range coins {
		if c.height >= 0 && !c.coinbase && c.owner.account == 0 {
			keys = append(keys, k)
		}
	}
	if len(keys) == 0 {
		return
	}
	sort.Slice(keys, func(i, j int) bool {
		if keys[i].Hash != keys[j].Hash {
			return keys[i].Hash.String() < keys[j].Hash.String()
		}
		return keys[i].Index < keys[j].Index
	})
	c := coins[keys[int(uint64(op.Arg(0))%uint64(len(keys)))]]
	amount := op.Arg(1)
	if amount < 1000 {
		amount = 1000
	}
	if amount > c.value/2 {
		amount = c.value / 2
	}
	x.foreignN++
	dest := foreignScript(x.foreignN)
	pkt, err := psbt.New([]*wire.OutPoint{&c.op}, []*wire.TxOut{{Value: amount, PkScript: dest}}, 2, 0, []uint32{0xffffffff})
	if err != nil {
		return
	}
	call := simrt.Step()
	ci, err := x.w.FundPsbt(pkt, nil, 1, 0, 2000, wallet.CoinSelectionLargest)
	ret := simrt.Step()
	env.Count("op.FundPsbt")
	env.Eff()
	if err != nil {
		rs.errs["send"]++
		env.Logf("%d t%d FundPsbt err=%v", step, task, err)
		return
	}
	if ci < 0 || int(ci) >= len(pkt.UnsignedTx.TxOut) {
		env.Logf("%d t%d FundPsbt ok, no change", step, task)
		return
	}
	addr := addrOfScript(pkt.UnsignedTx.TxOut[ci].PkScript, x)
	if addr == nil {
		return
	}
	for _, s := range scopes {
		if br, idx, ok := x.resolve(s, 0, addr, 400); ok {
			rs.issues = append(rs.issues, issueRec{task: task, kind: "psbt-change", scope: s, branch: br, index: idx, addr: addr.String(), call: call, ret: ret})
			x.record(addr, s, 0, "psbt-change")
			env.Count("probe.psbt-change-issued")
			env.Logf("%d t%d FundPsbt ok change=%d/%d/%d", step, task, s.Purpose, br, idx)
			return
		}
	}
	x.fail("change-not-seed-child", "FundPsbt added change output %s which is not a child of the seed", addr)
}

// rescanRunning: while an asynchronous start-up rescan is running the chain
// only grows. A reorg during the rescan makes a bitcoind-style client replay a
// stale block as "connected" after the rescan has already reported its
// replacement (its block-notification path lags the rescan) — a notification
// sequence that does not describe a valid evolution of the best chain, which
// is what C15 quantifies over. The wallet is not robust against it (it files
// the stale block's transactions under the height's current block record and
// later fails with "missing transaction for block"); observed, outside the
// statement, not reported.
func (x *world) rescanRunning() bool {
	if !x.running || x.client == nil {
		return false
	}
	if x.client.RescanActive() {
		return true
	}
	// From the wallet's side the start-up synchronisation lasts until it has
	// processed RescanFinished: until then it ignores disconnects (also those
	// queued while it waited to retry a failed attempt) and is still catching
	// up block hashes.
	return x.w != nil && !x.w.ChainSynced()
}

// crashsync: everything the node has announced is delivered and processed,
// but the machine loses power at the k-th database commit from now: the
// wallet is then restarted on the database as it was at that commit (bbolt
// commits are atomic and durable; nothing later survives). The running wallet
// is shut down in the ordinary way first only because goroutines cannot be
// killed inside the simulation; its later commits are discarded with the file.
func (rs *runState) crashsync(task, step int, op core.Op) {
	x := rs.x
	if !x.running || x.rescanRunning() {
		return
	}
	k := int(op.Arg(0))
	if k < 1 {
		k = 1
	}
	var img []byte
	n := 0
	x.db.AfterCommit = func(d *faultdb.DB) {
		n++
		if n == k && img == nil {
			if b, err := d.Image(); err == nil {
				img = b
			}
		}
	}
	x.client.Deliver(0)
	x.quiesce(func() bool {
		if x.client.RescanActive() {
			x.client.StepRescan(0)
			return false
		}
		if x.client.Pending() > 0 {
			x.client.Deliver(0)
			return false
		}
		return true
	}, 30*time.Second)
	x.db.AfterCommit = nil
	if img == nil {
		x.env.Count("probe.crash-point-not-reached")
		return
	}
	x.stop()
	x.hadCrash = true
	if err := os.WriteFile(x.dbPath, img, 0o600); err != nil {
		x.env.Infra("write crash image: %v", err)
		return
	}
	x.env.Count("fault.crash-at-commit")
	if n > k {
		x.env.Count("probe.crash-lost-later-commits")
	}
	x.env.Logf("%d crashsync: restarted on the database as of commit %d of %d", step, k, n)
	rs.exec(task, step, core.Op{K: "start"})
}
