package walletsim

import (
	"fmt"
	"sort"
	"strings"
	"time"

	"github.com/anishathalye/porcupine"
	"github.com/btcsuite/btcd/btcutil"
	"github.com/btcsuite/btcd/chaincfg/chainhash"
	"github.com/btcsuite/btcd/txscript"
	"github.com/btcsuite/btcwallet/waddrmgr"
	"github.com/btcsuite/btcwallet/walletdb"
	"github.com/btcsuite/btcwallet/wtxmgr"
)

func extractAddrs(pk []byte, x *world) (txscript.ScriptClass, []btcutil.Address, int, error) {
	return txscript.ExtractPkScriptAddrs(pk, x.params)
}

// syncPoint delivers every pending node event, waits for quiescence and — if
// the property under check is C15 — evaluates its oracles. It returns false if
// the run should stop.
//
// Bounded liveness: once faults stop, a synchronised point must be reached
// within 120 simulated seconds (24 sync-retry intervals).
func (x *world) syncPoint(label string) bool {
	if !x.running || x.violated {
		return !x.violated
	}
	synced := func() bool {
		if x.client.RescanActive() {
			x.client.StepRescan(0)
			return false
		}
		if x.client.Pending() > 0 {
			x.client.Deliver(0)
			return false
		}
		st := x.w.Manager.SyncedTo()
		return x.w.ChainSynced() && st.Hash == x.node.Tip().Hash
	}
	x.client.Deliver(0)
	ok := x.quiesce(synced, 120*time.Second)
	// whatever backend failures were armed and not consumed must not hit
	// notification processing later (outside the statement of C15)
	for _, k := range failMethods {
		if x.client.FailNext[k] > 0 {
			x.client.FailNext[k] = 0
		}
	}
	x.harvestFaults()
	if !ok {
		st := x.w.Manager.SyncedTo()
		tip := x.node.Tip()
		if x.prop == "C15" {
			sig := "tip-not-followed"
			if st.Height == tip.Height {
				sig = "tip-hash-stale"
			}
			x.fail(sig+":at="+labelClass(label), "after all notifications were delivered and 120 simulated seconds passed, wallet synced-to is %d %s (chain synced=%v) but the backend tip is %d %s",
				st.Height, short(st.Hash), x.w.ChainSynced(), tip.Height, short(tip.Hash))
			return false
		}
		if x.prop == "C16" {
			// a restore that never completes discovers nothing: bounded
			// liveness once the injected backend failures have stopped
			x.fail("recovery-not-completed:at="+labelClass(label), "120 simulated seconds after all notifications were delivered the restored wallet is at %d %s (chain synced=%v), the backend tip is %d %s",
				st.Height, short(st.Hash), x.w.ChainSynced(), tip.Height, short(tip.Hash))
			return false
		}
		// not this property's business: abandon the run quietly
		x.env.Count("abort.sync-not-reached")
		x.violated = true
		return false
	}
	x.env.Count("probe.sync-points")
	if x.prop == "C15" {
		x.checkC15(label)
	}
	if x.prop == "C12" {
		x.checkC12w(label)
	}
	if x.prop == "C02" {
		x.checkC02w(label)
	}
	if x.prop == "C16" {
		if x.c16Checked {
			x.env.Count("probe.checked-after-resumed-recovery")
		}
		x.c16Checked = true
		x.noteClient()
		if x.unlockAtOpen {
			x.env.Count("probe.recovery-unlocked")
		} else {
			x.env.Count("probe.recovery-locked")
		}
		if x.node.Tip().Height > 2000 {
			x.env.Count("probe.batch-boundary-crossed")
		}
		x.env.Count("probe.c16-checked")
		x.checkC16()
	}
	return !x.violated
}

func labelClass(l string) string {
	for i, c := range l {
		if c >= '0' && c <= '9' {
			return l[:i]
		}
	}
	return l
}

func short(h chainhash.Hash) string { return h.String()[:10] }

// checkC15: synced-to == backend tip; remembered hashes of the window are the
// best chain's; no transaction is reported confirmed in a block that is not on
// the best chain.
func (x *world) checkC15(label string) {
	at := labelClass(label)
	tip := x.node.Tip()
	st := x.w.Manager.SyncedTo()
	if st.Hash != tip.Hash || st.Height != tip.Height {
		x.fail("synced-to-differs:at="+at, "synced-to %d %s, backend tip %d %s", st.Height, short(st.Hash), tip.Height, short(tip.Hash))
		return
	}
	err := walletdb.View(x.w.Database(), func(tx walletdb.ReadTx) error {
		ans := tx.ReadBucket(waddrmgrNS)
		tns := tx.ReadBucket(wtxmgrNS)
		bb, _, err := x.w.Manager.BirthdayBlock(ans)
		lo := int32(0)
		if err == nil {
			lo = bb.Height
		}
		if tip.Height-40 > lo {
			lo = tip.Height - 40
		}
		for h := tip.Height; h > lo; h-- {
			got, err := x.w.Manager.BlockHash(ans, h)
			if err != nil {
				x.fail("window-hash-missing:at="+at, "no hash remembered for height %d (tip %d, birthday block %d): %v", h, tip.Height, bb.Height, err)
				return nil
			}
			if *got != x.node.Best[h].Hash {
				x.fail("window-hash-stale:at="+at, "remembered hash for height %d is %s, best chain has %s (tip %d)", h, short(*got), short(x.node.Best[h].Hash), tip.Height)
				return nil
			}
		}
		// every transaction reported as confirmed is in that block of the best chain
		err = x.w.TxStore.RangeTransactions(tns, 0, tip.Height+1000, func(ds []wtxmgr.TxDetails) (bool, error) {
			for _, d := range ds {
				h := d.Block.Height
				if h < 0 {
					continue
				}
				if int(h) >= len(x.node.Best) || x.node.Best[h].Hash != d.Block.Hash {
					if x.discDuringRescan[d.Block.Hash] {
						// see known_findings.json: disconnects are not
						// applied while the start-up rescan runs
						x.fail("tx-confirmed-in-stale-block:block-disconnected-during-start-up-rescan", "transaction %s is reported confirmed in block %d %s, which was disconnected while the start-up rescan was running and is not on the best chain", short(d.Hash), h, short(d.Block.Hash))
						return true, nil
					}
					x.fail("tx-confirmed-in-stale-block:at="+at, "transaction %s is reported confirmed in block %d %s which is not on the best chain", short(d.Hash), h, short(d.Block.Hash))
					return true, nil
				}
				if x.node.Confirmed(d.Hash) != h {
					x.fail("tx-confirmed-at-wrong-height:at="+at, "transaction %s is reported confirmed at %d, the node has it at %d", short(d.Hash), h, x.node.Confirmed(d.Hash))
					return true, nil
				}
			}
			return false, nil
		})
		return err
	})
	if err != nil && !x.violated {
		if len(x.discDuringRescan) > 0 && strings.Contains(err.Error(), "missing transaction") {
			x.fail("query-failed:missing-transaction-for-block:after-disconnect-during-start-up-rescan", "reading wallet state failed: %v", err)
		} else {
			x.fail("query-failed", "reading wallet state failed: %v", err)
		}
	}
	x.env.State("c15:%d:%s", tip.Height, short(tip.Hash))
}

// ---------------------------------------------------------------- C09

type branchKey struct {
	scope  waddrmgr.KeyScope
	branch uint32
}

func (rs *runState) checkC09(pre map[waddrmgr.KeyScope]acctCounts, sec []issueRec, failedCalls int) {
	x := rs.x
	// A call that fails after its database transaction committed (e.g. a send
	// whose broadcast is rejected) has consumed an index legitimately without
	// handing the address to anybody: each failed call of the section may
	// account for at most one unobtained index.
	allowance := failedCalls
	// (1) every successful issuing call obtained an address no other call obtained
	seen := map[string]issueRec{}
	for _, is := range rs.issues {
		if is.current {
			continue
		}
		if o, dup := seen[is.addr]; dup {
			x.fail("duplicate-address:"+pairKind(o.kind, is.kind), "%s (task %d) and %s (task %d) both obtained %s (scope %d branch %d index %d)",
				o.kind, o.task, is.kind, is.task, is.addr, is.scope.Purpose, is.branch, is.index)
			return
		}
		seen[is.addr] = is
	}
	// (2) gap-free ranges per branch, and (3) database agrees with memory
	post := rs.snapshotCounts()
	per := map[branchKey][]issueRec{}
	for _, is := range sec {
		k := branchKey{is.scope, is.branch}
		per[k] = append(per[k], is)
	}
	same := 0
	for _, s := range scopes {
		for br := uint32(0); br < 2; br++ {
			lo, hi := pre[s].ext, post[s].ext
			if br == 1 {
				lo, hi = pre[s].int, post[s].int
			}
			got := map[uint32]bool{}
			tasks := map[int]bool{}
			for _, is := range per[branchKey{s, br}] {
				if is.index >= lo {
					got[is.index] = true
				}
				tasks[is.task] = true
			}
			if len(tasks) > 1 {
				same++
			}
			for i := lo; i < hi; i++ {
				if !got[i] && allowance > 0 {
					allowance--
					x.env.Count("probe.index-consumed-by-failed-call")
					continue
				}
				if !got[i] {
					x.fail("index-gap", "scope %d branch %d: index %d was consumed (next index went %d -> %d) but no successful call obtained it", s.Purpose, br, i, lo, hi)
					return
				}
			}
			for i := range got {
				if i >= hi {
					x.fail("index-beyond-next", "scope %d branch %d: a call obtained index %d but the account's next index is %d", s.Purpose, br, i, hi)
					return
				}
			}
		}
		disk, err := x.diskKeyCounts(s, 0)
		if err != nil {
			x.fail("query-failed", "reading key counts from a reopened copy: %v", err)
			return
		}
		if disk != post[s] {
			x.fail("memory-differs-from-database", "scope %d: running manager reports key counts %+v, a manager freshly opened on the same database reports %+v", s.Purpose, post[s], disk)
			return
		}
	}
	if same > 0 {
		x.env.Count("probe.same-branch-concurrent")
	}
	// (4) linearizability against a fetch-and-increment counter per branch
	for _, k := range sortedBranchKeys(per) {
		recs := per[k]
		lo := pre[k.scope].ext
		if k.branch == 1 {
			lo = pre[k.scope].int
		}
		var ops []porcupine.Operation
		okHist := true
		for _, is := range recs {
			if is.current {
				okHist = false // CurrentAddress may or may not issue: keep the model exact
				break
			}
			ops = append(ops, porcupine.Operation{ClientId: is.task, Input: struct{}{}, Call: int64(is.call), Output: is.index, Return: int64(is.ret)})
		}
		// with failed calls in the section the counter model is not exact (a
		// failed call may have consumed an index): no linearizability verdict
		if !okHist || len(ops) == 0 || len(ops) > 24 || failedCalls > 0 {
			continue
		}
		sort.SliceStable(ops, func(i, j int) bool { return ops[i].Call < ops[j].Call })
		model := porcupine.Model{
			Init: func() interface{} { return lo },
			Step: func(state, input, output interface{}) (bool, interface{}) {
				s := state.(uint32)
				return output.(uint32) == s, s + 1
			},
		}
		x.env.Count("probe.porcupine-checked")
		if !porcupine.CheckOperations(model, ops) {
			x.fail("not-linearizable:fetch-and-increment", "issuing calls on scope %d branch %d are not linearizable w.r.t. a counter starting at %d: %v", k.scope.Purpose, k.branch, lo, describeIssues(recs))
			return
		}
	}
	x.env.State("c09:%v", post)
}

func pairKind(a, b string) string {
	if a > b {
		a, b = b, a
	}
	return a + "+" + b
}

func sortedBranchKeys(m map[branchKey][]issueRec) []branchKey {
	var ks []branchKey
	for k := range m {
		ks = append(ks, k)
	}
	sort.Slice(ks, func(i, j int) bool {
		if ks[i].scope.Purpose != ks[j].scope.Purpose {
			return ks[i].scope.Purpose < ks[j].scope.Purpose
		}
		return ks[i].branch < ks[j].branch
	})
	return ks
}

func describeIssues(r []issueRec) string {
	s := ""
	for _, i := range r {
		s += fmt.Sprintf("[t%d %s idx=%d %d-%d] ", i.task, i.kind, i.index, i.call, i.ret)
	}
	return s
}
