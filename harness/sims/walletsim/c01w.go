package walletsim

import (
	"encoding/hex"
	"fmt"
	"sort"

	"github.com/btcsuite/btcd/blockchain"
	"github.com/btcsuite/btcd/btcutil"
	"github.com/btcsuite/btcd/chaincfg/chainhash"
	"github.com/btcsuite/btcd/wire"
	"github.com/btcsuite/btcwallet/waddrmgr"
	"github.com/btcsuite/btcwallet/walletdb"
	"github.com/btcsuite/btcwallet/wtxmgr"

	"verifsim/core"
	"verifsim/simrt"
)

// C01 at wallet level. ledgersim decides the statement for wtxmgr.Store on
// histories it feeds to the store directly; here the whole wallet processes
// what the simulated backend notifies (funding, sends, blocks, reorgs,
// invalidated blocks, leases, restarts), and after every operation, once the
// wallet is idle, the wallet-level accessors the property names are compared
// with the statement evaluated over the wallet's OWN known transaction set:
//
//	known      every transaction RangeTransactions(0, -1) reports, with the
//	           block it is filed under (history listing is C13's subject)
//	credited   the outputs each record lists as credits (amount re-read from
//	           the transaction itself)
//	spent      an output some known transaction has as an input
//	leased     what ListLeasedOutputs reports (lease semantics are C12's)
//	confs      0 if unconfirmed, else synced height - block height + 1
//
// CalculateBalance(m) for a grid of m, ListUnspent(min, max, account) for a
// grid of ranges and accounts, CalculateAccountBalances and AccountBalances
// must equal the statement's sum / list. Checked only while the synced height
// is at least the highest block holding a known transaction (the statement's
// range of sync heights).

type knownOut struct {
	op       wire.OutPoint
	value    int64
	pkScript []byte
	height   int32
	coinbase bool
	credAmt  btcutil.Amount
}

func genC01w(r *core.Rand, p *core.Plan) {
	if r.Chance(1, 2) {
		genC06(r, p)
	} else {
		genC15(r, p)
		// some wallet-authored spends and leases in the notification mix
		n := len(p.Ops)
		for i := 0; i < r.Range(2, 6); i++ {
			at := r.Range(3, n)
			var op core.Op
			switch r.Intn(3) {
			case 0:
				op = core.Op{K: "lease", A: []int64{int64(r.Intn(10)), int64(r.Intn(2)), int64(r.Range(30, 4000))}}
			case 1:
				op = core.Op{K: "clock", A: []int64{int64(r.Range(10, 5000))}}
			default:
				op = core.Op{K: "sendself", A: []int64{int64(r.Range(1, 30)) * 1e5, int64(r.Intn(4))}}
			}
			if at > len(p.Ops) {
				at = len(p.Ops)
			}
			p.Ops = append(p.Ops[:at], append([]core.Op{op}, p.Ops[at:]...)...)
		}
	}
	// a single imported key that is paid later, in a third of the plans
	if r.Chance(1, 3) && len(p.Ops) > 6 {
		at := r.Range(3, len(p.Ops)-2)
		ins := []core.Op{{K: "importkey", A: []int64{int64(r.Intn(3))}}}
		p.Ops = append(p.Ops[:at], append(ins, p.Ops[at:]...)...)
		for i := 0; i < r.Range(1, 2); i++ {
			at2 := r.Range(at+1, len(p.Ops))
			f := []core.Op{{K: "fundkey", A: []int64{0, int64(r.Range(1, 40)) * 1e6}}}
			p.Ops = append(p.Ops[:at2], append(f, p.Ops[at2:]...)...)
		}
	}
}

func (x *world) checkC01w(label string) {
	if !x.running || x.violated || x.w == nil {
		return
	}
	simrt.WaitIdle("harness:c01w")
	if x.client != nil && x.client.RescanActive() {
		return
	}
	env := x.env
	maturity := int32(x.params.CoinbaseMaturity)

	// --- inputs, one read transaction
	var outs []knownOut
	spent := map[wire.OutPoint]bool{}
	highest := int32(-1)
	var sync waddrmgr.BlockStamp
	var all []wtxmgr.TxDetails
	err := walletdb.View(x.w.Database(), func(tx walletdb.ReadTx) error {
		ns := tx.ReadBucket(wtxmgrNS)
		sync = x.w.Manager.SyncedTo()
		return x.w.TxStore.RangeTransactions(ns, 0, -1, func(ds []wtxmgr.TxDetails) (bool, error) {
			all = append(all, ds...)
			for i := range ds {
				d := &ds[i]
				if d.Block.Height > highest {
					highest = d.Block.Height
				}
				cb := blockchain.IsCoinBaseTx(&d.MsgTx)
				for _, in := range d.MsgTx.TxIn {
					if !cb {
						spent[in.PreviousOutPoint] = true
					}
				}
				for _, c := range d.Credits {
					if int(c.Index) >= len(d.MsgTx.TxOut) {
						continue
					}
					o := d.MsgTx.TxOut[c.Index]
					outs = append(outs, knownOut{op: wire.OutPoint{Hash: d.Hash, Index: c.Index}, value: o.Value,
						pkScript: o.PkScript, height: d.Block.Height, coinbase: cb, credAmt: c.Amount})
				}
			}
			return false, nil
		})
	})
	if err != nil {
		x.fail("c01w:store-error:RangeTransactions", "RangeTransactions(0,-1) failed: %v", err)
		return
	}
	if x.w.Manager.SyncedTo() != sync {
		return // the wallet moved while we read (should not happen when idle)
	}
	if sync.Height < highest {
		env.Count("probe.c01w-sync-below-highest-known-block")
		return
	}
	if found, byClient, what := x.spenderAnnouncedBeforeParent(all); found {
		if byClient {
			// not a sequence of events a validating node could emit: see
			// spenderAnnouncedBeforeParent
			env.Count("observed.spender-confirmation-announced-before-its-parent's")
			env.Logf("outside the statement: %s", what)
			x.violated = true
			return
		}
		x.fail("c01w:credit-unspent-though-a-confirmed-transaction-spends-it", "%s: %s", label, what)
		return
	}
	leased := map[wire.OutPoint]bool{}
	ll, err := x.w.ListLeasedOutputs()
	if err != nil {
		x.fail("c01w:store-error:ListLeasedOutputs", "ListLeasedOutputs failed: %v", err)
		return
	}
	for _, l := range ll {
		leased[l.Outpoint] = true
	}
	confsOf := func(h int32) int32 {
		if h < 0 {
			return 0
		}
		return sync.Height - h + 1
	}
	// the statement's set: credited, positive, unspent by a known tx, unleased
	var live []knownOut
	seen := map[wire.OutPoint]bool{}
	for _, o := range outs {
		if seen[o.op] {
			x.fail("c01w:credit-listed-twice", "output %v is listed as a credit by two records of the history", o.op)
			return
		}
		seen[o.op] = true
		if o.value <= 0 || spent[o.op] || leased[o.op] {
			continue
		}
		live = append(live, o)
	}
	sort.Slice(live, func(i, j int) bool {
		if live[i].op.Hash != live[j].op.Hash {
			return live[i].op.Hash.String() < live[j].op.Hash.String()
		}
		return live[i].op.Index < live[j].op.Index
	})
	env.Count("probe.c01w-checked")
	if len(leased) > 0 {
		env.Count("probe.c01w-with-leases")
	}
	nUnconf, nImmature := 0, 0
	for _, o := range live {
		if o.height < 0 {
			nUnconf++
		}
		if o.coinbase && confsOf(o.height) < maturity {
			nImmature++
		}
	}
	if nUnconf > 0 {
		env.Count("probe.c01w-unconfirmed-credit")
	}
	if nImmature > 0 {
		env.Count("probe.c01w-immature-coinbase")
	}

	// --- CalculateBalance over a grid of minimum confirmations
	grid := []int32{0, 1, 2, 3, 6, maturity - 1, maturity, maturity + 1, sync.Height + 1}
	for _, m := range grid {
		if m < 0 {
			continue
		}
		var want btcutil.Amount
		for _, o := range live {
			c := confsOf(o.height)
			if c < m {
				continue
			}
			if o.coinbase && c < maturity {
				continue
			}
			want += btcutil.Amount(o.value)
		}
		got, err := x.w.CalculateBalance(m)
		if err != nil {
			x.fail("c01w:store-error:CalculateBalance", "CalculateBalance(%d) failed: %v", m, err)
			return
		}
		if got != want {
			x.fail(fmt.Sprintf("c01w:balance:minconf=%s", confClass(m, maturity)),
				"%s: CalculateBalance(%d) = %v but the known transactions give %v at synced height %d (%d live credits, %d unconfirmed, %d immature coinbase, %d leased)",
				label, m, got, want, sync.Height, len(live), nUnconf, nImmature, len(leased))
			return
		}
	}

	// --- ListUnspent over a grid of ranges
	type rng struct{ lo, hi int32 }
	for _, g := range []rng{{0, 9999999}, {1, 9999999}, {0, 0}, {2, 5}, {maturity, 9999999}} {
		want := map[wire.OutPoint]knownOut{}
		for _, o := range live {
			c := confsOf(o.height)
			if c < g.lo || c > g.hi {
				continue
			}
			if o.coinbase && c < maturity {
				continue
			}
			if x.w.LockedOutpoint(o.op) {
				continue
			}
			want[o.op] = o
		}
		res, err := x.w.ListUnspent(g.lo, g.hi, "")
		if err != nil {
			x.fail("c01w:store-error:ListUnspent", "ListUnspent(%d,%d) failed: %v", g.lo, g.hi, err)
			return
		}
		got := map[wire.OutPoint]bool{}
		for _, u := range res {
			var op wire.OutPoint
			hp, err := chainhash.NewHashFromStr(u.TxID)
			if err != nil {
				x.fail("c01w:listunspent:bad-txid", "ListUnspent returned txid %q", u.TxID)
				return
			}
			op.Hash, op.Index = *hp, u.Vout
			if got[op] {
				x.fail("c01w:listunspent:duplicate", "%s: ListUnspent(%d,%d) lists %v twice", label, g.lo, g.hi, op)
				return
			}
			got[op] = true
			w, ok := want[op]
			if !ok {
				x.fail("c01w:listunspent:extra", "%s: ListUnspent(%d,%d) lists %v (%v BTC, %d confirmations) which is %s", label, g.lo, g.hi, op, u.Amount, u.Confirmations, x.whyNot(op, outs, spent, leased, confsOf, g.lo, g.hi, maturity))
				return
			}
			if amt, _ := btcutil.NewAmount(u.Amount); amt != btcutil.Amount(w.value) {
				x.fail("c01w:listunspent:amount", "%s: ListUnspent reports %v for %v, the transaction says %v", label, amt, op, btcutil.Amount(w.value))
				return
			}
			if u.Confirmations != int64(confsOf(w.height)) {
				x.fail("c01w:listunspent:confirmations", "%s: ListUnspent reports %d confirmations for %v, filed at height %d with synced height %d", label, u.Confirmations, op, w.height, sync.Height)
				return
			}
			if u.ScriptPubKey != hex.EncodeToString(w.pkScript) {
				x.fail("c01w:listunspent:script", "%s: ListUnspent reports a different script for %v", label, op)
				return
			}
			if idx, ok := x.byScript[string(w.pkScript)]; ok {
				is := x.issuedAddrs[idx]
				if name, err := x.w.AccountName(is.scope, is.account); err == nil && name != u.Account {
					x.fail("c01w:listunspent:account", "%s: ListUnspent files %v under account %q, its address belongs to %q", label, op, u.Account, name)
					return
				}
			}
		}
		for op, w := range want {
			if !got[op] {
				x.fail("c01w:listunspent:missing", "%s: ListUnspent(%d,%d) omits %v (%v, height %d, coinbase=%v, synced height %d)", label, g.lo, g.hi, op, btcutil.Amount(w.value), w.height, w.coinbase, sync.Height)
				return
			}
		}
	}

	// --- credit amounts as recorded
	for _, o := range outs {
		if o.credAmt != btcutil.Amount(o.value) {
			x.fail("c01w:credit-amount", "%s: credit %v is recorded with %v, the transaction says %v", label, o.op, o.credAmt, btcutil.Amount(o.value))
			return
		}
	}

	if !x.checkAccountBalances(label, live, confsOf, maturity) {
		return
	}

	// --- per account
	for _, acct := range []uint32{0, 1} {
		if acct == 1 && !x.haveAcct1 {
			continue
		}
		for _, m := range []int32{0, 1, maturity} {
			var want struct{ total, spendable, immature btcutil.Amount }
			known := true
			for _, o := range live {
				idx, ok := x.byScript[string(o.pkScript)]
				if !ok {
					known = false
					break
				}
				if x.issuedAddrs[idx].account != acct {
					continue
				}
				c := confsOf(o.height)
				want.total += btcutil.Amount(o.value)
				if o.coinbase && c < maturity {
					want.immature += btcutil.Amount(o.value)
				} else if c >= m {
					want.spendable += btcutil.Amount(o.value)
				}
			}
			if !known {
				env.Count("probe.c01w-credit-to-address-unknown-to-harness")
				break
			}
			b, err := x.w.CalculateAccountBalances(acct, m)
			if err != nil {
				x.fail("c01w:store-error:CalculateAccountBalances", "CalculateAccountBalances(%d,%d) failed: %v", acct, m, err)
				return
			}
			if b.Total != want.total || b.Spendable != want.spendable || b.ImmatureReward != want.immature {
				x.fail(fmt.Sprintf("c01w:account-balances:minconf=%s", confClass(m, maturity)),
					"%s: CalculateAccountBalances(account %d, %d) = {total %v spendable %v immature %v}, the known transactions give {%v %v %v}",
					label, acct, m, b.Total, b.Spendable, b.ImmatureReward, want.total, want.spendable, want.immature)
				return
			}
			env.Count("probe.c01w-account-balances-checked")
		}
	}
}

// checkAccountBalances: Wallet.AccountBalances(scope, confs) per default
// scope — each account's sum of live credits paying one of its addresses, with
// at least confs confirmations and coinbase maturity.
func (x *world) checkAccountBalances(label string, live []knownOut, confsOf func(int32) int32, maturity int32) bool {
	for _, sc := range scopes {
		for _, m := range []int32{0, 1, maturity} {
			want := map[uint32]btcutil.Amount{}
			for _, o := range live {
				idx, ok := x.byScript[string(o.pkScript)]
				if !ok {
					return true // a credit to an address the harness did not record: skip
				}
				is := x.issuedAddrs[idx]
				if is.scope != sc {
					continue
				}
				c := confsOf(o.height)
				if c < m || (o.coinbase && c < maturity) {
					continue
				}
				want[is.account] += btcutil.Amount(o.value)
			}
			res, err := x.w.AccountBalances(sc, m)
			if err != nil {
				x.fail("c01w:store-error:AccountBalances", "AccountBalances(%v,%d) failed: %v", sc, m, err)
				return false
			}
			for _, r := range res {
				if r.AccountNumber == waddrmgr.ImportedAddrAccount {
					continue
				}
				if r.AccountBalance != want[r.AccountNumber] {
					x.fail(fmt.Sprintf("c01w:account-balance:minconf=%s", confClass(m, maturity)),
						"%s: AccountBalances(scope %v, %d) reports %v for account %d (%q), the known transactions give %v",
						label, sc, m, r.AccountBalance, r.AccountNumber, r.AccountName, want[r.AccountNumber])
					return false
				}
			}
			x.env.Count("probe.c01w-scope-account-balances-checked")
		}
	}
	return true
}

func confClass(m, maturity int32) string {
	switch {
	case m == 0:
		return "0"
	case m == 1:
		return "1"
	case m == maturity:
		return "maturity"
	case m == maturity+1:
		return "maturity+1"
	case m < maturity:
		return "below-maturity"
	default:
		return "above-maturity"
	}
}

func (x *world) whyNot(op wire.OutPoint, outs []knownOut, spent, leased map[wire.OutPoint]bool, confsOf func(int32) int32, lo, hi, maturity int32) string {
	for _, o := range outs {
		if o.op != op {
			continue
		}
		switch {
		case spent[op]:
			return "spent by a known transaction"
		case leased[op]:
			return "leased"
		case o.value <= 0:
			return "not of positive value"
		case x.w.LockedOutpoint(op):
			return "locked"
		case o.coinbase && confsOf(o.height) < maturity:
			return fmt.Sprintf("an immature coinbase output (%d confirmations)", confsOf(o.height))
		default:
			return fmt.Sprintf("outside the range (%d confirmations)", confsOf(o.height))
		}
	}
	return "not a credited output of any known transaction"
}
