// Package walletsim runs the whole wallet.Wallet — all its goroutines, on a
// real bbolt file behind faultdb — attached to simchain, with 1–4 user tasks,
// under the seeded scheduler. It decides C09, C15, C20, C06 and C16.
package walletsim

import (
	"bytes"
	"fmt"
	"os"
	"path/filepath"
	"sort"
	"strings"
	"time"

	"github.com/btcsuite/btcd/btcec/v2"
	"github.com/btcsuite/btcd/btcec/v2/schnorr"
	"github.com/btcsuite/btcd/btcutil"
	"github.com/btcsuite/btcd/btcutil/hdkeychain"
	"github.com/btcsuite/btcd/chaincfg"
	"github.com/btcsuite/btcd/chaincfg/chainhash"
	"github.com/btcsuite/btcd/txscript"
	"github.com/btcsuite/btcd/wire"
	"github.com/btcsuite/btcwallet/waddrmgr"
	"github.com/btcsuite/btcwallet/wallet"
	"github.com/btcsuite/btcwallet/wallet/txauthor"
	"github.com/btcsuite/btcwallet/walletdb"
	_ "github.com/btcsuite/btcwallet/walletdb/bdb"
	"github.com/btcsuite/btcwallet/wtxmgr"

	"verifsim/core"
	"verifsim/faultdb"
	"verifsim/simchain"
	"verifsim/simrt"
)

func init() {
	// scrypt cost is not a correctness input: N=16 instead of 262144.
	waddrmgr.DefaultScryptOptions = waddrmgr.FastScryptOptions
}

var (
	waddrmgrNS = []byte("waddrmgr")
	wtxmgrNS   = []byte("wtxmgr")
)

var scopes = []waddrmgr.KeyScope{
	waddrmgr.KeyScopeBIP0084, waddrmgr.KeyScopeBIP0049Plus, waddrmgr.KeyScopeBIP0044, waddrmgr.KeyScopeBIP0086,
}

// issued is an address the harness obtained from the wallet.
type issued struct {
	addr    btcutil.Address
	scope   waddrmgr.KeyScope
	account uint32
	branch  uint32
	index   uint32 // resolved through the independent derivation
	via     string
}

type world struct {
	nKeyB              int
	importedKeys       []btcutil.Address       // single keys imported through Wallet.ImportPrivateKey
	importedKeyScripts map[string]int          // pkScript -> index into importedKeys
	hadCrash           bool                    // a power loss discarded commits: addresses the harness believes issued may be unknown to the wallet
	discDuringRescan   map[chainhash.Hash]bool // blocks a reorg disconnected while the start-up rescan was running
	announced          []simchain.Announce     // confirmed-transaction announcements of all client sessions, in order
	c02prev            map[chainhash.Hash]int  // C02 wallet level: credits per recorded transaction at the previous synchronised point
	beforeAttach       func()                  // runs once inside open(), before SynchronizeRPC
	env                *core.Env
	p                  *core.Plan
	prop               string
	node               *simchain.Node
	client             *simchain.Client
	db                 *faultdb.DB
	dbPath             string
	w                  *wallet.Wallet
	params             *chaincfg.Params

	seed      []byte
	root      *hdkeychain.ExtendedKey
	pubPass   []byte
	privPass  []byte
	birthday  time.Time
	recWindow uint32
	running   bool
	restarts  int

	issuedAddrs      []issued
	byAddr           map[string]int
	foreignN         uint64
	acctKeys         map[string]*hdkeychain.ExtendedKey // scope/account/branch -> branch xpub-capable key
	violated         bool
	pendingFail      map[string]int
	pendingFailNth   map[string]int
	convertRequested bool
	// C16
	paid                []paidRec
	pendingPaid         []paidRec
	paidHighestMined    map[string]int64
	firstPayHeight      int32
	firstPayTime        time.Time
	spends              []*wire.MsgTx
	scanMin             int32
	unlockAtOpen        bool
	c16Checked          bool
	byScript            map[string]int // pkScript -> index into issuedAddrs
	lockedOps           map[wire.OutPoint]bool
	leases              map[wire.OutPoint]time.Time
	haveAcct1           bool
	acct1Scope          waddrmgr.KeyScope
	sentAccepted        []*wire.MsgTx
	built               []*wire.MsgTx
	pendingResend       []string
	unminedAtStart      map[chainhash.Hash]bool
	unminedChildAtStart map[chainhash.Hash]bool // unmined txs that had an unmined child when the wallet stopped
	resendSyncedHeight  int32
	derivedIdx          map[string]map[string]uint32
	derivedN            map[string]uint32
	// transactions the harness knows pay the wallet or were authored by it
	funding []*wire.MsgTx
	sent    []*wire.MsgTx
	// imported accounts (acctw.go)
	leases12                     map[wire.OutPoint]lease12 // wallet-level C12
	builtWhole                   *wire.MsgTx
	relabel                      string                  // prefix put in front of every signature (wallet-level C10: after a fired fault)
	confirmedAtStart             map[chainhash.Hash]bool // wallet-authored txs confirmed when the wallet was last started
	unconfirmedByReorgAfterStart map[chainhash.Hash]bool // ... and un-confirmed by a reorg since
	imported                     []importedAcct
	impIssued                    []impIssued
}

// ownSigs: signature prefixes a wallet-level facet of a property may report.
var ownSigs = map[string][]string{
	"C01": {"c01w:"},
	"C03": {"c03w:", "address-not-seed-child"},
	"C05": {"c05w:", "restart-failed"},
	"C08": {"c08w:"},
	"C10": {"c10w:"},
	"C13": {"c13w:"},
	"C12": {"c12w:"},
	"C02": {"c02w:"},
}

func (x *world) fail(sig, format string, a ...any) {
	if x.relabel != "" {
		sig = x.relabel + sig
	}
	if pre, ok := ownSigs[x.prop]; ok && !x.violated {
		mine := false
		for _, p := range pre {
			if strings.HasPrefix(sig, p) {
				mine = true
			}
		}
		if !mine {
			// the wallet-level runs of C01/C03/C05/C08 reuse other
			// properties' workloads and oracles; those do not speak for them
			x.violated = true
			x.env.Count("abort.other-oracle")
			x.env.Logf("other oracle: %s: "+format, append([]any{sig}, a...)...)
			return
		}
	}
	if !x.violated {
		x.violated = true
		x.env.Fail(x.prop, sig, format, a...)
	}
}

// newWorld creates node, database and wallet and attaches the wallet.
func newWorld(env *core.Env, p *core.Plan) (*world, error) {
	x := &world{env: env, p: p, prop: p.Prop, byAddr: map[string]int{}, acctKeys: map[string]*hdkeychain.ExtendedKey{},
		byScript: map[string]int{}, lockedOps: map[wire.OutPoint]bool{}, leases: map[wire.OutPoint]time.Time{}, leases12: map[wire.OutPoint]lease12{},
		confirmedAtStart: map[chainhash.Hash]bool{}, unconfirmedByReorgAfterStart: map[chainhash.Hash]bool{},
		paidHighestMined: map[string]int64{}, firstPayHeight: -1, scanMin: -1}
	r := core.NewRand(core.Mix(p.Seed, 0x77a11e7))
	txauthor.VerifSeedCPRNG(int64(core.Mix(p.Seed, 0xc9) >> 1)) // overlay probe: change position is a function of the plan
	simrt.SetMapSeed(core.Mix(p.Seed, 0x3a9) | 1)               // map iteration order inside btcwallet is a function of the plan
	x.seed = r.Bytes(32)
	x.pubPass = []byte("public")
	x.privPass = []byte("private-" + fmt.Sprint(p.Seed%1000))
	maturity := uint16(p.C("maturity", 3))
	if maturity == 0 {
		maturity = 1
	}
	genesis := time.Now().Add(-30 * 24 * time.Hour)
	base := &chaincfg.RegressionNetParams
	if p.C("simnet", 0) == 1 {
		// account import only accepts extended keys on networks that define
		// the SLIP-0132 versions; simnet is the development network that does
		base = &chaincfg.SimNetParams
	}
	x.node = simchain.NewNode(base, genesis, maturity)
	x.params = x.node.Params
	x.birthday = genesis
	root, err := hdkeychain.NewMaster(x.seed, x.params)
	if err != nil {
		return nil, err
	}
	x.root = root
	x.recWindow = uint32(p.C("recovery_window", 0))
	// some chain before the wallet exists
	pre := int(p.C("prechain", 3))
	for i := 0; i < pre; i++ {
		x.node.Mine(simchain.MineOpts{CoinbaseValue: 50e8, Dt: 10 * time.Minute})
	}
	if p.C("deferred_create", 0) == 1 {
		return x, nil // the wallet is restored later by a "createwallet" operation
	}
	if err := x.createDB(); err != nil {
		return nil, err
	}
	if err := x.open(); err != nil {
		return nil, err
	}
	return x, nil
}

// createDB creates the database file and the wallet in it.
func (x *world) createDB() error {
	x.dbPath = filepath.Join(x.env.Dir, "wallet.db")
	inner, err := walletdb.Create("bdb", x.dbPath, true, 10*time.Second, false)
	if err != nil {
		return err
	}
	x.db = faultdb.Wrap(inner)
	if err := wallet.Create(x.db, x.pubPass, x.privPass, x.root, x.params, x.birthday); err != nil {
		return fmt.Errorf("wallet.Create: %w", err)
	}
	return nil
}

// open opens the wallet on x.db and attaches a fresh client.
func (x *world) open() error {
	x.db.Yield = func(site string) { simrt.Yield("db:" + site) }
	w, err := wallet.OpenWithRetry(x.db, x.pubPass, nil, x.params, x.recWindow, 5*time.Second)
	if err != nil {
		return fmt.Errorf("wallet.Open: %w", err)
	}
	x.w = w
	w.Start()
	if x.unlockAtOpen {
		if err := w.Unlock(x.privPass, nil); err != nil {
			return fmt.Errorf("unlock: %w", err)
		}
	}
	if f := x.beforeAttach; f != nil {
		// the wallet is loaded and started but has no chain backend yet
		x.beforeAttach = nil
		f()
	}
	x.noteClient()
	x.client = simchain.NewClient(x.node, x.birthday, int(x.p.C("queue_buf", 20)))
	x.client.Dialect = []string{"", "bitcoind", "bitcoind28", "btcd", "btcd-legacy"}[int(uint64(x.p.C("dialect", 0))%5)]
	if x.client.Dialect != "" {
		x.env.Count("probe.backend-dialect." + x.client.Dialect)
	}
	x.announced = append(x.announced, simchain.Announce{}) // session marker
	x.client.AnnounceLog = &x.announced
	x.client.AsyncRescan = x.p.C("async_rescan", 0) == 1
	x.client.BtcdStyleRescan = x.p.C("btcd_rescan", 0) == 1
	for _, k := range core.SortedKeys(x.pendingFail) {
		x.client.FailNext[k] = x.pendingFail[k]
	}
	if len(x.pendingFail) > 0 {
		x.env.Count("probe.sync-after-backend-failure")
	}
	x.pendingFail = nil
	for _, k := range core.SortedKeys(x.pendingFailNth) {
		x.client.FailNth[k] = x.pendingFailNth[k]
	}
	x.pendingFailNth = nil
	for _, a := range x.pendingResend {
		if a != "" && a != "notify-received-fails" {
			x.client.SendAnswers = append(x.client.SendAnswers, a)
			x.env.Count("fault.backend-answer.resend." + a)
		} else {
			x.client.SendAnswers = append(x.client.SendAnswers, "")
		}
	}
	x.pendingResend = nil
	if err := x.client.Start(); err != nil {
		return err
	}
	w.SynchronizeRPC(x.client)
	x.running = true
	return nil
}

// noteClient folds what the outgoing client observed into the world.
func (x *world) noteClient() {
	if x.client == nil {
		return
	}
	if m := x.client.FilterBlocksMin; m >= 0 && (x.scanMin < 0 || m < x.scanMin) {
		x.scanMin = m
	}
}

// stop shuts the wallet down and closes the database.
func (x *world) stop() {
	if !x.running {
		return
	}
	// Stop only at a quiescent point: Wallet.Stop clears the chain client
	// while the notification handler may still be inside disconnectBlock
	// (w.ChainClient() == nil there panics) — a shutdown race of the wallet
	// that none of the properties is about.
	simrt.WaitIdle("harness:before-stop")
	x.w.Stop()
	x.w.WaitForShutdown()
	x.running = false
	_ = x.db.Close()
}

// reopen opens the database file again (restart).
func (x *world) reopen() error {
	inner, err := walletdb.Open("bdb", x.dbPath, true, 10*time.Second, false)
	if err != nil {
		return err
	}
	x.db = faultdb.Wrap(inner)
	x.restarts++
	return x.open()
}

// quiesce waits until nothing is runnable; if cond is not yet true it lets
// simulated time pass (timers, retry intervals) up to maxSim.
func (x *world) quiesce(cond func() bool, maxSim time.Duration) bool {
	start := time.Now()
	for {
		simrt.WaitIdle("harness:quiesce")
		if cond == nil || cond() {
			return true
		}
		if time.Since(start) >= maxSim {
			return false
		}
		time.Sleep(time.Second)
		simrt.Yield("harness:after-sleep")
	}
}

// ---- independent derivation (hdkeychain, not waddrmgr)

func (x *world) branchKey(scope waddrmgr.KeyScope, account, branch uint32) (*hdkeychain.ExtendedKey, error) {
	k := fmt.Sprintf("%d/%d/%d/%d", scope.Purpose, scope.Coin, account, branch)
	if key, ok := x.acctKeys[k]; ok {
		return key, nil
	}
	cur := x.root
	for lvl, i := range []uint32{scope.Purpose + hdkeychain.HardenedKeyStart, scope.Coin + hdkeychain.HardenedKeyStart,
		account + hdkeychain.HardenedKeyStart, branch} {
		if lvl == 2 && account > 0 {
			// Accounts created after the wallet was created are derived from
			// the coin-type key as it is STORED (serialised, 32-byte padded) and
			// parsed back, not from the in-memory chain: with btcsuite's legacy
			// hardened derivation this differs from the in-memory chain exactly
			// when the coin-type private key has a leading zero byte.
			rt, err := hdkeychain.NewKeyFromString(cur.String())
			if err != nil {
				return nil, err
			}
			cur = rt
		}
		n, err := cur.DeriveNonStandard(i) // nolint: waddrmgr's legacy rule
		if err != nil {
			return nil, err
		}
		cur = n
	}
	x.acctKeys[k] = cur
	return cur, nil
}

// addrFor encodes the address of a public key for a scope and branch, with
// the default address schemas of the four default scopes.
func addrFor(params *chaincfg.Params, scope waddrmgr.KeyScope, branch uint32, pub *btcec.PublicKey) (btcutil.Address, error) {
	h := btcutil.Hash160(pub.SerializeCompressed())
	switch scope {
	case waddrmgr.KeyScopeBIP0044:
		return btcutil.NewAddressPubKeyHash(h, params)
	case waddrmgr.KeyScopeBIP0084:
		return btcutil.NewAddressWitnessPubKeyHash(h, params)
	case waddrmgr.KeyScopeBIP0049Plus:
		if branch == 1 {
			return btcutil.NewAddressWitnessPubKeyHash(h, params)
		}
		wa, err := btcutil.NewAddressWitnessPubKeyHash(h, params)
		if err != nil {
			return nil, err
		}
		script, err := txscript.PayToAddrScript(wa)
		if err != nil {
			return nil, err
		}
		return btcutil.NewAddressScriptHash(script, params)
	case waddrmgr.KeyScopeBIP0086:
		tk := txscript.ComputeTaprootKeyNoScript(pub)
		return btcutil.NewAddressTaproot(schnorr.SerializePubKey(tk), params)
	}
	return nil, fmt.Errorf("unknown scope %v", scope)
}

// resolve finds (branch, index) of an address of scope/account by independent
// derivation, searching indices below limit on both branches. Derived
// addresses are cached per branch and extended lazily.
func (x *world) resolve(scope waddrmgr.KeyScope, account uint32, addr btcutil.Address, limit uint32) (branch, index uint32, ok bool) {
	want := addr.String()
	if x.derivedIdx == nil {
		x.derivedIdx = map[string]map[string]uint32{}
		x.derivedN = map[string]uint32{}
	}
	for upto := uint32(16); ; upto *= 4 {
		if upto > limit {
			upto = limit
		}
		for br := uint32(0); br < 2; br++ {
			k := fmt.Sprintf("%d/%d/%d/%d", scope.Purpose, scope.Coin, account, br)
			if x.derivedIdx[k] == nil {
				x.derivedIdx[k] = map[string]uint32{}
			}
			if x.derivedN[k] < upto {
				bk, err := x.branchKey(scope, account, br)
				if err != nil {
					return 0, 0, false
				}
				for i := x.derivedN[k]; i < upto; i++ {
					ck, err := bk.DeriveNonStandard(i) // nolint
					if err != nil {
						continue
					}
					pub, err := ck.ECPubKey()
					if err != nil {
						continue
					}
					if a, err := addrFor(x.params, scope, br, pub); err == nil {
						x.derivedIdx[k][a.String()] = i
					}
				}
				x.derivedN[k] = upto
			}
			if i, found := x.derivedIdx[k][want]; found {
				return br, i, true
			}
		}
		if upto >= limit {
			return 0, 0, false
		}
	}
}

func (x *world) record(addr btcutil.Address, scope waddrmgr.KeyScope, account uint32, via string) (issued, bool) {
	br, idx, ok := x.resolve(scope, account, addr, 400)
	is := issued{addr: addr, scope: scope, account: account, branch: br, index: idx, via: via}
	if ok {
		if _, dup := x.byAddr[addr.String()]; !dup {
			x.byAddr[addr.String()] = len(x.issuedAddrs)
			x.byScript[string(payTo(addr, 0).PkScript)] = len(x.issuedAddrs)
			x.issuedAddrs = append(x.issuedAddrs, is)
		}
	}
	return is, ok
}

// ---- node-side helpers

// fundTx builds a transaction from outside the wallet paying the given
// outputs.
func (x *world) foreignTx(outs []*wire.TxOut) *wire.MsgTx {
	tx := wire.NewMsgTx(2)
	x.foreignN++
	tx.AddTxIn(&wire.TxIn{PreviousOutPoint: simchain.ForeignOutPoint(x.foreignN), Sequence: 0xffffffff})
	for _, o := range outs {
		tx.AddTxOut(o)
	}
	return tx
}

func payTo(addr btcutil.Address, v int64) *wire.TxOut {
	s, err := txscript.PayToAddrScript(addr)
	if err != nil {
		panic(err)
	}
	return &wire.TxOut{Value: v, PkScript: s}
}

// foreignScript is a destination outside the wallet.
func foreignScript(n uint64) []byte {
	h := chainhash.HashB([]byte(fmt.Sprintf("foreign-dest-%d", n)))
	s, _ := txscript.NewScriptBuilder().AddOp(txscript.OP_0).AddData(h[:20]).Script()
	return s
}

// pickMempool selects a topologically valid subset of the node's mempool.
func (x *world) pickMempool(r *core.Rand, keepPct int) []*wire.MsgTx {
	var out []*wire.MsgTx
	skipped := map[chainhash.Hash]bool{}
	for _, tx := range x.node.Mempool {
		skip := r.Intn(100) >= keepPct
		for _, in := range tx.TxIn {
			if skipped[in.PreviousOutPoint.Hash] {
				skip = true
			}
		}
		if skip {
			skipped[tx.TxHash()] = true
			continue
		}
		out = append(out, tx)
	}
	return out
}

// ---- wallet-side queries

type acctCounts struct{ ext, int uint32 }

func (x *world) keyCounts(scope waddrmgr.KeyScope, account uint32) (acctCounts, error) {
	props, err := x.w.AccountProperties(scope, account)
	if err != nil {
		return acctCounts{}, err
	}
	return acctCounts{props.ExternalKeyCount, props.InternalKeyCount}, nil
}

// diskKeyCounts opens a copy of the last committed image with a fresh manager
// and reads the same account properties from it.
func (x *world) diskKeyCounts(scope waddrmgr.KeyScope, account uint32) (acctCounts, error) {
	img, err := x.db.Image()
	if err != nil {
		return acctCounts{}, err
	}
	path := filepath.Join(x.env.Dir, fmt.Sprintf("img-%d.db", x.db.Commits))
	if err := os.WriteFile(path, img, 0o600); err != nil {
		return acctCounts{}, err
	}
	defer os.Remove(path)
	d, err := walletdb.Open("bdb", path, true, 10*time.Second, false)
	if err != nil {
		return acctCounts{}, err
	}
	defer d.Close()
	var out acctCounts
	err = walletdb.View(d, func(tx walletdb.ReadTx) error {
		ns := tx.ReadBucket(waddrmgrNS)
		m, err := waddrmgr.Open(ns, x.pubPass, x.params)
		if err != nil {
			return err
		}
		defer m.Close()
		sm, err := m.FetchScopedKeyManager(scope)
		if err != nil {
			return err
		}
		props, err := sm.AccountProperties(ns, account)
		if err != nil {
			return err
		}
		out = acctCounts{props.ExternalKeyCount, props.InternalKeyCount}
		return nil
	})
	return out, err
}

func sortedStrings(m map[string]bool) []string {
	var s []string
	for k := range m {
		s = append(s, k)
	}
	sort.Strings(s)
	return s
}

func scriptEq(a, b []byte) bool { return bytes.Equal(a, b) }

// spenderAnnouncedBeforeParent looks for the one inconsistency a transaction
// store shows after it was told of a spender's confirmation while it still
// held the parent as unconfirmed, and of the parent's confirmation afterwards:
// a credit of a confirmed transaction that the store reports unspent although a
// recorded confirmed transaction spends it. It reports whether one exists and
// whether the client announced the two confirmations in that order — which a
// bitcoind-style client does when a block arrives on its block-notification
// path while its rescan has not reached the parent's block yet
// (chain/bitcoind_client.go: ntfnHandler filters a new block at once, Rescan
// runs in a goroutine of its own). Such a notification sequence is not
// chain-consistent — a child confirmed above an unconfirmed parent — and is
// outside what C01 and C02 quantify over.
func (x *world) spenderAnnouncedBeforeParent(ds []wtxmgr.TxDetails) (found bool, byClientOrder bool, what string) {
	byHash := map[chainhash.Hash]*wtxmgr.TxDetails{}
	for i := range ds {
		byHash[ds[i].Hash] = &ds[i]
	}
	// since when, in the current client session, has the wallet been told
	// without interruption that tx is confirmed in block (-1: not told in
	// this session — it knew before, or never)
	first := func(tx, block chainhash.Hash) int {
		start := 0
		for i, a := range x.announced {
			if a.Tx == (chainhash.Hash{}) && a.Block == (chainhash.Hash{}) && !a.Disc {
				start = i
			}
		}
		since := -1
		for i := start; i < len(x.announced); i++ {
			a := x.announced[i]
			switch {
			case a.Disc && a.Block == block:
				since = -1
			case !a.Disc && a.Tx == tx && a.Block == block && since < 0:
				since = i
			}
		}
		return since
	}
	for i := range ds {
		c := &ds[i]
		if c.Block.Height < 0 || isCoinbaseTx(&c.MsgTx) {
			continue
		}
		for _, in := range c.MsgTx.TxIn {
			p := byHash[in.PreviousOutPoint.Hash]
			if p == nil || p.Block.Height < 0 {
				continue
			}
			for _, cr := range p.Credits {
				if cr.Index != in.PreviousOutPoint.Index || cr.Spent {
					continue
				}
				found = true
				what = fmt.Sprintf("credit %s:%d (confirmed at %d) is reported unspent although %s, confirmed at %d, spends it", short(p.Hash), cr.Index, p.Block.Height, short(c.Hash), c.Block.Height)
				sc, sp := first(c.Hash, c.Block.Hash), first(p.Hash, p.Block.Hash)
				if sc >= 0 && sp >= 0 && sc < sp {
					return true, true, what
				}
			}
		}
	}
	return found, false, what
}
