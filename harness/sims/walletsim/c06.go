package walletsim

import (
	"fmt"
	"sort"
	"time"

	"github.com/btcsuite/btcd/blockchain"
	"github.com/btcsuite/btcd/btcutil"
	"github.com/btcsuite/btcd/btcutil/hdkeychain"
	"github.com/btcsuite/btcd/chaincfg/chainhash"
	"github.com/btcsuite/btcd/mempool"
	"github.com/btcsuite/btcd/txscript"
	"github.com/btcsuite/btcd/wire"
	"github.com/btcsuite/btcwallet/waddrmgr"
	"github.com/btcsuite/btcwallet/wallet"
	"github.com/btcsuite/btcwallet/walletdb"
	"github.com/btcsuite/btcwallet/wtxmgr"

	"verifsim/core"
	"verifsim/simrt"
)

// C06 — created transactions spend only eligible own coins, once, with valid
// signatures.

func genC06(r *core.Rand, p *core.Plan) {
	p.Sched = []string{"rtb0", "rtb1", "random", "rtb3", "pct"}[r.Intn(5)]
	if r.Chance(1, 2) {
		p.Cfg["btcd_rescan"] = 1 // the backend matches spends by watched outpoint only
	}
	if r.Chance(1, 4) {
		p.Cfg["yield_after_unlock"] = 1
	}
	m := []int64{1, 2, 3, 5}[r.Intn(4)]
	p.Cfg["maturity"] = m
	// addresses on every default scope of account 0, a second account, then funds
	for sc := 0; sc < 4; sc++ {
		p.Ops = append(p.Ops, core.Op{K: "newaddr", A: []int64{int64(sc), 0, 0}})
	}
	acctScope := int64(r.Intn(4))
	if r.Chance(1, 3) {
		// an account-import preview (always rolled back) in the scope in which
		// the second account is created next
		p.Cfg["simnet"] = 1
		acctScope = []int64{0, 1, 3}[r.Intn(3)]
		p.Ops = append(p.Ops, core.Op{K: "importdry", A: []int64{acctScope, int64(r.Range(1, 4))}})
	}
	p.Ops = append(p.Ops, core.Op{K: "newacct", A: []int64{acctScope}})
	p.Ops = append(p.Ops, core.Op{K: "newaddr", A: []int64{int64(r.Intn(4)), 1, 0}})
	p.Ops = append(p.Ops, core.Op{K: "newaddr", A: []int64{int64(r.Intn(4)), 1, 0}})
	nf := r.Range(4, 10)
	for i := 0; i < nf; i++ {
		p.Ops = append(p.Ops, core.Op{K: "fund", A: []int64{int64(r.Intn(8)), int64(r.Range(2, 90)) * 1e6}})
	}
	// a coinbase paying the wallet, mined to within one block of maturity
	p.Ops = append(p.Ops, core.Op{K: "mine", A: []int64{1, 100, int64(r.Intn(8)), 600, int64(r.Uint64() >> 1)}})
	if m > 1 {
		p.Ops = append(p.Ops, core.Op{K: "mine", A: []int64{m - 2 + int64(r.Intn(3)), 100, -1, 600, int64(r.Uint64() >> 1)}})
	}
	p.Ops = append(p.Ops, core.Op{K: "sync"})
	n := r.Range(5, 22)
	if p.Cfg["thorough"] == 1 {
		n = r.Range(15, 50)
	}
	for i := 0; i < n; i++ {
		switch r.Weighted([]int{34, 10, 10, 8, 8, 6, 8, 6, 10, 6}) {
		case 9:
			// the chain moves while the wallet is off: the restarted wallet
			// must judge confirmations against the chain it finds
			p.Ops = append(p.Ops, core.Op{K: "sync"})
			if r.Chance(1, 2) {
				// a payment without change, still unconfirmed when the wallet
				// stops and confirmed while it is down: only the watched
				// outpoints tell the restarted wallet about it
				s6 := genSend6(r, 0)
				s6.A[6], s6.A[1], s6.A[10] = 2, 1, 1
				if r.Chance(1, 2) {
					p.Ops = append(p.Ops, s6, core.Op{K: "stop"},
						core.Op{K: "mine", A: []int64{1, 100, -1, 600, int64(r.Uint64() >> 1)}},
						core.Op{K: "start"}, core.Op{K: "sync"}, genSend6(r, 0))
				} else {
					// ... or confirmed before it stops, and the confirming
					// block replaced (by one that confirms it again) while
					// the wallet is down: the start-up rollback unconfirms
					// it, only the rescan can confirm it again
					p.Ops = append(p.Ops, s6,
						core.Op{K: "mine", A: []int64{1, 100, -1, 600, int64(r.Uint64() >> 1)}}, core.Op{K: "sync"}, core.Op{K: "stop"},
						core.Op{K: "reorg", A: []int64{1, int64(1 + r.Intn(2)), 100, int64(r.Uint64() >> 1)}},
						core.Op{K: "start"}, core.Op{K: "sync"}, genSend6(r, 0))
				}
				continue
			}
			p.Ops = append(p.Ops, core.Op{K: "stop"})
			if r.Chance(2, 3) {
				d := r.Range(1, 2)
				p.Ops = append(p.Ops, core.Op{K: "reorg", A: []int64{int64(d), int64(d + r.Range(0, 1)), int64(r.Range(0, 100)), int64(r.Uint64() >> 1)}})
			} else {
				p.Ops = append(p.Ops, core.Op{K: "mine", A: []int64{int64(r.Range(1, 2)), int64(r.Range(40, 100)), -1, 600, int64(r.Uint64() >> 1)}})
			}
			p.Ops = append(p.Ops, core.Op{K: "start"}, core.Op{K: "sync"})
			p.Ops = append(p.Ops, genSend6(r, 0))
		case 0:
			p.Ops = append(p.Ops, core.Op{K: "sync"})
			p.Ops = append(p.Ops, genSend6(r, 0))
		case 1:
			p.Ops = append(p.Ops, core.Op{K: "mine", A: []int64{int64(r.Range(1, 2)), int64(r.Range(40, 100)), int64(r.Range(-1, 7)), 600, int64(r.Uint64() >> 1)}})
		case 2:
			p.Ops = append(p.Ops, core.Op{K: "fund", A: []int64{int64(r.Intn(12)), int64(r.Range(2, 90)) * 1e6}})
		case 3:
			p.Ops = append(p.Ops, core.Op{K: "lockop", A: []int64{int64(r.Intn(10)), int64(r.Intn(2))}})
		case 4:
			p.Ops = append(p.Ops, core.Op{K: "lease", A: []int64{int64(r.Intn(10)), int64(r.Intn(2)), int64(r.Range(30, 4000))}})
		case 5:
			p.Ops = append(p.Ops, core.Op{K: "clock", A: []int64{int64(r.Range(10, 5000))}})
		case 6:
			d := r.Range(1, 2)
			p.Ops = append(p.Ops, core.Op{K: "reorg", A: []int64{int64(d), int64(d + r.Range(0, 1)), int64(r.Range(30, 100)), int64(r.Uint64() >> 1)}})
		case 7:
			p.Ops = append(p.Ops, core.Op{K: "newaddr", A: []int64{int64(r.Intn(4)), int64(r.Intn(2)), int64(r.Intn(2))}})
		case 8: // concurrent senders
			p.Ops = append(p.Ops, core.Op{K: "sync"})
			nt := r.Range(2, 4)
			for t := 1; t <= nt; t++ {
				for k := 0; k < r.Range(1, 2); k++ {
					p.Ops = append(p.Ops, genSend6(r, t))
				}
			}
			p.Ops = append(p.Ops, core.Op{K: "join"})
		}
	}
	p.Ops = append(p.Ops, core.Op{K: "sync"})
}

// send6 args: amount, minconf, feerate, scope (-1 nil), account, strategy,
// mode (0 SendOutputs, 1 dry CreateSimpleTx, 2 SendOutputsWithInput eligible,
// 3 SendOutputsWithInput ineligible), pick, nOutputs, strategySeed
func genSend6(r *core.Rand, t int) core.Op {
	minconfs := []int64{0, 1, 1, 1, 2, 3, 6}
	mode := []int64{0, 0, 0, 1, 2, 3, 3}[r.Intn(7)]
	if t > 0 {
		mode = []int64{0, 0, 1}[r.Intn(3)]
	}
	return core.Op{K: "send6", T: t, A: []int64{int64(r.Range(1, 60)) * 1e5, minconfs[r.Intn(len(minconfs))], int64(r.Range(1, 40)) * 1000,
		int64(r.Range(-1, 3)), int64(r.Intn(2)), int64(r.Intn(2)), mode, int64(r.Intn(16)), int64(r.Range(1, 3)), int64(r.Uint64() >> 1), 0}}
}

// coin is a wallet output as derived from the node's ground truth.
type coin struct {
	op       wire.OutPoint
	value    int64
	pkScript []byte
	owner    issued
	height   int32 // -1: mempool
	coinbase bool
}

// coins derives the wallet's outputs from the node: outputs of best-chain and
// mempool transactions that pay to an address the wallet issued and that no
// best-chain or mempool transaction spends.
func (x *world) coins() map[wire.OutPoint]coin {
	out := map[wire.OutPoint]coin{}
	add := func(tx *wire.MsgTx, h int32) {
		id := tx.TxHash()
		for i, o := range tx.TxOut {
			idx, ok := x.byScript[string(o.PkScript)]
			if !ok {
				continue
			}
			op := wire.OutPoint{Hash: id, Index: uint32(i)}
			if _, spent := x.node.SpentBy(op); spent {
				continue
			}
			out[op] = coin{op: op, value: o.Value, pkScript: o.PkScript, owner: x.issuedAddrs[idx], height: h, coinbase: x.node.IsCoinbase(id)}
		}
	}
	for _, b := range x.node.Best {
		for _, tx := range b.Msg.Transactions {
			add(tx, b.Height)
		}
	}
	for _, tx := range x.node.Mempool {
		add(tx, -1)
	}
	return out
}

type seededShuffle struct{ r *core.Rand }

func (s seededShuffle) ArrangeCoins(c []wallet.Coin, _ btcutil.Amount) ([]wallet.Coin, error) {
	// canonical order first: the wallet hands the coins over in database order
	sort.Slice(c, func(i, j int) bool {
		if c[i].OutPoint.Hash != c[j].OutPoint.Hash {
			return c[i].OutPoint.Hash.String() < c[j].OutPoint.Hash.String()
		}
		return c[i].OutPoint.Index < c[j].OutPoint.Index
	})
	p := s.r.Perm(len(c))
	out := make([]wallet.Coin, len(c))
	for i, j := range p {
		out[i] = c[j]
	}
	return out, nil
}

// eligibility of one coin for a request, per the property text
func (x *world) ineligibleReason(c coin, scope *waddrmgr.KeyScope, account uint32, minconf int32, tip int32) string {
	if c.owner.account != account {
		return "other-account"
	}
	if scope != nil && c.owner.scope != *scope {
		return "other-scope"
	}
	if x.lockedOps[c.op] {
		return "locked"
	}
	if exp, ok := x.leases[c.op]; ok && time.Now().Before(exp) {
		return "leased"
	}
	conf := int32(0)
	if c.height >= 0 {
		conf = tip - c.height + 1
	}
	if conf < minconf {
		return "too-few-confirmations"
	}
	if c.coinbase && conf < int32(x.params.CoinbaseMaturity) {
		return "immature-coinbase"
	}
	return ""
}

type sentRec struct {
	tx        *wire.MsgTx
	call, ret int
	published bool
}

func (rs *runState) send6(task, step int, op core.Op) {
	x := rs.x
	env := x.env
	amount := op.Arg(0)
	if amount < 1000 {
		amount = 1000
	}
	minconf := int32(op.Arg(1))
	if minconf < 0 || minconf > 10 {
		minconf = 1
	}
	fee := btcutil.Amount(op.Arg(2))
	if fee < 1000 {
		fee = 1000
	}
	if fee > 200000 {
		fee = 200000
	}
	var scope *waddrmgr.KeyScope
	if op.Arg(3) >= 0 {
		s := scopes[int(uint64(op.Arg(3))%uint64(len(scopes)))]
		scope = &s
	}
	account := uint32(uint64(op.Arg(4)) % 2)
	if account == 1 && !x.haveAcct1 {
		account = 0
	}
	if account == 1 && scope == nil {
		// account numbers are per scope: account 1 exists in one scope only
		s := x.acct1Scope
		scope = &s
	}
	if account == 1 && *scope != x.acct1Scope {
		s := x.acct1Scope
		scope = &s
	}
	var strat wallet.CoinSelectionStrategy = wallet.CoinSelectionLargest
	if op.Arg(5)%2 == 1 {
		strat = seededShuffle{core.NewRand(uint64(op.Arg(9)) + 5)}
	}
	mode := int(uint64(op.Arg(6)) % 4)
	if task > 0 && mode > 1 {
		mode = 0
	}
	nout := int(op.Arg(8))
	if nout < 1 {
		nout = 1
	}
	if nout > 4 {
		nout = 4
	}
	var outs []*wire.TxOut
	for i := 0; i < nout; i++ {
		x.foreignN++
		outs = append(outs, &wire.TxOut{Value: amount + int64(i)*1000, PkScript: foreignScript(x.foreignN)})
	}
	tip := x.client.Best().Height
	coins := x.coins()
	concurrent := task > 0

	// explicit input selection
	var explicit []wire.OutPoint
	wantIneligible := ""
	if mode >= 2 {
		var elig, inel []coin
		var keys []wire.OutPoint
		for k := range coins {
			keys = append(keys, k)
		}
		sort.Slice(keys, func(i, j int) bool {
			if keys[i].Hash != keys[j].Hash {
				return keys[i].Hash.String() < keys[j].Hash.String()
			}
			return keys[i].Index < keys[j].Index
		})
		for _, k := range keys {
			if x.ineligibleReason(coins[k], scope, account, minconf, tip) == "" {
				elig = append(elig, coins[k])
			} else {
				inel = append(inel, coins[k])
			}
		}
		pick := int(uint64(op.Arg(7)))
		if mode == 2 {
			if len(elig) == 0 {
				return
			}
			c := elig[pick%len(elig)]
			explicit = []wire.OutPoint{c.op}
			if op.Arg(10) == 1 {
				// spend the coin whole: what is left after the fee is dust and
				// goes to the miner, so the payment has no output back to the
				// wallet
				if v := c.value - int64(fee)*130/1000 - 100; v > 2000 {
					x.foreignN++
					outs = []*wire.TxOut{{Value: v, PkScript: foreignScript(x.foreignN)}}
					env.Count("probe.send-without-change-requested")
				}
			}
		} else {
			// ineligible: a coin failing one filter, an already spent output, or
			// a foreign outpoint
			switch {
			case len(inel) > 0 && pick%4 != 3:
				c := inel[pick%len(inel)]
				explicit = []wire.OutPoint{c.op}
				wantIneligible = x.ineligibleReason(c, scope, account, minconf, tip)
			case len(x.sentAccepted) > 0 && pick%2 == 1:
				t := x.sentAccepted[pick%len(x.sentAccepted)]
				explicit = []wire.OutPoint{t.TxIn[0].PreviousOutPoint}
				wantIneligible = "already-spent"
			default:
				explicit = []wire.OutPoint{{Hash: chainhash.HashH([]byte(fmt.Sprint("nowhere", step))), Index: 0}}
				wantIneligible = "unknown-outpoint"
			}
			if len(elig) > 0 && pick%3 == 0 {
				explicit = append([]wire.OutPoint{elig[0].op}, explicit...)
			}
		}
	}

	call := simrt.Step()
	var tx *wire.MsgTx
	var err error
	kind := ""
	switch mode {
	case 0:
		kind = "SendOutputs"
		tx, err = x.w.SendOutputs(outs, scope, account, minconf, fee, strat, "")
	case 1:
		kind = "CreateSimpleTx-dry"
		var at interface{ GetTx() *wire.MsgTx }
		_ = at
		a, e := x.w.CreateSimpleTx(scope, account, outs, minconf, fee, strat, true)
		err = e
		if a != nil {
			tx = a.Tx
		}
	default:
		kind = "SendOutputsWithInput"
		tx, err = x.w.SendOutputsWithInput(outs, scope, account, minconf, fee, strat, "", explicit)
	}
	ret := simrt.Step()
	env.Count("op." + kind)
	env.Eff()
	if concurrent {
		env.Count("probe.two-senders-in-flight")
	}
	if wantIneligible != "" {
		env.Count("probe.explicit-ineligible:" + wantIneligible)
		if err == nil {
			x.fail("ineligible-explicit-input-accepted:"+wantIneligible, "SendOutputsWithInput accepted the explicitly selected input %v which is not eligible (%s) for scope=%v account=%d minconf=%d", explicit[len(explicit)-1], wantIneligible, scope, account, minconf)
		}
		return
	}
	if err != nil {
		env.Logf("%d t%d %s err=%v", step, task, kind, err)
		rs.errs["send"]++
		return
	}
	env.Logf("%d t%d %s ok tx=%s in=%d", step, task, kind, short(tx.TxHash()), len(tx.TxIn))
	sc := "nil"
	if scope != nil {
		sc = fmt.Sprint(scope.Purpose)
	}
	// requested outputs unchanged
	for _, o := range outs {
		found := false
		for _, t := range tx.TxOut {
			if t.Value == o.Value && scriptEq(t.PkScript, o.PkScript) {
				found = true
			}
		}
		if !found {
			x.fail("requested-output-changed:"+kind, "requested output (%d sat) is not in the created transaction", o.Value)
			return
		}
	}
	seen := map[wire.OutPoint]bool{}
	var inSum int64
	prevOuts := map[wire.OutPoint]*wire.TxOut{}
	for _, in := range tx.TxIn {
		opnt := in.PreviousOutPoint
		if seen[opnt] {
			x.fail("input-used-twice:"+kind, "output %v is used twice in one transaction", opnt)
			return
		}
		seen[opnt] = true
		c, ok := coins[opnt]
		if !ok {
			// not an unspent own coin at the linearisation point the harness
			// can reconstruct: classify
			if concurrent {
				// another sender of the section may have created it (change) or
				// spent it meanwhile: decided by the cross-transaction check below
				if to := x.node.TxOut(opnt); to != nil {
					prevOuts[opnt] = to
					inSum += to.Value
				}
				continue
			}
			// The wallet may legitimately know an unconfirmed transaction the
			// node has dropped from its mempool (after a reorg a transaction
			// spending a coinbase that is immature again is evicted by the node
			// but stays recorded in the wallet until a conflict confirms). Its
			// outputs are wallet credits with zero confirmations; judge them on
			// the wallet's own record.
			if to := x.node.TxOut(opnt); to != nil && !x.node.Known(opnt.Hash) && x.txHeightInWallet(opnt.Hash) == -1 {
				if idx, own := x.byScript[string(to.PkScript)]; own {
					c := coin{op: opnt, value: to.Value, pkScript: to.PkScript, owner: x.issuedAddrs[idx], height: -1}
					env.Count("probe.input-from-tx-the-node-dropped")
					if why := x.ineligibleReason(c, scope, account, minconf, tip); why != "" {
						x.fail("ineligible-input:"+why+":"+kind, "%s(scope=%s account=%d minconf=%d) spends %v (unconfirmed, parent evicted by the node) which is not eligible: %s", kind, sc, account, minconf, opnt, why)
						return
					}
					prevOuts[opnt] = to
					inSum += to.Value
					continue
				}
			}
			why := "unknown-output"
			if to := x.node.TxOut(opnt); to != nil {
				if _, own := x.byScript[string(to.PkScript)]; !own {
					why = "not-a-wallet-output"
				} else if sp, spent := x.node.SpentBy(opnt); spent {
					why = "already-spent-by-" + map[bool]string{true: "confirmed", false: "unconfirmed"}[x.node.Confirmed(sp) >= 0]
				}
			}
			x.fail("ineligible-input:"+why+":"+kind+x.lostSpender(opnt), "%s(scope=%s account=%d minconf=%d) spends %v which is not a currently unspent wallet output (%s)", kind, sc, account, minconf, opnt, why)
			return
		}
		prevOuts[opnt] = &wire.TxOut{Value: c.value, PkScript: c.pkScript}
		inSum += c.value
		if !concurrent {
			if why := x.ineligibleReason(c, scope, account, minconf, tip); why != "" {
				x.fail("ineligible-input:"+why+":"+kind, "%s(scope=%s account=%d minconf=%d) spends %v (owner scope %d account %d, height %d, coinbase %v, tip %d) which is not eligible: %s",
					kind, sc, account, minconf, opnt, c.owner.scope.Purpose, c.owner.account, c.height, c.coinbase, tip, why)
				return
			}
		}
		// probes: how close to the boundary was the selection
		if c.coinbase {
			env.Count("probe.spent-mature-coinbase")
		}
		if c.height < 0 {
			env.Count("probe.spent-unconfirmed-coin")
		}
	}
	// once a created transaction has been published, no later one reuses its inputs
	for _, prev := range rs.sent6 {
		if !prev.published || prev.ret > call {
			continue // not (yet) published when this request started
		}
		if !x.node.Known(prev.tx.TxHash()) {
			// the earlier transaction no longer exists anywhere (a reorg removed
			// a coinbase it depended on, or a conflicting transaction confirmed):
			// its other inputs are legitimately spendable again
			continue
		}
		for _, pin := range prev.tx.TxIn {
			if seen[pin.PreviousOutPoint] {
				ph := prev.tx.TxHash()
				state := "unknown to the wallet"
				if sn, e := x.snap(); e == nil && sn.unmined[ph] {
					state = "recorded as unconfirmed by the wallet"
				} else if d := x.txHeightInWallet(ph); d != -2 {
					state = fmt.Sprintf("recorded by the wallet at height %d", d)
				}
				x.fail("input-reused-after-publish:"+kind+x.lostSpender(pin.PreviousOutPoint), "input %v of the already published tx %s is used again by %s (the earlier tx is %s; node: mempool=%v confirmed=%d)",
					pin.PreviousOutPoint, short(ph), short(tx.TxHash()), state, x.node.InMempool(ph), x.node.Confirmed(ph))
				return
			}
		}
	}
	if mode != 1 {
		rs.sent6 = append(rs.sent6, sentRec{tx: tx, call: call, ret: ret, published: true})
		x.sent = append(x.sent, tx)
		if x.node.Known(tx.TxHash()) {
			x.sentAccepted = append(x.sentAccepted, tx)
		}
		// change outputs become own coins
		for _, o := range tx.TxOut {
			if a := addrOfScript(o.PkScript, x); a != nil {
				for _, s := range scopes {
					for acct := uint32(0); acct < 2; acct++ {
						if _, _, ok := x.resolve(s, acct, a, 64); ok {
							x.record(a, s, acct, "change")
						}
					}
				}
			}
		}
		// every input carries a signature that verifies under standard rules
		if len(prevOuts) == len(tx.TxIn) {
			fetcher := txscript.NewMultiPrevOutFetcher(prevOuts)
			hc := txscript.NewTxSigHashes(tx, fetcher)
			for i, in := range tx.TxIn {
				po := prevOuts[in.PreviousOutPoint]
				vm, err := txscript.NewEngine(po.PkScript, tx, i, txscript.StandardVerifyFlags, nil, hc, po.Value, fetcher)
				if err == nil {
					err = vm.Execute()
				}
				if err != nil {
					x.fail("invalid-signature:"+txscript.GetScriptClass(po.PkScript).String(), "input %d of %s does not verify under standard script rules: %v", i, short(tx.TxHash()), err)
					return
				}
				env.Count("probe.verified:" + txscript.GetScriptClass(po.PkScript).String())
			}
			// conservation and fee floor (side conditions; not a C07 claim)
			var outSum int64
			for _, o := range tx.TxOut {
				outSum += o.Value
			}
			paid := inSum - outSum
			vsize := mempool.GetTxVirtualSize(btcutil.NewTx(tx))
			_ = blockchain.GetTransactionWeight
			if paid < 0 || paid*1000 < int64(fee)*vsize {
				x.fail("fee-below-requested-rate", "tx %s pays %d sat for %d vbytes, requested %d sat/kvB", short(tx.TxHash()), paid, vsize, fee)
				return
			}
		}
	}
	_ = wtxmgr.LockID{}
}

// lockop: LockOutpoint / UnlockOutpoint on one of the wallet's coins.
func (rs *runState) lockop(step int, op core.Op) {
	x := rs.x
	coins := x.coins()
	if len(coins) == 0 {
		return
	}
	var keys []wire.OutPoint
	for k := range coins {
		keys = append(keys, k)
	}
	sort.Slice(keys, func(i, j int) bool {
		if keys[i].Hash != keys[j].Hash {
			return keys[i].Hash.String() < keys[j].Hash.String()
		}
		return keys[i].Index < keys[j].Index
	})
	k := keys[int(uint64(op.Arg(0))%uint64(len(keys)))]
	if op.Arg(1)%2 == 0 {
		x.w.LockOutpoint(k)
		x.lockedOps[k] = true
		x.env.Count("op.LockOutpoint")
	} else {
		x.w.UnlockOutpoint(k)
		delete(x.lockedOps, k)
		x.env.Count("op.UnlockOutpoint")
	}
	x.env.Eff()
}

// txHeightInWallet returns the height the wallet records for a transaction
// (-1 unconfirmed, -2 unknown).
func (x *world) txHeightInWallet(h chainhash.Hash) int32 {
	out := int32(-2)
	_ = walletdb.View(x.w.Database(), func(tx walletdb.ReadTx) error {
		d, err := x.w.TxStore.TxDetails(tx.ReadBucket(wtxmgrNS), &h)
		if err == nil && d != nil {
			out = d.Block.Height
		}
		return nil
	})
	return out
}

// importdry: ImportAccountDryRun of a foreign account key (a preview that is
// always rolled back) in the given scope.
func (rs *runState) importdry(step int, op core.Op) {
	x := rs.x
	sc := scopes[int(uint64(op.Arg(0))%uint64(len(scopes)))]
	var at waddrmgr.AddressType
	switch sc {
	case waddrmgr.KeyScopeBIP0084:
		at = waddrmgr.WitnessPubKey
	case waddrmgr.KeyScopeBIP0049Plus:
		at = waddrmgr.NestedWitnessPubKey
	case waddrmgr.KeyScopeBIP0086:
		at = waddrmgr.TaprootPubKey
	default:
		return
	}
	fseed := core.NewRand(core.Mix(x.p.Seed, 0xf0e1)).Bytes(32)
	k, err := hdkeychain.NewMaster(fseed, x.params)
	if err != nil {
		return
	}
	for _, i := range []uint32{sc.Purpose + hdkeychain.HardenedKeyStart, sc.Coin + hdkeychain.HardenedKeyStart, hdkeychain.HardenedKeyStart} {
		if k, err = k.Derive(i); err != nil {
			return
		}
	}
	xpub, err := k.Neuter()
	if err != nil {
		return
	}
	n := uint32(op.Arg(1))
	if n < 1 || n > 5 {
		n = 2
	}
	_, _, _, err = x.w.ImportAccountDryRun("preview", xpub, 0, &at, n)
	x.env.Count("op.ImportAccountDryRun")
	x.env.Eff()
	if err != nil {
		x.env.Logf("%d importdry err=%v", step, err)
		return
	}
	x.env.Count("probe.account-import-preview")
	x.env.Logf("%d importdry scope=%d ok", step, sc.Purpose)
}

// lostSpender names one specific circumstance in the signature of a reuse
// violation (so that it can be listed as a known finding without covering
// others): the output's spender S is confirmed on the node's best chain, pays
// nothing to the wallet, is unknown to the wallet, was confirmed when the
// wallet was last started and was un-confirmed by a reorg since. The watch
// list the wallet hands its backend at start-up (OutputsToWatch) does not
// contain outputs spent by confirmed transactions, chain.Interface has no call
// to add outpoints later, so when the reorg confirms S again in another block
// a backend that matches spends by outpoint (or cannot derive the script from
// the witness: taproot key spends) never reports it; at the next restart the
// re-broadcast of the "unconfirmed" S is answered "already confirmed", the
// wallet drops S and offers its input again.
func (x *world) lostSpender(op wire.OutPoint) string {
	sp, spent := x.node.SpentBy(op)
	if !spent || x.node.Confirmed(sp) < 0 || !x.unconfirmedByReorgAfterStart[sp] {
		return ""
	}
	if x.txHeightInWallet(sp) != -2 {
		return ""
	}
	tx := x.node.Tx(sp)
	if tx == nil {
		return ""
	}
	for _, o := range tx.TxOut {
		if _, own := x.byScript[string(o.PkScript)]; own {
			return ""
		}
	}
	return ":spender-without-change-unconfirmed-by-a-reorg-after-restart"
}
