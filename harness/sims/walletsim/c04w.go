package walletsim

import (
	"bytes"
	"fmt"

	"github.com/btcsuite/btcd/btcutil"
	"github.com/btcsuite/btcd/btcutil/hdkeychain"
	"github.com/btcsuite/btcwallet/waddrmgr"

	"verifsim/core"
)

// C04 at wallet level: the conversion to watching-only through the wallet's
// own entry point (Wallet.InitAccounts(scope, watchOnly=true, n)), then a
// reopen: every issued address is still known, no passphrase unlocks the
// wallet, no call returns private material, and the database image holds none
// of the run's secrets. (The file-image scan for the whole operation mix of
// the address manager is addrsim's part of C04.)

func genC04w(r *core.Rand, p *core.Plan) {
	p.Sched = "rtb0"
	n := r.Range(2, 6)
	for i := 0; i < n; i++ {
		p.Ops = append(p.Ops, core.Op{K: "newaddr", A: []int64{int64(r.Intn(4)), 0, int64(r.Intn(2))}})
	}
	sc := int64(r.Intn(4))
	if r.Chance(2, 3) {
		// accounts created first, conversion requested in a later call
		p.Ops = append(p.Ops, core.Op{K: "initaccts", A: []int64{sc, 0, int64(r.Range(1, 3))}})
	}
	if r.Chance(1, 2) {
		p.Ops = append(p.Ops, core.Op{K: "fund", A: []int64{int64(r.Intn(4)), int64(r.Range(2, 50)) * 1e6}})
		p.Ops = append(p.Ops, core.Op{K: "mine", A: []int64{1, 100, -1, 600, int64(r.Uint64() >> 1)}})
		p.Ops = append(p.Ops, core.Op{K: "sync"})
	}
	if r.Chance(1, 2) {
		sc = int64(r.Intn(4))
	}
	p.Ops = append(p.Ops, core.Op{K: "initaccts", A: []int64{sc, 1, int64(r.Range(0, 4))}})
	p.Ops = append(p.Ops, core.Op{K: "reopencheck"})
}

func (rs *runState) initaccts(step int, op core.Op) {
	x := rs.x
	sc := scopes[int(uint64(op.Arg(0))%uint64(len(scopes)))]
	sm, err := x.w.Manager.FetchScopedKeyManager(sc)
	if err != nil {
		return
	}
	watch := op.Arg(1)%2 == 1
	n := uint32(op.Arg(2))
	if n > 5 {
		n = 5
	}
	err = x.w.InitAccounts(sm, watch, n)
	x.env.Count("op.InitAccounts")
	x.env.Eff()
	x.env.Logf("%d initaccts scope=%d watch=%v n=%d err=%v", step, sc.Purpose, watch, n, err)
	if err != nil {
		return
	}
	if watch {
		x.convertRequested = true
		x.env.Count("probe.wallet-level-conversion")
		if n > 0 {
			x.env.Count("probe.conversion-with-accounts-requested")
		}
	}
}

// secretPatterns lists the byte patterns (>= 16 bytes) that must never be in
// the file: seed, master/coin-type/account extended private keys (serialised
// and raw), private keys of issued addresses (raw and WIF), the passphrase.
func (x *world) secretPatterns() map[string][]byte {
	out := map[string][]byte{"seed": x.seed, "master-xprv": []byte(x.root.String())}
	if len(x.privPass) >= 16 {
		out["private-passphrase"] = x.privPass
	}
	raw := func(k *hdkeychain.ExtendedKey) []byte {
		pk, err := k.ECPrivKey()
		if err != nil {
			return nil
		}
		return pk.Serialize()
	}
	out["master-key-raw"] = raw(x.root)
	for _, s := range scopes {
		cur := x.root
		ok := true
		for lvl, i := range []uint32{s.Purpose + hdkeychain.HardenedKeyStart, s.Coin + hdkeychain.HardenedKeyStart, hdkeychain.HardenedKeyStart} {
			n, err := cur.DeriveNonStandard(i) // nolint
			if err != nil {
				ok = false
				break
			}
			cur = n
			if lvl >= 1 {
				out[fmt.Sprintf("xprv-%d-level%d", s.Purpose, lvl+1)] = []byte(cur.String())
				out[fmt.Sprintf("key-%d-level%d", s.Purpose, lvl+1)] = raw(cur)
			}
		}
		_ = ok
	}
	for i, is := range x.issuedAddrs {
		bk, err := x.branchKey(is.scope, is.account, is.branch)
		if err != nil {
			continue
		}
		ck, err := bk.DeriveNonStandard(is.index) // nolint
		if err != nil {
			continue
		}
		pk, err := ck.ECPrivKey()
		if err != nil {
			continue
		}
		out[fmt.Sprintf("address-privkey-%d", i)] = pk.Serialize()
		if wif, err := btcutil.NewWIF(pk, x.params, true); err == nil {
			out[fmt.Sprintf("address-wif-%d", i)] = []byte(wif.String())
		}
	}
	return out
}

// reopencheck: stop, reopen, and check the watching-only half of C04.
func (rs *runState) reopencheck(step int, op core.Op) {
	x := rs.x
	env := x.env
	if !x.running || !x.convertRequested {
		return
	}
	x.stop()
	if err := x.reopen(); err != nil {
		x.fail("restart-failed", "cannot reopen after the conversion: %v", err)
		return
	}
	env.Count("probe.reopened-after-conversion")
	env.Eff()
	if !x.w.Manager.WatchOnly() {
		x.fail("not-watching-only-after-conversion", "Wallet.InitAccounts(…, watchOnly=true, …) returned nil but the reopened wallet is not watching-only")
		return
	}
	if err := x.w.Unlock(x.privPass, nil); err == nil {
		x.fail("unlock-succeeds-after-conversion", "the private passphrase still unlocks the wallet after conversion to watching-only")
		return
	} else if !waddrmgr.IsError(err, waddrmgr.ErrWatchingOnly) {
		env.Count("obs.unlock-error-other-than-watching-only")
	}
	for _, is := range x.issuedAddrs {
		have, err := x.w.HaveAddress(is.addr)
		if err != nil || !have {
			x.fail("address-forgotten-after-conversion", "issued address %s is unknown after conversion and reopen (err=%v)", is.addr, err)
			return
		}
		if k, err := x.w.PrivKeyForAddress(is.addr); err == nil && k != nil {
			x.fail("private-key-returned-after-conversion:accessor=PrivKeyForAddress", "PrivKeyForAddress(%s) returns a key after conversion", is.addr)
			return
		}
		if s, err := x.w.DumpWIFPrivateKey(is.addr); err == nil && s != "" {
			x.fail("private-key-returned-after-conversion:accessor=DumpWIFPrivateKey", "DumpWIFPrivateKey(%s) returns a key after conversion", is.addr)
			return
		}
	}
	img, err := x.db.Image()
	if err != nil {
		x.fail("query-failed", "image: %v", err)
		return
	}
	pats := x.secretPatterns()
	for _, name := range core.SortedKeys(pats) {
		pat := pats[name]
		if len(pat) < 16 {
			continue
		}
		if bytes.Contains(img, pat) {
			kind := name
			for i, c := range name {
				if c >= '0' && c <= '9' {
					kind = name[:i]
					break
				}
			}
			x.fail("clear-text-secret-in-file:kind="+core.SigSafe(kind), "the database image contains the %s in the clear after conversion to watching-only", name)
			return
		}
	}
	env.Add("probe.secret-patterns-scanned", int64(len(pats)))
	env.State("c04w:%d", len(x.issuedAddrs))
}
