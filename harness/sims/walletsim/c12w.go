package walletsim

import (
	"fmt"
	"sort"
	"time"

	"github.com/btcsuite/btcd/btcutil"
	"github.com/btcsuite/btcd/chaincfg/chainhash"
	"github.com/btcsuite/btcd/wire"
	"github.com/btcsuite/btcwallet/wallet"
	"github.com/btcsuite/btcwallet/wtxmgr"

	"verifsim/core"
	"verifsim/faultdb"
	"verifsim/simchain"
	"verifsim/simrt"
)

// C12 at wallet level. ledgersim decides the lease rules for wtxmgr.Store on
// histories it feeds to the store; what the wallet adds is how it LEARNS of
// the events that end a lease: "a confirmed spend of the output removes the
// lease" presupposes that the wallet hears of the spend, also when it was
// down while the spend confirmed and the spending transaction pays nothing
// back to it (only the outpoints the wallet asks its backend to watch tell it).
//
// Workload: receipts on the four address types, leases through
// Wallet.LeaseOutput under two identifiers, releases, the clock, blocks,
// restarts, and spends "from outside": a signed transaction the wallet built
// (CreateSimpleTx with the leased coin as its only input and no change) is
// handed to the node by someone else, while the wallet is up or down.
//
// Oracle at synchronised points, per outpoint the harness leased:
//
//	spent on the node's best chain  not listed as leased, not spendable
//	unspent, lease not expired      listed as leased (right id and expiry),
//	                                 absent from ListUnspent, refused to the
//	                                 other identifier
//	unspent, expired or released    not listed as leased, spendable again

type lease12 struct {
	id       wtxmgr.LockID
	expiry   time.Time
	released bool
}

func genC12w(r *core.Rand, p *core.Plan) {
	p.Sched = []string{"rtb0", "rtb1", "random"}[r.Intn(3)]
	p.Cfg["maturity"] = 1
	if r.Chance(1, 2) {
		p.Cfg["btcd_rescan"] = 1
	}
	for sc := 0; sc < 4; sc++ {
		p.Ops = append(p.Ops, core.Op{K: "newaddr", A: []int64{int64(sc), 0, 0}})
	}
	for i := 0; i < r.Range(3, 7); i++ {
		p.Ops = append(p.Ops, core.Op{K: "fund", A: []int64{int64(r.Intn(4)), int64(r.Range(2, 60)) * 1e6}})
	}
	p.Ops = append(p.Ops, core.Op{K: "mine", A: []int64{1, 100, -1, 600, int64(r.Uint64() >> 1)}}, core.Op{K: "sync"})
	n := r.Range(5, 16)
	if p.Cfg["thorough"] == 1 {
		n = r.Range(10, 36)
	}
	for i := 0; i < n; i++ {
		switch r.Weighted([]int{24, 8, 8, 14, 8, 10, 6, 8, 8, 8}) {
		case 9:
			// a lease beside a coin selection that would take the same coin
			// (each side starts after a seeded number of scheduling points,
			// so that every relative offset of the two calls is sampled)
			dl, ds := int64(0), int64(0)
			if r.Chance(1, 2) {
				ds = int64(r.Intn(40))
			} else {
				dl = int64(r.Intn(25))
			}
			p.Ops = append(p.Ops, core.Op{K: "leaserace", A: []int64{int64(r.Intn(2)), dl, ds}})
		case 0:
			p.Ops = append(p.Ops, core.Op{K: "lease12", A: []int64{int64(r.Intn(12)), int64(r.Intn(2)), int64(r.Range(60, 6000))}})
		case 1:
			p.Ops = append(p.Ops, core.Op{K: "release12", A: []int64{int64(r.Intn(12)), int64(r.Intn(3))}})
		case 2:
			p.Ops = append(p.Ops, core.Op{K: "clock", A: []int64{int64(r.Range(30, 4000))}})
		case 3:
			// the leased coin is spent by a transaction handed to the node by
			// someone else, here while the wallet is up
			p.Ops = append(p.Ops, core.Op{K: "spendoutside", A: []int64{int64(r.Intn(12)), int64(r.Range(1, 20)) * 1000}})
			if r.Chance(2, 3) {
				p.Ops = append(p.Ops, core.Op{K: "mine", A: []int64{1, 100, -1, 600, int64(r.Uint64() >> 1)}})
			}
			p.Ops = append(p.Ops, core.Op{K: "sync"})
		case 4:
			// ... and here while it is down
			p.Ops = append(p.Ops, core.Op{K: "lease12", A: []int64{int64(r.Intn(12)), int64(r.Intn(2)), int64(r.Range(600, 6000))}})
			p.Ops = append(p.Ops, core.Op{K: "buildwhole", A: []int64{int64(r.Intn(12)), int64(r.Range(1, 20)) * 1000}})
			p.Ops = append(p.Ops, core.Op{K: "stop"}, core.Op{K: "submitbuilt"},
				core.Op{K: "mine", A: []int64{1, 100, -1, 600, int64(r.Uint64() >> 1)}}, core.Op{K: "start"}, core.Op{K: "sync"})
		case 8:
			// a leased output of an unconfirmed payment that is then replaced
			// by a conflicting confirmed one: its lease record outlives it
			p.Ops = append(p.Ops, core.Op{K: "fund", A: []int64{int64(r.Intn(4)), int64(r.Range(2, 60)) * 1e6}}, core.Op{K: "sync"},
				core.Op{K: "lease12", A: []int64{int64(r.Intn(12)), int64(r.Intn(2)), int64(r.Range(600, 6000)), 1}},
				core.Op{K: "lease12", A: []int64{int64(r.Intn(12)), int64(r.Intn(2)), int64(r.Range(600, 6000))}},
				core.Op{K: "replacefund", A: []int64{int64(r.Intn(4)), int64(r.Intn(4))}}, core.Op{K: "sync"})
		case 5:
			p.Ops = append(p.Ops, core.Op{K: "mine", A: []int64{1, 100, -1, 600, int64(r.Uint64() >> 1)}}, core.Op{K: "sync"})
		case 6:
			p.Ops = append(p.Ops, core.Op{K: "stop"}, core.Op{K: "start"}, core.Op{K: "sync"})
		case 7:
			p.Ops = append(p.Ops, core.Op{K: "fund", A: []int64{int64(r.Intn(4)), int64(r.Range(2, 60)) * 1e6}})
		}
	}
	p.Ops = append(p.Ops, core.Op{K: "sync"})
}

// sortedCoins lists the wallet's coins as the node sees them, in a fixed order.
func (x *world) sortedCoins() []coin {
	cs := x.coins()
	keys := make([]wire.OutPoint, 0, len(cs))
	for k := range cs {
		keys = append(keys, k)
	}
	sort.Slice(keys, func(i, j int) bool {
		if keys[i].Hash != keys[j].Hash {
			return keys[i].Hash.String() < keys[j].Hash.String()
		}
		return keys[i].Index < keys[j].Index
	})
	out := make([]coin, 0, len(keys))
	for _, k := range keys {
		out = append(out, cs[k])
	}
	return out
}

func (rs *runState) lease12(step int, op core.Op) {
	x := rs.x
	// among the coins the wallet itself knows and offers, plus the ones the
	// harness leased before (to try the other identifier on them)
	var cs []coin
	sn, err0 := x.snap()
	if err0 != nil {
		return
	}
	for _, c := range x.sortedCoins() {
		_, offered := sn.unspent[c.op]
		_, leasedBefore := x.leases12[c.op]
		if offered || leasedBefore {
			cs = append(cs, c)
		}
	}
	if op.Arg(3) == 1 {
		// prefer a coin of a still unconfirmed payment
		var un []coin
		for _, c := range cs {
			if c.height < 0 {
				un = append(un, c)
			}
		}
		if len(un) > 0 {
			cs = un
		}
	}
	if len(cs) == 0 {
		return
	}
	c := cs[int(uint64(op.Arg(0))%uint64(len(cs)))]
	id := wtxmgr.LockID{byte(1 + op.Arg(1)%2)}
	d := time.Duration(op.Arg(2)) * time.Second
	if d < time.Second {
		d = time.Second
	}
	exp, err := x.w.LeaseOutput(id, c.op, d)
	x.env.Count("op.LeaseOutput")
	x.env.Eff()
	x.env.Logf("%d lease12 %v id=%d for %v err=%v", step, c.op, id[0], d, err)
	cur, held := x.leases12[c.op]
	active := held && !cur.released && time.Now().Before(cur.expiry)
	if err != nil {
		if !active || cur.id == id {
			x.fail("c12w:lease-refused", "LeaseOutput(%v, id %d) failed although the output is not leased to another identifier: %v", c.op, id[0], err)
		}
		return
	}
	if active && cur.id != id {
		x.fail("c12w:lease-stolen", "LeaseOutput(%v) succeeded for identifier %d while it is leased to %d until %v", c.op, id[0], cur.id[0], cur.expiry)
		return
	}
	x.leases12[c.op] = lease12{id: id, expiry: exp}
}

// leaserace: LeaseOutput on the coin a largest-first coin selection would
// take, beside a (dry-run) CreateSimpleTx, both under the scheduler. The two
// calls overlap, so either order is a legal outcome — except one that the
// database itself witnesses: if the lease's transaction had COMMITTED before
// the selecting call's write transaction BEGAN, the selection ran on a state
// in which the output was leased and must not have taken it.
func (rs *runState) leaserace(step int, op core.Op) {
	x := rs.x
	sn, err0 := x.snap()
	if err0 != nil {
		return
	}
	var best coin
	found := false
	for _, c := range x.sortedCoins() {
		if _, offered := sn.unspent[c.op]; !offered || c.height < 0 {
			continue
		}
		if cur, held := x.leases12[c.op]; held && !cur.released && time.Now().Before(cur.expiry) {
			continue
		}
		if !found || c.value > best.value {
			best, found = c, true
		}
	}
	if !found {
		return
	}
	type ev struct{ task, site string }
	var evs []ev
	oldY, oldC := x.db.Yield, x.db.AfterCommit
	x.db.Yield = func(site string) {
		evs = append(evs, ev{simrt.TaskID(), site})
		if oldY != nil {
			oldY(site)
		}
	}
	x.db.AfterCommit = func(d *faultdb.DB) {
		evs = append(evs, ev{simrt.TaskID(), "committed"})
		if oldC != nil {
			oldC(d)
		}
	}
	defer func() { x.db.Yield, x.db.AfterCommit = oldY, oldC }()
	id := wtxmgr.LockID{byte(1 + uint64(op.Arg(0))%2)}
	var (
		lerr, serr error
		exp        time.Time
		spends     bool
		lt, st     string
		done       int
	)
	rs.section++
	simrt.GoNamed(fmt.Sprintf("lease.%d", rs.section), func() {
		defer func() { done++ }()
		lt = simrt.TaskID()
		for i := int64(0); i < op.Arg(1); i++ {
			simrt.Yield("harness:lease-later")
		}
		exp, lerr = x.w.LeaseOutput(id, best.op, time.Hour)
	})
	simrt.GoNamed(fmt.Sprintf("select.%d", rs.section), func() {
		defer func() { done++ }()
		st = simrt.TaskID()
		for i := int64(0); i < op.Arg(2); i++ {
			simrt.Yield("harness:select-later")
		}
		x.foreignN++
		outs := []*wire.TxOut{{Value: 10000, PkScript: foreignScript(x.foreignN)}}
		at, err := x.w.CreateSimpleTx(nil, 0, outs, 1, 1000, wallet.CoinSelectionLargest, true)
		serr = err
		if err == nil && at != nil {
			for _, in := range at.Tx.TxIn {
				if in.PreviousOutPoint == best.op {
					spends = true
				}
			}
		}
	})
	if !x.quiesce(func() bool { return done == 2 }, time.Hour) && !x.violated {
		x.fail("c12w:stuck:lease-beside-selection", "LeaseOutput and CreateSimpleTx did not both return: %v", simrt.Alive())
		return
	}
	x.env.Count("op.LeaseOutput")
	x.env.Count("probe.c12w-lease-beside-coin-selection")
	x.env.Eff()
	x.env.Logf("%d leaserace %v lease err=%v select err=%v spends=%v", step, best.op, lerr, serr, spends)
	if lerr != nil {
		x.fail("c12w:lease-refused", "LeaseOutput(%v, id %d) beside a dry-run CreateSimpleTx failed although the output is not leased to another identifier: %v", best.op, id[0], lerr)
		return
	}
	x.leases12[best.op] = lease12{id: id, expiry: exp}
	leaseCommitted, selectBegan := -1, -1
	others := map[string]bool{}
	for i, e := range evs {
		if e.task != lt && e.site == "update.begin" {
			others[e.task] = true
		}
		if e.task == lt && e.site == "committed" && leaseCommitted < 0 {
			leaseCommitted = i
		}
		// CreateSimpleTx is served by the wallet's transaction-creator
		// goroutine: the selecting transaction is the read-write transaction
		// begun by any task other than the leasing one
		if e.task != lt && e.site == "update.begin" {
			selectBegan = i
		}
	}
	_ = st
	if len(others) != 1 {
		// some other goroutine of the wallet wrote to the database meanwhile:
		// which transaction was the selecting one cannot be told
		x.env.Count("probe.c12w-lease-beside-selection:no-verdict")
		return
	}
	if leaseCommitted >= 0 && selectBegan >= 0 && leaseCommitted < selectBegan {
		x.env.Count("probe.c12w-lease-committed-before-the-selecting-transaction-began")
		if spends {
			x.fail("c12w:leased-output-selected:lease-committed-before-the-selecting-transaction-began", "the lease on %v (id %d) was committed before CreateSimpleTx began its database transaction, and the transaction it built spends that output", best.op, id[0])
		}
	} else if spends {
		x.env.Count("probe.c12w-selection-before-the-lease")
	}
}

func (rs *runState) release12(step int, op core.Op) {
	x := rs.x
	var ops []wire.OutPoint
	for o := range x.leases12 {
		ops = append(ops, o)
	}
	if len(ops) == 0 {
		return
	}
	sort.Slice(ops, func(i, j int) bool { return ops[i].String() < ops[j].String() })
	o := ops[int(uint64(op.Arg(0))%uint64(len(ops)))]
	cur := x.leases12[o]
	id := cur.id
	foreign := op.Arg(1)%3 == 2
	if foreign {
		id = wtxmgr.LockID{byte(3 - cur.id[0])}
	}
	err := x.w.ReleaseOutput(id, o)
	x.env.Count("op.ReleaseOutput")
	x.env.Eff()
	active := !cur.released && time.Now().Before(cur.expiry)
	if _, spent := x.node.SpentBy(o); spent {
		// what a release of a spent output answers is not prescribed; a
		// release that was accepted is a release all the same
		if err == nil && !foreign {
			cur.released = true
			x.leases12[o] = cur
		}
		return
	}
	if foreign && active {
		if err == nil {
			x.fail("c12w:released-by-other-identifier", "ReleaseOutput(%v) succeeded under identifier %d while it is leased to %d", o, id[0], cur.id[0])
		}
		return
	}
	if err == nil && !foreign {
		cur.released = true
		x.leases12[o] = cur
	}
}

// buildwhole: a signed transaction spending one coin whole (no change), not
// published by the wallet.
func (rs *runState) buildwhole(step int, op core.Op) *wire.MsgTx {
	x := rs.x
	var cand []coin
	for _, c := range x.sortedCoins() {
		if l, ok := x.leases12[c.op]; ok && !l.released && time.Now().Before(l.expiry) && c.height >= 0 {
			cand = append(cand, c)
		}
	}
	if len(cand) == 0 {
		return nil
	}
	c := cand[int(uint64(op.Arg(0))%uint64(len(cand)))]
	fee := btcutil.Amount(op.Arg(1))
	if fee < 1000 {
		fee = 1000
	}
	v := c.value - int64(fee)*130/1000 - 100
	if v < 2000 {
		return nil
	}
	// the holder of the lease spends its own coin: release, build, lease again
	l := x.leases12[c.op]
	if err := x.w.ReleaseOutput(l.id, c.op); err != nil {
		return nil
	}
	x.foreignN++
	outs := []*wire.TxOut{{Value: v, PkScript: foreignScript(x.foreignN)}}
	at, err := x.w.CreateSimpleTx(&c.owner.scope, c.owner.account, outs, 1, fee, wallet.CoinSelectionLargest, false,
		wallet.WithCustomSelectUtxos([]wire.OutPoint{c.op}))
	exp, lerr := x.w.LeaseOutput(l.id, c.op, time.Until(l.expiry))
	if lerr == nil {
		x.leases12[c.op] = lease12{id: l.id, expiry: exp}
	}
	x.env.Count("op.CreateSimpleTx")
	x.env.Eff()
	if err != nil {
		x.env.Logf("%d buildwhole %v err=%v", step, c.op, err)
		return nil
	}
	for _, o := range at.Tx.TxOut {
		if _, mine := x.byScript[string(o.PkScript)]; mine {
			x.env.Count("probe.c12w-built-with-change")
		}
	}
	x.builtWhole = at.Tx
	x.env.Logf("%d buildwhole %v -> %s (%d outputs)", step, c.op, short(at.Tx.TxHash()), len(at.Tx.TxOut))
	return at.Tx
}

func (rs *runState) submitbuilt(step int) {
	x := rs.x
	if x.builtWhole == nil {
		return
	}
	tx := x.builtWhole
	x.builtWhole = nil
	if err := x.node.Accept(tx); err != nil {
		x.env.Logf("%d submitbuilt rejected by the node: %v", step, err)
		return
	}
	x.env.Count("probe.c12w-leased-coin-spent-outside")
	if !x.running {
		x.env.Count("probe.c12w-spent-outside-while-wallet-down")
	}
	x.env.Eff()
}

func (x *world) checkC12w(label string) {
	if !x.running || x.violated {
		return
	}
	leased, err := x.w.ListLeasedOutputs()
	if err != nil {
		x.fail("c12w:store-error:ListLeasedOutputs", "%v", err)
		return
	}
	listed := map[wire.OutPoint]*wtxmgr.LockedOutput{}
	for _, l := range leased {
		listed[l.Outpoint] = l.LockedOutput
	}
	unspent, err := x.w.ListUnspent(0, 9999999, "")
	if err != nil {
		x.fail("c12w:store-error:ListUnspent", "%v", err)
		return
	}
	spendable := map[wire.OutPoint]bool{}
	for _, u := range unspent {
		h, err := chainhash.NewHashFromStr(u.TxID)
		if err == nil {
			spendable[wire.OutPoint{Hash: *h, Index: u.Vout}] = true
		}
	}
	var ops []wire.OutPoint
	for o := range x.leases12 {
		ops = append(ops, o)
	}
	sort.Slice(ops, func(i, j int) bool { return ops[i].String() < ops[j].String() })
	x.env.Count("probe.c12w-checked")
	for _, o := range ops {
		l := x.leases12[o]
		spender, spent := x.node.SpentBy(o)
		confirmedSpend := spent && x.node.Confirmed(spender) >= 0
		active := !l.released && time.Now().Before(l.expiry)
		if x.node.Confirmed(o.Hash) < 0 && !x.node.InMempool(o.Hash) {
			// the transaction that created the output is gone (replaced by a
			// conflicting one): what becomes of its lease record is not
			// prescribed, the other leases must be unaffected
			x.env.Count("probe.c12w-lease-on-vanished-output")
			continue
		}
		switch {
		case confirmedSpend:
			if lo, ok := listed[o]; ok {
				x.fail("c12w:lease-survives-confirmed-spend:at="+labelClass(label), "%s: output %v has a confirmed spend (%s at height %d) but is still leased to %d until %v", label, o, short(spender), x.node.Confirmed(spender), lo.LockID[0], lo.Expiration)
				return
			}
			if spendable[o] {
				x.fail("c12w:spent-output-spendable:at="+labelClass(label), "%s: output %v has a confirmed spend (%s) but ListUnspent offers it", label, o, short(spender))
				return
			}
			x.env.Count("probe.c12w-confirmed-spend-of-leased-output")
		case spent:
			// spent by an unconfirmed transaction: only a CONFIRMED spend
			// removes a lease — an active one is still listed
			if active {
				lo, ok := listed[o]
				if !ok {
					x.fail("c12w:lease-lost:unconfirmed-spend:at="+labelClass(label), "%s: output %v is leased to %d until %v and spent by the unconfirmed %s only, but ListLeasedOutputs does not list it", label, o, l.id[0], l.expiry, short(spender))
					return
				}
				if lo.LockID != l.id || !lo.Expiration.Equal(l.expiry) {
					x.fail("c12w:lease-listed-wrong", "%s: output %v is listed as leased to %d until %v, taken by %d until %v", label, o, lo.LockID[0], lo.Expiration, l.id[0], l.expiry)
					return
				}
				x.env.Count("probe.c12w-active-lease-with-unconfirmed-spend-checked")
			}
		case active:
			lo, ok := listed[o]
			if !ok {
				x.fail("c12w:lease-lost:at="+labelClass(label), "%s: output %v is leased to %d until %v but ListLeasedOutputs does not list it", label, o, l.id[0], l.expiry)
				return
			}
			if lo.LockID != l.id || !lo.Expiration.Equal(l.expiry) {
				x.fail("c12w:lease-listed-wrong", "%s: output %v is listed as leased to %d until %v, taken by %d until %v", label, o, lo.LockID[0], lo.Expiration, l.id[0], l.expiry)
				return
			}
			if spendable[o] {
				x.fail("c12w:leased-output-spendable", "%s: output %v is leased until %v but ListUnspent offers it", label, o, l.expiry)
				return
			}
			x.env.Count("probe.c12w-active-lease-checked")
		default:
			if _, ok := listed[o]; ok {
				x.fail("c12w:lease-outlives-expiry-or-release", "%s: output %v is listed as leased although its lease was released or expired at %v", label, o, l.expiry)
				return
			}
			if c, known := x.coins()[o]; known && c.height >= 0 && !spendable[o] && !x.w.LockedOutpoint(o) {
				x.fail("c12w:not-available-after-lease", "%s: output %v is neither leased nor spent but ListUnspent does not offer it", label, o)
				return
			}
		}
	}
	_ = fmt.Sprint
}

// replacefund: an unconfirmed payment to the wallet is replaced by a
// conflicting transaction (same input, paying another wallet address) that
// confirms at once.
func (rs *runState) replacefund(step int, op core.Op) {
	x := rs.x
	var cands []*wire.MsgTx
	for _, t := range x.funding {
		if x.node.InMempool(t.TxHash()) && len(t.TxIn) == 1 {
			cands = append(cands, t)
		}
	}
	if len(cands) == 0 || len(x.issuedAddrs) == 0 {
		return
	}
	f := cands[int(uint64(op.Arg(0))%uint64(len(cands)))]
	a := x.issuedAddrs[int(uint64(op.Arg(1))%uint64(len(x.issuedAddrs)))]
	tx := wire.NewMsgTx(2)
	tx.AddTxIn(&wire.TxIn{PreviousOutPoint: f.TxIn[0].PreviousOutPoint, Sequence: 0xfffffffd})
	tx.AddTxOut(payTo(a.addr, f.TxOut[0].Value-1500))
	b := x.node.Mine(simchain.MineOpts{Txs: []*wire.MsgTx{tx}, CoinbaseValue: 50e8, Dt: 10 * time.Minute})
	for _, t := range b.Msg.Transactions {
		if t.TxHash() == tx.TxHash() {
			x.funding = append(x.funding, tx)
			x.env.Count("probe.c12w-payment-replaced-by-conflict")
			x.env.Eff()
			x.env.Logf("%d replacefund %s replaced by %s in block %d", step, short(f.TxHash()), short(tx.TxHash()), b.Height)
			return
		}
	}
}
