package walletsim

import (
	"encoding/hex"
	"errors"
	"fmt"
	"os"
	"path/filepath"
	"sort"
	"time"

	"github.com/btcsuite/btcd/btcec/v2"
	"github.com/btcsuite/btcd/btcec/v2/schnorr"
	"github.com/btcsuite/btcd/btcutil"
	"github.com/btcsuite/btcd/btcutil/hdkeychain"
	"github.com/btcsuite/btcd/chaincfg"
	"github.com/btcsuite/btcd/txscript"
	"github.com/btcsuite/btcwallet/waddrmgr"
	"github.com/btcsuite/btcwallet/walletdb"

	"verifsim/core"
	"verifsim/faultdb"
	"verifsim/simrt"
)

// Wallet-level facets of the address-manager properties (C03, C05, C08).
// addrsim drives waddrmgr.Manager directly; the wallet adds its own layer on
// top of it — account import and its always-rolled-back preview
// (ImportAccountDryRun, which caches and invalidates account entries by hand),
// NextAccount, RenameAccount, dry-run transaction creation, the wallet locker
// goroutine — and these are driven here through the Wallet API, on simnet
// (account import only accepts extended keys of networks with SLIP-0132
// versions).
//
//	C03  addresses issued for an imported account are child branch/index of
//	     the imported key in the account's own address format, indices
//	     consecutive from zero, reported derivation path / account true; own
//	     accounts as everywhere in walletsim (address-not-seed-child); while
//	     unlocked PrivKeyForAddress returns the key of exactly that public key
//	C05  the current private passphrase always unlocks (after previews,
//	     imports, restarts); while locked no private key is handed out
//	C08  a manager freshly opened on the latest commit image answers the query
//	     set exactly as the running one, and the next address the running
//	     wallet issues is the one the reopened copy would issue
//
// One generator serves the three; each property fails only on its own
// signatures (world.fail drops the others).

type importedAcct struct {
	scope            waddrmgr.KeyScope
	number           uint32
	name             string
	xpub             *hdkeychain.ExtendedKey
	fp               uint32
	extType, intType waddrmgr.AddressType
	next             [2]uint32
}

type impIssued struct {
	addr   btcutil.Address
	imp    int
	branch uint32
	index  uint32
}

// import variants on simnet: key version x requested address type
var importVariants = []struct {
	version          waddrmgr.HDVersion // 0: leave the simnet legacy version
	at               waddrmgr.AddressType
	scope            waddrmgr.KeyScope
	extType, intType waddrmgr.AddressType
}{
	{0, waddrmgr.WitnessPubKey, waddrmgr.KeyScopeBIP0084, waddrmgr.WitnessPubKey, waddrmgr.WitnessPubKey},
	{0, waddrmgr.NestedWitnessPubKey, waddrmgr.KeyScopeBIP0049Plus, waddrmgr.NestedWitnessPubKey, waddrmgr.NestedWitnessPubKey},
	{0, waddrmgr.TaprootPubKey, waddrmgr.KeyScopeBIP0086, waddrmgr.TaprootPubKey, waddrmgr.TaprootPubKey},
	{waddrmgr.HDVersionMainNetBIP0049, waddrmgr.NestedWitnessPubKey, waddrmgr.KeyScopeBIP0049Plus, waddrmgr.NestedWitnessPubKey, waddrmgr.NestedWitnessPubKey},
	{waddrmgr.HDVersionMainNetBIP0049, waddrmgr.WitnessPubKey, waddrmgr.KeyScopeBIP0049Plus, waddrmgr.NestedWitnessPubKey, waddrmgr.WitnessPubKey},
	{waddrmgr.HDVersionMainNetBIP0084, waddrmgr.WitnessPubKey, waddrmgr.KeyScopeBIP0084, waddrmgr.WitnessPubKey, waddrmgr.WitnessPubKey},
	{waddrmgr.HDVersionMainNetBIP0084, waddrmgr.TaprootPubKey, waddrmgr.KeyScopeBIP0086, waddrmgr.TaprootPubKey, waddrmgr.TaprootPubKey},
}

// genAcctWFaults is genAcctW with an injected database fault (the k-th
// mutating call, or the commit) placed in front of account operations.
func genAcctWFaults(r *core.Rand, p *core.Plan) {
	genAcctW(r, p)
	var out []core.Op
	for _, op := range p.Ops {
		switch op.K {
		case "importdry2", "importacct", "newaddri", "newaddr", "newacct", "importkeyb":
			if r.Chance(1, 3) {
				kind := int64(r.Intn(3) / 2) // 0,0,1: mostly write failures
				out = append(out, core.Op{K: "faultnext", A: []int64{kind, int64(r.Range(1, 30))}})
			}
		}
		out = append(out, op)
	}
	p.Ops = out
}

func genAcctW(r *core.Rand, p *core.Plan) {
	p.Sched = []string{"rtb0", "rtb1", "random"}[r.Intn(3)]
	p.Cfg["simnet"] = 1
	p.Cfg["maturity"] = 1
	for sc := 0; sc < 4; sc++ {
		if r.Chance(2, 3) {
			p.Ops = append(p.Ops, core.Op{K: "newaddr", A: []int64{int64(sc), 0, int64(r.Intn(2))}})
		}
	}
	funded := r.Chance(1, 2)
	if funded {
		p.Ops = append(p.Ops, core.Op{K: "newaddr", A: []int64{0, 0, 0}})
		for i := 0; i < r.Range(1, 3); i++ {
			p.Ops = append(p.Ops, core.Op{K: "fund", A: []int64{int64(r.Intn(6)), int64(r.Range(2, 50)) * 1e6}})
		}
		p.Ops = append(p.Ops, core.Op{K: "mine", A: []int64{int64(r.Range(1, 3)), 100, -1, 600, int64(r.Uint64() >> 1)}})
		p.Ops = append(p.Ops, core.Op{K: "sync"})
	}
	n := r.Range(6, 18)
	if p.Cfg["thorough"] == 1 {
		n = r.Range(12, 40)
	}
	lastVariant := int64(r.Intn(len(importVariants)))
	for i := 0; i < n; i++ {
		switch r.Weighted([]int{14, 14, 8, 16, 12, 6, 8, 6, 5, 6, 5, 4, 4, 6}) {
		case 12: // passphrase changes through the wallet: both in one request, or one; right or wrong old passphrase
			p.Ops = append(p.Ops, core.Op{K: "wchpass", A: []int64{int64(r.Intn(5))}})
			if r.Chance(1, 2) {
				p.Ops = append(p.Ops, core.Op{K: "stop"}, core.Op{K: "start"})
			}
		case 13: // a single key imported with a block stamp below the birthday block
			p.Ops = append(p.Ops, core.Op{K: "mine", A: []int64{int64(r.Range(1, 3)), 100, -1, 600, int64(r.Uint64() >> 1)}}, core.Op{K: "sync"},
				core.Op{K: "wunlock"}, core.Op{K: "bdayblock"},
				core.Op{K: "importkeyb", A: []int64{int64(r.Intn(3)), int64(r.Intn(8)), int64(r.Intn(2))}})
		case 0: // preview
			lastVariant = int64(r.Intn(len(importVariants)))
			nprev := int64(r.Range(1, 4))
			if r.Chance(1, 4) {
				nprev = 99 // a preview that fails half way
			}
			p.Ops = append(p.Ops, core.Op{K: "importdry2", A: []int64{lastVariant, nprev, int64(r.Intn(4))}})
		case 1: // import, often into the scope the last preview used, with another key or format
			v := lastVariant
			if r.Chance(1, 2) {
				// same scope, other variant if there is one
				for k := 0; k < 8; k++ {
					c := int64(r.Intn(len(importVariants)))
					if importVariants[c].scope == importVariants[lastVariant].scope {
						v = c
						break
					}
				}
			} else if r.Chance(1, 2) {
				v = int64(r.Intn(len(importVariants)))
			}
			p.Ops = append(p.Ops, core.Op{K: "importacct", A: []int64{v, int64(r.Intn(4))}})
		case 2:
			p.Ops = append(p.Ops, core.Op{K: "newacct", A: []int64{int64(r.Intn(4))}})
		case 3:
			p.Ops = append(p.Ops, core.Op{K: "newaddri", A: []int64{int64(r.Intn(4)), int64(r.Intn(2))}})
		case 4:
			p.Ops = append(p.Ops, core.Op{K: "newaddr", A: []int64{int64(r.Intn(4)), int64(r.Intn(2)), int64(r.Intn(2))}})
		case 5:
			if funded {
				p.Ops = append(p.Ops, core.Op{K: "dryrun", A: []int64{int64(r.Range(1, 20)) * 1e5, 1, 1000, -1, 0, 0}})
			}
		case 6:
			p.Ops = append(p.Ops, core.Op{K: "observe", A: []int64{int64(r.Intn(8)), int64(r.Intn(2))}})
		case 7:
			p.Ops = append(p.Ops, core.Op{K: "wlock"})
			if r.Chance(1, 2) {
				// account operations while locked
				switch r.Intn(3) {
				case 0:
					p.Ops = append(p.Ops, core.Op{K: "importdry2", A: []int64{lastVariant, int64(r.Range(1, 4)), int64(r.Intn(4))}})
				case 1:
					p.Ops = append(p.Ops, core.Op{K: "newaddri", A: []int64{int64(r.Intn(4)), int64(r.Intn(2))}})
				default:
					p.Ops = append(p.Ops, core.Op{K: "newaddr", A: []int64{int64(r.Intn(4)), 0, int64(r.Intn(2))}})
				}
			}
			p.Ops = append(p.Ops, core.Op{K: "wunlock"})
		case 8:
			p.Ops = append(p.Ops, core.Op{K: "renamei", A: []int64{int64(r.Intn(6))}})
		case 9:
			p.Ops = append(p.Ops, core.Op{K: "stop"}, core.Op{K: "start"})
			if r.Chance(1, 2) {
				p.Ops = append(p.Ops, core.Op{K: "sync"})
			}
		case 10:
			p.Ops = append(p.Ops, core.Op{K: "mine", A: []int64{1, 100, -1, 600, int64(r.Uint64() >> 1)}}, core.Op{K: "sync"})
		case 11:
			p.Ops = append(p.Ops, core.Op{K: "privcheck", A: []int64{int64(r.Intn(16))}})
		}
	}
	p.Ops = append(p.Ops, core.Op{K: "wunlock"}, core.Op{K: "observe", A: []int64{int64(r.Intn(8)), 0}}, core.Op{K: "privcheck", A: []int64{int64(r.Intn(16))}})
}

func (x *world) foreignAcctKey(keyIdx int64, v int) (*hdkeychain.ExtendedKey, uint32, error) {
	iv := importVariants[v]
	fseed := core.NewRand(core.Mix(x.p.Seed, 0xf0e100+uint64(keyIdx))).Bytes(32)
	k, err := hdkeychain.NewMaster(fseed, x.params)
	if err != nil {
		return nil, 0, err
	}
	mpub, err := k.ECPubKey()
	if err != nil {
		return nil, 0, err
	}
	fpb := btcutil.Hash160(mpub.SerializeCompressed())[:4]
	fp := uint32(fpb[0])<<24 | uint32(fpb[1])<<16 | uint32(fpb[2])<<8 | uint32(fpb[3])
	for _, i := range []uint32{iv.scope.Purpose + hdkeychain.HardenedKeyStart, iv.scope.Coin + hdkeychain.HardenedKeyStart,
		uint32(keyIdx) + hdkeychain.HardenedKeyStart} {
		if k, err = k.Derive(i); err != nil {
			return nil, 0, err
		}
	}
	xpub, err := k.Neuter()
	if err != nil {
		return nil, 0, err
	}
	if iv.version != 0 {
		var vb [4]byte
		vb[0], vb[1], vb[2], vb[3] = byte(iv.version>>24), byte(iv.version>>16), byte(iv.version>>8), byte(iv.version)
		xpub, err = xpub.CloneWithVersion(vb[:])
		if err != nil {
			return nil, 0, err
		}
	}
	return xpub, fp, nil
}

func addrOfType(params *chaincfg.Params, at waddrmgr.AddressType, pub *btcec.PublicKey) (btcutil.Address, error) {
	h := btcutil.Hash160(pub.SerializeCompressed())
	switch at {
	case waddrmgr.PubKeyHash:
		return btcutil.NewAddressPubKeyHash(h, params)
	case waddrmgr.WitnessPubKey:
		return btcutil.NewAddressWitnessPubKeyHash(h, params)
	case waddrmgr.NestedWitnessPubKey:
		wa, err := btcutil.NewAddressWitnessPubKeyHash(h, params)
		if err != nil {
			return nil, err
		}
		script, err := txscript.PayToAddrScript(wa)
		if err != nil {
			return nil, err
		}
		return btcutil.NewAddressScriptHash(script, params)
	case waddrmgr.TaprootPubKey:
		tk := txscript.ComputeTaprootKeyNoScript(pub)
		return btcutil.NewAddressTaproot(schnorr.SerializePubKey(tk), params)
	}
	return nil, fmt.Errorf("address type %v", at)
}

func (rs *runState) importdry2(step int, op core.Op) {
	x := rs.x
	v := int(uint64(op.Arg(0)) % uint64(len(importVariants)))
	xpub, fp, err := x.foreignAcctKey(op.Arg(2), v)
	if err != nil {
		return
	}
	n := uint32(op.Arg(1))
	if n < 1 || n > 5 {
		n = 2
	}
	if op.Arg(1) == 99 {
		// more addresses than an account can hold: the preview fails after
		// the account has been created in its (rolled-back) transaction
		n = 1 << 31
		x.env.Count("probe.preview-that-fails")
	}
	at := importVariants[v].at
	rs.previews++
	props, ext, in, err := x.w.ImportAccountDryRun(fmt.Sprintf("preview-%d", rs.previews), xpub, fp, &at, n)
	x.env.Count("op.ImportAccountDryRun")
	x.env.Eff()
	x.env.Logf("%d importdry2 variant=%d key=%d err=%v", step, v, op.Arg(2), err)
	if err != nil {
		return
	}
	if props.AccountName != fmt.Sprintf("preview-%d", rs.previews) || props.AccountPubKey == nil || props.AccountPubKey.String() != xpub.String() {
		got := "nil"
		if props.AccountPubKey != nil {
			got = props.AccountPubKey.String()
		}
		x.fail("c03w:preview-properties-wrong", "ImportAccountDryRun(preview-%d, key %s) reports account %d name %q key %s", rs.previews, xpub, props.AccountNumber, props.AccountName, got)
		return
	}
	x.env.Count("probe.account-import-preview")
	if x.w.Locked() {
		x.env.Count("probe.preview-while-locked")
	}
	// the preview itself shows children of the previewed key
	iv := importVariants[v]
	for b, list := range [][]waddrmgr.ManagedAddress{ext, in} {
		for i, ma := range list {
			want, err := x.childAddr(xpub, uint32(b), uint32(i), [2]waddrmgr.AddressType{iv.extType, iv.intType}[b])
			if err != nil {
				continue
			}
			if ma.Address().String() != want.String() {
				x.fail("c03w:preview-address-wrong", "ImportAccountDryRun (variant %d, scope %v) shows %s as branch %d index %d, child %d/%d of the previewed key in format %v is %s",
					v, props.KeyScope, ma.Address(), b, i, b, i, [2]waddrmgr.AddressType{iv.extType, iv.intType}[b], want)
				return
			}
		}
	}
}

func (x *world) childAddr(xpub *hdkeychain.ExtendedKey, branch, index uint32, at waddrmgr.AddressType) (btcutil.Address, error) {
	bk, err := xpub.Derive(branch)
	if err != nil {
		return nil, err
	}
	ck, err := bk.Derive(index)
	if err != nil {
		return nil, err
	}
	pub, err := ck.ECPubKey()
	if err != nil {
		return nil, err
	}
	return addrOfType(x.params, at, pub)
}

func (rs *runState) importacct(step int, op core.Op) {
	x := rs.x
	v := int(uint64(op.Arg(0)) % uint64(len(importVariants)))
	iv := importVariants[v]
	// every import uses a key of its own (the manager refuses a key twice)
	rs.imports++
	keyIdx := int64(100 + rs.imports)
	xpub, fp, err := x.foreignAcctKey(keyIdx, v)
	if err != nil {
		return
	}
	at := iv.at
	name := fmt.Sprintf("imp-%d", rs.imports)
	props, err := x.w.ImportAccount(name, xpub, fp, &at)
	x.env.Count("op.ImportAccount")
	x.env.Eff()
	x.env.Logf("%d importacct variant=%d name=%s err=%v", step, v, name, err)
	if err != nil {
		if injected(err) {
			return
		}
		x.fail("c08w:import-failed", "ImportAccount(%s, variant %d, scope %v) failed without any injected fault: %v", name, v, iv.scope, err)
		return
	}
	if props.KeyScope != iv.scope {
		x.fail("c03w:import-scope-wrong", "ImportAccount variant %d landed in scope %v, want %v", v, props.KeyScope, iv.scope)
		return
	}
	if x.haveAcct1 && x.acct1Scope == iv.scope && props.AccountNumber == 1 {
		x.fail("c08w:import-account-number-reused", "ImportAccount got account number 1 of scope %v, which NextAccount had handed out", iv.scope)
		return
	}
	for _, ia := range x.imported {
		if ia.scope == iv.scope && ia.number == props.AccountNumber {
			x.fail("c08w:import-account-number-reused", "ImportAccount got account number %d of scope %v twice", ia.number, iv.scope)
			return
		}
	}
	x.imported = append(x.imported, importedAcct{scope: iv.scope, number: props.AccountNumber, name: name, xpub: xpub, fp: fp,
		extType: iv.extType, intType: iv.intType})
	x.env.Count("probe.account-imported")
	if rs.previews > 0 {
		x.env.Count("probe.import-after-preview")
	}
	if props.AccountName != name || props.AccountPubKey == nil || props.AccountPubKey.String() != xpub.String() {
		got := "nil"
		if props.AccountPubKey != nil {
			got = props.AccountPubKey.String()
		}
		x.fail("c03w:import-properties-wrong", "ImportAccount(%s) reports name %q key %s, imported was %s", name, props.AccountName, got, xpub)
	}
}

// newaddri: next external / internal address of an imported account.
func (rs *runState) newaddri(step int, op core.Op) {
	x := rs.x
	if len(x.imported) == 0 {
		return
	}
	k := int(uint64(op.Arg(0)) % uint64(len(x.imported)))
	ia := &x.imported[k]
	branch := uint32(uint64(op.Arg(1)) % 2)
	var addr btcutil.Address
	var err error
	if branch == 0 {
		addr, err = x.w.NewAddress(ia.number, ia.scope)
	} else {
		addr, err = x.w.NewChangeAddress(ia.number, ia.scope)
	}
	x.env.Count("op.NewAddress(imported)")
	x.env.Eff()
	x.env.Logf("%d newaddri imp=%d branch=%d -> %v err=%v", step, k, branch, addr, err)
	if err != nil {
		if injected(err) {
			return
		}
		x.fail("c03w:imported-issue-failed", "issuing branch %d of imported account %d (scope %v) failed without any injected fault: %v", branch, ia.number, ia.scope, err)
		return
	}
	x.checkImportedIssue(k, branch, addr, "issued")
}

func (x *world) checkImportedIssue(k int, branch uint32, addr btcutil.Address, how string) {
	ia := &x.imported[k]
	at := ia.extType
	if branch == 1 {
		at = ia.intType
	}
	idx := ia.next[branch]
	want, err := x.childAddr(ia.xpub, branch, idx, at)
	if err != nil {
		// invalid child: the wallet skips it; resynchronise on what it issued
		x.env.Count("probe.invalid-child")
		return
	}
	if addr.String() != want.String() {
		x.fail("c03w:imported-address-wrong", "%s for imported account %q (scope %v number %d) branch %d: got %s, child %d/%d of the imported key in format %v is %s",
			how, ia.name, ia.scope, ia.number, branch, addr, branch, idx, at, want)
		return
	}
	ia.next[branch]++
	x.impIssued = append(x.impIssued, impIssued{addr: addr, imp: k, branch: branch, index: idx})
	x.env.Count("probe.imported-address-checked")
	ma, err := x.w.AddressInfo(addr)
	if err != nil {
		x.fail("c03w:imported-lookup-failed", "AddressInfo(%s) failed right after the address was issued: %v", addr, err)
		return
	}
	pk, ok := ma.(waddrmgr.ManagedPubKeyAddress)
	if !ok {
		x.fail("c03w:imported-lookup-wrong", "AddressInfo(%s) is not a public-key address", addr)
		return
	}
	sc, dp, _ := pk.DerivationInfo()
	if sc != ia.scope || dp.InternalAccount != ia.number || dp.Branch != branch || dp.Index != idx ||
		dp.Account != ia.xpub.ChildIndex() || dp.MasterKeyFingerprint != ia.fp || ma.InternalAccount() != ia.number || ma.Internal() != (branch == 1) {
		x.fail("c03w:imported-derivation-info-wrong", "%s: reported scope %v path %+v account %d internal %v; true: scope %v account %d (key child %d) branch %d index %d fingerprint %d",
			addr, sc, dp, ma.InternalAccount(), ma.Internal(), ia.scope, ia.number, ia.xpub.ChildIndex(), branch, idx, ia.fp)
	}
}

func (rs *runState) renamei(step int, op core.Op) {
	x := rs.x
	rs.renames++
	name := fmt.Sprintf("renamed-%d", rs.renames)
	k := int(op.Arg(0))
	var err error
	switch {
	case k < len(x.imported):
		ia := &x.imported[k]
		if err = x.w.RenameAccount(ia.scope, ia.number, name); err == nil {
			ia.name = name
		}
	case x.haveAcct1 && k%2 == 1:
		err = x.w.RenameAccount(x.acct1Scope, 1, name)
	default:
		err = x.w.RenameAccount(scopes[k%len(scopes)], 0, name)
	}
	x.env.Count("op.RenameAccount")
	x.env.Eff()
	x.env.Logf("%d renamei %d err=%v", step, k, err)
}

// privcheck: for one own address, the private key the wallet returns is the
// key of that address (unlocked) or is refused (locked).
func (rs *runState) privcheck(step int, op core.Op) {
	x := rs.x
	if len(x.issuedAddrs) == 0 {
		return
	}
	is := x.issuedAddrs[int(uint64(op.Arg(0))%uint64(len(x.issuedAddrs)))]
	locked := x.w.Locked()
	priv, err := x.w.PrivKeyForAddress(is.addr)
	x.env.Count("op.PrivKeyForAddress")
	x.env.Eff()
	if locked {
		x.env.Count("probe.private-access-while-locked")
		if err == nil {
			x.fail("c05w:private-key-while-locked", "PrivKeyForAddress(%s) returned a key while the wallet is locked", is.addr)
		} else if !waddrmgr.IsError(err, waddrmgr.ErrLocked) {
			x.fail("c05w:wrong-error-class:got="+errClass(err), "PrivKeyForAddress(%s) while locked failed with %v, not with the locked error", is.addr, err)
		}
		return
	}
	if err != nil {
		x.fail("c03w:private-key-refused", "PrivKeyForAddress(%s) (scope %v account %d branch %d index %d, via %s) failed while unlocked: %v", is.addr, is.scope, is.account, is.branch, is.index, is.via, err)
		return
	}
	bk, err := x.branchKey(is.scope, is.account, is.branch)
	if err != nil {
		return
	}
	ck, err := bk.DeriveNonStandard(is.index) // nolint
	if err != nil {
		return
	}
	want, err := ck.ECPubKey()
	if err != nil {
		return
	}
	if !priv.PubKey().IsEqual(want) {
		x.fail("c03w:private-key-wrong", "PrivKeyForAddress(%s) returned the key of %x, the address encodes %x", is.addr, priv.PubKey().SerializeCompressed(), want.SerializeCompressed())
		return
	}
	x.env.Count("probe.private-key-checked")
}

func errClass(err error) string {
	if me, ok := err.(waddrmgr.ManagerError); ok {
		return fmt.Sprint(me.ErrorCode)
	}
	return "other"
}

func (rs *runState) wlock(step int) {
	x := rs.x
	x.w.Lock()
	x.env.Count("op.Lock")
	x.env.Eff()
	simrt.WaitIdle("harness:after-lock")
	if !x.w.Locked() {
		x.fail("c05w:lock-ignored", "the wallet is not locked after Lock")
	}
}

func (rs *runState) wunlock(step int) {
	x := rs.x
	was := x.w.Locked()
	err := x.w.Unlock(x.privPass, nil)
	x.env.Count("op.Unlock")
	x.env.Eff()
	x.env.Logf("%d wunlock was-locked=%v err=%v", step, was, err)
	if err != nil {
		x.fail(fmt.Sprintf("c05w:unlock-failed:right-passphrase:%s:was-locked=%v", errClass(err), was),
			"Unlock with the current private passphrase failed (wallet was locked: %v; %d previews, %d imported accounts so far): %v", was, rs.previews, len(x.imported), err)
		return
	}
	if x.w.Locked() {
		x.fail("c05w:unlock-ignored", "the wallet is still locked after a successful Unlock")
	}
}

// wchpass: passphrase changes through the wallet's own requests.
// Wallet.ChangePassphrases is documented as changing both passphrases
// atomically: when it returns an error (here: a wrong old private passphrase)
// neither may have changed — in the running wallet and in what a restart
// finds.
func (rs *runState) wchpass(step int, op core.Op) {
	x := rs.x
	rs.chpassN++
	newPub := []byte(fmt.Sprintf("public-%d", rs.chpassN))
	newPriv := []byte(fmt.Sprintf("private-%d-%d", x.p.Seed%1000, rs.chpassN))
	wrong := []byte("not the passphrase")
	mode := int(uint64(op.Arg(0)) % 5)
	var err error
	wantFail := false
	what := ""
	switch mode {
	case 0:
		what = "ChangePassphrases"
		err = x.w.ChangePassphrases(x.pubPass, newPub, x.privPass, newPriv)
		if err == nil {
			x.pubPass, x.privPass = newPub, newPriv
		}
	case 1:
		what = "ChangePassphrases(wrong old private passphrase)"
		wantFail = true
		err = x.w.ChangePassphrases(x.pubPass, newPub, wrong, newPriv)
	case 2:
		what = "ChangePrivatePassphrase"
		err = x.w.ChangePrivatePassphrase(x.privPass, newPriv)
		if err == nil {
			x.privPass = newPriv
		}
	case 3:
		what = "ChangePublicPassphrase(wrong old passphrase)"
		wantFail = true
		err = x.w.ChangePublicPassphrase(wrong, newPub)
	case 4:
		what = "ChangePassphrases(wrong old public passphrase)"
		wantFail = true
		err = x.w.ChangePassphrases(wrong, newPub, x.privPass, newPriv)
	}
	x.env.Count("op.wchpass")
	x.env.Eff()
	x.env.Logf("%d wchpass %s err=%v", step, what, err)
	pre := "c05w:"
	if x.prop == "C10" {
		pre = "c10w:"
	}
	report := x.prop == "C05" || x.prop == "C10"
	if wantFail && err == nil {
		if report {
			x.fail(pre+"passphrase-change-accepted-wrong-old-passphrase", "%s succeeded", what)
		}
		x.violated = true
		return
	}
	if !wantFail && err != nil {
		if report {
			x.fail(pre+"passphrase-change-failed:"+errClass(err), "%s with the current passphrases failed: %v", what, err)
		}
		x.violated = true
		return
	}
	if wantFail {
		x.env.Count("probe.passphrase-change-refused")
	}
	// what a restart would find
	simrt.WaitIdle("harness:wchpass")
	img, ierr := x.db.Image()
	if ierr != nil {
		x.env.Infra("image: %v", ierr)
		return
	}
	rs.obsN++
	path := filepath.Join(x.env.Dir, fmt.Sprintf("obs%d.db", rs.obsN%2))
	if e := os.WriteFile(path, img, 0o600); e != nil {
		x.env.Infra("write image: %v", e)
		return
	}
	fdb, e := walletdb.Open("bdb", path, true, 10*time.Second, false)
	if e != nil {
		x.env.Infra("open image: %v", e)
		return
	}
	defer fdb.Close()
	e = walletdb.View(fdb, func(tx walletdb.ReadTx) error {
		ns := tx.ReadBucket(waddrmgrNS)
		fresh, e := waddrmgr.Open(ns, x.pubPass, x.params)
		if e != nil {
			return fmt.Errorf("open with the public passphrase that should be current: %w", e)
		}
		defer fresh.Close()
		if e := fresh.Unlock(ns, x.privPass); e != nil {
			return fmt.Errorf("unlock with the private passphrase that should be current: %w", e)
		}
		return nil
	})
	if e != nil {
		if report {
			sig := "passphrase-change-not-stored"
			if wantFail {
				sig = "failed-passphrase-change-half-applied"
			}
			x.fail(pre+sig+":after="+core.SigSafe(what), "after %s (returned %v) a manager freshly opened on the database: %v", what, err, e)
		}
		x.violated = true
		return
	}
	// the running wallet
	if e := x.w.Unlock(x.privPass, nil); e != nil {
		if report {
			x.fail(pre+"unlock-failed-after-passphrase-change:"+errClass(e), "after %s (returned %v) the running wallet refuses the private passphrase that should be current: %v", what, err, e)
		}
		x.violated = true
	}
}

// ---------------------------------------------------------------- restart observer

type qa struct{ key, class, val string }

// sameLock: both managers are locked, so answers that depend on the lock
// state (IsWatchOnly is "no clear-text account key in memory") are comparable.
func (x *world) mgrAnswers(mgr *waddrmgr.Manager, db walletdb.DB, sameLock bool) []qa {
	var out []qa
	add := func(key, class, val string) { out = append(out, qa{key + "/" + class, class, val}) }
	errOr := func(err error, v string) string {
		if err != nil {
			return "error:" + errClass(err)
		}
		return v
	}
	describe := func(prefix string, ns walletdb.ReadBucket, ma waddrmgr.ManagedAddress) {
		add(prefix, "address.string", ma.Address().String())
		add(prefix, "address.account", fmt.Sprint(ma.InternalAccount()))
		add(prefix, "address.internal", fmt.Sprint(ma.Internal()))
		add(prefix, "address.imported", fmt.Sprint(ma.Imported()))
		add(prefix, "address.type", fmt.Sprint(ma.AddrType()))
		add(prefix, "address.used", fmt.Sprint(ma.Used(ns)))
		if pk, ok := ma.(waddrmgr.ManagedPubKeyAddress); ok {
			add(prefix, "address.pubkey", hex.EncodeToString(pk.PubKey().SerializeCompressed()))
			sc, dp, ok := pk.DerivationInfo()
			add(prefix, "address.derivation", fmt.Sprintf("%v %+v %v", sc, dp, ok))
		}
	}
	_ = walletdb.View(db, func(tx walletdb.ReadTx) error {
		ns := tx.ReadBucket(waddrmgrNS)
		sms := mgr.ActiveScopedKeyManagers()
		sort.Slice(sms, func(i, j int) bool {
			a, b := sms[i].Scope(), sms[j].Scope()
			if a.Purpose != b.Purpose {
				return a.Purpose < b.Purpose
			}
			return a.Coin < b.Coin
		})
		for _, sm := range sms {
			sp := fmt.Sprintf("scope %v", sm.Scope())
			add(sp, "scope.schema", fmt.Sprintf("%+v", sm.AddrSchema()))
			last, err := sm.LastAccount(ns)
			add(sp, "scope.last-account", errOr(err, fmt.Sprint(last)))
			if err != nil {
				continue
			}
			for a := uint32(0); a <= last; a++ {
				ap := fmt.Sprintf("%s account %d", sp, a)
				props, err := sm.AccountProperties(ns, a)
				if err != nil {
					add(ap, "account.properties", "error:"+errClass(err))
					continue
				}
				pk, schema := "nil", "nil"
				if props.AccountPubKey != nil {
					pk = props.AccountPubKey.String()
				}
				if props.AddrSchema != nil {
					schema = fmt.Sprintf("%+v", *props.AddrSchema)
				}
				add(ap, "account.AccountName", props.AccountName)
				add(ap, "account.ExternalKeyCount", fmt.Sprint(props.ExternalKeyCount))
				add(ap, "account.InternalKeyCount", fmt.Sprint(props.InternalKeyCount))
				add(ap, "account.ImportedKeyCount", fmt.Sprint(props.ImportedKeyCount))
				add(ap, "account.AccountPubKey", pk)
				add(ap, "account.MasterKeyFingerprint", fmt.Sprint(props.MasterKeyFingerprint))
				add(ap, "account.KeyScope", fmt.Sprint(props.KeyScope))
				if sameLock {
					add(ap, "account.IsWatchOnly", fmt.Sprint(props.IsWatchOnly))
				}
				add(ap, "account.AddrSchema", schema)
				name, err := sm.AccountName(ns, a)
				add(ap, "account.name-by-number", errOr(err, name))
				if err == nil {
					n, err := sm.LookupAccount(ns, name)
					add(ap, "account.number-by-name", errOr(err, fmt.Sprint(n)))
				}
				for b, f := range []func(walletdb.ReadBucket, uint32) (waddrmgr.ManagedAddress, error){sm.LastExternalAddress, sm.LastInternalAddress} {
					ma, err := f(ns, a)
					lp := fmt.Sprintf("%s last[%d]", ap, b)
					if err != nil {
						add(lp, "last-address.found", "error:"+errClass(err))
						continue
					}
					add(lp, "last-address.found", "found")
					add(lp, "last-address.string", ma.Address().String())
					add(lp, "last-address.used", fmt.Sprint(ma.Used(ns)))
				}
			}
		}
		lookup := func(prefix string, addr btcutil.Address) {
			ma, err := mgr.Address(ns, addr)
			if err != nil {
				add(prefix, "address.found", "error:"+errClass(err))
				return
			}
			add(prefix, "address.found", "found")
			describe(prefix, ns, ma)
		}
		for i, is := range x.issuedAddrs {
			lookup(fmt.Sprintf("issued#%d %s", i, is.addr), is.addr)
		}
		for i, is := range x.impIssued {
			lookup(fmt.Sprintf("imported-issued#%d %s", i, is.addr), is.addr)
		}
		st := mgr.SyncedTo()
		add("sync", "synced-to.height", fmt.Sprint(st.Height))
		add("sync", "synced-to.hash", st.Hash.String())
		for h := st.Height; h >= 0 && h > st.Height-6; h-- {
			bh, err := mgr.BlockHash(ns, h)
			v := "error"
			if err == nil {
				v = bh.String()
			}
			add(fmt.Sprintf("sync height %d", h), "block-hash", v)
		}
		add("sync", "birthday", fmt.Sprint(mgr.Birthday().Unix()))
		return nil
	})
	return out
}

// observe: the running manager against a manager opened on the latest commit
// image; then the next address of one account from both.
func (rs *runState) observe(step int, op core.Op) {
	x := rs.x
	if !x.running {
		return
	}
	simrt.WaitIdle("harness:observe")
	img, err := x.db.Image()
	if err != nil {
		x.env.Infra("image: %v", err)
		return
	}
	rs.obsN++
	path := filepath.Join(x.env.Dir, fmt.Sprintf("obs%d.db", rs.obsN%2))
	if err := os.WriteFile(path, img, 0o600); err != nil {
		x.env.Infra("write image: %v", err)
		return
	}
	fdb, err := walletdb.Open("bdb", path, true, 10*time.Second, false)
	if err != nil {
		x.env.Infra("open image: %v", err)
		return
	}
	defer fdb.Close()
	var fresh *waddrmgr.Manager
	err = walletdb.View(fdb, func(tx walletdb.ReadTx) error {
		var e error
		fresh, e = waddrmgr.Open(tx.ReadBucket(waddrmgrNS), x.pubPass, x.params)
		return e
	})
	if err != nil {
		x.fail("c08w:restart-open-failed", "a fresh manager cannot open the latest commit image: %v", err)
		return
	}
	defer fresh.Close()
	x.env.Count("probe.restart-observations")
	sameLock := x.w.Manager.IsLocked()
	a := x.mgrAnswers(x.w.Manager, x.w.Database(), sameLock)
	b := x.mgrAnswers(fresh, fdb, sameLock)
	bm := map[string]string{}
	for _, q := range b {
		bm[q.key] = q.val
	}
	am := map[string]bool{}
	for _, q := range a {
		am[q.key] = true
		v, ok := bm[q.key]
		if !ok {
			v = "<no answer>"
		}
		if v != q.val {
			x.fail("c08w:restart-differs:field="+q.class, "%s: the running wallet answers %q, a manager freshly opened on the same database answers %q", q.key, q.val, v)
			return
		}
	}
	for _, q := range b {
		if !am[q.key] {
			x.fail("c08w:restart-differs:field="+q.class, "%s: the running wallet gives no answer, a manager freshly opened on the same database answers %q", q.key, q.val)
			return
		}
	}
	x.env.Add("c08w.queries", int64(len(a)))

	// next address: reopened copy first, then the running wallet
	type target struct {
		scope   waddrmgr.KeyScope
		account uint32
		imp     int
	}
	var ts []target
	for _, sc := range scopes {
		ts = append(ts, target{sc, 0, -1})
	}
	if x.haveAcct1 {
		ts = append(ts, target{x.acct1Scope, 1, -1})
	}
	for i, ia := range x.imported {
		ts = append(ts, target{ia.scope, ia.number, i})
	}
	t := ts[int(uint64(op.Arg(0))%uint64(len(ts)))]
	branch := uint32(uint64(op.Arg(1)) % 2)
	sm, err := fresh.FetchScopedKeyManager(t.scope)
	if err != nil {
		x.fail("c08w:restart-differs:field=scope.present", "a fresh manager does not know scope %v", t.scope)
		return
	}
	var predicted []waddrmgr.ManagedAddress
	err = walletdb.Update(fdb, func(tx walletdb.ReadWriteTx) error {
		ns := tx.ReadWriteBucket(waddrmgrNS)
		var e error
		if branch == 0 {
			predicted, e = sm.NextExternalAddresses(ns, t.account, 1)
		} else {
			predicted, e = sm.NextInternalAddresses(ns, t.account, 1)
		}
		return e
	})
	if err != nil || len(predicted) != 1 {
		x.fail("c08w:restart-next-failed", "a fresh manager on the committed file cannot issue the next address of scope %v account %d branch %d: %v", t.scope, t.account, branch, err)
		return
	}
	var got btcutil.Address
	if branch == 0 {
		got, err = x.w.NewAddress(t.account, t.scope)
	} else {
		got, err = x.w.NewChangeAddress(t.account, t.scope)
	}
	x.env.Eff()
	if err != nil {
		x.fail("c08w:next-failed", "the running wallet cannot issue the next address of scope %v account %d branch %d: %v", t.scope, t.account, branch, err)
		return
	}
	if got.String() != predicted[0].Address().String() {
		x.fail("c08w:next-address-differs", "scope %v account %d branch %d: the running wallet issues %s, a wallet restarted on the same database would issue %s",
			t.scope, t.account, branch, got, predicted[0].Address())
		return
	}
	x.env.Count("probe.next-address-compared")
	if t.imp >= 0 {
		x.checkImportedIssue(t.imp, branch, got, "issued (observer)")
	} else if _, ok := x.record(got, t.scope, t.account, "observer"); !ok {
		x.fail("address-not-seed-child:observer", "the wallet issued %s which is not child <400 of the seed on scope %v account %d", got, t.scope, t.account)
	}
}

func injected(err error) bool {
	return errors.Is(err, faultdb.ErrInjected) || errors.Is(err, faultdb.ErrInjectedCommit)
}

// faultnext arms a database fault for the operation that follows.
func (rs *runState) faultnext(step int, op core.Op) {
	x := rs.x
	if !x.running {
		return
	}
	x.db.Reset()
	if op.Arg(0)%2 == 1 {
		x.db.FailCommit = true
	} else {
		k := int(op.Arg(1))
		if k < 1 {
			k = 1
		}
		x.db.Arm(k)
	}
	rs.faultArmed = true
}

// afterFault runs after the operation that followed a faultnext. If the fault
// fired, the failed operation must have left no trace: the running wallet
// answers as a manager opened on the database does, and a preview of a fresh
// key shows that key. Whatever fails from here on in this run is attributed
// to the failed operation.
func (rs *runState) afterFault(step int, opKind string) {
	x := rs.x
	fired, kind := x.db.Fired > 0, x.db.LastKind
	x.db.Reset()
	rs.faultArmed = false
	if !fired || x.violated || !x.running {
		return
	}
	x.env.Count("fault.db." + map[bool]string{true: "commit", false: "write"}[kind == "commit"])
	x.env.Count("probe.fault-fired-in:" + opKind)
	x.relabel = "c10w:after-failed-op:"
	rs.observe(step, core.Op{K: "observe", A: []int64{int64(step), int64(step / 2)}})
	if x.violated {
		return
	}
	for v := range importVariants {
		if (step+v)%3 == 0 {
			rs.importdry2(step, core.Op{K: "importdry2", A: []int64{int64(v), 1, int64(20 + step%5)}})
		}
	}
}
