package walletsim

import (
	"fmt"
	"os"
	"sort"
	"strings"
	"time"

	"github.com/btcsuite/btcd/btcutil"
	"github.com/btcsuite/btcd/chaincfg/chainhash"
	"github.com/btcsuite/btcd/wire"
	"github.com/btcsuite/btcwallet/wallet"
	"github.com/btcsuite/btcwallet/walletdb"
	"github.com/btcsuite/btcwallet/wtxmgr"

	"verifsim/core"
)

// C20 — a rejected broadcast leaves no trace; unconfirmed sends are re-offered.

// answer classes of the backend for a broadcast
var answerClasses = []string{"", "", "", "transport", "reject-fee", "reject-generic", "reject-conflict", "notify-received-fails", "notify-received-2nd-fails"}

func genC20(r *core.Rand, p *core.Plan) {
	p.Sched = []string{"rtb0", "rtb0", "rtb1", "random"}[r.Intn(4)]
	p.Cfg["maturity"] = []int64{1, 1, 2, 3}[r.Intn(4)]
	// how the backend words its refusals, and which of the repository's
	// mappings turns the wording into an answer class
	p.Cfg["dialect"] = int64(r.Intn(5))
	if r.Chance(1, 5) {
		// An unconfirmed child that spends TWO outputs of the same unconfirmed
		// parent (a payment to an own address plus its change), then a restart:
		// the re-broadcast must offer parent and child again.
		p.Ops = append(p.Ops, core.Op{K: "newaddr", A: []int64{int64(r.Intn(4)), 0, 0}})
		p.Ops = append(p.Ops, core.Op{K: "fund", A: []int64{0, 60e6}})
		p.Ops = append(p.Ops, core.Op{K: "mine", A: []int64{1, 100, -1, 600, int64(r.Uint64() >> 1)}})
		p.Ops = append(p.Ops, core.Op{K: "sync"})
		p.Ops = append(p.Ops, core.Op{K: "sendself", A: []int64{int64(r.Range(20, 28)) * 1e6, int64(r.Intn(4))}})
		p.Ops = append(p.Ops, core.Op{K: "sendx", A: []int64{int64(r.Range(40, 55)) * 1e6, 0, 2000, 0, 0}})
		if r.Chance(1, 2) {
			p.Ops = append(p.Ops, core.Op{K: "sendx", A: []int64{int64(r.Range(1, 3)) * 1e6, 0, 2000, 0, 0}})
		}
		p.Ops = append(p.Ops, core.Op{K: "stop"})
		p.Ops = append(p.Ops, core.Op{K: "resend-answers", A: []int64{}})
		p.Ops = append(p.Ops, core.Op{K: "start"})
		p.Ops = append(p.Ops, core.Op{K: "sync"})
		return
	}
	if r.Chance(1, 6) {
		// An unconfirmed wallet payment whose recipient output is spent on by
		// someone else, paying the wallet; then a restart at which the
		// parent's (or the child's) re-broadcast gets some answer class.
		p.Ops = append(p.Ops, core.Op{K: "newaddr", A: []int64{int64(r.Intn(4)), 0, 0}})
		p.Ops = append(p.Ops, core.Op{K: "fund", A: []int64{0, int64(r.Range(40, 80)) * 1e6}})
		p.Ops = append(p.Ops, core.Op{K: "mine", A: []int64{1, 100, -1, 600, int64(r.Uint64() >> 1)}})
		p.Ops = append(p.Ops, core.Op{K: "sync"})
		p.Ops = append(p.Ops, core.Op{K: "sendx", A: []int64{int64(r.Range(5, 30)) * 1e6, 0, 2000, 0, 0}})
		p.Ops = append(p.Ops, core.Op{K: "fundchild", A: []int64{int64(r.Intn(4)), int64(r.Intn(4))}})
		p.Ops = append(p.Ops, core.Op{K: "sync"})
		if r.Chance(1, 3) {
			p.Ops = append(p.Ops, core.Op{K: "sendx", A: []int64{int64(r.Range(1, 3)) * 1e6, 0, 2000, 0, 0}})
		}
		p.Ops = append(p.Ops, core.Op{K: "stop"})
		a := []int64{}
		for j := 0; j < r.Range(1, 3); j++ {
			a = append(a, int64(r.Intn(7)))
		}
		p.Ops = append(p.Ops, core.Op{K: "resend-answers", A: a})
		p.Ops = append(p.Ops, core.Op{K: "start"})
		p.Ops = append(p.Ops, core.Op{K: "sync"})
		return
	}
	for i := 0; i < 2; i++ {
		p.Ops = append(p.Ops, core.Op{K: "newaddr", A: []int64{int64(r.Intn(4)), 0, 0}})
	}
	nf := r.Range(2, 5)
	for i := 0; i < nf; i++ {
		p.Ops = append(p.Ops, core.Op{K: "fund", A: []int64{int64(r.Intn(2)), int64(r.Range(5, 80)) * 1e6}})
	}
	p.Ops = append(p.Ops, core.Op{K: "mine", A: []int64{1, 100, -1, 600, int64(r.Uint64() >> 1)}})
	p.Ops = append(p.Ops, core.Op{K: "sync"})
	n := r.Range(4, 16)
	if p.Cfg["thorough"] == 1 {
		n = r.Range(12, 40)
	}
	for i := 0; i < n; i++ {
		switch r.Weighted([]int{30, 12, 10, 12, 8, 10, 8, 5, 8, 6}) {
		case 0: // send with a backend answer class; minconf 0 chains onto unconfirmed change
			p.Ops = append(p.Ops, core.Op{K: "sendx", A: []int64{int64(r.Range(1, 30)) * 1e5, int64(r.Intn(2)), int64(r.Range(1, 5)) * 1000,
				int64(r.Intn(len(answerClasses))), int64(r.Intn(3)), int64(r.Intn(8))}})
		case 1: // build, then publish (possibly twice / after it confirmed)
			p.Ops = append(p.Ops, core.Op{K: "build", A: []int64{int64(r.Range(1, 30)) * 1e5, int64(r.Intn(2)), 2000}})
			p.Ops = append(p.Ops, core.Op{K: "publish", A: []int64{int64(r.Intn(4)), int64(r.Intn(len(answerClasses))), int64(r.Intn(8))}})
			if r.Chance(1, 2) {
				if r.Chance(1, 2) {
					p.Ops = append(p.Ops, core.Op{K: "mine", A: []int64{1, 100, -1, 600, int64(r.Uint64() >> 1)}})
					p.Ops = append(p.Ops, core.Op{K: "sync"})
				}
				p.Ops = append(p.Ops, core.Op{K: "publish", A: []int64{int64(r.Intn(4)), 0}})
			}
		case 2:
			p.Ops = append(p.Ops, core.Op{K: "mine", A: []int64{int64(r.Range(1, 2)), int64(r.Range(50, 100)), -1, 600, int64(r.Uint64() >> 1)}})
		case 3:
			p.Ops = append(p.Ops, core.Op{K: "sync"})
		case 4:
			p.Ops = append(p.Ops, core.Op{K: "lease", A: []int64{int64(r.Intn(8)), int64(r.Intn(2)), int64(r.Range(10, 7200))}})
		case 5: // restart; the re-broadcast of each unmined tx gets an answer class
			p.Ops = append(p.Ops, core.Op{K: "stop"})
			if r.Chance(1, 3) {
				p.Ops = append(p.Ops, core.Op{K: "mine", A: []int64{1, int64(r.Range(0, 100)), -1, 600, int64(r.Uint64() >> 1)}})
			}
			a := []int64{}
			for j := 0; j < r.Range(0, 3); j++ {
				a = append(a, int64(r.Intn(7))) // not notify-received: irrelevant on re-broadcast
			}
			p.Ops = append(p.Ops, core.Op{K: "resend-answers", A: a})
			if r.Chance(1, 3) {
				// a publish attempted after the wallet is loaded and before
				// it has a backend (backend down at start-up)
				p.Ops = append(p.Ops, core.Op{K: "start", A: []int64{0, int64(r.Range(1, 4))}})
			} else {
				p.Ops = append(p.Ops, core.Op{K: "start"})
			}
		case 6:
			p.Ops = append(p.Ops, core.Op{K: "fund", A: []int64{int64(r.Intn(4)), int64(r.Range(5, 80)) * 1e6}})
		case 7:
			p.Ops = append(p.Ops, core.Op{K: "clock", A: []int64{int64(r.Range(1, 7200))}})
		case 9:
			p.Ops = append(p.Ops, core.Op{K: "sync"})
			p.Ops = append(p.Ops, core.Op{K: "sendcrash", A: []int64{int64(r.Range(1, 30)) * 1e5, int64(r.Intn(2))}})
		case 8:
			p.Ops = append(p.Ops, core.Op{K: "fundchild", A: []int64{int64(r.Intn(8)), int64(r.Intn(8))}})
			if r.Chance(1, 2) {
				p.Ops = append(p.Ops, core.Op{K: "sync"})
			}
		}
	}
	p.Ops = append(p.Ops, core.Op{K: "sync"})
	if r.Chance(1, 3) {
		p.Ops = append(p.Ops, core.Op{K: "resync"})
	}
}

// snapshot of what C20 compares before/after a failed broadcast
type walletSnap struct {
	bal0, bal1 btcutil.Amount
	unspent    map[wire.OutPoint]btcutil.Amount
	unmined    map[chainhash.Hash]bool
}

func (x *world) snap() (*walletSnap, error) {
	s := &walletSnap{unspent: map[wire.OutPoint]btcutil.Amount{}, unmined: map[chainhash.Hash]bool{}}
	var err error
	if s.bal0, err = x.w.CalculateBalance(0); err != nil {
		return nil, err
	}
	if s.bal1, err = x.w.CalculateBalance(1); err != nil {
		return nil, err
	}
	err = walletdb.View(x.w.Database(), func(tx walletdb.ReadTx) error {
		ns := tx.ReadBucket(wtxmgrNS)
		cs, err := x.w.TxStore.UnspentOutputs(ns)
		if err != nil {
			return err
		}
		for _, c := range cs {
			s.unspent[c.OutPoint] = c.Amount
		}
		hs, err := x.w.TxStore.UnminedTxHashes(ns)
		if err != nil {
			return err
		}
		for _, h := range hs {
			s.unmined[*h] = true
		}
		return nil
	})
	return s, err
}

func (a *walletSnap) diff(b *walletSnap) string {
	if a.bal0 != b.bal0 {
		return fmt.Sprintf("balance(minconf 0) %v -> %v", a.bal0, b.bal0)
	}
	if a.bal1 != b.bal1 {
		return fmt.Sprintf("balance(minconf 1) %v -> %v", a.bal1, b.bal1)
	}
	for op, v := range a.unspent {
		if w, ok := b.unspent[op]; !ok {
			return fmt.Sprintf("spendable output %v (%v) is gone", op, v)
		} else if w != v {
			return fmt.Sprintf("spendable output %v amount %v -> %v", op, v, w)
		}
	}
	for op, v := range b.unspent {
		if _, ok := a.unspent[op]; !ok {
			return fmt.Sprintf("new spendable output %v (%v)", op, v)
		}
	}
	for h := range a.unmined {
		if !b.unmined[h] {
			return fmt.Sprintf("unconfirmed tx %s is gone", short(h))
		}
	}
	for h := range b.unmined {
		if !a.unmined[h] {
			return fmt.Sprintf("unconfirmed tx %s appeared", short(h))
		}
	}
	return ""
}

func diffClass(d string) string {
	switch {
	case d == "":
		return ""
	case len(d) > 7 && d[:7] == "balance":
		return "balance"
	case len(d) > 9 && d[:9] == "spendable":
		return "spendable-set"
	case len(d) > 3 && d[:3] == "new":
		return "spendable-set"
	default:
		return "unconfirmed-set"
	}
}

// armAnswer prepares the backend answer class for the next broadcast.
func (x *world) armAnswer(class string) {
	switch class {
	case "":
	case "notify-received-fails":
		x.client.FailNext["NotifyReceived"] = 1
	case "notify-received-2nd-fails":
		// SendOutputs subscribes twice: for the change address while the
		// transaction is created, and for all own addresses before the
		// broadcast. Fail only the second one.
		x.client.FailNth["NotifyReceived"] = 2
	default:
		x.client.SendAnswers = append(x.client.SendAnswers, class)
	}
}

// sendx: SendOutputs with a forced backend answer and the before/after oracle.
func (rs *runState) sendx(step int, op core.Op) {
	x := rs.x
	env := x.env
	amount := op.Arg(0)
	if amount < 1000 {
		amount = 1000
	}
	minconf := int32(op.Arg(1))
	if minconf < 0 || minconf > 6 {
		minconf = 0
	}
	fee := btcutil.Amount(op.Arg(2))
	if fee < 1000 {
		fee = 1000
	}
	class := answerClasses[int(uint64(op.Arg(3))%uint64(len(answerClasses)))]
	before, err := x.snap()
	if err != nil {
		x.fail("query-failed", "snapshot: %v", err)
		return
	}
	x.foreignN++
	outs := []*wire.TxOut{{Value: amount, PkScript: foreignScript(x.foreignN)}}
	x.armAnswer(class)
	nSends := len(x.client.Sends)
	label := c20label(op.Arg(5))
	if len(label) > wtxmgr.TxLabelLimit {
		env.Count("fault.label-refused-by-the-store")
	}
	tx, err := x.w.SendOutputs(outs, nil, 0, minconf, fee, wallet.CoinSelectionLargest, label)
	// whatever was armed and not consumed must not leak into later operations
	x.client.SendAnswers = nil
	x.client.FailNext["NotifyReceived"] = 0
	x.client.FailNth["NotifyReceived"] = 0
	env.Count("op.SendOutputs")
	env.Eff()
	reached := len(x.client.Sends) > nSends
	if class != "" && (reached || strings.HasPrefix(class, "notify-received")) {
		env.Count("fault.backend-answer." + class)
	}
	after, serr := x.snap()
	if serr != nil {
		x.fail("query-failed", "snapshot: %v", serr)
		return
	}
	if err != nil {
		env.Logf("%d sendx class=%s err=%v", step, class, err)
		// The attempt failed: either nothing was created (insufficient funds,
		// ...) or the hand-over failed / the backend rejected it. In every case
		// the wallet must be as before (the change-address index aside).
		if d := before.diff(after); d != "" {
			sigc := class
			if sigc == "" {
				sigc = "honest-reject"
			}
			if !reached && !strings.HasPrefix(class, "notify-received") {
				sigc = "no-broadcast"
			}
			x.fail("failed-send-left-trace:"+diffClass(d)+":answer="+sigc, "SendOutputs returned %q (backend answer class %q, broadcast reached backend: %v) but the wallet changed: %s", err, class, reached, d)
			return
		}
		if len(before.unmined) > 0 {
			env.Count("probe.rejection-with-other-unmined")
		}
		return
	}
	env.Logf("%d sendx class=%s ok tx=%s", step, class, short(tx.TxHash()))
	x.sent = append(x.sent, tx)
	// accepted (or already in mempool): recorded exactly once, inputs
	// unspendable, change credited once
	h := tx.TxHash()
	if !after.unmined[h] {
		x.fail("accepted-send-not-recorded", "SendOutputs succeeded but tx %s is not among the wallet's unconfirmed transactions", short(h))
		return
	}
	for _, in := range tx.TxIn {
		if _, ok := after.unspent[in.PreviousOutPoint]; ok {
			x.fail("accepted-send-input-still-spendable", "input %v of the published tx %s is still in the spendable set", in.PreviousOutPoint, short(h))
			return
		}
		if _, was := before.unspent[in.PreviousOutPoint]; was && minconf == 0 {
			if x.node.Confirmed(in.PreviousOutPoint.Hash) < 0 {
				env.Count("probe.chained-unconfirmed-send")
			}
		}
	}
	var inSum, outOwn btcutil.Amount
	for _, in := range tx.TxIn {
		inSum += before.unspent[in.PreviousOutPoint]
	}
	for i := range tx.TxOut {
		if v, ok := after.unspent[wire.OutPoint{Hash: h, Index: uint32(i)}]; ok {
			outOwn += v
		}
	}
	if after.bal0 != before.bal0-inSum+outOwn {
		x.fail("accepted-send-balance", "balance(0) after an accepted send is %v, expected %v - %v (inputs) + %v (own outputs)", after.bal0, before.bal0, inSum, outOwn)
	}
}

// build: CreateSimpleTx (not a dry run) without publishing — an externally
// held transaction spending wallet coins.
func (rs *runState) build(step int, op core.Op) {
	x := rs.x
	amount := op.Arg(0)
	if amount < 1000 {
		amount = 1000
	}
	minconf := int32(op.Arg(1))
	if minconf < 0 || minconf > 6 {
		minconf = 0
	}
	fee := btcutil.Amount(op.Arg(2))
	if fee < 1000 {
		fee = 1000
	}
	x.foreignN++
	outs := []*wire.TxOut{{Value: amount, PkScript: foreignScript(x.foreignN)}}
	at, err := x.w.CreateSimpleTx(nil, 0, outs, minconf, fee, wallet.CoinSelectionLargest, false)
	x.env.Count("op.CreateSimpleTx")
	x.env.Eff()
	if err != nil {
		x.env.Logf("%d build err=%v", step, err)
		return
	}
	x.built = append(x.built, at.Tx)
	x.env.Logf("%d build tx=%s", step, short(at.Tx.TxHash()))
}

// publish: PublishTransaction of a previously built transaction.
func (rs *runState) publish(step int, op core.Op) {
	x := rs.x
	env := x.env
	if len(x.built) == 0 {
		return
	}
	tx := x.built[int(uint64(op.Arg(0))%uint64(len(x.built)))]
	class := answerClasses[int(uint64(op.Arg(1))%uint64(len(answerClasses)))]
	h := tx.TxHash()
	before, err := x.snap()
	if err != nil {
		x.fail("query-failed", "snapshot: %v", err)
		return
	}
	wasRecorded := before.unmined[h]
	confirmedBefore := x.node.Confirmed(h) >= 0
	inPoolBefore := x.node.InMempool(h)
	// Answer classes are consistent with node state: a node that already has
	// the transaction (mempool or chain) answers so; rejections and transport
	// errors are injected only for transactions that are new to it.
	if confirmedBefore || inPoolBefore {
		class = ""
	}
	// unconfirmed descendants recorded before the attempt
	desc := x.unminedDescendants(h)
	x.armAnswer(class)
	nSends := len(x.client.Sends)
	label := c20label(op.Arg(2))
	if wasRecorded || confirmedBefore || inPoolBefore {
		label = "" // a refused label on a transaction that is already recorded changes nothing: not an attempt this oracle speaks about
	}
	if len(label) > wtxmgr.TxLabelLimit {
		env.Count("fault.label-refused-by-the-store")
	}
	perr := x.w.PublishTransaction(tx, label)
	x.client.SendAnswers = nil
	x.client.FailNext["NotifyReceived"] = 0
	x.client.FailNth["NotifyReceived"] = 0
	env.Count("op.PublishTransaction")
	env.Eff()
	reached := len(x.client.Sends) > nSends
	if class != "" && (reached || strings.HasPrefix(class, "notify-received")) {
		env.Count("fault.backend-answer." + class)
	}
	answer := ""
	if reached {
		answer = x.client.Sends[len(x.client.Sends)-1].Answer
	}
	after, serr := x.snap()
	if serr != nil {
		x.fail("query-failed", "snapshot: %v", serr)
		return
	}
	env.Logf("%d publish tx=%s class=%s answer=%s err=%v recorded-before=%v", step, short(h), class, answer, perr, wasRecorded)
	switch {
	case answer == "in-mempool":
		env.Count("probe.already-in-mempool")
		// stays recorded and is counted once: nothing changes if it was
		// recorded before
		if !after.unmined[h] {
			x.fail("in-mempool-not-recorded", "backend said 'already in mempool' for %s but the wallet does not have it recorded", short(h))
			return
		}
		if wasRecorded {
			if d := before.diff(after); d != "" {
				x.fail("in-mempool-counted-twice:"+diffClass(d), "re-publishing a recorded tx the backend already has changed the wallet: %s", d)
			}
		}
	case answer == "confirmed":
		env.Count("probe.already-confirmed")
		// the wallet may keep or drop its unconfirmed record; once the
		// confirmation is notified it must not be reported unconfirmed —
		// checked at the next sync point through C20's resend oracle
	case perr != nil:
		// failed attempt (rejected, transport error, subscription failure, or
		// refused before reaching the backend): the tx and its unconfirmed
		// descendants are forgotten, everything else as before.
		c := class
		if c == "" {
			c = "honest-reject"
		}
		if after.unmined[h] {
			x.fail("failed-publish-still-recorded:answer="+c, "PublishTransaction returned %q (class %q) but tx %s is still recorded as unconfirmed", perr, class, short(h))
			return
		}
		for _, d := range desc {
			if after.unmined[d] {
				x.fail("failed-publish-descendant-still-recorded:answer="+c, "PublishTransaction of %s failed (%q) but its unconfirmed descendant %s is still recorded", short(h), perr, short(d))
				return
			}
		}
		if !wasRecorded && len(desc) == 0 {
			if d := before.diff(after); d != "" {
				x.fail("failed-publish-left-trace:"+diffClass(d)+":answer="+c, "PublishTransaction returned %q (class %q) but the wallet changed: %s", perr, class, d)
			}
		} else {
			env.Count("probe.rejection-of-recorded-tx")
			if len(desc) > 0 {
				env.Count("probe.rejection-with-recorded-child")
			}
			// everything unrelated stays
			gone := map[chainhash.Hash]bool{h: true}
			for _, d := range desc {
				gone[d] = true
			}
			for u := range before.unmined {
				if !gone[u] && !after.unmined[u] {
					x.fail("failed-publish-removed-unrelated:answer="+c, "PublishTransaction of %s failed (%q) and the unrelated unconfirmed tx %s disappeared", short(h), perr, short(u))
					return
				}
			}
		}
	default:
		if !after.unmined[h] && x.node.Confirmed(h) < 0 {
			x.fail("accepted-publish-not-recorded", "PublishTransaction succeeded but %s is not recorded", short(h))
		}
		x.sent = append(x.sent, tx)
	}
}

// c20label: no label mostly, now and then an ordinary one, now and then one
// the store refuses (longer than wtxmgr.TxLabelLimit) — a hand-over the wallet
// cannot complete.
func c20label(m int64) string {
	switch uint64(m) % 8 {
	case 6:
		return "rent, second half"
	case 7:
		return strings.Repeat("x", wtxmgr.TxLabelLimit+1)
	}
	return ""
}

// publishDetached: PublishTransaction of a built transaction while the wallet
// has no chain backend. The hand-over cannot be completed: whatever the call
// returns, an error means the transaction left no trace.
func (rs *runState) publishDetached(step int, sel int64) {
	x := rs.x
	env := x.env
	if len(x.built) == 0 || env.Failed() {
		return
	}
	tx := x.built[int(uint64(sel)%uint64(len(x.built)))]
	h := tx.TxHash()
	before, err := x.snap()
	if err != nil {
		x.fail("query-failed", "snapshot: %v", err)
		return
	}
	if before.unmined[h] || x.node.Confirmed(h) >= 0 || x.node.InMempool(h) {
		return
	}
	perr := x.w.PublishTransaction(tx, "")
	env.Count("op.PublishTransaction.without-backend")
	env.Eff()
	after, serr := x.snap()
	if serr != nil {
		x.fail("query-failed", "snapshot: %v", serr)
		return
	}
	env.Logf("%d publish-detached tx=%s err=%v", step, short(h), perr)
	if perr == nil {
		// nothing was handed over; if the wallet nevertheless accepts the
		// transaction it is one of the recorded sends from here on
		if after.unmined[h] {
			x.sent = append(x.sent, tx)
		}
		return
	}
	env.Count("fault.no-backend-at-publish")
	if after.unmined[h] {
		x.fail("failed-publish-still-recorded:answer=no-backend", "PublishTransaction returned %q (no chain backend attached) but tx %s is recorded as unconfirmed", perr, short(h))
		return
	}
	if d := before.diff(after); d != "" {
		x.fail("failed-publish-left-trace:"+diffClass(d)+":answer=no-backend", "PublishTransaction returned %q (no chain backend attached) but the wallet changed: %s", perr, d)
	}
}

// lease takes a lease on one of the currently spendable outputs.
func (rs *runState) lease(step int, op core.Op) {
	x := rs.x
	s, err := x.snap()
	if err != nil || len(s.unspent) == 0 {
		return
	}
	var ops []wire.OutPoint
	for o := range s.unspent {
		ops = append(ops, o)
	}
	sort.Slice(ops, func(i, j int) bool {
		if ops[i].Hash != ops[j].Hash {
			return ops[i].Hash.String() < ops[j].Hash.String()
		}
		return ops[i].Index < ops[j].Index
	})
	o := ops[int(uint64(op.Arg(0))%uint64(len(ops)))]
	id := wtxmgr.LockID{byte(1 + op.Arg(1)%2)}
	d := op.Arg(2)
	if d < 1 {
		d = 1
	}
	if d > 86400 {
		d = 86400
	}
	if exp, err := x.w.LeaseOutput(id, o, time.Duration(d)*time.Second); err == nil {
		x.leases[o] = exp
		x.env.Count("op.LeaseOutput")
		x.env.Eff()
	}
}

// checkResend: after a (re)synchronisation every still-unconfirmed wallet
// transaction was offered to the backend again, parents before children, and
// nothing the node had already confirmed (and notified) was offered.
func (x *world) checkResend(label string) {
	at := labelClass(label)
	// The still-unconfirmed set is read through the hash index and the
	// per-transaction lookup, NOT through UnminedTxs: that is the function the
	// re-broadcast itself uses, and an oracle must not share its failure mode.
	var unmined []*wire.MsgTx
	err := walletdb.View(x.w.Database(), func(tx walletdb.ReadTx) error {
		ns := tx.ReadBucket(wtxmgrNS)
		hs, err := x.w.TxStore.UnminedTxHashes(ns)
		if err != nil {
			return err
		}
		sort.Slice(hs, func(i, j int) bool { return hs[i].String() < hs[j].String() })
		for _, h := range hs {
			d, err := x.w.TxStore.TxDetails(ns, h)
			if err != nil {
				return err
			}
			if d != nil {
				m := d.MsgTx
				unmined = append(unmined, &m)
			}
		}
		return nil
	})
	if err != nil {
		x.fail("query-failed", "unconfirmed set: %v", err)
		return
	}
	pos := map[chainhash.Hash]int{}
	for i, s := range x.client.Sends {
		if _, ok := pos[s.TxID]; !ok {
			pos[s.TxID] = i
		}
		if h := x.node.Confirmed(s.TxID); h >= 0 && h <= s.Height && s.Answer == "confirmed" && x.resendSyncedHeight >= h {
			x.fail("resent-a-confirmed-tx:at="+at, "tx %s was offered to the backend again although it is confirmed at height %d and the wallet was synced to %d", short(s.TxID), h, x.resendSyncedHeight)
			return
		}
	}
	if len(unmined) > 0 {
		x.env.Count("probe.resend-with-unmined")
	}
	// a re-broadcast that failed makes the wallet forget the transaction and
	// its unconfirmed descendants
	now := map[chainhash.Hash]*wire.MsgTx{}
	for _, t := range unmined {
		now[t.TxHash()] = t
	}
	final := map[chainhash.Hash]string{}
	for _, s := range x.client.Sends {
		final[s.TxID] = s.Answer
	}
	for _, s := range x.client.Sends {
		if s.Answer != "reject" && s.Answer != "transport" {
			continue
		}
		if final[s.TxID] != s.Answer {
			continue // offered again later with another outcome
		}
		if now[s.TxID] != nil {
			x.fail("rejected-rebroadcast-still-recorded:at="+at, "the re-broadcast of %s failed but it is still recorded as unconfirmed", short(s.TxID))
			return
		}
		for _, t := range unmined {
			for _, in := range t.TxIn {
				if in.PreviousOutPoint.Hash == s.TxID {
					x.fail("rejected-rebroadcast-descendant-still-recorded:at="+at, "the re-broadcast of %s failed but its unconfirmed child %s is still recorded", short(s.TxID), short(t.TxHash()))
					return
				}
			}
		}
		if x.unminedChildAtStart[s.TxID] {
			x.env.Count("probe.rejection-with-recorded-child")
		}
	}
	authored := map[chainhash.Hash]bool{}
	for _, t := range x.sent {
		authored[t.TxHash()] = true
	}
	for _, t := range unmined {
		h := t.TxHash()
		if !x.unminedAtStart[h] {
			continue // arrived after the re-broadcast
		}
		i, ok := pos[h]
		if !ok {
			x.fail("unmined-not-reoffered:at="+at, "tx %s is still unconfirmed in the wallet after the resynchronisation but was not offered to the backend (offered: %d txs)", short(h), len(x.client.Sends))
			return
		}
		for _, in := range t.TxIn {
			if j, ok := pos[in.PreviousOutPoint.Hash]; ok && j > i {
				x.fail("child-reoffered-before-parent:at="+at, "tx %s was offered before its unconfirmed parent %s", short(h), short(in.PreviousOutPoint.Hash))
				return
			}
		}
		if len(t.TxIn) > 0 {
			if _, ok := pos[t.TxIn[0].PreviousOutPoint.Hash]; ok {
				x.env.Count("probe.resend-chain")
			}
		}
		cnt := map[chainhash.Hash]int{}
		for _, in := range t.TxIn {
			cnt[in.PreviousOutPoint.Hash]++
			if cnt[in.PreviousOutPoint.Hash] == 2 && x.unminedAtStart[in.PreviousOutPoint.Hash] {
				x.env.Count("probe.resend-child-of-two-outputs-of-one-parent")
			}
		}
	}
}

// unminedDescendants lists the wallet's unconfirmed transactions that
// (transitively) spend outputs of tx h.
func (x *world) unminedDescendants(h chainhash.Hash) []chainhash.Hash {
	unmined := x.unminedRaw()
	in := map[chainhash.Hash]bool{h: true}
	var out []chainhash.Hash
	for changed := true; changed; {
		changed = false
		for _, t := range unmined {
			th := t.TxHash()
			if in[th] {
				continue
			}
			for _, i := range t.TxIn {
				if in[i.PreviousOutPoint.Hash] {
					in[th] = true
					out = append(out, th)
					changed = true
					break
				}
			}
		}
	}
	return out
}

// sendself: a payment to one of the wallet's own (fresh) addresses, so that
// the transaction has two wallet outputs (payment and change).
func (rs *runState) sendself(step int, op core.Op) {
	x := rs.x
	amount := op.Arg(0)
	if amount < 10000 {
		amount = 10000
	}
	sc := scopes[int(uint64(op.Arg(1))%uint64(len(scopes)))]
	addr, err := x.w.NewAddress(0, sc)
	if err != nil {
		return
	}
	x.record(addr, sc, 0, "self")
	tx, err := x.w.SendOutputs([]*wire.TxOut{payTo(addr, amount)}, nil, 0, 1, 2000, wallet.CoinSelectionLargest, "")
	x.env.Count("op.SendOutputs")
	x.env.Eff()
	if err != nil {
		x.env.Logf("%d sendself err=%v", step, err)
		return
	}
	x.sent = append(x.sent, tx)
	x.env.Count("probe.self-payment")
	x.env.Logf("%d sendself tx=%s", step, short(tx.TxHash()))
}

// unminedRaw reads the wallet's unconfirmed transactions through the hash
// index and per-transaction lookups (independent of DependencySort).
func (x *world) unminedRaw() []*wire.MsgTx {
	var unmined []*wire.MsgTx
	_ = walletdb.View(x.w.Database(), func(tx walletdb.ReadTx) error {
		ns := tx.ReadBucket(wtxmgrNS)
		hs, err := x.w.TxStore.UnminedTxHashes(ns)
		if err != nil {
			return err
		}
		sort.Slice(hs, func(i, j int) bool { return hs[i].String() < hs[j].String() })
		for _, h := range hs {
			if d, err := x.w.TxStore.TxDetails(ns, h); err == nil && d != nil {
				m := d.MsgTx
				unmined = append(unmined, &m)
			}
		}
		return nil
	})
	return unmined
}

// fundchild: someone outside the wallet spends a NON-wallet output of one of
// the wallet's unconfirmed transactions and pays the wallet with it (a
// recipient forwarding part of what it just received; lnd's anchor sweep).
// The wallet learns of the child through the ordinary notification; if the
// parent's broadcast fails later, the child is one of the "unconfirmed
// transactions spending its outputs".
func (rs *runState) fundchild(step int, op core.Op) {
	x := rs.x
	if len(x.issuedAddrs) == 0 {
		return
	}
	authored := map[chainhash.Hash]bool{}
	for _, t := range x.sent {
		authored[t.TxHash()] = true
	}
	type cand struct {
		op  wire.OutPoint
		val int64
	}
	var cs []cand
	for _, t := range x.node.Mempool {
		id := t.TxHash()
		if !authored[id] {
			continue
		}
		for i, o := range t.TxOut {
			if _, mine := x.byScript[string(o.PkScript)]; mine || o.Value < 20000 {
				continue
			}
			po := wire.OutPoint{Hash: id, Index: uint32(i)}
			if _, spent := x.node.SpentBy(po); spent {
				continue
			}
			cs = append(cs, cand{po, o.Value})
		}
	}
	if len(cs) == 0 {
		return
	}
	c := cs[int(uint64(op.Arg(0))%uint64(len(cs)))]
	a := x.issuedAddrs[int(uint64(op.Arg(1))%uint64(len(x.issuedAddrs)))]
	tx := wire.NewMsgTx(2)
	tx.AddTxIn(&wire.TxIn{PreviousOutPoint: c.op, Sequence: 0xffffffff})
	tx.AddTxOut(payTo(a.addr, c.val/2))
	x.foreignN++
	tx.AddTxOut(&wire.TxOut{Value: c.val/2 - 1000, PkScript: foreignScript(x.foreignN)})
	if err := x.node.Accept(tx); err != nil {
		x.env.Logf("%d fundchild rejected by the node: %v", step, err)
		return
	}
	x.funding = append(x.funding, tx)
	x.env.Count("op.fundchild")
	x.env.Count("probe.foreign-child-of-wallet-tx")
	x.env.Eff()
	x.env.Logf("%d fundchild parent=%s:%d -> %s", step, short(c.op.Hash), c.op.Index, short(tx.TxHash()))
}

// sendcrash: SendOutputs, and the machine loses power at the moment the
// wallet hands the transaction to the backend: the durable state is the
// database as of that moment (transaction recorded, change address issued),
// the backend never saw it. The wallet is restarted on that state; the
// transaction is then one of the "still-unconfirmed wallet transactions" that
// must be offered to the backend at the resynchronisation.
func (rs *runState) sendcrash(task, step int, op core.Op) {
	x := rs.x
	env := x.env
	amount := op.Arg(0)
	if amount < 1000 {
		amount = 1000
	}
	before, err := x.snap()
	if err != nil {
		x.fail("query-failed", "snapshot: %v", err)
		return
	}
	var img []byte
	var crashed *wire.MsgTx
	x.client.BeforeSend = func(tx *wire.MsgTx) {
		if img == nil {
			if b, err := x.db.Image(); err == nil {
				img, crashed = b, tx
			}
		}
	}
	x.client.SendAnswers = []string{"transport"}
	x.foreignN++
	outs := []*wire.TxOut{{Value: amount, PkScript: foreignScript(x.foreignN)}}
	_, _ = x.w.SendOutputs(outs, nil, 0, int32(op.Arg(1)%2), 2000, wallet.CoinSelectionLargest, "")
	x.client.BeforeSend = nil
	x.client.SendAnswers = nil
	env.Count("op.SendOutputs")
	env.Eff()
	if img == nil {
		return // the request never got as far as the broadcast
	}
	x.harvestFaults()
	x.stop()
	if err := os.WriteFile(x.dbPath, img, 0o600); err != nil {
		env.Infra("write crash image: %v", err)
		return
	}
	env.Count("fault.crash-before-broadcast")
	x.sent = append(x.sent, crashed)
	x.unminedAtStart = map[chainhash.Hash]bool{crashed.TxHash(): true}
	for h := range before.unmined {
		x.unminedAtStart[h] = true
	}
	x.unminedChildAtStart = map[chainhash.Hash]bool{}
	env.Logf("%d sendcrash: restarted on the database as of the hand-over of %s", step, short(crashed.TxHash()))
	// the start operation's own oracle (checkResend) decides: the transaction
	// was among the unconfirmed ones at start-up, so it must have been offered
	// to the backend, parents first; if that offer is rejected (its inputs may
	// be gone by now) the wallet forgets it, as for any other rejection
	rs.exec(task, step, core.Op{K: "start"})
}

// resync (last operation of a third of the C20 plans): two resynchronisations
// inside ONE wallet session. The wallet is asked to rescan from its tip; when
// the rescan has finished it offers its unconfirmed transactions again - the
// node still has them and answers "already in mempool". Then the node loses
// its mempool (a restart of the backend; nobody is told), and a second rescan
// finishes: every transaction that is still unconfirmed in the wallet must
// have been offered again. Whatever the wallet remembered about the first
// round of answers does not excuse it.
func (rs *runState) resync(step int, op core.Op) {
	x := rs.x
	if !x.running || x.violated || len(x.issuedAddrs) == 0 {
		return
	}
	if !x.syncPoint(fmt.Sprintf("resync%d", step)) {
		return
	}
	for round := 0; round < 2; round++ {
		before := x.unminedRaw()
		n0 := len(x.client.Sends)
		st := x.w.Manager.SyncedTo()
		errc := x.w.SubmitRescan(&wallet.RescanJob{Addrs: []btcutil.Address{x.issuedAddrs[0].addr}, BlockStamp: st})
		done := false
		ok := x.quiesce(func() bool {
			if x.client.RescanActive() {
				x.client.StepRescan(0)
				return false
			}
			if x.client.Pending() > 0 {
				x.client.Deliver(0)
				return false
			}
			select {
			case <-errc:
				done = true
			default:
			}
			return done
		}, 120*time.Second)
		x.harvestFaults()
		if !ok {
			x.env.Count("abort.resync-rescan-not-finished")
			x.violated = true
			return
		}
		x.quiesce(nil, 0)
		x.env.Count("op.resync-round")
		x.env.Eff()
		offered := map[chainhash.Hash]string{}
		for _, s := range x.client.Sends[n0:] {
			offered[s.TxID] = s.Answer
		}
		still := map[chainhash.Hash]bool{}
		for _, t := range x.unminedRaw() {
			still[t.TxHash()] = true
		}
		x.env.Logf("%d resync round %d: %d unconfirmed before, %d offered, %d still unconfirmed", step, round, len(before), len(offered), len(still))
		for _, t := range before {
			h := t.TxHash()
			if !still[h] {
				continue
			}
			if _, ok := offered[h]; !ok {
				x.fail(fmt.Sprintf("unmined-not-reoffered:at=resync:round=%d", round), "tx %s is still unconfirmed in the wallet after resynchronisation %d of this session but was not offered to the backend (offered in this round: %d)", short(h), round+1, len(offered))
				return
			}
			if round == 1 {
				x.env.Count("probe.reoffered-after-backend-lost-its-mempool")
			}
		}
		if round == 0 {
			n := 0
			for _, t := range before {
				n += len(x.node.Evict(t.TxHash()))
			}
			x.env.Count("fault.backend-mempool-lost")
			x.env.Logf("%d resync: the node dropped %d mempool transactions", step, n)
		}
	}
}
