package walletsim

import (
	"time"

	"github.com/btcsuite/btcd/btcec/v2"
	"github.com/btcsuite/btcd/btcutil"
	"github.com/btcsuite/btcwallet/waddrmgr"
	"github.com/btcsuite/btcwallet/walletdb"

	"verifsim/core"
)

// Single-key imports that move the wallet's birthday back (C10, wallet
// level). Wallet.ImportPrivateKey with a block stamp BELOW the birthday block
// does four writes in one database transaction: the key, the birthday, the
// birthday block and its "verified" flag. genAcctWFaults places a database
// fault in front of it; whatever the call answers, the four must have moved
// together.

type bdayState struct {
	block    waddrmgr.BlockStamp
	verified bool
	birthday time.Time
	err      error
}

func (x *world) readBday() bdayState {
	var s bdayState
	s.err = walletdb.View(x.w.Database(), func(tx walletdb.ReadTx) error {
		var err error
		s.block, s.verified, err = x.w.Manager.BirthdayBlock(tx.ReadBucket(waddrmgrNS))
		return err
	})
	s.birthday = x.w.Manager.Birthday()
	return s
}

// bdayblock: the wallet's birthday block is raised to its current tip and
// marked verified (what the start-up sanity check writes for a wallet created
// later than genesis), so that an import below it exists.
func (rs *runState) bdayblock(step int, op core.Op) {
	x := rs.x
	if !x.running || x.violated {
		return
	}
	st := x.w.Manager.SyncedTo()
	cur := x.readBday()
	if cur.err != nil || st.Height < 2 || cur.block.Height >= st.Height {
		return
	}
	b := x.node.BlockByHash(&st.Hash)
	if b == nil || !x.node.OnBest(b) {
		return
	}
	err := walletdb.Update(x.w.Database(), func(tx walletdb.ReadWriteTx) error {
		ns := tx.ReadWriteBucket(waddrmgrNS)
		if err := x.w.Manager.SetBirthday(ns, b.Time()); err != nil {
			return err
		}
		return x.w.Manager.SetBirthdayBlock(ns, waddrmgr.BlockStamp{Height: b.Height, Hash: b.Hash, Timestamp: b.Time()}, true)
	})
	x.env.Logf("%d bdayblock -> height %d err=%v", step, b.Height, err)
}

// importkeyb: a key imported with a block stamp below the birthday block.
func (rs *runState) importkeyb(step int, op core.Op) {
	x := rs.x
	if !x.running || x.violated {
		return
	}
	before := x.readBday()
	if before.err != nil || before.block.Height < 1 || int(before.block.Height) >= len(x.node.Best) {
		return
	}
	back := int32(1 + uint64(op.Arg(1))%uint64(before.block.Height))
	b := x.node.Best[before.block.Height-back]
	bs := waddrmgr.BlockStamp{Height: b.Height, Hash: b.Hash, Timestamp: b.Time()}
	if op.Arg(2)%2 == 1 {
		bs.Timestamp = time.Time{} // the wallet asks the backend for the header time
	}
	sc := []waddrmgr.KeyScope{waddrmgr.KeyScopeBIP0044, waddrmgr.KeyScopeBIP0049Plus, waddrmgr.KeyScopeBIP0084}[int(uint64(op.Arg(0))%3)]
	x.nKeyB++
	raw := core.NewRand(core.Mix(x.p.Seed, 0x10b0+uint64(x.nKeyB))).Bytes(32)
	priv, _ := btcec.PrivKeyFromBytes(raw)
	wif, err := btcutil.NewWIF(priv, x.params, true)
	if err != nil {
		return
	}
	want, err := addrOfType(x.params, map[uint32]waddrmgr.AddressType{44: waddrmgr.PubKeyHash, 49: waddrmgr.NestedWitnessPubKey, 84: waddrmgr.WitnessPubKey}[sc.Purpose], priv.PubKey())
	if err != nil {
		return
	}
	fired0 := x.db.Fired
	as, ierr := x.w.ImportPrivateKey(sc, wif, &bs, false)
	fired := x.db.Fired > fired0
	x.env.Count("op.ImportPrivateKey.below-birthday")
	x.env.Eff()
	after := x.readBday()
	known := false
	_ = walletdb.View(x.w.Database(), func(tx walletdb.ReadTx) error {
		_, e := x.w.Manager.Address(tx.ReadBucket(waddrmgrNS), want)
		known = e == nil
		return nil
	})
	x.env.Logf("%d importkeyb scope=%d stamp=%d (birthday block %d verified=%v) -> %s err=%v fired=%v; now block %d verified=%v known=%v",
		step, sc.Purpose, bs.Height, before.block.Height, before.verified, as, ierr, fired, after.block.Height, after.verified, known)
	if after.err != nil {
		x.fail("c10w:import-key:birthday-block-unreadable", "after ImportPrivateKey (err=%v): %v", ierr, after.err)
		return
	}
	if ierr == nil {
		if fired {
			x.env.Count("probe.import-key-below-birthday:fault-fired-call-succeeded")
		}
		hdrTime := b.Time()
		switch {
		case as != want.EncodeAddress():
			x.fail("c10w:import-key:wrong-address", "ImportPrivateKey answered %s, the key's address on scope %d is %s", as, sc.Purpose, want)
		case !known:
			x.fail("c10w:import-key:success-but-key-unknown", "ImportPrivateKey answered %s but the manager does not know the address", as)
		case after.block.Height != bs.Height || after.block.Hash != bs.Hash || after.verified:
			x.fail("c10w:import-key:success-half-applied:birthday-block", "ImportPrivateKey with stamp %d below birthday block %d succeeded (database fault fired: %v) but the birthday block is now %d %s verified=%v; want %d %s verified=false",
				bs.Height, before.block.Height, fired, after.block.Height, short(after.block.Hash), after.verified, bs.Height, short(bs.Hash))
		case after.birthday.Unix() != hdrTime.Unix():
			x.fail("c10w:import-key:success-half-applied:birthday", "ImportPrivateKey with stamp %d succeeded (database fault fired: %v) but the birthday is %d, the stamp's block time is %d",
				bs.Height, fired, after.birthday.Unix(), hdrTime.Unix())
		}
		return
	}
	if !injected(ierr) && x.w.Manager.IsLocked() {
		x.env.Count("op.ImportPrivateKey.below-birthday.locked")
	} else if !injected(ierr) {
		x.fail("c10w:import-key:failed-without-fault", "ImportPrivateKey with stamp %d below birthday block %d failed without an injected fault: %v", bs.Height, before.block.Height, ierr)
		return
	}
	switch {
	case known:
		x.fail("c10w:import-key:failed-but-key-kept", "ImportPrivateKey failed (%v) but the manager knows %s", ierr, want)
	case after.block != before.block || after.verified != before.verified:
		x.fail("c10w:import-key:failed-but-birthday-block-moved", "ImportPrivateKey failed (%v) but the birthday block went from %d verified=%v to %d verified=%v", ierr, before.block.Height, before.verified, after.block.Height, after.verified)
	case !after.birthday.Equal(before.birthday):
		x.fail("c10w:import-key:failed-but-birthday-moved", "ImportPrivateKey failed (%v) but the birthday went from %d to %d", ierr, before.birthday.Unix(), after.birthday.Unix())
	}
}
