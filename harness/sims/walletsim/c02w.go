package walletsim

import (
	"fmt"
	"os"
	"path/filepath"
	"sort"
	"strings"
	"time"

	"github.com/btcsuite/btcd/btcutil"
	"github.com/btcsuite/btcd/chaincfg/chainhash"
	"github.com/btcsuite/btcd/wire"
	"github.com/btcsuite/btcwallet/walletdb"
	"github.com/btcsuite/btcwallet/wtxmgr"

	"verifsim/core"
)

// C02 at wallet level. ledgersim decides the store-level statement against
// its reference ledger with Rollback called directly; here the disconnects
// reach the store the way they do in the running wallet (wallet/chainntfns.go
// disconnectBlock, and the start-up rollback of a wallet whose remembered tip
// left the chain while it was down), inside real notification histories: the
// C15 workload — extensions, reorgs, stale and repeated notifications,
// delivery lag, stop / restart phases while the node moves, backend call
// failures, a crash at a commit — with wallet-authored spends in the mix.
//
// At every point where the wallet has caught up with the node:
//
//	(a) nothing is reported confirmed in a block that was disconnected;
//	    coinbases of disconnected blocks and everything that spends them are
//	    gone;
//	(b) a non-coinbase transaction the wallet had recorded, and which is still
//	    valid at the node (on its chain or in its mempool), is still recorded,
//	    with at least the credits it had;
//	(c) path independence: a fresh transaction store that is given only the
//	    final facts as the wallet's store reports them — its confirmed
//	    transactions block by block in height order, then its unconfirmed ones
//	    parents first, each with the wallet's credits — answers TxDetails,
//	    UnminedTxHashes, UnspentOutputs and Balance exactly like the store
//	    that lived through the history.

func genC02w(r *core.Rand, p *core.Plan) {
	genC15(r, p)
	n := len(p.Ops)
	for i := 0; i < r.Range(2, 7); i++ {
		at := r.Range(3, n)
		op := core.Op{K: "sendself", A: []int64{int64(r.Range(1, 30)) * 1e5, int64(r.Intn(4))}}
		if r.Chance(1, 4) {
			op = core.Op{K: "sync"}
		}
		if at > len(p.Ops) {
			at = len(p.Ops)
		}
		p.Ops = append(p.Ops[:at], append([]core.Op{op}, p.Ops[at:]...)...)
	}
	p.Ops = append(p.Ops, core.Op{K: "sync"})
}

type c02rec struct {
	d        wtxmgr.TxDetails
	coinbase bool
}

func c02detail(d *wtxmgr.TxDetails) string {
	var sb strings.Builder
	if d == nil {
		return "<not recorded>"
	}
	if d.Block.Height < 0 {
		sb.WriteString("unconfirmed")
	} else {
		fmt.Fprintf(&sb, "block %d %s %d", d.Block.Height, short(d.Block.Hash), d.Block.Time.Unix())
	}
	cr := append([]wtxmgr.CreditRecord{}, d.Credits...)
	sort.SliceStable(cr, func(i, j int) bool { return cr[i].Index < cr[j].Index })
	for _, c := range cr {
		fmt.Fprintf(&sb, " credit[%d]=%d spent=%v change=%v", c.Index, int64(c.Amount), c.Spent, c.Change)
	}
	db := append([]wtxmgr.DebitRecord{}, d.Debits...)
	sort.SliceStable(db, func(i, j int) bool { return db[i].Index < db[j].Index })
	for _, c := range db {
		fmt.Fprintf(&sb, " debit[%d]=%d", c.Index, int64(c.Amount))
	}
	return sb.String()
}

func (x *world) checkC02w(label string) {
	if !x.running || x.violated || x.w == nil {
		return
	}
	env := x.env
	at := labelClass(label)
	cands := map[chainhash.Hash]bool{}
	for _, id := range x.node.KnownTxIDs() {
		cands[id] = true
	}
	for _, t := range x.sent {
		cands[t.TxHash()] = true
	}
	ids := make([]chainhash.Hash, 0, len(cands))
	for id := range cands {
		ids = append(ids, id)
	}
	sort.Slice(ids, func(i, j int) bool { return ids[i].String() < ids[j].String() })

	recs := map[chainhash.Hash]*c02rec{}
	var order []chainhash.Hash
	var unminedA []*chainhash.Hash
	var unspentA []wtxmgr.Credit
	var locked int
	balA := map[int32]btcutil.Amount{}
	sync := x.w.Manager.SyncedTo()
	minconfs := []int32{0, 1, 2, int32(x.params.CoinbaseMaturity), 6}
	err := walletdb.View(x.w.Database(), func(tx walletdb.ReadTx) error {
		ns := tx.ReadBucket(wtxmgrNS)
		for i := range ids {
			d, err := x.w.TxStore.TxDetails(ns, &ids[i])
			if err != nil {
				return fmt.Errorf("TxDetails(%s): %w", short(ids[i]), err)
			}
			if d == nil {
				continue
			}
			recs[ids[i]] = &c02rec{d: *d, coinbase: isCoinbaseTx(&d.MsgTx)}
			order = append(order, ids[i])
		}
		var err error
		if unminedA, err = x.w.TxStore.UnminedTxHashes(ns); err != nil {
			return fmt.Errorf("UnminedTxHashes: %w", err)
		}
		if unspentA, err = x.w.TxStore.UnspentOutputs(ns); err != nil {
			return fmt.Errorf("UnspentOutputs: %w", err)
		}
		lo, err := x.w.TxStore.ListLockedOutputs(ns)
		if err != nil {
			return fmt.Errorf("ListLockedOutputs: %w", err)
		}
		locked = len(lo)
		for _, mc := range minconfs {
			b, err := x.w.TxStore.Balance(ns, mc, sync.Height)
			if err != nil {
				return fmt.Errorf("Balance(%d): %w", mc, err)
			}
			balA[mc] = b
		}
		return nil
	})
	if err != nil {
		x.fail("c02w:store-error", "%s: %v", label, err)
		return
	}
	env.Count("probe.c02w-checked")
	{
		ds := make([]wtxmgr.TxDetails, 0, len(order))
		for _, id := range order {
			ds = append(ds, recs[id].d)
		}
		if found, byClient, what := x.spenderAnnouncedBeforeParent(ds); found {
			if byClient {
				// not a chain-consistent notification sequence: see
				// spenderAnnouncedBeforeParent
				env.Count("observed.spender-confirmation-announced-before-its-parent's")
				env.Logf("outside the statement: %s", what)
				x.violated = true
				return
			}
			x.fail("c02w:credit-unspent-though-a-confirmed-transaction-spends-it:at="+at, "%s: %s", label, what)
			return
		}
	}

	// (a) disconnected blocks
	for _, id := range order {
		r := recs[id]
		h := r.d.Block.Height
		if h >= 0 && (int(h) >= len(x.node.Best) || x.node.Best[h].Hash != r.d.Block.Hash) {
			kind := "transaction"
			if r.coinbase {
				kind = "coinbase"
			}
			x.fail("c02w:"+kind+"-confirmed-in-disconnected-block:at="+at, "%s: %s is reported confirmed in block %d %s, which is not on the chain any more", label, short(id), h, short(r.d.Block.Hash))
			return
		}
		if h < 0 && r.coinbase {
			x.fail("c02w:coinbase-of-disconnected-block-kept:at="+at, "%s: coinbase %s is recorded as unconfirmed", label, short(id))
			return
		}
		for _, in := range r.d.MsgTx.TxIn {
			ph := in.PreviousOutPoint.Hash
			if cands[ph] && x.node.IsCoinbase(ph) && x.node.Confirmed(ph) < 0 {
				x.fail("c02w:dependant-of-disconnected-coinbase-kept:at="+at, "%s: %s spends the coinbase %s of a disconnected block and is still recorded (%s)", label, short(id), short(ph), c02detail(&r.d))
				return
			}
		}
	}

	// (b) what was recorded and is still valid stays, credits intact
	prevIDs := make([]chainhash.Hash, 0, len(x.c02prev))
	for id := range x.c02prev {
		prevIDs = append(prevIDs, id)
	}
	sort.Slice(prevIDs, func(i, j int) bool { return prevIDs[i].String() < prevIDs[j].String() })
	for _, id := range prevIDs {
		n := x.c02prev[id]
		valid := x.node.Confirmed(id) >= 0 || x.node.InMempool(id)
		r := recs[id]
		if r == nil {
			if valid && !x.node.IsCoinbase(id) {
				x.fail("c02w:valid-transaction-forgotten:at="+at, "%s: %s was recorded (%d credits) at the previous synchronised point and is still valid at the node (confirmed at %d, in mempool %v), the wallet does not know it any more", label, short(id), n, x.node.Confirmed(id), x.node.InMempool(id))
				return
			}
			continue
		}
		if len(r.d.Credits) < n {
			x.fail("c02w:credits-not-intact:at="+at, "%s: %s had %d credits at the previous synchronised point, now %s", label, short(id), n, c02detail(&r.d))
			return
		}
	}
	x.c02prev = map[chainhash.Hash]int{}
	for _, id := range order {
		x.c02prev[id] = len(recs[id].d.Credits)
		if recs[id].d.Block.Height < 0 {
			env.Count("probe.c02w-with-unconfirmed")
		}
	}

	// (c) the direct construction
	path := filepath.Join(env.Dir, "c02w-b.db")
	_ = os.Remove(path)
	bdb, err := walletdb.Create("bdb", path, true, 10*time.Second, false)
	if err != nil {
		env.Infra("c02w: create store B: %v", err)
		return
	}
	defer func() { bdb.Close(); os.Remove(path) }()
	var bs *wtxmgr.Store
	err = walletdb.Update(bdb, func(tx walletdb.ReadWriteTx) error {
		ns, err := tx.CreateTopLevelBucket(wtxmgrNS)
		if err != nil {
			return err
		}
		if err := wtxmgr.Create(ns); err != nil {
			return err
		}
		bs, err = wtxmgr.Open(ns, x.params)
		return err
	})
	if err != nil {
		x.fail("c02w:store-error:create-B", "%v", err)
		return
	}
	// order: confirmed by (height, position in the node's block), then
	// unconfirmed parents first
	pos := map[chainhash.Hash]int{}
	for _, id := range order {
		if h := recs[id].d.Block.Height; h >= 0 {
			for i, t := range x.node.Best[h].Msg.Transactions {
				if t.TxHash() == id {
					pos[id] = i
				}
			}
		}
	}
	var mined, unm []chainhash.Hash
	for _, id := range order {
		if recs[id].d.Block.Height >= 0 {
			mined = append(mined, id)
		} else {
			unm = append(unm, id)
		}
	}
	sort.SliceStable(mined, func(i, j int) bool {
		a, b := recs[mined[i]], recs[mined[j]]
		if a.d.Block.Height != b.d.Block.Height {
			return a.d.Block.Height < b.d.Block.Height
		}
		return pos[mined[i]] < pos[mined[j]]
	})
	// parents first among the unconfirmed
	placed := map[chainhash.Hash]bool{}
	isUnm := map[chainhash.Hash]bool{}
	for _, id := range unm {
		isUnm[id] = true
	}
	var unmSorted []chainhash.Hash
	for len(unmSorted) < len(unm) {
		progress := false
		for _, id := range unm {
			if placed[id] {
				continue
			}
			ready := true
			for _, in := range recs[id].d.MsgTx.TxIn {
				if ph := in.PreviousOutPoint.Hash; isUnm[ph] && !placed[ph] {
					ready = false
				}
			}
			if ready {
				placed[id] = true
				unmSorted = append(unmSorted, id)
				progress = true
			}
		}
		if !progress {
			x.fail("c02w:unconfirmed-cycle", "%s: the unconfirmed transactions of the wallet cannot be ordered parents first", label)
			return
		}
	}
	insert := func(id chainhash.Hash) error {
		r := recs[id]
		return walletdb.Update(bdb, func(tx walletdb.ReadWriteTx) error {
			ns := tx.ReadWriteBucket(wtxmgrNS)
			rec, err := wtxmgr.NewTxRecordFromMsgTx(&r.d.MsgTx, r.d.Received)
			if err != nil {
				return err
			}
			var meta *wtxmgr.BlockMeta
			if r.d.Block.Height >= 0 {
				m := r.d.Block
				meta = &m
			}
			if err := bs.InsertTx(ns, rec, meta); err != nil {
				return err
			}
			for _, c := range r.d.Credits {
				if err := bs.AddCredit(ns, rec, meta, c.Index, c.Change); err != nil {
					return err
				}
			}
			return nil
		})
	}
	for _, id := range append(mined, unmSorted...) {
		if err := insert(id); err != nil {
			x.fail("c02w:direct-construction-refused", "%s: a fresh store refuses %s (%s) of the wallet's final facts: %v", label, short(id), c02detail(&recs[id].d), err)
			return
		}
	}
	env.Count("probe.c02w-direct-construction-compared")
	if len(mined) > 0 && len(unm) > 0 {
		env.Count("probe.c02w-compared-with-both-kinds")
	}
	var unminedB []*chainhash.Hash
	var unspentB []wtxmgr.Credit
	balB := map[int32]btcutil.Amount{}
	detB := map[chainhash.Hash]*wtxmgr.TxDetails{}
	err = walletdb.View(bdb, func(tx walletdb.ReadTx) error {
		ns := tx.ReadBucket(wtxmgrNS)
		for _, id := range order {
			id := id
			d, err := bs.TxDetails(ns, &id)
			if err != nil {
				return err
			}
			detB[id] = d
		}
		var err error
		if unminedB, err = bs.UnminedTxHashes(ns); err != nil {
			return err
		}
		if unspentB, err = bs.UnspentOutputs(ns); err != nil {
			return err
		}
		for _, mc := range minconfs {
			if balB[mc], err = bs.Balance(ns, mc, sync.Height); err != nil {
				return err
			}
		}
		return nil
	})
	if err != nil {
		x.fail("c02w:store-error:read-B", "%v", err)
		return
	}
	for _, id := range order {
		a, b := c02detail(&recs[id].d), c02detail(detB[id])
		if a != b {
			x.fail("c02w:path-dependence:details:at="+at, "%s: %s\n  wallet's store: %s\n  direct:         %s", label, short(id), a, b)
			return
		}
	}
	hs := func(l []*chainhash.Hash) string {
		s := make([]string, len(l))
		for i := range l {
			s[i] = short(*l[i])
		}
		sort.Strings(s)
		return strings.Join(s, ",")
	}
	if a, b := hs(unminedA), hs(unminedB); a != b {
		x.fail("c02w:path-dependence:unmined:at="+at, "%s: unconfirmed set\n  wallet's store: %s\n  direct:         %s", label, a, b)
		return
	}
	us := func(l []wtxmgr.Credit) string {
		s := make([]string, len(l))
		for i, c := range l {
			s[i] = fmt.Sprintf("%s:%d=%d@%d cb=%v", short(c.OutPoint.Hash), c.OutPoint.Index, int64(c.Amount), c.Height, c.FromCoinBase)
		}
		sort.Strings(s)
		return strings.Join(s, " ")
	}
	if locked == 0 {
		if a, b := us(unspentA), us(unspentB); a != b {
			x.fail("c02w:path-dependence:unspent:at="+at, "%s: unspent outputs\n  wallet's store: %s\n  direct:         %s", label, a, b)
			return
		}
	}
	for _, mc := range minconfs {
		if balA[mc] != balB[mc] {
			x.fail("c02w:path-dependence:balance:at="+at, "%s: Balance(minconf %d, height %d): wallet's store %v, direct %v", label, mc, sync.Height, balA[mc], balB[mc])
			return
		}
	}
}

func isCoinbaseTx(tx *wire.MsgTx) bool {
	if len(tx.TxIn) != 1 {
		return false
	}
	p := tx.TxIn[0].PreviousOutPoint
	return p.Index == ^uint32(0) && p.Hash == (chainhash.Hash{})
}
