package walletsim

import (
	"fmt"
	"sort"
	"time"

	"github.com/btcsuite/btcd/btcutil"
	"github.com/btcsuite/btcd/chaincfg/chainhash"
	"github.com/btcsuite/btcd/wire"
	"github.com/btcsuite/btcwallet/waddrmgr"
	"github.com/btcsuite/btcwallet/walletdb"

	"verifsim/core"
	"verifsim/simchain"
	"verifsim/simrt"
)

// C16 — recovery from seed finds every used address within the look-ahead
// window.
//
// The chain is generated first (no wallet exists): blocks pay addresses that
// the harness derives independently from the seed, obeying the look-ahead
// condition exactly as the property states it: every index paid in a block is
// at most W-1 beyond the lowest index not yet paid in EARLIER blocks on that
// branch (index <= highest-paid-before + W). Then a wallet is restored from
// the seed with recovery window W and has to find everything.

func genC16(r *core.Rand, p *core.Plan) {
	p.Sched = []string{"rtb0", "rtb1", "random", "rtb3"}[r.Intn(4)]
	W := []int64{1, 2, 3, 5, 5, 20, 250}[r.Intn(7)]
	if W == 250 && !r.Chance(1, 4) {
		W = 10
	}
	p.Cfg["recovery_window"] = W
	p.Cfg["deferred_create"] = 1
	p.Cfg["maturity"] = []int64{1, 3, 100}[r.Intn(3)]
	p.Cfg["prechain"] = int64(r.Range(0, 30))
	nblocks := r.Range(3, 40)
	if r.Chance(1, 25) {
		nblocks = r.Range(2001, 2100) // crosses the hard-coded recovery batch size
		p.Cfg["prechain"] = 0
	}
	// model of the look-ahead state: highest index paid in earlier blocks
	type bk struct{ s, b int }
	highest := map[bk]int64{}
	for s := 0; s < 4; s++ {
		for b := 0; b < 2; b++ {
			highest[bk{s, b}] = -1
		}
	}
	ncoins := 0
	dense := r.Chance(1, 2)
	for blk := 0; blk < nblocks; blk++ {
		inBlock := map[bk]int64{}
		npay := 0
		if nblocks > 1000 {
			if blk%200 == 7 || blk > nblocks-4 {
				npay = r.Range(1, 2)
			}
		} else if dense || r.Chance(1, 2) {
			npay = r.Range(0, 4)
		}
		for k := 0; k < npay; k++ {
			key := bk{r.Intn(4), r.Intn(2)}
			if r.Chance(2, 3) {
				key.b = 0
			}
			hi := highest[key]
			// any index within the horizon; biased to the far edge (jumps of W-1)
			var idx int64
			switch r.Intn(4) {
			case 0:
				idx = hi + W // the last index inside the window
			case 1:
				idx = hi + 1
			default:
				idx = int64(r.Range(0, int(hi+W)))
			}
			if idx > 2000 {
				idx = hi + 1
			}
			p.Ops = append(p.Ops, core.Op{K: "pay", A: []int64{int64(key.s), int64(key.b), idx, int64(r.Range(1, 900)) * 1e5}})
			if idx > inBlock[key] || inBlock[key] == 0 {
				if idx > highest[key] {
					inBlock[key] = idx
				}
			}
			ncoins++
		}
		// spends of earlier recovered outputs (confirmed in earlier blocks)
		if ncoins > 0 && r.Chance(1, 3) {
			p.Ops = append(p.Ops, core.Op{K: "spendcoin", A: []int64{int64(r.Intn(64)), int64(r.Range(-1, 3)), int64(r.Intn(2)), int64(r.Intn(3))}})
		}
		dt := int64(r.Range(1, 1200))
		if r.Chance(1, 6) {
			dt = int64(r.Range(3600, 3*86400)) // gaps of hours to days
		}
		p.Ops = append(p.Ops, core.Op{K: "mine", A: []int64{1, 100, -1, dt, int64(r.Uint64() >> 1)}})
		for k, v := range inBlock {
			if v > highest[k] {
				highest[k] = v
			}
		}
	}
	// restore the wallet: unlocked or locked, birthday at or before the first
	// block that pays it
	unlock := int64(r.Intn(2))
	bdayBack := int64(r.Range(0, 3*86400))
	interrupts := int64(0)
	if r.Chance(1, 3) {
		interrupts = int64(r.Range(1, 3))
	}
	backendFail := int64(0)
	if r.Chance(1, 3) {
		backendFail = int64(r.Range(1, 12))
	}
	dbFault := int64(0)
	if backendFail == 0 && r.Chance(1, 4) {
		dbFault = int64(r.Range(3, 260))
	}
	p.Ops = append(p.Ops, core.Op{K: "createwallet", A: []int64{unlock, bdayBack, interrupts, int64(r.Range(1, 400)), int64(r.Intn(2)), backendFail, dbFault}})
	if r.Chance(1, 3) {
		// a caller asks for addresses while the recovery is still running or
		// waiting for its retry
		for k := 0; k < r.Range(1, 3); k++ {
			p.Ops = append(p.Ops, core.Op{K: "clock", A: []int64{int64(r.Range(1, 4))}})
			p.Ops = append(p.Ops, core.Op{K: "newaddr", A: []int64{int64(r.Intn(4)), 0, int64(r.Intn(2))}})
		}
	}
	p.Ops = append(p.Ops, core.Op{K: "sync"})
	// Resumed recovery: the wallet is stopped, the chain grows (payments keep
	// obeying the look-ahead condition relative to everything paid so far),
	// and the wallet is opened again with the same recovery window.
	for phase := 0; phase < 2 && r.Chance(1, 2) && nblocks < 1000; phase++ {
		p.Ops = append(p.Ops, core.Op{K: "stop"})
		more := r.Range(1, 8)
		// favour one branch so that "change only" scopes and long runs on a
		// single branch occur
		fav := bk{r.Intn(4), r.Intn(2)}
		for blk := 0; blk < more; blk++ {
			inBlock := map[bk]int64{}
			for k := 0; k < r.Range(1, 3); k++ {
				key := bk{r.Intn(4), r.Intn(2)}
				if r.Chance(2, 3) {
					key = fav
				}
				hi := highest[key]
				idx := hi + W
				if r.Chance(1, 3) {
					idx = int64(r.Range(0, int(hi+W)))
				}
				p.Ops = append(p.Ops, core.Op{K: "pay", A: []int64{int64(key.s), int64(key.b), idx, int64(r.Range(1, 900)) * 1e5}})
				if idx > highest[key] && idx > inBlock[key] {
					inBlock[key] = idx
				}
			}
			if r.Chance(1, 3) {
				p.Ops = append(p.Ops, core.Op{K: "spendcoin", A: []int64{int64(r.Intn(64)), int64(r.Range(-1, 3)), int64(r.Intn(2)), int64(r.Intn(3))}})
			}
			p.Ops = append(p.Ops, core.Op{K: "mine", A: []int64{1, 100, -1, int64(r.Range(1, 1200)), int64(r.Uint64() >> 1)}})
			for k, v := range inBlock {
				if v > highest[k] {
					highest[k] = v
				}
			}
		}
		if r.Chance(1, 2) {
			// a backend call fails once during the resumed recovery
			p.Ops = append(p.Ops, core.Op{K: "failnth", A: []int64{int64(r.Intn(3)), int64(r.Range(1, 4))}})
		}
		p.Ops = append(p.Ops, core.Op{K: "start"})
		p.Ops = append(p.Ops, core.Op{K: "sync"})
	}
}

type paidRec struct {
	scope  waddrmgr.KeyScope
	branch uint32
	index  uint32
	addr   btcutil.Address
	height int32
}

// harnessAddr derives address (scope, account 0, branch, index) independently.
func (x *world) harnessAddr(scope waddrmgr.KeyScope, branch, index uint32) (btcutil.Address, error) {
	bk, err := x.branchKey(scope, 0, branch)
	if err != nil {
		return nil, err
	}
	ck, err := bk.DeriveNonStandard(index) // nolint
	if err != nil {
		return nil, err
	}
	pub, err := ck.ECPubKey()
	if err != nil {
		return nil, err
	}
	return addrFor(x.params, scope, branch, pub)
}

// pay: a transaction from outside pays (scope, branch, index); the look-ahead
// condition is re-checked against what earlier BLOCKS paid (the plan may have
// been shrunk).
func (rs *runState) pay(step int, op core.Op) {
	x := rs.x
	if x.w != nil && x.running {
		return // only while no wallet is attached (before the restore, or while it is stopped)
	}
	s := scopes[int(uint64(op.Arg(0))%uint64(len(scopes)))]
	br := uint32(uint64(op.Arg(1)) % 2)
	idx := op.Arg(2)
	if idx < 0 {
		idx = 0
	}
	W := x.p.C("recovery_window", 1)
	key := fmt.Sprintf("%d/%d", s.Purpose, br)
	hi, ok := x.paidHighestMined[key]
	if !ok {
		hi = -1
	}
	if idx > hi+W {
		idx = hi + W // keep the history inside the statement's precondition
	}
	v := op.Arg(3)
	if v < 1000 {
		v = 1000
	}
	addr, err := x.harnessAddr(s, br, uint32(idx))
	if err != nil {
		return
	}
	tx := x.foreignTx([]*wire.TxOut{payTo(addr, v), {Value: 555, PkScript: foreignScript(x.foreignN)}})
	if err := x.node.Accept(tx); err != nil {
		return
	}
	x.funding = append(x.funding, tx)
	x.pendingPaid = append(x.pendingPaid, paidRec{scope: s, branch: br, index: uint32(idx), addr: addr})
	if _, dup := x.byAddr[addr.String()]; !dup {
		x.byAddr[addr.String()] = len(x.issuedAddrs)
		x.byScript[string(payTo(addr, 0).PkScript)] = len(x.issuedAddrs)
		x.issuedAddrs = append(x.issuedAddrs, issued{addr: addr, scope: s, account: 0, branch: br, index: uint32(idx), via: "pay"})
	}
	if idx == hi+W && W > 1 {
		x.env.Count("probe.paid-last-index-of-window")
	}
	x.env.Count("op.pay")
	x.env.Eff()
	x.env.Logf("%d pay %d/%d/%d %s", step, s.Purpose, br, idx, addr)
}

// spendcoin: spends a wallet output confirmed in an earlier block; the rest
// goes outside or to a wallet address inside the window.
func (rs *runState) spendcoin(step int, op core.Op) {
	x := rs.x
	if x.w != nil && x.running {
		return
	}
	coins := x.coins()
	var keys []wire.OutPoint
	// op.Arg(3) == 1: an output of a payment that is still in the mempool —
	// the spender is then confirmed in the SAME block as the payment it spends
	// (a block filter must notice outpoints it found earlier in that block)
	sameBlock := op.Arg(3) == 1
	for k, c := range coins {
		if (c.height >= 0 || sameBlock) && !(c.coinbase) {
			keys = append(keys, k)
		}
	}
	if len(keys) == 0 {
		return
	}
	sort.Slice(keys, func(i, j int) bool {
		if keys[i].Hash != keys[j].Hash {
			return keys[i].Hash.String() < keys[j].Hash.String()
		}
		return keys[i].Index < keys[j].Index
	})
	c := coins[keys[int(uint64(op.Arg(0))%uint64(len(keys)))]]
	tx := wire.NewMsgTx(2)
	tx.AddTxIn(&wire.TxIn{PreviousOutPoint: c.op, Sequence: 0xffffffff})
	x.foreignN++
	tx.AddTxOut(&wire.TxOut{Value: c.value / 2, PkScript: foreignScript(x.foreignN)})
	if op.Arg(1) >= 0 {
		// change back to the wallet: the next index of an internal/external
		// branch, inside the window by construction
		s := scopes[int(uint64(op.Arg(1))%uint64(len(scopes)))]
		br := uint32(uint64(op.Arg(2)) % 2)
		key := fmt.Sprintf("%d/%d", s.Purpose, br)
		hi, ok := x.paidHighestMined[key]
		if !ok {
			hi = -1
		}
		if addr, err := x.harnessAddr(s, br, uint32(hi+1)); err == nil {
			tx.AddTxOut(payTo(addr, c.value/2-1000))
			x.pendingPaid = append(x.pendingPaid, paidRec{scope: s, branch: br, index: uint32(hi + 1), addr: addr})
			if _, dup := x.byAddr[addr.String()]; !dup {
				x.byAddr[addr.String()] = len(x.issuedAddrs)
				x.byScript[string(payTo(addr, 0).PkScript)] = len(x.issuedAddrs)
				x.issuedAddrs = append(x.issuedAddrs, issued{addr: addr, scope: s, account: 0, branch: br, index: uint32(hi + 1), via: "spend-change"})
			}
		}
	}
	if err := x.node.Accept(tx); err != nil {
		return
	}
	x.spends = append(x.spends, tx)
	if c.height < 0 {
		x.env.Count("probe.spend-in-the-block-of-the-payment-it-spends")
	}
	x.env.Count("probe.spend-of-recovered-output")
	x.env.Eff()
	x.env.Logf("%d spendcoin %v", step, c.op)
}

// afterMine (C16): payments that got confirmed raise the per-branch highest
// index for LATER blocks.
func (x *world) afterMine(b *simchain.Block) {
	inBlock := map[chainhash.Hash]bool{}
	for _, tx := range b.Msg.Transactions {
		inBlock[tx.TxHash()] = true
	}
	var rest []paidRec
	for _, pr := range x.pendingPaid {
		confirmed := false
		for _, tx := range b.Msg.Transactions {
			for _, o := range tx.TxOut {
				if scriptEq(o.PkScript, payTo(pr.addr, 0).PkScript) {
					confirmed = true
				}
			}
		}
		if !confirmed {
			rest = append(rest, pr)
			continue
		}
		pr.height = b.Height
		x.paid = append(x.paid, pr)
		key := fmt.Sprintf("%d/%d", pr.scope.Purpose, pr.branch)
		if hi, ok := x.paidHighestMined[key]; !ok || int64(pr.index) > hi {
			x.paidHighestMined[key] = int64(pr.index)
		}
		if x.firstPayHeight < 0 {
			x.firstPayHeight = b.Height
			x.firstPayTime = b.Time()
		}
	}
	x.pendingPaid = rest
}

// createwallet: restore from seed with the recovery window; optionally
// interrupt the recovery (Stop) and resume.
func (rs *runState) createwallet(step int, op core.Op) {
	x := rs.x
	env := x.env
	if x.w != nil {
		return
	}
	// birthday: at or before the first block that pays the wallet (a wallet is
	// not paid before it exists), otherwise arbitrary
	bday := x.node.Tip().Time()
	if x.firstPayHeight >= 0 {
		bday = x.firstPayTime
	}
	back := op.Arg(1)
	if back < 0 {
		back = 0
	}
	x.birthday = bday.Add(-time.Duration(back) * time.Second)
	x.unlockAtOpen = op.Arg(0)%2 == 1
	if f := op.Arg(5); f > 0 {
		// a backend call of the recovery fails once; the wallet's own retry
		// loop (waitForSync) runs the recovery again in the same process
		m := []string{"FilterBlocks", "GetBlockHash", "GetBlockHeader"}[(f-1)%3]
		x.pendingFailNth = map[string]int{m: int(1 + ((f-1)/3)%4)}
		env.Count("fault.backend-call-during-recovery." + m)
	}
	if err := x.createDB(); err != nil {
		x.fail("setup-failed", "create: %v", err)
		return
	}
	if k := int(op.Arg(6)); k > 0 {
		// the k-th database write after the wallet is opened fails once: it
		// lands in the initial synchronisation or in a recovery batch, and
		// the wallet retries in-process
		x.db.Reset()
		x.db.Arm(k)
		env.Count("fault.db-write-during-recovery")
	}
	if err := x.open(); err != nil {
		if injected(err) {
			// the fault hit wallet.Open itself: open again, as a user would
			x.db.Reset()
			if err = x.open(); err == nil {
				goto opened
			}
		}
		x.fail("setup-failed", "open: %v", err)
		return
	}
opened:
	interrupts := int(op.Arg(2))
	if interrupts > 3 {
		interrupts = 3
	}
	for i := 0; i < interrupts && !x.violated; i++ {
		// let the recovery run for a PRNG-chosen number of scheduling points,
		// then stop the wallet (or ask it to lock) in the middle
		n := int(op.Arg(3))*(i+1)%600 + 1
		for k := 0; k < n; k++ {
			simrt.Yield("harness:let-recovery-run")
		}
		if op.Arg(4)%2 == 1 && x.unlockAtOpen {
			// a lock request arriving mid-recovery ends the recovery early; the
			// wallet retries after its retry interval and must still complete
			x.w.Lock()
			env.Count("probe.lock-during-recovery")
			env.Logf("%d lock mid-recovery", step)
			time.Sleep(6 * time.Second)
			simrt.Yield("harness:after-sleep")
			if err := x.w.Unlock(x.privPass, nil); err != nil {
				x.fail("setup-failed", "unlock: %v", err)
				return
			}
			continue
		}
		st := x.w.Manager.SyncedTo()
		x.w.Stop()
		x.w.WaitForShutdown()
		x.running = false
		_ = x.db.Close()
		env.Count("probe.recovery-interrupted")
		if st.Height < x.node.Tip().Height {
			env.Count("probe.recovery-interrupted-midway")
		}
		env.Logf("%d interrupt at synced=%d", step, st.Height)
		if f := op.Arg(5); f > 0 {
			// the resumed recovery meets a backend failure too
			m := []string{"FilterBlocks", "GetBlockHash", "GetBlockHeader"}[(f-1)%3]
			x.pendingFailNth = map[string]int{m: int(1 + ((f-1)/3+int64(i))%4)}
			env.Count("fault.backend-call-during-resumed-recovery." + m)
		}
		if err := x.reopen(); err != nil {
			x.fail("restart-failed", "reopen: %v", err)
			return
		}
	}
	env.Count("op.createwallet")
	env.Eff()
}

// checkC16 after the synchronised point that follows the restore.
func (x *world) checkC16() {
	if len(x.paid) == 0 {
		x.env.Count("probe.nothing-paid")
	}
	W := x.p.C("recovery_window", 1)
	// the block from which scanning starts is never later than the first block
	// that could pay the wallet
	if x.firstPayHeight >= 0 && x.scanMin >= 0 && x.scanMin > x.firstPayHeight {
		x.fail("scan-starts-after-first-payment", "recovery started filtering at height %d but the first block paying the wallet is %d (birthday %s, that block's time %s)",
			x.scanMin, x.firstPayHeight, x.birthday.UTC().Format(time.RFC3339), x.firstPayTime.UTC().Format(time.RFC3339))
		return
	}
	highest := map[string]int64{}
	err := walletdb.View(x.w.Database(), func(tx walletdb.ReadTx) error {
		ans := tx.ReadBucket(waddrmgrNS)
		tns := tx.ReadBucket(wtxmgrNS)
		for _, pr := range x.paid {
			key := fmt.Sprintf("%d/%d", pr.scope.Purpose, pr.branch)
			if int64(pr.index) > highest[key] || highest[key] == 0 {
				if v, ok := highest[key]; !ok || int64(pr.index) > v {
					highest[key] = int64(pr.index)
				}
			}
			ma, err := x.w.Manager.Address(ans, pr.addr)
			if err != nil {
				x.fail("used-address-not-recovered:branch="+fmt.Sprint(pr.branch), "address %s (scope %d branch %d index %d, paid in block %d, window %d) is unknown to the restored wallet: %v",
					pr.addr, pr.scope.Purpose, pr.branch, pr.index, pr.height, W, err)
				return nil
			}
			if !ma.Used(ans) {
				x.fail("used-address-not-marked-used", "address %s (index %d, paid in block %d) is known but not marked used", pr.addr, pr.index, pr.height)
				return nil
			}
		}
		// every paying and spending transaction is recorded
		for _, t := range append(append([]*wire.MsgTx(nil), x.funding...), x.spends...) {
			h := t.TxHash()
			if x.node.Confirmed(h) < 0 {
				continue
			}
			d, err := x.w.TxStore.TxDetails(tns, &h)
			if err != nil {
				return err
			}
			if d == nil {
				x.fail("relevant-tx-not-recorded", "transaction %s (confirmed at %d) pays to or spends from the wallet but is not recorded", short(h), x.node.Confirmed(h))
				return nil
			}
		}
		// spendable set equals the ledger of the generated chain
		want := x.coins()
		got, err := x.w.TxStore.UnspentOutputs(tns)
		if err != nil {
			return err
		}
		seen := map[wire.OutPoint]bool{}
		for _, c := range got {
			seen[c.OutPoint] = true
			w, ok := want[c.OutPoint]
			if !ok {
				x.fail("recovered-unspent-extra", "wallet lists %v as unspent but the chain says it is spent or not the wallet's", c.OutPoint)
				return nil
			}
			if int64(c.Amount) != w.value {
				x.fail("recovered-unspent-amount", "amount of %v is %v, chain says %d", c.OutPoint, c.Amount, w.value)
				return nil
			}
		}
		for op, c := range want {
			if !seen[op] {
				x.fail("recovered-unspent-missing", "output %v (%d sat to scope %d branch %d index %d, height %d) is unspent on chain but not in the wallet's spendable set", op, c.value, c.owner.scope.Purpose, c.owner.branch, c.owner.index, c.height)
				return nil
			}
		}
		return nil
	})
	if err != nil && !x.violated {
		x.fail("query-failed", "reading the restored wallet: %v", err)
		return
	}
	if x.violated {
		return
	}
	// balance
	var sum int64
	for _, c := range x.coins() {
		conf := x.node.Tip().Height - c.height + 1
		if c.height < 0 {
			conf = 0
		}
		if c.coinbase && conf < int32(x.params.CoinbaseMaturity) {
			continue
		}
		sum += c.value
	}
	if bal, err := x.w.CalculateBalance(0); err == nil && int64(bal) != sum {
		x.fail("recovered-balance", "balance after recovery is %v, the generated chain holds %d sat for the wallet", bal, sum)
		return
	}
	// each branch's next index is above the highest used one
	for _, s := range scopes {
		c, err := x.keyCounts(s, 0)
		if err != nil {
			continue
		}
		for br := uint32(0); br < 2; br++ {
			hi, ok := highest[fmt.Sprintf("%d/%d", s.Purpose, br)]
			if !ok {
				continue
			}
			n := c.ext
			if br == 1 {
				n = c.int
			}
			if int64(n) <= hi {
				x.fail("next-index-not-above-highest-used:branch="+fmt.Sprint(br), "scope %d branch %d: highest used index %d but the account's key count is %d", s.Purpose, br, hi, n)
				return
			}
		}
	}
	x.env.State("c16:%d:%d", len(x.paid), W)
}
