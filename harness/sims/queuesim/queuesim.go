// Package queuesim decides C18 ("chain notifications are delivered in order,
// none lost or duplicated") for the real chain.ConcurrentQueue.
//
// chain/queue.go is rewritten by tools/instrument in mediated-channel mode:
// the queue's goroutine is a task of the simulator and every select in it —
// including which of "take from chanIn" / "push to chanOut" fires when both
// are possible — is a decision of the run's PRNG. Producers and the consumer
// are harness tasks that use the same mediated channel operations.
package queuesim

import (
	"fmt"
	"sort"
	"time"

	"github.com/anishathalye/porcupine"
	"github.com/btcsuite/btcwallet/chain"

	"verifsim/core"
	"verifsim/simrt"
)

type sim struct{}

func init() { core.Register(sim{}) }

func (sim) Name() string    { return "queuesim" }
func (sim) Props() []string { return []string{"C18"} }
func (sim) Level(string) string { return "exploration" }
func (sim) Rule(string) string {
	return "C18: a case is (buffer size, phase list of producer bursts / consumer receives / stop placement, scheduling strategy and seed); " +
		"the queue worker, 1-2 producers, the consumer and a controller are tasks whose every channel operation and select clause choice is decided by the seeded scheduler."
}
func (sim) Components() map[string][]string {
	return map[string][]string{
		"real":    {"chain.ConcurrentQueue (chain/queue.go, instrumented from the working tree)"},
		"stub":    {"Go channel runtime for the queue's channels (simrt mediated select: same semantics, PRNG choice)", "producers/consumer (harness tasks)"},
		"not_run": {"chain backends that own a queue (bitcoind, btcd, neutrino clients)"},
	}
}
func (sim) Assumptions() []string {
	return []string{"simrt's mediated channel operations implement Go's channel semantics (buffered FIFO, rendezvous, close) — exercised by the determinism and transparency self-tests"}
}
func (sim) Explain(prop string, st map[string]int64) string {
	s := "probes: "
	for _, k := range []string{"probe.overflow-used", "probe.consumer-idle-burst", "probe.stop-mid-burst", "probe.buf0", "probe.two-producers", "probe.porcupine-checked", "probe.worker-select-steps"} {
		s += fmt.Sprintf("%s=%d ", k, st[k])
		if st[k] == 0 {
			s += "(COVERAGE HOLE) "
		}
	}
	return s
}

// Ops: T = 0,1 producers; 2 consumer; 3 controller.
//   {K:"send", T:p, A:[n]}   producer p sends its next n items
//   {K:"recv", T:2, A:[n]}   consumer receives n items
//   {K:"yield", T:x, A:[n]}  n extra scheduling points
//   {K:"stop", T:3}          controller stops the queue
//   {K:"barrier"}            main waits for quiescence and checks progress

func (sim) Generate(prop, tier string, seed uint64) *core.Plan {
	r := core.NewRand(seed)
	bufs := []int64{0, 0, 1, 1, 2, 5, 20}
	p := &core.Plan{Cfg: map[string]int64{}}
	buf := bufs[r.Intn(len(bufs))]
	p.Cfg["buf"] = buf
	nprod := 1
	if r.Chance(1, 4) {
		nprod = 2
	}
	p.Cfg["producers"] = int64(nprod)
	strategies := []string{"random", "random", "pct", "rtb0", "rtb2", "rtb4"}
	p.Sched = strategies[r.Intn(len(strategies))]
	p.SchedSeed = r.Uint64()
	total, sent, recvd := 0, 0, 0
	maxItems := 60
	if nprod == 2 {
		maxItems = 16 // keeps the porcupine history small
	}
	phases := r.Range(1, 5)
	stopped := false
	for ph := 0; ph < phases && !stopped; ph++ {
		// producer bursts, longer than the buffer
		for pr := 0; pr < nprod; pr++ {
			if r.Chance(4, 5) && total < maxItems {
				n := r.Range(1, int(buf)*2+6)
				if total+n > maxItems {
					n = maxItems - total
				}
				if n > 0 {
					p.Ops = append(p.Ops, core.Op{K: "send", T: pr, A: []int64{int64(n)}})
					total += n
					sent += n
				}
			}
		}
		// the consumer may do nothing at all in this phase (slow consumer)
		if r.Chance(3, 5) {
			avail := sent - recvd
			if avail > 0 {
				n := r.Range(1, avail)
				if r.Chance(1, 3) {
					p.Ops = append(p.Ops, core.Op{K: "yield", T: 2, A: []int64{int64(r.Range(1, 30))}})
				}
				p.Ops = append(p.Ops, core.Op{K: "recv", T: 2, A: []int64{int64(n)}})
				recvd += n
			}
		}
		if ph == phases-1 && r.Chance(1, 2) {
			if r.Chance(1, 2) {
				p.Ops = append(p.Ops, core.Op{K: "yield", T: 3, A: []int64{int64(r.Range(0, 40))}})
			}
			p.Ops = append(p.Ops, core.Op{K: "stop", T: 3})
			stopped = true
		}
		p.Ops = append(p.Ops, core.Op{K: "barrier"})
	}
	if !stopped {
		// drain and stop cleanly at the end
		if sent-recvd > 0 && r.Chance(2, 3) {
			p.Ops = append(p.Ops, core.Op{K: "recv", T: 2, A: []int64{int64(sent - recvd)}})
			p.Ops = append(p.Ops, core.Op{K: "barrier"})
		}
		p.Ops = append(p.Ops, core.Op{K: "stop", T: 3})
		p.Ops = append(p.Ops, core.Op{K: "barrier"})
	}
	return p
}

type item struct{ prod, seq int }

type hop struct {
	client   int
	enq      bool
	it       item
	call     int
	ret      int
	complete bool
}

func (sim) Execute(env *core.Env, p *core.Plan) {
	buf := int(p.C("buf", 0))
	if buf < 0 {
		buf = 0
	}
	if buf > 64 {
		buf = 64
	}
	nprod := int(p.C("producers", 1))
	if nprod < 1 {
		nprod = 1
	}
	if nprod > 2 {
		nprod = 2
	}
	if buf == 0 {
		env.Count("probe.buf0")
	}
	if nprod == 2 {
		env.Count("probe.two-producers")
	}
	strategy := p.Sched
	if strategy == "" {
		strategy = "random"
	}

	// shared state: only one task runs at a time (scheduler), so plain
	// variables are safe and deterministic.
	var (
		q          *chain.ConcurrentQueue
		stopped    bool
		received   []item
		hist       []*hop
		sentDone   = make([]int, nprod) // completed sends per producer
		sentIssued = make([]int, nprod)
		recvWanted int
		violated   bool
	)
	fail := func(sig, format string, a ...any) {
		if !violated {
			violated = true
			env.Fail("C18", sig, format, a...)
		}
	}
	type tq struct{ ch chan []core.Op }
	tasks := make([]*tq, 4)
	for i := range tasks {
		tasks[i] = &tq{ch: make(chan []core.Op, 64)}
	}
	pending := make([]int, 4) // ops handed to a task and not finished
	nextSeq := make([]int, nprod)

	runTask := func(ti int) {
		for {
			ops, ok := simrt.Recv2("harness:taskq", (<-chan []core.Op)(tasks[ti].ch))
			if !ok {
				return
			}
			for _, op := range ops {
				switch op.K {
				case "yield":
					n := int(op.Arg(0))
					if n > 200 {
						n = 200
					}
					for i := 0; i < n; i++ {
						simrt.Yield("harness:yield")
					}
				case "send":
					n := int(op.Arg(0))
					if n > 200 {
						n = 200
					}
					for i := 0; i < n; i++ {
						if stopped {
							break // nobody reads chanIn after Stop; a send would block forever, legitimately
						}
						it := item{ti, nextSeq[ti]}
						nextSeq[ti]++
						sentIssued[ti]++
						h := &hop{client: ti, enq: true, it: it, call: simrt.Step()}
						hist = append(hist, h)
						simrt.Send("harness:send", q.ChanIn(), interface{}(it))
						h.ret, h.complete = simrt.Step(), true
						sentDone[ti]++
						env.Logf("send %v done step=%d", it, h.ret)
					}
				case "recv":
					n := int(op.Arg(0))
					if n > 400 {
						n = 400
					}
					for i := 0; i < n; i++ {
						h := &hop{client: 2, enq: false, call: simrt.Step()}
						hist = append(hist, h)
						v, ok := simrt.Recv2("harness:recv", q.ChanOut())
						if !ok {
							fail("chanout-closed", "the output channel was closed")
							return
						}
						it, isItem := v.(item)
						if !isItem {
							fail("foreign-item", "received a value that was never sent: %v", v)
							return
						}
						h.it, h.ret, h.complete = it, simrt.Step(), true
						received = append(received, it)
						env.Logf("recv %v step=%d", it, h.ret)
					}
				case "stop":
					if !stopped {
						stopped = true
						env.Count("op.stop")
						q.Stop()
					}
				}
				pending[ti]--
			}
		}
	}

	checkOrder := func(where string) {
		// per producer: exactly the sequence 0,1,2,... (no loss, no duplicate,
		// no reordering); items of one producer arrive in the order sent.
		next := make([]int, nprod)
		for _, it := range received {
			if it.prod < 0 || it.prod >= nprod {
				fail("foreign-item", "item of unknown producer %v", it)
				return
			}
			if it.seq != next[it.prod] {
				switch {
				case it.seq < next[it.prod]:
					fail("duplicate", "%s: item %v delivered again (received so far %v)", where, it, received)
				default:
					fail("reordered-or-lost", "%s: item %v delivered while %d of producer %d was still outstanding (received %v)", where, it, next[it.prod], it.prod, received)
				}
				return
			}
			next[it.prod]++
		}
		for pr := 0; pr < nprod; pr++ {
			if next[pr] > sentIssued[pr] {
				fail("foreign-item", "%s: more items received than sent", where)
			}
		}
	}

	main := func() {
		q = chain.NewConcurrentQueue(buf)
		q.Start() // the worker is task "m.0"
		for i := 0; i < 4; i++ {
			i := i
			simrt.GoNamed(fmt.Sprintf("t%d", i), func() { runTask(i) })
		}
		phaseOps := make([][]core.Op, 4)
		flush := func() {
			for ti := 0; ti < 4; ti++ {
				if len(phaseOps[ti]) > 0 {
					pending[ti] += len(phaseOps[ti])
					simrt.Send("harness:taskq", (chan<- []core.Op)(tasks[ti].ch), phaseOps[ti])
					phaseOps[ti] = nil
				}
			}
		}
		phaseHadRecv, phaseHadSend, phaseHadStop := false, false, false
		planned := 0 // items the producers have been asked to send so far
		for i, op := range p.Ops {
			env.Step(i)
			if violated {
				break
			}
			switch op.K {
			case "send":
				if op.T >= 0 && op.T < nprod && op.Arg(0) > 0 && !phaseHadStop && !stopped {
					n := op.Arg(0)
					if n > 200 {
						n = 200
					}
					planned += int(n)
					phaseOps[op.T] = append(phaseOps[op.T], op)
					phaseHadSend = true
					env.Count("op.send")
					env.Eff()
				}
			case "recv":
				n := int(op.Arg(0))
				// precondition against the model: never ask for more than has
				// been handed to the producers (the consumer would wait forever,
				// legitimately)
				tot := planned
				if n > tot-recvWanted {
					n = tot - recvWanted
				}
				if n > 0 && !stopped && !phaseHadStop {
					o := op
					o.A = []int64{int64(n)}
					phaseOps[2] = append(phaseOps[2], o)
					recvWanted += n
					phaseHadRecv = true
					env.Count("op.recv")
					env.Eff()
				}
			case "yield":
				if op.T >= 0 && op.T < 4 {
					phaseOps[op.T] = append(phaseOps[op.T], op)
				}
			case "stop":
				phaseOps[3] = append(phaseOps[3], op)
				phaseHadStop = true
				if phaseHadSend {
					env.Count("probe.stop-mid-burst")
				}
				env.Eff()
			case "barrier":
				flush()
				simrt.WaitIdle("harness:barrier")
				env.Count("op.barrier")
				if phaseHadSend && !phaseHadRecv {
					env.Count("probe.consumer-idle-burst")
				}
				tot := 0
				for pr := 0; pr < nprod; pr++ {
					tot += sentDone[pr]
				}
				if tot-len(received) > buf+1 {
					env.Count("probe.overflow-used")
				}
				checkOrder("at barrier")
				if !stopped && !violated {
					// Quiescent and not stopped: every send handed out so far
					// must have completed (the producer is never blocked by a
					// slow consumer), and every receive that was covered by a
					// send must have completed (nothing lost).
					for pr := 0; pr < nprod; pr++ {
						if pending[pr] > 0 {
							fail("producer-blocked", "producer %d still has %d unfinished operations at quiescence (blocked at %q) with the consumer idle; sent=%d received=%d buf=%d",
								pr, pending[pr], simrt.Blocked(fmt.Sprintf("t%d", pr)), sentDone[pr], len(received), buf)
						}
					}
					if pending[2] > 0 && !violated {
						fail("item-lost", "consumer still waits at quiescence although %d items were sent and only %d received (buf=%d)", tot, len(received), buf)
					}
				}
				env.State("b:%d:%d", tot, len(received))
				phaseHadRecv, phaseHadSend, phaseHadStop = false, false, false
			}
		}
		flush()
		simrt.WaitIdle("harness:final")
		checkOrder("at end")
		if stopped && !violated {
			// stopping the queue terminates its worker
			for _, id := range simrt.Alive() {
				if id == "m.0" {
					fail("worker-alive-after-stop", "the queue's goroutine is still alive at quiescence after Stop (blocked at %q)", simrt.Blocked("m.0"))
				}
			}
		}
		for ti := range tasks {
			simrt.Close("harness:close", tasks[ti].ch)
		}
	}

	rep := simrt.Run(simrt.Config{Seed: p.SchedSeed, Strategy: strategy, MediateChans: true,
		StuckAfter: 2 * time.Hour, MaxSteps: 400000, ExpectedSteps: 40 + 12*len(p.Ops), Trace: env.Verbose}, main)
	env.Add("sched.steps", int64(rep.Steps))
	env.Add("sched.preemptions", int64(rep.Preemptions))
	env.Add("probe.worker-select-steps", int64(rep.SiteHits["select:chain"]))
	for _, k := range core.SortedKeys(rep.SiteHits) {
		env.Add("site."+k, int64(rep.SiteHits[k]))
	}
	env.State("sched:%x recv:%v", rep.SchedHash, received)
	env.Logf("steps=%d sched=%x received=%v", rep.Steps, rep.SchedHash, received)
	if env.Verbose {
		for _, d := range rep.Decisions {
			env.Logf("sched %s", d)
		}
	}
	if rep.StepLimit && !violated {
		fail("step-limit", "the run did not quiesce within %d scheduling steps", rep.Steps)
	}
	if rep.Stuck && !violated {
		fail("stuck", "no runnable task for the liveness bound: %s", rep.StuckInfo)
	}
	// linearizability against a FIFO queue model (porcupine), on the complete
	// operations only; stamped with scheduler step numbers.
	if !violated && len(hist) <= 48 {
		var ops []porcupine.Operation
		ok := true
		for _, h := range hist {
			if !h.complete {
				if h.enq {
					// a pending enqueue may or may not have taken effect: only
					// histories without pending enqueues are fed to the checker
					ok = false
				}
				continue
			}
			in := qin{enq: h.enq, it: h.it}
			ops = append(ops, porcupine.Operation{ClientId: h.client, Input: in, Call: int64(h.call), Output: h.it, Return: int64(h.ret)})
		}
		if ok && len(ops) > 0 {
			sort.SliceStable(ops, func(i, j int) bool { return ops[i].Call < ops[j].Call })
			env.Count("probe.porcupine-checked")
			if !porcupine.CheckOperations(queueModel, ops) {
				fail("not-linearizable", "history of %d operations is not linearizable w.r.t. a FIFO queue: %v", len(ops), describe(hist))
			}
		}
	}
}

type qin struct {
	enq bool
	it  item
}

var queueModel = porcupine.Model{
	Init: func() interface{} { return []item(nil) },
	Step: func(state, input, output interface{}) (bool, interface{}) {
		st := state.([]item)
		in := input.(qin)
		if in.enq {
			ns := append(append([]item(nil), st...), in.it)
			return true, ns
		}
		out := output.(item)
		if len(st) == 0 || st[0] != out {
			return false, st
		}
		return true, append([]item(nil), st[1:]...)
	},
	Equal: func(a, b interface{}) bool {
		x, y := a.([]item), b.([]item)
		if len(x) != len(y) {
			return false
		}
		for i := range x {
			if x[i] != y[i] {
				return false
			}
		}
		return true
	},
}

func describe(h []*hop) string {
	s := ""
	for _, o := range h {
		k := "deq"
		if o.enq {
			k = "enq"
		}
		s += fmt.Sprintf("[%s %v %d-%d c=%v] ", k, o.it, o.call, o.ret, o.complete)
	}
	return s
}
