package migsim

import (
	"bytes"
	"encoding/binary"
	"errors"
	"path/filepath"
	"time"

	"github.com/btcsuite/btcd/btcutil/hdkeychain"
	"github.com/btcsuite/btcd/chaincfg"
	"github.com/btcsuite/btcwallet/waddrmgr"
	"github.com/btcsuite/btcwallet/wallet"
	"github.com/btcsuite/btcwallet/walletdb"
	"github.com/btcsuite/btcwallet/walletdb/migration"
	"github.com/btcsuite/btcwallet/wtxmgr"

	"verifsim/core"
	"verifsim/faultdb"
	"verifsim/models/dbmodel"
)

// Namespace keys and version locations of a real wallet database (wallet.go:
// waddrmgrNamespaceKey / wtxmgrNamespaceKey; wtxmgr/db.go putVersion: key
// "vers" in the namespace, big endian; waddrmgr/db.go putManagerVersion: key
// "mgrver" in bucket "main", little endian).
var (
	waddrmgrNS = []byte("waddrmgr")
	wtxmgrNS   = []byte("wtxmgr")
)

type snapshot struct {
	tree *dbmodel.Bucket
	img  []byte
}

// realWallet: the real managers on a real wallet database. (a) Upgrading an
// up-to-date database changes nothing. (b) A database whose wtxmgr (then
// waddrmgr) version was raised above the latest is refused by the upgrade
// path of wallet.OpenWithRetry, by wallet.Open itself and by the component's
// own Open, and neither the contents nor the file bytes change.
func (x *exec) realWallet() {
	env := x.env
	params := &chaincfg.TestNet3Params
	pub, priv := []byte("public"), []byte("private")
	inner, err := walletdb.Create("bdb", filepath.Join(env.Dir, "wallet.db"), true, 10*time.Second, false)
	if err != nil {
		x.fail("harness:real-create", "%v", err)
		return
	}
	db := faultdb.Wrap(inner)
	defer db.Close()
	seed := core.NewRand(core.Mix(x.p.Seed, 0x77)).Bytes(32)
	root, err := hdkeychain.NewMaster(seed, params)
	if err != nil {
		return // unusable seed (probability 2^-127): nothing to check
	}
	err = walletdb.Update(db, func(tx walletdb.ReadWriteTx) error {
		a, err := tx.CreateTopLevelBucket(waddrmgrNS)
		if err != nil {
			return err
		}
		t, err := tx.CreateTopLevelBucket(wtxmgrNS)
		if err != nil {
			return err
		}
		if err := waddrmgr.Create(a, root, pub, priv, params, &waddrmgr.FastScryptOptions, time.Unix(1600000000, 0)); err != nil {
			return err
		}
		return wtxmgr.Create(t)
	})
	if err != nil {
		x.fail("harness:real-setup", "creating the wallet database failed: %v", err)
		return
	}
	snap := func() (snapshot, bool) {
		var s snapshot
		var prob string
		err := walletdb.View(db, func(tx walletdb.ReadTx) error {
			s.tree, prob = dbmodel.DumpTx(tx)
			return nil
		})
		if err == nil && prob == "" {
			s.img, err = db.Image()
		}
		if err != nil || prob != "" {
			x.fail("harness:real-dump", "%v %s", err, prob)
			return s, false
		}
		return s, true
	}
	// the upgrade exactly as wallet.OpenWithRetry runs it
	upgradePath := func() error {
		return walletdb.Update(db, func(tx walletdb.ReadWriteTx) error {
			a := tx.ReadWriteBucket(waddrmgrNS)
			t := tx.ReadWriteBucket(wtxmgrNS)
			if a == nil || t == nil {
				return errSetup
			}
			return migration.Upgrade(wtxmgr.NewMigrationManager(t), waddrmgr.NewMigrationManager(a))
		})
	}
	openPath := func() error {
		w, err := wallet.Open(db, pub, nil, params, 10)
		if err == nil && w != nil && w.Manager != nil {
			w.Manager.Close()
		}
		return err
	}
	unchanged := func(before snapshot, sig string, bytesToo bool) bool {
		after, ok := snap()
		if !ok {
			return false
		}
		if d := dbmodel.Diff(before.tree, after.tree); d != "" {
			x.fail(sig, "the wallet database was modified: %s", d)
			return false
		}
		if bytesToo && !bytes.Equal(before.img, after.img) {
			x.fail(sig+":file-bytes", "the wallet database file bytes changed (contents compare equal)")
			return false
		}
		return true
	}

	// ---- (a) up to date: nothing to do
	x.step++
	env.Step(x.step)
	s0, ok := snap()
	if !ok {
		return
	}
	if err := upgradePath(); err != nil {
		x.fail("upgrade-failed:real=uptodate:path=upgrade", "upgrading a freshly created wallet database failed: %v", err)
		return
	}
	if !unchanged(s0, "uptodate-modified-db:path=upgrade", false) {
		return
	}
	if err := openPath(); err != nil {
		x.fail("upgrade-failed:real=uptodate:path=wallet.Open", "wallet.Open on a freshly created wallet database failed: %v", err)
		return
	}
	if !unchanged(s0, "uptodate-modified-db:path=wallet.Open", false) {
		return
	}
	env.Count("probe.real-wallet-uptodate")
	env.Eff()
	env.Logf("real uptodate ok")

	raise := uint32(mod(x.p.C("real_raise", 1), 1000))
	if raise == 0 {
		raise = 1
	}
	// setVersion writes the stored version of a component directly.
	type comp struct {
		name string
		set  func(tx walletdb.ReadWriteTx, v uint32) error
		get  func(tx walletdb.ReadTx) (uint32, bool)
		open func(tx walletdb.ReadTx) error
	}
	comps := []comp{
		{"wtxmgr",
			func(tx walletdb.ReadWriteTx, v uint32) error {
				var b [4]byte
				binary.BigEndian.PutUint32(b[:], v)
				return tx.ReadWriteBucket(wtxmgrNS).Put([]byte("vers"), b[:])
			},
			func(tx walletdb.ReadTx) (uint32, bool) {
				v := tx.ReadBucket(wtxmgrNS).Get([]byte("vers"))
				if len(v) != 4 {
					return 0, false
				}
				return binary.BigEndian.Uint32(v), true
			},
			func(tx walletdb.ReadTx) error {
				_, err := wtxmgr.Open(tx.ReadBucket(wtxmgrNS), params)
				return err
			}},
		{"waddrmgr",
			func(tx walletdb.ReadWriteTx, v uint32) error {
				var b [4]byte
				binary.LittleEndian.PutUint32(b[:], v)
				return tx.ReadWriteBucket(waddrmgrNS).NestedReadWriteBucket([]byte("main")).Put([]byte("mgrver"), b[:])
			},
			func(tx walletdb.ReadTx) (uint32, bool) {
				m := tx.ReadBucket(waddrmgrNS).NestedReadBucket([]byte("main"))
				if m == nil {
					return 0, false
				}
				v := m.Get([]byte("mgrver"))
				if len(v) != 4 {
					return 0, false
				}
				return binary.LittleEndian.Uint32(v), true
			},
			func(tx walletdb.ReadTx) error {
				m, err := waddrmgr.Open(tx.ReadBucket(waddrmgrNS), pub, params)
				if err == nil && m != nil {
					m.Close()
				}
				return err
			}},
	}
	for _, c := range comps {
		if env.Failed() {
			return
		}
		x.step++
		env.Step(x.step)
		var cur uint32
		var found bool
		_ = walletdb.View(db, func(tx walletdb.ReadTx) error { cur, found = c.get(tx); return nil })
		if !found {
			x.fail("harness:real-version-key:"+c.name, "stored version of %s not found where expected", c.name)
			return
		}
		if err := walletdb.Update(db, func(tx walletdb.ReadWriteTx) error { return c.set(tx, cur+raise) }); err != nil {
			x.fail("harness:real-raise:"+c.name, "%v", err)
			return
		}
		before, ok := snap()
		if !ok {
			return
		}
		// the upgrade step of OpenWithRetry
		err := upgradePath()
		if err == nil {
			x.fail("reversion-accepted:real="+c.name+":path=upgrade", "%s version raised from %d to %d, but the upgrade succeeded", c.name, cur, cur+raise)
			return
		}
		if !errors.Is(err, migration.ErrReversion) {
			x.fail("reversion-wrong-error:real="+c.name+":path=upgrade", "upgrade returned %q, want migration.ErrReversion", err)
			return
		}
		if !unchanged(before, "reversion-modified-db:real="+c.name+":path=upgrade", true) {
			return
		}
		// wallet.Open as a whole
		if err := openPath(); err == nil {
			x.fail("reversion-accepted:real="+c.name+":path=wallet.Open", "%s version raised from %d to %d, but wallet.Open succeeded", c.name, cur, cur+raise)
			return
		}
		if !unchanged(before, "reversion-modified-db:real="+c.name+":path=wallet.Open", true) {
			return
		}
		// the component's own version check on Open
		var oerr error
		_ = walletdb.View(db, func(tx walletdb.ReadTx) error { oerr = c.open(tx); return nil })
		if oerr == nil {
			x.fail("reversion-accepted:real="+c.name+":path="+c.name+".Open", "%s.Open accepted a database of version %d (latest %d)", c.name, cur+raise, cur)
			return
		}
		if !unchanged(before, "reversion-modified-db:real="+c.name+":path="+c.name+".Open", true) {
			return
		}
		env.Count("probe.real-wallet-reversion-" + c.name)
		env.Eff()
		env.Logf("real reversion %s refused", c.name)
		// restore
		if err := walletdb.Update(db, func(tx walletdb.ReadWriteTx) error { return c.set(tx, cur) }); err != nil {
			x.fail("harness:real-restore:"+c.name, "%v", err)
			return
		}
	}
	// restored: it opens again
	if env.Failed() {
		return
	}
	if err := openPath(); err != nil {
		x.fail("upgrade-failed:real=restored:path=wallet.Open", "wallet.Open after restoring the versions failed: %v", err)
	}
}
