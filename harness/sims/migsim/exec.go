package migsim

import (
	"bytes"
	"encoding/binary"
	"errors"
	"fmt"
	"path/filepath"
	"sort"
	"time"

	"github.com/btcsuite/btcwallet/walletdb"
	_ "github.com/btcsuite/btcwallet/walletdb/bdb"
	"github.com/btcsuite/btcwallet/walletdb/migration"

	"verifsim/core"
	"verifsim/faultdb"
	"verifsim/models/dbmodel"
)

var (
	errMig       = errors.New("migsim: migration failed on purpose")
	errNoVersion = errors.New("migsim: no version stored in namespace")
	errSetup     = errors.New("migsim: namespace bucket missing")

	verKey   = []byte("ver")
	traceKey = "trace"
)

func nsKey(i int) []byte { return []byte(fmt.Sprintf("svc%d", i)) }

func be32(v uint32) []byte {
	var b [4]byte
	binary.BigEndian.PutUint32(b[:], v)
	return b[:]
}

// entry is one declared version of a table.
type entry struct {
	num       uint32
	has       bool // has a migration function (false: nil Migration)
	nMut      int
	seed      int64
	failAfter int
}

// ---------------------------------------------------------------- migrations

// store is what a generated migration programs against; it has a real
// (walletdb bucket) and a model (dbmodel bucket) implementation, so that the
// migration PROGRAMS are written once. Which of them run, in which order and
// how often is decided by the code under test on one side and by the model
// (expectation below) on the other.
type store interface {
	get(k string) []byte
	put(k string, v []byte) error
	del(k string) error
	sub(k string) (store, error)
	dropSub(k string) error
	nextSeq() error
}

type realStore struct{ b walletdb.ReadWriteBucket }

func (s realStore) get(k string) []byte          { return append([]byte{}, s.b.Get([]byte(k))...) }
func (s realStore) put(k string, v []byte) error { return s.b.Put([]byte(k), v) }
func (s realStore) del(k string) error           { return s.b.Delete([]byte(k)) }
func (s realStore) sub(k string) (store, error) {
	n, err := s.b.CreateBucketIfNotExists([]byte(k))
	if err != nil {
		return nil, err
	}
	return realStore{n}, nil
}
func (s realStore) dropSub(k string) error {
	err := s.b.DeleteNestedBucket([]byte(k))
	if errors.Is(err, walletdb.ErrBucketNotFound) {
		return nil
	}
	return err
}
func (s realStore) nextSeq() error { _, err := s.b.NextSequence(); return err }

type modelStore struct{ b *dbmodel.Bucket }

func (s modelStore) get(k string) []byte          { return append([]byte{}, s.b.KV[k]...) }
func (s modelStore) put(k string, v []byte) error { s.b.Put(k, v); return nil }
func (s modelStore) del(k string) error           { s.b.Delete(k); return nil }
func (s modelStore) sub(k string) (store, error) {
	n, _ := s.b.CreateBucketIfNotExists(k)
	return modelStore{n}, nil
}
func (s modelStore) dropSub(k string) error {
	if _, ok := s.b.Sub[k]; ok {
		s.b.DeleteBucket(k)
	}
	return nil
}
func (s modelStore) nextSeq() error { s.b.NextSequence(); return nil }

// migrate is the program of the migration to version e.num. stop < 0: run to
// the end. stop >= 0: perform that many steps, then return errMig (so the
// failing migration has already written something).
func migrate(s store, e entry, stop int) error {
	step := 0
	do := func(f func() error) error {
		if stop >= 0 && step >= stop {
			return errMig
		}
		step++
		return f()
	}
	n := e.num
	if err := do(func() error {
		return s.put(traceKey, append(s.get(traceKey), be32(n)...))
	}); err != nil {
		return err
	}
	for j := 0; j < e.nMut; j++ {
		code := (e.seed >> uint(3*j)) & 7
		jj := j
		err := do(func() error {
			switch code {
			case 0:
				return s.put(fmt.Sprintf("d%d-%d", n, jj), []byte(fmt.Sprintf("v%d.%d", n, jj)))
			case 1:
				return s.del(fmt.Sprintf("d%d", (int(n)+jj)%8))
			case 2:
				b, err := s.sub(fmt.Sprintf("b%d", n%3))
				if err != nil {
					return err
				}
				return b.put(fmt.Sprintf("k%d", n), be32(n))
			case 3:
				return s.dropSub(fmt.Sprintf("b%d", (n+1)%3))
			case 4:
				return s.nextSeq()
			case 5:
				return s.put("shared", be32(n)) // last writer wins: order-sensitive
			case 6:
				b, err := s.sub(fmt.Sprintf("b%d", n%3))
				if err != nil {
					return err
				}
				return b.nextSeq()
			default:
				return s.put("d0", append(s.get("d0"), byte(n))) // append: order-sensitive
			}
		})
		if err != nil {
			return err
		}
	}
	if stop >= 0 {
		return errMig
	}
	return nil
}

// ---------------------------------------------------------------- manager

type inv struct {
	mgr int
	num uint32
}

type manager struct {
	x   *exec
	idx int
	ns  walletdb.ReadWriteBucket
}

var _ migration.Manager = (*manager)(nil)

func (m *manager) Name() string                        { return fmt.Sprintf("svc%d", m.idx) }
func (m *manager) Namespace() walletdb.ReadWriteBucket { return m.ns }
func (m *manager) CurrentVersion(ns walletdb.ReadBucket) (uint32, error) {
	if ns == nil {
		ns = m.ns
	}
	v := ns.Get(verKey)
	if len(v) != 4 {
		return 0, errNoVersion
	}
	return binary.BigEndian.Uint32(v), nil
}
func (m *manager) SetVersion(ns walletdb.ReadWriteBucket, v uint32) error {
	if ns == nil {
		ns = m.ns
	}
	return ns.Put(verKey, be32(v))
}

// Versions returns a FRESH slice in declared order on every call (the real
// managers return their package-level slice, which GetLatestVersion sorts in
// place; a fresh copy keeps the declared order visible to every call) — or,
// in runs with Cfg shared_table, ONE slice per service for the whole run, as
// the real services do with their package-level table: whatever a call does
// to the slice it was handed is then seen by the retry and by the next
// upgrade of the same process.
func (m *manager) Versions() []migration.Version {
	x := m.x
	if x.p.C("shared_table", 0) == 1 {
		if x.shared == nil {
			x.shared = map[int][]migration.Version{}
		}
		if _, ok := x.shared[m.idx]; !ok {
			x.shared[m.idx] = x.versions(m.idx)
			x.env.Count("probe.shared-version-table")
		}
		return x.shared[m.idx]
	}
	return x.versions(m.idx)
}

func (x *exec) versions(idx int) []migration.Version {
	var out []migration.Version
	for _, e := range x.tables[idx] {
		v := migration.Version{Number: e.num}
		if e.has {
			e := e
			v.Migration = func(ns walletdb.ReadWriteBucket) error {
				x.invocations++
				x.log = append(x.log, inv{idx, e.num})
				stop := -1
				if x.failAt != 0 && x.invocations == x.failAt {
					stop = e.failAfter % (e.nMut + 2)
				}
				err := migrate(realStore{ns}, e, stop)
				if err != nil {
					x.failedMgr = idx
				}
				return err
			}
		}
		out = append(out, v)
	}
	return out
}

// ---------------------------------------------------------------- executor

type exec struct {
	shared map[int][]migration.Version
	env    *core.Env
	p      *core.Plan
	file   string
	db     *faultdb.DB
	tables [][]entry
	stored []uint32
	nInit  []int

	// expectation (fault-free)
	latest   []uint32
	expInv   []inv           // invocations in order, until a reverting manager
	revertAt int             // index of the first manager whose stored version is above its latest, -1
	final    *dbmodel.Bucket // database after a successful upgrade (nil if the upgrade must be refused)
	initial  *dbmodel.Bucket

	// per trial
	failAt      int
	invocations int
	log         []inv
	failedMgr   int
	step        int
}

func (x *exec) fail(sig, format string, a ...any) {
	x.env.Fail(prop, core.SigSafe(sig), format, a...)
}

func (sim) Execute(env *core.Env, p *core.Plan) {
	if p.Prop != prop {
		return
	}
	x := &exec{env: env, p: p, file: filepath.Join(env.Dir, "c19.db"), revertAt: -1}
	nMgr := int(p.C("n_mgr", 1))
	if nMgr < 1 {
		nMgr = 1
	}
	if nMgr > 2 {
		nMgr = 2
	}
	x.tables = make([][]entry, nMgr)
	seen := make([]map[uint32]bool, nMgr)
	for i := range seen {
		seen[i] = map[uint32]bool{}
	}
	for _, o := range p.Ops {
		if o.K != "ver" || o.T < 0 || o.T >= nMgr {
			continue
		}
		num := uint32(mod(o.Arg(0), 1<<20))
		if seen[o.T][num] || len(x.tables[o.T]) >= 8 {
			continue // duplicate numbers make the statement ill-defined: dropped
		}
		seen[o.T][num] = true
		x.tables[o.T] = append(x.tables[o.T], entry{num: num, has: o.Arg(1)%2 != 0, nMut: int(mod(o.Arg(2), 5)),
			seed: mod(o.Arg(3), 1<<12), failAfter: int(mod(o.Arg(4), 6))})
	}
	for i := 0; i < nMgr; i++ {
		x.stored = append(x.stored, uint32(mod(p.C(fmt.Sprintf("stored%d", i), 0), 1<<20)))
		x.nInit = append(x.nInit, int(mod(p.C(fmt.Sprintf("init%d", i), 0), 8)))
	}

	inner, err := walletdb.Create("bdb", x.file, true, 10*time.Second, false)
	if err != nil {
		x.fail("harness:create", "create: %v", err)
		return
	}
	x.db = faultdb.Wrap(inner)
	defer func() {
		if x.db != nil {
			_ = x.db.Close()
		}
	}()
	if !x.setup() {
		return
	}
	x.expectation()
	env.Count("enum.tables")
	x.probesOfCase()
	env.Logf("case mgrs=%d stored=%v latest=%v revertAt=%d expInv=%d", nMgr, x.stored, x.latest, x.revertAt, len(x.expInv))
	env.State("%v %v %v", x.tables, x.stored, x.nInit)

	if !x.directChecks() {
		return
	}
	x.enumerate()
	if env.Failed() {
		return
	}
	if p.C("real", 0) != 0 {
		x.realWallet()
	}
}

// setup creates the namespaces, initial data and stored versions, and a
// bystander bucket that no upgrade may touch.
func (x *exec) setup() bool {
	x.initial = dbmodel.NewBucket()
	err := walletdb.Update(x.db, func(tx walletdb.ReadWriteTx) error {
		for i := range x.tables {
			ns, err := tx.CreateTopLevelBucket(nsKey(i))
			if err != nil {
				return err
			}
			m, _ := x.initial.CreateBucketIfNotExists(string(nsKey(i)))
			if err := ns.Put(verKey, be32(x.stored[i])); err != nil {
				return err
			}
			m.Put(string(verKey), be32(x.stored[i]))
			for j := 0; j < x.nInit[i]; j++ {
				k, v := fmt.Sprintf("d%d", j), []byte(fmt.Sprintf("init%d", j))
				if err := ns.Put([]byte(k), v); err != nil {
					return err
				}
				m.Put(k, v)
			}
		}
		o, err := tx.CreateTopLevelBucket([]byte("other"))
		if err != nil {
			return err
		}
		m, _ := x.initial.CreateBucketIfNotExists("other")
		m.Put("bystander", []byte("untouched"))
		return o.Put([]byte("bystander"), []byte("untouched"))
	})
	if err != nil {
		x.fail("harness:setup", "setup: %v", err)
		return false
	}
	x.db.Reset()
	return x.sameAs(x.initial, "harness:setup-mismatch")
}

// expectation is the model: what the statement says an upgrade does.
func (x *exec) expectation() {
	work := x.initial.Clone()
	x.latest = make([]uint32, len(x.tables))
	for i, t := range x.tables {
		for _, e := range t {
			if e.num > x.latest[i] {
				x.latest[i] = e.num
			}
		}
	}
	for i, t := range x.tables {
		if x.stored[i] > x.latest[i] {
			x.revertAt = i
			return // refused: nothing changes
		}
		if x.stored[i] == x.latest[i] {
			continue
		}
		todo := append([]entry{}, t...)
		sort.Slice(todo, func(a, b int) bool { return todo[a].num < todo[b].num })
		ns := work.Sub[string(nsKey(i))]
		for _, e := range todo {
			if e.num <= x.stored[i] || !e.has {
				continue
			}
			x.expInv = append(x.expInv, inv{i, e.num})
			_ = migrate(modelStore{ns}, e, -1)
		}
		ns.Put(string(verKey), be32(x.latest[i]))
	}
	x.final = work
}

func (x *exec) probesOfCase() {
	env := x.env
	for i, t := range x.tables {
		if len(t) == 0 {
			env.Count("probe.empty-table")
		}
		asc := true
		for j := 1; j < len(t); j++ {
			if t[j].num < t[j-1].num {
				asc = false
			}
		}
		if !asc {
			env.Count("probe.shuffled-table")
		}
		switch {
		case x.stored[i] > x.latest[i]:
			env.Count("probe.start-above-latest")
		case x.stored[i] == x.latest[i]:
			env.Count("probe.start-at-latest")
		}
		if x.revertAt >= 0 && i >= x.revertAt {
			continue
		}
		var nums []uint32
		nilOne := false
		for _, e := range t {
			if e.num > x.stored[i] {
				nums = append(nums, e.num)
				if !e.has {
					nilOne = true
				}
			}
		}
		sort.Slice(nums, func(a, b int) bool { return nums[a] < nums[b] })
		for j := 1; j < len(nums); j++ {
			if nums[j] != nums[j-1]+1 {
				env.Count("probe.noncontiguous-versions")
				break
			}
		}
		if nilOne {
			env.Count("probe.nil-migration")
		}
	}
}

// directChecks calls the exported helpers on the declared (shuffled) table.
func (x *exec) directChecks() bool {
	for i, t := range x.tables {
		var want []uint32
		for _, e := range t {
			if e.num > x.stored[i] {
				want = append(want, e.num)
			}
		}
		sort.Slice(want, func(a, b int) bool { return want[a] < want[b] })
		var got []uint32
		for _, v := range migration.VersionsToApply(x.stored[i], x.versions(i)) {
			got = append(got, v.Number)
		}
		if sig := classify(got, want, x.stored[i]); sig != "" {
			x.fail(sig+":fn=VersionsToApply", "VersionsToApply(%d, declared table) = %v, want %v", x.stored[i], got, want)
			return false
		}
		if l := migration.GetLatestVersion(x.versions(i)); l != x.latest[i] {
			x.fail("latest-wrong:fn=GetLatestVersion", "GetLatestVersion = %d, the largest declared number is %d", l, x.latest[i])
			return false
		}
	}
	return true
}

// classify names the way a list of applied versions deviates from the
// expected ascending list ("" if equal).
func classify(got, want []uint32, stored uint32) string {
	if len(got) == len(want) {
		same := true
		for i := range got {
			if got[i] != want[i] {
				same = false
			}
		}
		if same {
			return ""
		}
	}
	cnt := map[uint32]int{}
	for _, g := range got {
		cnt[g]++
	}
	wantSet := map[uint32]bool{}
	for _, w := range want {
		wantSet[w] = true
	}
	for _, g := range got {
		if cnt[g] > 1 {
			return "applied-twice"
		}
	}
	for _, g := range got {
		if g <= stored {
			return "applied-at-or-below-stored"
		}
	}
	for _, g := range got {
		if !wantSet[g] {
			return "applied-unexpected"
		}
	}
	for _, w := range want {
		if cnt[w] == 0 {
			return "skipped"
		}
	}
	return "order"
}

func (x *exec) dump() (*dbmodel.Bucket, bool) {
	var got *dbmodel.Bucket
	var prob string
	err := walletdb.View(x.db, func(tx walletdb.ReadTx) error {
		got, prob = dbmodel.DumpTx(tx)
		return nil
	})
	if err != nil || prob != "" {
		x.fail("harness:dump", "dump failed: %v %s", err, prob)
		return nil, false
	}
	return got, true
}

func (x *exec) sameAs(want *dbmodel.Bucket, sig string) bool {
	got, ok := x.dump()
	if !ok {
		return false
	}
	if d := dbmodel.Diff(want, got); d != "" {
		// a changed stored version gets the more specific signature
		for i := range x.tables {
			w := want.Sub[string(nsKey(i))]
			g := got.Sub[string(nsKey(i))]
			if w != nil && g != nil && !bytes.Equal(w.KV[string(verKey)], g.KV[string(verKey)]) {
				if len(sig) > 14 && sig[:14] == "rollback-leak:" {
					sig = "version-advanced-on-failure:" + sig[14:] + ":persisted"
				}
				break
			}
		}
		x.fail(sig, "database differs from what it must be: %s", d)
		return false
	}
	return true
}

// trial runs one upgrade exactly as wallet.OpenWithRetry does: all services
// inside one walletdb.Update. It returns Update's error and the versions
// stored as seen INSIDE the transaction right after Upgrade returned.
func (x *exec) trial() (error, []int64) {
	x.invocations, x.log, x.failedMgr = 0, nil, -1
	x.step++
	x.env.Step(x.step)
	inTx := make([]int64, len(x.tables))
	err := walletdb.Update(x.db, func(tx walletdb.ReadWriteTx) error {
		var mgrs []migration.Manager
		var nss []walletdb.ReadWriteBucket
		for i := range x.tables {
			ns := tx.ReadWriteBucket(nsKey(i))
			if ns == nil {
				return errSetup
			}
			nss = append(nss, ns)
			mgrs = append(mgrs, &manager{x: x, idx: i, ns: ns})
		}
		uerr := migration.Upgrade(mgrs...)
		for i, ns := range nss {
			inTx[i] = -1
			if v := ns.Get(verKey); len(v) == 4 {
				inTx[i] = int64(binary.BigEndian.Uint32(v))
			}
		}
		return uerr
	})
	x.env.Eff()
	return err, inTx
}

// checkInvPrefix: what ran (until the failure) is a prefix of the expected
// invocation order.
func (x *exec) checkInvPrefix(kind string) bool {
	ok := len(x.log) <= len(x.expInv)
	for i := 0; ok && i < len(x.log); i++ {
		ok = x.log[i] == x.expInv[i]
	}
	if ok {
		return true
	}
	for m := range x.tables {
		var got, want []uint32
		for _, l := range x.log {
			if l.mgr == m {
				got = append(got, l.num)
			}
		}
		for _, l := range x.expInv {
			if l.mgr == m && len(want) < len(got) {
				want = append(want, l.num)
			}
		}
		if sig := classify(got, want, x.stored[m]); sig != "" {
			x.fail(sig+":during="+kind, "service %d (stored %d): migrations invoked %v, expected prefix %v", m, x.stored[m], got, want)
			return false
		}
	}
	x.fail("order:across-services:during="+kind, "invocations %v are not a prefix of %v", x.log, x.expInv)
	return false
}

func (x *exec) checkFailed(kind string, err error, inTx []int64, wantErr error) bool {
	if err == nil {
		x.fail("failure-swallowed:after="+kind, "the upgrade returned nil although a fault was injected (%s)", kind)
		return false
	}
	if wantErr != nil && !errors.Is(err, wantErr) {
		x.fail("error-not-returned:after="+kind, "the upgrade returned %q, want %q", err, wantErr)
		return false
	}
	if !x.checkInvPrefix(kind) {
		return false
	}
	// the stored version of the service whose migration failed is unchanged
	// already inside the transaction (SetVersion only after all migrations)
	if m := x.failedMgr; m >= 0 && inTx[m] != int64(x.stored[m]) {
		x.fail("version-advanced-on-failure:after="+kind, "service %d: a migration failed, but inside the transaction the stored version is %d (was %d)", m, inTx[m], x.stored[m])
		return false
	}
	for m := range x.tables {
		if inTx[m] != int64(x.stored[m]) && inTx[m] != int64(x.latest[m]) {
			x.fail("version-not-latest:after="+kind, "service %d: inside the transaction the stored version is %d, neither the old %d nor the latest %d", m, inTx[m], x.stored[m], x.latest[m])
			return false
		}
	}
	return x.sameAs(x.initial, "rollback-leak:after="+kind)
}

func (x *exec) enumerate() {
	env := x.env
	E := len(x.expInv)

	// ---- a failure of the p-th invoked migration, for every p
	for p := 1; p <= E && !env.Failed(); p++ {
		x.db.Reset()
		x.failAt = p
		err, inTx := x.trial()
		x.failAt = 0
		env.Count("fault.migration-error")
		env.Logf("trial p=%d err=%v invoked=%d", p, err != nil, len(x.log))
		if len(x.log) > p {
			x.fail("continued-after-failure", "migration #%d (in invocation order) failed, but %d migrations were invoked", p, len(x.log))
			return
		}
		if len(x.log) < p {
			x.fail("skipped:during=migration-error", "expected at least %d migration invocations, saw %d (err=%v)", p, len(x.log), err)
			return
		}
		if !x.checkFailed("migration-error", err, inTx, errMig) {
			return
		}
		if E >= 2 && p == 1 {
			env.Count("probe.fail-first")
		}
		if E >= 2 && p == E {
			env.Count("probe.fail-last")
		}
		if x.expInv[p-1].mgr == 1 && x.stored[0] != x.latest[0] {
			env.Count("probe.two-managers-second-fails")
		}
		env.State("p%d", p)
	}
	if env.Failed() {
		return
	}
	env.Add("enum.p_positions", int64(E))

	// ---- commit failure
	if x.revertAt < 0 {
		x.db.Reset()
		x.db.FailCommit = true
		err, inTx := x.trial()
		fired := x.db.Fired > 0
		x.db.Reset()
		env.Logf("trial commit-failure err=%v", err != nil)
		if !fired {
			x.fail("upgrade-failed:before=commit", "the fault-free upgrade failed before commit: %v", err)
			return
		}
		env.Count("fault.commit")
		env.Count("probe.commit-failure")
		if !errors.Is(err, faultdb.ErrInjectedCommit) {
			x.fail("error-not-returned:after=commit-failure", "Update returned %v", err)
			return
		}
		_ = inTx
		if !x.sameAs(x.initial, "rollback-leak:after=commit-failure") {
			return
		}
	}

	// ---- write failure at the k-th mutating call, for every k; the first k
	// that does not fire is the fault-free run
	n := 0
	for k := 1; !env.Failed(); k++ {
		if k > 400 {
			x.fail("harness:too-many-writes", "more than 400 mutating calls in one upgrade")
			return
		}
		x.db.Arm(k)
		err, inTx := x.trial()
		fired := x.db.Fired > 0
		writes := x.db.Writes
		x.db.Reset()
		env.Logf("trial k=%d fired=%v err=%v invoked=%d", k, fired, err != nil, len(x.log))
		if fired {
			env.Count("fault.dbwrite")
			if !x.checkFailed("write-fault", err, inTx, faultdb.ErrInjected) {
				return
			}
			env.State("k%d", k)
			continue
		}
		n = writes
		env.Add("enum.k_positions", int64(n))
		env.Count("enum.n_writes." + nBucket(n))
		if !x.checkFaultFree(err, inTx) {
			return
		}
		break
	}
	if env.Failed() || x.revertAt >= 0 {
		return
	}

	// ---- a second upgrade finds nothing to do
	err, _ := x.trial()
	if err != nil {
		x.fail("upgrade-failed:second", "upgrading an up-to-date database failed: %v", err)
		return
	}
	if len(x.log) != 0 {
		x.fail("applied-twice:second-upgrade", "a second upgrade invoked migrations again: %v", x.log)
		return
	}
	if !x.sameAs(x.final, "applied-twice:second-upgrade-modified-db") {
		return
	}
	// ---- and it is what a restart finds
	if err := x.db.Close(); err != nil {
		x.fail("harness:close", "%v", err)
		x.db = nil
		return
	}
	inner, err := walletdb.Open("bdb", x.file, true, 10*time.Second, false)
	if err != nil {
		x.db = nil
		x.fail("harness:reopen", "%v", err)
		return
	}
	x.db = faultdb.Wrap(inner)
	x.sameAs(x.final, "commit-lost:after=reopen")
	env.State("%x", x.final.Digest())
}

// checkFaultFree checks the upgrade that ran without any injected fault.
func (x *exec) checkFaultFree(err error, inTx []int64) bool {
	if x.revertAt >= 0 {
		// a stored version newer than the software knows: refused, unmodified
		if err == nil {
			x.fail("reversion-accepted", "service %d has stored version %d above its latest %d, but the upgrade succeeded", x.revertAt, x.stored[x.revertAt], x.latest[x.revertAt])
			return false
		}
		if !errors.Is(err, migration.ErrReversion) {
			x.fail("reversion-wrong-error", "upgrade of a too-new database returned %q, want migration.ErrReversion", err)
			return false
		}
		if !x.checkInvPrefix("reversion") {
			return false
		}
		if len(x.log) != len(x.expInv) {
			x.fail("skipped:during=reversion", "expected %d migration invocations before the refused service, saw %d", len(x.expInv), len(x.log))
			return false
		}
		if v := inTx[x.revertAt]; v != int64(x.stored[x.revertAt]) {
			x.fail("reversion-modified-db:in-tx-version", "refused service %d: stored version inside the transaction is %d, was %d", x.revertAt, v, x.stored[x.revertAt])
			return false
		}
		return x.sameAs(x.initial, "reversion-modified-db")
	}
	if err != nil {
		x.fail("upgrade-failed", "the fault-free upgrade failed: %v", err)
		return false
	}
	// what ran, in which order, how often (in-memory record)
	for m := range x.tables {
		var got, want []uint32
		for _, l := range x.log {
			if l.mgr == m {
				got = append(got, l.num)
			}
		}
		for _, l := range x.expInv {
			if l.mgr == m {
				want = append(want, l.num)
			}
		}
		if sig := classify(got, want, x.stored[m]); sig != "" {
			x.fail(sig, "service %d (stored %d, latest %d): migrations invoked %v, want %v", m, x.stored[m], x.latest[m], got, want)
			return false
		}
		if inTx[m] != int64(x.latest[m]) {
			x.fail("version-not-latest", "service %d: stored version after the upgrade is %d, latest is %d", m, inTx[m], x.latest[m])
			return false
		}
	}
	// services are upgraded in the order given to Upgrade
	for i := range x.log {
		if x.log[i] != x.expInv[i] {
			x.fail("order:across-services", "invocation %d was %v, want %v", i, x.log[i], x.expInv[i])
			return false
		}
	}
	// the on-disk trace, version and data
	got, ok := x.dump()
	if !ok {
		return false
	}
	for m := range x.tables {
		g := got.Sub[string(nsKey(m))]
		w := x.final.Sub[string(nsKey(m))]
		if g == nil {
			x.fail("namespace-lost", "namespace of service %d is gone", m)
			return false
		}
		if sig := classify(decodeTrace(g.KV[traceKey]), decodeTrace(w.KV[traceKey]), x.stored[m]); sig != "" {
			x.fail(sig+":on-disk-trace", "service %d: trace on disk %v, want %v", m, decodeTrace(g.KV[traceKey]), decodeTrace(w.KV[traceKey]))
			return false
		}
		if !bytes.Equal(g.KV[string(verKey)], w.KV[string(verKey)]) {
			x.fail("version-not-latest:on-disk", "service %d: version on disk %x, want %x", m, g.KV[string(verKey)], w.KV[string(verKey)])
			return false
		}
	}
	if d := dbmodel.Diff(x.final, got); d != "" {
		x.fail("data-mismatch:after=upgrade", "after the upgrade the database differs from the model that applied the pending migrations once, ascending: %s", d)
		return false
	}
	return true
}

func decodeTrace(b []byte) []uint32 {
	var out []uint32
	for i := 0; i+4 <= len(b); i += 4 {
		out = append(out, binary.BigEndian.Uint32(b[i:]))
	}
	return out
}

func mod(v, n int64) int64 {
	if n <= 0 {
		return 0
	}
	v %= n
	if v < 0 {
		v += n
	}
	return v
}
