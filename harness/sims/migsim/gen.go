package migsim

import (
	"fmt"

	"verifsim/core"
)

// Generate draws the version tables and stored versions of one case.
func (sim) Generate(prop, tier string, seed uint64) *core.Plan {
	r := core.NewRand(seed)
	p := &core.Plan{Cfg: map[string]int64{}}
	nMgr := 1
	if r.Chance(1, 3) {
		nMgr = 2
	}
	p.Cfg["n_mgr"] = int64(nMgr)
	allowNil := r.Chance(3, 4)
	for m := 0; m < nMgr; m++ {
		size := r.Range(1, 8)
		if r.Chance(1, 12) {
			size = 0
		}
		// distinct version numbers
		var nums []int
		if r.Chance(1, 2) {
			base := r.Range(0, 3)
			for i := 0; i < size; i++ {
				nums = append(nums, base+i)
			}
		} else {
			used := map[int]bool{}
			for len(nums) < size {
				n := r.Range(0, 24)
				if !used[n] {
					used[n] = true
					nums = append(nums, n)
				}
			}
			// ascending first; shuffled below
			for i := range nums {
				for j := i + 1; j < len(nums); j++ {
					if nums[j] < nums[i] {
						nums[i], nums[j] = nums[j], nums[i]
					}
				}
			}
		}
		latest := 0
		for _, n := range nums {
			if n > latest {
				latest = n
			}
		}
		order := make([]int, len(nums))
		for i := range order {
			order[i] = i
		}
		if !r.Chance(1, 4) {
			order = r.Perm(len(nums))
		}
		for _, i := range order {
			has := int64(1)
			if allowNil && r.Chance(1, 5) {
				has = 0
			}
			p.Ops = append(p.Ops, core.Op{K: "ver", T: m, A: []int64{int64(nums[i]), has,
				int64(r.Range(0, 4)), int64(r.Intn(1 << 12)), int64(r.Intn(6))}})
		}
		// stored version: below / at / above the latest
		var stored int
		switch x := r.Intn(10); {
		case x < 6:
			if latest > 0 {
				stored = r.Intn(latest)
				if r.Chance(1, 3) {
					stored = 0
				}
			}
		case x < 8:
			stored = latest
		default:
			stored = latest + r.Range(1, 3)
		}
		p.Cfg[fmt.Sprintf("stored%d", m)] = int64(stored)
		p.Cfg[fmt.Sprintf("init%d", m)] = int64(r.Range(0, 6))
	}
	if r.Chance(1, 2) {
		p.Cfg["shared_table"] = 1
	}
	if r.Chance(1, 5) {
		p.Cfg["real"] = 1
		p.Cfg["real_raise"] = int64(r.Range(1, 3))
	}
	return p
}
