// Package migsim decides property C19 ("database upgrades apply each pending
// migration once, in order, or not at all").
//
// One plan = one generated set of version tables (1–2 migration.Manager
// implementations, each over its own top-level bucket of a real bdb database
// behind faultdb) plus stored versions. Execute ENUMERATES, for that plan:
// a failure of the p-th invoked migration for every p, an injected commit
// failure, and a faultdb write failure at the k-th mutating call for every k
// until the fault no longer fires (that last run is the fault-free upgrade).
// Every trial is one walletdb.Update around migration.Upgrade, as
// wallet.OpenWithRetry does. Optionally the run also creates a real wallet
// database (waddrmgr.Create + wtxmgr.Create) and checks the real upgrade path
// on an up-to-date database and on one whose stored wtxmgr / waddrmgr version
// was raised above the latest.
//
// Plan layout: ops {K:"ver", T:manager, A:[number, hasMigration, nMut,
// mutSeed, failAfter]} in DECLARED order; cfg stored<i>, init<i>, n_mgr,
// real.
package migsim

import (
	"fmt"
	"sort"
	"strings"

	"verifsim/core"
)

const prop = "C19"

type sim struct{}

func init() { core.Register(sim{}) }

func (sim) Name() string    { return "migsim" }
func (sim) Props() []string { return []string{prop} }

func (sim) Level(string) string { return "fault_enumeration" }

func (sim) Rule(string) string {
	return "C19 case = one generated (version tables, stored versions) pair: 1–2 migration.Manager implementations with 0–8 versions each, declared in " +
		"shuffled order, some with nil migrations, not necessarily contiguous; stored version below / at / above the latest. Within a case the " +
		"faults are ENUMERATED, not sampled: failure of the p-th invoked migration for every p (enum.p_positions), injected commit failure, " +
		"write failure at the k-th mutating database call for every k up to the number n of calls of the fault-free upgrade (enum.k_positions; " +
		"k = n+1 is the fault-free run). The tables themselves are sampled."
}

func (sim) Components() map[string][]string {
	return map[string][]string{
		"real": {"walletdb/migration (Upgrade, upgrade, VersionsToApply, GetLatestVersion)", "walletdb + walletdb/bdb + bbolt on a real file",
			"waddrmgr.Create / NewMigrationManager / Open, wtxmgr.Create / NewMigrationManager / Open, wallet.Open (real-wallet part)"},
		"stub":    {"generated migration.Manager implementations (version table, trace-writing migrations)", "faultdb (k-th write failure, commit failure)"},
		"not_run": {"real migrations from old on-disk formats (would need old-format data)", "chain backend"},
	}
}

var probes = []string{"shuffled-table", "nil-migration", "start-above-latest", "start-at-latest", "empty-table", "noncontiguous-versions",
	"fail-first", "fail-last", "commit-failure", "real-wallet-reversion-wtxmgr", "real-wallet-reversion-waddrmgr", "real-wallet-uptodate",
	"two-managers-second-fails"}

var nBuckets = []string{"le5", "le10", "le20", "le40", "gt40"}

func nBucket(n int) string {
	switch {
	case n <= 5:
		return "le5"
	case n <= 10:
		return "le10"
	case n <= 20:
		return "le20"
	case n <= 40:
		return "le40"
	}
	return "gt40"
}

func (sim) Explain(_ string, stats map[string]int64) string {
	var zero []string
	for _, p := range probes {
		if stats["probe."+p] == 0 {
			zero = append(zero, p)
		}
	}
	var hist []string
	for _, b := range nBuckets {
		hist = append(hist, fmt.Sprintf("%s:%d", b, stats["enum.n_writes."+b]))
	}
	s := fmt.Sprintf("%d generated cases; in total %d migration-failure positions and %d write-failure positions were enumerated exhaustively within their case "+
		"(%d commit failures); distribution of n = mutating calls of the fault-free upgrade per case: %s. After every failing trial the full recursive dump "+
		"of the database must equal the dump before, and the stored version of the failing service must be unchanged already inside the transaction; "+
		"after the fault-free run the on-disk trace must be exactly the ascending list of versions in (stored, latest] that have a migration, the data "+
		"must equal the model that applied those migrations in that order, and the stored version must be the latest. ",
		stats["enum.tables"], stats["enum.p_positions"], stats["enum.k_positions"], stats["fault.commit"], strings.Join(hist, " "))
	if len(zero) > 0 {
		sort.Strings(zero)
		s += "COVERAGE HOLE: probes that stayed at zero: " + strings.Join(zero, ", ") + "."
	} else {
		s += "All probes were reached."
	}
	return s
}

func (sim) Assumptions() []string {
	return []string{
		"C19: version numbers within one table are distinct (duplicates make \"each once, ascending\" ill-defined; the generator does not produce them and the executor drops repeated numbers)",
		"C19: real wallet databases are only tested at and above the latest version; lowering a real version would need data in the old on-disk format",
		"C19: VersionsToApply and GetLatestVersion are also called directly on the shuffled table, because upgrade() sorts the slice in GetLatestVersion before VersionsToApply sees it",
	}
}
