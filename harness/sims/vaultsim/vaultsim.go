// Package vaultsim decides C17: "stored ciphertexts are authenticated and
// bound to the right passphrase".
//
// Workload: a real waddrmgr.Manager (created with FastScryptOptions on a real
// bdb database wrapped by faultdb), a handful of standalone snacl.CryptoKeys
// and up to maxSK snacl.SecretKeys. The harness owns a "vault": a simulated
// disk region (a bucket of its own in the same database file plus the
// metadata kept in memory) that maps a slot to a stored ciphertext. The
// simulated disk corrupts what it stores: single-bit flips, truncations,
// extensions, torn writes (prefix of the new blob + suffix of the old one) and
// misdirected reads/writes (the blob of another slot). Around that the plan
// locks and unlocks the manager, changes the private and public passphrases
// (with optional injected database write / commit failures), restarts
// (close + reopen + waddrmgr.Open; SecretKeys are rebuilt from their stored
// parameter blobs with Unmarshal + DeriveKey), and exercises DeriveKey with
// the right and with near-miss passphrases.
//
// Candidly: the stateful half (persistence across sessions, lock/unlock,
// re-keying, restart, persistent corruption of stored blobs) is simulation.
// The "sweep" operation (every single-bit flip / every truncation length of
// one blob) is plain input enumeration that happens to run inside the
// simulator.
//
// Oracle (only what C17 states). The harness keeps a registry of every
// ciphertext the code under test ever produced in the run (bytes -> key,
// plaintext). A read of a slot is judged by looking the bytes read up in that
// registry:
//   - bytes are a genuine ciphertext of the key used for decryption => the
//     exact plaintext (incl. empty) must come back, in every later session in
//     which the key is available (a locked manager makes CKTPrivate/CKTScript
//     unavailable: such reads are skipped, that is C05's business);
//   - bytes are a genuine ciphertext of ANOTHER key => an error;
//   - bytes are not a genuine ciphertext at all (flipped, truncated, extended,
//     torn) => an error, never bytes.
//
// A torn blob that happens to equal the old or the new blob in full, or a
// swap between two blobs of the SAME key, therefore falls into the first
// class automatically. Two encryptions of one plaintext under one key must
// differ. DeriveKey must accept the creating passphrase and reject every
// near miss before and after the Marshal round trip; the re-derived key must
// be the same key; truncated / extended parameter blobs must not unmarshal.
//
// NOT asserted (not in the statement): which error value comes back; what a
// SecretKey holds after a failed DeriveKey; bit flips inside a parameter blob
// (the parameters are not authenticated; flips in N/r/p could make scrypt
// allocate terabytes); nonce uniqueness across different plaintexts.
package vaultsim

import (
	"bytes"
	"crypto/sha256"
	"fmt"
	"path/filepath"
	"strings"
	"time"

	"github.com/btcsuite/btcd/btcutil/hdkeychain"
	"github.com/btcsuite/btcd/chaincfg"
	"github.com/btcsuite/btcwallet/snacl"
	"github.com/btcsuite/btcwallet/waddrmgr"
	"github.com/btcsuite/btcwallet/walletdb"
	_ "github.com/btcsuite/btcwallet/walletdb/bdb"
	"golang.org/x/crypto/scrypt"

	"verifsim/core"
	"verifsim/simrt"
	"verifsim/faultdb"
)

const (
	prop     = "C17"
	maxSlots = 20
	numCK    = 3
	maxSK    = 3
	dbTO     = 10 * time.Second
)

// key identities
const (
	kPub    = 0
	kPriv   = 1
	kScript = 2
	kCK0    = 10  // standalone CryptoKey #i = kCK0+i
	kSK0    = 100 // SecretKey #j = kSK0+j
)

var (
	nsKey    = []byte("waddrmgr")
	vaultKey = []byte("verif-vault")
)

// passphrase table (SecretKeys use all of it; the manager only non-empty ones)
var pwTable = []string{
	"",
	"a",
	"hunter2",
	"Correct Horse Battery Staple",
	"p\xc3\xa4ssw\xc3\xb6rd",
	"\x00\x01\x02",
	" leading and trailing ",
	strings.Repeat("long-", 30),
	"1234567890",
	"Z",
}

// fast scrypt parameter sets (N power of two > 1)
var scryptTable = [][3]int{{16, 8, 1}, {2, 1, 1}, {4, 2, 2}, {32, 1, 2}, {16, 8, 2}, {8, 4, 1}}

type sim struct{}

func init() { core.Register(sim{}) }

func (sim) Name() string    { return "vaultsim" }
func (sim) Props() []string { return []string{prop} }

func (sim) Level(string) string { return "exploration" }

func (sim) Rule(string) string {
	return "C17 vault: one case = one plan of put/get operations on a harness-owned ciphertext vault (keys: Manager CKTPublic/CKTPrivate/CKTScript, standalone snacl.CryptoKeys, snacl.SecretKeys), " +
		"disk faults on STORED blobs (bit flip, truncation, extension, torn write, swap; transient or persistent), lock/unlock(right|near-miss), private/public ChangePassphrase (optionally with an injected db write/commit failure), restart, " +
		"SecretKey Marshal->vault->(truncate|extend|digest splice)->Unmarshal->DeriveKey(right|near-miss), Zero+DeriveKey, twin keys, a second unrelated wallet. Every decrypt is judged against a registry of all genuine ciphertexts of the run. " +
		"The stateful half (sessions, re-keying, restart, persistent corruption) is simulation; the 'sweep' operation (every bit position / every truncation length of one blob) is input enumeration that merely runs inside the simulator."
}

func (sim) Components() map[string][]string {
	return map[string][]string{
		"real": {"snacl (CryptoKey, SecretKey, Marshal/Unmarshal/DeriveKey)", "waddrmgr.Manager (Create, Open/loadManager, Lock, Unlock, ChangePassphrase, Encrypt, Decrypt)",
			"walletdb + bdb + bbolt (file on tmpfs)", "golang.org/x/crypto secretbox + scrypt"},
		"stub": {"entropy of package snacl (probe VerifSetPRNG: nonces, salts and generated crypto keys are drawn from a stream seeded by the plan)",
			"the disk under the vault (harness-owned bucket + corruption model)", "OS clock (synctest)"},
		"not_run": {"wallet, wtxmgr, chain backends, rpc", "address derivation / import paths of waddrmgr (C03/C04/C05)"},
	}
}

var probeNames = []string{"bitflip-in-nonce", "bitflip-in-tag", "bitflip-in-body", "truncate-to-zero", "truncate-below-overhead",
	"empty-plaintext", "get-after-restart", "get-after-private-passphrase-change", "get-after-public-passphrase-change",
	"cross-key-swap", "secretkey-marshal-roundtrip", "near-miss-passphrase"}

func (sim) Explain(_ string, st map[string]int64) string {
	var zero []string
	for _, n := range probeNames {
		if st["probe."+n] == 0 {
			zero = append(zero, n)
		}
	}
	s := fmt.Sprintf("decrypt checks: %d genuine-under-right-key (exact plaintext demanded), %d tampered (error demanded), %d genuine-under-other-key (error demanded); "+
		"%d reads skipped because the manager was locked. Pure enumeration inside the simulator: %d single-bit flips and %d truncations in %d full sweeps. "+
		"DeriveKey: %d right-passphrase, %d near-miss (of which %d against a spliced digest, %d HMAC-equivalent); parameter blobs: %d malformed encodings; %d blobs shown to a second wallet. Manager: %d restarts, %d private and %d public passphrase changes (%d with an injected db fault that fired).",
		st["check.genuine"], st["check.tampered"], st["check.crosskey"], st["skip.locked"],
		st["sweep.bitflips"], st["sweep.truncations"], st["op.sweep"],
		st["check.derive-right"], st["check.derive-nearmiss"], st["op.sksplice"], st["op.skhmac"], st["check.malformed"], st["op.foreign"],
		st["op.restart"], st["chpass.private-ok"], st["chpass.public-ok"], st["fault.dbwrite"]+st["fault.commit"])
	if len(zero) > 0 {
		s += " PROBES AT ZERO (coverage hole): " + strings.Join(zero, ", ") + "."
	} else {
		s += " All listed probes are non-zero."
	}
	return s
}

func (sim) Assumptions() []string {
	return []string{
		"2^-128-probability events are ignored: a corrupted blob is assumed not to be a valid secretbox under the key by chance, two random nonces are assumed distinct",
		"package snacl's entropy source is replaced by a plan-seeded stream (probe VerifSetPRNG); waddrmgr's own crypto/rand use (passphrase salts) is left alone and is not observable here",
		"scrypt parameters are the fast test parameters (N<=32); the check says nothing about key-stretching cost",
		"random bit flips inside SecretKey parameter blobs are not injected (parameters are unauthenticated by design; flips in N/r/p can request terabytes from scrypt); injected are truncated/extended encodings and a directed splice of part of the digest field (a wrong passphrase must still be rejected)",
		"the general near-miss set excludes byte strings that are the same HMAC-SHA256 key as the passphrase (trailing NULs; SHA-256 of a passphrase longer than 64 bytes): PBKDF2/scrypt cannot distinguish them. They are exercised by a dedicated operation (skhmac, last operation of some plans) and reported under their own signatures derivekey:near-miss-accepted:variant=trailing-nul|sha256-of-long-passphrase",
		"a CKTScript ciphertext is presented to a second wallet only as the last operation of some plans (signature cross-key-accepted:blob=CKTScript:under=other-wallet-CKTScript) so that this check cannot mask the rest of a plan",
	}
}

// ------------------------------------------------------------------ generate

func (sim) Generate(_ string, tier string, seed uint64) *core.Plan {
	r := core.NewRand(seed)
	p := &core.Plan{Cfg: map[string]int64{}}
	thorough := tier == "thorough"
	p.Cfg["sweepmax"] = 64
	nops := r.Range(25, 70)
	if thorough {
		p.Cfg["sweepmax"] = 256
		nops = r.Range(40, 160)
	}
	p.Cfg["pub"] = int64(r.Range(1, len(pwTable)-1))
	p.Cfg["priv"] = int64(r.Range(1, len(pwTable)-1))

	// swarm: per-plan weights
	type wk struct {
		k string
		w int
	}
	base := []wk{{"put", 14}, {"get", 12}, {"flip", 8}, {"trunc", 6}, {"extend", 3}, {"torn", 4}, {"swap", 4}, {"xkey", 3},
		{"sweep", 2}, {"lock", 2}, {"unlock", 5}, {"chpass", 3}, {"restart", 3}, {"sknew", 2}, {"skderive", 4}, {"skzero", 1},
		{"skmarshal", 4}, {"sktwin", 1}, {"foreign", 1}, {"sksplice", 2}}
	if thorough {
		base[8].w = 5
	}
	w := make([]int, len(base))
	for i, b := range base {
		w[i] = b.w * r.Range(0, 3)
		switch b.k {
		case "put", "get", "unlock":
			if w[i] == 0 {
				w[i] = b.w
			}
		}
	}

	// light model: only what keeps most operations effective
	unlocked, nslots, nsk := false, 0, 0
	ptLen := func() int64 {
		switch r.Intn(8) {
		case 0:
			return 0
		case 1, 2, 3:
			return int64(r.Range(1, 24))
		default:
			return int64(r.Range(25, 200))
		}
	}
	keySel := func() int64 {
		// 0..2 manager, 3..3+numCK-1 standalone, then secret keys
		for {
			k := r.Intn(3 + numCK + maxSK)
			if (k == kPriv || k == kScript) && !unlocked && r.Chance(7, 8) {
				continue
			}
			if k >= 3+numCK && k-3-numCK >= nsk && r.Chance(7, 8) {
				continue
			}
			return int64(k)
		}
	}
	add := func(op core.Op) { p.Ops = append(p.Ops, op) }
	emitPut := func() {
		add(core.Op{K: "put", A: []int64{keySel(), ptLen(), int64(r.Intn(6)), int64(r.Intn(1 << 16))}})
		if nslots < maxSlots {
			nslots++
		}
	}
	// prelude
	if r.Chance(3, 4) {
		add(core.Op{K: "unlock", A: []int64{0}})
		unlocked = true
	}
	for i := r.Range(0, 2); i > 0; i-- {
		add(core.Op{K: "sknew", A: []int64{int64(r.Intn(len(pwTable))), int64(r.Intn(len(scryptTable)))}})
		nsk++
	}
	for i := r.Range(1, 5); i > 0; i-- {
		emitPut()
	}
	for len(p.Ops) < nops {
		if unlocked && r.Chance(1, 10) {
			// another caller locks the manager while this one encrypts
			add(core.Op{K: "encrace", A: []int64{int64(r.Intn(3)), int64(r.Uint64() >> 1), ptLen(), int64(r.Intn(3))}})
		}
		k := base[r.Weighted(w)].k
		s16 := func() int64 { return int64(r.Intn(1 << 16)) }
		switch k {
		case "put":
			emitPut()
		case "get":
			add(core.Op{K: k, A: []int64{s16()}})
		case "flip":
			add(core.Op{K: k, A: []int64{s16(), int64(r.Intn(1 << 20)), int64(b2i(r.Chance(1, 4)))}})
		case "trunc":
			l := int64(r.Intn(1 << 16))
			switch r.Intn(6) {
			case 0:
				l = 0 // mod (len) == 0: truncate to zero
			case 1:
				l = -int64(r.Range(1, 39)) // negative: absolute small length (below nonce+overhead)
			}
			add(core.Op{K: k, A: []int64{s16(), l, int64(b2i(r.Chance(1, 4)))}})
		case "extend":
			add(core.Op{K: k, A: []int64{s16(), int64(r.Range(1, 16)), s16(), int64(b2i(r.Chance(1, 4)))}})
		case "torn":
			add(core.Op{K: k, A: []int64{s16(), s16(), ptLen(), int64(r.Intn(6))}})
		case "swap":
			add(core.Op{K: k, A: []int64{s16(), s16(), int64(b2i(r.Chance(1, 4)))}})
		case "xkey":
			add(core.Op{K: k, A: []int64{s16(), s16()}})
		case "sweep":
			add(core.Op{K: k, A: []int64{s16(), int64(r.Intn(3))}})
		case "lock":
			if !unlocked && r.Chance(3, 4) {
				continue
			}
			add(core.Op{K: k})
			unlocked = false
		case "unlock":
			v := int64(0)
			if r.Chance(1, 3) {
				v = int64(r.Range(1, 12))
			}
			add(core.Op{K: k, A: []int64{v}})
			unlocked = v == 0
		case "chpass":
			v := int64(0)
			if r.Chance(1, 4) {
				v = int64(r.Range(1, 12))
			}
			add(core.Op{K: k, A: []int64{int64(r.Intn(2)), v, int64(r.Range(1, len(pwTable)-1))}})
			if v == 0 && r.Chance(1, 5) {
				f := core.Fault{Op: len(p.Ops) - 1, Kind: "dbwrite", N: r.Range(1, 4)}
				if r.Chance(1, 3) {
					f = core.Fault{Op: len(p.Ops) - 1, Kind: "commit", N: 1}
				}
				p.Fault = append(p.Fault, f)
			}
		case "restart":
			v := int64(0)
			if r.Chance(1, 3) {
				v = int64(r.Range(1, 12))
			}
			add(core.Op{K: k, A: []int64{v}})
			unlocked = false
		case "sknew":
			if nsk >= maxSK {
				continue
			}
			add(core.Op{K: k, A: []int64{int64(r.Intn(len(pwTable))), int64(r.Intn(len(scryptTable)))}})
			nsk++
		case "skderive":
			v := int64(0)
			if r.Chance(2, 3) {
				v = int64(r.Range(1, 12))
			}
			add(core.Op{K: k, A: []int64{s16(), v}})
		case "skzero", "sktwin":
			add(core.Op{K: k, A: []int64{s16()}})
		case "skmarshal":
			// fault 0 none, 1 truncate, 2 extend; arg = length / extra bytes
			v := int64(0)
			if r.Chance(1, 2) {
				v = int64(r.Range(1, 12))
			}
			add(core.Op{K: k, A: []int64{s16(), int64(r.Intn(3)), int64(r.Intn(1 << 10)), v}})
		case "sksplice":
			// [sk, near-miss variant, first digest byte, length-1]: half of
			// them are prefix splices, a quarter suffix splices
			a, l := int64(r.Intn(32)), int64(r.Intn(31))
			switch r.Intn(4) {
			case 0, 1:
				a = 0
			case 2:
				l = 31
			}
			add(core.Op{K: k, A: []int64{s16(), int64(r.Range(1, 12)), a, l}})
		case "foreign":
			// CKTPublic / CKTPrivate blobs under a second wallet. (CKTScript is
			// appended as the LAST operation of some plans, see below.)
			add(core.Op{K: k, A: []int64{int64(r.Intn(2)), s16()}})
		}
	}
	// Two checks that are kept at the very end of (some) plans so that what
	// they find cannot mask the rest of the plan: the HMAC-equivalent
	// passphrase, and a CKTScript blob presented to a second, unrelated wallet.
	if r.Chance(1, 5) {
		if nsk == 0 {
			add(core.Op{K: "sknew", A: []int64{int64(r.Intn(len(pwTable))), int64(r.Intn(len(scryptTable)))}})
		}
		add(core.Op{K: "skhmac", A: []int64{int64(r.Intn(1 << 16))}})
	}
	if r.Chance(1, 5) {
		if !unlocked {
			add(core.Op{K: "unlock", A: []int64{0}})
		}
		add(core.Op{K: "put", A: []int64{kScript, ptLen(), int64(r.Intn(6)), int64(r.Intn(1 << 16))}})
		add(core.Op{K: "foreign", A: []int64{kScript, int64(r.Intn(1 << 16))}})
	}
	return p
}

func b2i(b bool) int {
	if b {
		return 1
	}
	return 0
}

// ------------------------------------------------------------------- execute

type genuine struct {
	key int
	pt  []byte
}

type slot struct {
	key   int    // key the slot's metadata says the blob is encrypted under
	blob  []byte // what the simulated disk currently holds
	fault string // last persistent fault applied to the stored blob ("" = none)
	evAt  int    // index into the key's event list at the time of the write
}

type skState struct {
	sk     *snacl.SecretKey
	pw     []byte
	key    snacl.CryptoKey // the key NewSecretKey derived (harness knowledge)
	events []string
}

type exec struct {
	env  *core.Env
	p    *core.Plan
	path string
	db   *faultdb.DB
	mgr  *waddrmgr.Manager

	memPub, diskPub   []byte
	memPriv, diskPriv []byte
	mevents           []string // manager session events
	wasLocked         bool

	ck    [numCK]*snacl.CryptoKey
	sks   []*skState
	slots []*slot
	reg   map[string]genuine

	other   *waddrmgr.Manager
	otherDB walletdb.DB
}

func className(k int) string {
	switch {
	case k == kPub:
		return "CKTPublic"
	case k == kPriv:
		return "CKTPrivate"
	case k == kScript:
		return "CKTScript"
	case k >= kSK0:
		return "SecretKey"
	default:
		return "CryptoKey"
	}
}

func ckt(k int) waddrmgr.CryptoKeyType {
	switch k {
	case kPub:
		return waddrmgr.CKTPublic
	case kPriv:
		return waddrmgr.CKTPrivate
	}
	return waddrmgr.CKTScript
}

func cp(b []byte) []byte { return append([]byte{}, b...) }

func (x *exec) infra(format string, a ...any) {
	panic("vaultsim harness: " + fmt.Sprintf(format, a...))
}

// hmacNorm maps a passphrase to the canonical form of the HMAC-SHA256 key it
// is: HMAC replaces a key longer than the 64-byte block by its hash and
// zero-pads a shorter one, so trailing NUL bytes are not significant.
func hmacNorm(pw []byte) []byte {
	b := cp(pw)
	if len(b) > 64 {
		h := sha256.Sum256(b)
		b = h[:]
	}
	for len(b) > 0 && b[len(b)-1] == 0 {
		b = b[:len(b)-1]
	}
	return b
}

// nearMiss returns the v-th (v>=1) near-miss of pw, never equal to pw.
func nearMiss(pw []byte, v int64) (string, []byte) {
	type nm struct {
		n string
		b []byte
	}
	var l []nm
	norm := hmacNorm(pw)
	addNM := func(n string, b []byte) {
		// Candidates that are the same HMAC key as pw (trailing NULs, SHA-256
		// of a > 64-byte passphrase) are not near misses for PBKDF2/scrypt;
		// that equivalence has its own operation ("skhmac").
		if !bytes.Equal(hmacNorm(b), norm) {
			l = append(l, nm{n, b})
		}
	}
	addNM("extra-byte", append(cp(pw), 'x'))
	addNM("different", []byte("not the passphrase"))
	addNM("leading-space", append([]byte{' '}, pw...))
	if len(pw) > 0 {
		addNM("prefix", cp(pw[:len(pw)-1]))
		addNM("empty", []byte{})
		c := cp(pw)
		flipped := false
		for i, ch := range c {
			if (ch >= 'a' && ch <= 'z') || (ch >= 'A' && ch <= 'Z') {
				c[i] ^= 0x20
				flipped = true
				break
			}
		}
		if !flipped {
			c[0] ^= 0x20
		}
		addNM("case-flip", c)
		d := cp(pw)
		d[len(d)-1] ^= 1
		addNM("last-bit", d)
		addNM("doubled", append(cp(pw), pw...))
		addNM("suffix", cp(pw[1:]))
	}
	if v < 1 {
		v = 1
	}
	e := l[int((v-1)%int64(len(l)))]
	return e.n, e.b
}

func (x *exec) plaintext(n, seed int64) []byte {
	if n < 0 {
		n = -n
	}
	n %= 201
	return core.NewRand(core.Mix(x.p.Seed, 0x7074, uint64(seed))).Bytes(int(n))
}

func lastEvent(ev []string, at int) string {
	if at < len(ev) {
		return ev[len(ev)-1]
	}
	return "none"
}

func hasEvent(ev []string, at int, name string) bool {
	for i := at; i < len(ev); i++ {
		if ev[i] == name {
			return true
		}
	}
	return false
}

func (x *exec) events(k int) []string {
	if k >= kSK0 {
		if j := k - kSK0; j < len(x.sks) {
			return x.sks[j].events
		}
		return nil
	}
	if k >= kCK0 {
		return nil
	}
	return x.mevents
}

// available: can the key be used right now?
func (x *exec) available(k int) bool {
	switch {
	case k == kPub:
		return true
	case k == kPriv || k == kScript:
		return !x.mgr.IsLocked()
	case k >= kSK0:
		return k-kSK0 < len(x.sks)
	default:
		return k-kCK0 < numCK
	}
}

func (x *exec) encrypt(k int, pt []byte) ([]byte, error) {
	switch {
	case k <= kScript:
		return x.mgr.Encrypt(ckt(k), cp(pt))
	case k >= kSK0:
		return x.sks[k-kSK0].sk.Encrypt(cp(pt))
	default:
		return x.ck[k-kCK0].Encrypt(cp(pt))
	}
}

func (x *exec) decrypt(k int, blob []byte) ([]byte, error) {
	switch {
	case k <= kScript:
		return x.mgr.Decrypt(ckt(k), cp(blob))
	case k >= kSK0:
		return x.sks[k-kSK0].sk.Decrypt(cp(blob))
	default:
		return x.ck[k-kCK0].Decrypt(cp(blob))
	}
}

// selKey maps a generated key selector to a key identity (-1: none).
func (x *exec) selKey(a int64) int {
	if a < 0 {
		a = -a
	}
	a %= int64(3 + numCK + maxSK)
	switch {
	case a < 3:
		return int(a)
	case a < 3+numCK:
		return kCK0 + int(a-3)
	default:
		if len(x.sks) == 0 {
			return -1
		}
		return kSK0 + int(a-3-numCK)%len(x.sks)
	}
}

func idx(a int64, n int) int {
	if n <= 0 {
		return -1
	}
	if a < 0 {
		a = -a
	}
	return int(a % int64(n))
}

// ---- vault persistence (harness-owned bucket in the same database file)

func slotName(i int) []byte { return []byte(fmt.Sprintf("slot%03d", i)) }
func skName(j int) []byte   { return []byte(fmt.Sprintf("sk%03d", j)) }

func (x *exec) diskPut(name, val []byte) {
	err := walletdb.Update(x.db, func(tx walletdb.ReadWriteTx) error {
		return tx.ReadWriteBucket(vaultKey).Put(name, val)
	})
	if err != nil {
		x.infra("vault put: %v", err)
	}
}

func (x *exec) diskGet(name []byte) []byte {
	var out []byte
	err := walletdb.View(x.db, func(tx walletdb.ReadTx) error {
		out = cp(tx.ReadBucket(vaultKey).Get(name))
		return nil
	})
	if err != nil {
		x.infra("vault get: %v", err)
	}
	return out
}

func (x *exec) store(i int, blob []byte, fault string) {
	s := x.slots[i]
	s.blob, s.fault = cp(blob), fault
	x.diskPut(slotName(i), blob)
}

// read returns what the simulated disk holds for the slot (from the file).
func (x *exec) read(i int) []byte {
	b := x.diskGet(slotName(i))
	if !bytes.Equal(b, x.slots[i].blob) {
		x.infra("vault slot %d: file holds %d bytes, harness expects %d", i, len(b), len(x.slots[i].blob))
	}
	return b
}

// check decrypts blob under key k and judges the outcome against the
// registry. fault names the corruption for the signature ("" when the harness
// did not corrupt anything on purpose), evAt positions the blob in the key's
// event history. Returns false after a violation was recorded.
func (x *exec) check(k int, blob []byte, fault string, evAt int) bool {
	env := x.env
	if !x.available(k) {
		env.Count("skip.locked")
		return true
	}
	out, err := x.decrypt(k, blob)
	g, known := x.reg[string(blob)]
	switch {
	case known && g.key == k:
		env.Count("check.genuine")
		ev := x.events(k)
		if err != nil || !bytes.Equal(out, g.pt) {
			what := fmt.Sprintf("returned %d bytes that differ from the %d-byte plaintext", len(out), len(g.pt))
			if err != nil {
				what = "failed: " + err.Error()
			}
			env.Fail(prop, "roundtrip:key="+className(k)+":after="+lastEvent(ev, evAt),
				"decrypting an intact %d-byte ciphertext under the key it was encrypted with (%s) %s", len(blob), className(k), what)
			return false
		}
		if len(g.pt) == 0 {
			env.Count("probe.empty-plaintext")
		}
		if hasEvent(ev, evAt, "restart") {
			env.Count("probe.get-after-restart")
		}
		if (k == kPriv || k == kScript) && hasEvent(ev, evAt, "private-passphrase-change") {
			env.Count("probe.get-after-private-passphrase-change")
		}
		if k == kPub && hasEvent(ev, evAt, "public-passphrase-change") {
			env.Count("probe.get-after-public-passphrase-change")
		}
	case known:
		env.Count("check.crosskey")
		if err == nil {
			env.Fail(prop, "cross-key-accepted:blob="+className(g.key)+":under="+className(k),
				"a ciphertext produced under %s (key id %d) decrypted without error under %s (key id %d) to %d bytes", className(g.key), g.key, className(k), k, len(out))
			return false
		}
	default:
		env.Count("check.tampered")
		if err == nil {
			if fault == "" {
				fault = "unknown"
			}
			env.Fail(prop, "tamper-accepted:fault="+fault+":key="+className(k),
				"a %d-byte blob that is not a ciphertext ever produced in this run (fault: %s) decrypted without error under %s to %d bytes", len(blob), fault, className(k), len(out))
			return false
		}
	}
	return true
}

func flipBit(b []byte, pos int) []byte {
	c := cp(b)
	c[pos/8] ^= 1 << uint(pos%8)
	return c
}

func (x *exec) countFlipProbe(pos, blen int) {
	switch by := pos / 8; {
	case by < snacl.NonceSize:
		x.env.Count("probe.bitflip-in-nonce")
	case by < snacl.NonceSize+snacl.Overhead:
		x.env.Count("probe.bitflip-in-tag")
	default:
		x.env.Count("probe.bitflip-in-body")
	}
}

func (x *exec) digest() string {
	var b strings.Builder
	fmt.Fprintf(&b, "L%v/%d/%d/%d|", x.mgr.IsLocked(), len(x.mevents), len(x.sks), len(x.slots))
	for _, s := range x.slots {
		g, ok := x.reg[string(s.blob)]
		n := -1
		if ok {
			n = len(g.pt)
		}
		fmt.Fprintf(&b, "%d:%d:%s:%d,", s.key, n, s.fault, len(s.blob))
	}
	for _, s := range x.sks {
		fmt.Fprintf(&b, "s%d:%d,", len(s.pw), len(s.events))
	}
	return b.String()
}

func (x *exec) openDB(create bool) {
	var inner walletdb.DB
	var err error
	if create {
		inner, err = walletdb.Create("bdb", x.path, true, dbTO, false)
	} else {
		inner, err = walletdb.Open("bdb", x.path, true, dbTO, false)
	}
	if err != nil {
		x.infra("open db: %v", err)
	}
	x.db = faultdb.Wrap(inner)
}

func (x *exec) openMgr(pub []byte) (*waddrmgr.Manager, error) {
	var m *waddrmgr.Manager
	err := walletdb.View(x.db, func(tx walletdb.ReadTx) error {
		var e error
		m, e = waddrmgr.Open(tx.ReadBucket(nsKey), cp(pub), &chaincfg.MainNetParams)
		return e
	})
	return m, err
}

// reopenAfterFailedChange replaces the running manager by one opened on the
// database after a rolled-back passphrase change: the stored keys must still
// open under the passphrases that were current before the attempt.
func (x *exec) reopenAfterFailedChange(prop string) string {
	x.mgr.Close()
	x.mgr = nil
	m, err := x.openMgr(x.diskPub)
	if err != nil {
		x.env.Fail(prop, "open:right-passphrase-rejected:after=failed-passphrase-change",
			"waddrmgr.Open with the public passphrase on disk failed after a rolled-back passphrase change: %v", err)
		return "violation"
	}
	x.mgr = m
	x.memPub, x.memPriv = x.diskPub, x.diskPriv
	x.mevents = append(x.mevents, "failed-passphrase-change")
	x.wasLocked = true
	return ""
}

func (x *exec) faultFor(i int) *core.Fault {
	for j := range x.p.Fault {
		if x.p.Fault[j].Op == i {
			return &x.p.Fault[j]
		}
	}
	return nil
}

func (x *exec) close() {
	if x.mgr != nil {
		x.mgr.Close()
		x.mgr = nil
	}
	if x.db != nil {
		_ = x.db.Close()
		x.db = nil
	}
	if x.other != nil {
		x.other.Close()
		x.other = nil
	}
	if x.otherDB != nil {
		_ = x.otherDB.Close()
		x.otherDB = nil
	}
}

func newRoot(seed uint64) *hdkeychain.ExtendedKey {
	for i := uint64(0); ; i++ {
		k, err := hdkeychain.NewMaster(core.NewRand(core.Mix(seed, i)).Bytes(32), &chaincfg.MainNetParams)
		if err == nil {
			return k
		}
	}
}

func (x *exec) createWallet() {
	x.openDB(true)
	root := newRoot(core.Mix(x.p.Seed, 1))
	err := walletdb.Update(x.db, func(tx walletdb.ReadWriteTx) error {
		ns, err := tx.CreateTopLevelBucket(nsKey)
		if err != nil {
			return err
		}
		if _, err := tx.CreateTopLevelBucket(vaultKey); err != nil {
			return err
		}
		return waddrmgr.Create(ns, root, cp(x.diskPub), cp(x.diskPriv), &chaincfg.MainNetParams,
			&waddrmgr.FastScryptOptions, time.Time{})
	})
	if err != nil {
		x.infra("create wallet: %v", err)
	}
	m, err := x.openMgr(x.diskPub)
	if err != nil {
		x.infra("open fresh wallet: %v", err)
	}
	x.mgr = m
}

// otherWallet lazily creates a second, unrelated wallet (different seed,
// different passphrases) and unlocks it.
func (x *exec) otherWallet() *waddrmgr.Manager {
	if x.other != nil {
		return x.other
	}
	db, err := walletdb.Create("bdb", filepath.Join(x.env.Dir, "other.db"), true, dbTO, false)
	if err != nil {
		x.infra("other db: %v", err)
	}
	x.otherDB = db
	pub, priv := []byte("the other wallet's public passphrase"), []byte("the other wallet's private passphrase")
	root := newRoot(core.Mix(x.p.Seed, 2))
	err = walletdb.Update(db, func(tx walletdb.ReadWriteTx) error {
		ns, err := tx.CreateTopLevelBucket(nsKey)
		if err != nil {
			return err
		}
		if err := waddrmgr.Create(ns, root, cp(pub), cp(priv), &chaincfg.MainNetParams, &waddrmgr.FastScryptOptions, time.Time{}); err != nil {
			return err
		}
		m, err := waddrmgr.Open(ns, cp(pub), &chaincfg.MainNetParams)
		if err != nil {
			return err
		}
		x.other = m
		return m.Unlock(ns, cp(priv))
	})
	if err != nil {
		x.infra("other wallet: %v", err)
	}
	return x.other
}

func (sim) Execute(env *core.Env, p *core.Plan) {
	if p.Prop != prop {
		return
	}
	x := &exec{env: env, p: p, path: filepath.Join(env.Dir, "w.db"), reg: map[string]genuine{}}
	// All entropy snacl consumes in this run (nonces, salts, generated crypto
	// keys) is a function of the plan seed.
	snacl.VerifSetPRNG(core.NewRand(core.Mix(p.Seed, 0x6e6f6e6365)))
	defer snacl.VerifSetPRNG(nil)
	defer x.close()

	x.diskPub = []byte(pwTable[1+idx(p.C("pub", 1)-1, len(pwTable)-1)])
	x.diskPriv = []byte(pwTable[1+idx(p.C("priv", 2)-1, len(pwTable)-1)])
	x.memPub, x.memPriv = x.diskPub, x.diskPriv
	x.createWallet()
	x.wasLocked = true
	for i := range x.ck {
		k, err := snacl.GenerateCryptoKey()
		if err != nil {
			x.infra("GenerateCryptoKey: %v", err)
		}
		x.ck[i] = k
	}
	sweepMax := int(p.C("sweepmax", 64))

	for i, op := range p.Ops {
		env.Step(i)
		res := x.step(i, op, sweepMax)
		env.Logf("%d %s %v -> %s", i, op.K, op.A, res)
		if env.Failed() {
			return
		}
		env.State("%s", x.digest())
	}
}

// pickSlot returns the (sel mod n)-th slot index satisfying pred, or -1.
func (x *exec) pickSlot(sel int64, pred func(i int, s *slot) bool) int {
	var c []int
	for i, s := range x.slots {
		if pred == nil || pred(i, s) {
			c = append(c, i)
		}
	}
	if len(c) == 0 {
		return -1
	}
	return c[idx(sel, len(c))]
}

func (x *exec) isGenuine(s *slot) bool {
	g, ok := x.reg[string(s.blob)]
	return ok && g.key == s.key
}

// put encrypts pt under k (twice: equal plaintexts must give different
// ciphertexts), registers the ciphertexts and returns the first.
func (x *exec) seal(k int, pt []byte) ([]byte, bool) {
	env := x.env
	c1, err := x.encrypt(k, pt)
	if err != nil {
		env.Fail(prop, "encrypt-failed:key="+className(k), "Encrypt of %d bytes under an available key failed: %v", len(pt), err)
		return nil, false
	}
	c2, err := x.encrypt(k, pt)
	if err != nil {
		env.Fail(prop, "encrypt-failed:key="+className(k), "Encrypt of %d bytes under an available key failed: %v", len(pt), err)
		return nil, false
	}
	for _, c := range [][]byte{c1, c2} {
		if g, dup := x.reg[string(c)]; dup && g.key == k && bytes.Equal(g.pt, pt) {
			env.Fail(prop, "nonce-reuse:key="+className(k), "two encryptions of the same %d-byte plaintext under the same %s key produced identical %d-byte ciphertexts", len(pt), className(k), len(c))
			return nil, false
		} else if dup {
			x.infra("ciphertext collision between different (key, plaintext) pairs")
		}
		x.reg[string(c)] = genuine{key: k, pt: cp(pt)}
	}
	return c1, true
}

func (x *exec) step(i int, op core.Op, sweepMax int) string {
	env := x.env
	switch op.K {
	case "put":
		k := x.selKey(op.Arg(0))
		if k < 0 {
			return "skip:no-key"
		}
		if !x.available(k) {
			env.Count("skip.locked")
			return "skip:locked"
		}
		env.Count("op.put")
		pt := x.plaintext(op.Arg(1), op.Arg(2))
		c, ok := x.seal(k, pt)
		if !ok {
			return "violation"
		}
		si := len(x.slots)
		if si >= maxSlots {
			si = idx(op.Arg(3), len(x.slots))
		} else {
			x.slots = append(x.slots, &slot{})
		}
		x.slots[si].key = k
		x.slots[si].evAt = len(x.events(k))
		x.store(si, c, "")
		env.Eff()
		// read back at once (same session)
		if !x.check(k, x.read(si), "", x.slots[si].evAt) {
			return "violation"
		}
		return fmt.Sprintf("slot=%d key=%d len=%d", si, k, len(pt))

	case "get":
		si := x.pickSlot(op.Arg(0), nil)
		if si < 0 {
			return "skip"
		}
		s := x.slots[si]
		if !x.available(s.key) {
			env.Count("skip.locked")
			return "skip:locked"
		}
		env.Count("op.get")
		env.Eff()
		if !x.check(s.key, x.read(si), s.fault, s.evAt) {
			return "violation"
		}
		return fmt.Sprintf("slot=%d key=%d fault=%q", si, s.key, s.fault)

	case "flip", "trunc", "extend":
		si := x.pickSlot(op.Arg(0), func(_ int, s *slot) bool { return x.available(s.key) && len(s.blob) > 0 })
		if si < 0 {
			return "skip"
		}
		s := x.slots[si]
		cur := x.read(si)
		var bad []byte
		persist := false
		switch op.K {
		case "flip":
			pos := idx(op.Arg(1), len(cur)*8)
			bad = flipBit(cur, pos)
			x.countFlipProbe(pos, len(cur))
			persist = op.Arg(2) != 0
		case "trunc":
			n := idx(op.Arg(1), len(cur)) // 0..len-1
			if op.Arg(1) < 0 && int(-op.Arg(1)) < len(cur) {
				n = int(-op.Arg(1))
			}
			bad = cp(cur[:n])
			if n == 0 {
				env.Count("probe.truncate-to-zero")
			} else if n < snacl.NonceSize+snacl.Overhead {
				env.Count("probe.truncate-below-overhead")
			}
			persist = op.Arg(2) != 0
		case "extend":
			n := 1 + idx(op.Arg(1), 16)
			bad = append(cp(cur), core.NewRand(core.Mix(x.p.Seed, 0x657874, uint64(op.Arg(2)))).Bytes(n)...)
			persist = op.Arg(3) != 0
		}
		fault := map[string]string{"flip": "bitflip", "trunc": "truncate", "extend": "extend"}[op.K]
		env.Count("op." + op.K)
		env.Count("fault." + fault)
		env.Eff()
		if persist {
			// the corruption hits the medium: later reads (also in later
			// sessions) see the same bad bytes
			x.store(si, bad, fault)
			bad = x.read(si)
		}
		if !x.check(s.key, bad, fault, s.evAt) {
			return "violation"
		}
		return fmt.Sprintf("slot=%d key=%d %s len=%d->%d persist=%v", si, s.key, fault, len(cur), len(bad), persist)

	case "torn":
		si := x.pickSlot(op.Arg(0), func(_ int, s *slot) bool { return x.available(s.key) })
		if si < 0 {
			return "skip"
		}
		s := x.slots[si]
		old := x.read(si)
		pt := x.plaintext(op.Arg(2), op.Arg(3))
		nw, ok := x.seal(s.key, pt)
		if !ok {
			return "violation"
		}
		m := len(nw)
		if len(old) > m {
			m = len(old)
		}
		cut := idx(op.Arg(1), m+1)
		a, b := cut, cut
		if a > len(nw) {
			a = len(nw)
		}
		if b > len(old) {
			b = len(old)
		}
		torn := append(cp(nw[:a]), old[b:]...)
		env.Count("op.torn")
		env.Eff()
		fault := "torn"
		if _, genuineBytes := x.reg[string(torn)]; genuineBytes {
			// the tear fell on a boundary: the medium holds the old or the new
			// blob in full, which is not a corruption
			fault = ""
			env.Count("note.torn-equals-whole-blob")
		} else {
			env.Count("fault.torn")
		}
		if bytes.Equal(torn, nw) {
			s.evAt = len(x.events(s.key))
		}
		x.store(si, torn, fault)
		if !x.check(s.key, x.read(si), fault, s.evAt) {
			return "violation"
		}
		return fmt.Sprintf("slot=%d key=%d cut=%d old=%d new=%d fault=%q", si, s.key, cut, len(old), len(nw), fault)

	case "swap":
		ai := x.pickSlot(op.Arg(0), func(_ int, s *slot) bool { return x.available(s.key) })
		if ai < 0 {
			return "skip"
		}
		// prefer a partner under a different key
		bi := x.pickSlot(op.Arg(1), func(j int, s *slot) bool { return j != ai && s.key != x.slots[ai].key })
		if bi < 0 {
			bi = x.pickSlot(op.Arg(1), func(j int, s *slot) bool { return j != ai })
		}
		if bi < 0 {
			return "skip"
		}
		a, b := x.slots[ai], x.slots[bi]
		ba, bb := x.read(ai), x.read(bi)
		env.Count("op.swap")
		env.Count("fault.swap")
		env.Eff()
		if a.key != b.key {
			env.Count("probe.cross-key-swap")
		}
		if op.Arg(2) != 0 {
			// misdirected writes: the medium now holds each blob in the other's place
			x.store(ai, bb, "swap")
			x.store(bi, ba, "swap")
			ba, bb = x.read(bi), x.read(ai)
		}
		// a read of slot a returns b's blob and vice versa
		if !x.check(a.key, bb, "swap", a.evAt) {
			return "violation"
		}
		if !x.check(b.key, ba, "swap", b.evAt) {
			return "violation"
		}
		return fmt.Sprintf("slots=%d,%d keys=%d,%d persist=%v", ai, bi, a.key, b.key, op.Arg(2) != 0)

	case "xkey":
		si := x.pickSlot(op.Arg(0), func(_ int, s *slot) bool { return x.isGenuine(s) })
		if si < 0 {
			return "skip"
		}
		s := x.slots[si]
		o := x.selKey(op.Arg(1))
		if o < 0 || o == s.key || !x.available(o) {
			return "skip"
		}
		env.Count("op.xkey")
		env.Eff()
		if !x.check(o, x.read(si), "", 0) {
			return "violation"
		}
		return fmt.Sprintf("slot=%d key=%d under=%d", si, s.key, o)

	case "sweep":
		what := idx(op.Arg(1), 3)
		si := x.pickSlot(op.Arg(0), func(_ int, s *slot) bool {
			return x.isGenuine(s) && x.available(s.key) && (what == 1 || len(s.blob) <= sweepMax)
		})
		if si < 0 {
			return "skip"
		}
		s := x.slots[si]
		cur := x.read(si)
		env.Count("op.sweep")
		env.Eff()
		if what != 1 {
			for pos := 0; pos < len(cur)*8; pos++ {
				env.Count("sweep.bitflips")
				if !x.check(s.key, flipBit(cur, pos), "bitflip", s.evAt) {
					return "violation"
				}
			}
			env.Count("probe.sweep-all-bits")
		}
		if what != 0 {
			for n := 0; n < len(cur); n++ {
				env.Count("sweep.truncations")
				if !x.check(s.key, cur[:n], "truncate", s.evAt) {
					return "violation"
				}
			}
			env.Count("probe.sweep-all-truncations")
		}
		return fmt.Sprintf("slot=%d key=%d len=%d what=%d", si, s.key, len(cur), what)

	case "encrace":
		// Manager.Encrypt / Decrypt by one caller while another caller locks
		// the manager, under the seeded scheduler (every mutex acquisition
		// and release of waddrmgr is a scheduling point). Whatever the order:
		// a call that reports success has used the key of its type — what it
		// sealed opens again once the manager is unlocked, and what it opened
		// is the plaintext.
		if x.mgr.IsLocked() || x.mgr.WatchOnly() {
			return "skip"
		}
		kt := []waddrmgr.CryptoKeyType{waddrmgr.CKTPrivate, waddrmgr.CKTScript, waddrmgr.CKTPublic}[int(uint64(op.Arg(0))%3)]
		n := int(op.Arg(2))
		if n < 0 {
			n = 0
		}
		if n > 512 {
			n = 512
		}
		pt := core.NewRand(uint64(op.Arg(1)) ^ 0x5eed).Bytes(n)
		env.Count("op.encrace")
		env.Eff()
		// a ciphertext made beforehand, for the Decrypt variant
		pre, perr := x.mgr.Encrypt(kt, cp(pt))
		if perr != nil {
			return "skip"
		}
		var ct, back []byte
		var eerr, derr error
		variant := op.Arg(3) % 3
		rep := simrt.Run(simrt.Config{Seed: uint64(op.Arg(1)), Strategy: []string{"random", "rtb1", "pct"}[int(uint64(op.Arg(1))%3)],
			StuckAfter: time.Hour, MaxSteps: 20000, ExpectedSteps: 60, YieldAfterUnlock: true}, func() {
			simrt.GoNamed("enc", func() {
				if variant == 2 {
					back, derr = x.mgr.Decrypt(kt, cp(pre))
				} else {
					ct, eerr = x.mgr.Encrypt(kt, cp(pt))
				}
			})
			simrt.GoNamed("lock", func() {
				if variant == 1 {
					simrt.Yield("harness:before-lock")
				}
				_ = x.mgr.Lock()
			})
			simrt.WaitIdle("harness:encrace")
		})
		if rep.Stuck || rep.StepLimit {
			env.Fail(prop, "encrace:stuck", "Encrypt/Decrypt beside Lock did not finish: %s", rep.StuckInfo)
			return "violation"
		}
		env.Add("sched.steps", int64(rep.Steps))
		x.wasLocked = true
		if err := walletdb.View(x.db, func(tx walletdb.ReadTx) error {
			return x.mgr.Unlock(tx.ReadBucket(nsKey), cp(x.memPriv))
		}); err != nil {
			env.Fail(prop, "unlock:right-passphrase-rejected:after=encrypt-beside-lock", "Unlock with the current private passphrase failed after Encrypt raced Lock: %v", err)
			return "violation"
		}
		x.mevents = append(x.mevents, "lock-unlock")
		x.wasLocked = false
		if variant == 2 {
			if derr == nil && !bytes.Equal(back, pt) {
				env.Fail(prop, fmt.Sprintf("decrypt-beside-lock:wrong-plaintext:key=%v", kt), "Decrypt(%v) beside a concurrent Lock returned %d bytes that are not the plaintext, without an error", kt, len(back))
				return "violation"
			}
			if derr == nil {
				env.Count("probe.decrypt-beside-lock-succeeded")
			} else {
				env.Count("probe.decrypt-beside-lock-refused")
			}
			return "ok"
		}
		if eerr != nil {
			env.Count("probe.encrypt-beside-lock-refused")
			return "refused"
		}
		env.Count("probe.encrypt-beside-lock-succeeded")
		got, err := x.mgr.Decrypt(kt, cp(ct))
		if err != nil || !bytes.Equal(got, pt) {
			env.Fail(prop, fmt.Sprintf("encrypt-beside-lock:not-under-its-key:key=%v", kt), "Encrypt(%v) beside a concurrent Lock returned a ciphertext without an error, but after unlocking again Decrypt(%v) gives err=%v (plaintext equal: %v): it was not sealed under the manager's key",
				kt, kt, err, bytes.Equal(got, pt))
			return "violation"
		}
		return "ok"

	case "lock":
		if x.mgr.IsLocked() {
			return "skip"
		}
		env.Count("op.lock")
		env.Eff()
		if err := x.mgr.Lock(); err != nil {
			return "err"
		}
		x.wasLocked = true
		return "ok"

	case "unlock":
		env.Count("op.unlock")
		env.Eff()
		pw, name := cp(x.memPriv), "right"
		if op.Arg(0) != 0 {
			name, pw = nearMiss(x.memPriv, op.Arg(0))
			env.Count("probe.near-miss-passphrase")
		}
		before := x.mgr.IsLocked()
		err := walletdb.View(x.db, func(tx walletdb.ReadTx) error {
			return x.mgr.Unlock(tx.ReadBucket(nsKey), pw)
		})
		if op.Arg(0) == 0 {
			if err != nil {
				env.Fail(prop, "unlock:right-passphrase-rejected:after="+lastEvent(x.mevents, 0),
					"Unlock with the current private passphrase failed (manager was locked=%v): %v", before, err)
				return "violation"
			}
			if before || x.wasLocked {
				x.mevents = append(x.mevents, "lock-unlock")
				x.wasLocked = false
			}
		} else {
			if err == nil {
				env.Fail(prop, "unlock:near-miss-accepted:variant="+name,
					"Unlock accepted a passphrase (%s variant, %d bytes) that is not the current private passphrase (%d bytes); manager was locked=%v", name, len(pw), len(x.memPriv), before)
				return "violation"
			}
			if x.mgr.IsLocked() {
				x.wasLocked = true
			}
		}
		return fmt.Sprintf("%s err=%v", name, err != nil)

	case "chpass":
		private := op.Arg(0) != 0
		old, mem := x.memPub, &x.memPub
		if private {
			old, mem = x.memPriv, &x.memPriv
		}
		name := "right"
		oldArg := cp(old)
		if op.Arg(1) != 0 {
			name, oldArg = nearMiss(old, op.Arg(1))
			env.Count("probe.near-miss-passphrase")
		}
		newPw := []byte(pwTable[1+idx(op.Arg(2)-1, len(pwTable)-1)])
		env.Count("op.chpass")
		env.Eff()
		f := x.faultFor(i)
		x.db.Reset()
		if f != nil && op.Arg(1) == 0 {
			switch f.Kind {
			case "dbwrite":
				x.db.Arm(f.N)
			case "commit":
				x.db.FailCommit = true
			}
		}
		var inner error
		called := false
		err := walletdb.Update(x.db, func(tx walletdb.ReadWriteTx) error {
			called = true
			// the caller's buffers are its own again once the call has
			// returned: they are wiped before the transaction commits
			oldBuf, newBuf := cp(oldArg), cp(newPw)
			inner = x.mgr.ChangePassphrase(tx.ReadWriteBucket(nsKey), oldBuf, newBuf, private, &waddrmgr.FastScryptOptions)
			for i := range oldBuf {
				oldBuf[i] = 0
			}
			for i := range newBuf {
				newBuf[i] = 0
			}
			return inner
		})
		fired := x.db.Fired > 0
		kind := x.db.LastKind
		x.db.Reset()
		if !called {
			x.infra("update closure not called: %v", err)
		}
		which := "public"
		if private {
			which = "private"
		}
		switch {
		case op.Arg(1) != 0:
			if inner == nil {
				env.Fail(prop, "chpass:near-miss-accepted:which="+which+":variant="+name,
					"ChangePassphrase(%s) accepted an old passphrase (%s variant) that is not the current one", which, name)
				return "violation"
			}
			return "wrong-old rejected"
		case fired && kind == "commit":
			// ChangePassphrase itself succeeded but the transaction did not
			// commit. Whether the RUNNING manager is still on the old
			// passphrase afterwards is C10's question (decided by addrsim's
			// fault enumeration); C17 is about which passphrase opens which
			// stored key, so the manager is reopened from the (unchanged)
			// database and the run continues from there.
			env.Count("fault.commit")
			if inner != nil {
				env.Fail(prop, "chpass:right-passphrase-rejected:which="+which, "ChangePassphrase(%s) with the current passphrase failed: %v", which, inner)
				return "violation"
			}
			if r := x.reopenAfterFailedChange(prop); r != "" {
				return r
			}
			return "commit-failed, manager reopened"
		case fired:
			env.Count("fault.dbwrite")
			if inner == nil {
				// the failing Put was swallowed; whatever happened, the
				// transaction was not rolled back by us. Not C17's business:
				// resynchronise the passphrase model from the outcome.
				x.infra("ChangePassphrase swallowed an injected write failure")
			}
			if r := x.reopenAfterFailedChange(prop); r != "" {
				return r
			}
			return "write-failed, manager reopened"
		default:
			if inner != nil || err != nil {
				env.Fail(prop, "chpass:right-passphrase-rejected:which="+which, "ChangePassphrase(%s) with the current passphrase failed: %v / %v", which, inner, err)
				return "violation"
			}
			*mem = newPw
			if private {
				x.diskPriv = newPw
				x.mevents = append(x.mevents, "private-passphrase-change")
				env.Count("chpass.private-ok")
			} else {
				x.diskPub = newPw
				x.mevents = append(x.mevents, "public-passphrase-change")
				env.Count("chpass.public-ok")
			}
			return which + " changed"
		}

	case "restart":
		env.Count("op.restart")
		env.Eff()
		x.mgr.Close()
		x.mgr = nil
		if err := x.db.Close(); err != nil {
			x.infra("close db: %v", err)
		}
		x.db = nil
		x.openDB(false)
		if op.Arg(0) != 0 {
			name, pw := nearMiss(x.diskPub, op.Arg(0))
			env.Count("probe.near-miss-passphrase")
			m, err := x.openMgr(pw)
			if err == nil {
				x.mgr = m
				env.Fail(prop, "open:near-miss-accepted:variant="+name,
					"waddrmgr.Open accepted a public passphrase (%s variant) that is not the one the master public key was created from", name)
				return "violation"
			}
		}
		m, err := x.openMgr(x.diskPub)
		if err != nil {
			env.Fail(prop, "open:right-passphrase-rejected:after="+lastEvent(x.mevents, 0),
				"waddrmgr.Open with the public passphrase on disk failed after restart: %v", err)
			return "violation"
		}
		x.mgr = m
		x.memPub, x.memPriv = x.diskPub, x.diskPriv
		x.mevents = append(x.mevents, "restart")
		x.wasLocked = true
		// vault blobs come back from the file
		for si := range x.slots {
			_ = x.read(si)
		}
		// SecretKeys are rebuilt from their stored parameters
		for j, s := range x.sks {
			fresh := &snacl.SecretKey{}
			if err := fresh.Unmarshal(x.diskGet(skName(j))); err != nil {
				env.Fail(prop, "unmarshal:wellformed-rejected:after=restart", "Unmarshal of stored SecretKey parameters failed: %v", err)
				return "violation"
			}
			s.sk = fresh
			s.events = append(s.events, "restart")
			if !x.deriveRight(j, "restart") {
				return "violation"
			}
		}
		return "ok"

	case "sknew":
		if len(x.sks) >= maxSK {
			return "skip"
		}
		env.Count("op.sknew")
		env.Eff()
		pw := []byte(pwTable[idx(op.Arg(0), len(pwTable))])
		sp := scryptTable[idx(op.Arg(1), len(scryptTable))]
		pwc := cp(pw)
		sk, err := snacl.NewSecretKey(&pwc, sp[0], sp[1], sp[2])
		if err != nil {
			x.infra("NewSecretKey: %v", err)
		}
		st := &skState{sk: sk, pw: pw, key: *sk.Key}
		x.sks = append(x.sks, st)
		x.diskPut(skName(len(x.sks)-1), sk.Marshal())
		return fmt.Sprintf("sk=%d pwlen=%d N=%d r=%d p=%d", len(x.sks)-1, len(pw), sp[0], sp[1], sp[2])

	case "skderive":
		j := idx(op.Arg(0), len(x.sks))
		if j < 0 {
			return "skip"
		}
		env.Count("op.skderive")
		env.Eff()
		if op.Arg(1) == 0 {
			if !x.deriveRight(j, lastEvent(x.sks[j].events, 0)) {
				return "violation"
			}
			return fmt.Sprintf("sk=%d right", j)
		}
		if !x.deriveWrong(j, op.Arg(1), lastEvent(x.sks[j].events, 0)) {
			return "violation"
		}
		return fmt.Sprintf("sk=%d near-miss", j)

	case "skhmac":
		// A different byte string that is the same HMAC key: passphrase plus a
		// trailing NUL (short passphrases), or the SHA-256 of a passphrase
		// longer than the HMAC block. C17 says "accepts only the exact
		// passphrase it was created from".
		j := idx(op.Arg(0), len(x.sks))
		if j < 0 {
			return "skip"
		}
		s := x.sks[j]
		var pw []byte
		name := ""
		switch {
		case len(s.pw) < 64:
			name, pw = "trailing-nul", append(cp(s.pw), 0)
		case len(s.pw) > 64:
			h := sha256.Sum256(s.pw)
			name, pw = "sha256-of-long-passphrase", h[:]
		default:
			return "skip"
		}
		env.Count("op.skhmac")
		env.Count("check.derive-nearmiss")
		env.Eff()
		arg := cp(pw)
		err := s.sk.DeriveKey(&arg)
		if err == nil {
			env.Fail(prop, "derivekey:near-miss-accepted:variant="+name,
				"DeriveKey accepted a %d-byte passphrase (%s) that is not the %d-byte creating passphrase byte for byte (it is the same HMAC-SHA256 key, so PBKDF2/scrypt cannot tell them apart)", len(pw), name, len(s.pw))
			return "violation"
		}
		s.events = append(s.events, "near-miss")
		if !x.deriveRight(j, "near-miss") {
			return "violation"
		}
		return fmt.Sprintf("sk=%d %s rejected", j, name)

	case "sksplice":
		// Adversarial corruption of a stored parameter blob: part of the
		// digest field is overwritten with the corresponding bytes of the
		// digest a WRONG passphrase would need (computed by the harness with
		// x/crypto/scrypt + sha256, not with snacl). The blob is well formed;
		// the wrong passphrase still does not match the digest in full and
		// must be rejected. (What the RIGHT passphrase does against a
		// corrupted digest is not asserted.)
		j := idx(op.Arg(0), len(x.sks))
		if j < 0 {
			return "skip"
		}
		s := x.sks[j]
		v := op.Arg(1)
		if v < 1 {
			v = 1
		}
		name, wrong := nearMiss(s.pw, v)
		pr := s.sk.Parameters
		wk, err := scrypt.Key(wrong, pr.Salt[:], pr.N, pr.R, pr.P, snacl.KeySize)
		if err != nil {
			x.infra("scrypt: %v", err)
		}
		wd := sha256.Sum256(wk)
		blob := x.diskGet(skName(j))
		if len(blob) != 88 {
			x.infra("stored parameter blob has %d bytes", len(blob))
		}
		a := idx(op.Arg(2), 32)
		b := a + 1 + idx(op.Arg(3), 31)
		if b > 32 {
			b = 32
		}
		if a == 0 && b == 32 {
			b = 31
		}
		copy(blob[32+a:32+b], wd[a:b])
		if bytes.Equal(blob[32:64], wd[:]) {
			return "skip:digest-collision"
		}
		env.Count("op.sksplice")
		env.Count("fault.params-digest-splice")
		env.Count("check.derive-nearmiss")
		env.Count("probe.near-miss-passphrase")
		env.Eff()
		var f snacl.SecretKey
		if err := f.Unmarshal(blob); err != nil {
			env.Fail(prop, "unmarshal:wellformed-rejected:after=digest-splice", "Unmarshal of an 88-byte parameter blob failed: %v", err)
			return "violation"
		}
		if err := f.DeriveKey(&wrong); err == nil {
			env.Fail(prop, "derivekey:near-miss-accepted:variant="+name+":after=digest-splice",
				"DeriveKey accepted a wrong passphrase (%s variant) against stored parameters whose digest bytes [%d,%d) had been overwritten with those of the wrong passphrase's digest; the remaining %d digest bytes do not match", name, a, b, 32-(b-a))
			return "violation"
		}
		return fmt.Sprintf("sk=%d %s digest[%d:%d]", j, name, a, b)

	case "skzero":
		j := idx(op.Arg(0), len(x.sks))
		if j < 0 {
			return "skip"
		}
		env.Count("op.skzero")
		env.Eff()
		s := x.sks[j]
		s.sk.Zero()
		s.events = append(s.events, "zero")
		// the zeroed key is another key: an old ciphertext must not open
		if si := x.pickSlot(0, func(_ int, t *slot) bool { return t.key == kSK0+j && x.isGenuine(t) }); si >= 0 {
			env.Count("check.crosskey")
			if out, err := s.sk.Decrypt(x.read(si)); err == nil {
				env.Fail(prop, "cross-key-accepted:blob=SecretKey:under=zeroed-SecretKey", "after Zero() the SecretKey still decrypted an old ciphertext to %d bytes", len(out))
				return "violation"
			}
		}
		if !x.deriveRight(j, "zero") {
			return "violation"
		}
		return fmt.Sprintf("sk=%d", j)

	case "sktwin":
		j := idx(op.Arg(0), len(x.sks))
		if j < 0 {
			return "skip"
		}
		env.Count("op.sktwin")
		env.Eff()
		s := x.sks[j]
		pwc := cp(s.pw)
		pr := s.sk.Parameters
		twin, err := snacl.NewSecretKey(&pwc, pr.N, pr.R, pr.P)
		if err != nil {
			x.infra("NewSecretKey(twin): %v", err)
		}
		if *twin.Key == s.key || twin.Parameters.Salt == pr.Salt {
			env.Fail(prop, "secretkey:same-passphrase-same-key", "two SecretKeys created from the same passphrase have the same key/salt")
			return "violation"
		}
		if si := x.pickSlot(op.Arg(0), func(_ int, t *slot) bool { return t.key == kSK0+j && x.isGenuine(t) }); si >= 0 {
			env.Count("check.crosskey")
			if out, err := twin.Decrypt(x.read(si)); err == nil {
				env.Fail(prop, "cross-key-accepted:blob=SecretKey:under=twin-SecretKey", "a second SecretKey created from the same passphrase decrypted the first one's ciphertext to %d bytes", len(out))
				return "violation"
			}
		}
		twin.Zero()
		return fmt.Sprintf("sk=%d", j)

	case "skmarshal":
		j := idx(op.Arg(0), len(x.sks))
		if j < 0 {
			return "skip"
		}
		env.Count("op.skmarshal")
		env.Eff()
		s := x.sks[j]
		x.diskPut(skName(j), s.sk.Marshal())
		stored := x.diskGet(skName(j))
		res := "intact"
		switch idx(op.Arg(1), 3) {
		case 1:
			n := idx(op.Arg(2), len(stored))
			res = fmt.Sprintf("truncate=%d", n)
			if !x.malformed(stored[:n], "truncate") {
				return "violation"
			}
		case 2:
			n := 1 + idx(op.Arg(2), 32)
			res = fmt.Sprintf("extend=%d", n)
			if !x.malformed(append(cp(stored), core.NewRand(uint64(op.Arg(2))).Bytes(n)...), "extend") {
				return "violation"
			}
		}
		// the intact encoding: a fresh SecretKey takes over ("restart" of this key)
		fresh := &snacl.SecretKey{}
		if err := fresh.Unmarshal(cp(stored)); err != nil {
			env.Fail(prop, "unmarshal:wellformed-rejected:after=marshal", "Unmarshal(Marshal()) failed: %v", err)
			return "violation"
		}
		old := s.sk
		s.sk = fresh
		s.events = append(s.events, "marshal")
		if op.Arg(3) != 0 {
			if !x.deriveWrong(j, op.Arg(3), "marshal") {
				return "violation"
			}
		} else if !x.deriveRight(j, "marshal") {
			return "violation"
		}
		if fresh.Parameters != old.Parameters {
			env.Fail(prop, "unmarshal:params-differ", "SecretKey parameters differ after Marshal/Unmarshal: N,r,p %d,%d,%d -> %d,%d,%d (salt equal=%v digest equal=%v)",
				old.Parameters.N, old.Parameters.R, old.Parameters.P, fresh.Parameters.N, fresh.Parameters.R, fresh.Parameters.P,
				old.Parameters.Salt == fresh.Parameters.Salt, old.Parameters.Digest == fresh.Parameters.Digest)
			return "violation"
		}
		env.Count("probe.secretkey-marshal-roundtrip")
		// the re-derived key opens an old ciphertext
		if si := x.pickSlot(op.Arg(2), func(_ int, t *slot) bool { return t.key == kSK0+j && x.isGenuine(t) }); si >= 0 {
			if !x.check(kSK0+j, x.read(si), "", x.slots[si].evAt) {
				return "violation"
			}
		}
		return fmt.Sprintf("sk=%d %s", j, res)

	case "foreign":
		k := idx(op.Arg(0), 3)
		si := x.pickSlot(op.Arg(1), func(_ int, s *slot) bool { return s.key == k && x.isGenuine(s) })
		if si < 0 {
			return "skip"
		}
		env.Count("op.foreign")
		env.Count("check.crosskey")
		env.Eff()
		o := x.otherWallet()
		out, err := o.Decrypt(ckt(k), x.read(si))
		if err == nil {
			_, zerr := (&snacl.CryptoKey{}).Decrypt(x.read(si))
			env.Fail(prop, "cross-key-accepted:blob="+className(k)+":under=other-wallet-"+className(k),
				"a %s ciphertext of this wallet decrypted without error to %d bytes under the %s key of a second wallet created from a different seed with different passphrases (correct plaintext: %v; the same blob opens under the all-zero snacl.CryptoKey: %v)",
				className(k), len(out), className(k), bytes.Equal(out, x.reg[string(x.slots[si].blob)].pt), zerr == nil)
			return "violation"
		}
		return fmt.Sprintf("slot=%d key=%d rejected", si, k)
	}
	return "skip:unknown-op"
}

// malformed: a parameter blob of the wrong size must not unmarshal.
func (x *exec) malformed(b []byte, fault string) bool {
	x.env.Count("check.malformed")
	x.env.Count("fault.params-" + fault)
	var sk snacl.SecretKey
	if err := sk.Unmarshal(cp(b)); err == nil {
		x.env.Fail(prop, "unmarshal:malformed-accepted:fault="+fault, "Unmarshal accepted a %d-byte parameter blob (%s)", len(b), fault)
		return false
	}
	return true
}

// deriveRight: DeriveKey with the creating passphrase must succeed and give
// the key NewSecretKey derived.
func (x *exec) deriveRight(j int, after string) bool {
	s := x.sks[j]
	x.env.Count("check.derive-right")
	pw := cp(s.pw)
	if err := s.sk.DeriveKey(&pw); err != nil {
		x.env.Fail(prop, "derivekey:right-passphrase-rejected:after="+after, "DeriveKey with the creating passphrase (%d bytes) failed: %v", len(s.pw), err)
		return false
	}
	if *s.sk.Key != s.key {
		x.env.Fail(prop, "derivekey:rederived-key-differs:after="+after, "DeriveKey with the creating passphrase succeeded but produced a different key")
		return false
	}
	return true
}

// deriveWrong: DeriveKey with a near miss must fail; the key material it
// leaves behind is another key and must not open old ciphertexts; the right
// passphrase must work afterwards.
func (x *exec) deriveWrong(j int, v int64, after string) bool {
	s := x.sks[j]
	name, pw := nearMiss(s.pw, v)
	x.env.Count("check.derive-nearmiss")
	x.env.Count("probe.near-miss-passphrase")
	if err := s.sk.DeriveKey(&pw); err == nil {
		x.env.Fail(prop, "derivekey:near-miss-accepted:variant="+name+":after="+after,
			"DeriveKey accepted a %d-byte passphrase (%s variant) that is not the %d-byte creating passphrase", len(pw), name, len(s.pw))
		return false
	}
	s.events = append(s.events, "near-miss")
	if si := x.pickSlot(v, func(_ int, t *slot) bool { return t.key == kSK0+j && x.isGenuine(t) }); si >= 0 {
		x.env.Count("check.crosskey")
		if out, err := s.sk.Decrypt(x.read(si)); err == nil {
			x.env.Fail(prop, "cross-key-accepted:blob=SecretKey:under=near-miss-derived", "the key left behind by a rejected near-miss passphrase (%s) decrypted an old ciphertext to %d bytes", name, len(out))
			return false
		}
	}
	return x.deriveRight(j, after)
}
