// Package nqsim decides C18 for the notification queue of the neutrino
// backend client (chain/neutrino.go): NeutrinoClient.notificationHandler is a
// hand-written unbounded queue between the rescan callbacks (producer) and
// the wallet (consumer), with a side channel answering BlockStamp requests
// and a mutex shared with the callbacks. The real client runs around a stub
// chain service (harness/probes/chain); neutrino.go is rewritten in
// mediated-channel mode, so every select choice, every mutex acquisition and
// every goroutine start in it is a decision of the seeded scheduler.
//
// The producer plays a rescan the way neutrino's rescan goroutine does: per
// block OnFilteredBlockConnected then OnBlockConnected, OnBlockDisconnected
// for replaced blocks. The statement's oracle: the consumer receives exactly
// the notifications the callbacks enqueued, in that order (block notifications
// are unconditional, so their expected sequence is the callback sequence;
// RescanProgress and RescanFinished at most once, RescanFinished never before
// the FilteredBlockConnected of the block that completes the rescan); with the
// consumer idle every callback returns (the producer is never blocked by a
// slow consumer); BlockStamp callers are answered; Stop terminates the worker.
package nqsim

import (
	"fmt"
	"time"

	"github.com/btcsuite/btcd/chaincfg/chainhash"
	"github.com/btcsuite/btcd/wire"
	"github.com/btcsuite/btcwallet/chain"

	"verifsim/core"
	"verifsim/simrt"
)

type sim struct{}

func init() { core.Register(sim{}) }

func (sim) Name() string        { return "nqsim" }
func (sim) Props() []string     { return []string{"C18"} }
func (sim) Level(string) string { return "exploration" }
func (sim) Rule(string) string {
	return "C18 (neutrino client): a case is (a rescan of 1-12 blocks with replaced blocks, consumer receive bursts incl. none at all, 0-2 tasks polling BlockStamp, stop placement, scheduling strategy and seed); " +
		"the client's notification handler, the rescan callbacks, the consumer, the pollers and a controller are tasks; every channel operation, select choice and mutex acquisition in chain/neutrino.go is decided by the seeded scheduler."
}
func (sim) Components() map[string][]string {
	return map[string][]string{
		"real":    {"chain.NeutrinoClient: Start, notificationHandler, onFilteredBlockConnected, onBlockConnected, onBlockDisconnected, dispatchRescanFinished, BlockStamp, Notifications, Stop, WaitForShutdown (chain/neutrino.go, instrumented from the working tree)"},
		"stub":    {"neutrino chain service (BestBlock / IsCurrent answered by the harness)", "neutrino's rescan goroutine (the harness calls the callbacks it would call)", "Go channel runtime for the client's channels (simrt mediated select)"},
		"not_run": {"neutrino.ChainService, neutrino.Rescan, the rest of NeutrinoClient's RPC-like methods"},
	}
}
func (sim) Assumptions() []string {
	return []string{"the harness calls the rescan callbacks in the order neutrino's rescan does (filtered-connected, then connected, per block; disconnected for replaced blocks)"}
}
func (sim) Explain(prop string, st map[string]int64) string {
	s := "probes: "
	for _, k := range []string{"probe.nq-backlog", "probe.nq-consumer-idle-rescan", "probe.nq-blockstamp-during-rescan", "probe.nq-stop-mid-rescan", "probe.nq-rescan-finished-seen", "probe.nq-disconnects"} {
		s += fmt.Sprintf("%s=%d ", k, st[k])
		if st[k] == 0 {
			s += "(COVERAGE HOLE) "
		}
	}
	return s
}

// Ops: T = 0 producer, 1 consumer, 2/3 pollers, 4 controller
//
//	{K:"conn", T:0, A:[height, salt]}  callbacks for a connected block
//	{K:"disc", T:0, A:[height, salt]}  callback for a disconnected block
//	{K:"recv", T:1, A:[n]}
//	{K:"stamp", T:2|3, A:[n]}
//	{K:"yield", T:x, A:[n]}
//	{K:"stop", T:4}
//	{K:"barrier"}
func (sim) Generate(prop, tier string, seed uint64) *core.Plan {
	r := core.NewRand(seed)
	p := &core.Plan{Cfg: map[string]int64{}}
	p.Sched = []string{"random", "random", "pct", "rtb0", "rtb2", "rtb4"}[r.Intn(6)]
	p.SchedSeed = r.Uint64()
	nBlocks := r.Range(1, 8)
	if tier == "thorough" {
		nBlocks = r.Range(1, 12)
	}
	pollers := r.Intn(3)
	p.Cfg["pollers"] = int64(pollers)
	if r.Chance(1, 2) {
		p.Cfg["yield_after_unlock"] = 1 // releases of clientMtx are scheduling points too
	}
	h := int64(100)
	expected := 1 // ClientConnected
	recvd := 0
	stopped := false
	// the consumer takes ClientConnected first (the wallet waits for it before
	// it asks for a rescan)
	p.Ops = append(p.Ops, core.Op{K: "recv", T: 1, A: []int64{1}}, core.Op{K: "barrier"})
	recvd = 1
	for b := 0; b < nBlocks && !stopped; b++ {
		h++
		salt := int64(r.Intn(1 << 20))
		p.Ops = append(p.Ops, core.Op{K: "conn", T: 0, A: []int64{h, salt}})
		expected += 2
		if b == 0 {
			expected++ // RescanProgress
		}
		if r.Chance(1, 5) && b < nBlocks-1 {
			// the block is replaced
			p.Ops = append(p.Ops, core.Op{K: "disc", T: 0, A: []int64{h, salt}})
			salt2 := salt + 1
			p.Ops = append(p.Ops, core.Op{K: "conn", T: 0, A: []int64{h, salt2}})
			expected += 3
		}
		for k := 0; k < pollers; k++ {
			if r.Chance(1, 2) {
				p.Ops = append(p.Ops, core.Op{K: "stamp", T: 2 + k, A: []int64{int64(r.Range(1, 4))}})
			}
		}
		if r.Chance(1, 2) {
			if r.Chance(1, 3) {
				p.Ops = append(p.Ops, core.Op{K: "yield", T: 1, A: []int64{int64(r.Range(1, 30))}})
			}
			if avail := expected - recvd; avail > 0 {
				n := r.Range(1, avail)
				p.Ops = append(p.Ops, core.Op{K: "recv", T: 1, A: []int64{int64(n)}})
				recvd += n
			}
		}
		if r.Chance(1, 3) {
			p.Ops = append(p.Ops, core.Op{K: "barrier"})
		}
		if r.Chance(1, 14) {
			if r.Chance(1, 2) {
				p.Ops = append(p.Ops, core.Op{K: "yield", T: 4, A: []int64{int64(r.Range(0, 40))}})
			}
			p.Ops = append(p.Ops, core.Op{K: "stop", T: 4}, core.Op{K: "barrier"})
			stopped = true
		}
	}
	if !stopped {
		p.Ops = append(p.Ops, core.Op{K: "barrier"})
		if r.Chance(3, 4) {
			// RescanFinished is the last one
			p.Ops = append(p.Ops, core.Op{K: "recv", T: 1, A: []int64{int64(expected + 1 - recvd)}}, core.Op{K: "barrier"})
		}
		p.Ops = append(p.Ops, core.Op{K: "stop", T: 4}, core.Op{K: "barrier"})
	}
	return p
}

func headerFor(height, salt int64) *wire.BlockHeader {
	var prev chainhash.Hash
	copy(prev[:], fmt.Sprintf("prev-%d-%d", height, salt))
	return &wire.BlockHeader{Version: 1, PrevBlock: prev, Timestamp: time.Unix(1700000000+height*600, 0), Bits: 0x1d00ffff, Nonce: uint32(salt)}
}

type want struct {
	kind   string // fconn, conn, disc
	height int32
	hash   chainhash.Hash
}

func (sim) Execute(env *core.Env, p *core.Plan) {
	strategy := p.Sched
	if strategy == "" {
		strategy = "random"
	}
	pollers := int(p.C("pollers", 0))
	if pollers < 0 {
		pollers = 0
	}
	if pollers > 2 {
		pollers = 2
	}
	// the tip the chain service reports: the last connected block of the plan
	var tip *wire.BlockHeader
	var tipHeight int32
	for _, op := range p.Ops {
		if op.K == "conn" {
			tip = headerFor(op.Arg(0), op.Arg(1))
			tipHeight = int32(op.Arg(0))
		}
	}
	if tip == nil {
		return
	}
	var (
		c          *chain.NeutrinoClient
		violated   bool
		stopped    bool
		expected   []want // block notifications the callbacks enqueued, in order
		gotBlocks  int    // how many of them the consumer has received
		nProgress  int
		nFinished  int
		received   int
		recvWanted int
		producerAt int // callbacks completed
		producerN  int // callbacks issued
	)
	fail := func(sig, format string, a ...any) {
		if !violated {
			violated = true
			env.Fail("C18", sig, format, a...)
		}
	}
	const nTasks = 5
	type tq struct{ ch chan []core.Op }
	tasks := make([]*tq, nTasks)
	for i := range tasks {
		tasks[i] = &tq{ch: make(chan []core.Op, 64)}
	}
	pending := make([]int, nTasks)

	onNote := func(v interface{}) {
		received++
		var k want
		switch n := v.(type) {
		case chain.ClientConnected:
			if received != 1 {
				fail("nq:client-connected-late", "ClientConnected delivered as notification #%d", received)
			}
			return
		case chain.FilteredBlockConnected:
			k = want{"fconn", n.Block.Height, n.Block.Hash}
		case chain.BlockConnected:
			k = want{"conn", n.Height, n.Hash}
		case chain.BlockDisconnected:
			k = want{"disc", n.Height, n.Hash}
		case *chain.RescanProgress:
			nProgress++
			if nProgress > 1 {
				fail("nq:duplicate", "RescanProgress delivered twice")
			}
			return
		case *chain.RescanFinished:
			nFinished++
			if nFinished > 1 {
				fail("nq:duplicate", "RescanFinished delivered twice")
				return
			}
			env.Count("probe.nq-rescan-finished-seen")
			if n.Hash == nil || *n.Hash != tip.BlockHash() || n.Height != tipHeight {
				fail("nq:rescan-finished-wrong-block", "RescanFinished names block %v height %d, the chain service's tip is %s height %d", n.Hash, n.Height, tip.BlockHash(), tipHeight)
				return
			}
			// dispatchRescanFinished runs at the end of both callbacks, so the
			// notification is enqueued right after the FilteredBlockConnected
			// (or the BlockConnected) of the tip block: it must not overtake
			// that one.
			seenTip := false
			for _, w := range expected[:gotBlocks] {
				if w.kind == "fconn" && w.hash == tip.BlockHash() {
					seenTip = true
				}
			}
			if !seenTip {
				fail("nq:reordered-or-lost", "RescanFinished delivered after %d of the %d block notifications enqueued so far, before the tip block's FilteredBlockConnected", gotBlocks, len(expected))
			}
			return
		default:
			fail("nq:foreign-item", "received %T, which no callback enqueued", v)
			return
		}
		if gotBlocks >= len(expected) {
			fail("nq:foreign-item", "received %s %d %s, but only %d block notifications were enqueued", k.kind, k.height, k.hash, len(expected))
			return
		}
		w := expected[gotBlocks]
		if w != k {
			// duplicate of an earlier one, or out of order
			for i := 0; i < gotBlocks; i++ {
				if expected[i] == k {
					fail("nq:duplicate", "notification #%d (%s %d) delivered again at position %d", i, k.kind, k.height, gotBlocks)
					return
				}
			}
			fail("nq:reordered-or-lost", "position %d: received %s %d %s, enqueued at that position was %s %d %s", gotBlocks, k.kind, k.height, k.hash, w.kind, w.height, w.hash)
			return
		}
		gotBlocks++
	}

	runTask := func(ti int) {
		for {
			ops, ok := simrt.Recv2("harness:taskq", (<-chan []core.Op)(tasks[ti].ch))
			if !ok {
				return
			}
			for _, op := range ops {
				if violated {
					pending[ti]--
					continue
				}
				switch op.K {
				case "yield":
					n := int(op.Arg(0))
					if n > 200 {
						n = 200
					}
					for i := 0; i < n; i++ {
						simrt.Yield("harness:yield")
					}
				case "conn":
					hdr := headerFor(op.Arg(0), op.Arg(1))
					hash := hdr.BlockHash()
					ht := int32(op.Arg(0))
					if !stopped {
						producerN++
						expected = append(expected, want{"fconn", ht, hash})
						c.VerifFilteredBlockConnected(ht, hdr, nil)
						expected = append(expected, want{"conn", ht, hash})
						c.VerifBlockConnected(&hash, ht, hdr.Timestamp)
						producerAt++
						env.Logf("conn %d done", ht)
					}
				case "disc":
					hdr := headerFor(op.Arg(0), op.Arg(1))
					hash := hdr.BlockHash()
					if !stopped {
						producerN++
						env.Count("probe.nq-disconnects")
						expected = append(expected, want{"disc", int32(op.Arg(0)), hash})
						c.VerifBlockDisconnected(&hash, int32(op.Arg(0)), hdr.Timestamp)
						producerAt++
					}
				case "recv":
					n := int(op.Arg(0))
					if n > 200 {
						n = 200
					}
					for i := 0; i < n && !violated; i++ {
						v, ok := simrt.Recv2("harness:recv", c.Notifications())
						if !ok {
							if !stopped {
								fail("nq:chanout-closed", "the notification channel was closed although the client was not stopped")
							}
							break
						}
						onNote(v)
					}
				case "stamp":
					n := int(op.Arg(0))
					if n > 20 {
						n = 20
					}
					for i := 0; i < n && !violated; i++ {
						bs, err := c.BlockStamp()
						if err != nil {
							if !stopped {
								fail("nq:blockstamp-failed", "BlockStamp failed although the client was not stopped: %v", err)
							}
							break
						}
						if producerN > producerAt {
							env.Count("probe.nq-blockstamp-during-rescan")
						}
						ok := bs.Height == 100 // the stub's initial best block
						for _, w := range expected {
							if w.kind == "conn" && w.height == bs.Height && w.hash == bs.Hash {
								ok = true
							}
						}
						if !ok {
							fail("nq:blockstamp-unknown-block", "BlockStamp answered %d %s, which is neither the initial best block nor a connected block", bs.Height, bs.Hash)
						}
					}
				case "stop":
					if !stopped {
						stopped = true
						env.Count("op.stop")
						if producerN > producerAt {
							env.Count("probe.nq-stop-mid-rescan")
						}
						c.Stop()
					}
				}
				pending[ti]--
			}
		}
	}

	main := func() {
		cs := &chain.VerifChainService{
			Best: func() (chainhash.Hash, int32) {
				if producerN == 0 {
					var z chainhash.Hash
					copy(z[:], "initial-best")
					return z, 100
				}
				return tip.BlockHash(), tipHeight
			},
			Current: func() bool { return true },
		}
		c = chain.VerifNewNeutrinoClient(cs)
		if err := c.Start(); err != nil {
			env.Infra("NeutrinoClient.Start: %v", err)
			return
		}
		c.VerifBeginRescan(time.Unix(0, 0))
		for i := 0; i < nTasks; i++ {
			i := i
			simrt.GoNamed(fmt.Sprintf("t%d", i), func() { runTask(i) })
		}
		phaseOps := make([][]core.Op, nTasks)
		flush := func() {
			for ti := 0; ti < nTasks; ti++ {
				if len(phaseOps[ti]) > 0 {
					pending[ti] += len(phaseOps[ti])
					simrt.Send("harness:taskq", (chan<- []core.Op)(tasks[ti].ch), phaseOps[ti])
					phaseOps[ti] = nil
				}
			}
		}
		planned := 1 // notifications that will have been enqueued once the producer is through (lower bound)
		phaseHadRecv, phaseHadProd, stopPlanned := false, false, false
		for i, op := range p.Ops {
			env.Step(i)
			if violated {
				break
			}
			switch op.K {
			case "conn", "disc":
				if !stopPlanned {
					phaseOps[0] = append(phaseOps[0], op)
					phaseHadProd = true
					if op.K == "conn" {
						planned += 2
					} else {
						planned++
					}
					env.Count("op." + op.K)
					env.Eff()
				}
			case "recv":
				n := int(op.Arg(0))
				// never ask for more than will be enqueued (+1 progress, +1
				// finished at the very end are accounted for by the generator)
				if lim := planned + 2 - recvWanted; n > lim {
					n = lim
				}
				if n > 0 && !stopPlanned {
					o := op
					o.A = []int64{int64(n)}
					phaseOps[1] = append(phaseOps[1], o)
					recvWanted += n
					phaseHadRecv = true
					env.Count("op.recv")
					env.Eff()
				}
			case "stamp":
				if t := op.T; t >= 2 && t < 2+pollers && !stopPlanned {
					phaseOps[t] = append(phaseOps[t], op)
					env.Count("op.stamp")
				}
			case "yield":
				if op.T >= 0 && op.T < nTasks {
					phaseOps[op.T] = append(phaseOps[op.T], op)
				}
			case "stop":
				phaseOps[4] = append(phaseOps[4], op)
				stopPlanned = true
				env.Eff()
			case "barrier":
				flush()
				simrt.WaitIdle("harness:barrier")
				env.Count("op.barrier")
				if phaseHadProd && !phaseHadRecv {
					env.Count("probe.nq-consumer-idle-rescan")
				}
				if len(expected)-gotBlocks > 2 {
					env.Count("probe.nq-backlog")
				}
				if !stopped && !violated {
					if pending[0] > 0 {
						fail("nq:producer-blocked", "the rescan callbacks have not returned at quiescence (blocked at %q) with the consumer idle; %d block notifications enqueued, %d received", simrt.Blocked("t0"), len(expected), gotBlocks)
					}
					for t := 2; t < 2+pollers && !violated; t++ {
						if pending[t] > 0 {
							fail("nq:blockstamp-blocked", "a BlockStamp caller has not been answered at quiescence (blocked at %q)", simrt.Blocked(fmt.Sprintf("t%d", t)))
						}
					}
					if pending[1] > 0 && !violated {
						// the consumer waits although everything it asked for was enqueued?
						enq := 1 + len(expected) + nProgress + nFinished
						if recvWanted <= enq {
							fail("nq:item-lost", "the consumer still waits at quiescence: asked for %d notifications, received %d, at least %d were enqueued", recvWanted, received, enq)
						}
					}
				}
				env.State("b:%d:%d", len(expected), received)
				phaseHadRecv, phaseHadProd = false, false
			}
		}
		flush()
		simrt.WaitIdle("harness:final")
		if stopped && !violated {
			for _, id := range simrt.Alive() {
				if id != "m" && len(id) > 1 && id[0] == 'm' {
					fail("nq:worker-alive-after-stop", "a goroutine of the client (%s) is still alive at quiescence after Stop (blocked at %q)", id, simrt.Blocked(id))
				}
			}
			if !violated {
				for t := 0; t < nTasks; t++ {
					if pending[t] > 0 && t != 1 {
						fail("nq:blocked-after-stop", "task %d is still blocked after Stop (at %q)", t, simrt.Blocked(fmt.Sprintf("t%d", t)))
					}
				}
			}
			if !violated {
				c.WaitForShutdown()
			}
		}
		if !violated && !stopped {
			env.Infra("plan without stop")
		}
		for ti := range tasks {
			simrt.Close("harness:close", tasks[ti].ch)
		}
	}

	rep := simrt.Run(simrt.Config{Seed: p.SchedSeed, Strategy: strategy, MediateChans: true,
		StuckAfter: 2 * time.Hour, MaxSteps: 400000, ExpectedSteps: 60 + 20*len(p.Ops), Trace: env.Verbose,
		YieldAfterUnlock: p.C("yield_after_unlock", 0) == 1}, main)
	env.Add("sched.steps", int64(rep.Steps))
	env.Add("sched.preemptions", int64(rep.Preemptions))
	for _, k := range core.SortedKeys(rep.SiteHits) {
		env.Add("site."+k, int64(rep.SiteHits[k]))
	}
	env.State("sched:%x recv:%d", rep.SchedHash, received)
	env.Logf("steps=%d sched=%x enqueued=%d received=%d finished=%d", rep.Steps, rep.SchedHash, len(expected), received, nFinished)
	if env.Verbose {
		for _, d := range rep.Decisions {
			env.Logf("sched %s", d)
		}
	}
	if rep.StepLimit && !violated {
		fail("nq:step-limit", "the run did not quiesce within %d scheduling steps", rep.Steps)
	}
	if rep.Stuck && !violated {
		fail("nq:stuck", "no runnable task for the liveness bound: %s", rep.StuckInfo)
	}
}
