package ledgersim

import (
	"fmt"
	"sort"
	"strings"
)

// Probes that must be reached (P: lines of DESIGN.md §6), per property.
var requiredProbes = map[string][]string{
	"C01": {"credit-and-spender-rolled-back-together", "spender-confirmed-while-input-leased",
		"coinbase-credit-spent-then-both-rolled-back", "immature-by-one",
		"unmined-credit-spent-by-unmined-child", "leased-and-unmined-spent",
		"rollback-below-lowest", "rollback-above-highest", "reannounce-unmined-while-mined",
		"redeliver-mined-same-block"},
	"C02": {"reconnect-in-different-block", "reconnect-without-old-block-mate", "rollback-inside-empty-heights",
		"conflict-removal-2-levels", "child-spends-two-outputs-of-removed-parent",
		"coinbase-dependants-removed-on-rollback", "unrelated-unmined-stays", "reconnect-same-block",
		"direct-construction-compared"},
	"C10": {"fault-in-rollback", "fault-in-removeconflict-recursion", "fault-in-addcredit", "fault-in-lease-op",
		"commit-failure", "multi-transaction-op-enumerated"},
	"C12": {"query-exactly-at-expiry", "lease-on-unmined-then-confirms", "leased-and-unmined-spent",
		"sweep-mixed-expired-live", "lease-extended-by-same-id", "lease-refused-other-id",
		"release-refused-other-id", "lease-unknown-output", "lease-cleared-by-confirmed-spend",
		"lease-taken-over-after-expiry", "subsecond-window-skipped"},
	"C13": {"range-reverse", "range-early-stop", "unmined-debits-recomputed"},
	"C14": {"dup-edge-graph", "diamond-graph", "chain-depth-3-graph", "no-edge-graph",
		"dup-edge-graph:dsort", "diamond-graph:dsort", "chain-depth-3-graph:dsort", "conflicting-siblings-graph:dsort", "no-edge-graph:dsort"},
}

func (sim) Level(prop string) string {
	if prop == "C10" {
		return "fault_enumeration"
	}
	return "exploration"
}

func (sim) Rule(prop string) string {
	base := "ledgersim: a generated transaction universe (6-40 real wire.MsgTx over 2-6 wallet scripts) is played to a real wtxmgr.Store on a real bdb file as the event stream a validating node would emit (mempool acceptance, blocks, disconnections to a height, reconnection, RBF eviction, abandon, redelivery, leases, clock steps, reopen); the reference ledger (a set of known transactions folded from scratch for every query) is compared "
	switch prop {
	case "C01":
		return base + "after every operation: Balance on a grid of 8 minconf x 5 sync heights, UnspentOutputs field by field, OutputsToWatch."
	case "C02":
		return base + "after every operation: UnminedTxHashes and TxDetails of every universe transaction (known set, status, credits); at the end a second real store built from the final facts only must answer all queries identically."
	case "C10":
		return "ledgersim fault enumeration: the host history is the C01 workload; for every database transaction of every selected mutating store operation (quick: each with probability 1/4, chosen in the plan; thorough: all) the k-th mutating database call is made to fail for k = 1..n (n = last k that fired, cap 400), then the commit, then the operation is retried; every attempt starts from the same pre-state. Checked per k: error reported or full effect (dump equality with the fault-free attempt), database dump unchanged after the rollback, Balance/UnspentOutputs/UnminedTxHashes/ListLockedOutputs/TxDetails unchanged through the same Store object; the retry commits exactly what the fault-free attempt produced and the C01/C13 oracles hold afterwards. counters enum.* give, per operation kind, how many instances were enumerated and the distribution of n."
	case "C12":
		return base + "after every operation: results and error values of LockOutput/UnlockOutput, Balance, UnspentOutputs, OutputsToWatch, ListLockedOutputs against the lease model on the simulated clock."
	case "C13":
		return base + "after every operation: TxDetails, UniqueTxDetails (own / nil / wrong block), PreviousPkScripts for every universe transaction and RangeTransactions over fixed and random ranges, forwards, backwards and with early stop."
	case "C14":
		return base + fmt.Sprintf("after every operation: Store.UnminedTxs called %d times (a different seeded map iteration order each time) must be a parents-first permutation of the unconfirmed set; plus DependencySort called directly on generated graph shapes.", R)
	}
	return base
}

func (sim) Components() map[string][]string {
	return map[string][]string{
		"real": {"wtxmgr.Store (all of tx.go, unconfirmed.go, query.go, kahnsort.go, db.go)", "walletdb + bdb + bbolt on tmpfs",
			"btcd wire / chainhash / blockchain.IsCoinBaseTx", "lnd clock.DefaultClock on the synctest fake clock"},
		"stub":    {"the validating node and its notification client (the simulation plays wallet.addRelevantTx / disconnectBlock itself)", "OS clock (synctest)"},
		"not_run": {"wallet.Wallet, waddrmgr, chain backends, rpc server (the wallet-level path of the same properties is walletsim's job)"},
	}
}

func (sim) Assumptions() []string {
	return []string{
		"histories are chain-consistent: a transaction is announced only when its parents are known, never conflicts with a confirmed transaction, two conflicting transactions are never both in the mempool (a replacement evicts first or within the same database transaction), coinbase spends respect maturity, block contents are topologically ordered with the coinbase first",
		"the credited output set of a transaction is fixed for the run (no address learned later)",
		"lease durations and clock steps are whole seconds except in the marked sub-second runs, where nothing lease-dependent is asserted inside the < 1 s window between the stored whole second and the returned expiry",
		"leasing an output that has a confirmed spender: the statement is silent, both answers (nil, ErrUnknownOutput) are accepted",
		"a lease entry whose output disappeared may or may not be listed by ListLockedOutputs",
		"C02 (ii): leases are not facts; the clock is advanced past the last expiry before the two stores are compared",
	}
}

func (sim) Explain(prop string, stats map[string]int64) string {
	var zero, seen []string
	for _, p := range requiredProbes[prop] {
		if stats["probe."+p] == 0 {
			zero = append(zero, p)
		} else {
			seen = append(seen, fmt.Sprintf("%s=%d", p, stats["probe."+p]))
		}
	}
	sort.Strings(seen)
	var ops, skipped int64
	for k, v := range stats {
		if strings.HasPrefix(k, "op.") {
			if k == "op.skipped" {
				skipped += v
			} else {
				ops += v
			}
		}
	}
	s := fmt.Sprintf("%d effective operations (%d skipped because their precondition did not hold after minimisation/generation). Reached: %s.", ops, skipped, strings.Join(seen, ", "))
	if len(zero) > 0 {
		s += " COVERAGE HOLE - probes that stayed at zero: " + strings.Join(zero, ", ") + "."
	} else {
		s += " Every listed probe was reached."
	}
	return s
}
