package ledgersim

import (
	"fmt"

	"github.com/btcsuite/btcd/chaincfg/chainhash"
	"github.com/btcsuite/btcd/wire"
	"github.com/btcsuite/btcwallet/wtxmgr"

	"verifsim/core"
	"verifsim/models/ledger"
)

// The dedicated C14 generator: transaction sets shaped the way histories
// rarely produce at size, fed to wtxmgr.DependencySort directly. The set is a
// pure function of the operation's arguments (shape, size, variant).

var dsortShapes = []string{"diamond", "dup-edge", "chain", "roots", "siblings", "outside-parents", "random-dag"}

type gbuild struct {
	r    *core.Rand
	txs  []*wire.MsgTx
	salt uint32
}

// node adds a transaction spending the given outpoints, with nout outputs.
func (g *gbuild) node(nout int, ins ...wire.OutPoint) int {
	m := wire.NewMsgTx(2)
	g.salt++
	m.LockTime = g.salt
	for i := range ins {
		m.AddTxIn(wire.NewTxIn(&ins[i], nil, nil))
	}
	if nout < 1 {
		nout = 1
	}
	for i := 0; i < nout; i++ {
		m.AddTxOut(wire.NewTxOut(int64(1000+i), []byte{0x51, byte(i)}))
	}
	g.txs = append(g.txs, m)
	return len(g.txs) - 1
}

func (g *gbuild) out(i int, idx uint32) wire.OutPoint {
	return wire.OutPoint{Hash: g.txs[i].TxHash(), Index: idx}
}

func (g *gbuild) ext() wire.OutPoint {
	g.salt++
	return wire.OutPoint{Hash: derivedHash("dsort-ext", uint64(g.salt), 7), Index: uint32(g.salt % 3)}
}

func buildDsortSet(shape string, n int, variant uint64) []*wire.MsgTx {
	g := &gbuild{r: core.NewRand(core.Mix(variant, uint64(n), uint64(len(shape))))}
	if n < 2 {
		n = 2
	}
	if n > 64 {
		n = 64
	}
	switch shape {
	case "diamond":
		// A -> B, C -> D (D spends B and C); optionally stacked
		for len(g.txs)+4 <= n+3 {
			var a int
			if len(g.txs) >= 4 && g.r.Chance(1, 2) {
				a = g.node(2, g.out(len(g.txs)-1, 0)) // stacked on the previous diamond's sink
			} else {
				a = g.node(2, g.ext())
			}
			b := g.node(1, g.out(a, 0))
			c := g.node(1, g.out(a, 1))
			g.node(1, g.out(b, 0), g.out(c, 0))
		}
	case "dup-edge":
		// a child spends two or three outputs of the same parent
		p := g.node(3, g.ext())
		for len(g.txs) < n {
			k := 2 + g.r.Intn(2)
			ins := []wire.OutPoint{g.out(p, 0), g.out(p, 1)}
			if k == 3 {
				ins = append(ins, g.out(p, 2))
			}
			if g.r.Chance(1, 3) {
				ins = append(ins, g.ext())
			}
			p = g.node(3, ins...)
		}
	case "chain":
		p := g.node(1, g.ext())
		for len(g.txs) < n {
			p = g.node(1, g.out(p, 0))
		}
	case "roots":
		// many independent roots; variant decides whether there is no edge
		// at all (the shortcut) or exactly a few
		for len(g.txs) < n {
			g.node(2, g.ext())
		}
		if variant%3 != 0 {
			k := 1 + int(variant%3)
			for i := 0; i < k; i++ {
				a := g.r.Intn(len(g.txs))
				g.node(1, g.out(a, uint32(g.r.Intn(2))))
			}
		}
	case "siblings":
		// two children spend the same outpoint; each has a descendant
		for len(g.txs)+5 <= n+4 {
			p := g.node(2, g.ext())
			c1 := g.node(1, g.out(p, 0))
			c2 := g.node(1, g.out(p, 0), g.ext())
			g.node(1, g.out(c1, 0))
			g.node(1, g.out(c2, 0), g.out(p, 1))
		}
	case "outside-parents":
		// every tx also spends outputs of transactions outside the set
		for len(g.txs) < n {
			ins := []wire.OutPoint{g.ext()}
			if len(g.txs) > 0 && g.r.Chance(2, 3) {
				ins = append(ins, g.out(g.r.Intn(len(g.txs)), 0))
			}
			ins = append(ins, g.ext())
			g.node(1, ins...)
		}
	default: // random-dag
		for len(g.txs) < n {
			var ins []wire.OutPoint
			k := 1 + g.r.Intn(3)
			used := map[wire.OutPoint]bool{}
			for j := 0; j < k; j++ {
				var op wire.OutPoint
				if len(g.txs) == 0 || g.r.Chance(1, 4) {
					op = g.ext()
				} else {
					op = g.out(g.r.Intn(len(g.txs)), uint32(g.r.Intn(3)))
				}
				if !used[op] {
					used[op] = true
					ins = append(ins, op)
				}
			}
			g.node(3, ins...)
		}
	}
	return g.txs
}

func (x *oracle) opDsort(op core.Op) bool {
	if x.prop != "C14" {
		return false
	}
	shape := dsortShapes[mod(op.Arg(0), len(dsortShapes))]
	n := 2 + mod(op.Arg(1), 60)
	set := buildDsortSet(shape, n, uint64(op.Arg(2)))
	x.graphProbes(set, ":dsort")
	x.w.count("dsort." + shape)
	x.w.last = fmt.Sprintf("dsort %s n=%d", shape, len(set))
	defer x.runMapSeed()
	for i := 0; i < R; i++ {
		x.repMapSeed(i)
		in := make(map[chainhash.Hash]*wire.MsgTx, len(set))
		for _, m := range set {
			in[m.TxHash()] = m
		}
		got := wtxmgr.DependencySort(in)
		if verdict, detail := ledger.CheckTopo(set, got); verdict != ledger.TopoOK {
			x.failf("toposort:"+verdict+":query=DependencySort:shape="+shape,
				"DependencySort on a %s set of %d transactions (call %d of %d): %s", shape, len(set), i+1, R, detail)
			return true
		}
	}
	return true
}
