package ledgersim

import (
	"bytes"
	"fmt"
	"path/filepath"
	"sort"
	"strings"
	"time"

	"github.com/btcsuite/btcd/chaincfg"
	"github.com/btcsuite/btcd/chaincfg/chainhash"
	"github.com/btcsuite/btcd/wire"
	"github.com/btcsuite/btcwallet/walletdb"
	"github.com/btcsuite/btcwallet/wtxmgr"

	"verifsim/core"
	"verifsim/models/ledger"
	"verifsim/simrt"
)

// R is how many times Store.UnminedTxs / DependencySort are called per check,
// each time under a different map iteration order. The build overlay rewrites
// every `for ... range <map>` of wtxmgr to iterate in an order decided by
// simrt.SetMapSeed, so the order is a seeded, replayable choice: repetition i
// at operation s of a run uses Mix(plan seed, s, i).
const R = 8

func runSeed(planSeed uint64) uint64 { return core.Mix(planSeed, 0x3a9) | 1 }

// runMapSeed restores the run's map order seed (every query outside the C14
// repetitions sees this one).
func (x *oracle) runMapSeed() { simrt.SetMapSeed(runSeed(x.w.seed)) }

// repMapSeed selects the map order of repetition rep at the current operation.
func (x *oracle) repMapSeed(rep int) {
	simrt.SetMapSeed(core.Mix(x.w.seed, uint64(x.env.CurStep()), uint64(rep)) | 1)
}

type oracle struct {
	w     *world
	st    *realStore
	env   *core.Env
	prop  string
	after string // kind of the operation that was just applied
	last  bool   // this is the last operation of the plan
	// C10: the operation that was just applied went through the enumeration
	enumerated bool
}

// afterClass maps the kind of the last operation onto the few history shapes
// that signatures distinguish.
func (x *oracle) afterClass() string {
	switch x.after {
	case "mem", "redeliver":
		return "insert"
	case "mine", "reconnect":
		return "mine"
	case "rollback":
		return "rollback"
	case "rbf", "abandon":
		return "remove"
	case "lock", "unlock", "sweep", "clock", "listlocks":
		return "lease"
	case "reopen":
		return "reopen"
	}
	return "query"
}

func (x *oracle) failf(sig, format string, a ...any) {
	if x.prop == "C10" && !isC10Sig(sig) {
		// a post-state that differs from the model's prediction: after an
		// enumerated operation this is "the retry differs from a run without
		// the fault"; otherwise the host history itself disagrees with the
		// ledger (C01/C13 matter, or contamination by an earlier enumeration)
		class := "host-mismatch"
		if x.enumerated {
			class = "retry-differs"
		}
		q := sig
		if i := strings.IndexByte(q, ':'); i > 0 {
			q = q[:i]
		}
		format = "[" + sig + "] " + format
		sig = class + ":op=" + x.after + ":query=" + q
	}
	x.env.Fail(x.prop, core.SigSafe(sig), format, a...)
}

func isC10Sig(sig string) bool {
	for _, p := range []string{"fault-swallowed", "rollback-leak", "state-changed-after-failed", "retry-differs", "harness:", "store-error:", "host-mismatch"} {
		if strings.HasPrefix(sig, p) {
			return true
		}
	}
	return false
}

// enumProbes counts what the enumeration of the operation just applied reached.
func (x *oracle) enumProbes(en *enumerator, kind string) {
	if en.instances == 0 {
		return
	}
	w := x.w
	switch kind {
	case "rollback":
		if en.maxN > 10 {
			w.probe("fault-in-rollback")
		}
	case "lock", "unlock", "sweep":
		if en.maxN > 0 {
			w.probe("fault-in-lease-op")
		}
	}
	if w.removedDesc && en.maxN > 0 {
		w.probe("fault-in-removeconflict-recursion")
	}
	if en.addCredit && en.maxN > 0 {
		w.probe("fault-in-addcredit")
	}
	if en.instances > 1 {
		w.probe("multi-transaction-op-enumerated")
	}
}

func (x *oracle) qerr(call string, err error) bool {
	if err != nil {
		x.failf("store-error:"+call, "%s returned an error: %v", call, err)
		return true
	}
	return false
}

// check runs the oracles of the property under check after an operation.
func (x *oracle) check() {
	err := x.st.view(func(ns walletdb.ReadBucket) error {
		v := x.w.L.View()
		switch x.prop {
		case "C01":
			x.checkC01(ns, v)
		case "C02":
			x.checkC02(ns, v)
		case "C10":
			x.checkC10(ns, v)
		case "C12":
			x.checkC12(ns, v)
		case "C13":
			x.checkC13(ns, v)
		case "C14":
			x.checkC14(ns, v)
		}
		return nil
	})
	if err != nil {
		x.qerr("View", err)
	}
}

// ---------------------------------------------------------------- C01

type labeled struct {
	label string
	v     int32
}

func (x *oracle) grid(full bool) (mins, heights []labeled) {
	m := x.w.L.Maturity
	tip := x.w.tip
	if full {
		mins = []labeled{{"0", 0}, {"1", 1}, {"2", 2}, {"3", 3}, {"m-1", m - 1}, {"m", m}, {"m+1", m + 1}, {"1000", 1000}}
		heights = []labeled{{"tip", tip}, {"tip+1", tip + 1}, {"tip+m-1", tip + m - 1}, {"tip+m", tip + m}, {"tip+m+50", tip + m + 50}}
	} else {
		mins = []labeled{{"0", 0}, {"1", 1}, {"m", m}, {"1000", 1000}}
		heights = []labeled{{"tip", tip}, {"tip+m", tip + m}}
	}
	return
}

// eachBalance calls f with the store's answer for (minconf, height) pairs of
// the grid; it stops when f returns false. With all == true every distinct
// pair is queried. Otherwise (the store's Balance is by far the most expensive
// query of a run) the three basic pairs are queried plus a quarter of the
// grid that rotates with the operation number, so that every pair is queried
// at every fourth operation; the callers ask for the whole grid after every
// disconnection and at the last operation of a run.
func (x *oracle) eachBalance(ns walletdb.ReadBucket, s *wtxmgr.Store, full, all bool, f func(mc, h labeled, got int64) bool) {
	mins, heights := x.grid(full)
	seen := map[[2]int32]bool{}
	k := 0
	for _, h := range heights {
		for _, mc := range mins {
			if mc.v < 0 || seen[[2]int32{mc.v, h.v}] {
				continue
			}
			seen[[2]int32{mc.v, h.v}] = true
			k++
			basic := h.label == "tip" && (mc.label == "0" || mc.label == "1" || mc.label == "m")
			if !all && !basic && (k+x.env.CurStep())%4 != 0 {
				continue
			}
			got, err := s.Balance(ns, mc.v, h.v)
			if x.qerr("Balance", err) {
				return
			}
			if !f(mc, h, int64(got)) {
				return
			}
		}
	}
}

func (x *oracle) checkC01(ns walletdb.ReadBucket, v *ledger.View) {
	w := x.w
	now := w.now
	x.c01Probes(v)
	report := func(mc, h labeled, got int64) bool {
		want := v.Balance(mc.v, h.v, now)
		if got != want {
			x.failf(fmt.Sprintf("balance:minconf=%s:height=%s:after=%s", mc.label, h.label, x.afterClass()),
				"Balance(minconf=%d, syncHeight=%d) = %d, ledger says %d (tip=%d, maturity=%d, after %s)\n%s",
				mc.v, h.v, got, want, w.tip, w.L.Maturity, w.last, x.describe(v))
			return false
		}
		return true
	}
	mismatch := false
	x.eachBalance(ns, x.st.s, true, x.after == "rollback" || x.last, func(mc, h labeled, got int64) bool {
		mismatch = got != v.Balance(mc.v, h.v, now)
		return !mismatch
	})
	if mismatch {
		// report the first mismatching pair in the canonical grid order, so
		// that the signature does not depend on which part of the grid was
		// sampled at this operation
		x.eachBalance(ns, x.st.s, true, true, report)
	}
	if x.env.Failed() {
		return
	}
	x.checkUnspent(ns, v, "unspent")
	if x.env.Failed() {
		return
	}
	x.checkWatch(ns, v, "watch")
}

func (x *oracle) c01Probes(v *ledger.View) {
	w := x.w
	m := w.L.Maturity
	_, heights := x.grid(true)
	imm, uu, lu := false, false, false
	for _, h := range w.L.SortedHashes() {
		t := w.L.Txs[h]
		for _, ci := range t.CreditIndexes() {
			op := wire.OutPoint{Hash: h, Index: ci}
			if t.Block == nil && v.SpentByUnmined(op) {
				uu = true
			}
			if t.Block != nil && w.L.Leased(op, w.now) && v.SpentByUnmined(op) {
				lu = true
			}
			if ledger.IsCoinbase(t.Msg) && t.Block != nil && !v.Spent(op) && m >= 2 {
				for _, sh := range heights {
					if sh.v-t.Block.Height+1 == m-1 {
						imm = true
					}
				}
			}
		}
	}
	if imm {
		w.probe("immature-by-one")
	}
	if uu {
		w.probe("unmined-credit-spent-by-unmined-child")
	}
	if lu {
		w.probe("leased-and-unmined-spent")
	}
}

func sameBlock(c *wtxmgr.Credit, b *ledger.Block) bool {
	if b == nil {
		return c.Height == -1 && c.Block.Hash == (chainhash.Hash{}) && c.Time.IsZero()
	}
	return c.Height == b.Height && c.Block.Hash == b.Hash && c.Time.Equal(b.Time)
}

// checkUnspent: UnspentOutputs == the ledger's spendable set, field by field.
func (x *oracle) checkUnspent(ns walletdb.ReadBucket, v *ledger.View, class string) {
	got, err := x.st.s.UnspentOutputs(ns)
	if x.qerr("UnspentOutputs", err) {
		return
	}
	byOp := map[wire.OutPoint]*wtxmgr.Credit{}
	for i := range got {
		if byOp[got[i].OutPoint] != nil {
			x.failf(class+":duplicate:after="+x.afterClass(), "UnspentOutputs lists %v twice", got[i].OutPoint)
			return
		}
		byOp[got[i].OutPoint] = &got[i]
	}
	want := v.Unspent(x.w.now)
	wantSet := map[wire.OutPoint]bool{}
	for _, u := range want {
		wantSet[u.OutPoint] = true
		c := byOp[u.OutPoint]
		if c == nil {
			sig := class + ":missing:after=" + x.afterClass()
			if x.prop == "C12" && x.w.everLeased[u.OutPoint] {
				sig = "lease:unavailable-after-release-or-expiry"
			}
			x.failf(sig, "UnspentOutputs lacks %v (amount %d, block %v) which the ledger says is credited, unspent and unleased (after %s)\n%s",
				u.OutPoint, u.Amount, blockStr(u.Block), x.w.last, x.describe(v))
			return
		}
		field := ""
		switch {
		case int64(c.Amount) != u.Amount:
			field = "amount"
		case !sameBlock(c, u.Block):
			field = "block"
		case c.FromCoinBase != u.Coinbase:
			field = "coinbase"
		case !bytes.Equal(c.PkScript, u.PkScript):
			field = "pkscript"
		}
		if field != "" {
			x.failf(class+":field="+field, "UnspentOutputs entry %v: amount=%d block=(%d %v %v) coinbase=%v; ledger: amount=%d block=%s coinbase=%v (after %s)",
				u.OutPoint, c.Amount, c.Height, c.Block.Hash, c.Time.UTC(), c.FromCoinBase, u.Amount, blockStr(u.Block), u.Coinbase, x.w.last)
			return
		}
	}
	for i := range got {
		if !wantSet[got[i].OutPoint] {
			op := got[i].OutPoint
			sig := class + ":extra:after=" + x.afterClass()
			if x.prop == "C12" && x.w.L.Leased(op, x.w.now) {
				sig = "lease:available-before-expiry:query=UnspentOutputs"
			}
			x.failf(sig, "UnspentOutputs lists %v (amount %d) which the ledger says is not spendable: known=%v spent=%v leased=%v (after %s)\n%s",
				op, got[i].Amount, v.Known(op.Hash), v.Spent(op), x.w.L.Leased(op, x.w.now), x.w.last, x.describe(v))
			return
		}
	}
}

// checkWatch: OutputsToWatch contains every credited output without a
// confirmed spender (leased and unconfirmed ones included) and nothing that
// is not a credited output of a known transaction; only OutPoint and PkScript
// are documented to be set.
func (x *oracle) checkWatch(ns walletdb.ReadBucket, v *ledger.View, class string) {
	got, err := x.st.s.OutputsToWatch(ns)
	if x.qerr("OutputsToWatch", err) {
		return
	}
	byOp := map[wire.OutPoint]*wtxmgr.Credit{}
	for i := range got {
		byOp[got[i].OutPoint] = &got[i]
		t, ok := v.Credit(got[i].OutPoint)
		if !ok {
			x.failf(class+":extra", "OutputsToWatch lists %v which is not a credited output of a known transaction (after %s)", got[i].OutPoint, x.w.last)
			return
		}
		if !bytes.Equal(got[i].PkScript, t.Msg.TxOut[got[i].Index].PkScript) {
			x.failf(class+":field=pkscript", "OutputsToWatch entry %v carries a wrong script", got[i].OutPoint)
			return
		}
	}
	for _, u := range v.WatchLower() {
		if byOp[u.OutPoint] == nil {
			sig := class + ":missing:after=" + x.afterClass()
			if x.prop == "C12" && x.w.L.Leased(u.OutPoint, x.w.now) {
				sig = "lease:watch-missing-leased"
			}
			x.failf(sig, "OutputsToWatch lacks %v: credited, no confirmed spender (leased=%v, unmined=%v) (after %s)",
				u.OutPoint, x.w.L.Leased(u.OutPoint, x.w.now), u.Block == nil, x.w.last)
			return
		}
	}
}

func blockStr(b *ledger.Block) string {
	if b == nil {
		return "unmined"
	}
	return fmt.Sprintf("(%d %s)", b.Height, b.Hash.String()[:10])
}

// describe renders the ledger for violation messages.
func (x *oracle) describe(v *ledger.View) string {
	var sb strings.Builder
	fmt.Fprintf(&sb, "ledger: tip=%d now=%v\n", x.w.tip, x.w.now.UTC().Format("15:04:05.000"))
	for i, t := range x.w.u.txs {
		lt := x.w.L.Txs[t.hash]
		if lt == nil {
			continue
		}
		fmt.Fprintf(&sb, "  tx%d %s %s %s in=[", i, t.kind, t.hash.String()[:10], blockStr(lt.Block))
		for _, in := range t.msg.TxIn {
			if pi, ok := x.w.u.byHash[in.PreviousOutPoint.Hash]; ok {
				fmt.Fprintf(&sb, "tx%d:%d ", pi, in.PreviousOutPoint.Index)
			} else {
				sb.WriteString("ext ")
			}
		}
		sb.WriteString("] credits=[")
		for _, ci := range t.creditIx {
			op := wire.OutPoint{Hash: t.hash, Index: ci}
			fl := ""
			if v.Spent(op) {
				fl += "S"
			}
			if x.w.L.Leased(op, x.w.now) {
				fl += "L"
			}
			fmt.Fprintf(&sb, "%d:%d%s ", ci, t.msg.TxOut[ci].Value, fl)
		}
		sb.WriteString("]\n")
	}
	return sb.String()
}

// ---------------------------------------------------------------- C02

func (x *oracle) checkC02(ns walletdb.ReadBucket, v *ledger.View) {
	w := x.w
	// Dedicated signature for one history shape so that it cannot be confused
	// with (or mask) any other wrong known-set: a transaction that spends a
	// NON-wallet output of a coinbase whose block was disconnected.
	for _, h := range w.viaNonWallet {
		if v.Known(h) {
			continue
		}
		if d, err := x.st.s.TxDetails(ns, &h); err == nil && d != nil {
			x.failf("rollback:coinbase-dependant-via-non-wallet-output-kept",
				"tx%d %v spends a non-wallet output of a coinbase whose block was disconnected; C02: \"coinbase transactions of disconnected blocks and every transaction depending on them disappear\", but the store still reports it (height %d) (after %s)\n%s",
				w.u.byHash[h], h, d.Block.Height, w.last, x.describe(v))
			return
		}
	}
	hs, err := x.st.s.UnminedTxHashes(ns)
	if x.qerr("UnminedTxHashes", err) {
		return
	}
	got := map[chainhash.Hash]int{}
	for _, h := range hs {
		got[*h]++
	}
	want := hashSet(w.L.UnminedHashes())
	for _, h := range w.L.UnminedHashes() {
		if got[h] == 0 {
			x.failf("unmined-set:missing:after="+x.afterClass(), "tx%d %v should be unconfirmed (ledger) but UnminedTxHashes does not list it (after %s)\n%s",
				w.u.byHash[h], h, w.last, x.describe(v))
			return
		}
	}
	for _, h := range hs {
		if !want[*h] || got[*h] > 1 {
			x.failf("unmined-set:extra:after="+x.afterClass(), "UnminedTxHashes lists tx%d %v (x%d) which the ledger says is %s (after %s)\n%s",
				w.u.byHash[*h], *h, got[*h], x.status(*h), w.last, x.describe(v))
			return
		}
	}
	for _, t := range w.u.txs {
		d, err := x.st.s.TxDetails(ns, &t.hash)
		if x.qerr("TxDetails", err) {
			return
		}
		wd := v.Details(t.hash)
		switch {
		case d == nil && wd != nil:
			x.failf("known-set:missing:after="+x.afterClass(), "TxDetails(tx%d) is nil but the ledger says it is %s (after %s)\n%s", t.idx, x.status(t.hash), w.last, x.describe(v))
			return
		case d != nil && wd == nil:
			x.failf("known-set:not-removed:after="+x.afterClass(), "TxDetails(tx%d) reports a transaction (height %d) that should have disappeared (after %s)\n%s", t.idx, d.Block.Height, w.last, x.describe(v))
			return
		case d == nil:
			continue
		}
		if what, msg := cmpDetails(d, wd); what == "block" || strings.HasPrefix(what, "credit-set") || what == "credit-amount" || what == "credit-change" {
			x.failf("known-set:"+what+":after="+x.afterClass(), "tx%d: %s (after %s)\n%s", t.idx, msg, w.last, x.describe(v))
			return
		}
	}
}

func (x *oracle) status(h chainhash.Hash) string {
	t := x.w.L.Txs[h]
	switch {
	case t == nil:
		return "unknown/removed"
	case t.Block == nil:
		return "unconfirmed"
	}
	return "confirmed in " + blockStr(t.Block)
}

// snapshot renders everything C02 (ii) compares, category by category.
func (x *oracle) snapshot(st *realStore) (map[string][]string, error) {
	out := map[string][]string{}
	err := st.view(func(ns walletdb.ReadBucket) error {
		var qe error
		x.eachBalance(ns, st.s, true, true, func(mc, h labeled, got int64) bool {
			out["balance"] = append(out["balance"], fmt.Sprintf("minconf=%d height=%d -> %d", mc.v, h.v, got))
			return true
		})
		us, err := st.s.UnspentOutputs(ns)
		if err != nil {
			return err
		}
		for _, c := range us {
			out["unspent"] = append(out["unspent"], fmt.Sprintf("%v amt=%d h=%d blk=%v t=%d cb=%v script=%x", c.OutPoint, c.Amount, c.Height, c.Block.Hash, c.Time.Unix(), c.FromCoinBase, c.PkScript))
		}
		sort.Strings(out["unspent"])
		hs, err := st.s.UnminedTxHashes(ns)
		if err != nil {
			return err
		}
		for _, h := range hs {
			out["unmined"] = append(out["unmined"], h.String())
		}
		sort.Strings(out["unmined"])
		for _, t := range x.w.u.txs {
			d, err := st.s.TxDetails(ns, &t.hash)
			if err != nil {
				return err
			}
			line := fmt.Sprintf("tx%d nil", t.idx)
			if d != nil {
				cr := append([]wtxmgr.CreditRecord{}, d.Credits...)
				sort.Slice(cr, func(i, j int) bool { return cr[i].Index < cr[j].Index })
				db := append([]wtxmgr.DebitRecord{}, d.Debits...)
				sort.Slice(db, func(i, j int) bool { return db[i].Index < db[j].Index })
				line = fmt.Sprintf("tx%d %v h=%d blk=%v t=%d credits=%v debits=%v", t.idx, d.Hash, d.Block.Height, d.Block.Hash, d.Block.Time.Unix(), cr, db)
			}
			out["details"] = append(out["details"], line)
		}
		return qe
	})
	return out, err
}

// pathIndependence is C02 (ii): a second, fresh real store receives only the
// final facts (final blocks in height order, then the unconfirmed
// transactions parents first) and must answer every query like the store that
// went the long way. Leases are not "facts": the clock is advanced past the
// latest expiry first, so no lease is live in the long-path store either.
func (x *oracle) pathIndependence(params *chaincfg.Params) {
	w := x.w
	var latest time.Time
	for _, op := range w.L.LeasedOutpoints() {
		if e := w.L.Leases[op].Expiry; e.After(latest) {
			latest = e
		}
	}
	if latest.After(time.Now()) {
		time.Sleep(latest.Sub(time.Now()) + time.Second)
	}
	w.now = time.Now()

	b, err := openReal(filepath.Join(x.env.Dir, "b.db"), params)
	if x.qerr("create(B)", err) {
		return
	}
	defer b.close()
	byHeight := map[int32][]*utx{}
	var heights []int32
	var unmined []*utx
	for _, t := range w.u.txs { // universe order is parents-first
		lt := w.L.Txs[t.hash]
		switch {
		case lt == nil:
		case lt.Block == nil:
			unmined = append(unmined, t)
		default:
			if byHeight[lt.Block.Height] == nil {
				heights = append(heights, lt.Block.Height)
			}
			byHeight[lt.Block.Height] = append(byHeight[lt.Block.Height], t)
		}
	}
	sort.Slice(heights, func(i, j int) bool { return heights[i] < heights[j] })
	for _, h := range heights {
		txs := byHeight[h]
		sort.SliceStable(txs, func(i, j int) bool { return txs[i].coinbase && !txs[j].coinbase })
		if x.qerr("InsertTx(B,mined)", b.deliver(txs, w.L.Txs[txs[0].hash].Block, true)) {
			return
		}
	}
	for _, t := range unmined {
		if x.qerr("InsertTx(B,unmined)", b.deliver([]*utx{t}, nil, true)) {
			return
		}
	}
	x.w.probe("direct-construction-compared")
	sa, err := x.snapshot(x.st)
	if x.qerr("snapshot(A)", err) {
		return
	}
	sb, err := x.snapshot(b)
	if x.qerr("snapshot(B)", err) {
		return
	}
	for _, cat := range []string{"unmined", "details", "unspent", "balance"} {
		a, bb := sa[cat], sb[cat]
		for i := 0; i < len(a) || i < len(bb); i++ {
			la, lb := "<nothing>", "<nothing>"
			if i < len(a) {
				la = a[i]
			}
			if i < len(bb) {
				lb = bb[i]
			}
			if la != lb {
				x.failf("path-dependence:"+cat, "the store that lived through the history and a fresh store given only the final facts differ on %s:\n  long path: %s\n  direct:    %s\n%s", cat, la, lb, x.describe(w.L.View()))
				return
			}
		}
	}
}

// ---------------------------------------------------------------- C13

// cmpDetails compares what the store reports for a transaction with the
// ledger's details. It returns the class of the first difference ("" = equal).
func cmpDetails(d *wtxmgr.TxDetails, w *ledger.Details) (string, string) {
	if d.Hash != w.Hash || d.MsgTx.TxHash() != w.Hash {
		return "tx-body", fmt.Sprintf("record hash %v / body hash %v, want %v", d.Hash, d.MsgTx.TxHash(), w.Hash)
	}
	if w.Block == nil {
		if d.Block.Height != -1 || d.Block.Hash != (chainhash.Hash{}) {
			return "block", fmt.Sprintf("reported in block (%d %v), ledger: unconfirmed", d.Block.Height, d.Block.Hash)
		}
	} else if d.Block.Height != w.Block.Height || d.Block.Hash != w.Block.Hash || !d.Block.Time.Equal(w.Block.Time) {
		return "block", fmt.Sprintf("reported in block (%d %v %v), ledger: %s %v", d.Block.Height, d.Block.Hash, d.Block.Time.UTC(), blockStr(w.Block), w.Block.Time.UTC())
	}
	cr := append([]wtxmgr.CreditRecord{}, d.Credits...)
	sort.SliceStable(cr, func(i, j int) bool { return cr[i].Index < cr[j].Index })
	for i := 1; i < len(cr); i++ {
		if cr[i].Index == cr[i-1].Index {
			return "credit-set:duplicate", fmt.Sprintf("credit for output %d listed twice", cr[i].Index)
		}
	}
	if len(cr) != len(w.Credits) {
		return "credit-set", fmt.Sprintf("credits %v, ledger %v", cr, w.Credits)
	}
	for i := range cr {
		if cr[i].Index != w.Credits[i].Index {
			return "credit-set", fmt.Sprintf("credits %v, ledger %v", cr, w.Credits)
		}
	}
	for i := range cr {
		switch {
		case int64(cr[i].Amount) != w.Credits[i].Amount:
			return "credit-amount", fmt.Sprintf("credit %d amount %d, ledger %d", cr[i].Index, cr[i].Amount, w.Credits[i].Amount)
		case cr[i].Change != w.Credits[i].Change:
			return "credit-change", fmt.Sprintf("credit %d change=%v, ledger %v", cr[i].Index, cr[i].Change, w.Credits[i].Change)
		case cr[i].Spent != w.Credits[i].Spent:
			return "credit-spent-flag", fmt.Sprintf("credit %d spent=%v, ledger %v", cr[i].Index, cr[i].Spent, w.Credits[i].Spent)
		}
	}
	db := append([]wtxmgr.DebitRecord{}, d.Debits...)
	sort.SliceStable(db, func(i, j int) bool { return db[i].Index < db[j].Index })
	if len(db) != len(w.Debits) {
		return "debit-set", fmt.Sprintf("debits %v, ledger %v", db, w.Debits)
	}
	for i := range db {
		if db[i].Index != w.Debits[i].Index {
			return "debit-set", fmt.Sprintf("debits %v, ledger %v", db, w.Debits)
		}
	}
	for i := range db {
		if int64(db[i].Amount) != w.Debits[i].Amount {
			return "debit-amount", fmt.Sprintf("debit of input %d amount %d, ledger %d", db[i].Index, db[i].Amount, w.Debits[i].Amount)
		}
	}
	return "", ""
}

func (x *oracle) checkC13(ns walletdb.ReadBucket, v *ledger.View) {
	w := x.w
	s := x.st.s
	otherBlock := wtxmgr.Block{Hash: derivedHash("no-such-block", w.seed, 1), Height: w.tip}
	for _, t := range w.u.txs {
		wd := v.Details(t.hash)
		d, err := s.TxDetails(ns, &t.hash)
		if x.qerr("TxDetails", err) {
			return
		}
		if !x.detailsVerdict("details", t, d, wd, v) {
			return
		}
		// UniqueTxDetails: with its block / nil block / a wrong block
		var own *wtxmgr.Block
		if wd != nil && wd.Block != nil {
			own = &wtxmgr.Block{Hash: wd.Block.Hash, Height: wd.Block.Height}
		}
		du, err := s.UniqueTxDetails(ns, &t.hash, own)
		if x.qerr("UniqueTxDetails", err) {
			return
		}
		if !x.detailsVerdict("details:unique", t, du, wd, v) {
			return
		}
		if own != nil {
			dn, err := s.UniqueTxDetails(ns, &t.hash, nil)
			if x.qerr("UniqueTxDetails", err) {
				return
			}
			if dn != nil {
				x.failf("details:unique:nil-block-finds-confirmed", "UniqueTxDetails(tx%d, nil) reports a transaction although it is %s (after %s)", t.idx, x.status(t.hash), w.last)
				return
			}
		}
		wrong := otherBlock
		if own != nil {
			wrong = wtxmgr.Block{Hash: own.Hash, Height: own.Height + 1}
			if t.idx%2 == 0 {
				wrong = wtxmgr.Block{Hash: otherBlock.Hash, Height: own.Height}
			}
		}
		dw, err := s.UniqueTxDetails(ns, &t.hash, &wrong)
		if x.qerr("UniqueTxDetails", err) {
			return
		}
		if dw != nil {
			x.failf("details:unique:wrong-block-found", "UniqueTxDetails(tx%d, block (%d %v)) reports a transaction; it is %s (after %s)", t.idx, wrong.Height, wrong.Hash, x.status(t.hash), w.last)
			return
		}
		// PreviousPkScripts of a known transaction
		if wd != nil {
			rec, err := wtxmgr.NewTxRecordFromMsgTx(t.msg, w.now)
			if x.qerr("NewTxRecordFromMsgTx", err) {
				return
			}
			ps, err := s.PreviousPkScripts(ns, rec, own)
			if x.qerr("PreviousPkScripts", err) {
				return
			}
			ok := len(ps) == len(wd.PrevScripts)
			for i := 0; ok && i < len(ps); i++ {
				ok = bytes.Equal(ps[i], wd.PrevScripts[i])
			}
			if !ok {
				x.failf("prevscripts:mismatch", "PreviousPkScripts(tx%d, %s) = %x, the scripts of the credits it debits are %x (after %s)\n%s", t.idx, x.status(t.hash), ps, wd.PrevScripts, w.last, x.describe(v))
				return
			}
			if len(wd.Debits) > 0 && wd.Block == nil {
				w.probe("unmined-debits-recomputed")
			}
		}
	}
	// a fixed set of ranges after every event (random ranges are operations)
	for _, r := range [][2]int32{{0, -1}, {-1, 0}, {-1, -1}} {
		if !x.checkRange(ns, v, r[0], r[1], 0) {
			return
		}
	}
}

func (x *oracle) detailsVerdict(class string, t *utx, d *wtxmgr.TxDetails, wd *ledger.Details, v *ledger.View) bool {
	switch {
	case d == nil && wd == nil:
		return true
	case d == nil:
		x.failf(class+":nil-for-known", "%s(tx%d) is nil; the ledger says it is %s (after %s)\n%s", class, t.idx, x.status(t.hash), x.w.last, x.describe(v))
		return false
	case wd == nil:
		x.failf(class+":removed-still-reported", "%s(tx%d) reports a transaction (height %d) that was removed (after %s)\n%s", class, t.idx, d.Block.Height, x.w.last, x.describe(v))
		return false
	}
	if what, msg := cmpDetails(d, wd); what != "" {
		x.failf(class+":"+what, "%s(tx%d): %s (after %s)\n%s", class, t.idx, msg, x.w.last, x.describe(v))
		return false
	}
	return true
}

type gotGroup struct {
	height int32
	txs    []wtxmgr.TxDetails
}

// checkRange: RangeTransactions(begin, end) reports every known transaction in
// range exactly once, grouped by block in the right order, unconfirmed ones
// placed as documented, and stops when the callback says so (stopAfter > 0).
func (x *oracle) checkRange(ns walletdb.ReadBucket, v *ledger.View, begin, end int32, stopAfter int) bool {
	w := x.w
	var got []gotGroup
	mixed := false
	calls := 0
	err := x.st.s.RangeTransactions(ns, begin, end, func(ds []wtxmgr.TxDetails) (bool, error) {
		calls++
		g := gotGroup{height: -2}
		for i := range ds {
			if i == 0 {
				g.height = ds[i].Block.Height
			} else if ds[i].Block.Height != g.height {
				mixed = true
			}
			g.txs = append(g.txs, ds[i]) // the slice is reused by the store: copy
		}
		got = append(got, g)
		return stopAfter > 0 && calls >= stopAfter, nil
	})
	if x.qerr("RangeTransactions", err) {
		return false
	}
	desc := fmt.Sprintf("RangeTransactions(%d, %d)", begin, end)
	want := v.Range(begin, end)
	if begin >= 0 && end >= 0 && begin > end || begin < 0 && end >= 0 {
		w.probe("range-reverse")
	}
	if stopAfter > 0 {
		if calls > stopAfter {
			x.failf("range:early-stop-ignored", "%s: the callback returned true at call %d but was called %d times", desc, stopAfter, calls)
			return false
		}
		if stopAfter < len(want) {
			w.probe("range-early-stop")
			want = want[:stopAfter]
		}
	}
	if mixed {
		x.failf("range:mixed-group", "%s passed transactions of different blocks in one call", desc)
		return false
	}
	render := func() string {
		var sb strings.Builder
		sb.WriteString("  store: ")
		for _, g := range got {
			fmt.Fprintf(&sb, "[h=%d:", g.height)
			for _, d := range g.txs {
				fmt.Fprintf(&sb, " tx%d", w.u.byHash[d.Hash])
			}
			sb.WriteString("] ")
		}
		sb.WriteString("\n  ledger: ")
		for _, g := range want {
			fmt.Fprintf(&sb, "[h=%d:", g.Height)
			for _, h := range g.Txs {
				fmt.Fprintf(&sb, " tx%d", w.u.byHash[h])
			}
			sb.WriteString("] ")
		}
		return sb.String()
	}
	seen := map[chainhash.Hash]int{}
	for _, g := range got {
		for _, d := range g.txs {
			seen[d.Hash]++
			if seen[d.Hash] > 1 {
				x.failf("range:duplicate", "%s reports tx%d more than once (after %s)\n%s", desc, w.u.byHash[d.Hash], w.last, render())
				return false
			}
		}
	}
	wantAll := map[chainhash.Hash]bool{}
	for _, g := range want {
		for _, h := range g.Txs {
			wantAll[h] = true
			if seen[h] == 0 {
				x.failf("range:missing", "%s does not report tx%d which is %s (after %s)\n%s", desc, w.u.byHash[h], x.status(h), w.last, render())
				return false
			}
		}
	}
	for _, g := range got {
		for _, d := range g.txs {
			if !wantAll[d.Hash] {
				x.failf("range:extra", "%s reports tx%d which is %s (after %s)\n%s", desc, w.u.byHash[d.Hash], x.status(d.Hash), w.last, render())
				return false
			}
		}
	}
	for i := range want {
		if i >= len(got) || got[i].height != want[i].Height {
			gi, wi := -1, -1
			for k := range got {
				if got[k].height == -1 {
					gi = k
				}
			}
			for k := range want {
				if want[k].Height == -1 {
					wi = k
				}
			}
			sig := "range:block-order"
			if gi != wi {
				sig = "range:unmined-placement"
			}
			x.failf(sig, "%s calls back in the wrong order (after %s)\n%s", desc, w.last, render())
			return false
		}
		if len(got[i].txs) != len(want[i].Txs) {
			x.failf("range:group-content", "%s: group %d has the wrong transactions (after %s)\n%s", desc, i, w.last, render())
			return false
		}
		for k := range got[i].txs {
			d := &got[i].txs[k]
			if what, msg := cmpDetails(d, v.Details(d.Hash)); what != "" {
				x.failf("range:details:"+what, "%s: tx%d: %s (after %s)", desc, w.u.byHash[d.Hash], msg, w.last)
				return false
			}
		}
	}
	if len(got) > len(want) {
		x.failf("range:extra-call", "%s called back %d times, %d groups expected\n%s", desc, len(got), len(want), render())
		return false
	}
	return true
}

func (x *oracle) opRange(op core.Op) bool {
	if x.prop != "C13" {
		return false
	}
	w := x.w
	conv := func(a int64) int32 {
		if a <= 0 {
			return -1
		}
		// 1.. maps onto heights around the part of the chain this run built
		lo, hi := int64(w.cfg.base), int64(w.cfg.base)
		if int64(w.tip) < lo {
			lo = int64(w.tip)
		}
		if int64(w.tip) > hi {
			hi = int64(w.tip)
		}
		lo -= 2
		if lo < 0 {
			lo = 0
		}
		hi += 2
		return int32(lo + (a-1)%(hi-lo+1))
	}
	begin, end := conv(op.Arg(0)), conv(op.Arg(1))
	stop := mod(op.Arg(2), 4)
	w.last = fmt.Sprintf("range %d..%d stop=%d", begin, end, stop)
	err := x.st.view(func(ns walletdb.ReadBucket) error {
		x.checkRange(ns, w.L.View(), begin, end, stop)
		return nil
	})
	x.qerr("View", err)
	return true
}

// ---------------------------------------------------------------- C14

func (x *oracle) checkC14(ns walletdb.ReadBucket, v *ledger.View) {
	w := x.w
	set := w.L.UnminedMsgs()
	x.graphProbes(set, "")
	defer x.runMapSeed()
	for i := 0; i < R; i++ {
		x.repMapSeed(i)
		got, err := x.st.s.UnminedTxs(ns)
		if x.qerr("UnminedTxs", err) {
			return
		}
		if verdict, detail := ledger.CheckTopo(set, got); verdict != ledger.TopoOK {
			x.failf("toposort:"+verdict+":query=UnminedTxs", "UnminedTxs (call %d of %d, %d unconfirmed transactions): %s (after %s)\n%s", i+1, R, len(set), detail, w.last, x.describe(v))
			return
		}
	}
}

// readerBesideWriter (half of the C14 plans): another caller asks for the
// unconfirmed list in a read transaction of its own just before a write
// transaction begins and again after the writer's last write, before its
// commit. The database isolates it: both answers are the list as of the last
// commit. What the writer commits must then be what every later caller sees
// (checkC14 after the operation) - whatever the store remembered while the
// reader was served.
func (x *oracle) readerBesideWriter() {
	var before []*wire.MsgTx
	x.st.pre = func() {
		before = nil
		_ = x.st.view(func(ns walletdb.ReadBucket) error {
			got, err := x.st.s.UnminedTxs(ns)
			if err == nil {
				before = got
			}
			return nil
		})
	}
	x.st.mid = func() {
		if x.env.Failed() {
			return
		}
		x.env.Count("probe.c14-reader-between-write-and-commit")
		err := x.st.view(func(ns walletdb.ReadBucket) error {
			got, err := x.st.s.UnminedTxs(ns)
			if err != nil {
				return err
			}
			if verdict, detail := ledger.CheckTopo(before, got); verdict != ledger.TopoOK {
				x.failf("toposort:"+verdict+":query=UnminedTxs:reader-beside-open-writer", "a read transaction opened before the writer's commit: UnminedTxs differs from the list as of the last commit (%d transactions): %s (during %s)", len(before), detail, x.w.last)
			}
			return nil
		})
		x.qerr("View", err)
	}
}

// queriesBesideWriter (a quarter of the C01 / C13 plans): the same
// arrangement for the balance, the spendable list and the history - another
// caller reads them in a transaction of its own before a write transaction
// begins and between its last write and its commit. Both readings are of the
// last commit and must agree; the ordinary oracles after the operation then
// decide whether what was committed is what everybody sees from now on.
func (x *oracle) queriesBesideWriter() {
	read := func(h int32) (string, error) {
		var fp string
		err := x.st.view(func(ns walletdb.ReadBucket) error {
			if x.prop == "C01" {
				b0, err := x.st.s.Balance(ns, 0, h)
				if err != nil {
					return err
				}
				b1, err := x.st.s.Balance(ns, 1, h)
				if err != nil {
					return err
				}
				us, err := x.st.s.UnspentOutputs(ns)
				if err != nil {
					return err
				}
				var sum int64
				for _, u := range us {
					sum += int64(u.Amount)*31 + int64(u.Height)
				}
				fp = fmt.Sprintf("balance0=%d balance1=%d unspent=%d/%d", b0, b1, len(us), sum)
				return nil
			}
			n, unmined := 0, 0
			err := x.st.s.RangeTransactions(ns, 0, -1, func(ds []wtxmgr.TxDetails) (bool, error) {
				for i := range ds {
					n++
					if ds[i].Block.Height < 0 {
						unmined++
					}
				}
				return false, nil
			})
			fp = fmt.Sprintf("transactions=%d unconfirmed=%d", n, unmined)
			return err
		})
		return fp, err
	}
	var before string
	var berr error
	var height int32 // the sync height both readings are made for
	x.st.pre = func() { height = x.w.tip; before, berr = read(height) }
	x.st.mid = func() {
		if x.env.Failed() || berr != nil {
			return
		}
		x.env.Count("probe.reader-between-write-and-commit")
		got, err := read(height)
		if x.qerr("View", err) {
			return
		}
		if got != before {
			x.failf("isolation:reader-beside-open-writer", "a read transaction opened before the writer's commit answers %s; as of the last commit it was %s (during %s)", got, before, x.w.last)
		}
	}
}

// graphProbes counts the shapes of a transaction set that C14 singles out.
func (x *oracle) graphProbes(set []*wire.MsgTx, suffix string) {
	in := map[chainhash.Hash]*wire.MsgTx{}
	for _, m := range set {
		in[m.TxHash()] = m
	}
	anc := map[chainhash.Hash]map[chainhash.Hash]bool{}
	var ancestors func(h chainhash.Hash) map[chainhash.Hash]bool
	ancestors = func(h chainhash.Hash) map[chainhash.Hash]bool {
		if a, ok := anc[h]; ok {
			return a
		}
		a := map[chainhash.Hash]bool{}
		anc[h] = a
		for _, i := range in[h].TxIn {
			p := i.PreviousOutPoint.Hash
			if in[p] != nil {
				a[p] = true
				for q := range ancestors(p) {
					a[q] = true
				}
			}
		}
		return a
	}
	dup, diamond, deep, edges := false, false, false, false
	spentOps := map[wire.OutPoint]int{}
	for _, m := range set {
		h := m.TxHash()
		par := map[chainhash.Hash]int{}
		for _, i := range m.TxIn {
			if in[i.PreviousOutPoint.Hash] != nil {
				par[i.PreviousOutPoint.Hash]++
				edges = true
				spentOps[i.PreviousOutPoint]++
			}
		}
		var ps []chainhash.Hash
		for p, n := range par {
			if n >= 2 {
				dup = true
			}
			ps = append(ps, p)
		}
		for i := 0; i < len(ps) && !diamond; i++ {
			for j := i + 1; j < len(ps); j++ {
				ai, aj := ancestors(ps[i]), ancestors(ps[j])
				for q := range ai {
					if aj[q] {
						diamond = true
					}
				}
				if ai[ps[j]] || aj[ps[i]] {
					diamond = true // grandparent spent directly as well
				}
			}
		}
		if len(ancestors(h)) >= 3 {
			deep = true
		}
	}
	sib := false
	for _, n := range spentOps {
		if n >= 2 {
			sib = true
		}
	}
	if dup {
		x.w.probe("dup-edge-graph" + suffix)
	}
	if diamond {
		x.w.probe("diamond-graph" + suffix)
	}
	if deep {
		x.w.probe("chain-depth-3-graph" + suffix)
	}
	if sib {
		x.w.probe("conflicting-siblings-graph" + suffix)
	}
	if len(set) >= 2 && !edges {
		x.w.probe("no-edge-graph" + suffix)
	}
}

// ---------------------------------------------------------------- C12

func (x *oracle) checkC12(ns walletdb.ReadBucket, v *ledger.View) {
	w := x.w
	now := w.now
	for _, op := range w.L.LeasedOutpoints() {
		if w.L.Leases[op].Expiry.Equal(now) {
			w.probe("query-exactly-at-expiry")
			break
		}
	}
	if w.anyAmbiguous() {
		// sub-second runs: inside [floor(expiry), expiry) nothing that
		// depends on the lease is asserted
		w.probe("subsecond-window-skipped")
		return
	}
	for _, op := range w.liveLeases() {
		if t, ok := v.Credit(op); ok && t.Block != nil && v.SpentByUnmined(op) {
			w.probe("leased-and-unmined-spent")
			break
		}
	}
	x.eachBalance(ns, x.st.s, false, true, func(mc, h labeled, got int64) bool {
		want := v.Balance(mc.v, h.v, now)
		if got == want {
			return true
		}
		sig := "lease:balance-mismatch"
		switch got {
		case v.BalanceMode(mc.v, h.v, now, ledger.LeasesIgnored):
			sig = "lease:available-before-expiry:query=Balance"
		case v.BalanceMode(mc.v, h.v, now, ledger.LeasesAllLive):
			sig = "lease:unavailable-after-expiry:query=Balance"
		}
		x.failf(sig, "Balance(minconf=%d, syncHeight=%d) = %d, ledger says %d (ignoring leases: %d, counting expired entries as live: %d) at %v (after %s)\n%s",
			mc.v, h.v, got, want, v.BalanceMode(mc.v, h.v, now, ledger.LeasesIgnored), v.BalanceMode(mc.v, h.v, now, ledger.LeasesAllLive), now.UTC(), w.last, x.describe(v))
		return false
	})
	if x.env.Failed() {
		return
	}
	x.checkUnspent(ns, v, "lease:unspent")
	if x.env.Failed() {
		return
	}
	x.checkWatch(ns, v, "lease:watch")
	if x.env.Failed() {
		return
	}
	x.checkLockedList(ns, v)
}

// checkLockedList: ListLockedOutputs lists every live lease on an output the
// wallet knows, with its id and expiry, and no expired or unknown entry. A
// lease whose output has disappeared (or got a confirmed spender without the
// store noticing) may or may not be listed: the statement is silent.
func (x *oracle) checkLockedList(ns walletdb.ReadBucket, v *ledger.View) {
	w := x.w
	got, err := x.st.s.ListLockedOutputs(ns)
	if x.qerr("ListLockedOutputs", err) {
		return
	}
	seen := map[wire.OutPoint]bool{}
	for _, lo := range got {
		le, ok := w.L.Leases[lo.Outpoint]
		switch {
		case !ok:
			x.failf("lease:list:unknown-entry", "ListLockedOutputs lists %v which is not leased (released, cleared by a confirmed spend, or never leased) (after %s)", lo.Outpoint, w.last)
			return
		case !w.now.Before(le.Expiry):
			x.failf("lease:list:expired-listed", "ListLockedOutputs lists %v whose lease expired at %v; now %v", lo.Outpoint, le.Expiry.UTC(), w.now.UTC())
			return
		case ledger.LockID(lo.LockID) != le.ID:
			x.failf("lease:list:id", "ListLockedOutputs: %v held by id %d, ledger says id %d", lo.Outpoint, lo.LockID[0], le.ID[0])
			return
		case !lo.Expiration.Equal(time.Unix(le.Expiry.Unix(), 0)):
			x.failf("lease:list:expiry", "ListLockedOutputs: %v expires %v, ledger says %v", lo.Outpoint, lo.Expiration.UTC(), le.Expiry.UTC())
			return
		}
		seen[lo.Outpoint] = true
	}
	for _, op := range w.liveLeases() {
		if w.L.OutputKnowledge(op) == ledger.OutputKnown && !seen[op] {
			x.failf("lease:list:missing", "ListLockedOutputs lacks %v leased by id %d until %v; now %v (after %s)", op, w.L.Leases[op].ID[0], w.L.Leases[op].Expiry.UTC(), w.now.UTC(), w.last)
			return
		}
	}
}

func (x *oracle) opListLocks() bool {
	if x.prop != "C12" {
		return false
	}
	x.w.last = "listlocks"
	return true // the list is compared by checkC12 after every operation
}
