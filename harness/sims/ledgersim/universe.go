package ledgersim

import (
	"crypto/sha256"
	"encoding/binary"
	"fmt"
	"sort"

	"github.com/btcsuite/btcd/chaincfg/chainhash"
	"github.com/btcsuite/btcd/wire"

	"verifsim/core"
)

// utx is one transaction of the generated universe. The universe is a pure
// function of (plan seed, plan cfg), so it is identical in Generate and in
// Execute and survives any deletion of operations by the minimiser.
type utx struct {
	idx      int
	kind     string
	msg      *wire.MsgTx
	hash     chainhash.Hash
	credits  map[uint32]bool // credited output index -> change flag
	creditIx []uint32        // sorted
	coinbase bool
	parents  []int // universe txs one of whose outputs it spends (sorted, distinct)
}

type universe struct {
	txs       []*utx
	byHash    map[chainhash.Hash]int
	coinbases []int
	scripts   [][]byte
}

func walletScript(i int) []byte {
	s := make([]byte, 22)
	s[0], s[1] = 0x00, 0x14
	for j := 2; j < 22; j++ {
		s[j] = byte(0xa0 + i)
	}
	s[21] = byte(i)
	return s
}

func foreignScript(k uint64) []byte {
	s := make([]byte, 25)
	s[0], s[1], s[2] = 0x76, 0xa9, 0x14
	binary.LittleEndian.PutUint64(s[3:], k)
	binary.LittleEndian.PutUint64(s[11:], k*0x9e3779b97f4a7c15+1)
	s[23], s[24] = 0x88, 0xac
	return s
}

func derivedHash(tag string, a, b uint64) chainhash.Hash {
	var buf [16]byte
	binary.LittleEndian.PutUint64(buf[:], a)
	binary.LittleEndian.PutUint64(buf[8:], b)
	return chainhash.Hash(sha256.Sum256(append([]byte(tag), buf[:]...)))
}

type uout struct {
	tx  int
	idx uint32
}

// buildUniverse generates 6-40 transactions over 2-6 wallet scripts: funding
// transactions from outside, coinbases with wallet outputs, spends forming
// chains / fan-in / fan-out, several credits per transaction, two inputs from
// the same parent, mixed wallet/foreign outputs, change outputs, and
// deliberately conflicting pairs (double spends of a wallet outpoint and of a
// foreign outpoint). Credited outputs have value >= 1.
func buildUniverse(seed uint64, c *config) *universe {
	r := core.NewRand(core.Mix(seed, 0x756e6976))
	u := &universe{byHash: map[chainhash.Hash]int{}}
	for i := 0; i < c.nscripts; i++ {
		u.scripts = append(u.scripts, walletScript(i))
	}
	var credits []uout      // every credited output so far
	spent := map[uout]int{} // how many universe txs spend it
	var foreignOuts []uout  // non-credited outputs of non-coinbase universe txs
	var cbForeignOuts []uout
	var foreignUsed []wire.OutPoint
	fctr := uint64(0)

	newForeignOutPoint := func() wire.OutPoint {
		fctr++
		return wire.OutPoint{Hash: derivedHash("foreign", seed, fctr), Index: uint32(r.Intn(3))}
	}
	addOutputs := func(m *wire.MsgTx, t *utx, nCred, nForeign int, changeBias int) {
		total := nCred + nForeign
		if total == 0 {
			nForeign, total = 1, 1
		}
		slots := r.Perm(total)
		isCred := make([]bool, total)
		for i := 0; i < nCred; i++ {
			isCred[slots[i]] = true
		}
		for i := 0; i < total; i++ {
			if isCred[i] {
				val := int64(r.Range(1, 100000))
				if r.Chance(1, 12) {
					val = 1
				}
				m.AddTxOut(wire.NewTxOut(val, u.scripts[r.Intn(len(u.scripts))]))
				t.credits[uint32(i)] = r.Chance(changeBias, 100)
			} else {
				fctr++
				m.AddTxOut(wire.NewTxOut(int64(r.Range(0, 100000)), foreignScript(fctr)))
			}
		}
	}

	for i := 0; i < c.ntx; i++ {
		t := &utx{idx: i, credits: map[uint32]bool{}}
		m := wire.NewMsgTx(int32(1 + r.Intn(2)))
		m.LockTime = uint32(i) // distinct hashes even for identical shapes
		kinds := []string{"fund", "coinbase", "spend", "fconflict", "fspend"}
		weights := []int{16, 12, 56, 8, 8}
		if i < 2 {
			weights = []int{60, 40, 0, 0, 0}
		}
		if len(foreignUsed) == 0 {
			weights[3] = 0
		}
		if len(foreignOuts)+len(cbForeignOuts) == 0 {
			weights[4] = 0
		}
		if len(credits) == 0 {
			weights[2] = 0
		}
		t.kind = kinds[r.Weighted(weights)]
		switch t.kind {
		case "fund":
			nin := 1 + r.Intn(2)
			for k := 0; k < nin; k++ {
				op := newForeignOutPoint()
				foreignUsed = append(foreignUsed, op)
				m.AddTxIn(wire.NewTxIn(&op, nil, nil))
			}
			addOutputs(m, t, 1+r.Weighted([]int{55, 30, 15}), r.Weighted([]int{50, 35, 15}), 5)
		case "fconflict":
			// double spend of a foreign outpoint an earlier funding tx uses
			op := foreignUsed[r.Intn(len(foreignUsed))]
			m.AddTxIn(wire.NewTxIn(&op, nil, nil))
			if r.Chance(1, 3) {
				op2 := newForeignOutPoint()
				m.AddTxIn(wire.NewTxIn(&op2, nil, nil))
			}
			addOutputs(m, t, 1+r.Intn(2), r.Intn(2), 5)
		case "coinbase":
			t.coinbase = true
			op := wire.OutPoint{Index: 0xffffffff}
			in := wire.NewTxIn(&op, []byte{0x03, byte(i), byte(seed), byte(seed >> 8), 0x51}, nil)
			m.AddTxIn(in)
			addOutputs(m, t, 1+r.Weighted([]int{65, 25, 10}), r.Weighted([]int{60, 40}), 0)
		case "fspend":
			// spends a NON-credited output of an earlier universe tx and pays
			// the wallet: a descendant through a foreign output
			pool := foreignOuts
			if c.cbForeign && len(cbForeignOuts) > 0 && (len(pool) == 0 || r.Chance(1, 2)) {
				pool = cbForeignOuts
			}
			if len(pool) == 0 { // coinbase foreign outputs exist but are disabled
				op := newForeignOutPoint()
				foreignUsed = append(foreignUsed, op)
				m.AddTxIn(wire.NewTxIn(&op, nil, nil))
			} else {
				o := pool[r.Intn(len(pool))]
				op := wire.OutPoint{Hash: u.txs[o.tx].hash, Index: o.idx}
				m.AddTxIn(wire.NewTxIn(&op, nil, nil))
			}
			addOutputs(m, t, 1+r.Intn(2), r.Intn(2), 10)
		case "spend":
			nin := 1 + r.Weighted([]int{50, 35, 15})
			used := map[uout]bool{}
			pick := func() (uout, bool) {
				var unspentC, spentC []uout
				for _, o := range credits {
					if used[o] {
						continue
					}
					if spent[o] == 0 {
						unspentC = append(unspentC, o)
					} else {
						spentC = append(spentC, o)
					}
				}
				if len(spentC) > 0 && (len(unspentC) == 0 || r.Chance(c.conflictPct, 100)) {
					return spentC[r.Intn(len(spentC))], true
				}
				if len(unspentC) > 0 {
					// prefer recent outputs (longer chains)
					if r.Chance(1, 2) {
						return unspentC[len(unspentC)-1-r.Intn(minInt(3, len(unspentC)))], true
					}
					return unspentC[r.Intn(len(unspentC))], true
				}
				return uout{}, false
			}
			for k := 0; k < nin; k++ {
				var o uout
				ok := false
				if k > 0 && r.Chance(40, 100) {
					// a second output of a parent we already spend from
					var sib []uout
					for _, cnd := range credits {
						if !used[cnd] {
							for prev := range used {
								if prev.tx == cnd.tx {
									sib = append(sib, cnd)
									break
								}
							}
						}
					}
					sort.Slice(sib, func(a, b int) bool {
						if sib[a].tx != sib[b].tx {
							return sib[a].tx < sib[b].tx
						}
						return sib[a].idx < sib[b].idx
					})
					sib = dedupOuts(sib)
					if len(sib) > 0 {
						o, ok = sib[r.Intn(len(sib))], true
					}
				}
				if !ok {
					o, ok = pick()
				}
				if !ok {
					break
				}
				used[o] = true
				spent[o]++
				op := wire.OutPoint{Hash: u.txs[o.tx].hash, Index: o.idx}
				m.AddTxIn(wire.NewTxIn(&op, nil, nil))
			}
			if r.Chance(15, 100) || len(m.TxIn) == 0 {
				op := newForeignOutPoint()
				foreignUsed = append(foreignUsed, op)
				m.AddTxIn(wire.NewTxIn(&op, nil, nil))
			}
			addOutputs(m, t, r.Weighted([]int{15, 45, 30, 10}), r.Weighted([]int{45, 40, 15}), 60)
		}
		t.msg = m
		t.hash = m.TxHash()
		for ci := range t.credits {
			t.creditIx = append(t.creditIx, ci)
		}
		sort.Slice(t.creditIx, func(a, b int) bool { return t.creditIx[a] < t.creditIx[b] })
		pset := map[int]bool{}
		for _, in := range m.TxIn {
			if pi, ok := u.byHash[in.PreviousOutPoint.Hash]; ok && !pset[pi] {
				pset[pi] = true
				t.parents = append(t.parents, pi)
			}
		}
		sort.Ints(t.parents)
		for oi := range m.TxOut {
			o := uout{i, uint32(oi)}
			if _, ok := t.credits[uint32(oi)]; ok {
				credits = append(credits, o)
			} else if t.coinbase {
				cbForeignOuts = append(cbForeignOuts, o)
			} else {
				foreignOuts = append(foreignOuts, o)
			}
		}
		if t.coinbase {
			u.coinbases = append(u.coinbases, i)
		}
		u.byHash[t.hash] = i
		u.txs = append(u.txs, t)
	}
	return u
}

func dedupOuts(s []uout) []uout {
	var out []uout
	for i, o := range s {
		if i == 0 || o != s[i-1] {
			out = append(out, o)
		}
	}
	return out
}

func minInt(a, b int) int {
	if a < b {
		return a
	}
	return b
}

// hasDupParentIn reports whether t spends two or more outputs of one
// transaction contained in set.
func (t *utx) hasDupParentIn(set map[chainhash.Hash]bool) bool {
	cnt := map[chainhash.Hash]int{}
	for _, in := range t.msg.TxIn {
		h := in.PreviousOutPoint.Hash
		if set[h] {
			cnt[h]++
			if cnt[h] >= 2 {
				return true
			}
		}
	}
	return false
}

// describe renders the universe (replay aid).
func (u *universe) describe() []string {
	var out []string
	for _, t := range u.txs {
		s := fmt.Sprintf("universe tx%d %-9s %s in=[", t.idx, t.kind, t.hash.String()[:10])
		for _, in := range t.msg.TxIn {
			if pi, ok := u.byHash[in.PreviousOutPoint.Hash]; ok {
				s += fmt.Sprintf("tx%d:%d ", pi, in.PreviousOutPoint.Index)
			} else if t.coinbase {
				s += "coinbase "
			} else {
				s += fmt.Sprintf("ext(%s:%d) ", in.PreviousOutPoint.Hash.String()[:6], in.PreviousOutPoint.Index)
			}
		}
		s += "] out=["
		for oi, o := range t.msg.TxOut {
			if ch, ok := t.credits[uint32(oi)]; ok {
				s += fmt.Sprintf("%d:credit(%d,change=%v) ", oi, o.Value, ch)
			} else {
				s += fmt.Sprintf("%d:foreign(%d) ", oi, o.Value)
			}
		}
		out = append(out, s+"]")
	}
	return out
}
