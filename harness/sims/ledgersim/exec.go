package ledgersim

import (
	"errors"
	"fmt"
	"path/filepath"
	"time"

	"github.com/btcsuite/btcd/chaincfg"
	"github.com/btcsuite/btcd/wire"
	"github.com/btcsuite/btcwallet/walletdb"
	_ "github.com/btcsuite/btcwallet/walletdb/bdb"
	"github.com/btcsuite/btcwallet/wtxmgr"

	"verifsim/core"
	"verifsim/faultdb"
	"verifsim/models/ledger"
	"verifsim/simrt"
)

var nsKey = []byte("wtxmgr")

// realStore is a real wtxmgr.Store on a namespace bucket of a real bdb
// database wrapped by faultdb (no fault is armed by this simulation; the
// wrapper is there because it is the database every simulation runs on).
type realStore struct {
	path   string
	db     *faultdb.DB
	s      *wtxmgr.Store
	params *chaincfg.Params
	en     *enumerator // C10 only
	skew   bool        // received times differ from the insertion clock
	// C14: another caller's read transaction. pre runs before a write
	// transaction begins, mid after its last write and before its commit.
	pre, mid func()
}

func openReal(path string, params *chaincfg.Params) (*realStore, error) {
	inner, err := walletdb.Create("bdb", path, true, 10*time.Second, false)
	if err != nil {
		return nil, err
	}
	r := &realStore{path: path, db: faultdb.Wrap(inner), params: params}
	err = walletdb.Update(r.db, func(tx walletdb.ReadWriteTx) error {
		ns, err := tx.CreateTopLevelBucket(nsKey)
		if err != nil {
			return err
		}
		if err := wtxmgr.Create(ns); err != nil {
			return err
		}
		r.s, err = wtxmgr.Open(ns, params)
		return err
	})
	if err != nil {
		r.db.Close()
		return nil, err
	}
	return r, nil
}

func (r *realStore) close() {
	if r.db != nil {
		r.db.Close()
		r.db = nil
	}
}

func (r *realStore) reopen() error {
	if err := r.db.Close(); err != nil {
		return err
	}
	r.db = nil
	inner, err := walletdb.Open("bdb", r.path, true, 10*time.Second, false)
	if err != nil {
		return err
	}
	r.db = faultdb.Wrap(inner)
	return walletdb.View(r.db, func(tx walletdb.ReadTx) error {
		var err error
		r.s, err = wtxmgr.Open(tx.ReadBucket(nsKey), r.params)
		return err
	})
}

func (r *realStore) update(f func(ns walletdb.ReadWriteBucket) error) error {
	if r.en != nil && r.en.active {
		return r.en.run(r, f)
	}
	if r.pre != nil {
		r.pre()
	}
	return walletdb.Update(r.db, func(tx walletdb.ReadWriteTx) error {
		if err := f(tx.ReadWriteBucket(nsKey)); err != nil {
			return err
		}
		if r.mid != nil {
			r.mid()
		}
		return nil
	})
}

func (r *realStore) view(f func(ns walletdb.ReadBucket) error) error {
	return walletdb.View(r.db, func(tx walletdb.ReadTx) error {
		return f(tx.ReadBucket(nsKey))
	})
}

func blockMeta(b *ledger.Block) *wtxmgr.BlockMeta {
	if b == nil {
		return nil
	}
	return &wtxmgr.BlockMeta{Block: wtxmgr.Block{Hash: b.Hash, Height: b.Height}, Time: b.Time}
}

// addRelevantTx mirrors wallet.addRelevantTx: InsertTxCheckIfExists, return
// early for a transaction that is already recorded, otherwise AddCredit for
// every wallet-owned output.
// received is the time a transaction is recorded with. The wallet passes its
// own clock for a mempool transaction and the block header's time for one the
// neutrino backend hands it in a block, and header times run up to two hours
// beside the clock: nothing may depend on received times being ordered like
// insertions.
func (r *realStore) received(t *utx) time.Time {
	now := time.Now()
	if !r.skew {
		return now
	}
	h := uint64(t.hash[0]) | uint64(t.hash[1])<<8 | uint64(t.hash[2])<<16
	return now.Add(time.Duration(int64(h%14401)-7200) * time.Second)
}

func (r *realStore) addRelevantTx(ns walletdb.ReadWriteBucket, t *utx, blk *wtxmgr.BlockMeta) error {
	rec, err := wtxmgr.NewTxRecordFromMsgTx(t.msg, r.received(t))
	if err != nil {
		return err
	}
	exists, err := r.s.InsertTxCheckIfExists(ns, rec, blk)
	if err != nil {
		return err
	}
	if exists {
		return nil
	}
	for _, ci := range t.creditIx {
		if r.en != nil {
			r.en.addCredit = true
		}
		if err := r.s.AddCredit(ns, rec, blk, ci, t.credits[ci]); err != nil {
			return err
		}
	}
	return nil
}

// ---- driver implementation

func (r *realStore) deliver(txs []*utx, blk *ledger.Block, atomic bool) error {
	bm := blockMeta(blk)
	if atomic {
		// chain.FilteredBlockConnected: the whole block in one database transaction
		return r.update(func(ns walletdb.ReadWriteBucket) error {
			for _, t := range txs {
				if err := r.addRelevantTx(ns, t, bm); err != nil {
					return err
				}
			}
			return nil
		})
	}
	// chain.RelevantTx: one database transaction per notification
	for _, t := range txs {
		if err := r.update(func(ns walletdb.ReadWriteBucket) error { return r.addRelevantTx(ns, t, bm) }); err != nil {
			return err
		}
	}
	return nil
}

func (r *realStore) rollback(heights []int32) error {
	for _, h := range heights {
		if err := r.update(func(ns walletdb.ReadWriteBucket) error { return r.s.Rollback(ns, h) }); err != nil {
			return err
		}
	}
	return nil
}

func (r *realStore) removeUnmined(ns walletdb.ReadWriteBucket, t *utx) error {
	rec, err := wtxmgr.NewTxRecordFromMsgTx(t.msg, time.Now())
	if err != nil {
		return err
	}
	return r.s.RemoveUnminedTx(ns, rec)
}

func (r *realStore) abandon(t *utx) error {
	return r.update(func(ns walletdb.ReadWriteBucket) error { return r.removeUnmined(ns, t) })
}

func (r *realStore) rbf(evict []*utx, nw *utx, insertFirst bool) error {
	return r.update(func(ns walletdb.ReadWriteBucket) error {
		if insertFirst {
			if err := r.addRelevantTx(ns, nw, nil); err != nil {
				return err
			}
		}
		for _, t := range evict {
			if err := r.removeUnmined(ns, t); err != nil {
				return err
			}
		}
		if !insertFirst {
			return r.addRelevantTx(ns, nw, nil)
		}
		return nil
	})
}

func leaseOutcome(err error) (string, error) {
	switch {
	case err == nil:
		return ledger.LeaseOK, nil
	case errors.Is(err, wtxmgr.ErrUnknownOutput):
		return ledger.LeaseUnknown, nil
	case errors.Is(err, wtxmgr.ErrOutputAlreadyLocked):
		return ledger.LeaseAlready, nil
	case errors.Is(err, wtxmgr.ErrOutputUnlockNotAllowed):
		return ledger.LeaseNotAllowed, nil
	}
	return "", err
}

func (r *realStore) lock(id ledger.LockID, op wire.OutPoint, d time.Duration) (time.Time, string, error) {
	var exp time.Time
	var lerr error
	// as Wallet.LeaseOutput: the error aborts the database transaction
	err := r.update(func(ns walletdb.ReadWriteBucket) error {
		exp, lerr = r.s.LockOutput(ns, wtxmgr.LockID(id), op, d)
		return lerr
	})
	if lerr != nil {
		out, e := leaseOutcome(lerr)
		return time.Time{}, out, e
	}
	if err != nil {
		return time.Time{}, "", err
	}
	return exp, ledger.LeaseOK, nil
}

func (r *realStore) unlock(id ledger.LockID, op wire.OutPoint) (string, error) {
	var lerr error
	err := r.update(func(ns walletdb.ReadWriteBucket) error {
		lerr = r.s.UnlockOutput(ns, wtxmgr.LockID(id), op)
		return lerr
	})
	if lerr != nil {
		return leaseOutcome(lerr)
	}
	if err != nil {
		return "", err
	}
	return ledger.LeaseOK, nil
}

func (r *realStore) sweep() error {
	return r.update(func(ns walletdb.ReadWriteBucket) error { return r.s.DeleteExpiredLockedOutputs(ns) })
}

func (r *realStore) sleep(d time.Duration) { time.Sleep(d) }

// ---- Execute

type sim struct{}

func init() { core.Register(sim{}) }

func (sim) Name() string    { return "ledgersim" }
func (sim) Props() []string { return []string{"C01", "C02", "C10", "C12", "C13", "C14"} }

func (sim) Execute(env *core.Env, p *core.Plan) {
	cfg := readCfg(p)
	u := buildUniverse(p.Seed, cfg)
	params := chaincfg.RegressionNetParams // a copy: maturity is a per-run knob
	params.CoinbaseMaturity = uint16(cfg.maturity)

	// map iteration order inside wtxmgr is a seeded choice of the run
	simrt.SetMapSeed(runSeed(p.Seed))
	defer simrt.SetMapSeed(0)

	if ns := time.Now().Nanosecond(); ns != 0 {
		env.Fail(p.Prop, "harness:clock-not-whole-second", "fake clock starts at %v", time.Now())
		return
	}
	st, err := openReal(filepath.Join(env.Dir, "a.db"), &params)
	if err != nil {
		env.Fail(p.Prop, "store-error:create", "cannot create the store: %v", err)
		return
	}
	defer st.close()
	st.skew = cfg.recvSkew

	w := newWorld(p.Seed, cfg, u)
	w.env, w.drv, w.prop = env, st, p.Prop
	x := &oracle{w: w, st: st, env: env, prop: p.Prop}
	if p.Prop == "C14" && core.Mix(p.Seed, 0xc14e)%2 == 0 {
		x.readerBesideWriter()
	}
	if (p.Prop == "C01" || p.Prop == "C13") && core.Mix(p.Seed, 0xc14e)%4 == 0 {
		x.queriesBesideWriter()
	}
	var en *enumerator
	if p.Prop == "C10" {
		en = &enumerator{x: x}
		st.en = en
	}
	if env.Verbose {
		// replay aid only (not part of the hashed event log)
		env.Trace = append(env.Trace, u.describe()...)
	}

	for i, op := range p.Ops {
		env.Step(i)
		w.now = time.Now()
		var eff bool
		switch op.K {
		case "range":
			eff = x.opRange(op)
		case "dsort":
			eff = x.opDsort(op)
		case "listlocks":
			eff = x.opListLocks()
		default:
			if en != nil {
				en.active, en.kind, en.sync = op.Str(0) == "enum", op.K, w.tip
				en.instances, en.maxN, en.addCredit = 0, 0, false
				x.enumerated = false
			}
			eff = w.apply(op)
			if en != nil {
				en.active = false
				x.enumerated = en.instances > 0
				x.enumProbes(en, op.K)
			}
		}
		if env.Failed() {
			return
		}
		if !eff {
			env.Count("op.skipped")
			continue
		}
		env.Count("op." + op.K)
		env.Eff()
		env.Logf("%d %s | tip=%d known=%d unmined=%d leases=%d", i, w.last, w.tip, len(w.L.Txs), len(w.L.UnminedHashes()), len(w.L.Leases))
		x.after = op.K
		x.last = i == len(p.Ops)-1
		x.check()
		if env.Failed() {
			return
		}
		env.State("%s:%d:%x", op.K, w.tip, w.L.Digest())
	}
	env.Step(len(p.Ops))
	if p.Prop == "C02" {
		x.pathIndependence(&params)
	}
}

func describeOp(o wire.OutPoint) string { return fmt.Sprintf("%s:%d", o.Hash.String()[:10], o.Index) }
