package ledgersim

import (
	"time"

	"github.com/btcsuite/btcd/wire"

	"verifsim/core"
	"verifsim/models/ledger"
)

// gen chooses operations. It runs the world MODEL only (never the store), so
// that most generated operations are valid for the state they will meet; the
// choice of every argument comes from the single run PRNG.
type gen struct {
	r    *core.Rand
	w    *world
	c    *config
	prop string
}

func (sim) Generate(prop, tier string, seed uint64) *core.Plan {
	r := core.NewRand(seed)
	c0 := swarm(r, prop, tier)
	p := &core.Plan{Cfg: c0.toMap()}
	c := readCfg(p) // exactly what Execute will see
	u := buildUniverse(seed, c)
	w := newWorld(seed, c, u)
	g := &gen{r: r, w: w, c: c, prop: prop}
	for len(p.Ops) < c0.nops {
		for _, op := range g.next() {
			if prop == "C10" && enumerable[op.K] && (tier == "thorough" || r.Chance(1, 4)) {
				// C10: this operation instance is selected for fault enumeration
				op.S = []string{"enum"}
			}
			w.apply(op)
			p.Ops = append(p.Ops, op)
		}
	}
	return p
}

// enumerable: the kinds that mutate the store through a database transaction.
var enumerable = map[string]bool{"mem": true, "mine": true, "rollback": true, "reconnect": true, "redeliver": true,
	"rbf": true, "abandon": true, "lock": true, "unlock": true, "sweep": true}

func (g *gen) next() []core.Op {
	ws := make([]int, len(opKinds))
	for i, k := range opKinds {
		ws[i] = g.c.w[k]
	}
	// nothing known yet: start by making something known
	if len(g.w.L.Txs) == 0 {
		if g.r.Chance(1, 2) {
			return []core.Op{g.genMem()}
		}
		return []core.Op{g.genMine()}
	}
	switch opKinds[g.r.Weighted(ws)] {
	case "mem":
		return []core.Op{g.genMem()}
	case "mine":
		return []core.Op{g.genMine()}
	case "rollback":
		ops := []core.Op{g.genRollback()}
		return ops
	case "reconnect":
		return []core.Op{{K: "reconnect", A: []int64{int64(g.r.Intn(2))}}}
	case "redeliver":
		return []core.Op{g.genRedeliver()}
	case "rbf":
		return []core.Op{g.genRBF()}
	case "abandon":
		return []core.Op{g.genAbandon()}
	case "lock":
		return []core.Op{g.genLock()}
	case "unlock":
		return []core.Op{g.genUnlock()}
	case "sweep":
		return []core.Op{{K: "sweep"}}
	case "listlocks":
		return []core.Op{{K: "listlocks"}}
	case "clock":
		return []core.Op{g.genClock()}
	case "reopen":
		return []core.Op{{K: "reopen"}}
	case "range":
		return []core.Op{g.genRange()}
	case "dsort":
		return []core.Op{{K: "dsort", A: []int64{int64(g.r.Intn(len(dsortShapes))), int64(g.r.Range(0, 40)), int64(g.r.Intn(1 << 20))}}}
	}
	return []core.Op{g.genMem()}
}

func (g *gen) anyTx() int64 { return int64(g.r.Intn(len(g.w.u.txs))) }

func (g *gen) genMem() core.Op {
	v := g.w.L.View()
	var elig []int
	for _, t := range g.w.u.txs {
		if g.w.canEnterMempool(v, t) {
			elig = append(elig, t.idx)
		}
	}
	if len(elig) > 0 && g.r.Chance(88, 100) {
		return core.Op{K: "mem", A: []int64{int64(elig[g.r.Intn(len(elig))])}}
	}
	return core.Op{K: "mem", A: []int64{g.anyTx()}}
}

func (g *gen) genMine() core.Op {
	w := g.w
	h := w.tip + 1
	trial := w.L.Clone()
	a := []int64{int64(g.r.Intn(2)), 0}
	if len(w.u.coinbases) > 0 && g.r.Chance(35, 100) {
		var free []int
		for pos, ci := range w.u.coinbases {
			if !w.usedCB[ci] && trial.Txs[w.u.txs[ci].hash] == nil {
				free = append(free, pos)
			}
		}
		if len(free) > 0 {
			pos := free[g.r.Intn(len(free))]
			cb := w.u.txs[w.u.coinbases[pos]]
			a[1] = int64(pos + 1)
			trial.Confirm(cb.msg, cb.credits, ledger.Block{Height: h})
		}
	}
	k := g.r.Weighted([]int{10, 24, 24, 16, 10, 9, 7})
	pool := g.r.Perm(len(w.u.txs))
	n := 0
	for pass := 0; pass < 3 && n < k; pass++ {
		for _, i := range pool {
			if n >= k {
				break
			}
			t := w.u.txs[i]
			if t.coinbase || !w.canMine(trial, t, h, false) {
				continue
			}
			pct := 35
			if trial.Txs[t.hash] != nil {
				pct = 75
			}
			if !g.r.Chance(pct, 100) {
				continue
			}
			trial.Confirm(t.msg, t.credits, ledger.Block{Height: h})
			a = append(a, int64(i))
			n++
		}
	}
	if g.r.Chance(1, 10) {
		a = append(a, g.anyTx())
	}
	return core.Op{K: "mine", A: a}
}

func (g *gen) genRollback() core.Op {
	w := g.w
	span := int(w.tip) - w.c().base + 3
	if span < 3 {
		span = 3
	}
	var d int
	switch g.r.Weighted([]int{8, 32, 38, 10, 12}) {
	case 0:
		d = g.r.Intn(2) // above the highest block: nothing to disconnect
	case 1:
		d = 2 // the tip block
	case 2:
		d = 1 + g.r.Range(1, g.c.reorgDepth)
	case 3:
		d = span + g.r.Intn(5) // below the lowest block of the run
	default:
		d = g.r.Range(2, span)
	}
	return core.Op{K: "rollback", A: []int64{int64(d), int64(g.r.Intn(2))}}
}

func (w *world) c() *config { return w.cfg }

func (g *gen) genRedeliver() core.Op {
	w := g.w
	var known []int
	for _, t := range w.u.txs {
		if w.known(t) != nil {
			known = append(known, t.idx)
		}
	}
	idx := g.anyTx()
	if len(known) > 0 {
		idx = int64(known[g.r.Intn(len(known))])
	}
	return core.Op{K: "redeliver", A: []int64{idx, int64(g.r.Intn(2))}}
}

func (g *gen) genRBF() core.Op {
	w := g.w
	v := w.L.View()
	var ok []int
	for _, t := range w.u.txs {
		if _, good := w.rbfPlan(v, t); good {
			ok = append(ok, t.idx)
		}
	}
	idx := g.anyTx()
	if len(ok) > 0 {
		idx = int64(ok[g.r.Intn(len(ok))])
	}
	return core.Op{K: "rbf", A: []int64{idx, int64(g.r.Intn(2))}}
}

func (g *gen) genAbandon() core.Op {
	w := g.w
	v := w.L.View()
	un := w.unminedIdx()
	if len(un) == 0 {
		return core.Op{K: "abandon", A: []int64{g.anyTx()}}
	}
	var withKids []int
	for _, i := range un {
		if len(v.Children(w.u.txs[i].hash)) > 0 {
			withKids = append(withKids, i)
		}
	}
	if len(withKids) > 0 && g.r.Chance(1, 2) {
		return core.Op{K: "abandon", A: []int64{int64(withKids[g.r.Intn(len(withKids))])}}
	}
	return core.Op{K: "abandon", A: []int64{int64(un[g.r.Intn(len(un))])}}
}

// pickOutpoint returns (tx selector, output selector) for a lease operation.
func (g *gen) pickOutpoint() (int64, int64) {
	w := g.w
	v := w.L.View()
	n := len(w.u.txs)
	type sel struct{ t, o int64 }
	var good, goodUnspent, minedSpent, unknownCred, leased []sel
	for _, t := range w.u.txs {
		for _, ci := range t.creditIx {
			op := wire.OutPoint{Hash: t.hash, Index: ci}
			s := sel{int64(t.idx), int64(ci)}
			switch w.L.OutputKnowledge(op) {
			case ledger.OutputKnown:
				good = append(good, s)
				if !v.Spent(op) {
					goodUnspent = append(goodUnspent, s)
				}
			case ledger.OutputUnstated:
				minedSpent = append(minedSpent, s)
			default:
				unknownCred = append(unknownCred, s)
			}
			if _, ok := w.L.Leases[op]; ok {
				leased = append(leased, s)
			}
		}
	}
	pick := func(l []sel) (int64, int64, bool) {
		if len(l) == 0 {
			return 0, 0, false
		}
		s := l[g.r.Intn(len(l))]
		return s.t, s.o, true
	}
	for tries := 0; tries < 4; tries++ {
		var a, b int64
		ok := false
		switch g.r.Weighted([]int{40, 22, 6, 8, 8, 5, 11}) {
		case 0:
			a, b, ok = pick(goodUnspent)
		case 1:
			a, b, ok = pick(good)
		case 2:
			a, b, ok = pick(minedSpent)
		case 3:
			a, b, ok = pick(unknownCred)
		case 4: // an output that is not a credit, or does not exist
			t := w.u.txs[g.r.Intn(n)]
			for oi := range t.msg.TxOut {
				if _, c := t.credits[uint32(oi)]; !c {
					a, b, ok = int64(t.idx), int64(oi), true
				}
			}
			if !ok || g.r.Chance(1, 3) {
				a, b, ok = int64(t.idx), int64(len(t.msg.TxOut)), true
			}
		case 5:
			a, b, ok = int64(n), int64(g.r.Intn(12)), true
		default:
			a, b, ok = pick(leased)
		}
		if ok {
			return a, b
		}
	}
	return g.anyTx(), int64(g.r.Intn(3))
}

var leaseDurations = []int64{0, 1, 2, 3, 5, 10, 60, 600, 3600, 86400}

func (g *gen) genLock() core.Op {
	a, b := g.pickOutpoint()
	d := leaseDurations[g.r.Weighted([]int{3, 12, 12, 8, 10, 15, 15, 10, 10, 5})]
	return core.Op{K: "lock", A: []int64{int64(g.r.Intn(g.c.nids)), a, b, d, int64(g.r.Intn(1000))}}
}

func (g *gen) genUnlock() core.Op {
	w := g.w
	lives := w.liveLeases()
	if len(lives) > 0 && g.r.Chance(75, 100) {
		op := lives[g.r.Intn(len(lives))]
		le := w.L.Leases[op]
		id := int64(le.ID[0]) - 1
		if g.r.Chance(35, 100) {
			id = int64(g.r.Intn(g.c.nids))
		}
		return core.Op{K: "unlock", A: []int64{id, int64(w.u.byHash[op.Hash]), int64(op.Index)}}
	}
	a, b := g.pickOutpoint()
	return core.Op{K: "unlock", A: []int64{int64(g.r.Intn(g.c.nids)), a, b}}
}

func (g *gen) genClock() core.Op {
	w := g.w
	ms := int64(0)
	if g.c.subsec && g.r.Chance(2, 3) {
		ms = int64(g.r.Intn(1000))
	}
	lives := w.liveLeases()
	if len(lives) > 0 && g.r.Chance(80, 100) {
		// relative to a live expiry: 1 s, d-1, d, d+1, random
		le := w.L.Leases[lives[g.r.Intn(len(lives))]]
		rem := int64(le.Expiry.Sub(w.now) / time.Second)
		var s int64
		switch g.r.Weighted([]int{15, 22, 30, 18, 15}) {
		case 0:
			s = 1
		case 1:
			s = rem - 1
		case 2:
			s = rem
		case 3:
			s = rem + 1
		default:
			s = int64(g.r.Range(1, int(2*rem+2)))
		}
		if s < 1 {
			s = 1
		}
		if s > 200000 {
			s = 200000
		}
		return core.Op{K: "clock", A: []int64{s, ms}}
	}
	s := []int64{1, int64(g.r.Range(1, 120)), 3600, 100000}[g.r.Weighted([]int{30, 50, 10, 10})]
	return core.Op{K: "clock", A: []int64{s, ms}}
}

func (g *gen) genRange() core.Op {
	end := func() int64 {
		if g.r.Chance(28, 100) {
			return 0 // -1: include the unconfirmed transactions
		}
		return int64(g.r.Range(1, 40))
	}
	stop := int64(g.r.Weighted([]int{58, 20, 13, 9}))
	return core.Op{K: "range", A: []int64{end(), end(), stop}}
}
