package ledgersim

import "verifsim/core"

// config is the per-run swarm configuration. It is drawn from the run PRNG in
// Generate, recorded in Plan.Cfg and read back from there in Execute.
type config struct {
	ntx         int // universe size (6..40)
	nscripts    int // wallet scripts (2..6)
	maturity    int // coinbase maturity of the run
	reorgDepth  int // bound on ordinary reorg depth
	base        int // chain tip before the first block of the run
	nids        int // lease identifiers (2..3)
	subsec      bool
	recvSkew    bool // received times are not the insertion clock: block header times, peers' clocks (± 2 h)
	cbForeign   bool // universe may contain a spender of a coinbase's NON-wallet output
	conflictPct int  // chance that a spend input reuses an already spent credit
	nops        int
	w           map[string]int // op-kind weights
}

var opKinds = []string{"mem", "mine", "rollback", "reconnect", "redeliver", "rbf", "abandon",
	"lock", "unlock", "sweep", "listlocks", "clock", "reopen", "range", "dsort"}

func (c *config) toMap() map[string]int64 {
	m := map[string]int64{
		"ntx": int64(c.ntx), "nscripts": int64(c.nscripts), "maturity": int64(c.maturity),
		"reorgdepth": int64(c.reorgDepth), "base": int64(c.base), "nids": int64(c.nids),
		"subsec": b2i(c.subsec), "recvskew": b2i(c.recvSkew), "cbforeign": b2i(c.cbForeign), "conflictpct": int64(c.conflictPct),
	}
	for _, k := range opKinds {
		m["w."+k] = int64(c.w[k])
	}
	return m
}

func b2i(b bool) int64 {
	if b {
		return 1
	}
	return 0
}

func clampInt(v int64, lo, hi int) int {
	if v < int64(lo) {
		return lo
	}
	if v > int64(hi) {
		return hi
	}
	return int(v)
}

func readCfg(p *core.Plan) *config {
	c := &config{
		ntx:         clampInt(p.C("ntx", 12), 1, 64),
		nscripts:    clampInt(p.C("nscripts", 3), 1, 8),
		maturity:    clampInt(p.C("maturity", 3), 1, 1000),
		reorgDepth:  clampInt(p.C("reorgdepth", 3), 1, 100),
		base:        clampInt(p.C("base", 100), 0, 30000),
		nids:        clampInt(p.C("nids", 2), 1, 8),
		subsec:      p.C("subsec", 0) != 0,
		recvSkew:    p.C("recvskew", 0) != 0,
		cbForeign:   p.C("cbforeign", 0) != 0,
		conflictPct: clampInt(p.C("conflictpct", 20), 0, 100),
		w:           map[string]int{},
	}
	for _, k := range opKinds {
		c.w[k] = clampInt(p.C("w."+k, 0), 0, 1000)
	}
	return c
}

// swarm draws the configuration of one run.
func swarm(r *core.Rand, prop, tier string) *config {
	c := &config{w: map[string]int{}}
	c.ntx = r.Range(6, 40)
	if r.Chance(1, 3) {
		c.ntx = r.Range(6, 14)
	}
	c.nscripts = r.Range(2, 6)
	c.maturity = []int{1, 2, 3, 5, 100}[r.Weighted([]int{22, 26, 26, 18, 8})]
	c.reorgDepth = r.Range(1, 6)
	c.base = []int{0, 1, 7, 100, 20000}[r.Intn(5)]
	c.nids = r.Range(2, 3)
	c.conflictPct = []int{0, 10, 25, 45}[r.Weighted([]int{10, 40, 35, 15})]
	// A spender of a coinbase's NON-wallet output (the shape of the C02 finding
	// rollback:coinbase-dependant-via-non-wallet-output-kept, fixed in /repo
	// 000a2b8) is part of one universe in six.
	c.cbForeign = r.Chance(1, 6)
	c.nops = r.Range(10, 50)
	c.recvSkew = r.Chance(1, 2)
	if tier == "thorough" && prop != "C10" && r.Chance(1, 4) {
		c.nops = r.Range(70, 200)
	}

	// swarm testing: every run gets its own mix; some kinds are switched off
	pick := func(lo, hi, offPct int) int {
		if r.Chance(offPct, 100) {
			return 0
		}
		return r.Range(lo, hi)
	}
	c.w["mem"] = r.Range(10, 30)
	c.w["mine"] = r.Range(8, 25)
	c.w["rollback"] = pick(3, 14, 10)
	c.w["reconnect"] = pick(1, 6, 40)
	c.w["redeliver"] = pick(2, 12, 15)
	c.w["rbf"] = pick(2, 8, 25)
	c.w["abandon"] = pick(1, 6, 25)
	c.w["lock"] = pick(2, 8, 30)
	c.w["unlock"] = pick(1, 4, 40)
	c.w["sweep"] = pick(1, 3, 50)
	c.w["listlocks"] = 0
	c.w["clock"] = pick(1, 6, 30)
	c.w["reopen"] = pick(1, 3, 40)
	c.w["range"] = 0
	c.w["dsort"] = 0
	switch prop {
	case "C12":
		c.w["lock"] = r.Range(12, 30)
		c.w["unlock"] = r.Range(4, 12)
		c.w["sweep"] = r.Range(2, 6)
		c.w["listlocks"] = r.Range(1, 4)
		c.w["clock"] = r.Range(8, 20)
		c.w["reopen"] = r.Range(1, 4)
		c.subsec = r.Chance(1, 8)
	case "C13":
		c.w["range"] = r.Range(4, 14)
	case "C14":
		c.w["dsort"] = r.Range(6, 20)
		c.w["lock"], c.w["unlock"], c.w["sweep"], c.w["clock"] = 0, 0, 0, 0
		// keep much in the mempool: mine less
		c.w["mem"] = r.Range(20, 40)
		c.w["mine"] = r.Range(3, 12)
	}
	return c
}
