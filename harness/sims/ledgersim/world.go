package ledgersim

import (
	"fmt"
	"sort"
	"time"

	"github.com/btcsuite/btcd/chaincfg/chainhash"
	"github.com/btcsuite/btcd/wire"

	"verifsim/core"
	"verifsim/models/ledger"
)

// driver is the real store as the world drives it. In Generate there is no
// driver (nil): only the model moves.
type driver interface {
	deliver(txs []*utx, blk *ledger.Block, atomic bool) error
	rollback(heights []int32) error
	abandon(t *utx) error
	rbf(evict []*utx, nw *utx, insertFirst bool) error
	lock(id ledger.LockID, op wire.OutPoint, d time.Duration) (time.Time, string, error)
	unlock(id ledger.LockID, op wire.OutPoint) (string, error)
	sweep() error
	reopen() error
	sleep(d time.Duration)
}

type orphanBlock struct {
	blk ledger.Block
	txs []int
}

// world is the simulated node plus the reference ledger: what the node has
// announced so far (chain tip, blocks, which universe transactions are known
// and where). The same code runs in Generate (model only, to choose
// operations that are valid for the current state) and in Execute (model +
// real store through the driver). An operation whose precondition does not
// hold against the model state is skipped.
type world struct {
	cfg  *config
	seed uint64
	u    *universe
	L    *ledger.Ledger
	tip  int32
	now  time.Time

	blkCtr     uint64
	blockTxs   map[chainhash.Hash][]int // in-block order of every block mined in this run
	lastBlk    map[int]chainhash.Hash   // block a tx was last confirmed in
	usedCB     map[int]bool             // coinbases that have been mined once
	orphans    map[int32]orphanBlock    // blocks of the last disconnection, by height
	everLeased map[wire.OutPoint]bool
	// viaNonWallet: transactions that disappeared (model) because they depend
	// on a disconnected coinbase only through a non-wallet output of it.
	viaNonWallet []chainhash.Hash

	env  *core.Env
	drv  driver
	prop string
	// last is a short description of what the last operation did (event log).
	last string
	// opDesc names the operation being applied (available before it ends).
	opDesc string
	// touched: hashes of the transactions the current operation concerns
	// (C10 asks for their details after every failed attempt); removedDesc:
	// the operation removed a transaction together with descendants.
	touched     []chainhash.Hash
	removedDesc bool
}

var epoch = time.Date(2000, 1, 1, 0, 0, 0, 0, time.UTC)

func newWorld(seed uint64, c *config, u *universe) *world {
	return &world{
		cfg: c, seed: seed, u: u, L: ledger.New(int32(c.maturity)), tip: int32(c.base), now: epoch,
		blockTxs: map[chainhash.Hash][]int{}, lastBlk: map[int]chainhash.Hash{},
		usedCB: map[int]bool{}, orphans: map[int32]orphanBlock{}, everLeased: map[wire.OutPoint]bool{},
	}
}

func (w *world) count(name string) {
	if w.env != nil {
		w.env.Count(name)
	}
}

func (w *world) probe(name string) { w.count("probe." + name) }

func (w *world) touch(hs ...chainhash.Hash) {
	for _, h := range hs {
		dup := false
		for _, o := range w.touched {
			dup = dup || o == h
		}
		if !dup && len(w.touched) < 12 {
			w.touched = append(w.touched, h)
		}
	}
}

func (w *world) fail(prop, sig, format string, a ...any) {
	if w.env != nil && w.prop == prop {
		w.env.Fail(prop, sig, format, a...)
	}
}

// storeErr reports an error the store returned for an operation that is valid
// for the current state (no fault is injected in this simulation).
func (w *world) storeErr(call string, err error) {
	if err != nil && w.env != nil {
		w.env.Fail(w.prop, "store-error:"+call, "%s returned an error on a chain-consistent history: %v", call, err)
	}
}

func mod(v int64, n int) int {
	if n <= 0 {
		return 0
	}
	m := int(v % int64(n))
	if m < 0 {
		m += n
	}
	return m
}

func (w *world) tx(a int64) *utx { return w.u.txs[mod(a, len(w.u.txs))] }

func (w *world) known(t *utx) *ledger.Tx { return w.L.Txs[t.hash] }

func (w *world) newBlock(height int32) ledger.Block {
	w.blkCtr++
	return ledger.Block{
		Hash:   derivedHash("block", w.seed, w.blkCtr),
		Height: height,
		Time:   time.Unix(946684800+600*int64(w.blkCtr), 0),
	}
}

// ---- chain-consistency preconditions (what a validating node would accept)

// parentsOK: every universe parent is known; a coinbase parent is confirmed
// and mature for a spender included at height h; with needMined every parent
// must be confirmed (spender goes into a block).
func (w *world) parentsOK(L *ledger.Ledger, t *utx, h int32, needMined bool) bool {
	for _, pi := range t.parents {
		p := w.u.txs[pi]
		lp := L.Txs[p.hash]
		if lp == nil {
			return false
		}
		if needMined && lp.Block == nil {
			return false
		}
		if p.coinbase && (lp.Block == nil || lp.Block.Height+L.Maturity > h) {
			return false
		}
	}
	return true
}

// canEnterMempool: unknown, not a coinbase, inputs available and unspent by
// anything the node knows (a node never holds two conflicting transactions).
func (w *world) canEnterMempool(v *ledger.View, t *utx) bool {
	if t.coinbase || v.Known(t.hash) {
		return false
	}
	return w.parentsOK(v.Ledger, t, w.tip+1, false) && len(v.Conflicts(t.msg)) == 0
}

// canMine: t may be included next in a block at height h given ledger L (which
// already reflects the earlier transactions of that block).
func (w *world) canMine(L *ledger.Ledger, t *utx, h int32, coinbaseAllowed bool) bool {
	lt := L.Txs[t.hash]
	if lt != nil && lt.Block != nil {
		return false
	}
	if t.coinbase {
		return coinbaseAllowed && lt == nil
	}
	if !w.parentsOK(L, t, h, true) {
		return false
	}
	// no CONFIRMED transaction may spend one of its inputs (a boolean over
	// the set: the iteration order is irrelevant)
	for _, lt := range L.Txs {
		if lt.Block == nil || lt.Hash == t.hash {
			continue
		}
		for _, in := range lt.Msg.TxIn {
			for _, tin := range t.msg.TxIn {
				if in.PreviousOutPoint == tin.PreviousOutPoint {
					return false
				}
			}
		}
	}
	return true
}

// rbfPlan: t is unknown, its conflicts are all unconfirmed (at least one), its
// parents are known and none of them would be evicted with the conflicts.
func (w *world) rbfPlan(v *ledger.View, t *utx) ([]*ledger.Tx, bool) {
	if t.coinbase || v.Known(t.hash) || !w.parentsOK(v.Ledger, t, w.tip+1, false) {
		return nil, false
	}
	cs := v.Conflicts(t.msg)
	if len(cs) == 0 {
		return nil, false
	}
	var roots []chainhash.Hash
	for _, c := range cs {
		if c.Block != nil {
			return nil, false
		}
		roots = append(roots, c.Hash)
	}
	gone := map[chainhash.Hash]bool{}
	for _, h := range roots {
		gone[h] = true
	}
	for _, h := range v.Descendants(roots, nil) {
		gone[h] = true
	}
	for _, pi := range t.parents {
		if gone[w.u.txs[pi].hash] {
			return nil, false
		}
	}
	return cs, true
}

// ---- outpoints for lease operations

// outpoint maps (tx selector, output selector) to an outpoint: a universe
// output (credited or not), a non-existent output index of a universe tx, or
// (tx selector == universe size) an outpoint of a hash nobody knows.
func (w *world) outpoint(a, b int64) wire.OutPoint {
	n := len(w.u.txs)
	ti := mod(a, n+1)
	if ti == n {
		return wire.OutPoint{Hash: derivedHash("nowhere", w.seed, uint64(mod(b, 4))), Index: uint32(mod(b, 3))}
	}
	t := w.u.txs[ti]
	return wire.OutPoint{Hash: t.hash, Index: uint32(mod(b, len(t.msg.TxOut)+1))}
}

func lockID(a int64, nids int) ledger.LockID {
	var id ledger.LockID
	id[0] = byte(1 + mod(a, nids))
	id[31] = 0x5a
	return id
}

// ambiguous: sub-second runs only. The store keeps whole seconds, the
// statement speaks of the expiry instant; inside [floor(expiry), expiry) the
// model asserts nothing that depends on that lease.
func (w *world) ambiguous(op wire.OutPoint) bool {
	le, ok := w.L.Leases[op]
	if !ok {
		return false
	}
	fl := time.Unix(le.Expiry.Unix(), 0)
	return !w.now.Before(fl) && w.now.Before(le.Expiry)
}

func (w *world) anyAmbiguous() bool {
	if !w.cfg.subsec {
		return false
	}
	for _, op := range w.L.LeasedOutpoints() {
		if w.ambiguous(op) {
			return true
		}
	}
	return false
}

// ---- operations

// apply executes one operation against the model and (if there is a driver)
// the real store. It returns false when the operation was skipped because its
// precondition does not hold.
func (w *world) apply(op core.Op) bool {
	w.last = ""
	w.opDesc = fmt.Sprintf("%s%v", op.K, op.A)
	w.touched, w.removedDesc = w.touched[:0], false
	switch op.K {
	case "mem":
		return w.opMem(op)
	case "mine":
		return w.opMine(op)
	case "rollback":
		return w.opRollback(op)
	case "reconnect":
		return w.opReconnect(op)
	case "redeliver":
		return w.opRedeliver(op)
	case "rbf":
		return w.opRBF(op)
	case "abandon":
		return w.opAbandon(op)
	case "lock":
		return w.opLock(op)
	case "unlock":
		return w.opUnlock(op)
	case "sweep":
		return w.opSweep(op)
	case "clock":
		return w.opClock(op)
	case "reopen":
		if w.drv != nil {
			w.storeErr("reopen", w.drv.reopen())
		}
		w.last = "reopen"
		return true
	}
	return false
}

func (w *world) opMem(op core.Op) bool {
	t := w.tx(op.Arg(0))
	v := w.L.View()
	w.touch(t.hash)
	if lt := w.known(t); lt != nil {
		// repeated announcement of something already known
		if lt.Block != nil {
			w.probe("reannounce-unmined-while-mined")
		} else {
			w.probe("reannounce-unmined-while-unmined")
		}
		if w.drv != nil {
			w.storeErr("InsertTx(unmined,duplicate)", w.drv.deliver([]*utx{t}, nil, true))
		}
		w.last = fmt.Sprintf("mem dup tx%d", t.idx)
		return true
	}
	if !w.canEnterMempool(v, t) {
		return false
	}
	w.L.InsertUnmined(t.msg, t.credits)
	if w.drv != nil {
		w.storeErr("InsertTx(unmined)", w.drv.deliver([]*utx{t}, nil, true))
	}
	w.last = fmt.Sprintf("mem tx%d", t.idx)
	return true
}

func hashSet(hs []chainhash.Hash) map[chainhash.Hash]bool {
	m := map[chainhash.Hash]bool{}
	for _, h := range hs {
		m[h] = true
	}
	return m
}

// removalProbes counts the C02 reach counters that concern a set of
// transactions that just disappeared.
func (w *world) removalProbes(removed []chainhash.Hash) {
	if len(removed) == 0 {
		return
	}
	set := hashSet(removed)
	for _, h := range removed {
		if i, ok := w.u.byHash[h]; ok && w.u.txs[i].hasDupParentIn(set) {
			w.probe("child-spends-two-outputs-of-removed-parent")
			break
		}
	}
}

// confirmOne applies one confirmation to the model and counts what it reached.
func (w *world) confirmOne(t *utx, blk ledger.Block) {
	v := w.L.View()
	lt := w.known(t)
	for _, in := range t.msg.TxIn {
		if w.L.Leased(in.PreviousOutPoint, w.now) {
			w.probe("spender-confirmed-while-input-leased")
			break
		}
	}
	if lt != nil && lt.Block == nil {
		for _, ci := range t.creditIx {
			if w.L.Leased(wire.OutPoint{Hash: t.hash, Index: ci}, w.now) {
				w.probe("lease-on-unmined-then-confirms")
				break
			}
		}
	}
	w.touch(t.hash)
	for _, c := range v.Conflicts(t.msg) {
		if c.Block == nil && v.DescendantDepth(c.Hash) >= 1 {
			w.removedDesc = true
		}
		if c.Block == nil && v.DescendantDepth(c.Hash) >= 2 {
			w.probe("conflict-removal-2-levels")
		}
	}
	if old, ok := w.lastBlk[t.idx]; ok && old != blk.Hash {
		w.probe("reconnect-in-different-block")
	}
	res := w.L.Confirm(t.msg, t.credits, blk)
	w.touch(res.Removed...)
	if len(res.Removed) > 0 {
		w.probe("conflict-removed-on-confirm")
		if len(w.L.UnminedHashes()) > 0 {
			w.probe("unrelated-unmined-stays")
		}
	}
	if len(res.LeasesCleared) > 0 {
		w.probe("lease-cleared-by-confirmed-spend")
	}
	w.removalProbes(res.Removed)
}

func (w *world) recordBlock(blk ledger.Block, accepted []*utx) {
	// "reconnect child before an unrelated tx of the old block": a tx is
	// confirmed again while a tx that shared its old block stays behind
	in := map[int]bool{}
	for _, t := range accepted {
		in[t.idx] = true
	}
	for _, t := range accepted {
		old, ok := w.lastBlk[t.idx]
		if !ok || old == blk.Hash {
			continue
		}
		for _, mate := range w.blockTxs[old] {
			mt := w.u.txs[mate]
			if !in[mate] && w.known(mt) != nil && w.known(mt).Block == nil {
				w.probe("reconnect-without-old-block-mate")
				break
			}
		}
	}
	ids := make([]int, 0, len(accepted))
	for _, t := range accepted {
		ids = append(ids, t.idx)
		w.lastBlk[t.idx] = blk.Hash
	}
	w.blockTxs[blk.Hash] = ids
}

func (w *world) opMine(op core.Op) bool {
	h := w.tip + 1
	blk := w.newBlock(h)
	atomic := op.Arg(0)%2 == 0
	var accepted []*utx
	if k := op.Arg(1); k > 0 && len(w.u.coinbases) > 0 {
		cb := w.u.txs[w.u.coinbases[mod(k-1, len(w.u.coinbases))]]
		if !w.usedCB[cb.idx] && w.canMine(w.L, cb, h, true) {
			w.usedCB[cb.idx] = true
			w.confirmOne(cb, blk)
			accepted = append(accepted, cb)
		}
	}
	for i := 2; i < len(op.A); i++ {
		t := w.tx(op.A[i])
		if t.coinbase || !w.canMine(w.L, t, h, false) {
			continue
		}
		w.confirmOne(t, blk)
		accepted = append(accepted, t)
	}
	w.tip = h
	w.orphans = map[int32]orphanBlock{} // a different block now sits on this height
	w.recordBlock(blk, accepted)
	if len(accepted) == 0 {
		w.count("block.empty")
	}
	if w.drv != nil && len(accepted) > 0 {
		w.storeErr("InsertTx(mined)", w.drv.deliver(accepted, &blk, atomic))
	}
	w.last = fmt.Sprintf("mine h=%d txs=%v", h, idxs(accepted))
	return true
}

func idxs(ts []*utx) []int {
	out := make([]int, 0, len(ts))
	for _, t := range ts {
		out = append(out, t.idx)
	}
	return out
}

func (w *world) opRollback(op core.Op) bool {
	d := op.Arg(0)
	if d < 0 {
		d = 0
	}
	if d > 40000 {
		d = 40000
	}
	h := int64(w.tip) + 2 - d
	if h < 1 {
		h = 1
	}
	height := int32(h)
	v := w.L.View()

	// reach counters, evaluated on the state before the disconnection
	lowest, highest, any := int32(0), int32(0), false
	atH, above := false, false
	for _, th := range w.L.SortedHashes() {
		t := w.L.Txs[th]
		if t.Block == nil {
			continue
		}
		if !any || t.Block.Height < lowest {
			lowest = t.Block.Height
		}
		if !any || t.Block.Height > highest {
			highest = t.Block.Height
		}
		any = true
		if t.Block.Height == height {
			atH = true
		}
		if t.Block.Height > height {
			above = true
		}
		if t.Block.Height < height {
			continue
		}
		w.touch(th)
		for _, ci := range t.CreditIndexes() {
			for _, s := range v.Spenders(wire.OutPoint{Hash: th, Index: ci}) {
				if s.Block != nil {
					w.probe("credit-and-spender-rolled-back-together")
					if ledger.IsCoinbase(t.Msg) {
						w.probe("coinbase-credit-spent-then-both-rolled-back")
					}
					if s.Block.Hash == t.Block.Hash {
						w.probe("credit-and-spender-same-block-rolled-back")
					}
				} else if ledger.IsCoinbase(t.Msg) {
					w.probe("coinbase-rolled-back-with-unmined-spender")
				}
			}
		}
	}
	switch {
	case height > w.tip:
		w.probe("rollback-above-highest")
	case any && height <= lowest:
		w.probe("rollback-below-lowest")
	}
	if height <= w.tip && !atH && above {
		w.probe("rollback-inside-empty-heights")
	}

	var heights []int32
	if op.Arg(1)%2 == 1 && height <= w.tip && w.tip-height < 40 {
		// as wallet.disconnectBlock does: one Rollback per disconnected block, tip first
		for x := w.tip; x >= height; x-- {
			heights = append(heights, x)
		}
	} else {
		heights = []int32{height}
	}

	res := w.L.Disconnect(height)
	if height <= w.tip {
		w.orphans = map[int32]orphanBlock{}
	}
	for _, b := range res.Blocks {
		w.orphans[b.Height] = orphanBlock{blk: b, txs: w.blockTxs[b.Hash]}
	}
	if len(res.Removed) > 0 {
		w.probe("coinbase-removed-on-rollback")
		if len(res.Removed) > 1 {
			w.probe("coinbase-dependants-removed-on-rollback")
		}
	}
	w.removalProbes(res.Removed)
	if len(res.ViaNonWallet) > 0 {
		w.probe("coinbase-dependant-via-non-wallet-output")
		w.viaNonWallet = append(w.viaNonWallet, res.ViaNonWallet...)
	}
	if height <= w.tip {
		w.tip = height - 1
	}
	if w.drv != nil {
		w.storeErr("Rollback", w.drv.rollback(heights))
	}
	w.last = fmt.Sprintf("rollback to=%d calls=%d unmined=%d removed=%d", height, len(heights), len(res.Unmined), len(res.Removed))
	return true
}

// opReconnect connects the block of the last disconnection that belongs at
// tip+1 again, unchanged (same hash, same transactions, same order).
func (w *world) opReconnect(op core.Op) bool {
	h := w.tip + 1
	o, ok := w.orphans[h]
	if !ok {
		return false
	}
	trial := w.L.Clone()
	var txs []*utx
	for i, ti := range o.txs {
		t := w.u.txs[ti]
		if !w.canMine(trial, t, h, i == 0) {
			return false
		}
		trial.Confirm(t.msg, t.credits, o.blk)
		txs = append(txs, t)
	}
	for _, t := range txs {
		w.confirmOne(t, o.blk)
	}
	w.tip = h
	delete(w.orphans, h)
	w.probe("reconnect-same-block")
	if w.drv != nil && len(txs) > 0 {
		w.storeErr("InsertTx(mined,reconnect)", w.drv.deliver(txs, &o.blk, op.Arg(0)%2 == 0))
	}
	w.last = fmt.Sprintf("reconnect h=%d txs=%v", h, idxs(txs))
	return true
}

func (w *world) opRedeliver(op core.Op) bool {
	t := w.tx(op.Arg(0))
	lt := w.known(t)
	if lt == nil {
		return false
	}
	w.touch(t.hash)
	var blk *ledger.Block
	if op.Arg(1)%2 == 1 && lt.Block != nil {
		b := *lt.Block
		blk = &b
		w.probe("redeliver-mined-same-block")
	} else if lt.Block != nil {
		w.probe("reannounce-unmined-while-mined")
	} else {
		w.probe("reannounce-unmined-while-unmined")
	}
	if w.drv != nil {
		w.storeErr("InsertTx(duplicate)", w.drv.deliver([]*utx{t}, blk, true))
	}
	w.last = fmt.Sprintf("redeliver tx%d mined=%v", t.idx, blk != nil)
	return true
}

func (w *world) opRBF(op core.Op) bool {
	t := w.tx(op.Arg(0))
	cs, ok := w.rbfPlan(w.L.View(), t)
	if !ok {
		return false
	}
	insertFirst := op.Arg(1)%2 == 1
	var evict []*utx
	var removed []chainhash.Hash
	if insertFirst {
		w.L.InsertUnmined(t.msg, t.credits)
	}
	for _, c := range cs {
		if w.L.Txs[c.Hash] == nil {
			continue // already gone as a descendant of an earlier conflict
		}
		evict = append(evict, w.u.txs[w.u.byHash[c.Hash]])
		removed = append(removed, w.L.RemoveUnmined(c.Hash)...)
	}
	if !insertFirst {
		w.L.InsertUnmined(t.msg, t.credits)
	}
	w.touch(t.hash)
	w.touch(removed...)
	if len(removed) > len(evict) {
		w.probe("rbf-evicts-descendants")
		w.removedDesc = true
	}
	w.removalProbes(removed)
	if w.drv != nil {
		w.storeErr("RemoveUnminedTx+InsertTx(rbf)", w.drv.rbf(evict, t, insertFirst))
	}
	w.last = fmt.Sprintf("rbf tx%d evicts %v (+%d)", t.idx, idxs(evict), len(removed)-len(evict))
	return true
}

func (w *world) opAbandon(op core.Op) bool {
	t := w.tx(op.Arg(0))
	lt := w.known(t)
	if lt == nil || lt.Block != nil {
		return false
	}
	removed := w.L.RemoveUnmined(t.hash)
	w.touch(removed...)
	if len(removed) > 1 {
		w.removedDesc = true
		w.probe("abandon-with-descendants")
	} else {
		w.probe("abandon-without-descendants")
	}
	w.removalProbes(removed)
	if w.drv != nil {
		w.storeErr("RemoveUnminedTx", w.drv.abandon(t))
	}
	w.last = fmt.Sprintf("abandon tx%d removed=%d", t.idx, len(removed))
	return true
}

func (w *world) leaseDuration(op core.Op, si, mi int) time.Duration {
	s := op.Arg(si)
	if s < 0 {
		s = 0
	}
	if s > 1<<20 {
		s = 1 << 20
	}
	d := time.Duration(s) * time.Second
	if w.cfg.subsec {
		d += time.Duration(mod(op.Arg(mi), 1000)) * time.Millisecond
	}
	return d
}

func (w *world) opLock(op core.Op) bool {
	id := lockID(op.Arg(0), w.cfg.nids)
	o := w.outpoint(op.Arg(1), op.Arg(2))
	d := w.leaseDuration(op, 3, 4)
	w.touch(o.Hash)
	if w.cfg.subsec && w.ambiguous(o) {
		return false
	}
	know := w.L.OutputKnowledge(o)
	prev, hadPrev := w.L.Leases[o]
	liveBefore := w.L.Leased(o, w.now)

	if w.drv == nil {
		w.L.Lock(id, o, d, w.now, false)
		return true
	}
	gotExp, got, err := w.drv.lock(id, o, d)
	if err != nil {
		w.storeErr("LockOutput", err)
		return true
	}
	wantExp, want := w.L.Lock(id, o, d, w.now, got == ledger.LeaseOK)
	switch {
	case know == ledger.OutputUnstated:
		// the statement does not say whether an output with a confirmed
		// spender is "known"; the model followed the store (either answer)
		w.probe("lock-output-with-confirmed-spender")
		if got != ledger.LeaseOK && got != ledger.LeaseUnknown {
			w.fail("C12", "lease:lock:want=nil-or-ErrUnknownOutput:got="+core.SigSafe(got), "LockOutput(%v) on an output with a confirmed spender returned %s", o, got)
		}
	case want != got:
		w.fail("C12", fmt.Sprintf("lease:lock:want=%s:got=%s", want, core.SigSafe(got)),
			"LockOutput(id=%d, %v, %v) at %v: store says %s, the lease model says %s (knowledge=%d, live lease before=%v by id=%d until %v)",
			id[0], o, d, w.now.UTC(), got, want, know, liveBefore, prev.ID[0], prev.Expiry.UTC())
		// keep model and store in step for the properties that are not about leases
		if hadPrev {
			w.L.Leases[o] = prev
		} else {
			delete(w.L.Leases, o)
		}
		if got == ledger.LeaseOK {
			w.L.Leases[o] = ledger.Lease{ID: id, Expiry: w.now.Add(d)}
		}
	case want == ledger.LeaseOK && !gotExp.Equal(wantExp):
		w.fail("C12", "lease:lock:expiry-returned", "LockOutput(%v, %v) at %v returned expiry %v, want now+d = %v", o, d, w.now.UTC(), gotExp.UTC(), wantExp.UTC())
	}
	switch got {
	case ledger.LeaseOK:
		w.everLeased[o] = true
		switch {
		case liveBefore && prev.ID == id:
			w.probe("lease-extended-by-same-id")
		case hadPrev && !liveBefore && prev.ID != id:
			w.probe("lease-taken-over-after-expiry")
		}
		if t, ok := w.L.Credit(o); ok && t.Block == nil {
			w.probe("lease-on-unmined-credit")
		}
	case ledger.LeaseAlready:
		w.probe("lease-refused-other-id")
	case ledger.LeaseUnknown:
		w.probe("lease-unknown-output")
	}
	w.last = fmt.Sprintf("lock id=%d %s:%d d=%v -> %s", id[0], o.Hash.String()[:8], o.Index, d, got)
	return true
}

func (w *world) opUnlock(op core.Op) bool {
	id := lockID(op.Arg(0), w.cfg.nids)
	o := w.outpoint(op.Arg(1), op.Arg(2))
	w.touch(o.Hash)
	if w.cfg.subsec && w.ambiguous(o) {
		return false
	}
	know := w.L.OutputKnowledge(o)
	prev, hadPrev := w.L.Leases[o]
	liveBefore := w.L.Leased(o, w.now)
	if w.drv == nil {
		w.L.Unlock(id, o, w.now, false)
		return true
	}
	got, err := w.drv.unlock(id, o)
	if err != nil {
		w.storeErr("UnlockOutput", err)
		return true
	}
	want := w.L.Unlock(id, o, w.now, got == ledger.LeaseOK)
	switch {
	case know == ledger.OutputUnstated:
		if got != ledger.LeaseOK && got != ledger.LeaseUnknown {
			w.fail("C12", "lease:unlock:want=nil-or-ErrUnknownOutput:got="+core.SigSafe(got), "UnlockOutput(%v) on an output with a confirmed spender returned %s", o, got)
		}
	case want != got:
		w.fail("C12", fmt.Sprintf("lease:unlock:want=%s:got=%s", want, core.SigSafe(got)),
			"UnlockOutput(id=%d, %v) at %v: store says %s, the lease model says %s (live lease before=%v by id=%d until %v)",
			id[0], o, w.now.UTC(), got, want, liveBefore, prev.ID[0], prev.Expiry.UTC())
		if hadPrev {
			w.L.Leases[o] = prev
		}
		if got == ledger.LeaseOK && liveBefore {
			delete(w.L.Leases, o)
		}
	}
	switch {
	case got == ledger.LeaseNotAllowed:
		w.probe("release-refused-other-id")
	case got == ledger.LeaseOK && liveBefore:
		w.probe("lease-released")
	case got == ledger.LeaseOK && hadPrev:
		w.probe("release-of-expired-lease")
	}
	w.last = fmt.Sprintf("unlock id=%d %s:%d -> %s", id[0], o.Hash.String()[:8], o.Index, got)
	return true
}

func (w *world) opSweep(op core.Op) bool {
	if w.anyAmbiguous() {
		return false
	}
	exp, live := w.L.Sweep(w.now)
	if exp > 0 && live > 0 {
		w.probe("sweep-mixed-expired-live")
	}
	if w.drv != nil {
		w.storeErr("DeleteExpiredLockedOutputs", w.drv.sweep())
	}
	w.last = fmt.Sprintf("sweep expired=%d live=%d", exp, live)
	return true
}

func (w *world) opClock(op core.Op) bool {
	s := op.Arg(0)
	if s < 0 {
		s = 0
	}
	if s > 1<<22 {
		s = 1 << 22
	}
	d := time.Duration(s) * time.Second
	if w.cfg.subsec {
		d += time.Duration(mod(op.Arg(1), 1000)) * time.Millisecond
	}
	if d <= 0 {
		return false
	}
	if w.drv != nil {
		w.drv.sleep(d)
		w.now = time.Now()
	} else {
		w.now = w.now.Add(d)
	}
	w.last = fmt.Sprintf("clock +%v", d)
	return true
}

// liveLeases returns the outpoints with a live lease, canonical order.
func (w *world) liveLeases() []wire.OutPoint {
	var out []wire.OutPoint
	for _, op := range w.L.LeasedOutpoints() {
		if w.L.Leased(op, w.now) {
			out = append(out, op)
		}
	}
	return out
}

// unminedIdx returns the universe indexes of the unconfirmed known txs.
func (w *world) unminedIdx() []int {
	var out []int
	for _, h := range w.L.UnminedHashes() {
		out = append(out, w.u.byHash[h])
	}
	sort.Ints(out)
	return out
}
