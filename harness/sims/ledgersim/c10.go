package ledgersim

import (
	"errors"
	"fmt"
	"sort"
	"strings"

	"github.com/btcsuite/btcd/chaincfg/chainhash"
	"github.com/btcsuite/btcwallet/walletdb"
	"github.com/btcsuite/btcwallet/wtxmgr"

	"verifsim/models/dbmodel"
	"verifsim/models/ledger"
)

// C10 — fault enumeration. The host workload is the ordinary history (C01
// mix). Every database transaction of an operation selected in the Plan
// (Op.S[0] == "enum") is executed as follows, all from the same pre-state:
//
//	k = 1, 2, 3, ...  faultdb.Arm(k): the k-th mutating database call fails.
//	                  The transaction function is run exactly as the normal
//	                  path runs it. During the enumeration the harness never
//	                  lets the transaction commit (it returns the store's
//	                  error, or a sentinel when the store returned nil), so
//	                  every k starts from the same state and an attempt that
//	                  SWALLOWED the fault can be looked at: its in-transaction
//	                  dump is kept.
//	  fault fired   - after the rollback the recursive dump of the wtxmgr
//	                  namespace must equal the pre-state dump
//	                  (rollback-leak) and Balance / UnspentOutputs /
//	                  UnminedTxHashes / ListLockedOutputs / TxDetails of the
//	                  touched transactions must answer as before through the
//	                  SAME Store object (state-changed-after-failed);
//	  not fired     - k = n+1: this is the fault-free attempt; its
//	                  in-transaction dump is "the full effect of X".
//	then            a swallowed fault (store returned nil although a write
//	                  failed) is a violation unless its dump equals the full
//	                  effect (fault-swallowed); "either reports an error or
//	                  its full effect is applied";
//	position n+1    commit failure (faultdb.FailCommit): error, dump and
//	                  queries unchanged;
//	finally         the real retry: must succeed (or fail) like the fault-free
//	                  attempt and commit exactly the full effect
//	                  (retry-differs); the normal C01/C13 oracles then compare
//	                  the post-state with the model.
//
// Operations made of several database transactions (a block delivered one
// notification per transaction, a disconnection done block by block) are
// enumerated per database transaction.
const capN = 400

var errEnumRollback = errors.New("ledgersim: enumeration attempt, never committed")

type enumerator struct {
	x      *oracle
	active bool   // the current operation is selected for enumeration
	kind   string // its kind
	sync   int32  // sync height for the balance queries (tip before the operation)
	// per operation results, read by Execute for the probes
	instances int
	maxN      int
	addCredit bool
}

type swallowedAttempt struct {
	k    int
	dump *dbmodel.Bucket
}

func dumpNS(b walletdb.ReadBucket) (*dbmodel.Bucket, string) { return dbmodel.DumpBucket(b) }

// observe takes the dump and the query answers through the Store object.
func (e *enumerator) observe(r *realStore) (*dbmodel.Bucket, map[string]string, error) {
	var dump *dbmodel.Bucket
	q := map[string]string{}
	w := e.x.w
	err := r.view(func(ns walletdb.ReadBucket) error {
		var prob string
		dump, prob = dumpNS(ns)
		if prob != "" {
			return errors.New("dump: " + prob)
		}
		m := w.L.Maturity
		var sb strings.Builder
		for _, mc := range []int32{0, 1, m} {
			b, err := r.s.Balance(ns, mc, e.sync)
			if err != nil {
				return err
			}
			fmt.Fprintf(&sb, "%d:%d ", mc, b)
		}
		q["Balance"] = sb.String()
		us, err := r.s.UnspentOutputs(ns)
		if err != nil {
			return err
		}
		var lines []string
		for _, c := range us {
			lines = append(lines, fmt.Sprintf("%v/%d/%d/%v/%v", c.OutPoint, c.Amount, c.Height, c.Block.Hash, c.FromCoinBase))
		}
		sort.Strings(lines)
		q["UnspentOutputs"] = strings.Join(lines, "\n")
		hs, err := r.s.UnminedTxHashes(ns)
		if err != nil {
			return err
		}
		lines = lines[:0]
		for _, h := range hs {
			lines = append(lines, h.String())
		}
		sort.Strings(lines)
		q["UnminedTxHashes"] = strings.Join(lines, "\n")
		ls, err := r.s.ListLockedOutputs(ns)
		if err != nil {
			return err
		}
		lines = lines[:0]
		for _, l := range ls {
			lines = append(lines, fmt.Sprintf("%v/%d/%d", l.Outpoint, l.LockID[0], l.Expiration.Unix()))
		}
		sort.Strings(lines)
		q["ListLockedOutputs"] = strings.Join(lines, "\n")
		sb.Reset()
		for _, h := range w.touched {
			d, err := r.s.TxDetails(ns, &h)
			if err != nil {
				return err
			}
			if d == nil {
				fmt.Fprintf(&sb, "%v nil\n", h)
				continue
			}
			cr := append([]wtxmgr.CreditRecord{}, d.Credits...)
			sort.Slice(cr, func(i, j int) bool { return cr[i].Index < cr[j].Index })
			db := append([]wtxmgr.DebitRecord{}, d.Debits...)
			sort.Slice(db, func(i, j int) bool { return db[i].Index < db[j].Index })
			fmt.Fprintf(&sb, "%v h=%d %v %v %v\n", h, d.Block.Height, d.Block.Hash, cr, db)
		}
		q["TxDetails"] = sb.String()
		return nil
	})
	return dump, q, err
}

var queryOrder = []string{"Balance", "UnspentOutputs", "UnminedTxHashes", "ListLockedOutputs", "TxDetails"}

// unchanged checks, after a failed (rolled back) attempt, that the database
// and the answers of the Store object are what they were before.
func (e *enumerator) unchanged(r *realStore, pre *dbmodel.Bucket, preQ map[string]string, what string) bool {
	x := e.x
	dump, q, err := e.observe(r)
	if err != nil {
		x.failf("state-changed-after-failed:op="+e.kind+":query=error", "after the failed attempt (%s) of %s a query fails: %v", what, x.w.opDesc, err)
		return false
	}
	if d := dbmodel.Diff(pre, dump); d != "" {
		x.failf("rollback-leak:op="+e.kind, "after the failed attempt (%s) of %s the database differs from the pre-state:\n%s", what, x.w.opDesc, d)
		return false
	}
	for _, name := range queryOrder {
		if q[name] != preQ[name] {
			x.failf("state-changed-after-failed:op="+e.kind+":query="+name, "after the failed attempt (%s) of %s, %s answers\n%s\nbefore the operation it answered\n%s", what, x.w.opDesc, name, q[name], preQ[name])
			return false
		}
	}
	return true
}

func nBucket(n int) string {
	switch {
	case n == 0:
		return "n=0"
	case n <= 4:
		return "n<=4"
	case n <= 16:
		return "n<=16"
	case n <= 64:
		return "n<=64"
	}
	return "n>64"
}

// run executes one database transaction of the selected operation under the
// enumeration protocol and returns what the final (real) attempt returned.
func (e *enumerator) run(r *realStore, f func(ns walletdb.ReadWriteBucket) error) error {
	x := e.x
	env := x.env
	plain := func() error {
		return walletdb.Update(r.db, func(tx walletdb.ReadWriteTx) error { return f(tx.ReadWriteBucket(nsKey)) })
	}
	if env.Failed() {
		return plain()
	}
	pre, preQ, err := e.observe(r)
	if err != nil {
		x.failf("store-error:observe", "cannot observe the pre-state: %v", err)
		return plain()
	}
	n, capped := 0, false
	var swallowed []swallowedAttempt
	var full *dbmodel.Bucket
	var fullErr error
	for k := 1; ; k++ {
		if k > capN {
			capped = true
			break
		}
		r.db.Arm(k)
		var xerr error
		var post *dbmodel.Bucket
		fired := false
		uerr := walletdb.Update(r.db, func(tx walletdb.ReadWriteTx) error {
			ns := tx.ReadWriteBucket(nsKey)
			xerr = f(ns)
			fired = r.db.Fired > 0
			if xerr != nil {
				return xerr
			}
			post, _ = dumpNS(ns)
			return errEnumRollback
		})
		r.db.Reset()
		if uerr == nil {
			x.failf("harness:enumeration-committed", "an enumeration attempt committed")
			return nil
		}
		if !fired {
			full, fullErr = post, xerr // position n+1: the fault-free attempt
			break
		}
		n = k
		env.Count("fault.dbwrite")
		if xerr == nil {
			swallowed = append(swallowed, swallowedAttempt{k, post})
		}
		if !e.unchanged(r, pre, preQ, fmt.Sprintf("write %d failed", k)) {
			return plain()
		}
	}
	if capped {
		env.Count("enum.capped")
		// the fault-free reference still has to be taken
		r.db.Reset()
		_ = walletdb.Update(r.db, func(tx walletdb.ReadWriteTx) error {
			ns := tx.ReadWriteBucket(nsKey)
			if fullErr = f(ns); fullErr != nil {
				return fullErr
			}
			full, _ = dumpNS(ns)
			return errEnumRollback
		})
		r.db.Reset()
	}

	// "either reports an error or its full effect is applied"
	for _, s := range swallowed {
		d := "the fault-free attempt returns an error: " + fmt.Sprint(fullErr)
		if full != nil {
			d = dbmodel.Diff(full, s.dump)
		}
		if d != "" {
			x.failf("fault-swallowed:op="+e.kind, "%s: write %d of %d failed (injected) but the store reported success; the transaction would commit a partial effect. Difference to the full effect (want = fault-free attempt, got = this attempt):\n%s", x.w.opDesc, s.k, n, d)
			return plain()
		}
		env.Count("enum.swallowed-without-effect")
	}

	// position n+1: the commit fails
	r.db.FailCommit = true
	cerr := plain()
	commitFault := r.db.Fired > 0
	r.db.Reset()
	if commitFault {
		env.Count("fault.commit")
		x.w.probe("commit-failure")
		if cerr == nil {
			x.failf("fault-swallowed:op="+e.kind+":commit", "%s: the commit failed but Update returned nil", x.w.opDesc)
			return nil
		}
		if !e.unchanged(r, pre, preQ, "commit failed") {
			return plain()
		}
	}

	// the retry
	ferr := plain()
	if (ferr == nil) != (fullErr == nil) {
		x.failf("retry-differs:op="+e.kind+":result", "%s: after %d failed attempts the retry returned %v; the fault-free attempt from the same state returned %v", x.w.opDesc, n, ferr, fullErr)
		return ferr
	}
	if ferr == nil && full != nil {
		var got *dbmodel.Bucket
		_ = r.view(func(ns walletdb.ReadBucket) error { got, _ = dumpNS(ns); return nil })
		if d := dbmodel.Diff(full, got); d != "" {
			x.failf("retry-differs:op="+e.kind+":database", "%s: after %d failed attempts the retry committed a different database than the fault-free attempt from the same state:\n%s", x.w.opDesc, n, d)
			return ferr
		}
	}

	env.Count("enum.ops")
	env.Add("enum.k_positions", int64(n))
	env.Count("enum.op." + e.kind)
	env.Count("enum." + nBucket(n) + "." + e.kind)
	e.instances++
	if n > e.maxN {
		e.maxN = n
	}
	return ferr
}

// ---- the C10 oracle after every operation: post-state == model prediction

func (x *oracle) checkC10(ns walletdb.ReadBucket, v *ledger.View) {
	x.checkC01(ns, v)
	if x.env.Failed() {
		return
	}
	w := x.w
	hs, err := x.st.s.UnminedTxHashes(ns)
	if x.qerr("UnminedTxHashes", err) {
		return
	}
	got := map[chainhash.Hash]bool{}
	for _, h := range hs {
		got[*h] = true
	}
	want := w.L.UnminedHashes()
	ok := len(hs) == len(want)
	for _, h := range want {
		ok = ok && got[h]
	}
	if !ok {
		x.failf("unmined-set", "UnminedTxHashes lists %d transactions, the ledger %d (after %s)\n%s", len(hs), len(want), w.last, x.describe(v))
		return
	}
	for _, t := range w.u.txs {
		d, err := x.st.s.TxDetails(ns, &t.hash)
		if x.qerr("TxDetails", err) {
			return
		}
		if !x.detailsVerdict("details", t, d, v.Details(t.hash), v) {
			return
		}
	}
}
