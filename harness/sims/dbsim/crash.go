package dbsim

import (
	"errors"
	"fmt"
	"os"
	"path/filepath"
	"time"

	"github.com/btcsuite/btcwallet/walletdb"
	bolt "go.etcd.io/bbolt"

	"verifsim/core"
	"verifsim/models/dbmodel"
)

// The disk as a power loss sees it. The private copy of bbolt routes every
// file write, sync and truncation of the database through hooks (tools/
// instrument: zz_verif_disk.go); shadowDisk keeps
//
//	durable   the file as of the last completed sync
//	pending   the writes issued since, in order
//
// A crash point is the k-th write-or-sync event of a commit. When it is
// reached the crash image is built — durable plus a seeded subset of the
// pending writes, each kept whole, dropped, or torn after a whole number of
// 512-byte sectors — and every further write or sync of that commit fails
// (the process is dying), so the commit is reported as failed and rolled back
// in the running process. The image is what the next start would find: it
// must open, and hold either the state before the transaction or the state
// after it ("makes all of its changes visible together ... after the file is
// reopened"; an unacknowledged commit may be lost, never half applied), and
// every commit acknowledged earlier.
//
// This is the one place where faults are injected BELOW walletdb: what it
// exercises in the repository is the way walletdb/bdb opens and drives bbolt
// (sync options, growth); what it exercises in bbolt is the assumption every
// other simulation's crash model rests on.

var errPowerLoss = errors.New("dbsim: power loss (injected)")

type diskWrite struct {
	off  int64
	data []byte
}

type shadowDisk struct {
	durable []byte
	pending []diskWrite
	size    int64 // pending size (truncate)
	events  int
	crashAt int // 0: not armed
	rnd     *core.Rand
	dying   bool
	image   []byte // crash image, once taken
	metaIn  bool   // a meta page (page 0 or 1) was among the pending writes at the crash
	syncs   int
}

func (s *shadowDisk) reset(file string) {
	b, _ := os.ReadFile(file)
	*s = shadowDisk{durable: b, size: int64(len(b))}
}

func (s *shadowDisk) apply(img []byte, w diskWrite, n int) []byte {
	end := w.off + int64(n)
	for int64(len(img)) < end {
		img = append(img, make([]byte, end-int64(len(img)))...)
	}
	copy(img[w.off:end], w.data[:n])
	return img
}

func (s *shadowDisk) event() error {
	if s.dying {
		return errPowerLoss
	}
	if s.crashAt == 0 {
		return nil
	}
	s.events++
	if s.events < s.crashAt {
		return nil
	}
	// power loss now
	img := append([]byte(nil), s.durable...)
	if int64(len(img)) < s.size {
		img = append(img, make([]byte, s.size-int64(len(img)))...)
	}
	for _, w := range s.pending {
		if w.off < 2*4096 {
			s.metaIn = true
		}
		switch s.rnd.Intn(4) {
		case 0: // lost
		case 1: // torn after a whole number of sectors
			sectors := len(w.data) / 512
			if sectors > 1 {
				img = s.apply(img, w, 512*s.rnd.Range(1, sectors-1))
			}
		default: // reached the disk
			img = s.apply(img, w, len(w.data))
		}
	}
	s.image = img
	s.dying = true
	return errPowerLoss
}

func (s *shadowDisk) hooks() *bolt.VerifDiskHooks {
	return &bolt.VerifDiskHooks{
		WriteAt: func(b []byte, off int64) error {
			if err := s.event(); err != nil {
				return err
			}
			s.pending = append(s.pending, diskWrite{off, append([]byte(nil), b...)})
			return nil
		},
		Sync: func() error {
			if err := s.event(); err != nil {
				return err
			}
			s.syncs++
			if int64(len(s.durable)) < s.size {
				s.durable = append(s.durable, make([]byte, s.size-int64(len(s.durable)))...)
			}
			for _, w := range s.pending {
				s.durable = s.apply(s.durable, w, len(w.data))
			}
			s.pending = nil
			return nil
		},
		Truncate: func(size int64) {
			if size > s.size {
				s.size = size
			}
		},
	}
}

// crashKeys are the pairs crash transaction seq writes (and the keys of the
// previous one it deletes), some of them large enough to need overflow pages.
func crashKeys(seq, n, vsize int64) [][2]string {
	var out [][2]string
	for j := int64(0); j < n; j++ {
		sz := int(vsize)
		if j%3 == 1 {
			sz = int(vsize) * 40 // several pages
		}
		v := make([]byte, sz)
		for i := range v {
			v[i] = byte(seq*31 + j*7 + int64(i))
		}
		out = append(out, [2]string{fmt.Sprintf("c%d-%d", seq, j), string(v)})
	}
	return out
}

const crashBucket = "crashtx"

func applyCrashTx(m *dbmodel.Bucket, seq, n, vsize, prev int64) {
	b, _ := m.CreateBucketIfNotExists(crashBucket)
	if prev > 0 {
		// half of the previous transaction's keys go, so that pages are
		// freed and reused
		for j, kv := range crashKeys(prev, n, vsize) {
			if j%2 == 0 {
				b.Delete(kv[0])
			}
		}
	}
	for _, kv := range crashKeys(seq, n, vsize) {
		b.Put(kv[0], []byte(kv[1]))
	}
}

// crashTx: one managed update, with power loss at its k-th disk event.
func (x *exec) crashTx(o core.Op) {
	env := x.env
	k, n, vsize, seq := o.Arg(0), o.Arg(1), o.Arg(2), o.Arg(3)
	prev := x.lastCrashSeq // the last crash transaction that committed
	if n < 1 {
		n = 1
	}
	if n > 40 {
		n = 40
	}
	if vsize < 1 {
		vsize = 1
	}
	if vsize > 400 {
		vsize = 400
	}
	if x.shadow == nil {
		return
	}
	env.Count("op.crash-tx")
	env.Eff()
	pre := x.committed
	post := x.committed.Clone()
	applyCrashTx(post, seq, n, vsize, prev)
	s := x.shadow
	s.events, s.crashAt, s.dying, s.image, s.metaIn = 0, int(k), false, nil, false
	s.rnd = core.NewRand(core.Mix(x.p.Seed, uint64(seq), 0xd15c))
	err := walletdb.Update(x.db.Inner, func(tx walletdb.ReadWriteTx) error {
		b := tx.ReadWriteBucket([]byte(crashBucket))
		if b == nil {
			var e error
			if b, e = tx.CreateTopLevelBucket([]byte(crashBucket)); e != nil {
				return e
			}
		}
		if prev > 0 {
			for j, kv := range crashKeys(prev, n, vsize) {
				if j%2 == 0 {
					if e := b.Delete([]byte(kv[0])); e != nil {
						return e
					}
				}
			}
		}
		for _, kv := range crashKeys(seq, n, vsize) {
			if e := b.Put([]byte(kv[0]), []byte(kv[1])); e != nil {
				return e
			}
		}
		return nil
	})
	crashed := s.image != nil
	img, metaIn := s.image, s.metaIn
	s.crashAt, s.dying, s.image = 0, false, nil
	if !crashed {
		if err != nil {
			x.fail("crash-tx:commit-failed", "an update without any fault failed: %v", err)
			return
		}
		x.committed = post
		x.lastCrashSeq = seq
		env.Count("probe.crash-point-beyond-commit")
		x.verifyCommitted("crash-tx:commit-lost")
		return
	}
	env.Count("fault.power-loss-during-commit")
	if metaIn {
		env.Count("probe.power-loss-with-meta-page-in-flight")
	}
	_ = err // what Update reports to a process that is losing power is of no consequence
	// The process is gone. The next start finds the crash image: the run
	// continues on it.
	_ = x.db.Close()
	x.db = nil
	if err := os.WriteFile(x.file, img, 0o600); err != nil {
		env.Infra("write crash image: %v", err)
		return
	}
	if !x.checkImage(img, []*dbmodel.Bucket{pre, post}, "during-commit") {
		return
	}
	if !x.open(false) {
		x.fail("crash-image:unopenable:restart", "the database file cannot be opened after the power loss")
		return
	}
	var got *dbmodel.Bucket
	_ = walletdb.View(x.db, func(tx walletdb.ReadTx) error {
		got, _ = dump(tx)
		return nil
	})
	if got != nil && dbmodel.Diff(post, got) == "" {
		x.committed = post
		x.lastCrashSeq = seq
		env.Count("probe.power-loss-kept-the-commit")
	} else {
		env.Count("probe.power-loss-dropped-the-commit")
	}
	x.verifyCommitted("crash-tx:restart-state")
}

// checkImage opens a disk image as the next start would and compares its
// content with the allowed states.
func (x *exec) checkImage(img []byte, allowed []*dbmodel.Bucket, when string) bool {
	x.images++
	path := filepath.Join(x.env.Dir, fmt.Sprintf("crash%d.db", x.images%2))
	if err := os.WriteFile(path, img, 0o600); err != nil {
		x.env.Infra("write crash image: %v", err)
		return false
	}
	db, err := walletdb.Open("bdb", path, true, 10*time.Second, false)
	if err != nil {
		x.fail("crash-image:unopenable:"+when, "the file a power loss leaves behind (%d bytes) cannot be opened: %v", len(img), err)
		return false
	}
	defer db.Close()
	var got *dbmodel.Bucket
	var prob string
	err = walletdb.View(db, func(tx walletdb.ReadTx) error {
		got, prob = dump(tx)
		return nil
	})
	if err != nil || prob != "" {
		x.fail("crash-image:unreadable:"+when, "the file a power loss leaves behind cannot be read: %v %s", err, prob)
		return false
	}
	var diffs []string
	for _, a := range allowed {
		d := dbmodel.Diff(a, got)
		if d == "" {
			// still usable
			err := walletdb.Update(db, func(tx walletdb.ReadWriteTx) error {
				b := tx.ReadWriteBucket([]byte("after-crash"))
				if b == nil {
					var e error
					if b, e = tx.CreateTopLevelBucket([]byte("after-crash")); e != nil {
						return e
					}
				}
				return b.Put([]byte("k"), []byte("v"))
			})
			if err != nil {
				x.fail("crash-image:unusable:"+when, "the first update on the file a power loss left behind failed: %v", err)
				return false
			}
			x.env.Count("probe.crash-image-checked")
			return true
		}
		diffs = append(diffs, d)
	}
	sig := "crash-image:neither-old-nor-new:" + when
	if len(allowed) == 1 {
		sig = "crash-image:acknowledged-commit-not-durable:" + when
	}
	x.fail(sig, "the file a power loss leaves behind holds a state that is none of the %d allowed ones: %v", len(allowed), diffs)
	return false
}

// durabilityCheck: a power loss right now, with nothing in flight, must
// preserve every acknowledged commit.
func (x *exec) durabilityCheck(when string) {
	if x.shadow == nil || x.env.Failed() {
		return
	}
	s := x.shadow
	img := append([]byte(nil), s.durable...)
	// what is pending now was never synced: a power loss may drop all of it
	x.checkImage(img, []*dbmodel.Bucket{x.committed}, when)
}
