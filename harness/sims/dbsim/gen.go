package dbsim

import (
	"encoding/hex"
	"fmt"
	"os"

	"verifsim/core"
	"verifsim/models/dbmodel"
)

// Transaction header arguments (op K:"tx", A:[api, outcome, k, flags]).
const (
	apiUpdate  = 0 // walletdb.Update (managed)
	apiManual  = 1 // db.BeginReadWriteTx + Commit / Rollback
	apiView    = 2 // walletdb.View (managed, read-only)
	apiReadTx  = 3 // db.BeginReadTx + Rollback
	apiBatch   = 4 // walletdb.Batch on the bdb handle
	numAPIs    = 5
	outCommit  = 0 // function returns nil / Commit
	outError   = 1 // function returns an error / manual Rollback
	outPanic   = 2 // function panics (managed only)
	outCommitF = 3 // injected commit failure (faultdb FailCommit)
	outWriteF  = 4 // injected failure of the k-th mutating call (faultdb Arm)
	numOuts    = 5

	flagReadAcross = 1 // hold a read transaction opened before across this one
)

var opKinds = []string{"put", "del", "get", "mkb", "rmb", "mktop", "rmtop", "nseq", "sseq", "seq",
	"walk", "seek", "foreach", "cdel", "tops", "getnb"}

var readKinds = map[string]bool{"get": true, "seq": true, "walk": true, "seek": true, "foreach": true, "tops": true, "getnb": true}

type poolKey struct {
	enc string
	raw string
}

type gen struct {
	r       *core.Rand
	keys    []poolKey // key universe of the run (shared by all buckets)
	names   []poolKey // bucket-name universe (overlaps keys on purpose)
	encOf   map[string]string
	w       []int // weight per op kind
	longOK  bool
	maxKeys int
}

func (g *gen) addKey(list *[]poolKey, enc string) {
	b, ok := dec(enc)
	if !ok {
		panic("dbsim: bad generated key " + enc)
	}
	raw := string(b)
	if _, dup := g.encOf[raw]; !dup {
		g.encOf[raw] = enc
	}
	for _, k := range *list {
		if k.raw == raw {
			return
		}
	}
	*list = append(*list, poolKey{enc: g.encOf[raw], raw: raw})
}

func (g *gen) buildPools() {
	r := g.r
	g.encOf = map[string]string{}
	specials := []string{"00", "0000", "000000", "ff", "ffff", "ffffff", "61", "6162", "616263", "61626364",
		"00ff", "ff00", "01", "7f", "80", "fe", "6100", "61ff", "20", "2f"}
	nk := r.Range(4, 36)
	for len(g.keys) < nk {
		switch r.Intn(10) {
		case 0, 1, 2, 3:
			g.addKey(&g.keys, specials[r.Intn(len(specials))])
		case 4, 5, 6:
			g.addKey(&g.keys, hex.EncodeToString(r.Bytes(r.Range(1, 6))))
		case 7:
			// extension of an existing key (prefix relation)
			if len(g.keys) > 0 {
				base := g.keys[r.Intn(len(g.keys))]
				if len(base.raw) < 64 {
					g.addKey(&g.keys, base.enc+"+"+hex.EncodeToString(r.Bytes(r.Range(1, 2))))
					continue
				}
			}
			g.addKey(&g.keys, hex.EncodeToString(r.Bytes(2)))
		case 8:
			if g.longOK {
				by := []string{"00", "ff", "61", "7a"}[r.Intn(4)]
				g.addKey(&g.keys, fmt.Sprintf("%s*%d", by, r.Range(100, 2500)))
			} else {
				g.addKey(&g.keys, hex.EncodeToString(r.Bytes(r.Range(8, 40))))
			}
		default:
			if g.longOK && r.Chance(1, 2) {
				g.addKey(&g.keys, fmt.Sprintf("ff*%d+%s", r.Range(100, 600), hex.EncodeToString(r.Bytes(2))))
			} else {
				g.addKey(&g.keys, hex.EncodeToString(r.Bytes(r.Range(1, 3))))
			}
		}
	}
	nn := r.Range(2, 8)
	for len(g.names) < nn {
		if r.Chance(2, 3) {
			k := g.keys[r.Intn(len(g.keys))]
			if len(k.raw) <= 64 {
				g.addKey(&g.names, k.enc)
				continue
			}
		}
		g.addKey(&g.names, hex.EncodeToString([]byte{'b', byte('0' + r.Intn(10))}))
	}
}

func (g *gen) anyKey() poolKey  { return g.keys[g.r.Intn(len(g.keys))] }
func (g *gen) anyName() poolKey { return g.names[g.r.Intn(len(g.names))] }

func (g *gen) enc(raw string) string {
	if e, ok := g.encOf[raw]; ok {
		return e
	}
	return hex.EncodeToString([]byte(raw))
}

func (g *gen) value(total int) string {
	r := g.r
	switch x := r.Intn(20); {
	case x < 3:
		return ""
	case x < 13:
		return hex.EncodeToString(r.Bytes(r.Range(1, 24)))
	case x < 15:
		return fmt.Sprintf("%s*%d", []string{"00", "ff"}[r.Intn(2)], r.Range(1, 40))
	case x < 17:
		return hex.EncodeToString(r.Bytes(r.Range(25, 200)))
	default:
		if g.longOK && total < 48<<10 {
			return fmt.Sprintf("%s*%d+%s", hex.EncodeToString(r.Bytes(1)), r.Range(300, 6000), hex.EncodeToString(r.Bytes(3)))
		}
		return hex.EncodeToString(r.Bytes(r.Range(1, 8)))
	}
}

// bucketPaths lists every bucket path of the tree (depth-first, sorted).
func bucketPaths(root *dbmodel.Bucket) [][]string {
	var out [][]string
	var rec func(b *dbmodel.Bucket, p []string)
	rec = func(b *dbmodel.Bucket, p []string) {
		for _, k := range b.SubKeys() {
			q := append(append([]string{}, p...), k)
			out = append(out, q)
			rec(b.Sub[k], q)
		}
	}
	rec(root, nil)
	return out
}

func (g *gen) encParts(p []string) string {
	e := make([]string, len(p))
	for i, s := range p {
		e[i] = g.enc(s)
	}
	return encPath(e)
}

// pickKey chooses a key for bucket b: existing value key, nested bucket key,
// a pool key (possibly new) or the empty key, by the given percentages.
func (g *gen) pickKey(b *dbmodel.Bucket, pExisting, pSub, pEmpty int) string {
	r := g.r
	x := r.Intn(100)
	switch {
	case x < pExisting:
		if ks := b.ValueKeys(); len(ks) > 0 {
			return ks[r.Intn(len(ks))]
		}
	case x < pExisting+pSub:
		if ks := b.SubKeys(); len(ks) > 0 {
			return ks[r.Intn(len(ks))]
		}
	case x < pExisting+pSub+pEmpty:
		return ""
	}
	return g.anyKey().raw
}

// genOp produces one data operation against the working model and applies it
// to the model. It returns the op and the number of mutating calls it makes.
func (g *gen) genOp(work *dbmodel.Bucket, readOnly bool) (core.Op, int) {
	r := g.r
	paths := bucketPaths(work)
	if len(paths) == 0 && !readOnly {
		n := g.anyName()
		work.CreateBucketIfNotExists(n.raw)
		return core.Op{K: "mktop", S: []string{n.enc}}, 1
	}
	w := append([]int{}, g.w...)
	if readOnly {
		for i, k := range opKinds {
			if !readKinds[k] {
				w[i] = 0
			} else if w[i] == 0 {
				w[i] = 1
			}
		}
	}
	kind := opKinds[r.Weighted(w)]
	var path []string
	var b *dbmodel.Bucket
	if len(paths) > 0 {
		path = paths[r.Intn(len(paths))]
		b = work.Walk(path)
	}
	// now and then address a bucket that does not exist
	if r.Chance(1, 25) || b == nil {
		if kind != "mktop" && kind != "rmtop" && kind != "tops" {
			bogus := append(append([]string{}, path...), g.anyName().raw)
			if len(bogus) > 4 {
				bogus = bogus[:4]
			}
			if work.Walk(bogus) == nil {
				return core.Op{K: kind, S: []string{g.encParts(bogus), g.anyKey().enc, ""}, A: []int64{0, 1, 0, 0}}, 0
			}
			path, b = bogus, work.Walk(bogus)
		}
	}
	ps := g.encParts(path)
	switch kind {
	case "put":
		var k string
		if b.Len() >= g.maxKeys {
			k = g.pickKey(b, 90, 5, 5)
			if _, ok := b.KV[k]; !ok && k != "" {
				if _, isB := b.Sub[k]; !isB {
					if ks := b.ValueKeys(); len(ks) > 0 {
						k = ks[0]
					}
				}
			}
		} else {
			k = g.pickKey(b, 25, 6, 4)
		}
		ke := g.enc(k)
		if r.Chance(1, 150) {
			ke = fmt.Sprintf("00*%d", dbmodel.MaxKeySize+1)
			k = string(make([]byte, dbmodel.MaxKeySize+1))
		}
		v := g.value(work.TotalBytes())
		vb, _ := dec(v)
		b.Put(k, vb)
		return core.Op{K: "put", S: []string{ps, ke, v}, A: []int64{int64(r.Intn(2))}}, 1
	case "del":
		k := g.pickKey(b, 65, 10, 3)
		b.Delete(k)
		return core.Op{K: "del", S: []string{ps, g.enc(k)}}, 1
	case "get":
		k := g.pickKey(b, 65, 10, 3)
		return core.Op{K: "get", S: []string{ps, g.enc(k)}}, 0
	case "getnb":
		k := g.pickKey(b, 20, 50, 5)
		return core.Op{K: "getnb", S: []string{ps, g.enc(k)}}, 0
	case "mkb":
		var k string
		switch x := r.Intn(20); {
		case x < 3:
			k = g.pickKey(b, 0, 100, 0) // existing bucket
		case x < 5:
			k = g.pickKey(b, 100, 0, 0) // existing value
		case x < 6:
			k = ""
		default:
			k = g.anyName().raw
		}
		variant := int64(r.Intn(2))
		if len(path) >= 4 || work.CountBuckets() >= 14 {
			// depth / size bound: only exercise the error paths
			if _, isB := b.Sub[k]; !isB {
				if _, isV := b.KV[k]; !isV {
					k = ""
				}
			}
		}
		if variant == 0 {
			b.CreateBucket(k)
		} else {
			b.CreateBucketIfNotExists(k)
		}
		return core.Op{K: "mkb", S: []string{ps, g.enc(k)}, A: []int64{variant}}, 1
	case "rmb":
		k := g.pickKey(b, 10, 60, 5)
		b.DeleteBucket(k)
		return core.Op{K: "rmb", S: []string{ps, g.enc(k)}}, 1
	case "mktop":
		n := g.anyName()
		k := n.raw
		if r.Chance(1, 12) {
			k = ""
		}
		if work.CountBuckets() >= 14 {
			if _, ok := work.Sub[k]; !ok {
				k = ""
			}
		}
		work.CreateBucketIfNotExists(k)
		return core.Op{K: "mktop", S: []string{g.enc(k)}}, 1
	case "rmtop":
		k := g.anyName().raw
		if ks := work.SubKeys(); len(ks) > 0 && r.Chance(2, 3) {
			k = ks[r.Intn(len(ks))]
		}
		if r.Chance(1, 12) {
			k = ""
		}
		work.DeleteBucket(k)
		return core.Op{K: "rmtop", S: []string{g.enc(k)}}, 1
	case "nseq":
		b.NextSequence()
		return core.Op{K: "nseq", S: []string{ps}}, 1
	case "sseq":
		var v int64
		switch r.Intn(6) {
		case 0:
			v = -1 // max uint64: the next NextSequence wraps
		case 1:
			v = 0
		case 2:
			v = r.Int63()
		default:
			v = int64(r.Intn(1000))
		}
		b.Seq = uint64(v)
		return core.Op{K: "sseq", S: []string{ps}, A: []int64{v}}, 1
	case "seq":
		return core.Op{K: "seq", S: []string{ps}}, 0
	case "walk":
		return core.Op{K: "walk", S: []string{ps}, A: []int64{int64(r.Intn(2)), int64(r.Intn(2))}}, 0
	case "seek":
		var k string
		switch r.Intn(6) {
		case 0:
			k = ""
		case 1:
			k = "\xff\xff\xff\xff\xff"
		case 2, 3:
			k = g.pickKey(b, 60, 40, 0)
		default:
			k = g.anyKey().raw
		}
		ke := g.enc(k)
		if k == "\xff\xff\xff\xff\xff" {
			ke = "ff*5"
		}
		return core.Op{K: "seek", S: []string{ps, ke}, A: []int64{int64(r.Intn(3)), int64(r.Range(0, 12)), int64(r.Intn(1 << 12))}}, 0
	case "foreach":
		return core.Op{K: "foreach", S: []string{ps}}, 0
	case "cdel":
		dir := int64(r.Intn(2))
		stride := int64(r.Range(1, 4))
		off := int64(r.Intn(int(stride)))
		tryB := int64(r.Intn(2))
		// model: delete every value key whose position (among all keys, in
		// iteration order) is ≡ off (mod stride). The executor follows the
		// real cursor; this is only the generator's estimate.
		keys := b.Keys()
		n := 0
		for i := range keys {
			j := i
			if dir == 1 {
				j = len(keys) - 1 - i
			}
			k := keys[j]
			if _, isB := b.Sub[k]; isB {
				if tryB == 1 {
					n++
				}
				continue
			}
			if int64(i)%stride == off {
				delete(b.KV, k)
				n++
			}
		}
		return core.Op{K: "cdel", S: []string{ps}, A: []int64{dir, stride, off, tryB}}, n
	case "tops":
		return core.Op{K: "tops"}, 0
	}
	return core.Op{K: "tops"}, 0
}

// Generate builds one plan: a sequence of transaction groups (header op
// K:"tx" followed by data ops with the same T), reopen ops and read-only
// mutation probes.
func (sim) Generate(prop, tier string, seed uint64) *core.Plan {
	r := core.NewRand(seed)
	g := &gen{r: r}
	p := &core.Plan{Cfg: map[string]int64{}}

	// ---- swarm configuration
	g.longOK = r.Chance(2, 3)
	g.maxKeys = []int{3, 8, 20, 50}[r.Intn(4)]
	g.w = make([]int, len(opKinds))
	base := map[string]int{"put": 10, "del": 5, "get": 5, "mkb": 4, "rmb": 2, "mktop": 2, "rmtop": 1, "nseq": 2, "sseq": 1,
		"seq": 1, "walk": 3, "seek": 3, "foreach": 2, "cdel": 2, "tops": 1, "getnb": 2}
	for i, k := range opKinds {
		if r.Chance(1, 4) {
			g.w[i] = 0
		} else {
			g.w[i] = base[k] * r.Range(1, 4)
		}
		p.Cfg["w."+k] = int64(g.w[i])
	}
	if g.w[0] == 0 && r.Chance(3, 4) {
		g.w[0] = 10
		p.Cfg["w.put"] = 10
	}
	apiW := []int{50, 20, 10, 8, 5}
	for i := 1; i < numAPIs; i++ {
		if r.Chance(1, 4) {
			apiW[i] = 0
		}
	}
	outW := []int{50, 15, 10, 10, 15}
	for i := 1; i < numOuts; i++ {
		if r.Chance(1, 3) {
			outW[i] = 0
		}
	}
	reopenDen := []int{0, 12, 5, 3}[r.Intn(4)]
	acrossDen := []int{0, 8, 3}[r.Intn(3)]
	romutDen := []int{0, 15, 6}[r.Intn(3)]
	nTx := r.Range(2, 40)
	maxOps := r.Range(2, 30)
	p.Cfg["max_keys"] = int64(g.maxKeys)
	p.Cfg["long"] = b2i(g.longOK)
	p.Cfg["n_tx"] = int64(nTx)
	p.Cfg["max_ops"] = int64(maxOps)
	for i, v := range apiW {
		p.Cfg[fmt.Sprintf("api.%d", i)] = int64(v)
	}
	for i, v := range outW {
		p.Cfg[fmt.Sprintf("out.%d", i)] = int64(v)
	}
	g.buildPools()
	if r.Chance(1, 3) {
		p.Cfg["crash"] = 1 // power loss during commits, disk-level (crash.go)
	}

	committed := dbmodel.NewBucket()
	group := 0
	anyAcross := false
	for t := 0; t < nTx; t++ {
		group++
		if reopenDen > 0 && r.Chance(1, reopenDen) {
			p.Ops = append(p.Ops, core.Op{K: "reopen", T: group})
			group++
		}
		if romutDen > 0 && r.Chance(1, romutDen) {
			paths := bucketPaths(committed)
			if len(paths) > 0 {
				path := paths[r.Intn(len(paths))]
				b := committed.Walk(path)
				k := g.pickKey(b, 50, 30, 0)
				p.Ops = append(p.Ops, core.Op{K: "romut", T: group, S: []string{g.encParts(path), g.enc(k)}, A: []int64{int64(r.Intn(2))}})
				group++
			}
		}
		if p.Cfg["crash"] == 1 && r.Chance(1, 4) {
			// power loss at the k-th disk event of a commit
			p.Ops = append(p.Ops, core.Op{K: "crashtx", T: group, A: []int64{int64(r.Range(1, 9)), int64(r.Range(1, 24)), int64(r.Range(8, 300)), int64(group)}})
			group++
			if r.Chance(1, 3) {
				p.Ops = append(p.Ops, core.Op{K: "durable", T: group})
				group++
			}
		}
		if r.Chance(1, 12) {
			// several callers use Batch at the same time: bbolt combines them
			// into one transaction and re-runs the others when one fails
			n := int64(r.Range(2, 4))
			mask := int64(r.Intn(1 << uint(n)))
			if r.Chance(1, 3) {
				mask = 0
			}
			p.Ops = append(p.Ops, core.Op{K: "bgroup", T: group, A: []int64{n, mask, int64(group)}})
			applyBatchGroup(committed, n, mask, int64(group))
			group++
		}
		api := r.Weighted(apiW)
		out := r.Weighted(outW)
		readOnly := api == apiView || api == apiReadTx
		if len(committed.Sub) == 0 {
			// nothing to read yet
			if readOnly {
				api, readOnly = apiUpdate, false
			}
			if t == 0 {
				out = outCommit
			}
		}
		if api == apiBatch && out != outError {
			out = outCommit
		}
		if api == apiManual && out == outPanic {
			out = outError
		}
		if readOnly && out != outPanic {
			out = outCommit
		}
		if api == apiReadTx {
			out = outCommit
		}
		work := committed.Clone()
		n := r.Range(1, maxOps)
		var ops []core.Op
		muts := 0
		for i := 0; i < n; i++ {
			op, m := g.genOp(work, readOnly)
			op.T = group
			ops = append(ops, op)
			muts += m
		}
		var k int64
		if out == outWriteF {
			k = int64(r.Range(1, muts+1))
		}
		var flags int64
		if !readOnly && acrossDen > 0 && r.Chance(1, acrossDen) {
			flags |= flagReadAcross
			anyAcross = true
		}
		p.Ops = append(p.Ops, core.Op{K: "tx", T: group, A: []int64{int64(api), int64(out), k, flags}})
		p.Ops = append(p.Ops, ops...)
		if !readOnly && (out == outCommit || (out == outWriteF && int(k) > muts)) {
			committed = work
		}
	}
	if r.Chance(1, 2) {
		group++
		p.Ops = append(p.Ops, core.Op{K: "reopen", T: group})
	}
	// Two cursor behaviours of the pinned bbolt inside a dirty read-write
	// transaction contradict "keys iterate in ascending byte order in both
	// directions"; they are recorded as known findings. Backward completeness
	// is always asserted (the situation is rare); completeness of an
	// iterate-and-delete walk is asserted in one run in sixteen, because the
	// run stops at the (known) violation and would otherwise lose the coverage
	// of everything after it.
	p.Cfg["strict_bwd"] = 1
	if r.Chance(1, 16) || os.Getenv("VERIF_DBSIM_STRICT") != "" {
		p.Cfg["strict_cdel"] = 1
	}
	if anyAcross {
		// see the comment on pregrow in exec.go
		p.Cfg["pregrow_kb"] = 512
	}
	return p
}

func b2i(b bool) int64 {
	if b {
		return 1
	}
	return 0
}

// bgBucket is the top-level bucket the concurrent Batch callers write to.
const bgBucket = "bgroup"

// batchCallerKeys lists the pairs caller i of batch group seq writes.
func batchCallerKeys(seq int64, i int) [][2]string {
	var out [][2]string
	for j := 0; j < 1+i%3; j++ {
		out = append(out, [2]string{fmt.Sprintf("g%d-c%d-%d", seq, i, j), fmt.Sprintf("v%d.%d.%d", seq, i, j)})
	}
	return out
}

// applyBatchGroup is the statement applied to the model: callers whose
// function returns nil have all of their writes applied, the others none.
func applyBatchGroup(m *dbmodel.Bucket, n, mask, seq int64) {
	for i := 0; i < int(n); i++ {
		if mask&(1<<uint(i)) != 0 {
			continue
		}
		b, _ := m.CreateBucketIfNotExists(bgBucket)
		for _, kv := range batchCallerKeys(seq, i) {
			b.Put(kv[0], []byte(kv[1]))
		}
	}
}
