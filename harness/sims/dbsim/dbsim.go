// Package dbsim decides property C11 ("database transactions are
// all-or-nothing, isolated and ordered"): random programs of transactions
// over the real bdb driver (real bbolt file on tmpfs, behind faultdb) through
// the public walletdb API, compared after every operation with the reference
// model verifsim/models/dbmodel.
//
// Plan layout: a transaction is a header op {K:"tx", T:g, A:[api, outcome,
// k, flags]} plus the data ops carrying the same T. Stand-alone ops: "reopen"
// (close + open the file, compare everything) and "romut" (try every mutator
// through a read-only transaction). A missing header (minimiser) means
// "walletdb.Update, commit". Data ops whose bucket path does not exist in the
// model are skipped after checking that the database also reports nil.
package dbsim

import (
	"fmt"
	"strings"

	"verifsim/core"
)

type sim struct{}

func init() { core.Register(sim{}) }

func (sim) Name() string    { return "dbsim" }
func (sim) Props() []string { return []string{prop} }

func (sim) Level(string) string { return "exploration" }

func (sim) Rule(string) string {
	return "C11 case = one generated program of ≤ 40 transactions × ≤ 30 operations over one bbolt file: per transaction an API " +
		"(walletdb.Update, BeginReadWriteTx+Commit/Rollback, walletdb.View, BeginReadTx, walletdb.Batch), an outcome (return nil, return error, " +
		"panic, injected commit failure, injected failure of the k-th mutating call, manual Rollback) and a mix of Put/Delete/Get, nested bucket " +
		"create/delete (depth ≤ 4), sequences, cursor walks/Seek/ForEach/cursor-Delete; plus close+reopen and read-only-mutation probes between " +
		"transactions; swarm configuration (enabled op kinds, APIs, outcomes, key universe, sizes) drawn per run."
}

func (sim) Components() map[string][]string {
	return map[string][]string{
		"real": {"walletdb (package-level View/Update/Batch, interfaces, error values)", "walletdb/bdb (db, transaction, bucket, cursor adapters, convertErr, driver Create/Open)",
			"go.etcd.io/bbolt on a real file (tmpfs)"},
		"stub":    {"faultdb wrapper between the simulation and bdb (k-th write failure, commit failure); pass-through otherwise"},
		"not_run": {"concurrent readers/writers on several goroutines (single goroutine here; the read-transaction-across-commit check covers snapshot isolation)", "I/O errors below bbolt"},
	}
}

var probes = []string{"panic-then-next-update", "commit-failure", "write-failure-fired", "reopen-with-nested",
	"cursor-delete-during-iteration", "read-tx-across-commit", "seek-past-end", "empty-value", "key-is-prefix-of-other",
	"readonly-mutation-attempts"}

func (sim) Explain(_ string, stats map[string]int64) string {
	var zero []string
	for _, p := range probes {
		if stats["probe."+p] == 0 {
			zero = append(zero, p)
		}
	}
	var errs []string
	for _, k := range core.SortedKeys(stats) {
		if strings.HasPrefix(k, "errval.") {
			errs = append(errs, fmt.Sprintf("%s=%d", strings.TrimPrefix(k, "errval."), stats[k]))
		}
	}
	s := fmt.Sprintf("Each run drives the real bdb/bbolt database and the dbmodel reference in lock step; inside every read-write transaction each "+
		"read is compared with model-with-own-writes and the whole tree is dumped and compared before the transaction ends; after every transaction a "+
		"fresh read transaction must see model-committed (after nil) or the unchanged model (after error, panic, commit failure, write failure, rollback); "+
		"after reopen the file must equal the model. Documented error values checked (count of checks that hit each): %s. ", strings.Join(errs, ", "))
	s += fmt.Sprintf("Dependency (bbolt 1.3.11) behaviours that are counted, not asserted: Cursor.Delete-then-Next skipped the successor %d times "+
		"(cfg strict_cdel=1 asserts it); Cursor.Prev stopped at a leaf emptied in the same transaction %d times (cfg strict_bwd=1); Cursor.Last on a bucket "+
		"emptied inside a read-write transaction was avoided %d times because it can spin for ever (cfg last_on_emptied=1 calls it; plans under "+
		"sims/dbsim/observations). ", stats["obs.cursor-delete-next-skipped"], stats["obs.prev-stopped-at-emptied-page"], stats["guard.last-on-empty-bucket-avoided"])
	if n := stats["guard.readacross-skipped-large-file"]; n > 0 {
		s += fmt.Sprintf("The read-transaction-across-commit check was skipped %d times because the file had grown (single-goroutine mmap deadlock guard). ", n)
	}
	if len(zero) > 0 {
		s += "COVERAGE HOLE: probes that stayed at zero: " + strings.Join(zero, ", ") + "."
	} else {
		s += "All probes were reached."
	}
	return s
}

func (sim) Assumptions() []string {
	return []string{
		"C11: Get on a key holding an empty value may return nil or an empty slice (bbolt returns nil inside the writing transaction, empty after commit); only byte equality is asserted",
		"C11: completeness of a cursor iteration that interleaves Cursor.Delete with Next is not asserted (bbolt skips the successor of a deleted pair when the leaf is already dirty); set cfg strict_cdel=1 to assert it",
		"C11: inside a read-write transaction a backward cursor step may end early in a bucket that lost keys in that transaction (bbolt's Prev does not step over emptied leaf pages; cfg strict_bwd=1 asserts completeness), and Cursor.Last is not called on a bucket that is empty inside a read-write transaction (bbolt spins for ever when such a bucket spans several leaf pages; cfg last_on_emptied=1 calls it)",
		"C11: snapshot isolation is checked with a read transaction held across a complete writer in the same goroutine (the file is pre-grown so that the writer never has to remap); multi-goroutine readers are left to the scheduler-based variant",
		"C11: error VALUES are asserted only where bdb's convertErr maps them; NextSequence/SetSequence in a read-only transaction are only required to fail",
	}
}
