package dbsim

import (
	"encoding/hex"
	"strconv"
	"strings"
)

// Byte strings in a plan are written compactly so that long keys and values
// do not bloat replay files: segments joined by "+", each either plain hex
// ("6162") or a run "hh*n" (byte hh repeated n times). "" is the empty
// string. A path is a list of such strings joined by "/".

const maxDecoded = 1 << 16

func dec(s string) ([]byte, bool) {
	if s == "" {
		return []byte{}, true
	}
	var out []byte
	for _, seg := range strings.Split(s, "+") {
		if i := strings.IndexByte(seg, '*'); i >= 0 {
			b, err := hex.DecodeString(seg[:i])
			if err != nil || len(b) != 1 {
				return nil, false
			}
			n, err := strconv.Atoi(seg[i+1:])
			if err != nil || n < 0 || n > maxDecoded {
				return nil, false
			}
			for j := 0; j < n; j++ {
				out = append(out, b[0])
			}
		} else {
			b, err := hex.DecodeString(seg)
			if err != nil {
				return nil, false
			}
			out = append(out, b...)
		}
		if len(out) > maxDecoded {
			return nil, false
		}
	}
	if out == nil {
		out = []byte{}
	}
	return out, true
}

func decPath(s string) ([]string, bool) {
	if s == "" {
		return nil, true
	}
	parts := strings.Split(s, "/")
	out := make([]string, 0, len(parts))
	for _, p := range parts {
		b, ok := dec(p)
		if !ok {
			return nil, false
		}
		out = append(out, string(b))
	}
	return out, true
}

func encPath(parts []string) string { return strings.Join(parts, "/") }
