package dbsim

import (
	"bytes"
	"encoding/binary"
	"errors"
	"fmt"
	bolt "go.etcd.io/bbolt"
	"os"
	"path/filepath"
	"runtime"
	"strings"
	"sync/atomic"
	"time"

	"github.com/btcsuite/btcwallet/walletdb"
	_ "github.com/btcsuite/btcwallet/walletdb/bdb"

	"verifsim/core"
	"verifsim/faultdb"
	"verifsim/models/dbmodel"
)

const prop = "C11"

// errUser is what an "error" transaction returns from its function.
var errUser = errors.New("dbsim: transaction function failed on purpose")

// errStop unwinds a transaction function after a violation was recorded.
var errStop = errors.New("dbsim: stop after violation")

type panicSentinel struct{}

// junk is the (all-zero, never modified) filler value of pregrow.
var junk []byte

var errMap = map[dbmodel.Err]error{
	dbmodel.ErrKeyRequired:        walletdb.ErrKeyRequired,
	dbmodel.ErrKeyTooLarge:        walletdb.ErrKeyTooLarge,
	dbmodel.ErrBucketNameRequired: walletdb.ErrBucketNameRequired,
	dbmodel.ErrBucketExists:       walletdb.ErrBucketExists,
	dbmodel.ErrBucketNotFound:     walletdb.ErrBucketNotFound,
	dbmodel.ErrIncompatibleValue:  walletdb.ErrIncompatibleValue,
}

type exec struct {
	shadow       *shadowDisk // cfg crash: the disk as a power loss sees it
	images       int
	lastCrashSeq int64
	env          *core.Env
	p            *core.Plan
	file         string
	db           *faultdb.DB
	committed    *dbmodel.Bucket // model of the committed database (root: only Sub is used)
	pregrown     int64           // bytes the file was pre-grown to (0 = not)
	strict       bool            // cfg strict_cdel: treat bbolt's delete-then-Next skip as a violation
	// cfg last_on_emptied: call Cursor.Last even on a bucket that is empty
	// inside a read-write transaction. Off by default, because bbolt 1.3.11
	// spins for ever in Cursor.Last when a bucket that spans at least two leaf
	// pages had all of its keys deleted earlier in the same transaction (the
	// "skip empty pages" loop in Last calls prev, which calls first, which
	// leaves the stack on an empty leaf again). A run that reaches it never
	// returns, so the default workload walks such a bucket forwards only.
	lastOnEmptied bool
	// cfg strict_bwd: assert completeness of backward cursor steps even in a
	// bucket that had keys deleted earlier in the same transaction. Off by
	// default: bbolt 1.3.11's Cursor.Prev does not step over a leaf page that
	// was emptied in the running transaction (Next does) and returns nil
	// there, so a backward walk ends early. Counted as
	// obs.prev-stopped-at-emptied-page.
	strictBwd bool
	// delDirty: model buckets that lost a key in the running transaction.
	delDirty map[*dbmodel.Bucket]bool
}

func (x *exec) fail(sig, format string, a ...any) {
	x.env.Fail(prop, core.SigSafe(sig), format, a...)
}

// failDump reports a problem seen while dumping the database.
func (x *exec) failDump(prob string) {
	if strings.HasPrefix(prob, "order:") {
		x.fail("foreach-order", "%s", prob)
		return
	}
	x.fail("dump-inconsistent", "%s", prob)
}

// readTxIsReadOnly verifies, without blocking, that a transaction from
// BeginReadTx cannot write (it must refuse to create a top-level bucket).
// It runs before the harness holds a read transaction across a writer in the
// same goroutine: if "read" transactions were writers, that would deadlock on
// bbolt's writer lock instead of failing.
func (x *exec) readTxIsReadOnly() bool {
	tx, err := x.db.Inner.BeginReadTx()
	if err != nil {
		x.fail("unusable:BeginReadTx", "BeginReadTx: %v", err)
		return false
	}
	defer tx.Rollback()
	if rw, ok := tx.(walletdb.ReadWriteTx); ok {
		if _, err := rw.CreateTopLevelBucket([]byte("ro-probe")); err == nil {
			x.fail("readonly-mutation-accepted:op=CreateTopLevelBucket:tx=BeginReadTx", "a transaction from BeginReadTx created a top-level bucket")
			return false
		}
	}
	return true
}

func (x *exec) open(create bool) bool {
	var inner walletdb.DB
	var err error
	if x.shadow != nil {
		x.shadow.reset(x.file)
		bolt.VerifDisk[x.file] = x.shadow.hooks()
	}
	if create {
		inner, err = walletdb.Create("bdb", x.file, true, 10*time.Second, false)
	} else {
		inner, err = walletdb.Open("bdb", x.file, true, 10*time.Second, false)
	}
	if err != nil {
		x.fail("open-failed", "open(create=%v): %v", create, err)
		return false
	}
	x.db = faultdb.Wrap(inner)
	return true
}

// pregrow makes the file (and with it bbolt's memory map) large once, then
// frees the space again.
//
// Why: the "read transaction held across a writer's commit" check runs in ONE
// goroutine. A bbolt read transaction holds DB.mmaplock for reading until it
// is closed; a write transaction that has to allocate pages beyond the end of
// the current memory map calls DB.mmap, which takes mmaplock for writing — in
// one goroutine that is a self-deadlock (db.go: beginTx / allocate / mmap).
// bbolt maps at least 32 KiB and doubles; a fresh file is mapped at 32 KiB,
// i.e. 8 pages. After writing and deleting a 512 KiB value the file stays
// > 512 KiB (bbolt never shrinks), the map is 1 MiB (also after a reopen:
// the map is sized from the file), and all those pages are on the free list,
// so later writers allocate from the free list instead of growing the map.
// The generator keeps the live data below ~64 KiB, and the executor declines
// to hold a read transaction when fewer than 96 pages are left between the
// file's high-water mark and its end (roomToWrite). Before holding it, it
// also checks without blocking that read transactions really are read-only
// (readTxIsReadOnly): a writable "read" transaction would block the writer.
func (x *exec) pregrow(kb int64) bool {
	name := []byte("\x00verif-pregrow")
	err := walletdb.Update(x.db, func(tx walletdb.ReadWriteTx) error {
		b, err := tx.CreateTopLevelBucket(name)
		if err != nil {
			return err
		}
		if int64(len(junk)) < kb<<10 {
			junk = make([]byte, kb<<10)
		}
		return b.Put([]byte("junk"), junk[:kb<<10])
	})
	if err == nil {
		err = walletdb.Update(x.db, func(tx walletdb.ReadWriteTx) error { return tx.DeleteTopLevelBucket(name) })
	}
	if err != nil {
		x.fail("pregrow-failed", "%v", err)
		return false
	}
	x.pregrown = kb << 10
	x.db.Reset()
	return true
}

// roomToWrite is the guard that goes with pregrow: it reads the two bbolt
// meta pages of the file (page header 16 bytes; meta: magic, version,
// pageSize u32 at +8, ..., high-water page id u64 at +40, txid u64 at +48) and
// answers whether at least 96 pages lie between the high-water mark and the
// end of the file. Up to 16 MiB bbolt keeps the file as large as the memory
// map, so this is the room a writer has before it must remap. It is not an
// oracle, only the decision whether the read-transaction-across-commit check
// can be run in one goroutine without risking the self-deadlock.
func roomToWrite(file string) bool {
	f, err := os.Open(file)
	if err != nil {
		return false
	}
	defer f.Close()
	st, err := f.Stat()
	if err != nil {
		return false
	}
	var hdr [64]byte
	if _, err := f.ReadAt(hdr[:], 0); err != nil {
		return false
	}
	if binary.LittleEndian.Uint32(hdr[16:]) != 0xED0CDAED {
		return false
	}
	ps := int64(binary.LittleEndian.Uint32(hdr[16+8:]))
	if ps < 512 || ps > 1<<16 {
		return false
	}
	high := int64(binary.LittleEndian.Uint64(hdr[16+40:]))
	if _, err := f.ReadAt(hdr[:], ps); err == nil && binary.LittleEndian.Uint32(hdr[16:]) == 0xED0CDAED {
		if h := int64(binary.LittleEndian.Uint64(hdr[16+40:])); h > high {
			high = h
		}
	}
	return high+96 < st.Size()/ps
}

// ---------------------------------------------------------------- dumping

func dump(tx dbmodel.TxReader) (*dbmodel.Bucket, string) { return dbmodel.DumpTx(tx) }

func dumpBucket(b walletdb.ReadBucket) (*dbmodel.Bucket, string) { return dbmodel.DumpBucket(b) }

// verifyCommitted compares the database, read through a fresh read
// transaction, with the committed model.
func (x *exec) verifyCommitted(sig string) bool {
	var got *dbmodel.Bucket
	var prob string
	err := walletdb.View(x.db, func(tx walletdb.ReadTx) error {
		got, prob = dump(tx)
		return nil
	})
	if err != nil {
		x.fail("unusable:"+sig, "View after the transaction failed: %v", err)
		return false
	}
	if prob != "" {
		x.failDump(prob)
		return false
	}
	if d := dbmodel.Diff(x.committed, got); d != "" {
		x.fail(sig, "database differs from the model: %s", d)
		return false
	}
	return true
}

// ---------------------------------------------------------------- execute

func (sim) Execute(env *core.Env, p *core.Plan) {
	if p.Prop != prop {
		return
	}
	x := &exec{env: env, p: p, file: filepath.Join(env.Dir, "c11.db"), committed: dbmodel.NewBucket(),
		strict: p.C("strict_cdel", 0) != 0, lastOnEmptied: p.C("last_on_emptied", 0) != 0,
		strictBwd: p.C("strict_bwd", 0) != 0}
	if p.C("crash", 0) != 0 {
		x.shadow = &shadowDisk{}
		defer delete(bolt.VerifDisk, x.file)
	}
	if !x.open(true) {
		return
	}
	defer func() {
		if x.db != nil {
			_ = x.db.Close()
		}
	}()
	if kb := p.C("pregrow_kb", 0); kb > 0 {
		if kb > 4096 {
			kb = 4096
		}
		if !x.pregrow(kb) {
			return
		}
	}
	ops := p.Ops
	for i := 0; i < len(ops) && !env.Failed(); {
		env.Step(i)
		switch ops[i].K {
		case "reopen":
			x.reopen()
			i++
		case "romut":
			x.romut(ops[i])
			i++
		case "bgroup":
			x.batchGroup(ops[i])
			i++
		case "crashtx":
			x.crashTx(ops[i])
			i++
		case "durable":
			x.durabilityCheck("between-transactions")
			i++
		default:
			j := i + 1
			for j < len(ops) && ops[j].T == ops[i].T && ops[j].K != "reopen" && ops[j].K != "romut" && ops[j].K != "bgroup" && ops[j].K != "crashtx" && ops[j].K != "durable" {
				j++
			}
			x.group(ops[i:j], i)
			i = j
		}
		env.State("%x", x.committed.Digest())
	}
	x.durabilityCheck("at-end")
}

func (x *exec) reopen() {
	env := x.env
	env.Count("op.reopen")
	if err := x.db.Close(); err != nil {
		x.fail("close-failed", "Close: %v", err)
		x.db = nil
		return
	}
	x.db = nil
	if !x.open(false) {
		return
	}
	env.Eff()
	if x.committed.CountBuckets() > len(x.committed.Sub) {
		env.Count("probe.reopen-with-nested")
	}
	env.Logf("reopen state=%x", x.committed.Digest())
	x.verifyCommitted("commit-lost:after=reopen")
}

func isInjected(err error) bool { return errors.Is(err, faultdb.ErrInjected) }

// group runs one transaction: header + data ops.
func (x *exec) group(ops []core.Op, base int) {
	env := x.env
	api, out, k, flags := int64(apiUpdate), int64(outCommit), int64(0), int64(0)
	for _, o := range ops {
		if o.K == "tx" {
			api, out, k, flags = mod(o.Arg(0), numAPIs), mod(o.Arg(1), numOuts), o.Arg(2), o.Arg(3)
			break
		}
	}
	readOnly := api == apiView || api == apiReadTx
	// normalise outcomes that do not exist for an API
	switch {
	case api == apiBatch && out != outError:
		out = outCommit
	case api == apiManual && out == outPanic:
		out = outError
	case api == apiView && out != outPanic:
		out = outCommit
	case api == apiReadTx:
		out = outCommit
	}
	if out == outWriteF && k <= 0 {
		out = outCommit
	}
	env.Count(fmt.Sprintf("op.tx.api=%s", apiName(api)))
	env.Logf("tx api=%s out=%s k=%d flags=%d nops=%d", apiName(api), outName(out), k, flags, len(ops))

	if readOnly {
		x.readGroup(ops, base, api, out)
		return
	}

	// ---- optional: a read transaction opened BEFORE this writer
	var oldRead walletdb.ReadTx
	pre := x.committed
	if flags&flagReadAcross != 0 && x.pregrown > 0 {
		if !x.readTxIsReadOnly() {
			return
		}
		if roomToWrite(x.file) {
			r, err := x.db.BeginReadTx()
			if err != nil {
				x.fail("unusable:BeginReadTx", "BeginReadTx: %v", err)
				return
			}
			oldRead = r
		} else {
			env.Count("guard.readacross-skipped-large-file")
		}
	}
	closeOld := func() {
		if oldRead != nil {
			_ = oldRead.Rollback()
			oldRead = nil
		}
	}
	defer closeOld()

	work := x.committed.Clone()
	fired := false
	var captured walletdb.ReadWriteTx
	calls := 0
	// fn is the transaction function handed to Update / Batch.
	fn := func(tx walletdb.ReadWriteTx) error {
		calls++
		captured = tx
		work = x.committed.Clone() // Batch may call fn twice
		err := x.body(tx, work, ops, base)
		if err != nil {
			if isInjected(err) {
				fired = true
			}
			return err
		}
		switch out {
		case outError:
			return errUser
		case outPanic:
			panic(panicSentinel{})
		}
		return nil
	}

	x.db.Reset()
	switch out {
	case outCommitF:
		x.db.FailCommit = true
	case outWriteF:
		x.db.Arm(int(k))
	}
	committedNow := false
	after := outName(out)
	switch api {
	case apiUpdate, apiBatch:
		var err error
		panicked := false
		func() {
			defer func() {
				if r := recover(); r != nil {
					if _, ok := r.(panicSentinel); !ok {
						panic(r)
					}
					panicked = true
				}
			}()
			if api == apiBatch {
				err = walletdb.Batch(x.db.Inner, fn)
			} else {
				err = walletdb.Update(x.db, fn)
			}
		}()
		if env.Failed() {
			return
		}
		switch {
		case out == outPanic:
			if !panicked {
				x.fail("panic-swallowed", "the transaction function panicked but Update returned normally (err=%v)", err)
				return
			}
			env.Count("probe.panic-then-next-update")
			if !x.afterPanic(captured) {
				return
			}
		case fired:
			env.Count("fault.dbwrite")
			env.Count("probe.write-failure-fired")
			after = "write-failure"
			if !isInjected(err) {
				x.fail("error-not-returned:after=write-failure", "Update returned %v, want the injected write error", err)
				return
			}
		case out == outError:
			if !errors.Is(err, errUser) {
				x.fail("error-not-returned:after=error", "Update returned %v, want the function's own error", err)
				return
			}
		case out == outCommitF:
			env.Count("fault.commit")
			env.Count("probe.commit-failure")
			if !errors.Is(err, faultdb.ErrInjectedCommit) {
				x.fail("error-not-returned:after=commit-failure", "Update returned %v, want the commit error", err)
				return
			}
		default: // commit (or write failure that never fired)
			after = "commit"
			if err != nil {
				x.fail("commit-failed", "Update returned %v for a function that returned nil", err)
				return
			}
			committedNow = true
		}
		// the transaction handed to the function is closed afterwards
		// (not for Batch: bbolt forbids Rollback on its managed transactions)
		if captured != nil && out != outPanic && api != apiBatch {
			if err := captured.Rollback(); !errors.Is(err, walletdb.ErrTxClosed) {
				x.fail("errval:op=Rollback:want=ErrTxClosed:after="+after, "Rollback on the finished managed transaction returned %v", err)
				return
			}
		}
	case apiManual:
		tx, err := x.db.BeginReadWriteTx()
		if err != nil {
			x.fail("unusable:BeginReadWriteTx", "BeginReadWriteTx: %v", err)
			return
		}
		berr := x.body(tx, work, ops, base)
		if env.Failed() {
			_ = tx.Rollback()
			return
		}
		switch {
		case berr != nil && isInjected(berr):
			fired = true
			env.Count("fault.dbwrite")
			env.Count("probe.write-failure-fired")
			after = "write-failure"
			if err := tx.Rollback(); err != nil {
				x.fail("rollback-failed", "Rollback: %v", err)
				return
			}
		case out == outError:
			after = "rollback"
			if err := tx.Rollback(); err != nil {
				x.fail("rollback-failed", "Rollback: %v", err)
				return
			}
		case out == outCommitF:
			env.Count("fault.commit")
			env.Count("probe.commit-failure")
			if err := tx.Commit(); !errors.Is(err, faultdb.ErrInjectedCommit) {
				x.fail("error-not-returned:after=commit-failure", "Commit returned %v", err)
				return
			}
		default:
			after = "commit"
			if err := tx.Commit(); err != nil {
				x.fail("commit-failed", "Commit: %v", err)
				return
			}
			committedNow = true
		}
		// documented misuse: a finished transaction reports ErrTxClosed
		if err := tx.Commit(); !errors.Is(err, walletdb.ErrTxClosed) {
			x.fail("errval:op=Commit:want=ErrTxClosed", "Commit on a finished transaction returned %v", err)
			return
		}
		if err := tx.Rollback(); !errors.Is(err, walletdb.ErrTxClosed) {
			x.fail("errval:op=Rollback:want=ErrTxClosed", "Rollback on a finished transaction returned %v", err)
			return
		}
		env.Count("errval.ErrTxClosed")
	}
	x.db.Reset()
	if committedNow {
		x.committed = work
	}
	env.Logf("tx done after=%s committed=%v calls=%d state=%x", after, committedNow, calls, x.committed.Digest())

	// ---- the old read transaction still sees the snapshot it started on
	if oldRead != nil {
		got, prob := dump(oldRead)
		if prob != "" {
			x.failDump(prob)
			return
		}
		if d := dbmodel.Diff(pre, got); d != "" {
			x.fail("snapshot-isolation:read-tx-across="+after, "a read transaction opened before the writer does not see its snapshot any more: %s", d)
			return
		}
		if committedNow && dbmodel.Diff(pre, x.committed) != "" {
			env.Count("probe.read-tx-across-commit")
		}
		err := oldRead.Rollback()
		r := oldRead
		oldRead = nil
		if err != nil {
			x.fail("rollback-failed:read-tx", "Rollback of the old read transaction: %v", err)
			return
		}
		if err := r.Rollback(); !errors.Is(err, walletdb.ErrTxClosed) {
			x.fail("errval:op=Rollback:want=ErrTxClosed:tx=read", "second Rollback of a read transaction returned %v", err)
			return
		}
	}

	// ---- what later transactions see
	sig := "rollback-leak:after=" + after
	if committedNow {
		sig = "commit-lost:after=commit"
	}
	x.verifyCommitted(sig)
}

// afterPanic checks that the database is usable after a managed update
// whose function panicked. If the adapter did not roll the transaction back,
// bbolt's writer lock is still held and the next Update would block for ever
// (a goroutine blocked on a sync.Mutex is not "durably blocked" for
// synctest, so the bubble would hang rather than fail). Therefore the next
// update runs in a helper goroutine, the root goroutine waits for it without
// a clock, and if it does not finish the leaked transaction — whose handle
// the panicking function captured — is rolled back by the harness, which
// releases the lock. The verdict does not depend on timing: it is "the
// captured transaction was still open" (Rollback returned nil instead of
// ErrTxClosed).
func (x *exec) afterPanic(captured walletdb.ReadWriteTx) bool {
	var done atomic.Bool
	var uerr error
	fin := make(chan struct{})
	go func() {
		defer close(fin)
		uerr = walletdb.Update(x.db, func(tx walletdb.ReadWriteTx) error { return nil })
		done.Store(true)
	}()
	for i := 0; i < 2_000_000 && !done.Load(); i++ {
		runtime.Gosched()
	}
	blocked := !done.Load()
	var rerr error = walletdb.ErrTxClosed
	if captured != nil {
		rerr = captured.Rollback()
	}
	<-fin
	if rerr == nil {
		x.fail("usable-after-panic:next-update-blocked", "after a panicking update the write transaction was still open (next Update blocked=%v); the harness had to roll it back", blocked)
		return false
	}
	if !errors.Is(rerr, walletdb.ErrTxClosed) {
		x.fail("errval:op=Rollback:want=ErrTxClosed:after=panic", "Rollback on the transaction of a panicked update returned %v", rerr)
		return false
	}
	if uerr != nil {
		x.fail("usable-after-panic:next-update-failed", "the update after a panicking one failed: %v", uerr)
		return false
	}
	return true
}

// readGroup runs a read-only transaction (View or BeginReadTx).
func (x *exec) readGroup(ops []core.Op, base int, api, out int64) {
	env := x.env
	rb := func(tx walletdb.ReadTx) {
		for i, o := range ops {
			if env.Failed() {
				return
			}
			if o.K == "tx" || !readKinds[o.K] {
				continue
			}
			env.Step(base + i)
			x.readOp(tx, x.committed, o, "read-committed")
		}
		if env.Failed() {
			return
		}
		got, prob := dump(tx)
		if prob != "" {
			x.failDump(prob)
		} else if d := dbmodel.Diff(x.committed, got); d != "" {
			x.fail("read-committed:dump", "read transaction sees something else than the committed state: %s", d)
		}
	}
	if api == apiView {
		var captured walletdb.ReadTx
		var err error
		panicked := false
		func() {
			defer func() {
				if r := recover(); r != nil {
					if _, ok := r.(panicSentinel); !ok {
						panic(r)
					}
					panicked = true
				}
			}()
			err = walletdb.View(x.db, func(tx walletdb.ReadTx) error {
				captured = tx
				rb(tx)
				if out == outPanic && !env.Failed() {
					panic(panicSentinel{})
				}
				return nil
			})
		}()
		if env.Failed() {
			return
		}
		if out == outPanic && !panicked {
			x.fail("panic-swallowed:View", "the view function panicked but View returned normally (err=%v)", err)
			return
		}
		if out != outPanic && err != nil {
			x.fail("view-failed", "View returned %v", err)
			return
		}
		// A leaked read transaction would make Close block for ever; detect
		// it structurally (and release it).
		if captured == nil {
			x.fail("view-failed", "View did not call its function (err=%v)", err)
			return
		}
		if rerr := captured.Rollback(); rerr == nil {
			x.fail("usable-after-panic:read-tx-left-open:after="+outName(out), "the read transaction of a finished View was still open")
			return
		} else if !errors.Is(rerr, walletdb.ErrTxClosed) {
			x.fail("errval:op=Rollback:want=ErrTxClosed:tx=view", "Rollback on a finished View transaction returned %v", rerr)
			return
		}
	} else {
		tx, err := x.db.BeginReadTx()
		if err != nil {
			x.fail("unusable:BeginReadTx", "BeginReadTx: %v", err)
			return
		}
		rb(tx)
		if err := tx.Rollback(); err != nil && !env.Failed() {
			x.fail("rollback-failed:read-tx", "Rollback: %v", err)
		}
	}
	if !env.Failed() {
		env.Eff()
		x.verifyCommitted("rollback-leak:after=read-only")
	}
}

// body executes the data ops of a read-write transaction against the real
// transaction and the working model. It returns the injected error if an
// armed write failure fired, errStop after a violation, nil otherwise.
func (x *exec) body(tx walletdb.ReadWriteTx, work *dbmodel.Bucket, ops []core.Op, base int) error {
	env := x.env
	x.delDirty = map[*dbmodel.Bucket]bool{}
	for i, o := range ops {
		if o.K == "tx" {
			continue
		}
		env.Step(base + i)
		if err := x.rwOp(tx, work, o); err != nil {
			return err
		}
		if env.Failed() {
			return errStop
		}
	}
	// reads inside the transaction see all of its own writes
	got, prob := dump(tx)
	if prob != "" {
		x.failDump(prob)
		return errStop
	}
	if d := dbmodel.Diff(work, got); d != "" {
		x.fail("read-own-write:dump", "inside the transaction the database differs from model-with-own-writes: %s", d)
		return errStop
	}
	return nil
}

// ---------------------------------------------------------------- navigation

func (x *exec) navRW(tx walletdb.ReadWriteTx, root *dbmodel.Bucket, path []string) (walletdb.ReadWriteBucket, *dbmodel.Bucket) {
	if len(path) == 0 {
		return nil, nil
	}
	m := root.Sub[path[0]]
	b := tx.ReadWriteBucket([]byte(path[0]))
	if (m == nil) != (b == nil) {
		x.fail("nav:ReadWriteBucket", "top-level bucket %x: model exists=%v, database exists=%v", path[0], m != nil, b != nil)
		return nil, nil
	}
	for _, p := range path[1:] {
		if m == nil {
			return nil, nil
		}
		mm := m.Sub[p]
		nb := b.NestedReadWriteBucket([]byte(p))
		if (mm == nil) != (nb == nil) {
			x.fail("nav:NestedReadWriteBucket", "nested bucket %x: model exists=%v, database exists=%v", p, mm != nil, nb != nil)
			return nil, nil
		}
		m, b = mm, nb
	}
	if m == nil {
		return nil, nil
	}
	return b, m
}

func (x *exec) navR(tx walletdb.ReadTx, root *dbmodel.Bucket, path []string) (walletdb.ReadBucket, *dbmodel.Bucket) {
	if len(path) == 0 {
		return nil, nil
	}
	m := root.Sub[path[0]]
	b := tx.ReadBucket([]byte(path[0]))
	if (m == nil) != (b == nil) {
		x.fail("nav:ReadBucket", "top-level bucket %x: model exists=%v, database exists=%v", path[0], m != nil, b != nil)
		return nil, nil
	}
	for _, p := range path[1:] {
		if m == nil {
			return nil, nil
		}
		mm := m.Sub[p]
		nb := b.NestedReadBucket([]byte(p))
		if (mm == nil) != (nb == nil) {
			x.fail("nav:NestedReadBucket", "nested bucket %x: model exists=%v, database exists=%v", p, mm != nil, nb != nil)
			return nil, nil
		}
		m, b = mm, nb
	}
	if m == nil {
		return nil, nil
	}
	return b, m
}

// ---------------------------------------------------------------- operations

// checkErr compares the error of a mutating call with the model's verdict.
func (x *exec) checkErr(op string, want dbmodel.Err, err error) bool {
	if want == dbmodel.OK {
		if err != nil {
			x.fail("op-failed:op="+op, "%s returned %v, the model expects success", op, err)
			return false
		}
		return true
	}
	if err == nil {
		x.fail(fmt.Sprintf("errval:op=%s:want=%s:got=nil", op, want), "%s succeeded, the documented result is %s", op, want)
		return false
	}
	if want == dbmodel.ErrAny {
		return true
	}
	if !errors.Is(err, errMap[want]) {
		x.fail(fmt.Sprintf("errval:op=%s:want=%s", op, want), "%s returned %q, the documented error value is walletdb.%s", op, err, want)
		return false
	}
	x.env.Count("errval." + string(want))
	return true
}

func (x *exec) rwOp(tx walletdb.ReadWriteTx, work *dbmodel.Bucket, o core.Op) error {
	env := x.env
	if readKinds[o.K] {
		x.readOp(tx, work, o, "read-own-write")
		return nil
	}
	switch o.K {
	case "mktop", "rmtop":
		kb, ok := dec(o.Str(0))
		if !ok {
			return nil
		}
		k := string(kb)
		env.Count("op." + o.K)
		if o.K == "mktop" {
			nb, err := tx.CreateTopLevelBucket(kb)
			if isInjected(err) {
				return err
			}
			_, want := work.CreateBucketIfNotExists(k)
			if !x.checkErr("CreateTopLevelBucket", want, err) {
				return nil
			}
			if want == dbmodel.OK && nb == nil {
				x.fail("nil-bucket:op=CreateTopLevelBucket", "CreateTopLevelBucket returned a nil bucket and a nil error")
				return nil
			}
			if want == dbmodel.OK && nb.Sequence() != work.Sub[k].Seq {
				x.fail("read-own-write:Sequence:via=CreateTopLevelBucket", "bucket returned by CreateTopLevelBucket has sequence %d, model %d", nb.Sequence(), work.Sub[k].Seq)
			}
		} else {
			err := tx.DeleteTopLevelBucket(kb)
			if isInjected(err) {
				return err
			}
			x.checkErr("DeleteTopLevelBucket", work.DeleteBucket(k), err)
		}
		env.Eff()
		env.Logf("%s %x", o.K, k)
		return nil
	}

	path, ok := decPath(o.Str(0))
	if !ok {
		return nil
	}
	b, m := x.navRW(tx, work, path)
	if b == nil {
		return nil // precondition does not hold: skipped
	}
	env.Count("op." + o.K)
	switch o.K {
	case "put":
		kb, ok1 := dec(o.Str(1))
		vb, ok2 := dec(o.Str(2))
		if !ok1 || !ok2 {
			return nil
		}
		k := string(kb)
		arg := vb
		if len(vb) == 0 && o.Arg(0)%2 != 0 {
			arg = nil
		}
		err := b.Put(kb, arg)
		if isInjected(err) {
			return err
		}
		want := m.Put(k, vb)
		if !x.checkErr("Put", want, err) {
			return nil
		}
		if want == dbmodel.OK {
			got := b.Get(kb)
			if !bytes.Equal(got, vb) {
				x.fail("read-own-write:Get:after=Put", "Get after Put(%x) returned %s, want %s", short(kb), dbmodel.Short(got), dbmodel.Short(vb))
				return nil
			}
			if len(vb) == 0 {
				env.Count("probe.empty-value")
			}
			for other := range m.KV {
				if other != k && (hasPrefix(other, k) || hasPrefix(k, other)) {
					env.Count("probe.key-is-prefix-of-other")
					break
				}
			}
		}
	case "del":
		kb, ok := dec(o.Str(1))
		if !ok {
			return nil
		}
		err := b.Delete(kb)
		if isInjected(err) {
			return err
		}
		if _, had := m.KV[string(kb)]; had {
			x.delDirty[m] = true
		}
		if !x.checkErr("Delete", m.Delete(string(kb)), err) {
			return nil
		}
		if _, isB := m.Sub[string(kb)]; !isB {
			if got := b.Get(kb); got != nil {
				x.fail("read-own-write:Get:after=Delete", "Get after Delete(%x) returned %s", short(kb), dbmodel.Short(got))
			}
		}
	case "mkb":
		kb, ok := dec(o.Str(1))
		if !ok {
			return nil
		}
		k := string(kb)
		var nb walletdb.ReadWriteBucket
		var err error
		var want dbmodel.Err
		name := "CreateBucket"
		if o.Arg(0)%2 == 0 {
			nb, err = b.CreateBucket(kb)
			if isInjected(err) {
				return err
			}
			_, want = m.CreateBucket(k)
		} else {
			name = "CreateBucketIfNotExists"
			nb, err = b.CreateBucketIfNotExists(kb)
			if isInjected(err) {
				return err
			}
			_, want = m.CreateBucketIfNotExists(k)
		}
		if !x.checkErr(name, want, err) {
			return nil
		}
		if want == dbmodel.OK {
			if nb == nil {
				x.fail("nil-bucket:op="+name, "%s returned a nil bucket and a nil error", name)
				return nil
			}
			// the returned handle is the nested bucket, not something else
			mm := m.Sub[k]
			if nb.Sequence() != mm.Seq {
				x.fail("read-own-write:Sequence:via="+name, "bucket returned by %s has sequence %d, model %d", name, nb.Sequence(), mm.Seq)
				return nil
			}
			got, prob := dumpBucket(nb)
			if prob == "" {
				prob = dbmodel.Diff(mm, got)
			}
			if prob != "" {
				x.fail("read-own-write:bucket-returned-by="+name, "%s", prob)
			}
		}
	case "rmb":
		kb, ok := dec(o.Str(1))
		if !ok {
			return nil
		}
		err := b.DeleteNestedBucket(kb)
		if isInjected(err) {
			return err
		}
		if _, had := m.Sub[string(kb)]; had {
			x.delDirty[m] = true
		}
		if !x.checkErr("DeleteNestedBucket", m.DeleteBucket(string(kb)), err) {
			return nil
		}
		if nb := b.NestedReadWriteBucket(kb); nb != nil {
			if _, still := m.Sub[string(kb)]; !still {
				x.fail("read-own-write:NestedReadWriteBucket:after=DeleteNestedBucket", "bucket %x still there after DeleteNestedBucket", short(kb))
			}
		}
	case "nseq":
		got, err := b.NextSequence()
		if isInjected(err) {
			return err
		}
		if err != nil {
			x.fail("op-failed:op=NextSequence", "NextSequence: %v", err)
			return nil
		}
		want := m.NextSequence()
		if got != want {
			x.fail("sequence:op=NextSequence", "NextSequence returned %d, model %d", got, want)
			return nil
		}
		if s := b.Sequence(); s != want {
			x.fail("read-own-write:Sequence:after=NextSequence", "Sequence() = %d after NextSequence returned %d", s, want)
		}
	case "sseq":
		v := uint64(o.Arg(0))
		err := b.SetSequence(v)
		if isInjected(err) {
			return err
		}
		if err != nil {
			x.fail("op-failed:op=SetSequence", "SetSequence: %v", err)
			return nil
		}
		m.Seq = v
		if s := b.Sequence(); s != v {
			x.fail("read-own-write:Sequence:after=SetSequence", "Sequence() = %d after SetSequence(%d)", s, v)
		}
	case "cdel":
		return x.cursorDelete(b, m, o)
	default:
		return nil
	}
	env.Eff()
	env.Logf("%s %s -> state=%x", o.K, o.Str(0), work.Digest())
	return nil
}

// cursorDelete iterates with a read-write cursor and deletes some of the
// pairs it passes.
//
// What is asserted: every key the cursor returns exists (per the model, with
// the deletions made so far), the keys come strictly ascending (descending),
// values match, Delete on a value succeeds and removes exactly that key,
// Delete on a nested bucket is ErrIncompatibleValue. What is NOT asserted by
// default: that the iteration is complete. bbolt (1.3.11) skips the pair
// after a deleted one when the leaf was already modified earlier in the same
// transaction (Cursor.Delete removes the element from the in-memory node and
// Next then advances past the successor). walletdb documents Delete as "not
// invalidating the cursor", the property text does not speak about
// iterate-and-delete. The skip is counted (obs.cursor-delete-next-skipped)
// and becomes a violation only with cfg strict_cdel=1.
func (x *exec) cursorDelete(b walletdb.ReadWriteBucket, m *dbmodel.Bucket, o core.Op) error {
	env := x.env
	bwd := o.Arg(0)%2 != 0
	if bwd && m.Len() == 0 && !x.lastOnEmptied {
		bwd = false
		env.Count("guard.last-on-empty-bucket-avoided")
	}
	stride := mod(o.Arg(1), 5)
	if stride == 0 {
		stride = 1
	}
	off := mod(o.Arg(2), stride)
	tryB := o.Arg(3)%2 != 0
	dir := "fwd"
	if bwd {
		dir = "bwd"
	}
	expectVisits := m.Len()
	c := b.ReadWriteCursor()
	var k, v []byte
	if bwd {
		k, v = c.Last()
	} else {
		k, v = c.First()
	}
	prev, first := "", true
	visits, deleted := 0, 0
	for k != nil {
		ks := string(k)
		if !first && ((!bwd && ks <= prev) || (bwd && ks >= prev)) {
			x.fail("cursor-order:dir="+dir+":during=delete", "cursor returned %x after %x", short(k), short([]byte(prev)))
			return nil
		}
		prev, first = ks, false
		mv, isV := m.KV[ks]
		_, isB := m.Sub[ks]
		switch {
		case !isV && !isB:
			x.fail("cursor-order:dir="+dir+":during=delete:ghost-key", "cursor returned key %x which does not exist (any more)", short(k))
			return nil
		case isB && v != nil:
			x.fail("cursor-value:dir="+dir+":during=delete", "cursor gave a value for nested bucket %x", short(k))
			return nil
		case isV && !bytes.Equal(v, mv):
			x.fail("cursor-value:dir="+dir+":during=delete", "cursor value for %x is %s, model %s", short(k), dbmodel.Short(v), dbmodel.Short(mv))
			return nil
		}
		if isB && tryB {
			err := c.Delete()
			if isInjected(err) {
				return err
			}
			if !x.checkErr("CursorDelete", dbmodel.ErrIncompatibleValue, err) {
				return nil
			}
		} else if isV && int64(visits)%stride == off {
			err := c.Delete()
			if isInjected(err) {
				return err
			}
			if !x.checkErr("CursorDelete", dbmodel.OK, err) {
				return nil
			}
			delete(m.KV, ks)
			x.delDirty[m] = true
			deleted++
			if got := b.Get([]byte(ks)); got != nil {
				x.fail("read-own-write:Get:after=CursorDelete", "Get(%x) after cursor Delete returned %s", short([]byte(ks)), dbmodel.Short(got))
				return nil
			}
		}
		visits++
		if bwd {
			k, v = c.Prev()
		} else {
			k, v = c.Next()
		}
	}
	if deleted > 0 {
		env.Count("probe.cursor-delete-during-iteration")
	}
	if visits < expectVisits {
		env.Count("obs.cursor-delete-next-skipped")
		if x.strict {
			x.fail("cursor-delete-skip:dir="+dir, "iterating %s with Delete visited %d of %d pairs: pairs following a deleted one were skipped", dir, visits, expectVisits)
			return nil
		}
	}
	env.Eff()
	env.Logf("cdel %s dir=%s visits=%d deleted=%d", o.Str(0), dir, visits, deleted)
	// a fresh cursor sees exactly what is left
	x.walk(b, m, false, true, "read-own-write")
	return nil
}

// readOp executes a read-only operation against any transaction kind.
func (x *exec) readOp(tx walletdb.ReadTx, root *dbmodel.Bucket, o core.Op, ctx string) {
	env := x.env
	if o.K == "tops" {
		env.Count("op.tops")
		var names []string
		if err := tx.ForEachBucket(func(k []byte) error { names = append(names, string(k)); return nil }); err != nil {
			x.fail("op-failed:op=ForEachBucket", "ForEachBucket: %v", err)
			return
		}
		want := root.SubKeys()
		if !equalStrings(names, want) {
			x.fail(ctx+":ForEachBucket", "top-level buckets %x, model %x", names, want)
		}
		env.Eff()
		return
	}
	path, ok := decPath(o.Str(0))
	if !ok {
		return
	}
	var b walletdb.ReadBucket
	var m *dbmodel.Bucket
	if rw, isRW := tx.(walletdb.ReadWriteTx); isRW && ctx == "read-own-write" {
		rb, mm := x.navRW(rw, root, path)
		if rb != nil {
			b, m = rb, mm
		}
	} else {
		b, m = x.navR(tx, root, path)
	}
	if b == nil || m == nil {
		return
	}
	env.Count("op." + o.K)
	switch o.K {
	case "get":
		kb, ok := dec(o.Str(1))
		if !ok {
			return
		}
		got := b.Get(kb)
		if want, isV := m.KV[string(kb)]; isV {
			if !bytes.Equal(got, want) {
				x.fail(ctx+":Get", "Get(%x) = %s, model %s", short(kb), dbmodel.Short(got), dbmodel.Short(want))
				return
			}
		} else if got != nil {
			// documented: nil if the key does not exist (or names a bucket)
			x.fail(ctx+":Get:absent", "Get(%x) = %s for a key that holds no value", short(kb), dbmodel.Short(got))
			return
		}
	case "getnb":
		kb, ok := dec(o.Str(1))
		if !ok {
			return
		}
		nb := b.NestedReadBucket(kb)
		mm, isB := m.Sub[string(kb)]
		if isB != (nb != nil) {
			x.fail(ctx+":NestedReadBucket", "NestedReadBucket(%x) non-nil=%v, model bucket=%v", short(kb), nb != nil, isB)
			return
		}
		if isB {
			got, prob := dumpBucket(nb)
			if prob == "" {
				prob = dbmodel.Diff(mm, got)
			}
			if prob != "" {
				x.fail(ctx+":NestedReadBucket:content", "%s", prob)
				return
			}
		}
	case "seq":
		if s := b.Sequence(); s != m.Seq {
			x.fail(ctx+":Sequence", "Sequence() = %d, model %d", s, m.Seq)
			return
		}
	case "walk":
		if !x.walk(b, m, o.Arg(0)%2 != 0, o.Arg(1)%2 != 0, ctx) {
			return
		}
	case "foreach":
		var ks []string
		bad := ""
		err := b.ForEach(func(k, v []byte) error {
			s := string(k)
			ks = append(ks, s)
			if want, isV := m.KV[s]; isV && !bytes.Equal(want, v) && bad == "" {
				bad = fmt.Sprintf("ForEach value for %x is %s, model %s", short(k), dbmodel.Short(v), dbmodel.Short(want))
			}
			if _, isB := m.Sub[s]; isB && v != nil && bad == "" {
				bad = fmt.Sprintf("ForEach gave a value for nested bucket %x", short(k))
			}
			return nil
		})
		if err != nil {
			x.fail("op-failed:op=ForEach", "ForEach: %v", err)
			return
		}
		if want := m.Keys(); !equalStrings(ks, want) {
			x.fail("foreach-order", "ForEach keys %s, model (ascending) %s", shortList(ks), shortList(want))
			return
		}
		if bad != "" {
			x.fail(ctx+":ForEach:value", "%s", bad)
			return
		}
	case "seek":
		if !x.seek(b, m, o, ctx) {
			return
		}
	}
	env.Eff()
}

type rwCursorer interface {
	ReadWriteCursor() walletdb.ReadWriteCursor
}

// walk checks a complete forward or backward cursor walk.
func (x *exec) walk(b walletdb.ReadBucket, m *dbmodel.Bucket, bwd, rwc bool, ctx string) bool {
	keys := m.Keys()
	if bwd && len(keys) == 0 && ctx == "read-own-write" && !x.lastOnEmptied {
		bwd = false
		x.env.Count("guard.last-on-empty-bucket-avoided")
	}
	var c walletdb.ReadCursor
	if rw, ok := b.(rwCursorer); ok && rwc {
		c = rw.ReadWriteCursor()
	} else {
		c = b.ReadCursor()
	}
	dir := "fwd"
	if bwd {
		dir = "bwd"
	}
	var k, v []byte
	if bwd {
		k, v = c.Last()
	} else {
		k, v = c.First()
	}
	for i := range keys {
		want := keys[i]
		if bwd {
			want = keys[len(keys)-1-i]
		}
		if k == nil && bwd && i > 0 && x.prevQuirk(m, ctx) {
			return true
		}
		if k == nil || string(k) != want {
			x.fail("cursor-order:dir="+dir, "cursor walk position %d returned %s, want %x (bytewise %s order)", i, keyOrNil(k), short([]byte(want)), dir)
			return false
		}
		if !x.cursorValue(m, want, v, dir, ctx) {
			return false
		}
		if bwd {
			k, v = c.Prev()
		} else {
			k, v = c.Next()
		}
	}
	if k != nil {
		x.fail("cursor-order:dir="+dir+":extra", "cursor walk returned %x after the last expected key", short(k))
		return false
	}
	if v != nil {
		x.fail("cursor-value:dir="+dir+":end", "cursor returned a value with a nil key at the end of the walk")
		return false
	}
	return true
}

// prevQuirk says whether an early nil from Cursor.Prev is tolerated here
// (see strictBwd) and counts it.
func (x *exec) prevQuirk(m *dbmodel.Bucket, ctx string) bool {
	if ctx != "read-own-write" || !x.delDirty[m] {
		return false
	}
	if x.strictBwd {
		// the specific, known situation gets its own signature so that any
		// other backward-order violation is still reported as new
		x.env.Count("obs.prev-stopped-at-emptied-page")
		x.fail("cursor-order:dir=bwd:prev-stops-at-leaf-emptied-in-same-tx", "inside a read-write transaction a backward cursor walk ended early in a bucket that lost keys in this transaction (bbolt Cursor.Prev does not step over a leaf page emptied in the same transaction)")
		return true
	}
	x.env.Count("obs.prev-stopped-at-emptied-page")
	return true
}

func (x *exec) cursorValue(m *dbmodel.Bucket, key string, v []byte, dir, ctx string) bool {
	if _, isB := m.Sub[key]; isB {
		if v != nil {
			x.fail("cursor-value:dir="+dir+":bucket", "cursor gave a non-nil value for nested bucket %x", short([]byte(key)))
			return false
		}
		return true
	}
	if want := m.KV[key]; !bytes.Equal(want, v) {
		x.fail(ctx+":cursor-value:dir="+dir, "cursor value for %x is %s, model %s", short([]byte(key)), dbmodel.Short(v), dbmodel.Short(want))
		return false
	}
	return true
}

// seek checks Seek (first key >= seek, nil past the end) and a bounded walk
// from there with Next / Prev / a mix; the walk stops at the first nil.
func (x *exec) seek(b walletdb.ReadBucket, m *dbmodel.Bucket, o core.Op, ctx string) bool {
	sb, ok := dec(o.Str(1))
	if !ok {
		return true
	}
	keys := m.Keys()
	idx := dbmodel.SeekIndex(keys, string(sb))
	c := b.ReadCursor()
	k, v := c.Seek(sb)
	if idx >= len(keys) {
		if k != nil {
			x.fail("cursor-seek:past-end", "Seek(%x) returned %x, but no key is >= the seek key", short(sb), short(k))
			return false
		}
		if len(keys) > 0 {
			x.env.Count("probe.seek-past-end")
		}
		return true
	}
	if k == nil || string(k) != keys[idx] {
		x.fail("cursor-seek", "Seek(%x) returned %s, want the first key >= seek: %x", short(sb), keyOrNil(k), short([]byte(keys[idx])))
		return false
	}
	if !x.cursorValue(m, keys[idx], v, "seek", ctx) {
		return false
	}
	mode, n, bits := mod(o.Arg(0), 3), mod(o.Arg(1), 16), o.Arg(2)
	for s := int64(0); s < n; s++ {
		back := mode == 1 || (mode == 2 && (bits>>uint(s%60))&1 == 1)
		dir := "fwd"
		if back {
			k, v = c.Prev()
			idx--
			dir = "bwd"
		} else {
			k, v = c.Next()
			idx++
		}
		if k == nil && back && idx >= 0 && x.prevQuirk(m, ctx) {
			return true
		}
		if idx < 0 || idx >= len(keys) {
			if k != nil {
				x.fail("cursor-order:dir="+dir+":after=seek:extra", "cursor stepped beyond the end and returned %x", short(k))
				return false
			}
			return true
		}
		if k == nil || string(k) != keys[idx] {
			x.fail("cursor-order:dir="+dir+":after=seek", "cursor step returned %s, want %x", keyOrNil(k), short([]byte(keys[idx])))
			return false
		}
		if !x.cursorValue(m, keys[idx], v, dir, ctx) {
			return false
		}
	}
	return true
}

// romut: everything a caller can try in order to modify the database through
// a read-only transaction. The walletdb interfaces offer no mutating method
// on ReadTx / ReadBucket; the bdb types behind them do implement the
// read-write interfaces, so a type assertion (on public interface types)
// reaches them. The interface documents ErrTxNotWritable for this; it is
// asserted where bdb maps the error (convertErr), elsewhere only "fails".
// This runs on the bdb handle directly: faultdb's read wrapper would hide the
// assertion.
func (x *exec) romut(o core.Op) {
	env := x.env
	env.Count("op.romut")
	path, ok1 := decPath(o.Str(0))
	kb, ok2 := dec(o.Str(1))
	if !ok1 || !ok2 {
		return
	}
	managed := o.Arg(0)%2 == 0
	attempts := 0
	try := func(tx walletdb.ReadTx) {
		must := func(op string, err error, exact bool) bool {
			attempts++
			if err == nil {
				x.fail("readonly-mutation-accepted:op="+op, "%s succeeded inside a read-only transaction", op)
				return false
			}
			if exact && !errors.Is(err, walletdb.ErrTxNotWritable) {
				x.fail("errval:op="+op+":want=ErrTxNotWritable", "%s in a read-only transaction returned %q", op, err)
				return false
			}
			if exact {
				x.env.Count("errval.ErrTxNotWritable")
			}
			return true
		}
		if rwtx, ok := tx.(walletdb.ReadWriteTx); ok {
			_, err := rwtx.CreateTopLevelBucket([]byte("ro-new"))
			if !must("CreateTopLevelBucket", err, true) {
				return
			}
			if len(path) > 0 {
				if !must("DeleteTopLevelBucket", rwtx.DeleteTopLevelBucket([]byte(path[0])), true) {
					return
				}
			}
			if !must("Commit", rwtx.Commit(), true) {
				return
			}
		}
		rb, m := x.navR(tx, x.committed, path)
		if rb == nil || m == nil {
			return
		}
		b, ok := rb.(walletdb.ReadWriteBucket)
		if !ok {
			return
		}
		key := kb
		if len(key) == 0 {
			key = []byte("k")
		}
		if _, isB := m.Sub[string(key)]; !isB {
			if !must("Put", b.Put(key, []byte("ro")), true) {
				return
			}
			if !must("Delete", b.Delete(key), true) {
				return
			}
		}
		if _, isV := m.KV[string(key)]; !isV {
			_, err := b.CreateBucket(key)
			if !must("CreateBucket", err, true) {
				return
			}
			if _, isB := m.Sub[string(key)]; !isB {
				_, err = b.CreateBucketIfNotExists(key)
				if !must("CreateBucketIfNotExists", err, true) {
					return
				}
			}
		}
		if _, isB := m.Sub[string(key)]; isB {
			if !must("DeleteNestedBucket", b.DeleteNestedBucket(key), true) {
				return
			}
		}
		_, err := b.NextSequence()
		if !must("NextSequence", err, false) {
			return
		}
		if !must("SetSequence", b.SetSequence(m.Seq+7), false) {
			return
		}
		c := b.ReadWriteCursor()
		if k, _ := c.First(); k != nil {
			if _, isB := m.Sub[string(k)]; !isB {
				if !must("CursorDelete", c.Delete(), true) {
					return
				}
			}
		}
	}
	if managed {
		if err := walletdb.View(x.db.Inner, func(tx walletdb.ReadTx) error { try(tx); return nil }); err != nil && !env.Failed() {
			x.fail("view-failed", "View: %v", err)
		}
	} else {
		tx, err := x.db.Inner.BeginReadTx()
		if err != nil {
			x.fail("unusable:BeginReadTx", "BeginReadTx: %v", err)
			return
		}
		try(tx)
		if err := tx.Rollback(); err != nil && !env.Failed() {
			x.fail("rollback-failed:read-tx", "Rollback: %v", err)
		}
	}
	if env.Failed() {
		return
	}
	if attempts > 0 {
		env.Count("probe.readonly-mutation-attempts")
		env.Eff()
	}
	env.Logf("romut attempts=%d", attempts)
	x.verifyCommitted("readonly-modified-db")
}

// ---------------------------------------------------------------- helpers

func mod(v, n int64) int64 {
	if n <= 0 {
		return 0
	}
	v %= n
	if v < 0 {
		v += n
	}
	return v
}

func hasPrefix(s, pre string) bool { return len(s) > len(pre) && s[:len(pre)] == pre }

func short(b []byte) []byte {
	if len(b) > 20 {
		return append(append([]byte{}, b[:20]...), '.', '.')
	}
	return b
}

func shortList(ks []string) string {
	s := "["
	for i, k := range ks {
		if i > 0 {
			s += " "
		}
		if i >= 12 {
			s += "…"
			break
		}
		s += fmt.Sprintf("%x", short([]byte(k)))
	}
	return s + "]"
}

func keyOrNil(k []byte) string {
	if k == nil {
		return "nil"
	}
	return fmt.Sprintf("%x", short(k))
}

func equalStrings(a, b []string) bool {
	if len(a) != len(b) {
		return false
	}
	for i := range a {
		if a[i] != b[i] {
			return false
		}
	}
	return true
}

func apiName(a int64) string {
	return [...]string{"Update", "BeginReadWriteTx", "View", "BeginReadTx", "Batch"}[a]
}

func outName(o int64) string {
	return [...]string{"commit", "error", "panic", "commit-failure", "write-failure"}[o]
}

// batchGroup: n callers use walletdb.Batch at the same time (started one
// simulated millisecond apart, so that their arrival order is a function of
// the plan; bbolt's batching window is 10 ms). Callers in mask return an error
// after writing. Every caller that returned nil must find all of its writes
// committed, the others none, and each failing caller gets its own error.
func (x *exec) batchGroup(o core.Op) {
	env := x.env
	n, mask, seq := o.Arg(0), o.Arg(1), o.Arg(2)
	if n < 2 {
		n = 2
	}
	if n > 4 {
		n = 4
	}
	env.Count("op.batch-group")
	env.Eff()
	errs := make([]error, n)
	calls := make([]int, n)
	// the callers are plain goroutines and run in parallel (dbsim has no
	// scheduler of its own): the completion count is atomic
	var done atomic.Int32
	for i := 0; i < int(n); i++ {
		i := i
		go func() {
			defer done.Add(1)
			time.Sleep(time.Duration(i) * time.Millisecond)
			errs[i] = walletdb.Batch(x.db.Inner, func(tx walletdb.ReadWriteTx) error {
				calls[i]++
				b := tx.ReadWriteBucket([]byte(bgBucket))
				if b == nil {
					var err error
					b, err = tx.CreateTopLevelBucket([]byte(bgBucket))
					if err != nil {
						return err
					}
				}
				for _, kv := range batchCallerKeys(seq, i) {
					if err := b.Put([]byte(kv[0]), []byte(kv[1])); err != nil {
						return err
					}
				}
				if mask&(1<<uint(i)) != 0 {
					return errUser
				}
				return nil
			})
		}()
	}
	for w := 0; int(done.Load()) < int(n) && w < 10000; w++ {
		time.Sleep(time.Millisecond)
	}
	if d := int(done.Load()); d < int(n) {
		x.fail("batch-group:caller-never-returned", "%d of %d concurrent Batch callers did not return within 10 simulated seconds", int(n)-d, n)
		return
	}
	failing := 0
	for i := 0; i < int(n); i++ {
		if mask&(1<<uint(i)) != 0 {
			failing++
			if !errors.Is(errs[i], errUser) {
				x.fail("batch-group:error-not-returned", "caller %d's function failed, Batch returned %v", i, errs[i])
				return
			}
		} else if errs[i] != nil {
			x.fail("batch-group:commit-failed", "caller %d's function returned nil, Batch returned %v", i, errs[i])
			return
		}
		if calls[i] > 1 {
			env.Count("probe.batch-function-rerun")
		}
	}
	if failing > 0 && failing < int(n) {
		env.Count("probe.batch-group-with-failing-sibling")
	}
	applyBatchGroup(x.committed, n, mask, seq)
	x.verifyCommitted("batch-group:acknowledged-writes-lost-or-failed-writes-kept")
}
