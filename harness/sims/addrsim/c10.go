package addrsim

import (
	"errors"
	"fmt"
	"strings"

	"github.com/btcsuite/btcwallet/snacl"
	"github.com/btcsuite/btcwallet/waddrmgr"
	"github.com/btcsuite/btcwallet/walletdb"

	"verifsim/core"
	"verifsim/faultdb"
	"verifsim/models/dbmodel"
)

// C10 — fault enumeration for the address manager. The host workload is an
// ordinary fault-free history. Every read-write transaction of an operation
// selected in the Plan (Op.S[0] == "enum"; quick: about one mutating
// operation in three, thorough: all) is executed like this, every attempt
// from the same pre-state:
//
//	k = 1, 2, ... faultdb.Arm(k): the k-th mutating database call of the
//	              transaction fails, until the attempt in which position k is
//	              never reached (k = n+1). No separate counting run is made.
//	commit        in that attempt the operation ran to its end; its commit is
//	              failed (position n+1 of DESIGN §6 C10): rolled back, error,
//	              no commit callbacks.
//	retry         one more attempt without any fault, which commits.
//	fault fired   the operation must return an error, or (swallowed) the
//	              in-transaction dump must equal the full effect committed by
//	              the final attempt (fault-swallowed); after the rollback
//	              (a) the dump of the whole waddrmgr namespace equals the
//	                  pre-state dump                          (rollback-leak)
//	              (b) the RUNNING manager answers the restart observer's query
//	                  set as before the operation, its lock state is the
//	                  same and, for passphrase changes, the passphrases behave
//	                  as before                (state-changed-after-failed)
//	verdict       the retry must succeed where the model says the
//	              operation succeeds (retry-differs) and the operation's
//	              normal model checks (same address, same account number as a
//	              run without faults) apply to its result. After the whole
//	              enumeration the running manager is compared once with a
//	              manager freshly opened on the committed image.
//
// Entropy: snacl's nonce source is re-seeded identically before every
// attempt, so the ciphertexts written by two attempts of the same operation
// are equal byte for byte and dumps can be compared.
const enumCap = 400

var errEnumRollback = errors.New("addrsim: enumeration attempt that swallowed a fault, never committed")

type c10state struct {
	r        *run
	q        *c08state // query engine of the restart observer (never run as an observer here)
	thorough bool
	enum     bool   // the current operation is selected
	kind     string // its kind (with variant)
	// extra, when set by an operation, is an additional "as before" check
	// run after every failed attempt; it returns a query class and a message
	// when something changed.
	extra func() (string, string)
	// failedAttempts of the current operation (for the retry verdict)
	failedAttempts int
	needResync     bool
}

func newC10(r *run) *c10state {
	return &c10state{r: r, q: &c08state{r: r}, thorough: r.p.Tier == "thorough"}
}

// enumTarget is the database / manager pair an enumeration runs against: the
// run's own, or the copy a conversion to watching-only works on.
type enumTarget struct {
	db  *faultdb.DB
	mgr func() *waddrmgr.Manager
}

type c10obs struct {
	dump      *dbmodel.Bucket
	ans       []qa
	locked    bool
	watchOnly bool
}

func (c *c10state) observe(t enumTarget) (*c10obs, error) {
	o := &c10obs{}
	err := viewDB(t.db, func(ns walletdb.ReadBucket) error {
		var prob string
		o.dump, prob = dbmodel.DumpBucket(ns)
		if prob != "" {
			return errors.New("dump: " + prob)
		}
		return nil
	})
	if err != nil {
		return nil, err
	}
	o.ans = c.q.answers(t.mgr(), t.db, false, false)
	o.locked = t.mgr().IsLocked()
	o.watchOnly = t.mgr().WatchOnly()
	return o, nil
}

func coarse(class string) string {
	if i := strings.IndexByte(class, '.'); i > 0 {
		return class[:i]
	}
	return class
}

// unchanged checks (a) and (b) after a failed attempt. It returns ok=false
// when something changed; stop tells whether the run must end (an unknown
// violation) or a known finding was looked beyond.
func (c *c10state) unchanged(t enumTarget, pre *c10obs, what string) (ok bool) {
	r := c.r
	now, err := c.observe(t)
	if err != nil {
		r.fail("state-changed-after-failed:op="+c.kind+":query=error", "after the failed attempt (%s) of %s the state cannot be read: %v", what, c.kind, err)
		return false
	}
	if d := dbmodel.Diff(pre.dump, now.dump); d != "" {
		r.fail("rollback-leak:op="+c.kind, "after the failed attempt (%s) of %s the database differs from the pre-state:\n%s", what, c.kind, d)
		return false
	}
	if now.watchOnly != pre.watchOnly {
		r.fail("state-changed-after-failed:op="+c.kind+":query=watch-only", "after the failed attempt (%s) of %s WatchOnly() is %v, it was %v", what, c.kind, now.watchOnly, pre.watchOnly)
		return false
	}
	if now.locked != pre.locked {
		r.fail("state-changed-after-failed:op="+c.kind+":query=lock-state", "after the failed attempt (%s) of %s IsLocked() is %v, it was %v", what, c.kind, now.locked, pre.locked)
		return false
	}
	bm := make(map[string]string, len(now.ans))
	for _, q := range now.ans {
		bm[q.key] = q.val
	}
	for _, q := range pre.ans {
		v, present := bm[q.key]
		if !present {
			v = "<no answer>"
		}
		if v != q.val {
			r.fail("state-changed-after-failed:op="+c.kind+":query="+coarse(q.class),
				"after the failed attempt (%s) of %s the running manager answers query %s with %q; before the operation it answered %q (the transaction was rolled back, the database is unchanged)",
				what, c.kind, q.key, v, q.val)
			return false
		}
	}
	if c.extra != nil {
		if class, msg := c.extra(); class != "" {
			r.fail("state-changed-after-failed:op="+c.kind+":query="+class, "after the failed attempt (%s) of %s: %s", what, c.kind, msg)
			return false
		}
	}
	return true
}

func nBucket(n int) string {
	switch {
	case n == 0:
		return "n=0"
	case n <= 4:
		return "n<=4"
	case n <= 16:
		return "n<=16"
	case n <= 64:
		return "n<=64"
	}
	return "n>64"
}

// reseed makes snacl draw the same nonces in every attempt of an operation.
func (c *c10state) reseed() {
	snacl.VerifSetPRNG(core.NewRand(core.Mix(c.r.p.Seed, 0x6e6f6e6365, uint64(c.r.opIdx))))
}

// enumerate runs one read-write transaction under the protocol above and
// returns how the final attempt ended. aborted is set when a known finding
// was looked beyond: memory is no longer what the model describes, the caller
// resynchronises and the operation counts as not executed.
func (c *c10state) enumerate(t enumTarget, f func(ns walletdb.ReadWriteBucket) error) (res txResult) {
	r := c.r
	env := r.env
	c.failedAttempts = 0
	defer snacl.VerifSetPRNG(nil)
	pre, err := c.observe(t)
	if err != nil {
		r.harnessTrouble("c10-observe", err)
		res.aborted = true
		return res
	}
	type attempt struct {
		opErr    error
		uerr     error
		fired    bool
		post     *dbmodel.Bucket
		panicked any
	}
	// run executes one attempt. k > 0: the k-th mutating call fails; when
	// that position is not reached and failCommit is set, the commit fails
	// instead (position n+1); k == 0: no fault at all (the retry).
	run := func(k int, failCommit bool) attempt {
		var a attempt
		t.db.Reset()
		if k > 0 {
			t.db.Arm(k)
		}
		c.reseed()
		a.uerr = updateDB(t.db, func(ns walletdb.ReadWriteBucket) error {
			func() {
				defer func() {
					if p := recover(); p != nil {
						a.panicked = p
						a.opErr = errPanicked
					}
				}()
				a.opErr = f(ns)
			}()
			a.fired = t.db.Fired > 0
			if a.opErr != nil {
				return a.opErr
			}
			if a.fired {
				// the operation reported success although a write failed:
				// keep what it would have committed, commit nothing
				a.post, _ = dbmodel.DumpBucket(ns)
				return errEnumRollback
			}
			if failCommit {
				// what a failed commit is to the caller: the function ran
				// to its end, the transaction is rolled back, an error comes
				// back, no commit callback runs. What it would have
				// committed is "the full effect of the operation".
				a.post, _ = dbmodel.DumpBucket(ns)
				return faultdb.ErrInjectedCommit
			}
			return nil
		})
		t.db.Reset()
		return a
	}
	type swallowed struct {
		k    int
		dump *dbmodel.Bucket
	}
	var sw []swallowed
	n := 0
	judgeSwallowed := func(full *dbmodel.Bucket, fullErr error) {
		for _, sw1 := range sw {
			d := "the fault-free attempt returns an error: " + fmt.Sprint(fullErr)
			if full != nil {
				d = dbmodel.Diff(full, sw1.dump)
			}
			if d != "" {
				r.fail("fault-swallowed:op="+c.kind, "%s: write %d of %d failed (injected) but the manager reported success; the transaction would commit a partial effect. Difference to the full effect (want = fault-free attempt, got = this attempt):\n%s", c.kind, sw1.k, n, d)
				return
			}
			env.Count("enum.swallowed-without-effect")
		}
		sw = nil
	}
	known := func() txResult {
		// A known finding was looked beyond: memory is no longer what the
		// model describes. Swallowed faults seen so far are still judged:
		// the manager is resynchronised with the file and one rolled-back
		// fault-free attempt gives the full effect to compare with.
		if len(sw) > 0 && t.db == r.db && c.resync() {
			a := run(1<<30, true)
			if a.panicked == nil {
				judgeSwallowed(a.post, a.opErr)
			}
		}
		c.needResync = true
		return txResult{aborted: true, kind: "enum-aborted", err: errEnumRollback}
	}

	var final attempt
	for k := 1; ; k++ {
		if k > enumCap {
			env.Count("enum.capped")
			break
		}
		a := run(k, true)
		if a.panicked != nil {
			return txResult{err: a.uerr, opErr: a.opErr, kind: "op-error", panicked: a.panicked}
		}
		if !a.fired {
			// position k was not reached: n = k-1 writes. Either the call
			// refused (its verdict is final), or it ran to its end and the
			// commit was failed (position n+1).
			final = a
			break
		}
		n = k
		c.failedAttempts++
		env.Count("fault.write-failure")
		env.Count("tx.rolledback")
		switch {
		case c.kind == "next" && k == 5:
			env.Count("probe.fault-inside-next-after-first-address")
		case strings.HasPrefix(c.kind, "chpass") && k == 2:
			env.Count("probe.fault-inside-chpass-between-the-puts")
		case c.kind == "convert" && k == 3:
			env.Count("probe.fault-inside-convert")
		case c.kind == "rename" && k == 2:
			env.Count("probe.fault-inside-rename-after-index-delete")
		}
		if a.opErr == nil {
			sw = append(sw, swallowed{k, a.post})
			res.ranOK = true
		}
		if !c.unchanged(t, pre, fmt.Sprintf("write %d failed", k)) {
			if r.stop {
				return res
			}
			return known()
		}
	}
	env.Count("enum.ops")
	env.Add("enum.k_positions", int64(n))
	env.Count("enum.op." + c.kind)
	env.Count("enum." + nBucket(n) + "." + c.kind)
	// "either reports an error or its full effect is applied": the full
	// effect is what the attempt that was not hit by a write fault wrote
	// before its commit was failed.
	full := final.post
	judgeSwallowed(full, final.opErr)
	if r.stop {
		return res
	}
	if final.opErr == nil && final.uerr != nil {
		// the commit-failure attempt
		env.Count("fault.commit-failure")
		env.Count("tx.rolledback")
		env.Count("enum.commit_positions")
		c.failedAttempts++
		res.ranOK = true
		if !c.unchanged(t, pre, "the commit failed") {
			if r.stop {
				return res
			}
			return known()
		}
		// the retry: no fault
		final = run(0, false)
		if final.panicked != nil {
			return txResult{err: final.uerr, opErr: final.opErr, kind: "op-error", panicked: final.panicked}
		}
	}
	res.err, res.opErr = final.uerr, final.opErr
	res.failedAttempts = c.failedAttempts
	if final.uerr == nil {
		res.committed = true
		env.Count("tx.committed")
		if full != nil {
			var got *dbmodel.Bucket
			_ = viewDB(t.db, func(ns walletdb.ReadBucket) error { got, _ = dbmodel.DumpBucket(ns); return nil })
			if d := dbmodel.Diff(full, got); d != "" {
				r.fail("retry-differs:op="+c.kind+":database", "%s: after %d failed attempts the retry committed a different database than the fault-free attempt from the same state:\n%s", c.kind, c.failedAttempts, d)
			}
		}
	} else {
		res.kind = "op-error"
		env.Count("tx.rolledback")
	}
	return res
}

// afterEnumerated compares, once per enumerated operation and after its
// model update, the running manager with a manager freshly opened on the
// committed image (the restart observer's comparison).
func (c *c10state) afterEnumerated() {
	r := c.r
	if r.stop || r.mgr == nil {
		return
	}
	c.q.observations++
	fdb, fresh, ok := c.q.openImage()
	if !ok {
		return
	}
	defer func() {
		fresh.Close()
		fdb.Close()
	}()
	a := c.q.answers(r.mgr, r.db, false, false)
	b := c.q.answers(fresh, fdb, false, false)
	bm := make(map[string]string, len(b))
	for _, q := range b {
		bm[q.key] = q.val
	}
	for _, q := range a {
		if q.class == "account.IsWatchOnly" && !r.locked {
			continue
		}
		v, present := bm[q.key]
		if !present {
			v = "<no answer>"
		}
		if v != q.val {
			if !r.fail("state-differs-from-reopen:op="+c.kind+":query="+coarse(q.class),
				"after the enumeration of %s (%d failed attempts, then the committed retry) the running manager answers %s with %q, a manager freshly opened on the committed file answers %q",
				c.kind, c.failedAttempts, q.key, q.val, v) {
				c.needResync = true
			}
			return
		}
	}
}

// resync brings the run's manager back to what is on disk (after a known
// finding left memory beside the file) and restores the lock state.
func (c *c10state) resync() bool {
	r := c.r
	c.needResync = false
	wasLocked := r.locked
	if !r.reopen(r.path) {
		return false
	}
	if !wasLocked {
		if err, _ := r.unlockWith(append([]byte(nil), r.m.Priv...)); err == nil {
			r.locked = false
		} else {
			r.locked = r.mgr.IsLocked()
		}
	}
	return true
}
