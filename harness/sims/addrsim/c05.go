package addrsim

import (
	"fmt"
	"sort"

	"github.com/btcsuite/btcd/btcec/v2"
	"github.com/btcsuite/btcd/btcutil"
	"github.com/btcsuite/btcwallet/waddrmgr"
	"github.com/btcsuite/btcwallet/walletdb"
)

// c05state is the lock model's bookkeeping: aliases of clear-text secret
// buffers captured while the manager was unlocked, and the derivation paths
// that were requested through the key cache.
type c05state struct {
	r       *run
	aliases map[uintptr]waddrmgr.VerifSecretBuf
	paths   []cachedPath // paths requested through DeriveFromKeyPathCache while unlocked
	sweeps  int
}

type cachedPath struct {
	si     int
	acct   uint32
	branch uint32
	index  uint32
}

func newC05(r *run) *c05state {
	return &c05state{r: r, aliases: map[uintptr]waddrmgr.VerifSecretBuf{}}
}

func (c *c05state) reset() {
	c.aliases = map[uintptr]waddrmgr.VerifSecretBuf{}
	c.paths = nil
}

// capture remembers an alias of every live secret buffer reachable from the
// manager. Only meaningful while unlocked.
func (c *c05state) capture() {
	r := c.r
	if r.locked || r.mgr == nil {
		return
	}
	for _, b := range r.mgr.VerifSecretBuffers() {
		if !b.Secret || len(b.Bytes) == 0 || !b.Live() {
			continue
		}
		if _, ok := c.aliases[b.ID]; !ok {
			c.aliases[b.ID] = b
		}
	}
}

func (c *c05state) beforeLock() {
	r := c.r
	if r.locked {
		return
	}
	c.capture()
	cached, script := false, false
	for si := range r.m.Scopes {
		if sm := r.scoped(si); sm != nil && sm.VerifCacheLen() > 0 {
			cached = true
		}
	}
	for _, b := range c.aliases {
		if b.Kind == "scriptClearText" || b.Kind == "witnessScriptClearText" {
			script = true
		}
	}
	if cached {
		r.env.Count("probe.lock-with-cached-derived-key")
	}
	if script {
		r.env.Count("probe.lock-with-script-address-loaded")
	}
}

// afterLock is called after the manager went from unlocked to locked (Lock,
// or an Unlock with a wrong passphrase): every buffer captured while
// unlocked must now read all-zero, and a fresh enumeration must report no
// live secret.
func (c *c05state) afterLock(cause string) {
	r := c.r
	r.env.Count("probe.memory-check-after-" + cause)
	type bad struct{ kind, where, how string }
	var bads []bad
	ids := make([]uintptr, 0, len(c.aliases))
	for id := range c.aliases {
		ids = append(ids, id)
	}
	// order by (kind, where): deterministic and independent of addresses
	sort.Slice(ids, func(i, j int) bool {
		a, b := c.aliases[ids[i]], c.aliases[ids[j]]
		if a.Kind != b.Kind {
			return a.Kind < b.Kind
		}
		return a.Where < b.Where
	})
	reachable := map[uintptr]bool{}
	for _, b := range r.mgr.VerifSecretBuffers() {
		reachable[b.ID] = true
		if b.Secret && b.Live() {
			bads = append(bads, bad{b.Kind, b.Where, "still reachable from the manager and non-zero"})
		}
	}
	for _, id := range ids {
		b := c.aliases[id]
		if !b.Live() || reachable[id] {
			continue
		}
		// The buffer was reachable from the manager while unlocked, is not
		// any more, and was dropped without being cleared (for an address
		// key: the cache entry was evicted by MarkUsed or replaced).
		kind := "evicted-cache-entry"
		switch b.Kind {
		case "privKeyCT", "lastAddrPrivKeyCT", "scriptClearText", "witnessScriptClearText":
		default:
			kind = b.Kind + ":old-buffer-uncleared"
		}
		bads = append(bads, bad{kind, b.Kind + " " + b.Where, "buffer captured while unlocked was dropped by the manager (cache entry evicted or replaced) without being zeroed"})
	}
	c.aliases = map[uintptr]waddrmgr.VerifSecretBuf{}
	seen := map[string]bool{}
	for _, b := range bads {
		if seen[b.kind] {
			continue
		}
		seen[b.kind] = true
		if r.fail("memory-not-wiped:buffer="+b.kind, "after %s the clear-text secret buffer %s (%s) was not wiped: %s", cause, b.kind, b.where, b.how) {
			return
		}
	}
}

// denied checks that a private accessor fails with a locked / watching-only
// error in the current (locked or watching-only) state.
func (c *c05state) denied(accessor string, f func() error) bool {
	return deniedOn(c.r, accessor, "locked", f)
}

func deniedOn(r *run, accessor, state string, f func() error) bool {
	err := f()
	r.env.Count("c05.accessor-probed")
	if err == nil {
		return !r.fail("privkey-after-lock:accessor="+accessor+stateSuffix(state),
			"%s succeeded while the manager is %s", accessor, state)
	}
	if !isLockErr(err) {
		return !r.fail("wrong-error-class:accessor="+accessor+":got="+errName(err)+stateSuffix(state),
			"%s failed with %v while %s; the property demands a locked / watching-only error", accessor, err, state)
	}
	return true
}

func stateSuffix(state string) string {
	if state == "locked" {
		return ""
	}
	return ":state=" + state
}

// afterOp runs after every operation: capture while unlocked, sweep the
// private accessors while locked.
func (c *c05state) afterOp() {
	r := c.r
	if r.mgr == nil {
		return
	}
	if !r.locked {
		c.capture()
		return
	}
	c.sweeps++
	c.sweep(r.mgr, r.db, "locked", c.sweeps%8 == 0)
}

var probeBlob = make([]byte, 64)

// sweep probes every private accessor on a sample of managed objects (all of
// them when full) of a manager that is locked or watching-only.
func (c *c05state) sweep(mgr *waddrmgr.Manager, db walletdb.DB, state string, full bool) {
	r := c.r
	for _, kt := range []struct {
		name string
		t    waddrmgr.CryptoKeyType
	}{{"CKTPrivate", waddrmgr.CKTPrivate}, {"CKTScript", waddrmgr.CKTScript}} {
		kt := kt
		if !deniedOn(r, "Decrypt:"+kt.name, state, func() error { _, err := mgr.Decrypt(kt.t, probeBlob); return err }) {
			return
		}
		if !deniedOn(r, "Encrypt:"+kt.name, state, func() error { _, err := mgr.Encrypt(kt.t, probeBlob[:16]); return err }) {
			return
		}
	}
	if mgr != r.mgr {
		return // the converted copy is probed object by object by its caller
	}
	// sample of managed objects
	ni, nm := len(r.m.Issued), len(r.m.Imps)
	pick := func(n, k int) []int {
		if n == 0 {
			return nil
		}
		if full || n <= 3 {
			out := make([]int, n)
			for i := range out {
				out[i] = i
			}
			if n > 40 {
				out = out[n-40:]
			}
			return out
		}
		return []int{(c.sweeps * 7) % n, (c.sweeps*13 + 1) % n, n - 1}
	}
	for _, i := range pick(ni, 3) {
		if !r.checkIssued(i, i%2 == 0) {
			return
		}
	}
	for _, i := range pick(nm, 3) {
		if !r.checkImported(i, i%2 == 0) {
			return
		}
	}
	// operations that need private material
	if full || c.sweeps%4 == 1 {
		si := c.sweeps % len(r.m.Scopes)
		sm := r.scoped(si)
		if sm != nil {
			probe := func(name string, f func(ns walletdb.ReadWriteBucket) error) bool {
				return deniedOn(r, name, state, func() error {
					var opErr error
					_ = r.update(func(ns walletdb.ReadWriteBucket) error {
						opErr = f(ns)
						return errRollback // never keep anything a probe did
					})
					return opErr
				})
			}
			ok := probe("NewAccount", func(ns walletdb.ReadWriteBucket) error {
				_, err := sm.NewAccount(ns, "c05-probe")
				return err
			}) && probe("NewRawAccount", func(ns walletdb.ReadWriteBucket) error {
				return sm.NewRawAccount(ns, 7777)
			}) && probe("ImportPrivateKey", func(ns walletdb.ReadWriteBucket) error {
				wif, _ := btcutil.NewWIF(importKey(r.p.Seed, 90), r.net, true)
				_, err := sm.ImportPrivateKey(ns, wif, nil)
				return err
			}) && probe("ImportScript", func(ns walletdb.ReadWriteBucket) error {
				_, err := sm.ImportScript(ns, importScriptBytes(r.p.Seed, 990), r.curStamp())
				return err
			}) && probe("ImportWitnessScript", func(ns walletdb.ReadWriteBucket) error {
				_, err := sm.ImportWitnessScript(ns, importScriptBytes(r.p.Seed, 991), r.curStamp(), 0, true)
				return err
			}) && probe("NewScopedKeyManager", func(ns walletdb.ReadWriteBucket) error {
				_, err := mgr.NewScopedKeyManager(ns, waddrmgr.KeyScope{Purpose: 9999, Coin: 1},
					waddrmgr.ScopeAddrSchema{ExternalAddrType: waddrmgr.WitnessPubKey, InternalAddrType: waddrmgr.WitnessPubKey})
				return err
			})
			if !ok {
				return
			}
		}
	}
	// derivation by path: a path requested before (cache warm) and a new one
	var paths []cachedPath
	if n := len(c.paths); n > 0 {
		paths = append(paths, c.paths[(c.sweeps*5)%n])
		if full {
			paths = c.paths
		}
	}
	si := (c.sweeps * 3) % len(r.m.Scopes)
	sc := &r.m.Scopes[si]
	a := &sc.Accts[c.sweeps%len(sc.Accts)]
	paths = append(paths, cachedPath{si, a.Num, uint32(c.sweeps % 2), uint32(310 + c.sweeps%50)})
	for _, p := range paths {
		if !c.derivationDenied(p) {
			return
		}
	}
}

// derivationDenied checks "derivation by path" on a locked manager: the
// cache accessor must not hand out a key, the plain derivation must yield an
// address without key material, and the wallet-level composition of the two
// (cache, then DeriveFromKeyPath + PrivKey — what Wallet.DeriveFromKeyPath
// does) must fail with a locked error.
func (c *c05state) derivationDenied(p cachedPath) bool {
	r := c.r
	if p.si >= len(r.m.Scopes) {
		return true
	}
	sc := &r.m.Scopes[p.si]
	a := sc.acct(p.acct)
	sm := r.scoped(p.si)
	if a == nil || sm == nil {
		return true
	}
	kp := r.kpFor(sc, a, p.branch, p.index)
	var priv *btcec.PrivateKey
	priv, err := sm.DeriveFromKeyPathCache(kp)
	r.env.Count("c05.accessor-probed")
	if err == nil && priv != nil {
		if r.fail("privkey-after-lock:accessor=DeriveFromKeyPathCache",
			"DeriveFromKeyPathCache(account %d, branch %d, index %d) returned a private key while the manager is locked",
			p.acct, p.branch, p.index) {
			return false
		}
	}
	var ma waddrmgr.ManagedAddress
	err = r.view(func(ns walletdb.ReadBucket) error {
		var e error
		ma, e = sm.DeriveFromKeyPath(ns, kp)
		return e
	})
	r.env.Count("c05.accessor-probed")
	if err != nil {
		// an error is an acceptable way of not revealing anything, but it
		// has to be of the right class
		if !isLockErr(err) {
			return !r.fail("wrong-error-class:accessor=DeriveFromKeyPath:got="+errName(err),
				"DeriveFromKeyPath failed with %v while locked", err)
		}
		return true
	}
	if ct := waddrmgr.VerifAddrPrivCT(ma); len(ct) > 0 {
		return !r.fail("privkey-after-lock:accessor=DeriveFromKeyPath",
			"DeriveFromKeyPath while locked returned an address object that carries a clear-text private key")
	}
	if pka, ok := ma.(waddrmgr.ManagedPubKeyAddress); ok {
		if !c.denied("DeriveFromKeyPath+PrivKey", func() error { _, err := pka.PrivKey(); return err }) {
			return false
		}
	}
	return true
}

// notePath records a path requested through the key cache while unlocked.
func (c *c05state) notePath(si int, acct, branch, index uint32) {
	if len(c.paths) < 64 {
		c.paths = append(c.paths, cachedPath{si, acct, branch, index})
	}
}

// unlockContext qualifies an unlock failure with the history shape that
// matters for triage (no data, only shape).
func (c *c05state) unlockContext() string {
	// (used to qualify unlock failures while imported accounts broke Unlock;
	// that defect is repaired, one signature per failure class is enough)
	return ""
}

// afterChpass: the new passphrase works and the old one fails, immediately.
//
// check selects how much is verified right away: 0 everything (this forces a
// lock cycle when the manager was unlocked), 1 only what can be verified
// without leaving the state the change produced (so that the following
// operations of the plan run in exactly that state), 2 nothing.
func (c *c05state) afterChpass(private bool, check int64) {
	r := c.r
	if check == 2 {
		return
	}
	if !private {
		c.pubPassNow()
		return
	}
	was := r.locked
	old := r.m.OldPriv[len(r.m.OldPriv)-1]
	if !was {
		// (a) the new passphrase on the still unlocked manager (Unlock's
		// already-unlocked path compares a salted hash kept in memory): it
		// must be accepted and the manager must stay unlocked.
		err, _ := r.unlockWith(append([]byte(nil), r.m.Priv...))
		r.env.Count("probe.unlock-new-passphrase-while-still-unlocked")
		if err != nil || r.mgr.IsLocked() {
			r.locked = r.mgr.IsLocked()
			r.fail("unlock-failed:new-passphrase:"+errName(err)+":was=unlocked"+c.unlockContext(),
				"Unlock with the new private passphrase on the still unlocked manager right after ChangePassphrase returned %v (IsLocked=%v)", err, r.mgr.IsLocked())
			return
		}
	}
	if check == 1 {
		return
	}
	if !was {
		c.beforeLock()
	}
	err, _ := r.unlockWith(append([]byte(nil), old...))
	if err == nil {
		r.fail("old-passphrase-still-works:when=immediately", "Unlock with the previous private passphrase succeeded right after ChangePassphrase")
		return
	}
	if !isCode(err, waddrmgr.ErrWrongPassphrase) {
		r.fail("unlock-wrong-error-class:"+errName(err), "Unlock with the previous private passphrase failed with %v", err)
		return
	}
	if !r.mgr.IsLocked() {
		r.fail("failed-unlock-leaves-unlocked:was="+map[bool]string{true: "locked", false: "unlocked"}[was],
			"after a failed Unlock with the previous passphrase the manager is not locked")
		return
	}
	r.locked = true
	if !was {
		c.afterLock("failed-unlock")
		if r.stop {
			return
		}
	}
	err, _ = r.unlockWith(append([]byte(nil), r.m.Priv...))
	if err != nil {
		r.fail("unlock-failed:new-passphrase:"+errName(err)+c.unlockContext(), "Unlock with the new private passphrase failed right after ChangePassphrase: %v", err)
		return
	}
	r.locked = false
	if was {
		c.beforeLock()
		if err := r.mgr.Lock(); err != nil {
			r.fail("op-failed:lock:"+errName(err), "Lock failed: %v", err)
			return
		}
		r.locked = true
		c.afterLock("lock")
	}
}

// pubPassNow opens a second manager instance on the same database: the old
// public passphrase must be refused, the new one accepted.
func (c *c05state) pubPassNow() {
	r := c.r
	old := r.m.OldPub[len(r.m.OldPub)-1]
	err := r.view(func(ns walletdb.ReadBucket) error {
		m2, err := waddrmgr.Open(ns, old, r.net)
		if err == nil {
			m2.Close()
		}
		return err
	})
	if err == nil {
		r.fail("old-public-passphrase-still-works:when=immediately", "Open with the previous public passphrase succeeded right after ChangePassphrase")
		return
	}
	if !isCode(err, waddrmgr.ErrWrongPassphrase) {
		r.fail("open-wrong-error-class:"+errName(err), "Open with the previous public passphrase failed with %v", err)
		return
	}
	err = r.view(func(ns walletdb.ReadBucket) error {
		m2, err := waddrmgr.Open(ns, r.m.Pub, r.net)
		if err == nil {
			m2.Close()
		}
		return err
	})
	if err != nil {
		r.fail("open-failed:new-public-passphrase:"+errName(err), "Open with the new public passphrase failed right after ChangePassphrase: %v", err)
	}
}

// oldPubMustFail runs at restart, before the real Open: every earlier public
// passphrase must be refused.
func (c *c05state) oldPubMustFail() bool {
	r := c.r
	n := len(r.m.OldPub)
	if n == 0 {
		return true
	}
	old := r.m.OldPub[n-1]
	err := walletdb.View(r.db, func(tx walletdb.ReadTx) error {
		m2, err := waddrmgr.Open(tx.ReadBucket(nsKey), old, r.net)
		if err == nil {
			m2.Close()
		}
		return err
	})
	r.env.Count("probe.old-public-passphrase-after-restart")
	if err == nil {
		r.fail("old-public-passphrase-still-works:when=after-restart", "Open with the previous public passphrase succeeded after restart")
		return false
	}
	if !isCode(err, waddrmgr.ErrWrongPassphrase) {
		r.fail("open-wrong-error-class:"+errName(err), "Open with the previous public passphrase failed with %v after restart", err)
		return false
	}
	return true
}

func (c *c05state) final() {
	r := c.r
	if r.mgr == nil || r.locked {
		return
	}
	c.beforeLock()
	if err := r.mgr.Lock(); err != nil {
		r.fail("op-failed:lock:"+errName(err), "Lock failed: %v", err)
		return
	}
	r.locked = true
	c.afterLock("lock")
}

var _ = fmt.Sprintf
