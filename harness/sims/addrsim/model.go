package addrsim

import (
	"encoding/hex"
	"encoding/json"
	"errors"
	"fmt"
	"sort"

	"github.com/btcsuite/btcd/btcec/v2"
	"github.com/btcsuite/btcd/btcutil"
	"github.com/btcsuite/btcd/chaincfg"
	"github.com/btcsuite/btcwallet/waddrmgr"

	"verifsim/core"
	"verifsim/models/keyoracle"
)

// internalBranch is BIP44's change branch. Deliberately not taken from the
// package under test.
const internalBranch uint32 = 1

// Bounds (DESIGN §6 C03 B:).
const (
	maxIndex        = 300 // highest chained index a run creates
	maxAcctPerScope = 6
	maxScopes       = 7
	maxImports      = 24
	nOthers         = 3 // other seeds imported xpubs come from
)

// model is the abstract, persistent state of the wallet as the harness
// believes it to be COMMITTED on disk. It is plain data (JSON-clonable) so
// that a crash-restart can fall back to the model of an earlier commit.
type model struct {
	Priv, Pub []byte   // current passphrases
	OldPriv   [][]byte // every earlier private passphrase
	OldPub    [][]byte
	Scopes    []scopeM
	Issued    []addrM // committed chained addresses, in issue order
	Imps      []impM  // committed imports
	Sync      syncM
	NameCtr   int
	PassCtr   int
	UsedXpub  map[string]bool // other-seed account keys already imported
	UsedKeys  map[string]bool // import key indices already used ("k<idx>")
}

type scopeM struct {
	Purpose, Coin uint32
	Ext, Int      uint8 // waddrmgr.AddressType of the scope schema
	Custom        bool
	Accts         []acctM
	LastAcct      uint32
}

type acctM struct {
	Num      uint32
	Name     string
	OldNames []string
	// imported extended-public-key account
	Watch      bool
	Other      int    // which other seed
	OPurpose   uint32 // path of the imported account key below that seed
	OCoin      uint32
	OAcct      uint32
	HasOvr     bool
	OvrExt     uint8
	OvrInt     uint8
	MFP        uint32
	Next       [2]uint32 // committed next index, external / internal
	CreatedSeq int
}

type addrM struct {
	Scope  int
	Acct   uint32
	Branch uint32
	Index  uint32
	Addr   string
	By     string // "next" | "extend"
	State  string // lock state when created: "locked" | "unlocked"
	Used   bool
	Seq    int // op index that created it
}

type impM struct {
	Scope      int
	Kind       string // priv | pub | script | wscript | wscriptpub | tapscript
	Addr       string
	KeyIdx     int
	Compressed bool
	Script     []byte // script bytes (for tapscript: the leaf script)
	Secret     bool
	Used       bool
}

type syncM struct {
	Height int32
	Hash   []byte
	TS     int64
	Blocks map[string][]byte // height -> hash, all heights the db holds
	// wallet birthday (seconds) and birthday block
	Birthday   int64
	BBSet      bool
	BBHeight   int32
	BBHash     []byte
	BBTS       int64
	BBVerified bool
}

func (m *model) clone() *model {
	b, err := json.Marshal(m)
	if err != nil {
		panic(err)
	}
	c := &model{}
	if err := json.Unmarshal(b, c); err != nil {
		panic(err)
	}
	if c.UsedXpub == nil {
		c.UsedXpub = map[string]bool{}
	}
	if c.UsedKeys == nil {
		c.UsedKeys = map[string]bool{}
	}
	if c.Sync.Blocks == nil {
		c.Sync.Blocks = map[string][]byte{}
	}
	return c
}

func (s *scopeM) scope() waddrmgr.KeyScope {
	return waddrmgr.KeyScope{Purpose: s.Purpose, Coin: s.Coin}
}
func (s *scopeM) kscope() keyoracle.Scope {
	return keyoracle.Scope{Purpose: s.Purpose, Coin: s.Coin}
}

func (s *scopeM) acct(num uint32) *acctM {
	for i := range s.Accts {
		if s.Accts[i].Num == num {
			return &s.Accts[i]
		}
	}
	return nil
}

// addrTypeFor returns the address type the account must use on a branch:
// the account's overriding schema if it has one, else the scope's.
func (s *scopeM) addrTypeFor(a *acctM, branch uint32) waddrmgr.AddressType {
	ext, in := s.Ext, s.Int
	if a != nil && a.HasOvr {
		ext, in = a.OvrExt, a.OvrInt
	}
	if branch == internalBranch {
		return waddrmgr.AddressType(in)
	}
	return waddrmgr.AddressType(ext)
}

func toOracleType(t waddrmgr.AddressType) (keyoracle.AddrType, bool) {
	switch t {
	case waddrmgr.PubKeyHash:
		return keyoracle.P2PKH, true
	case waddrmgr.NestedWitnessPubKey:
		return keyoracle.NP2WKH, true
	case waddrmgr.WitnessPubKey:
		return keyoracle.P2WKH, true
	case waddrmgr.TaprootPubKey:
		return keyoracle.P2TR, true
	}
	return 0, false
}

// digest is a compact description of the model for the distinct-run hash.
func (m *model) digest() string {
	s := fmt.Sprintf("p%d/%d i%d m%d h%d", len(m.OldPriv), len(m.OldPub), len(m.Issued), len(m.Imps), m.Sync.Height)
	for _, sc := range m.Scopes {
		s += fmt.Sprintf("|%d'", sc.Purpose)
		for _, a := range sc.Accts {
			w := ""
			if a.Watch {
				w = "w"
			}
			s += fmt.Sprintf(" %d%s:%d,%d", a.Num, w, a.Next[0], a.Next[1])
		}
	}
	return s
}

// ---------------------------------------------------------------- fixed data

func netFor(k int64) *chaincfg.Params {
	// copies: the simulation never mutates the shared package-level params
	switch k {
	case 1:
		p := chaincfg.TestNet3Params
		return &p
	case 2:
		p := chaincfg.RegressionNetParams
		return &p
	}
	p := chaincfg.MainNetParams
	return &p
}

// walletSeed returns the k-th candidate wallet seed of a plan seed.
func walletSeed(planSeed uint64, k int64) []byte {
	r := core.NewRand(core.Mix(planSeed, 1, uint64(k)))
	n := 16 + r.Intn(49) // 16..64
	return r.Bytes(n)
}

func otherSeed(planSeed uint64, j int) []byte {
	r := core.NewRand(core.Mix(planSeed, 2, uint64(j)))
	return r.Bytes(32)
}

// passphrase i of the run; kind 0 private, 1 public. At least 16 bytes, mixed
// case so that a case flip is a different string.
func passphrase(planSeed uint64, kind, i int) []byte {
	r := core.NewRand(core.Mix(planSeed, 5, uint64(kind), uint64(i)))
	tag := "Priv"
	if kind == 1 {
		tag = "Publ"
	}
	return []byte(fmt.Sprintf("%sPw%d-%s", tag, i, hex.EncodeToString(r.Bytes(8))))
}

// importKey returns the idx-th importable private key of the run.
func importKey(planSeed uint64, idx int) *btcec.PrivateKey {
	r := core.NewRand(core.Mix(planSeed, 3, uint64(idx)))
	b := r.Bytes(32)
	b[0] &= 0x7f // below the group order
	if b[0] == 0 && b[1] == 0 {
		b[1] = 1
	}
	priv, _ := btcec.PrivKeyFromBytes(b)
	return priv
}

func blockHash(planSeed uint64, height int32, fork int64) []byte {
	r := core.NewRand(core.Mix(planSeed, 4, uint64(uint32(height)), uint64(fork)))
	return r.Bytes(32)
}

// importScriptBytes returns a pseudo redeem script (1-of-1 multisig shape
// over an import key); scripts are opaque to the manager.
func importScriptBytes(planSeed uint64, idx int) []byte {
	pub := importKey(planSeed, 500+idx).PubKey().SerializeCompressed()
	s := []byte{0x51, 0x21}
	s = append(s, pub...)
	s = append(s, 0x51, 0xae)
	return s
}

// ---------------------------------------------------------------- errors

// errCode extracts the waddrmgr error code of an error (value or pointer
// form, possibly wrapped); ok is false for any other error.
func errCode(err error) (waddrmgr.ErrorCode, bool) {
	if err == nil {
		return 0, false
	}
	var me waddrmgr.ManagerError
	if errors.As(err, &me) {
		return me.ErrorCode, true
	}
	var pme *waddrmgr.ManagerError
	if errors.As(err, &pme) && pme != nil {
		return pme.ErrorCode, true
	}
	return 0, false
}

func isCode(err error, codes ...waddrmgr.ErrorCode) bool {
	c, ok := errCode(err)
	if !ok {
		return false
	}
	for _, x := range codes {
		if c == x {
			return true
		}
	}
	return false
}

// errName is a stable short name of an error for logs and signatures: the
// manager error code if there is one, else a coarse class. Never the text.
func errName(err error) string {
	if err == nil {
		return "ok"
	}
	if c, ok := errCode(err); ok {
		return c.String()
	}
	switch {
	case errors.Is(err, errRollback):
		return "closure-error"
	}
	return "other-error"
}

// isLockErr is the class of errors the property demands from private
// accessors while locked or watching-only.
func isLockErr(err error) bool {
	return isCode(err, waddrmgr.ErrLocked, waddrmgr.ErrWatchingOnly)
}

var errRollback = errors.New("addrsim: deliberate rollback (dry run)")

// ---------------------------------------------------------------- misc

func sortedStrings(m map[string]bool) []string {
	ks := make([]string, 0, len(m))
	for k := range m {
		ks = append(ks, k)
	}
	sort.Strings(ks)
	return ks
}

// importedAddr computes, independently of the manager, the address an
// imported public key gets under an address type (the key is hashed in the
// serialization it was imported with).
func importedAddr(pub *btcec.PublicKey, compressed bool, t waddrmgr.AddressType,
	net *chaincfg.Params) (btcutil.Address, error) {

	ser := pub.SerializeCompressed()
	if !compressed {
		ser = pub.SerializeUncompressed()
	}
	h := btcutil.Hash160(ser)
	switch t {
	case waddrmgr.PubKeyHash:
		return btcutil.NewAddressPubKeyHash(h, net)
	case waddrmgr.WitnessPubKey:
		return btcutil.NewAddressWitnessPubKeyHash(h, net)
	case waddrmgr.NestedWitnessPubKey:
		script := append([]byte{0x00, 0x14}, h...)
		return btcutil.NewAddressScriptHashFromHash(btcutil.Hash160(script), net)
	case waddrmgr.TaprootPubKey:
		return btcutil.NewAddressTaproot(keyoracle.TaprootOutputKey(pub), net)
	}
	return nil, fmt.Errorf("unsupported type %v", t)
}
