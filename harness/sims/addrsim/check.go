package addrsim

import (
	"crypto/sha256"
	"fmt"
	"path/filepath"
	"time"

	"github.com/btcsuite/btcd/btcec/v2"
	"github.com/btcsuite/btcd/btcec/v2/ecdsa"
	"github.com/btcsuite/btcd/btcec/v2/schnorr"
	"github.com/btcsuite/btcd/btcutil"
	"github.com/btcsuite/btcd/btcutil/hdkeychain"
	"github.com/btcsuite/btcwallet/waddrmgr"
	"github.com/btcsuite/btcwallet/walletdb"

	"verifsim/models/keyoracle"
)

// signVerify makes a signature with priv and verifies it against pub (ECDSA
// for the legacy / segwit v0 types, Schnorr for taproot).
func signVerify(priv *btcec.PrivateKey, pub *btcec.PublicKey, taproot bool, salt string) bool {
	msg := sha256.Sum256([]byte("addrsim signature check " + salt))
	if taproot {
		sig, err := schnorr.Sign(priv, msg[:])
		if err != nil {
			return false
		}
		return sig.Verify(msg[:], pub)
	}
	return ecdsa.Sign(priv, msg[:]).Verify(msg[:], pub)
}

// verifyChained checks one managed address object against the oracle for
// (scope, account, branch, index): what property C03 says about it, and what
// C05 says about its private accessors in the current lock state. origin
// tells where the object came from (issue, lookup, derive, last, ...).
func (r *run) verifyChained(ma waddrmgr.ManagedAddress, sc *scopeM, a *acctM, rec *addrM, origin string) bool {
	c3 := r.prop == "C03" || r.prop == "C10"
	want, key, err := r.expectAddr(sc, a, rec.Branch, rec.Index)
	if err != nil {
		r.harnessTrouble("oracle", err)
		return false
	}
	where := fmt.Sprintf("scope m/%d'/%d' account %d %s index %d (created by %s while %s, via %s)",
		sc.Purpose, sc.Coin, a.Num, brName(rec.Branch), rec.Index, rec.By, rec.State, origin)
	if ma == nil {
		if c3 {
			r.fail("nil-address:via="+origin, "nil managed address for %s", where)
		}
		return !r.stop
	}
	pka, isPK := ma.(waddrmgr.ManagedPubKeyAddress)
	if c3 {
		if ma.Address() == nil || ma.Address().String() != want.String() {
			r.fail("address-wrong:via="+origin+":by="+rec.By, "%s: address %v, the seed's child encodes to %s", where, ma.Address(), want)
			return false
		}
		wantType := sc.addrTypeFor(a, rec.Branch)
		if ma.AddrType() != wantType {
			r.fail("addrtype-wrong:via="+origin, "%s: address type %v, expected %v", where, ma.AddrType(), wantType)
			return false
		}
		if !isPK {
			r.fail("not-pubkey-address:via="+origin, "%s: not a pubkey address", where)
			return false
		}
		if pka.PubKey() == nil || !pka.PubKey().IsEqual(key.PubKey()) {
			r.fail("pubkey-wrong:via="+origin+":by="+rec.By, "%s: PubKey() is not the seed's child", where)
			return false
		}
		if ma.Internal() != (rec.Branch == internalBranch) {
			r.fail("internal-flag-wrong:via="+origin+":by="+rec.By, "%s: Internal() = %v", where, ma.Internal())
			return false
		}
		if ma.InternalAccount() != a.Num {
			r.fail("account-wrong:via="+origin+":by="+rec.By, "%s: InternalAccount() = %d", where, ma.InternalAccount())
			return false
		}
		if ma.Imported() || !ma.Compressed() {
			r.fail("flags-wrong:via="+origin, "%s: Imported()=%v Compressed()=%v", where, ma.Imported(), ma.Compressed())
			return false
		}
		ks, path, ok := pka.DerivationInfo()
		wantPath := r.kpFor(sc, a, rec.Branch, rec.Index)
		switch {
		case !ok || ks != sc.scope():
			r.fail("derivation-info-wrong:field=scope:by="+rec.By, "%s: DerivationInfo scope %v ok=%v", where, ks, ok)
			return false
		case path.InternalAccount != wantPath.InternalAccount:
			r.fail("derivation-info-wrong:field=InternalAccount:by="+rec.By, "%s: DerivationInfo %+v", where, path)
			return false
		case path.Account != wantPath.Account:
			r.fail("derivation-info-wrong:field=Account:by="+rec.By, "%s: DerivationInfo %+v, expected account child %d", where, path, wantPath.Account)
			return false
		case path.Branch != wantPath.Branch || path.Index != wantPath.Index:
			r.fail("derivation-info-wrong:field=BranchIndex:by="+rec.By, "%s: DerivationInfo %+v", where, path)
			return false
		case path.MasterKeyFingerprint != wantPath.MasterKeyFingerprint:
			if r.fail("derivation-info-wrong:field=MasterKeyFingerprint:by="+rec.By,
				"%s: DerivationInfo reports master key fingerprint %#x, the account's is %#x", where,
				path.MasterKeyFingerprint, wantPath.MasterKeyFingerprint) {
				return false
			}
		}
	}
	if !isPK {
		return true
	}
	// private side
	switch {
	case r.locked:
		if r.c5 != nil {
			if !r.c5.denied("PrivKey", func() error { _, err := pka.PrivKey(); return err }) {
				return false
			}
			if !r.c5.denied("ExportPrivKey", func() error { _, err := pka.ExportPrivKey(); return err }) {
				return false
			}
		}
	case a.Watch:
		// imported extended-public-key account: there is no private key
		priv, err := pka.PrivKey()
		if err == nil && priv != nil && (c3 || r.c5 != nil) {
			r.fail("privkey-for-watch-only-account", "%s: PrivKey() returned a key for an imported public-key account", where)
			return false
		}
	default:
		if !c3 && r.c5 == nil {
			return true
		}
		priv, err := pka.PrivKey()
		if err != nil {
			if c3 {
				if r.fail(fmt.Sprintf("privkey-unavailable:created-by=%s:state=%s", rec.By, rec.State),
					"%s: the wallet is unlocked but PrivKey() failed: %v", where, err) {
					return false
				}
			}
			return true
		}
		if c3 {
			if !bytesEq(priv.Serialize(), key.PrivBytes()) {
				r.fail(fmt.Sprintf("privkey-wrong:created-by=%s:state=%s", rec.By, rec.State),
					"%s: PrivKey() is not the key of that public key", where)
				return false
			}
			if !signVerify(priv, pka.PubKey(), ma.AddrType() == waddrmgr.TaprootPubKey, want.String()) {
				r.fail("signature-invalid:created-by="+rec.By, "%s: a signature made with PrivKey() does not verify against PubKey()", where)
				return false
			}
			wif, err := pka.ExportPrivKey()
			if err != nil || wif.String() != keyoracle.WIF(key.PrivBytes(), true, r.net) {
				r.fail("export-privkey-wrong:created-by="+rec.By, "%s: ExportPrivKey() = %v, %v", where, wif, err)
				return false
			}
		}
	}
	return !r.stop
}

// checkIssued looks a committed chained address up (through the root manager
// or its scoped manager) and verifies the result.
func (r *run) checkIssued(i int, viaRoot bool) bool {
	rec := &r.m.Issued[i]
	sc := &r.m.Scopes[rec.Scope]
	a := sc.acct(rec.Acct)
	if a == nil {
		return true
	}
	addr := r.decode(rec.Addr)
	sm := r.scoped(rec.Scope)
	if sm == nil {
		return true
	}
	cached := sm.VerifAddrCached(addr.ScriptAddress())
	var ma waddrmgr.ManagedAddress
	var used bool
	err := r.view(func(ns walletdb.ReadBucket) error {
		var e error
		if viaRoot {
			ma, e = r.mgr.Address(ns, addr)
		} else {
			ma, e = sm.Address(ns, addr)
		}
		if e == nil {
			used = ma.Used(ns)
		}
		return e
	})
	if cached {
		r.env.Count("probe.lookup-from-cache")
	} else {
		r.env.Count("probe.lookup-from-disk")
		if r.sinceRestart {
			r.env.Count("probe.lookup-right-after-restart")
		}
	}
	r.sinceRestart = false
	if err != nil {
		if r.modelProp() {
			r.fail("issued-address-not-found:by="+rec.By+":"+errName(err),
				"Address(%s) of an issued address (account %d %s index %d, created by %s) failed: %v",
				rec.Addr, rec.Acct, brName(rec.Branch), rec.Index, rec.By, err)
		}
		return !r.stop
	}
	if used != rec.Used && r.modelProp() {
		r.fail("used-flag-wrong", "Used() of %s is %v, committed state says %v", rec.Addr, used, rec.Used)
		return false
	}
	origin := "lookup-disk"
	if cached {
		origin = "lookup-cache"
	}
	if !r.verifyChained(ma, sc, a, rec, origin) {
		return false
	}
	// the object handed out at issue time must behave the same
	if obj, ok := r.objs[rec.Addr]; ok && obj != ma {
		if !r.verifyChained(obj, sc, a, rec, "issue-object") {
			return false
		}
	}
	return !r.stop
}

// checkImported verifies an imported key / script entry.
func (r *run) checkImported(i int, viaRoot bool) bool {
	rec := &r.m.Imps[i]
	sm := r.scoped(rec.Scope)
	if sm == nil {
		return true
	}
	addr := r.decode(rec.Addr)
	var ma waddrmgr.ManagedAddress
	var used bool
	err := r.view(func(ns walletdb.ReadBucket) error {
		var e error
		if viaRoot {
			ma, e = r.mgr.Address(ns, addr)
		} else {
			ma, e = sm.Address(ns, addr)
		}
		if e == nil {
			used = ma.Used(ns)
		}
		return e
	})
	c3 := r.prop == "C03" || r.prop == "C10"
	if err != nil {
		if c3 || r.prop == "C08" {
			r.fail("imported-address-not-found:kind="+rec.Kind+":"+errName(err), "Address(%s) of an imported %s failed: %v", rec.Addr, rec.Kind, err)
		}
		return !r.stop
	}
	if used != rec.Used && (c3 || r.prop == "C08") {
		r.fail("used-flag-wrong", "Used() of imported %s is %v, committed state says %v", rec.Addr, used, rec.Used)
		return false
	}
	if c3 {
		if !ma.Imported() || ma.InternalAccount() != waddrmgr.ImportedAddrAccount || ma.Internal() {
			r.fail("imported-flags-wrong:kind="+rec.Kind, "imported %s %s: Imported()=%v account=%d internal=%v",
				rec.Kind, rec.Addr, ma.Imported(), ma.InternalAccount(), ma.Internal())
			return false
		}
	}
	for _, obj := range []waddrmgr.ManagedAddress{ma, r.objs[rec.Addr]} {
		if obj == nil {
			continue
		}
		switch rec.Kind {
		case "priv", "pub":
			pka, ok := obj.(waddrmgr.ManagedPubKeyAddress)
			if !ok {
				if c3 {
					r.fail("imported-not-pubkey-address", "imported key %s is not a pubkey address", rec.Addr)
				}
				return !r.stop
			}
			key := importKey(r.p.Seed, rec.KeyIdx)
			if c3 && (pka.PubKey() == nil || !pka.PubKey().IsEqual(key.PubKey()) || pka.Compressed() != rec.Compressed) {
				r.fail("imported-pubkey-changed:kind="+rec.Kind, "imported key %s: PubKey()/Compressed() differ from what was imported", rec.Addr)
				return false
			}
			switch {
			case r.locked:
				if r.c5 != nil {
					if !r.c5.denied("PrivKey", func() error { _, err := pka.PrivKey(); return err }) {
						return false
					}
					if !r.c5.denied("ExportPrivKey", func() error { _, err := pka.ExportPrivKey(); return err }) {
						return false
					}
				}
			case rec.Kind == "priv" && c3:
				priv, err := pka.PrivKey()
				if err != nil {
					if r.fail("privkey-unavailable:created-by=import:state=unlocked", "imported private key %s: PrivKey() failed while unlocked: %v", rec.Addr, err) {
						return false
					}
					continue
				}
				if !bytesEq(priv.Serialize(), key.Serialize()) {
					r.fail("imported-privkey-changed", "imported private key %s comes back different", rec.Addr)
					return false
				}
				wif, err := pka.ExportPrivKey()
				if err != nil || wif.String() != keyoracle.WIF(key.Serialize(), rec.Compressed, r.net) {
					r.fail("imported-wif-changed", "imported private key %s: ExportPrivKey() = %v, %v", rec.Addr, wif, err)
					return false
				}
			}
		default:
			msa, ok := obj.(waddrmgr.ManagedScriptAddress)
			if !ok {
				if c3 {
					r.fail("imported-not-script-address:kind="+rec.Kind, "imported script %s is not a script address", rec.Addr)
				}
				return !r.stop
			}
			if r.locked && rec.Secret {
				if r.c5 != nil && !r.c5.denied("Script:"+rec.Kind, func() error { _, err := msa.Script(); return err }) {
					return false
				}
				if t, ok := obj.(waddrmgr.ManagedTaprootScriptAddress); ok && r.c5 != nil && rec.Kind == "tapscript" {
					// the decoded script tree is the same secret in another form
					if !r.c5.denied("TaprootScript", func() error { _, err := t.TaprootScript(); return err }) {
						return false
					}
				}
				continue
			}
			if !c3 {
				if t, ok := obj.(waddrmgr.ManagedTaprootScriptAddress); ok && r.c5 != nil && !r.locked && rec.Kind == "tapscript" {
					// use the accessor while it is allowed, on the very objects
					// that are probed again after the next Lock
					if _, err := t.TaprootScript(); err == nil {
						r.env.Count("probe.tapscript-read-while-unlocked")
					}
				}
				continue
			}
			script, err := msa.Script()
			if err != nil {
				if r.fail("script-unavailable:kind="+rec.Kind+":state="+r.stateName(), "imported %s %s: Script() failed: %v", rec.Kind, rec.Addr, err) {
					return false
				}
				continue
			}
			if rec.Kind == "tapscript" {
				t, ok := obj.(waddrmgr.ManagedTaprootScriptAddress)
				if !ok {
					r.fail("imported-not-taproot-address", "imported tapscript %s is not a taproot script address", rec.Addr)
					return false
				}
				ts, err := t.TaprootScript()
				want, _ := r.tapscriptFor(rec.KeyIdx)
				diff := ""
				switch {
				case err != nil:
					diff = "TaprootScript() failed: " + err.Error()
				case ts.Type != want.Type:
					diff = fmt.Sprintf("type %d", ts.Type)
				case len(ts.Leaves) != 1:
					diff = fmt.Sprintf("%d leaves", len(ts.Leaves))
				case !bytesEq(ts.Leaves[0].Script, rec.Script) || ts.Leaves[0].LeafVersion != want.Leaves[0].LeafVersion:
					diff = fmt.Sprintf("leaf script %x, imported %x", ts.Leaves[0].Script, rec.Script)
				case ts.ControlBlock == nil || ts.ControlBlock.InternalKey == nil:
					diff = "no control block / internal key"
				case !bytesEq(schnorr.SerializePubKey(ts.ControlBlock.InternalKey), schnorr.SerializePubKey(want.ControlBlock.InternalKey)):
					// the control block stores the x-only internal key
					diff = "internal key differs"
				}
				if diff != "" {
					r.fail("imported-script-changed:kind=tapscript", "imported tapscript %s comes back different: %s", rec.Addr, diff)
					return false
				}
				continue
			}
			if !bytesEq(script, rec.Script) {
				r.fail("imported-script-changed:kind="+rec.Kind, "imported %s %s comes back different", rec.Kind, rec.Addr)
				return false
			}
		}
	}
	return !r.stop
}

// acctQuery checks names, numbers, counts and last addresses of an account
// against the committed model (C03: "reported ... account", next indices;
// C08: memory equals committed state).
func (r *run) acctQuery(si int, sc *scopeM, a *acctM) {
	if !r.modelProp() {
		return
	}
	sm := r.scoped(si)
	if sm == nil {
		return
	}
	var props *waddrmgr.AccountProperties
	var lastExt, lastInt waddrmgr.ManagedAddress
	var errExt, errInt, errLook, errName2 error
	var num uint32
	var name string
	oldFound := ""
	err := r.view(func(ns walletdb.ReadBucket) error {
		var e error
		props, e = sm.AccountProperties(ns, a.Num)
		if e != nil {
			return e
		}
		lastExt, errExt = sm.LastExternalAddress(ns, a.Num)
		lastInt, errInt = sm.LastInternalAddress(ns, a.Num)
		num, errLook = sm.LookupAccount(ns, a.Name)
		name, errName2 = sm.AccountName(ns, a.Num)
		for _, on := range a.OldNames {
			if _, e := sm.LookupAccount(ns, on); e == nil {
				oldFound = on
			}
		}
		return nil
	})
	if err != nil {
		r.fail("account-properties-failed:"+errName(err), "AccountProperties(%d) failed: %v", a.Num, err)
		return
	}
	switch {
	case props.AccountNumber != a.Num || props.KeyScope != sc.scope():
		r.fail("account-properties-wrong:field=number-scope", "AccountProperties(%d) = %+v", a.Num, props)
	case props.AccountName != a.Name:
		r.fail("account-properties-wrong:field=AccountName", "AccountProperties(%d).AccountName = %q, committed name is %q", a.Num, props.AccountName, a.Name)
	case props.ExternalKeyCount != a.Next[0]:
		r.fail("account-properties-wrong:field=ExternalKeyCount", "account %d reports %d external keys, committed next index is %d", a.Num, props.ExternalKeyCount, a.Next[0])
	case props.InternalKeyCount != a.Next[1]:
		r.fail("account-properties-wrong:field=InternalKeyCount", "account %d reports %d internal keys, committed next index is %d", a.Num, props.InternalKeyCount, a.Next[1])
	case errLook != nil || num != a.Num:
		r.fail("lookup-account-wrong:name=current", "LookupAccount(%q) = %d, %v; expected %d", a.Name, num, errLook, a.Num)
	case errName2 != nil || name != a.Name:
		r.fail("account-name-wrong", "AccountName(%d) = %q, %v; expected %q", a.Num, name, errName2, a.Name)
	case oldFound != "":
		r.fail("lookup-account-wrong:name=old", "LookupAccount(%q) still resolves after the account was renamed", oldFound)
	case props.MasterKeyFingerprint != a.MFP:
		r.fail("account-properties-wrong:field=MasterKeyFingerprint", "account %d fingerprint %#x, expected %#x", a.Num, props.MasterKeyFingerprint, a.MFP)
	case (props.AddrSchema != nil) != a.HasOvr:
		r.fail("account-properties-wrong:field=AddrSchema", "account %d AddrSchema %v, override expected: %v", a.Num, props.AddrSchema, a.HasOvr)
	}
	if r.stop {
		return
	}
	if r.prop == "C03" {
		ak, err := r.acctKey(sc, a)
		if err == nil && (props.AccountPubKey == nil || !pubEq(props.AccountPubKey, ak)) {
			r.fail("account-pubkey-wrong", "AccountProperties(%d).AccountPubKey is not the oracle's account key", a.Num)
			return
		}
	}
	for b, pair := range []struct {
		ma  waddrmgr.ManagedAddress
		err error
	}{{lastExt, errExt}, {lastInt, errInt}} {
		branch := uint32(b)
		if a.Next[branch] == 0 {
			if pair.err == nil {
				r.fail("last-address-wrong:expected=none", "Last%sAddress(%d) returned %v although nothing was issued", brName(branch), a.Num, pair.ma.Address())
				return
			}
			continue
		}
		if pair.err != nil {
			r.fail("last-address-wrong:"+errName(pair.err), "Last%sAddress(%d) failed: %v", brName(branch), a.Num, pair.err)
			return
		}
		want, _, err := r.expectAddr(sc, a, branch, a.Next[branch]-1)
		if err != nil {
			continue
		}
		if pair.ma.Address().String() != want.String() {
			r.fail("last-address-wrong:branch="+brName(branch), "Last%sAddress(%d) = %s, the committed last index %d is %s",
				brName(branch), a.Num, pair.ma.Address(), a.Next[branch]-1, want)
			return
		}
		if r.prop == "C03" {
			rec := r.findIssued(si, a.Num, branch, a.Next[branch]-1)
			if rec != nil && !r.verifyChained(pair.ma, sc, a, rec, "last-address") {
				return
			}
		}
	}
}

func (r *run) findIssued(si int, acct, branch, index uint32) *addrM {
	for i := len(r.m.Issued) - 1; i >= 0; i-- {
		x := &r.m.Issued[i]
		if x.Scope == si && x.Acct == acct && x.Branch == branch && x.Index == index {
			return x
		}
	}
	return nil
}

func pubEq(k *hdkeychain.ExtendedKey, o *keyoracle.ExtKey) bool {
	p, err := k.ECPubKey()
	if err != nil {
		return false
	}
	return p.IsEqual(o.PubKey()) && bytesEq(k.ChainCode(), o.Chain[:])
}

// finish runs the end-of-run checks.
func (r *run) finish() {
	switch r.prop {
	case "C03":
		r.sweepC03()
		if !r.stop && r.p.C("recreate", 0) == 1 {
			r.recreate()
		}
	case "C04":
		r.c4.final()
	case "C08":
		r.c8.observe("end", "")
	case "C10":
		r.sweepC03()
	case "C05":
		r.c5.final()
	}
}

// sweepC03 resolves every (account, branch, index) below the reported next
// index (bounded sample of the larger branches).
func (r *run) sweepC03() {
	n := len(r.m.Issued)
	step := 1
	if n > 60 {
		step = n/60 + 1
	}
	for i := 0; i < n && !r.stop; i += step {
		r.checkIssued(i, i%2 == 0)
	}
	for i := range r.m.Imps {
		if r.stop {
			return
		}
		r.checkImported(i, i%2 == 0)
	}
	for si := range r.m.Scopes {
		sc := &r.m.Scopes[si]
		for ai := range sc.Accts {
			if r.stop {
				return
			}
			r.acctQuery(si, sc, &sc.Accts[ai])
		}
	}
}

// recreate builds a second wallet from the same seed in a fresh database and
// requires it to issue the same addresses for every ordinary account.
func (r *run) recreate() {
	path := filepath.Join(r.env.Dir, "recreate.db")
	db, err := walletdb.Create("bdb", path, true, dbTimeout, false)
	if err != nil {
		return
	}
	defer db.Close()
	rootKey, err := hdkeychain.NewMaster(r.orc.Seed, r.net)
	if err != nil {
		return
	}
	priv, pub := []byte("recreate-private-pass"), []byte("recreate-public-pass")
	var mgr *waddrmgr.Manager
	err = walletdb.Update(db, func(tx walletdb.ReadWriteTx) error {
		ns, err := tx.CreateTopLevelBucket(nsKey)
		if err != nil {
			return err
		}
		if err := waddrmgr.Create(ns, rootKey, pub, priv, r.net, &waddrmgr.FastScryptOptions, time.Unix(1_600_000_000, 0)); err != nil {
			return err
		}
		mgr, err = waddrmgr.Open(ns, pub, r.net)
		return err
	})
	if err != nil {
		r.fail("recreate-failed:"+errName(err), "creating a second wallet from the same seed failed: %v", err)
		return
	}
	defer mgr.Close()
	needUnlock := false
	for _, sc := range r.m.Scopes {
		if sc.Custom {
			needUnlock = true
		}
		for _, a := range sc.Accts {
			if !a.Watch && a.Num != 0 {
				needUnlock = true
			}
		}
	}
	if needUnlock {
		if err := viewDB(db, func(ns walletdb.ReadBucket) error { return mgr.Unlock(ns, priv) }); err != nil {
			r.fail("recreate-failed:unlock:"+errName(err), "unlocking the second wallet failed: %v", err)
			return
		}
	}
	r.env.Count("probe.recreated-from-seed")
	for si := range r.m.Scopes {
		sc := &r.m.Scopes[si]
		var sm *waddrmgr.ScopedKeyManager
		err := updateDB(db, func(ns walletdb.ReadWriteBucket) error {
			var e error
			if sc.Custom {
				sm, e = mgr.NewScopedKeyManager(ns, sc.scope(), waddrmgr.ScopeAddrSchema{
					ExternalAddrType: waddrmgr.AddressType(sc.Ext), InternalAddrType: waddrmgr.AddressType(sc.Int)})
			} else {
				sm, e = mgr.FetchScopedKeyManager(sc.scope())
			}
			return e
		})
		if err != nil {
			r.fail("recreate-failed:scope:"+errName(err), "second wallet: scope %v: %v", sc.scope(), err)
			return
		}
		for ai := range sc.Accts {
			a := &sc.Accts[ai]
			if a.Watch {
				continue
			}
			var ext, in []waddrmgr.ManagedAddress
			err := updateDB(db, func(ns walletdb.ReadWriteBucket) error {
				if a.Num != 0 {
					if e := sm.NewRawAccount(ns, a.Num); e != nil {
						return e
					}
				}
				var e error
				if a.Next[0] > 0 {
					if ext, e = sm.NextExternalAddresses(ns, a.Num, a.Next[0]); e != nil {
						return e
					}
				}
				if a.Next[1] > 0 {
					in, e = sm.NextInternalAddresses(ns, a.Num, a.Next[1])
				}
				return e
			})
			if err != nil {
				r.fail("recreate-failed:issue:"+errName(err), "second wallet: account %d: %v", a.Num, err)
				return
			}
			for b, list := range [][]waddrmgr.ManagedAddress{ext, in} {
				for idx, ma := range list {
					rec := r.findIssued(si, a.Num, uint32(b), uint32(idx))
					if rec == nil {
						r.harnessTrouble("recreate-model", fmt.Errorf("no record for %d/%d/%d", a.Num, b, idx))
						return
					}
					if rec.Addr != ma.Address().String() {
						r.fail("recreated-wallet-differs", "second wallet from the same seed issues %s for account %d %s index %d, the first issued %s",
							ma.Address(), a.Num, brName(uint32(b)), idx, rec.Addr)
						return
					}
				}
			}
		}
	}
}

var _ btcutil.Address
