package addrsim

import (
	"fmt"
	"path/filepath"
	"sort"
	"strings"

	"github.com/btcsuite/btcwallet/waddrmgr"
	"github.com/btcsuite/btcwallet/walletdb"
)

// c08state is the restart observer: after committed operations (and after
// every rolled-back one) the latest commit image is opened by a fresh
// manager and both managers answer the same query set.
type c08state struct {
	r                  *run
	commits            int
	observations       int
	rollbackSinceIssue bool
	scratch            int
	thorough           bool
	resync             bool // a known divergence was seen: restart the instance
	// keys that already differed at the previous observation (known
	// findings the run looked beyond); a later rollback is not blamed for them
	lastDiff map[string]bool
}

func newC08(r *run) *c08state {
	return &c08state{r: r, thorough: r.p.Tier == "thorough"}
}

func (c *c08state) close() {}

// qa is one answered query: key identifies the query, class the kind of
// field (used in signatures: no indices, no data), val the answer.
type qa struct{ key, class, val string }

// apiName maps an operation kind to the API it exercises (for signatures).
func (r *run) apiName() string {
	op := r.p.Ops[0]
	if r.opIdx < len(r.p.Ops) {
		op = r.p.Ops[r.opIdx]
	}
	br := "External"
	if op.Arg(2)&1 == 1 {
		br = "Internal"
	}
	switch r.opKind {
	case "next":
		return "Next" + br + "Addresses"
	case "extend":
		return "Extend" + br + "Addresses"
	case "rename":
		return "RenameAccount"
	case "setsynced":
		return "SetSyncedTo"
	case "markused":
		return "MarkUsed"
	case "newaccount":
		return "NewAccount"
	case "newraw":
		return "NewRawAccount"
	case "newwatch":
		return "NewAccountWatchingOnly"
	case "importpriv":
		return "ImportPrivateKey"
	case "importpub":
		return "ImportPublicKey"
	case "importscript":
		return "ImportScript"
	case "chpass":
		return "ChangePassphrase"
	case "newscope":
		return "NewScopedKeyManager"
	}
	return r.opKind
}

// afterTx is called after every read-write transaction of an operation.
func (c *c08state) afterTx(res txResult) {
	if res.committed {
		c.commits++
		if c.thorough || c.commits%4 == 0 {
			c.observe(c.r.opKind, "")
		}
		return
	}
	c.rollbackSinceIssue = true
	c.r.env.Count("probe.observed-after-rollback:" + res.kind)
	if res.kind == "op-error" {
		// the call itself refused (duplicate name, ...): there was no
		// consistency check right before it, so a divergence seen now is not
		// blamed on this rollback
		c.observe(c.r.opKind, "")
		return
	}
	c.observe(c.r.opKind, res.kind)
}

// beforeFault makes sure the state is known to be consistent before an
// operation that is going to be rolled back, so that a divergence seen
// afterwards is attributed to that operation.
func (c *c08state) beforeFault() {
	if !c.thorough {
		c.observe("pre-fault", "")
	}
}

// openImage writes the latest commit image to a scratch file and opens it
// with its own database handle and a fresh manager.
func (c *c08state) openImage() (walletdb.DB, *waddrmgr.Manager, bool) {
	r := c.r
	img, err := r.db.Image()
	if err != nil {
		r.harnessTrouble("image", err)
		return nil, nil, false
	}
	c.scratch++
	path := filepath.Join(r.env.Dir, fmt.Sprintf("obs%d.db", c.scratch%2))
	if err := writeFile(path, img); err != nil {
		r.harnessTrouble("write-image", err)
		return nil, nil, false
	}
	db, err := walletdb.Open("bdb", path, true, dbTimeout, false)
	if err != nil {
		r.harnessTrouble("open-image", err)
		return nil, nil, false
	}
	var mgr *waddrmgr.Manager
	err = viewDB(db, func(ns walletdb.ReadBucket) error {
		var e error
		mgr, e = waddrmgr.Open(ns, r.m.Pub, r.net)
		return e
	})
	if err != nil {
		db.Close()
		r.fail("restart-open-failed:"+errName(err), "a fresh manager cannot open the latest commit image with the current public passphrase: %v", err)
		return nil, nil, false
	}
	return db, mgr, true
}

// observe compares the running manager with a fresh one on the latest image.
func (c *c08state) observe(after, rollbackKind string) {
	r := c.r
	if r.stop || r.mgr == nil {
		return
	}
	c.observations++
	full := c.thorough || c.observations%8 == 0
	fdb, fresh, ok := c.openImage()
	if !ok {
		return
	}
	defer func() {
		fresh.Close()
		fdb.Close()
	}()
	r.env.Count("c08.observations")
	walkAddrs := full // ForEachAccountAddress derives every key of the account: full passes only
	a := c.answers(r.mgr, r.db, full, walkAddrs)
	b := c.answers(fresh, fdb, full, walkAddrs)
	bm := make(map[string]string, len(b))
	for _, q := range b {
		bm[q.key] = q.val
	}
	am := make(map[string]bool, len(a))
	for _, q := range a {
		am[q.key] = true
	}
	// queries only the fresh manager answered (the running one stopped
	// short, e.g. because a lookup failed) are appended as "no answer"
	for _, q := range b {
		if !am[q.key] {
			a = append(a, qa{q.key, q.class, "<no answer>"})
		}
	}
	prevDiff := c.lastDiff
	c.lastDiff = map[string]bool{}
	for i := range a {
		bv, ok := bm[a[i].key]
		if !ok {
			bv = "<no answer>"
		}
		if a[i].val != bv && rollbackKind != "" && prevDiff[a[i].key] {
			c.lastDiff[a[i].key] = true
			continue
		}
		if a[i].class == "account.IsWatchOnly" && !r.locked {
			// depends on the lock state, not on what is stored: the fresh
			// manager is locked, the running one is not
			continue
		}
		if a[i].val == bv {
			continue
		}
		var sig string
		if rollbackKind != "" {
			sig = fmt.Sprintf("memory-ahead-of-disk:op=%s:rollback=%s", r.apiName(), rollbackKind)
		} else {
			sig = "restart-differs:field=" + a[i].class
		}
		if c.resync {
			// one report per observation; the rest is only remembered
			c.lastDiff[a[i].key] = true
			continue
		}
		if r.fail(sig, "after %s (%s): query %s: the running manager answers %q, a manager freshly opened on the same committed file answers %q",
			after, map[bool]string{true: "committed", false: "rolled back: " + rollbackKind}[rollbackKind == ""], a[i].key, a[i].val, bv) {
			return
		}
		// A known divergence between memory and file: later answers of this
		// instance would keep dragging it along. Bring the instance back to
		// a well-defined state (what is on disk) and carry on.
		c.lastDiff[a[i].key] = true
		c.resync = true
	}
}

func errOr(err error, s string) string {
	if err != nil {
		return "error:" + errName(err)
	}
	return s
}

func describeAddr(ns walletdb.ReadBucket, ma waddrmgr.ManagedAddress) []qa {
	out := []qa{
		{"", "address.type", fmt.Sprint(ma.AddrType())},
		{"", "address.account", fmt.Sprint(ma.InternalAccount())},
		{"", "address.internal", fmt.Sprint(ma.Internal())},
		{"", "address.compressed", fmt.Sprint(ma.Compressed())},
		{"", "address.imported", fmt.Sprint(ma.Imported())},
		{"", "address.used", fmt.Sprint(ma.Used(ns))},
		{"", "address.string", ma.Address().String()},
	}
	if pka, ok := ma.(waddrmgr.ManagedPubKeyAddress); ok {
		ks, p, ok := pka.DerivationInfo()
		out = append(out,
			qa{"", "address.derivation-path", fmt.Sprintf("%v %v %d/%d/%d/%d", ok, ks, p.InternalAccount, p.Account, p.Branch, p.Index)},
			qa{"", "address.derivation-fingerprint", fmt.Sprint(p.MasterKeyFingerprint)},
			qa{"", "address.pubkey", pka.ExportPubKey()})
	}
	return out
}

// answers runs the query set on one manager. The set is a function of the
// committed model only, so both managers are asked exactly the same things.
func (c *c08state) answers(mgr *waddrmgr.Manager, db walletdb.DB, full, walkAddrs bool) []qa {
	r := c.r
	var out []qa
	add := func(prefix string, qs ...qa) {
		for _, q := range qs {
			q.key = prefix + "/" + q.class
			out = append(out, q)
		}
	}
	_ = viewDB(db, func(ns walletdb.ReadBucket) error {
		// issued addresses: all of them when few or on a full pass, else the
		// newest of each and a rotating sample
		ni := len(r.m.Issued)
		sel := map[int]bool{}
		if full || ni <= 24 {
			for i := 0; i < ni; i++ {
				sel[i] = true
			}
		} else {
			for i := ni - 8; i < ni; i++ {
				sel[i] = true
			}
			for k := 0; k < 16; k++ {
				sel[(c.observations*31+k*17)%ni] = true
			}
			for i := range r.m.Issued {
				if r.m.Issued[i].Used || r.m.Issued[i].Seq >= r.opIdx-4 {
					sel[i] = true
				}
			}
		}
		idx := make([]int, 0, len(sel))
		for i := range sel {
			idx = append(idx, i)
		}
		sort.Ints(idx)
		for _, i := range idx {
			rec := &r.m.Issued[i]
			prefix := fmt.Sprintf("Address(issued#%d %s)", i, rec.Addr)
			ma, err := mgr.Address(ns, r.decode(rec.Addr))
			if err != nil {
				add(prefix, qa{"", "address.found", "error:" + errName(err)})
				continue
			}
			add(prefix, qa{"", "address.found", "found"})
			add(prefix, describeAddr(ns, ma)...)
		}
		for i := range r.m.Imps {
			rec := &r.m.Imps[i]
			prefix := fmt.Sprintf("Address(import#%d %s)", i, rec.Addr)
			ma, err := mgr.Address(ns, r.decode(rec.Addr))
			if err != nil {
				add(prefix, qa{"", "address.found", "error:" + errName(err)})
				continue
			}
			add(prefix, qa{"", "address.found", "found"})
			add(prefix, describeAddr(ns, ma)...)
		}
		// never derived addresses
		for k := 0; k < 2 && len(r.m.Scopes) > 0; k++ {
			sc := &r.m.Scopes[(c.observations+k)%len(r.m.Scopes)]
			a := &sc.Accts[(c.observations+k)%len(sc.Accts)]
			addr, _, err := r.expectAddr(sc, a, uint32(k), 200000+uint32(c.observations%100))
			if err != nil {
				continue
			}
			_, err = mgr.Address(ns, addr)
			add(fmt.Sprintf("Address(never-derived %s)", addr), qa{"", "address.never-derived", errOr(err, "found")})
		}
		// accounts
		for si := range r.m.Scopes {
			sc := &r.m.Scopes[si]
			sm, err := mgr.FetchScopedKeyManager(sc.scope())
			if err != nil {
				add(fmt.Sprintf("scope %v", sc.scope()), qa{"", "scope.present", "error:" + errName(err)})
				continue
			}
			add(fmt.Sprintf("scope %v", sc.scope()), qa{"", "scope.present", "present"},
				qa{"", "scope.schema", fmt.Sprintf("%+v", sm.AddrSchema())})
			last, err := sm.LastAccount(ns)
			add(fmt.Sprintf("scope %v", sc.scope()), qa{"", "scope.last-account", errOr(err, fmt.Sprint(last))})
			for ai := range sc.Accts {
				a := &sc.Accts[ai]
				prefix := fmt.Sprintf("scope %v account %d", sc.scope(), a.Num)
				props, err := sm.AccountProperties(ns, a.Num)
				if err != nil {
					add(prefix, qa{"", "account.properties", "error:" + errName(err)})
				} else {
					pk := "nil"
					if props.AccountPubKey != nil {
						pk = props.AccountPubKey.String()
					}
					schema := "nil"
					if props.AddrSchema != nil {
						schema = fmt.Sprintf("%+v", *props.AddrSchema)
					}
					add(prefix,
						qa{"", "account.properties", "ok"},
						qa{"", "account.AccountNumber", fmt.Sprint(props.AccountNumber)},
						qa{"", "account.AccountName", props.AccountName},
						qa{"", "account.ExternalKeyCount", fmt.Sprint(props.ExternalKeyCount)},
						qa{"", "account.InternalKeyCount", fmt.Sprint(props.InternalKeyCount)},
						qa{"", "account.ImportedKeyCount", fmt.Sprint(props.ImportedKeyCount)},
						qa{"", "account.AccountPubKey", pk},
						qa{"", "account.MasterKeyFingerprint", fmt.Sprint(props.MasterKeyFingerprint)},
						qa{"", "account.KeyScope", fmt.Sprint(props.KeyScope)},
						qa{"", "account.IsWatchOnly", fmt.Sprint(props.IsWatchOnly)},
						qa{"", "account.AddrSchema", schema})
				}
				for b, f := range []func(walletdb.ReadBucket, uint32) (waddrmgr.ManagedAddress, error){sm.LastExternalAddress, sm.LastInternalAddress} {
					ma, err := f(ns, a.Num)
					p2 := fmt.Sprintf("%s Last%sAddress", prefix, brName(uint32(b)))
					if err != nil {
						add(p2, qa{"", "last-address.found", "error:" + errName(err)})
						continue
					}
					add(p2, qa{"", "last-address.found", "found"})
					for _, q := range describeAddr(ns, ma) {
						q.class = "last-" + q.class
						add(p2, q)
					}
				}
				num, err := sm.LookupAccount(ns, a.Name)
				add(prefix, qa{"", "lookup-account.current-name", errOr(err, fmt.Sprint(num))})
				for j, on := range a.OldNames {
					num, err := sm.LookupAccount(ns, on)
					add(fmt.Sprintf("%s old-name#%d", prefix, j), qa{"", "lookup-account.old-name", errOr(err, fmt.Sprint(num))})
				}
				name, err := sm.AccountName(ns, a.Num)
				add(prefix, qa{"", "account-name", errOr(err, name)})
				if walkAddrs {
					var addrs []string
					err := sm.ForEachAccountAddress(ns, a.Num, func(ma waddrmgr.ManagedAddress) error {
						addrs = append(addrs, ma.Address().String())
						return nil
					})
					sort.Strings(addrs)
					add(prefix, qa{"", "for-each-account-address", errOr(err, fmt.Sprintf("%d:%s", len(addrs), strings.Join(addrs, ",")))})
				}
			}
			// the imported account of the scope
			props, err := sm.AccountProperties(ns, waddrmgr.ImportedAddrAccount)
			if err != nil {
				add(fmt.Sprintf("scope %v imported", sc.scope()), qa{"", "account.properties", "error:" + errName(err)})
			} else {
				add(fmt.Sprintf("scope %v imported", sc.scope()),
					qa{"", "account.ImportedKeyCount", fmt.Sprint(props.ImportedKeyCount)},
					qa{"", "account.AccountName", props.AccountName})
			}
			if walkAddrs {
				var addrs []string
				err := sm.ForEachAccountAddress(ns, waddrmgr.ImportedAddrAccount, func(ma waddrmgr.ManagedAddress) error {
					addrs = append(addrs, ma.Address().String())
					return nil
				})
				sort.Strings(addrs)
				add(fmt.Sprintf("scope %v imported", sc.scope()), qa{"", "for-each-account-address", errOr(err, fmt.Sprintf("%d:%s", len(addrs), strings.Join(addrs, ",")))})
			}
		}
		// sync state
		st := mgr.SyncedTo()
		add("SyncedTo", qa{"", "synced-to.height", fmt.Sprint(st.Height)},
			qa{"", "synced-to.hash", fmt.Sprintf("%x", st.Hash[:])},
			qa{"", "synced-to.timestamp", fmt.Sprint(st.Timestamp.Unix())})
		add("Birthday", qa{"", "birthday", fmt.Sprint(mgr.Birthday().Unix())})
		bb, verified, err := mgr.BirthdayBlock(ns)
		add("BirthdayBlock", qa{"", "birthday-block", errOr(err, fmt.Sprintf("%d %x %d %v", bb.Height, bb.Hash[:], bb.Timestamp.Unix(), verified))})
		for h := r.m.Sync.Height - 3; h <= r.m.Sync.Height+3; h++ {
			if h < 0 {
				continue
			}
			hash, err := mgr.BlockHash(ns, h)
			v := "error:" + errName(err)
			if err == nil {
				v = hash.String()
			}
			add(fmt.Sprintf("BlockHash(%d)", h), qa{"", "block-hash", v})
		}
		return nil
	})
	return out
}

// freshNext computes what a freshly opened manager would issue next for
// (scope, account, branch): it issues on a scratch copy of the latest commit
// image. Done after rolled-back transactions (always in the thorough tier).
func (c *c08state) freshNext(si int, acct, branch, n uint32) []string {
	r := c.r
	if !c.rollbackSinceIssue && !c.thorough {
		return nil
	}
	fdb, fresh, ok := c.openImage()
	if !ok {
		return nil
	}
	defer func() {
		fresh.Close()
		fdb.Close()
	}()
	sm, err := fresh.FetchScopedKeyManager(r.m.Scopes[si].scope())
	if err != nil {
		r.fail("restart-differs:field=scope.present", "a fresh manager does not know scope %v", r.m.Scopes[si].scope())
		return nil
	}
	var got []waddrmgr.ManagedAddress
	err = updateDB(fdb, func(ns walletdb.ReadWriteBucket) error {
		var e error
		if branch == 0 {
			got, e = sm.NextExternalAddresses(ns, acct, n)
		} else {
			got, e = sm.NextInternalAddresses(ns, acct, n)
		}
		return e
	})
	if err != nil {
		r.fail("restart-next-failed:"+errName(err), "a fresh manager on the committed file cannot issue the next address: %v", err)
		return nil
	}
	r.env.Count("probe.next-after-rollback-compared")
	out := make([]string, len(got))
	for i, ma := range got {
		out[i] = ma.Address().String()
	}
	return out
}
