// Package addrsim drives a REAL waddrmgr.Manager on a real bdb database
// (wrapped by faultdb) with generated operation sequences and decides
// properties C03 (issued addresses are the seed's children, keys match),
// C04 (no secret in the file), C05 (lock model + memory wipe) and C08
// (running manager == manager reopened on the committed file).
package addrsim

import (
	"encoding/json"
	"fmt"
	"os"
	"sort"
	"strings"

	"verifsim/core"
	"verifsim/models/keyoracle"
)

type sim struct{}

func init() { core.Register(sim{}) }

func (sim) Name() string    { return "addrsim" }
func (sim) Props() []string { return []string{"C03", "C04", "C05", "C08", "C10"} }

// skipSigs: signatures of known findings the simulation is asked to look
// beyond (in three runs out of four; the fourth still stops at them so that
// the runner keeps reporting them). Sources: /verif/known_findings.json
// (entries with status "known") and VERIF_ADDRSIM_SKIP="C05=sig,sig;C03=sig".
var skipSigs = loadSkips()

// skipAlways (VERIF_ADDRSIM_SKIPALL=1, development only) looks beyond the
// listed signatures in every run instead of three out of four.
var skipAlways = os.Getenv("VERIF_ADDRSIM_SKIPALL") == "1"

func loadSkips() map[string][]string {
	out := map[string][]string{}
	root := os.Getenv("VERIF_ROOT")
	if root == "" {
		root = "/verif"
	}
	if b, err := os.ReadFile(root + "/known_findings.json"); err == nil {
		var ks []struct {
			Property  string `json:"property"`
			Signature string `json:"signature"`
			Status    string `json:"status"`
		}
		if json.Unmarshal(b, &ks) == nil {
			for _, k := range ks {
				if k.Status == "known" {
					out[k.Property] = append(out[k.Property], k.Signature)
				}
			}
		}
	}
	for _, part := range strings.Split(os.Getenv("VERIF_ADDRSIM_SKIP"), ";") {
		kv := strings.SplitN(part, "=", 2)
		if len(kv) != 2 {
			continue
		}
		for _, s := range strings.Split(kv[1], ",") {
			if s = strings.TrimSpace(s); s != "" {
				out[strings.TrimSpace(kv[0])] = append(out[strings.TrimSpace(kv[0])], s)
			}
		}
	}
	for k := range out {
		sort.Strings(out[k])
	}
	return out
}

// weights of operation kinds per property (swarm: each run additionally
// disables some kinds and rescales the rest).
func baseWeights(prop string) map[string]int {
	w := map[string]int{
		"next": 14, "extend": 6, "derive": 4, "derivecache": 3, "lookup": 8, "lookupmiss": 2,
		"markused": 3, "lock": 5, "unlock": 9, "chpass": 2, "newaccount": 3, "newraw": 1,
		"rename": 2, "acctquery": 3, "newwatch": 3, "importpriv": 3, "importpub": 2,
		"importscript": 3, "setsynced": 2, "syncquery": 1, "restart": 3, "crashrestart": 1,
		"newscope": 2, "clock": 1, "dropaccts": 1,
	}
	switch prop {
	case "C03":
		w["extend"], w["lookup"], w["derive"], w["restart"] = 8, 12, 5, 4
		w["setsynced"], w["syncquery"] = 1, 0
	case "C04":
		w["importpriv"], w["importscript"], w["importpub"], w["chpass"], w["newaccount"] = 6, 6, 3, 5, 5
		w["convert"] = 3
		w["lookup"], w["lookupmiss"], w["acctquery"], w["syncquery"], w["derivecache"] = 2, 0, 0, 0, 1
		w["crashrestart"] = 2
	case "C05":
		w["lock"], w["unlock"], w["derivecache"], w["chpass"], w["restart"] = 10, 16, 8, 5, 4
		w["dropaccts"] = 4
		w["importscript"], w["importpriv"] = 5, 4
		w["convert"] = 1
		w["setsynced"], w["syncquery"], w["acctquery"], w["lookupmiss"], w["rename"], w["crashrestart"] = 0, 0, 0, 0, 0, 0
	case "C10":
		w["rename"], w["markused"], w["setsynced"], w["acctquery"], w["syncquery"] = 5, 4, 5, 2, 1
		w["extend"], w["importpriv"], w["importpub"], w["importscript"], w["chpass"] = 7, 5, 3, 5, 5
		w["newaccount"], w["newraw"], w["newwatch"], w["newscope"] = 4, 2, 4, 3
		w["birthday"], w["convert"] = 3, 1
		w["derivecache"], w["lookupmiss"], w["crashrestart"], w["clock"] = 1, 1, 0, 0
	case "C08":
		w["rename"], w["markused"], w["setsynced"], w["acctquery"], w["syncquery"] = 6, 6, 6, 4, 2
		w["extend"], w["restart"], w["crashrestart"], w["lookupmiss"] = 8, 3, 2, 2
		w["derivecache"], w["chpass"] = 1, 1
	}
	return w
}

// mutating operation kinds: the ones property C10 enumerates faults for.
var mutating = map[string]bool{"next": true, "extend": true, "newaccount": true, "newraw": true, "newwatch": true,
	"rename": true, "importpriv": true, "importpub": true, "importscript": true, "markused": true, "setsynced": true,
	"chpass": true, "newscope": true, "convert": true, "birthday": true}

// Generate builds the plan of one seed. It runs the key oracle (to pick
// seeds with a leading-zero intermediate key now and then) but never the
// code under test.
func (sim) Generate(prop, tier string, seed uint64) *core.Plan {
	r := core.NewRand(seed)
	p := &core.Plan{Cfg: map[string]int64{}}
	p.Cfg["net"] = int64(r.Intn(3))
	if prop == "C03" {
		if r.Intn(4) == 0 {
			p.Cfg["recreate"] = 1
		}
	}
	var lzOps []core.Op
	if prop == "C03" && r.Intn(10) == 0 {
		k, scopeIdx, coinLevel := leadingZeroSeed(seed, p.Cfg["net"])
		p.Cfg["seedk"] = k
		if k != 0 && coinLevel {
			// the coin-type key has a leading zero byte: make sure a later
			// account of that scope is created and used (its key derives from
			// the coin-type key after a text round trip)
			lzOps = []core.Op{{K: "unlock", A: []int64{0}},
				{K: "newaccount", A: []int64{int64(scopeIdx), 0, 0}},
				{K: "next", A: []int64{int64(scopeIdx), 1, 0, 2, 0, 0}},
				{K: "next", A: []int64{int64(scopeIdx), 0, 1, 2, 0, 0}}}
		}
	}
	// known findings to look beyond (own PRNG stream: the rest of the plan
	// does not depend on the list)
	sr := core.NewRand(core.Mix(seed, 77))
	for _, s := range skipSigs[prop] {
		if sr.Intn(4) != 0 || skipAlways {
			p.Cfg["skip:"+s] = 1
		}
	}

	w := baseWeights(prop)
	kinds := core.SortedKeys(w)
	// swarm: drop some kinds, jitter the others
	for _, k := range kinds {
		if k == "next" || k == "unlock" {
			continue
		}
		switch r.Intn(6) {
		case 0:
			w[k] = 0
		case 1:
			w[k] *= 3
		}
	}
	ws := make([]int, len(kinds))
	for i, k := range kinds {
		ws[i] = w[k]
	}
	nops := r.Range(12, 60)
	if r.Intn(5) == 0 {
		nops = r.Range(60, 120)
	}
	if prop == "C10" {
		// every selected operation is executed n+2 times
		nops = r.Range(10, 40)
	}
	faults := prop == "C08"
	mode := func() (int64, int64) {
		if !faults {
			return 0, 0
		}
		switch x := r.Intn(100); {
		case x < 64:
			return 0, 0
		case x < 78:
			return 1, 0
		case x < 91:
			return 2, 0
		default:
			return 3, int64(r.Range(1, 7))
		}
	}
	// the wallet starts locked: most runs unlock early
	if len(lzOps) > 0 {
		p.Ops = append(p.Ops, lzOps...)
	} else if r.Intn(10) < 7 {
		p.Ops = append(p.Ops, core.Op{K: "unlock", A: []int64{0}})
	}
	scopeArg := func() int64 {
		// the four default scopes, and custom ones once they exist
		return int64(r.Intn(7))
	}
	for len(p.Ops) < nops {
		k := kinds[r.Weighted(ws)]
		var a []int64
		switch k {
		case "next":
			m, kk := mode()
			a = []int64{scopeArg(), int64(r.Intn(6)), int64(r.Intn(2)), int64(r.Range(1, 6)), m, kk}
		case "extend":
			m, kk := mode()
			a = []int64{scopeArg(), int64(r.Intn(6)), int64(r.Intn(2)), int64(r.Intn(9)), m, kk}
		case "derive":
			idx := int64(r.Intn(320))
			switch r.Intn(25) {
			case 0:
				idx = int64(1)<<31 - 1 - int64(r.Intn(10)) // range end
			case 1:
				idx = int64(r.Uint64() & 0x7fffffff)
			}
			a = []int64{scopeArg(), int64(r.Intn(6)), int64(r.Intn(5)), idx}
		case "derivecache":
			a = []int64{scopeArg(), int64(r.Intn(6)), int64(r.Intn(3)), int64(r.Intn(40))}
		case "lookup":
			a = []int64{int64(r.Intn(400)), int64(r.Intn(2))}
		case "lookupmiss":
			a = []int64{scopeArg(), int64(r.Intn(6)), int64(r.Intn(2)), int64(r.Intn(1000))}
		case "markused":
			m, kk := mode()
			a = []int64{int64(r.Intn(400)), m, kk}
		case "lock":
		case "unlock":
			a = []int64{int64(r.Intn(8))}
			if r.Intn(3) == 0 {
				a[0] = 0
			}
		case "chpass":
			m, kk := mode()
			a = []int64{int64(r.Intn(2)), int64(r.Intn(4)), m, kk, int64(r.Intn(3)), 0}
			if prop == "C05" && r.Intn(4) == 0 {
				// another caller's Unlock / Lock lands between
				// ChangePassphrase returning and its transaction committing
				a[5] = int64(1 + r.Intn(2))
			}
			if prop == "C05" && a[5] == 0 && r.Intn(4) == 0 {
				// the change is rolled back (the closure fails after
				// ChangePassphrase returned, or the commit fails): the
				// passphrases that were current stay current
				a[2] = int64(1 + r.Intn(2))
			}
			if prop == "C08" {
				// Passphrases are not among the things property C08 compares
				// across a restart; a rolled-back change belongs to C10.
				a[2], a[3] = 0, 0
			}
		case "newaccount":
			m, kk := mode()
			a = []int64{scopeArg(), m, kk}
		case "newraw":
			m, kk := mode()
			a = []int64{scopeArg(), int64(r.Intn(3)), m, kk}
		case "rename":
			m, kk := mode()
			a = []int64{scopeArg(), int64(r.Intn(6)), int64(r.Intn(5)), m, kk}
		case "dropaccts":
			a = []int64{scopeArg(), int64(r.Intn(6)), int64(r.Intn(3))}
		case "acctquery":
			a = []int64{scopeArg(), int64(r.Intn(6))}
		case "newwatch":
			m, kk := mode()
			a = []int64{scopeArg(), int64(r.Intn(nOthers)), int64(r.Intn(5)), int64(r.Intn(4)), int64(r.Intn(6)), int64(r.Intn(2)), m, kk}
		case "importpriv":
			m, kk := mode()
			a = []int64{scopeArg(), int64(r.Intn(40)), int64(r.Intn(4)), m, kk}
		case "importpub":
			m, kk := mode()
			a = []int64{scopeArg(), int64(r.Intn(40)), m, kk}
		case "importscript":
			m, kk := mode()
			a = []int64{scopeArg(), int64(r.Intn(4)), int64(r.Intn(20)), m, kk}
		case "setsynced":
			m, kk := mode()
			a = []int64{int64(r.Intn(8)), m, kk, int64(r.Intn(2))}
			if prop == "C10" && a[0] == 7 {
				// SetSyncedTo(nil) stores a garbage timestamp (known C08
				// finding); keep it out of the comparison with a reopened
				// manager that closes every enumeration
				a[0] = 0
			}
		case "birthday":
			m, kk := mode()
			a = []int64{int64(r.Intn(2)), int64(r.Intn(1000)), m, kk}
		case "syncquery", "restart":
		case "crashrestart":
			a = []int64{int64(r.Intn(12))}
		case "newscope":
			m, kk := mode()
			a = []int64{int64(r.Intn(5)), int64(r.Intn(5)), int64(r.Intn(2)), m, kk}
		case "convert":
			a = []int64{int64(r.Intn(2)), 0}
			if prop == "C04" && r.Intn(3) == 0 {
				a[1] = int64(1 + r.Intn(2))
			}
		case "clock":
			a = []int64{int64(r.Range(1, 7200))}
		}
		op := core.Op{K: k, A: a}
		if prop == "C10" && mutating[k] && (tier == "thorough" || r.Intn(3) == 0) {
			op.S = []string{"enum"}
		}
		p.Ops = append(p.Ops, op)
		// a lock is most interesting right after key material was loaded;
		// an unlock right after a locked derivation
		if k == "lock" && r.Intn(3) == 0 {
			p.Ops = append(p.Ops, core.Op{K: "next", A: []int64{scopeArg(), int64(r.Intn(6)), int64(r.Intn(2)), int64(r.Range(1, 3)), 0, 0}})
			if r.Intn(2) == 0 {
				p.Ops = append(p.Ops, core.Op{K: "unlock", A: []int64{0}})
			}
		}
	}
	if (prop == "C04" && r.Intn(2) == 0) || (prop == "C05" && r.Intn(4) == 0) {
		p.Ops = append(p.Ops, core.Op{K: "convert", A: []int64{int64(r.Intn(2))}})
	}
	return p
}

// leadingZeroSeed searches the candidate wallet seeds of a plan seed for one
// whose purpose or coin-type key of a default scope has a leading zero byte
// (the case where btcsuite's legacy hardened derivation departs from BIP32).
func leadingZeroSeed(planSeed uint64, net int64) (k int64, scopeIdx int, coinLevel bool) {
	params := netFor(net)
	// same order as waddrmgr.DefaultKeyScopes (the model's scope indices)
	scopes := []keyoracle.Scope{{Purpose: 49}, {Purpose: 84}, {Purpose: 86}, {Purpose: 44}}
	for k := int64(1); k < 600; k++ {
		o, err := keyoracle.New(walletSeed(planSeed, k), params)
		if err != nil {
			continue
		}
		for i, s := range scopes {
			if pz, cz := o.LeadingZeroOnPath(s); pz || cz {
				return k, i, cz
			}
		}
	}
	return 0, 0, false
}

// ---------------------------------------------------------------- evidence

func (sim) Level(prop string) string {
	if prop == "C10" {
		return "fault_enumeration"
	}
	return "exploration"
}

func (sim) Rule(prop string) string {
	switch prop {
	case "C03":
		return "addrsim/C03: every managed address returned by Next*/DeriveFromKeyPath/Address/Last*Address is compared with an independent BIP32 + address-encoding oracle (address, public key, derivation info, flags, private key and a signature when unlocked); imported keys/scripts must come back unchanged; a second wallet from the same seed must issue the same addresses."
	case "C04":
		return "addrsim/C04: the database file image at commit boundaries is searched for every secret (seed, passphrases, master/purpose/coin-type/account/branch/address/imported private keys raw, hex, base58, WIF; secret scripts) and quasi-secret (xpubs, public keys, hashes, address strings) of the run; a copy converted to watching-only must keep all addresses and refuse every private access."
	case "C05":
		return "addrsim/C05: lock model {locked, unlocked, watch-only}; private accessors probed after every operation; wrong passphrases of all shapes; memory probe (overlay file in package waddrmgr) aliases every clear-text secret buffer while unlocked and requires it zeroed after Lock / failed Unlock."
	case "C10":
		return "addrsim/C10: fault enumeration over the mutating address-manager operations of a fault-free host history (quick: about one in three selected in the plan, thorough: all): commit failure, then the k-th mutating database call failing for k = 1, 2, ... until the attempt that is not hit, which is the retry and commits. After every failed attempt: namespace dump == pre-state dump, the running manager answers the restart observer's query set as before, same lock state, passphrases as before; swallowed faults must equal the full effect; the retry must give the result the committed model predicts; finally running manager == manager reopened on the committed image. Counters enum.ops / enum.k_positions / enum.op.<kind> / enum.n<=N.<kind> give the covered positions per operation kind."
	case "C08":
		return "addrsim/C08: after committed operations (every 4th in quick, all in thorough) and after every rolled-back one, the latest commit image is opened by a fresh waddrmgr.Open and both managers answer the same query set; after a rollback the next committed issuing call must equal what the fresh manager issues on a scratch copy."
	}
	return ""
}

func (sim) Components() map[string][]string {
	return map[string][]string{
		"real": {"waddrmgr (Manager, ScopedKeyManager, managed addresses, db layer)", "snacl", "internal/zero",
			"walletdb + bdb + bbolt (real file on tmpfs)", "btcd hdkeychain/btcec/txscript/btcutil"},
		"stub":    {"disk faults: faultdb at the walletdb interface (commit failure, k-th write failure, commit images)", "clock: testing/synctest"},
		"not_run": {"wallet package (the dry-run pattern of txToOutputs / ImportAccountDryRun is reproduced as a closure that returns an error after deriving)", "wtxmgr (no transaction is ever recorded, so quasi-secrets must never appear)", "chain backends, rpc"},
	}
}

var probesByProp = map[string][]string{
	"C03": {"derived-while-locked-then-unlocked", "extend-while-unlocked", "extend-while-locked", "lookup-from-cache",
		"lookup-from-disk", "lookup-right-after-restart", "schema-override-account", "schema-override-address",
		"imported-xpub-account", "leading-zero-path", "leading-zero-coin-key-new-account", "range-end", "recreated-from-seed", "restart", "crash-restart",
		"import-key", "import-script", "custom-scope", "new-account", "markused-then-cached-read"},
	"C04": {"passphrase-change", "import-key", "import-script", "watch-only-conversion", "new-account",
		"image-with-freed-pages", "imported-xpub-account", "custom-scope", "crash-restart"},
	"C05": {"failed-unlock-while-unlocked", "lock-with-cached-derived-key", "lock-with-script-address-loaded",
		"memory-check-after-lock", "memory-check-after-failed-unlock", "passphrase-change-while-locked",
		"unlock-new-passphrase-while-still-unlocked", "unlock-right-while-unlocked",
		"passphrase-change-while-unlocked", "old-public-passphrase-after-restart", "watch-only-conversion",
		"derived-while-locked-then-unlocked", "imported-xpub-account", "restart"},
	"C10": {"fault-inside-next-after-first-address", "fault-inside-chpass-between-the-puts", "fault-inside-convert",
		"fault-inside-rename-after-index-delete", "imported-xpub-account", "custom-scope", "restart"},
	"C08": {"dry-run-then-real", "rename-then-lookup-old-and-new", "markused-then-cached-read",
		"failed-commit-of-SetSyncedTo", "next-after-rollback-compared", "observed-after-rollback:closure-error",
		"observed-after-rollback:commit-failure", "observed-after-rollback:write-failure", "restart", "crash-restart",
		"extend-while-unlocked", "extend-while-locked", "imported-xpub-account"},
}

func (sim) Explain(prop string, stats map[string]int64) string {
	var zero []string
	for _, p := range probesByProp[prop] {
		if stats["probe."+p] == 0 {
			zero = append(zero, p)
		}
	}
	s := fmt.Sprintf("%d operations executed (%d transactions committed, %d rolled back); ",
		sumPrefix(stats, "op."), stats["tx.committed"], stats["tx.rolledback"])
	switch prop {
	case "C04":
		s += fmt.Sprintf("%d images scanned (%d bytes); ", stats["c04.images-scanned"], stats["c04.bytes-scanned"])
	case "C05":
		s += fmt.Sprintf("%d private-accessor probes; ", stats["c05.accessor-probed"])
	case "C08":
		s += fmt.Sprintf("%d restart observations; ", stats["c08.observations"])
	case "C10":
		s += fmt.Sprintf("%d operation instances enumerated, %d fault positions (write failures) plus one commit failure each; per kind: ", stats["enum.ops"], stats["enum.k_positions"])
		for _, k := range core.SortedKeys(stats) {
			if strings.HasPrefix(k, "enum.op.") {
				s += fmt.Sprintf("%s=%d ", strings.TrimPrefix(k, "enum.op."), stats[k])
			}
		}
		s += "; "
	}
	var known []string
	for _, k := range core.SortedKeys(stats) {
		if strings.HasPrefix(k, "known.") {
			known = append(known, fmt.Sprintf("%s x%d", strings.TrimPrefix(k, "known."), stats[k]))
		}
	}
	if len(known) > 0 {
		s += "known findings looked beyond: " + strings.Join(known, ", ") + "; "
	}
	if len(zero) == 0 {
		s += "every listed probe was reached."
	} else {
		s += "COVERAGE HOLE - probes never reached: " + strings.Join(zero, ", ") + "."
	}
	return s
}

func sumPrefix(stats map[string]int64, prefix string) int64 {
	var n int64
	for k, v := range stats {
		if strings.HasPrefix(k, prefix) {
			n += v
		}
	}
	return n
}

func (sim) Assumptions() []string {
	return []string{
		"key derivation oracle: an independent BIP32 implementation over btcec, cross-checked against hdkeychain and BIP32 test vector 1 in its own unit test; invalid children (probability 2^-127) are not produced",
		"btcutil's base58check / bech32 encoders and HASH160 are trusted (used by the oracle for the final text form)",
		"account keys of accounts >= 1 are derived by the code base from the coin-type key after a text round trip (32 bytes kept), account 0 from the in-memory key; the oracle models exactly that and the difference only exists when the coin-type key has a leading zero byte",
		"entropy (crypto/rand in snacl / waddrmgr: salts, nonces, validation challenges) is not seeded; nothing that is logged or compared depends on it",
		"memory probe sees buffers reachable from the Manager; copies already dropped for the garbage collector and objects only the caller still holds are out of its sight",
		"DeriveFromKeyPathCache and Extend*Addresses on an imported extended-public-key account while unlocked dereference the nil account private key; only C03 (whose quantifier includes imported accounts) triggers and reports that crash, the other properties keep it as a precondition",
		"single task: lock/unlock races are left to the concurrent simulations",
	}
}
