package addrsim

import (
	"encoding/binary"
	"encoding/hex"
	"fmt"
	"path/filepath"

	"github.com/btcsuite/btcd/btcutil"
	"github.com/btcsuite/btcwallet/waddrmgr"
	"github.com/btcsuite/btcwallet/walletdb"
	bolt "go.etcd.io/bbolt"

	"verifsim/faultdb"
	"verifsim/models/keyoracle"
)

// minPattern is the shortest pattern searched for: shorter byte strings can
// occur in a file by chance.
const minPattern = 16

// pattern is one byte string that must not occur in the database file.
type pattern struct {
	b      []byte
	kind   string // stable class, used in signatures
	secret bool   // member of the secret set (else quasi-secret)
	what   string // for messages
}

// c04state is the secret scan of property C04.
type c04state struct {
	r        *run
	pats     []pattern
	have     map[string]bool
	index    map[uint64][]int // first 8 bytes -> pattern indices
	first2   [1 << 16 / 8]byte
	commits  int
	scanned  int
	thorough bool
	doneRng  map[string]bool
	wrongKey int // wrong-key passes done
}

func newC04(r *run) *c04state {
	return &c04state{r: r, have: map[string]bool{}, index: map[uint64][]int{},
		thorough: r.p.Tier == "thorough", doneRng: map[string]bool{}}
}

func (c *c04state) add(kind, what string, secret bool, b []byte) {
	if len(b) < minPattern {
		return
	}
	k := string(b)
	if c.have[k] {
		return
	}
	c.have[k] = true
	i := len(c.pats)
	c.pats = append(c.pats, pattern{b: append([]byte(nil), b...), kind: kind, secret: secret, what: what})
	p := binary.LittleEndian.Uint64(b[:8])
	c.index[p] = append(c.index[p], i)
	f := binary.LittleEndian.Uint16(b[:2])
	c.first2[f>>3] |= 1 << (f & 7)
}

func (c *c04state) addSecret(kind, what string, b []byte) { c.add(kind, what, true, b) }
func (c *c04state) addQuasi(kind string, b []byte)        { c.add(kind, kind, false, b) }
func (c *c04state) addSecretHex(kind, what string, b []byte) {
	c.add(kind, what, true, b)
	c.add(kind+"-hex", what+" (hex)", true, []byte(hex.EncodeToString(b)))
}

// addXKey adds an extended private key: raw scalar, text form, and the
// public side as quasi-secrets.
func (c *c04state) addXKey(kind, what string, k *keyoracle.ExtKey) {
	net := c.r.net
	if k.IsPrivate() {
		c.addSecretHex(kind+"-raw", what, k.PrivBytes())
		c.addSecret(kind+"-xprv", what+" (base58)", []byte(k.XPrv(net)))
	}
	c.addQuasi(kind+"-xpub", []byte(k.XPub(net)))
	c.addQuasi(kind+"-pubkey", k.PubBytes()[1:])
	c.addQuasi(kind+"-chaincode", k.Chain[:])
}

func (c *c04state) addPassphrase(p []byte, private bool) {
	kind := "public-passphrase"
	if private {
		kind = "private-passphrase"
	}
	// Both passphrases are secrets of the statement ("neither passphrase").
	c.addSecretHex(kind, kind, p)
}

// addBaseSecrets: seed, master key, passphrases, the default scopes.
func (c *c04state) addBaseSecrets() {
	r := c.r
	c.addSecretHex("seed", "wallet seed", r.orc.Seed)
	c.addXKey("master-key", "master extended key", r.orc.MasterKey())
	c.addPassphrase(r.m.Priv, true)
	c.addPassphrase(r.m.Pub, false)
	for _, ks := range waddrmgr.DefaultKeyScopes {
		c.addScopeSecrets(&scopeM{Purpose: ks.Purpose, Coin: ks.Coin})
	}
}

func (c *c04state) addScopeSecrets(sc *scopeM) {
	r := c.r
	if k, err := r.orc.PurposeKey(sc.kscope()); err == nil {
		c.addXKey("purpose-key", fmt.Sprintf("m/%d'", sc.Purpose), k)
	}
	if k, err := r.orc.CoinTypeKey(sc.kscope()); err == nil {
		c.addXKey("cointype-key", fmt.Sprintf("m/%d'/%d'", sc.Purpose, sc.Coin), k)
	}
	c.addAccountSecrets(sc, 0)
}

func (c *c04state) addAccountSecrets(sc *scopeM, num uint32) {
	if k, err := c.r.orc.AccountKey(sc.kscope(), num); err == nil {
		c.addXKey("account-key", fmt.Sprintf("m/%d'/%d'/%d'", sc.Purpose, sc.Coin, num), k)
	}
}

// addChainSecrets adds what is secret / quasi-secret about the chained
// addresses first..last of a branch.
func (c *c04state) addChainSecrets(sc *scopeM, a *acctM, branch, first, last uint32) {
	r := c.r
	ak, err := r.acctKey(sc, a)
	if err != nil {
		return
	}
	bk, err := ak.Child(branch, true)
	if err != nil {
		return
	}
	t, ok := toOracleType(sc.addrTypeFor(a, branch))
	if !ok {
		return
	}
	rk := fmt.Sprintf("%d/%d/%d/%d", sc.Purpose, sc.Coin, a.Num, branch)
	if !c.doneRng[rk+"/branch"] {
		c.doneRng[rk+"/branch"] = true
		c.addXKey("branch-key", "branch key", bk)
	}
	for i := first; i <= last; i++ {
		id := fmt.Sprintf("%s/%d", rk, i)
		if c.doneRng[id] {
			continue
		}
		c.doneRng[id] = true
		k, err := bk.Child(i, true)
		if err != nil {
			continue
		}
		what := fmt.Sprintf("m/%d'/%d'/%d'/%d/%d", sc.Purpose, sc.Coin, a.Num, branch, i)
		if k.IsPrivate() {
			c.addSecret("address-privkey-raw", what, k.PrivBytes())
			c.addSecret("address-privkey-wif", what, []byte(keyoracle.WIF(k.PrivBytes(), true, r.net)))
		}
		c.addQuasi("address-pubkey", k.PubBytes()[1:])
		c.addQuasi("address-hash", keyoracle.ScriptID(k.PubKey(), t))
		c.addQuasi("address-hash", btcutil.Hash160(k.PubBytes()))
		if addr, err := keyoracle.Address(k.PubKey(), t, r.net); err == nil {
			c.addQuasi("address-string", []byte(addr.String()))
		}
	}
}

func (c *c04state) addImportKeySecrets(idx int, compressed bool, addr btcutil.Address) {
	r := c.r
	k := importKey(r.p.Seed, idx)
	what := fmt.Sprintf("imported private key #%d", idx)
	c.addSecretHex("imported-privkey-raw", what, k.Serialize())
	c.addSecret("imported-privkey-wif", what, []byte(keyoracle.WIF(k.Serialize(), compressed, r.net)))
	c.addImportPubQuasi(idx, addr)
}

func (c *c04state) addImportPubQuasi(idx int, addr btcutil.Address) {
	pub := importKey(c.r.p.Seed, idx).PubKey()
	c.addQuasi("imported-pubkey", pub.SerializeCompressed()[1:])
	c.addQuasi("imported-address-hash", btcutil.Hash160(pub.SerializeCompressed()))
	c.addQuasi("imported-address-hash", btcutil.Hash160(pub.SerializeUncompressed()))
	c.addQuasi("imported-address-hash", addr.ScriptAddress())
	c.addQuasi("imported-address-string", []byte(addr.String()))
}

func (c *c04state) addScript(kind string, script []byte, secret bool, addr btcutil.Address) {
	if secret {
		c.addSecretHex("imported-script:"+kind, "imported "+kind, script)
	} else {
		c.addQuasi("imported-public-script", script)
	}
	c.addQuasi("imported-address-hash", addr.ScriptAddress())
	c.addQuasi("imported-address-string", []byte(addr.String()))
}

// interesting operations have all their commits scanned in the quick tier.
func interestingOp(k string) bool {
	switch k {
	case "create", "importpriv", "importpub", "importscript", "chpass", "newaccount", "newraw",
		"newwatch", "newscope", "convert", "end":
		return true
	}
	return false
}

// onCommit is the commit-boundary hook: the image a crash right now would
// leave behind is scanned.
func (c *c04state) onCommit(d *faultdb.DB) {
	r := c.r
	if r.stop {
		return
	}
	c.commits++
	if !(c.thorough || interestingOp(r.opKind) || c.commits%8 == 0) {
		return
	}
	img, err := d.Image()
	if err != nil {
		r.harnessTrouble("image", err)
		return
	}
	c.scanImage(img, "commit-of-"+r.opKind)
}

// scanImage searches a file image for every pattern of the run.
func (c *c04state) scanImage(img []byte, when string) {
	r := c.r
	if r.stop {
		return
	}
	c.scanned++
	r.env.Count("c04.images-scanned")
	r.env.Add("c04.bytes-scanned", int64(len(img)))
	if c.scanned%4 == 1 {
		c.freedPagesProbe(img)
	}
	if !r.stop && (interestingOp(r.opKind) || when == "end-of-run") && (c.thorough || c.wrongKey < 4 || when == "end-of-run") {
		c.wrongKey++
		c.wrongKeyPass(img, when)
		if r.stop {
			return
		}
	}
	if i, off := c.find(img); i >= 0 {
		p := c.pats[i]
		set := "quasi-secret"
		if p.secret {
			set = "secret"
		}
		r.fail(fmt.Sprintf("clear-text-%s-in-file:kind=%s", set, p.kind),
			"the database image at %s (operation %d, %s) contains %s (%s, %d bytes) in clear at file offset %d (page %d)",
			when, r.opIdx, r.opKind, p.what, p.kind, len(p.b), off, off/4096)
	}
}

// wrongKeyPass looks for secrets that are stored encrypted, but under the
// PUBLIC crypto key (readable with the public passphrase alone): the image is
// opened by a fresh, locked manager, every stored value is walked, every
// length-prefixed field that decrypts under CKTPublic is searched for members
// of the secret set.
func (c *c04state) wrongKeyPass(img []byte, when string) {
	r := c.r
	path := filepath.Join(r.env.Dir, "wrongkey.db")
	if writeFile(path, img) != nil {
		return
	}
	db, err := walletdb.Open("bdb", path, true, dbTimeout, false)
	if err != nil {
		return
	}
	defer db.Close()
	r.env.Count("c04.wrong-key-passes")
	_ = walletdb.View(db, func(tx walletdb.ReadTx) error {
		ns := tx.ReadBucket(nsKey)
		if ns == nil {
			return nil
		}
		mgr, err := waddrmgr.Open(ns, r.m.Pub, r.net)
		if err != nil {
			// a crash image taken before a public passphrase change is
			// opened with the passphrase of its own time by the caller
			return nil
		}
		defer mgr.Close()
		try := func(blob []byte, where string) bool {
			pt, err := mgr.Decrypt(waddrmgr.CKTPublic, blob)
			if err != nil {
				return true
			}
			r.env.Count("c04.public-key-fields")
			if i, _ := c.findSecret(pt); i >= 0 {
				p := c.pats[i]
				r.fail(fmt.Sprintf("secret-under-public-key:kind=%s", p.kind),
					"the database image at %s stores %s (%s) encrypted under the PUBLIC crypto key (bucket path %s): readable with the public passphrase alone",
					when, p.what, p.kind, where)
				return false
			}
			return true
		}
		var walk func(b walletdb.ReadBucket, where string) bool
		walk = func(b walletdb.ReadBucket, where string) bool {
			ok := true
			_ = b.ForEach(func(k, v []byte) error {
				if !ok {
					return nil
				}
				if v == nil {
					if nb := b.NestedReadBucket(k); nb != nil {
						ok = walk(nb, where+"/"+printable(k))
					}
					return nil
				}
				if len(v) >= 40 && !try(v, where+"/"+printable(k)) {
					ok = false
					return nil
				}
				for off := 0; off+4 <= len(v); off++ {
					l := int(binary.LittleEndian.Uint32(v[off:]))
					if l >= 40 && off+4+l <= len(v) {
						if !try(v[off+4:off+4+l], where+"/"+printable(k)) {
							ok = false
							return nil
						}
					}
				}
				return nil
			})
			return ok
		}
		walk(ns, "waddrmgr")
		return nil
	})
}

func printable(k []byte) string {
	for _, c := range k {
		if c < 0x20 || c > 0x7e {
			return hex.EncodeToString(k)
		}
	}
	return string(k)
}

// findSecret is find restricted to the secret set.
func (c *c04state) findSecret(b []byte) (int, int) {
	n := len(b)
	for off := 0; off+minPattern <= n; off++ {
		cands, ok := c.index[binary.LittleEndian.Uint64(b[off:])]
		if !ok {
			continue
		}
		for _, i := range cands {
			p := c.pats[i]
			if p.secret && off+len(p.b) <= n && string(b[off:off+len(p.b)]) == string(p.b) {
				return i, off
			}
		}
	}
	return -1, 0
}

// find returns the index of the first pattern that occurs in img and where.
func (c *c04state) find(img []byte) (int, int) {
	n := len(img)
	for off := 0; off+minPattern <= n; off++ {
		f := uint16(img[off]) | uint16(img[off+1])<<8
		if c.first2[f>>3]&(1<<(f&7)) == 0 {
			continue
		}
		cands, ok := c.index[binary.LittleEndian.Uint64(img[off:])]
		if !ok {
			continue
		}
		for _, i := range cands {
			p := c.pats[i].b
			if off+len(p) <= n && string(img[off:off+len(p)]) == string(p) {
				return i, off
			}
		}
	}
	return -1, 0
}

// freedPagesProbe counts images that contain pages not reachable from the
// current root (freed pages keep their old content until they are reused;
// the scan covers them because it reads the whole file).
func (c *c04state) freedPagesProbe(img []byte) {
	r := c.r
	path := filepath.Join(r.env.Dir, "freeprobe.db")
	if writeFile(path, img) != nil {
		return
	}
	bdb, err := bolt.Open(path, 0o600, &bolt.Options{Timeout: dbTimeout, NoFreelistSync: true})
	if err != nil {
		return
	}
	// the freelist statistics are refreshed when a writable transaction ends
	if tx, err := bdb.Begin(true); err == nil {
		_ = tx.Rollback()
	}
	free := bdb.Stats().FreePageN + bdb.Stats().PendingPageN
	bdb.Close()
	if free > 0 {
		r.env.Count("probe.image-with-freed-pages")
	}
}

func (c *c04state) final() {
	r := c.r
	if r.stop || r.mgr == nil {
		return
	}
	img, err := r.db.Image()
	if err == nil {
		c.scanImage(img, "end-of-run")
	}
	r.env.Add("c04.patterns", int64(len(c.pats)))
}

// ---------------------------------------------------------------- conversion to watching-only

// opConvert converts a COPY of the database (as the API documents) to
// watching-only, reopens it, and checks what properties C04 and C05 say about
// a watching-only wallet.
func (r *run) opConvert(op interface{ Arg(int) int64 }) {
	if r.prop != "C04" && r.prop != "C05" && r.prop != "C10" {
		return
	}
	img, err := r.db.Image()
	if err != nil {
		return
	}
	r.gen++
	path := filepath.Join(r.env.Dir, fmt.Sprintf("watch%d.db", r.gen))
	if writeFile(path, img) != nil {
		return
	}
	r.env.Eff()
	r.env.Logf("%d convert copy", r.opIdx)
	inner, err := walletdb.Open("bdb", path, true, dbTimeout, false)
	if err != nil {
		r.harnessTrouble("open-copy", err)
		return
	}
	fdb := faultdb.Wrap(inner)
	var images [][]byte
	fdb.AfterCommit = func(d *faultdb.DB) {
		if im, err := d.Image(); err == nil {
			images = append(images, im)
		}
	}
	var mgr *waddrmgr.Manager
	err = viewDB(fdb, func(ns walletdb.ReadBucket) error {
		var e error
		mgr, e = waddrmgr.Open(ns, r.m.Pub, r.net)
		return e
	})
	if err != nil {
		fdb.Close()
		r.harnessTrouble("open-copy-manager", err)
		return
	}
	// convert while unlocked in half of the cases (the conversion has to wipe
	// memory then)
	if op.Arg(0)&1 == 1 {
		_ = viewDB(fdb, func(ns walletdb.ReadBucket) error { return mgr.Unlock(ns, r.m.Priv) })
	}
	if r.c10 != nil && r.c10.enum {
		r.c10.kind = "convert"
		res := r.c10.enumerate(enumTarget{db: fdb, mgr: func() *waddrmgr.Manager { return mgr }},
			func(ns walletdb.ReadWriteBucket) error { return mgr.ConvertToWatchingOnly(ns) })
		r.c10.needResync = false // the copy is thrown away, the run's manager was not touched
		if res.aborted || r.stop {
			mgr.Close()
			fdb.Close()
			return
		}
		err = res.opErr
		if err == nil {
			err = res.err
		}
	} else {
		if r.prop == "C04" && op.Arg(1) > 0 {
			// a first attempt whose transaction is rolled back — the closure
			// fails after ConvertToWatchingOnly returned, or the commit fails —
			// and then the retry on the same manager
			if op.Arg(1) == 1 {
				_ = updateDB(fdb, func(ns walletdb.ReadWriteBucket) error {
					if e := mgr.ConvertToWatchingOnly(ns); e != nil {
						return e
					}
					return errRollback
				})
			} else {
				fdb.FailCommit = true
				_ = updateDB(fdb, func(ns walletdb.ReadWriteBucket) error { return mgr.ConvertToWatchingOnly(ns) })
				fdb.FailCommit = false
			}
			r.env.Count("probe.conversion-retried-after-a-rolled-back-attempt")
		}
		err = updateDB(fdb, func(ns walletdb.ReadWriteBucket) error { return mgr.ConvertToWatchingOnly(ns) })
	}
	if err != nil {
		mgr.Close()
		fdb.Close()
		r.fail("op-failed:convert:"+errName(err), "ConvertToWatchingOnly on a copy failed: %v", err)
		return
	}
	r.env.Count("probe.watch-only-conversion")
	// the converted, still running instance and then a reopened one
	for pass := 0; pass < 2 && !r.stop; pass++ {
		state := "watch-only"
		r.checkWatchOnly(mgr, fdb, state, pass == 1)
		if pass == 0 {
			mgr.Close()
			_ = fdb.Close()
			inner, err = walletdb.Open("bdb", path, true, dbTimeout, false)
			if err != nil {
				r.harnessTrouble("reopen-copy", err)
				return
			}
			fdb = faultdb.Wrap(inner)
			err = viewDB(fdb, func(ns walletdb.ReadBucket) error {
				var e error
				mgr, e = waddrmgr.Open(ns, r.m.Pub, r.net)
				return e
			})
			if err != nil {
				fdb.Close()
				r.fail("watch-only-reopen-failed:"+errName(err), "the converted copy cannot be reopened: %v", err)
				return
			}
		}
	}
	mgr.Close()
	_ = fdb.Close()
	if r.c4 != nil && !r.stop {
		saved := r.opKind
		r.opKind = "convert"
		for _, im := range images {
			r.c4.scanImage(im, "commit-of-convert")
		}
		r.opKind = saved
	}
}

// checkWatchOnly: every previously issued address resolves, no passphrase
// unlocks, every private accessor fails.
func (r *run) checkWatchOnly(mgr *waddrmgr.Manager, db walletdb.DB, state string, reopened bool) {
	if !mgr.WatchOnly() {
		r.fail("convert-not-watch-only", "WatchOnly() is false after ConvertToWatchingOnly (reopened=%v)", reopened)
		return
	}
	for _, pass := range [][]byte{r.m.Priv, r.m.Pub, {}} {
		err := viewDB(db, func(ns walletdb.ReadBucket) error { return mgr.Unlock(ns, pass) })
		if err == nil || !mgr.IsLocked() {
			r.fail("watch-only-unlocked", "a watching-only manager accepted Unlock (reopened=%v)", reopened)
			return
		}
		if !isCode(err, waddrmgr.ErrWatchingOnly) {
			if r.fail("wrong-error-class:accessor=Unlock:got="+errName(err)+":state=watch-only",
				"Unlock on a watching-only manager failed with %v", err) {
				return
			}
		}
	}
	if r.c5 != nil {
		r.c5.sweep(mgr, db, state, true)
		if r.stop {
			return
		}
	} else {
		for _, kt := range []waddrmgr.CryptoKeyType{waddrmgr.CKTPrivate, waddrmgr.CKTScript} {
			kt := kt
			if !deniedOn(r, map[waddrmgr.CryptoKeyType]string{waddrmgr.CKTPrivate: "Decrypt:CKTPrivate", waddrmgr.CKTScript: "Decrypt:CKTScript"}[kt], state, func() error { _, err := mgr.Decrypt(kt, probeBlob); return err }) {
				return
			}
		}
	}
	n := len(r.m.Issued)
	step := 1
	if n > 24 {
		step = n/24 + 1
	}
	_ = viewDB(db, func(ns walletdb.ReadBucket) error {
		for i := 0; i < n && !r.stop; i += step {
			rec := &r.m.Issued[i]
			ma, err := mgr.Address(ns, r.decode(rec.Addr))
			if err != nil {
				r.fail("watch-only-forgot-address:by="+rec.By, "after conversion to watching-only Address(%s) fails: %v (reopened=%v)", rec.Addr, err, reopened)
				return nil
			}
			if ma.Address().String() != rec.Addr {
				r.fail("watch-only-address-wrong", "after conversion Address(%s) returns %s", rec.Addr, ma.Address())
				return nil
			}
			if pka, ok := ma.(waddrmgr.ManagedPubKeyAddress); ok {
				if !deniedOn(r, "PrivKey", state, func() error { _, err := pka.PrivKey(); return err }) {
					return nil
				}
				if !deniedOn(r, "ExportPrivKey", state, func() error { _, err := pka.ExportPrivKey(); return err }) {
					return nil
				}
				if ct := waddrmgr.VerifAddrPrivCT(ma); len(ct) > 0 {
					r.fail("privkey-after-lock:accessor=Address:state=watch-only", "a watching-only manager holds a clear-text private key for %s", rec.Addr)
					return nil
				}
			}
		}
		for i := range r.m.Imps {
			if r.stop {
				return nil
			}
			rec := &r.m.Imps[i]
			ma, err := mgr.Address(ns, r.decode(rec.Addr))
			if err != nil {
				r.fail("watch-only-forgot-address:by=import-"+rec.Kind, "after conversion to watching-only Address(%s) of an imported %s fails: %v", rec.Addr, rec.Kind, err)
				return nil
			}
			switch x := ma.(type) {
			case waddrmgr.ManagedPubKeyAddress:
				if !deniedOn(r, "PrivKey", state, func() error { _, err := x.PrivKey(); return err }) {
					return nil
				}
			case waddrmgr.ManagedScriptAddress:
				if rec.Secret {
					if !deniedOn(r, "Script:"+rec.Kind, state, func() error { _, err := x.Script(); return err }) {
						return nil
					}
				}
			}
		}
		// path derivation on the watching-only manager
		for si := range r.m.Scopes {
			sc := &r.m.Scopes[si]
			sm, err := mgr.FetchScopedKeyManager(sc.scope())
			if err != nil {
				r.fail("watch-only-forgot-scope", "after conversion scope %v is unknown", sc.scope())
				return nil
			}
			a := &sc.Accts[0]
			kp := r.kpFor(sc, a, 0, 5)
			ma, err := sm.DeriveFromKeyPath(ns, kp)
			if err == nil {
				if pka, ok := ma.(waddrmgr.ManagedPubKeyAddress); ok {
					if !deniedOn(r, "DeriveFromKeyPath+PrivKey", state, func() error { _, err := pka.PrivKey(); return err }) {
						return nil
					}
				}
			}
			if priv, err := sm.DeriveFromKeyPathCache(kp); err == nil && priv != nil {
				r.fail("privkey-after-lock:accessor=DeriveFromKeyPathCache:state=watch-only", "DeriveFromKeyPathCache returned a key on a watching-only manager")
				return nil
			}
		}
		return nil
	})
	if r.stop {
		return
	}
	// account creation needs private material (own transaction: never nested
	// inside the read transaction above)
	if len(r.m.Scopes) > 0 {
		if sm, err := mgr.FetchScopedKeyManager(r.m.Scopes[0].scope()); err == nil {
			if !deniedOn(r, "NewAccount", state, func() error {
				var opErr error
				_ = updateDB(db, func(ns2 walletdb.ReadWriteBucket) error {
					_, opErr = sm.NewAccount(ns2, "c04-probe")
					return errRollback
				})
				return opErr
			}) {
				return
			}
		}
	}
	// secrets must be gone from the secret buffers as well
	for _, b := range mgr.VerifSecretBuffers() {
		if b.Secret && b.Live() {
			if r.fail("memory-not-wiped:buffer="+b.Kind+":state=watch-only", "after conversion to watching-only the buffer %s (%s) still holds a secret", b.Kind, b.Where) {
				return
			}
		}
	}
}
