package addrsim

import (
	"fmt"
	"os"
	"path/filepath"
	"strings"
	"time"

	"github.com/btcsuite/btcd/btcutil"
	"github.com/btcsuite/btcd/btcutil/hdkeychain"
	"github.com/btcsuite/btcd/chaincfg"
	"github.com/btcsuite/btcd/chaincfg/chainhash"
	"github.com/btcsuite/btcwallet/waddrmgr"
	"github.com/btcsuite/btcwallet/walletdb"
	_ "github.com/btcsuite/btcwallet/walletdb/bdb"

	"verifsim/core"
	"verifsim/faultdb"
	"verifsim/models/keyoracle"
	"verifsim/simrt"
)

var nsKey = []byte("waddrmgr")

const dbTimeout = 10 * time.Second

// run is the state of one execution.
type run struct {
	env  *core.Env
	p    *core.Plan
	prop string
	net  *chaincfg.Params

	gen    int // database file generation (restart / crash-restart)
	path   string
	inner  walletdb.DB
	db     *faultdb.DB
	mgr    *waddrmgr.Manager
	closed bool

	orc    *keyoracle.Oracle
	others []*keyoracle.Oracle

	m      *model
	locked bool

	// live API objects of the current manager instance, dropped on restart
	objs map[string]waddrmgr.ManagedAddress // issue-time / import-time objects by address string

	// snapshots for crash-restart
	wantSnaps bool
	snaps     []snapshot

	opIdx  int
	opKind string
	stop   bool
	skip   map[string]bool

	// per-property state
	c4  *c04state
	c5  *c05state
	c8  *c08state
	c10 *c10state

	// history shape for probes
	dryRunPending map[string]bool // "scope/acct/branch" with a rolled-back derivation not yet followed by a committed one
	lastMarked    string
	sinceRestart  bool // no lookup yet since the last restart
}

type snapshot struct {
	img []byte
	m   *model
	op  int
}

// fail records a violation unless its signature is in the plan's skip set
// (known findings the caller wants to look beyond); it reports whether the
// run must stop.
func (r *run) fail(sig, format string, a ...any) bool {
	if r.c10 != nil && r.c10.enum && r.c10.failedAttempts > 0 && strings.HasPrefix(sig, "op-failed:") {
		// C10: the attempt that was not hit by a fault is the retry; where
		// the model says the operation succeeds, its failure after rolled
		// back attempts is "retrying does not give the fault-free result"
		parts := strings.SplitN(sig, ":", 3)
		code := ""
		if len(parts) == 3 {
			code = ":" + parts[2]
		}
		sig = "retry-differs:op=" + r.c10.kind + ":result" + code
		format = fmt.Sprintf("after %d rolled-back attempts of the same operation: ", r.c10.failedAttempts) + format
		r.c10.needResync = true
	}
	sig = core.SigSafe(sig)
	if r.skip[sig] {
		r.env.Count("known." + sig)
		r.env.Logf("known-finding %s", sig)
		return false
	}
	r.env.Fail(r.prop, sig, format, a...)
	r.stop = true
	return true
}

// harnessTrouble reports a failure of the harness's own assumptions (an
// operation the model says must succeed did not, for a reason that is not the
// property under check). It is reported as a violation with a distinctive
// signature so that it is never silently ignored.
func (r *run) harnessTrouble(what string, err error) {
	r.env.Fail(r.prop, "harness:"+core.SigSafe(what)+":"+errName(err), "harness assumption broken: %s: %v", what, err)
	r.stop = true
}

func (r *run) update(f func(ns walletdb.ReadWriteBucket) error) error {
	return walletdb.Update(r.db, func(tx walletdb.ReadWriteTx) error {
		ns := tx.ReadWriteBucket(nsKey)
		if ns == nil {
			return fmt.Errorf("namespace missing")
		}
		return f(ns)
	})
}

func (r *run) view(f func(ns walletdb.ReadBucket) error) error {
	return walletdb.View(r.db, func(tx walletdb.ReadTx) error {
		ns := tx.ReadBucket(nsKey)
		if ns == nil {
			return fmt.Errorf("namespace missing")
		}
		return f(ns)
	})
}

func viewDB(db walletdb.DB, f func(ns walletdb.ReadBucket) error) error {
	return walletdb.View(db, func(tx walletdb.ReadTx) error {
		ns := tx.ReadBucket(nsKey)
		if ns == nil {
			return fmt.Errorf("namespace missing")
		}
		return f(ns)
	})
}

func updateDB(db walletdb.DB, f func(ns walletdb.ReadWriteBucket) error) error {
	return walletdb.Update(db, func(tx walletdb.ReadWriteTx) error {
		ns := tx.ReadWriteBucket(nsKey)
		if ns == nil {
			return fmt.Errorf("namespace missing")
		}
		return f(ns)
	})
}

func (r *run) scoped(si int) *waddrmgr.ScopedKeyManager {
	sm, err := r.mgr.FetchScopedKeyManager(r.m.Scopes[si].scope())
	if err != nil {
		return nil
	}
	return sm
}

// Execute runs one plan.
func (sim) Execute(env *core.Env, p *core.Plan) {
	// map iteration order inside the instrumented packages is a function of
	// the plan seed
	simrt.SetMapSeed(core.Mix(p.Seed, 0x3a9) | 1)
	r := &run{env: env, p: p, prop: p.Prop, net: netFor(p.C("net", 0)),
		objs: map[string]waddrmgr.ManagedAddress{}, skip: map[string]bool{},
		dryRunPending: map[string]bool{}}
	for k, v := range p.Cfg {
		if v != 0 && strings.HasPrefix(k, "skip:") {
			r.skip[strings.TrimPrefix(k, "skip:")] = true
		}
	}
	for _, op := range p.Ops {
		if op.K == "crashrestart" {
			r.wantSnaps = true
		}
	}
	if !r.setup() {
		r.teardown()
		return
	}
	for i, op := range p.Ops {
		env.Step(i)
		r.opIdx, r.opKind = i, op.K
		r.execOp(op)
		if r.stop || env.Failed() {
			break
		}
		if r.c10 != nil && r.c10.needResync {
			if !r.c10.resync() {
				break
			}
		}
		if r.c8 != nil && r.c8.resync {
			r.c8.resync = false
			if !r.reopen(r.path) {
				break
			}
		}
		env.State("%s", r.m.digest())
	}
	if !r.stop && !env.Failed() {
		env.Step(len(p.Ops))
		r.opKind = "end"
		r.finish()
	}
	r.teardown()
}

func (r *run) teardown() {
	if r.mgr != nil && !r.closed {
		r.mgr.Close()
	}
	if r.db != nil && !r.closed {
		_ = r.db.Close()
	}
	r.closed = true
	if r.c8 != nil {
		r.c8.close()
	}
}

// setup creates the wallet database and manager the way wallet.create does:
// hdkeychain.NewMaster(seed) -> waddrmgr.Create -> waddrmgr.Open.
func (r *run) setup() bool {
	p := r.p
	seed := walletSeed(p.Seed, p.C("seedk", 0))
	var err error
	r.orc, err = keyoracle.New(seed, r.net)
	if err != nil {
		r.env.Logf("seed unusable for the oracle: %v", err)
		return false
	}
	for j := 0; j < nOthers; j++ {
		o, err := keyoracle.New(otherSeed(p.Seed, j), r.net)
		if err != nil {
			return false
		}
		r.others = append(r.others, o)
	}
	r.m = &model{Priv: passphrase(p.Seed, 0, 0), Pub: passphrase(p.Seed, 1, 0),
		UsedXpub: map[string]bool{}, UsedKeys: map[string]bool{}}
	r.m.PassCtr = 1

	switch r.prop {
	case "C04":
		r.c4 = newC04(r)
	case "C05":
		r.c5 = newC05(r)
	case "C08":
		r.c8 = newC08(r)
	case "C10":
		r.c10 = newC10(r)
	}
	if r.c4 != nil {
		r.c4.addBaseSecrets()
	}

	r.path = filepath.Join(r.env.Dir, "w0.db")
	r.inner, err = walletdb.Create("bdb", r.path, true, dbTimeout, false)
	if err != nil {
		r.harnessTrouble("walletdb.Create", err)
		return false
	}
	r.db = faultdb.Wrap(r.inner)
	r.installHooks()

	rootKey, err := hdkeychain.NewMaster(seed, r.net)
	if err != nil {
		// hdkeychain and the oracle agree on usability (2^-127)
		r.harnessTrouble("hdkeychain.NewMaster", err)
		return false
	}
	r.opKind = "create"
	birthday := time.Unix(1_600_000_000, 0)
	err = walletdb.Update(r.db, func(tx walletdb.ReadWriteTx) error {
		ns, err := tx.CreateTopLevelBucket(nsKey)
		if err != nil {
			return err
		}
		return waddrmgr.Create(ns, rootKey, r.m.Pub, r.m.Priv, r.net,
			&waddrmgr.FastScryptOptions, birthday)
	})
	if err != nil {
		r.harnessTrouble("waddrmgr.Create", err)
		return false
	}
	if err := r.openManager(); err != nil {
		r.harnessTrouble("waddrmgr.Open", err)
		return false
	}
	// the model of a fresh wallet: four default scopes, account 0 each
	for _, ks := range waddrmgr.DefaultKeyScopes {
		sch := waddrmgr.ScopeAddrMap[ks]
		r.m.Scopes = append(r.m.Scopes, scopeM{Purpose: ks.Purpose, Coin: ks.Coin,
			Ext: uint8(sch.ExternalAddrType), Int: uint8(sch.InternalAddrType),
			Accts: []acctM{{Num: 0, Name: "default"}}})
	}
	g := r.net.GenesisHash
	r.m.Sync = syncM{Height: 0, Hash: append([]byte(nil), g[:]...),
		TS: r.net.GenesisBlock.Header.Timestamp.Unix(), Blocks: map[string][]byte{"0": append([]byte(nil), g[:]...)},
		Birthday: birthday.Add(-48 * time.Hour).Unix()}
	r.locked = true
	r.sinceRestart = true
	for _, sc := range r.m.Scopes {
		if pz, cz := r.orc.LeadingZeroOnPath(sc.kscope()); pz || cz {
			r.env.Count("probe.leading-zero-path")
			break
		}
	}
	r.env.Logf("create net=%s seedlen=%d", r.net.Name, len(seed))
	r.committed()
	return !r.stop
}

func (r *run) openManager() error {
	return walletdb.View(r.db, func(tx walletdb.ReadTx) error {
		ns := tx.ReadBucket(nsKey)
		var err error
		r.mgr, err = waddrmgr.Open(ns, r.m.Pub, r.net)
		return err
	})
}

func (r *run) installHooks() {
	r.db.AfterCommit = func(d *faultdb.DB) {
		if r.c4 != nil {
			r.c4.onCommit(d)
		}
	}
}

// committed is called by an operation after its transaction committed and
// the model was updated.
func (r *run) committed() {
	if r.wantSnaps {
		img, err := r.db.Image()
		if err == nil {
			r.snaps = append(r.snaps, snapshot{img: img, m: r.m.clone(), op: r.opIdx})
			if len(r.snaps) > 4 {
				r.snaps = r.snaps[len(r.snaps)-4:]
			}
		}
	}
}

// reopen closes manager and database and opens path (restart) .
func (r *run) reopen(path string) bool {
	r.mgr.Close()
	_ = r.db.Close()
	r.closed = true
	var err error
	r.inner, err = walletdb.Open("bdb", path, true, dbTimeout, false)
	if err != nil {
		r.harnessTrouble("walletdb.Open", err)
		return false
	}
	r.path = path
	r.db = faultdb.Wrap(r.inner)
	r.installHooks()
	r.closed = false
	if r.c5 != nil && !r.c5.oldPubMustFail() {
		return false
	}
	if err := r.openManager(); err != nil {
		r.mgr = nil
		if r.prop == "C05" && isCode(err, waddrmgr.ErrWrongPassphrase) {
			r.fail("open-failed:right-public-passphrase", "Open with the current public passphrase failed after restart: %v", err)
			return false
		}
		r.harnessTrouble("waddrmgr.Open(restart)", err)
		return false
	}
	r.locked = true
	r.objs = map[string]waddrmgr.ManagedAddress{}
	r.dryRunPending = map[string]bool{}
	r.sinceRestart = true
	if r.c5 != nil {
		r.c5.reset()
	}
	if r.c8 != nil {
		// memory was rebuilt from the file: nothing differs any more
		r.c8.lastDiff = nil
	}
	return true
}

// ---------------------------------------------------------------- oracle access

// acctKey returns the oracle's account key: the seed's m/p'/c'/a' private
// key for ordinary accounts, the imported extended public key for imported
// accounts.
func (r *run) acctKey(sc *scopeM, a *acctM) (*keyoracle.ExtKey, error) {
	if a.Watch {
		k, err := r.others[a.Other].AccountKey(keyoracle.Scope{Purpose: a.OPurpose, Coin: a.OCoin}, a.OAcct)
		if err != nil {
			return nil, err
		}
		return k.Neuter(), nil
	}
	return r.orc.AccountKey(sc.kscope(), a.Num)
}

// addrKey returns the oracle key of (scope, account, branch, index).
func (r *run) addrKey(sc *scopeM, a *acctM, branch, index uint32) (*keyoracle.ExtKey, error) {
	ak, err := r.acctKey(sc, a)
	if err != nil {
		return nil, err
	}
	return keyoracle.AddrKey(ak, branch, index)
}

// expectAddr returns the oracle's address for (scope, account, branch, index).
func (r *run) expectAddr(sc *scopeM, a *acctM, branch, index uint32) (btcutil.Address, *keyoracle.ExtKey, error) {
	k, err := r.addrKey(sc, a, branch, index)
	if err != nil {
		return nil, nil, err
	}
	t, ok := toOracleType(sc.addrTypeFor(a, branch))
	if !ok {
		return nil, nil, fmt.Errorf("no oracle type")
	}
	addr, err := keyoracle.Address(k.PubKey(), t, r.net)
	return addr, k, err
}

func (r *run) stateName() string {
	if r.locked {
		return "locked"
	}
	return "unlocked"
}

func (r *run) decode(s string) btcutil.Address {
	a, err := btcutil.DecodeAddress(s, r.net)
	if err != nil {
		panic("addrsim: cannot decode own address " + s)
	}
	return a
}

func hashFrom(b []byte) chainhash.Hash {
	var h chainhash.Hash
	copy(h[:], b)
	return h
}

func writeFile(path string, b []byte) error { return os.WriteFile(path, b, 0o600) }
