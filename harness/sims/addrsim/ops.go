package addrsim

import (
	"crypto/sha256"
	"fmt"
	"strings"
	"time"

	"github.com/btcsuite/btcd/btcec/v2"
	"github.com/btcsuite/btcd/btcec/v2/schnorr"
	"github.com/btcsuite/btcd/btcutil"
	"github.com/btcsuite/btcd/btcutil/hdkeychain"
	"github.com/btcsuite/btcd/txscript"
	"github.com/btcsuite/btcwallet/waddrmgr"
	"github.com/btcsuite/btcwallet/walletdb"

	"verifsim/core"
	"verifsim/faultdb"
	"verifsim/models/keyoracle"
)

func mod64(v int64, n int) int64 { return int64(mod(v, n)) }

func mod(v int64, n int) int {
	if n <= 0 {
		return 0
	}
	x := int(v % int64(n))
	if x < 0 {
		x += n
	}
	return x
}

// txResult describes how a read-write transaction of an operation ended.
type txResult struct {
	committed bool
	err       error  // error returned by walletdb.Update (nil if committed)
	opErr     error  // error returned by the manager call itself
	kind      string // "" | closure-error | commit-failure | write-failure | op-error | enum-aborted
	panicked  any
	// fault enumeration (C10)
	aborted        bool // a known finding was looked beyond; the operation counts as not executed
	ranOK          bool // some rolled-back attempt ran the call to a successful end
	failedAttempts int
}

var errPanicked = fmt.Errorf("addrsim: the call under test panicked")

// crashed reports a panic of the call under test as a violation; ctx is the
// history shape (account kind, lock state).
func (r *run) crashed(res txResult, ctx string) bool {
	if res.panicked == nil {
		return false
	}
	api := strings.NewReplacer("External", "", "Internal", "").Replace(r.apiName())
	r.fail("panic:"+api+":"+ctx, "%s panicked (%s): %v", r.apiName(), ctx, res.panicked)
	r.stop = true
	return true
}

func acctKind(a *acctM) string {
	if a.Watch {
		return "account=imported-xpub"
	}
	return "account=ordinary"
}

// tx runs f in a read-write transaction under a fault mode:
// 0 none, 1 f succeeds and then the closure returns an error (dry-run
// pattern), 2 injected commit failure, 3 k-th mutating call fails.
func (r *run) tx(mode, k int64, f func(ns walletdb.ReadWriteBucket) error) txResult {
	if r.c10 != nil && r.c10.enum {
		return r.c10.enumerate(enumTarget{db: r.db, mgr: func() *waddrmgr.Manager { return r.mgr }}, f)
	}
	r.db.Reset()
	switch mode {
	case 2:
		r.db.FailCommit = true
	case 3:
		if k < 1 {
			k = 1
		}
		r.db.Arm(int(k))
	}
	var res txResult
	res.err = r.update(func(ns walletdb.ReadWriteBucket) error {
		func() {
			// A crash of the call under test is reported with the API and
			// the history shape in its signature (the generic runner would
			// only name the package); the transaction is rolled back.
			defer func() {
				if p := recover(); p != nil {
					res.panicked = p
					res.opErr = errPanicked
				}
			}()
			res.opErr = f(ns)
		}()
		if res.opErr != nil {
			return res.opErr
		}
		if mode == 1 {
			return errRollback
		}
		return nil
	})
	fired, last := r.db.Fired, r.db.LastKind
	r.db.Reset()
	switch {
	case res.err == nil:
		res.committed = true
	case fired > 0 && last == "commit":
		res.kind = "commit-failure"
		r.env.Count("fault.commit-failure")
	case fired > 0:
		res.kind = "write-failure"
		r.env.Count("fault.write-failure")
	case res.opErr == nil && mode == 1:
		res.kind = "closure-error"
		r.env.Count("fault.closure-error")
	default:
		res.kind = "op-error"
	}
	if res.committed {
		r.env.Count("tx.committed")
	} else {
		r.env.Count("tx.rolledback")
	}
	return res
}

// after is called by every operation that ran a read-write transaction.
func (r *run) after(res txResult) {
	if r.stop {
		return
	}
	if res.committed {
		r.committed()
	}
	if r.c8 != nil {
		r.c8.afterTx(res)
	}
	if r.c10 != nil && r.c10.enum && !res.aborted {
		r.c10.afterEnumerated()
	}
}

// modeArg tells which integer argument of an operation kind is its fault
// mode.
var modeArg = map[string]int{"next": 4, "extend": 4, "markused": 1, "chpass": 2, "newaccount": 1,
	"newraw": 2, "rename": 3, "newwatch": 6, "importpriv": 3, "importpub": 2, "importscript": 3,
	"setsynced": 1, "newscope": 3}

func (r *run) execOp(op core.Op) {
	env := r.env
	env.Count("op." + op.K)
	if r.c10 != nil {
		r.c10.enum = op.Str(0) == "enum"
		r.c10.kind, r.c10.extra, r.c10.failedAttempts = op.K, nil, 0
	}
	if r.c8 != nil {
		if i, ok := modeArg[op.K]; ok && op.Arg(i) != 0 {
			r.c8.beforeFault()
			if r.stop {
				return
			}
			if r.c8.resync {
				r.c8.resync = false
				if !r.reopen(r.path) {
					return
				}
			}
		}
	}
	switch op.K {
	case "next":
		r.opNext(op)
	case "extend":
		r.opExtend(op)
	case "derive":
		r.opDerive(op)
	case "derivecache":
		r.opDeriveCache(op)
	case "lookup":
		r.opLookup(op)
	case "lookupmiss":
		r.opLookupMiss(op)
	case "markused":
		r.opMarkUsed(op)
	case "lock":
		r.opLock(op)
	case "unlock":
		r.opUnlock(op)
	case "chpass":
		r.opChpass(op)
	case "newaccount":
		r.opNewAccount(op)
	case "newraw":
		r.opNewRaw(op)
	case "rename":
		r.opRename(op)
	case "dropaccts":
		r.opDropAccts(op)
	case "acctquery":
		r.opAcctQuery(op)
	case "newwatch":
		r.opNewWatch(op)
	case "importpriv":
		r.opImportPriv(op)
	case "importpub":
		r.opImportPub(op)
	case "importscript":
		r.opImportScript(op)
	case "setsynced":
		r.opSetSynced(op)
	case "syncquery":
		r.opSyncQuery(op)
	case "restart":
		r.opRestart(op)
	case "crashrestart":
		r.opCrashRestart(op)
	case "newscope":
		r.opNewScope(op)
	case "convert":
		r.opConvert(op)
	case "birthday":
		r.opBirthday(op)
	case "clock":
		d := op.Arg(0)
		if d < 1 {
			d = 1
		}
		if d > 86400 {
			d = 86400
		}
		time.Sleep(time.Duration(d) * time.Second)
		env.Eff()
	default:
		return
	}
	if r.stop {
		return
	}
	if r.c5 != nil {
		r.c5.afterOp()
	}
}

// modelProp: the properties whose verdict includes "the result is what the
// committed model predicts" (C10: the fault-free retry gives the same result
// as a run without the fault).
func (r *run) modelProp() bool { return r.prop == "C03" || r.prop == "C08" || r.prop == "C10" }

// privPassAsBefore (C10, after a failed private passphrase change): the
// current private passphrase still unlocks, in the lock state the manager is
// in, and the state is left as it was.
func (r *run) privPassAsBefore() (string, string) {
	was := r.locked
	err, _ := r.unlockWith(append([]byte(nil), r.m.Priv...))
	if err != nil || r.mgr.IsLocked() {
		r.locked = r.mgr.IsLocked()
		return "unlock", fmt.Sprintf("Unlock with the (unchanged) current private passphrase now returns %v (was locked: %v)", err, was)
	}
	if was {
		_ = r.mgr.Lock()
	}
	return "", ""
}

func (r *run) pickAcct(a0, a1 int64) (int, *scopeM, *acctM) {
	si := mod(a0, len(r.m.Scopes))
	sc := &r.m.Scopes[si]
	ai := mod(a1, len(sc.Accts))
	return si, sc, &sc.Accts[ai]
}

func brName(b uint32) string {
	if b == 1 {
		return "Internal"
	}
	return "External"
}

// ---------------------------------------------------------------- next / extend

func (r *run) opNext(op core.Op) {
	si, sc, a := r.pickAcct(op.Arg(0), op.Arg(1))
	branch := uint32(op.Arg(2) & 1)
	n := uint32(mod(op.Arg(3)-1, 8) + 1)
	mode, k := op.Arg(4), op.Arg(5)
	if a.Next[branch]+n > maxIndex {
		return
	}
	sm := r.scoped(si)
	if sm == nil {
		r.harnessTrouble("FetchScopedKeyManager", fmt.Errorf("scope %v missing", sc.scope()))
		return
	}
	if r.c4 != nil {
		r.c4.addChainSecrets(sc, a, branch, a.Next[branch], a.Next[branch]+n-1)
	}
	var expectFresh []string
	if r.c8 != nil && mode == 0 {
		expectFresh = r.c8.freshNext(si, a.Num, branch, n)
		if r.stop {
			return
		}
	}
	var got []waddrmgr.ManagedAddress
	res := r.tx(mode, k, func(ns walletdb.ReadWriteBucket) error {
		var err error
		if branch == 0 {
			got, err = r.scoped(si).NextExternalAddresses(ns, a.Num, n)
		} else {
			got, err = r.scoped(si).NextInternalAddresses(ns, a.Num, n)
		}
		return err
	})
	if res.aborted || (r.stop && r.c10 != nil) {
		return
	}
	r.env.Eff()
	r.env.Logf("%d next s%d a%d %s n=%d mode=%d -> %s %s", r.opIdx, si, a.Num, brName(branch), n, mode, errName(res.err), res.kind)
	if r.crashed(res, acctKind(a)+":state="+r.stateName()) {
		return
	}
	key := fmt.Sprintf("%d/%d/%d", si, a.Num, branch)
	if res.opErr != nil && res.kind == "op-error" {
		r.fail("op-failed:next:"+errName(res.opErr), "Next%sAddresses(account %d, %d) failed in state %s: %v",
			brName(branch), a.Num, n, r.stateName(), res.opErr)
		return
	}
	if res.opErr == nil {
		if uint32(len(got)) != n {
			r.fail("next-count", "asked for %d addresses, got %d", n, len(got))
			return
		}
		// every address handed out, committed or not, must be the oracle's
		for i, ma := range got {
			idx := a.Next[branch] + uint32(i)
			rec := &addrM{Scope: si, Acct: a.Num, Branch: branch, Index: idx, By: "next", State: r.stateName(), Seq: r.opIdx}
			if !r.verifyChained(ma, sc, a, rec, "issue") {
				return
			}
		}
		if a.HasOvr {
			r.env.Count("probe.schema-override-address")
		}
	}
	if !res.committed {
		if res.opErr == nil {
			r.dryRunPending[key] = true
		}
		r.after(res)
		return
	}
	if r.dryRunPending[key] {
		delete(r.dryRunPending, key)
		r.env.Count("probe.dry-run-then-real")
	}
	if r.c8 != nil && expectFresh != nil {
		for i, ma := range got {
			if i < len(expectFresh) && ma.Address().String() != expectFresh[i] {
				sig := "next-address-differs-from-restart"
				if r.c8.rollbackSinceIssue {
					sig = "next-address-differs-after-rollback"
				}
				r.fail(sig, "committed Next%sAddresses(account %d) returned %s as address #%d, a freshly opened manager on the same file issues %s",
					brName(branch), a.Num, ma.Address(), i, expectFresh[i])
				return
			}
		}
		r.c8.rollbackSinceIssue = false
	}
	for i, ma := range got {
		idx := a.Next[branch] + uint32(i)
		rec := addrM{Scope: si, Acct: a.Num, Branch: branch, Index: idx, Addr: ma.Address().String(),
			By: "next", State: r.stateName(), Seq: r.opIdx}
		if r.addrKnown(rec.Addr) {
			r.fail("address-repeated", "address %s issued twice", rec.Addr)
			return
		}
		r.m.Issued = append(r.m.Issued, rec)
		r.objs[rec.Addr] = ma
	}
	a.Next[branch] += n
	r.after(res)
}

func (r *run) addrKnown(s string) bool {
	for i := range r.m.Issued {
		if r.m.Issued[i].Addr == s {
			return true
		}
	}
	return false
}

func (r *run) opExtend(op core.Op) {
	si, sc, a := r.pickAcct(op.Arg(0), op.Arg(1))
	branch := uint32(op.Arg(2) & 1)
	delta := uint32(mod(op.Arg(3), 9))
	mode, k := op.Arg(4), op.Arg(5)
	next := a.Next[branch]
	var last uint32
	if delta == 0 {
		if next == 0 {
			return
		}
		last = next - 1 // already derived: must be a no-op
	} else {
		last = next + delta - 1
	}
	if last >= maxIndex {
		return
	}
	sm := r.scoped(si)
	if sm == nil {
		return
	}
	if a.Watch && !r.locked && r.prop != "C03" {
		// Extending an imported extended-public-key account while unlocked
		// crashes (nil account private key). Property C03 owns that finding
		// ("extended during recovery ... all accounts including imported
		// extended-public-key accounts"); the other properties do not
		// trigger it.
		return
	}
	if r.c4 != nil && delta > 0 {
		r.c4.addChainSecrets(sc, a, branch, next, last)
	}
	res := r.tx(mode, k, func(ns walletdb.ReadWriteBucket) error {
		if branch == 0 {
			return r.scoped(si).ExtendExternalAddresses(ns, a.Num, last)
		}
		return r.scoped(si).ExtendInternalAddresses(ns, a.Num, last)
	})
	if res.aborted || (r.stop && r.c10 != nil) {
		return
	}
	r.env.Eff()
	r.env.Logf("%d extend s%d a%d %s to=%d mode=%d -> %s %s", r.opIdx, si, a.Num, brName(branch), last, mode, errName(res.err), res.kind)
	if r.crashed(res, acctKind(a)+":state="+r.stateName()) {
		return
	}
	if res.opErr != nil && res.kind == "op-error" {
		r.fail("op-failed:extend:"+errName(res.opErr), "Extend%sAddresses(account %d, %d) failed in state %s: %v",
			brName(branch), a.Num, last, r.stateName(), res.opErr)
		return
	}
	if !res.committed {
		r.after(res)
		return
	}
	first := len(r.m.Issued)
	if delta > 0 {
		r.env.Count("probe.extend-while-" + r.stateName())
		for idx := next; idx <= last; idx++ {
			addr, _, err := r.expectAddr(sc, a, branch, idx)
			if err != nil {
				r.harnessTrouble("oracle", err)
				return
			}
			rec := addrM{Scope: si, Acct: a.Num, Branch: branch, Index: idx, Addr: addr.String(),
				By: "extend", State: r.stateName(), Seq: r.opIdx}
			if r.addrKnown(rec.Addr) {
				r.fail("address-repeated", "address %s issued twice", rec.Addr)
				return
			}
			r.m.Issued = append(r.m.Issued, rec)
		}
		a.Next[branch] = last + 1
		if a.HasOvr {
			r.env.Count("probe.schema-override-address")
		}
	}
	// the addresses just created must resolve (they carry no returned
	// object: look them up). First, last and one in the middle.
	if r.prop == "C03" || r.prop == "C05" {
		n := len(r.m.Issued) - first
		for _, off := range []int{0, n / 2, n - 1} {
			if n > 0 && off >= 0 && off < n {
				if !r.checkIssued(first+off, off%2 == 0) {
					return
				}
			}
		}
	}
	r.after(res)
}

// ---------------------------------------------------------------- derive by path

func (r *run) kpFor(sc *scopeM, a *acctM, branch, index uint32) waddrmgr.DerivationPath {
	acct := a.Num + hdkeychain.HardenedKeyStart
	if a.Watch {
		acct = a.OAcct + hdkeychain.HardenedKeyStart
	}
	return waddrmgr.DerivationPath{InternalAccount: a.Num, Account: acct, Branch: branch,
		Index: index, MasterKeyFingerprint: a.MFP}
}

func deriveIndex(v int64) uint32 {
	switch {
	case v < 0:
		return uint32(-v) % 400
	case v >= 1<<31:
		return 1<<31 - 1
	}
	return uint32(v)
}

func (r *run) opDerive(op core.Op) {
	si, sc, a := r.pickAcct(op.Arg(0), op.Arg(1))
	branch := uint32(mod(op.Arg(2), 5))
	index := deriveIndex(op.Arg(3))
	sm := r.scoped(si)
	if sm == nil {
		return
	}
	if r.c4 != nil {
		r.c4.addChainSecrets(sc, a, branch, index, index)
	}
	kp := r.kpFor(sc, a, branch, index)
	var ma waddrmgr.ManagedAddress
	err := r.view(func(ns walletdb.ReadBucket) error {
		var e error
		ma, e = r.scoped(si).DeriveFromKeyPath(ns, kp)
		return e
	})
	r.env.Eff()
	r.env.Logf("%d derive s%d a%d b%d i%d -> %s", r.opIdx, si, a.Num, branch, index, errName(err))
	if index >= 1<<31-16 {
		r.env.Count("probe.range-end")
	}
	if err != nil {
		r.fail("op-failed:derive:"+errName(err), "DeriveFromKeyPath(%+v) failed in state %s: %v", kp, r.stateName(), err)
		return
	}
	rec := &addrM{Scope: si, Acct: a.Num, Branch: branch, Index: index, By: "derive", State: r.stateName(), Seq: r.opIdx}
	r.verifyChained(ma, sc, a, rec, "derive")
}

func (r *run) opDeriveCache(op core.Op) {
	si, sc, a := r.pickAcct(op.Arg(0), op.Arg(1))
	branch := uint32(mod(op.Arg(2), 3))
	index := deriveIndex(op.Arg(3)) % 400
	sm := r.scoped(si)
	if sm == nil {
		return
	}
	// On an imported extended-public-key account in the unlocked state the
	// call dereferences the (nil) account private key. Only property C03
	// (whose quantifier includes imported accounts) produces that crash; the
	// other properties keep the precondition.
	if a.Watch && !r.locked && r.prop != "C03" {
		return
	}
	if r.c4 != nil {
		r.c4.addChainSecrets(sc, a, branch, index, index)
	}
	kp := r.kpFor(sc, a, branch, index)
	var priv *btcec.PrivateKey
	var err error
	var pan any
	func() {
		defer func() { pan = recover() }()
		priv, err = r.scoped(si).DeriveFromKeyPathCache(kp)
	}()
	r.env.Eff()
	if pan != nil {
		r.fail("panic:DeriveFromKeyPathCache:"+acctKind(a)+":state="+r.stateName(),
			"DeriveFromKeyPathCache(%+v) panicked: %v", kp, pan)
		r.stop = true
		return
	}
	r.env.Logf("%d derivecache s%d a%d b%d i%d -> %s key=%v", r.opIdx, si, a.Num, branch, index, errName(err), priv != nil)
	if r.locked {
		if r.c5 != nil && err == nil && priv != nil {
			r.fail("privkey-after-lock:accessor=DeriveFromKeyPathCache",
				"DeriveFromKeyPathCache(%+v) returned a private key while the manager is locked", kp)
		}
		return
	}
	if err != nil {
		// may legitimately fail when the account is not cached
		r.env.Count("derivecache.miss")
		return
	}
	if r.c5 != nil {
		r.c5.notePath(si, a.Num, branch, index)
	}
	k, kerr := r.addrKey(sc, a, branch, index)
	if kerr != nil {
		return
	}
	if r.prop == "C03" || r.prop == "C05" {
		if !bytesEq(priv.Serialize(), k.PrivBytes()) {
			r.fail("privkey-wrong:accessor=DeriveFromKeyPathCache",
				"DeriveFromKeyPathCache(%+v) returned a key that is not the seed's child", kp)
			return
		}
		// The caller is done with the secret and wipes what it was handed,
		// as a signer does; the next caller of the same path must still get
		// the key (round 15: the cache handed out an alias of its entry).
		// (twice: the first repeat is served from the cache, and wiping
		// THAT one is what empties an aliased entry)
		prev := priv
		for rep := 0; rep < 2; rep++ {
			prev.Zero()
			again, err2 := r.scoped(si).DeriveFromKeyPathCache(kp)
			r.env.Count("probe.derivecache-after-caller-wiped-its-copy")
			if err2 != nil || again == nil {
				r.fail("privkey-wrong:accessor=DeriveFromKeyPathCache:after-caller-wipe",
					"DeriveFromKeyPathCache(%+v) answered a moment ago; after the caller wiped its copy it fails: %v", kp, err2)
				return
			}
			if !bytesEq(again.Serialize(), k.PrivBytes()) {
				r.fail("privkey-wrong:accessor=DeriveFromKeyPathCache:after-caller-wipe",
					"DeriveFromKeyPathCache(%+v) returns a key that is not the seed's child after an earlier caller wiped the key it had been handed (repeat %d)", kp, rep+1)
				return
			}
			prev = again
		}
		prev.Zero()
	}
}

// ---------------------------------------------------------------- lookups

func (r *run) opLookup(op core.Op) {
	total := len(r.m.Issued) + len(r.m.Imps)
	if total == 0 {
		return
	}
	k := mod(op.Arg(0), total)
	r.env.Eff()
	if k < len(r.m.Issued) {
		r.env.Logf("%d lookup issued#%d", r.opIdx, k)
		r.checkIssued(k, op.Arg(1)&1 == 0)
		return
	}
	r.env.Logf("%d lookup import#%d", r.opIdx, k-len(r.m.Issued))
	r.checkImported(k-len(r.m.Issued), op.Arg(1)&1 == 0)
}

func (r *run) opLookupMiss(op core.Op) {
	_, sc, a := r.pickAcct(op.Arg(0), op.Arg(1))
	branch := uint32(op.Arg(2) & 1)
	index := 100000 + uint32(mod(op.Arg(3), 1000))
	addr, _, err := r.expectAddr(sc, a, branch, index)
	if err != nil {
		return
	}
	var ma waddrmgr.ManagedAddress
	err = r.view(func(ns walletdb.ReadBucket) error {
		var e error
		ma, e = r.mgr.Address(ns, addr)
		return e
	})
	r.env.Eff()
	r.env.Logf("%d lookupmiss -> %s", r.opIdx, errName(err))
	if err == nil && ma != nil {
		r.fail("lookup-miss-found", "Address(%s) of a never derived address (index %d) was found", addr, index)
		return
	}
	if !isCode(err, waddrmgr.ErrAddressNotFound) && r.modelProp() {
		r.fail("lookup-miss-error:"+errName(err), "Address(%s) of a never derived address failed with %v instead of address-not-found", addr, err)
	}
}

func (r *run) opMarkUsed(op core.Op) {
	total := len(r.m.Issued) + len(r.m.Imps)
	if total == 0 {
		return
	}
	k := mod(op.Arg(0), total)
	mode, kk := op.Arg(1), op.Arg(2)
	var addrStr string
	if k < len(r.m.Issued) {
		addrStr = r.m.Issued[k].Addr
	} else {
		addrStr = r.m.Imps[k-len(r.m.Issued)].Addr
	}
	addr := r.decode(addrStr)
	res := r.tx(mode, kk, func(ns walletdb.ReadWriteBucket) error {
		return r.mgr.MarkUsed(ns, addr)
	})
	if res.aborted || (r.stop && r.c10 != nil) {
		return
	}
	r.env.Eff()
	r.env.Logf("%d markused #%d mode=%d -> %s %s", r.opIdx, k, mode, errName(res.err), res.kind)
	if res.opErr != nil && res.kind == "op-error" {
		r.fail("op-failed:markused:"+errName(res.opErr), "MarkUsed(%s) failed: %v", addrStr, res.opErr)
		return
	}
	if res.committed {
		if k < len(r.m.Issued) {
			r.m.Issued[k].Used = true
		} else {
			r.m.Imps[k-len(r.m.Issued)].Used = true
		}
		r.lastMarked = addrStr
	}
	r.after(res)
	if r.stop || !res.committed {
		return
	}
	// mark-used evicts the cache entry: read it back right away
	r.env.Count("probe.markused-then-cached-read")
	if k < len(r.m.Issued) {
		r.checkIssued(k, true)
	} else {
		r.checkImported(k-len(r.m.Issued), true)
	}
}

// ---------------------------------------------------------------- lock / unlock / passphrases

func (r *run) opLock(op core.Op) {
	if r.c5 != nil {
		r.c5.beforeLock()
	}
	was := r.locked
	err := r.mgr.Lock()
	r.env.Eff()
	r.env.Logf("%d lock (was %s) -> %s", r.opIdx, r.stateName(), errName(err))
	if !was && err != nil {
		r.fail("op-failed:lock:"+errName(err), "Lock() of an unlocked manager failed: %v", err)
		return
	}
	r.locked = true
	if r.c5 != nil {
		if !r.mgr.IsLocked() {
			r.fail("lock-not-locked", "IsLocked() is false after Lock()")
			return
		}
		if !was {
			r.c5.afterLock("lock")
		}
	}
}

// passVariant builds the passphrase an unlock operation uses.
func (r *run) passVariant(v int64) (pass []byte, right bool, name string) {
	cur := r.m.Priv
	switch mod(v, 8) {
	case 0, 1:
		return append([]byte(nil), cur...), true, "right"
	case 2:
		return append([]byte(nil), cur[:len(cur)-1]...), false, "prefix"
	case 3:
		return append(append([]byte(nil), cur...), 'x'), false, "extra-byte"
	case 4:
		b := append([]byte(nil), cur...)
		for i, c := range b {
			if c >= 'a' && c <= 'z' {
				b[i] = c - 32
				break
			} else if c >= 'A' && c <= 'Z' {
				b[i] = c + 32
				break
			}
		}
		return b, false, "case-flip"
	case 5:
		return []byte{}, false, "empty"
	case 6:
		if n := len(r.m.OldPriv); n > 0 {
			return append([]byte(nil), r.m.OldPriv[n-1]...), false, "old"
		}
		return append([]byte(nil), r.m.Pub...), false, "public"
	}
	return passphrase(r.p.Seed, 0, 900+int(v%7)), false, "other"
}

func (r *run) unlockWith(pass []byte) (err error, panicked any) {
	defer func() {
		if r.prop != "C05" {
			// Unlock behaviour is property C05's business; a crash in it is
			// recorded there, the other properties carry on with what state
			// the manager reports.
			if p := recover(); p != nil {
				panicked = p
			}
		}
	}()
	err = r.view(func(ns walletdb.ReadBucket) error {
		return r.mgr.Unlock(ns, pass)
	})
	return err, nil
}

func (r *run) opUnlock(op core.Op) {
	pass, right, name := r.passVariant(op.Arg(0))
	was := r.locked
	if r.c5 != nil && !was && !right {
		r.c5.beforeLock()
	}
	err, pan := r.unlockWith(pass)
	r.env.Eff()
	r.env.Logf("%d unlock %s (was %s) -> %s", r.opIdx, name, r.stateName(), errName(err))
	if pan != nil {
		r.env.Count("anomaly.unlock-panic")
		r.locked = r.mgr.IsLocked()
		return
	}
	if right {
		if err != nil {
			if r.c5 != nil {
				wasCtx := ""
				if !was {
					wasCtx = ":was=unlocked"
				}
				r.fail("unlock-failed:right-passphrase:"+errName(err)+wasCtx+r.c5.unlockContext(),
					"Unlock with the current private passphrase failed (was %s): %v", r.stateName(), err)
				if r.stop {
					return
				}
			}
			r.env.Count("anomaly.unlock-failed")
			r.locked = r.mgr.IsLocked()
			return
		}
		r.locked = false
		if !was {
			r.env.Count("probe.unlock-right-while-unlocked")
		}
		if r.c5 != nil && r.mgr.IsLocked() {
			r.fail("unlock-still-locked", "IsLocked() is true after a successful Unlock")
			return
		}
		if was {
			r.afterUnlock()
		}
		return
	}
	// wrong passphrase
	if !was {
		r.env.Count("probe.failed-unlock-while-unlocked")
	}
	r.locked = r.mgr.IsLocked()
	if r.c5 != nil {
		if err == nil {
			r.fail("unlock-accepted-wrong-passphrase:variant="+name, "Unlock accepted a passphrase (%s variant) that is not the current one", name)
			return
		}
		if !isCode(err, waddrmgr.ErrWrongPassphrase) {
			r.fail("unlock-wrong-error-class:"+errName(err), "Unlock with a wrong passphrase failed with %v, not wrong-passphrase", err)
			return
		}
		if !r.mgr.IsLocked() {
			st := "locked"
			if !was {
				st = "unlocked"
			}
			r.fail("failed-unlock-leaves-unlocked:was="+st, "after a failed Unlock (%s variant) the manager is not locked", name)
			return
		}
		if !was {
			r.c5.afterLock("failed-unlock")
		}
	} else if err == nil {
		// not this property's verdict; follow the implementation
		r.locked = false
	}
}

// afterUnlock runs the checks that need a locked -> unlocked transition:
// addresses created while locked now have their keys.
func (r *run) afterUnlock() {
	if r.prop != "C03" && r.prop != "C05" {
		return
	}
	// objects handed out while locked since the last restart
	n := 0
	for i := len(r.m.Issued) - 1; i >= 0 && n < 6; i-- {
		rec := &r.m.Issued[i]
		if rec.State != "locked" {
			continue
		}
		if _, ok := r.objs[rec.Addr]; !ok && rec.By == "next" {
			continue
		}
		n++
		sc := &r.m.Scopes[rec.Scope]
		a := sc.acct(rec.Acct)
		if a == nil || a.Watch {
			continue
		}
		r.env.Count("probe.derived-while-locked-then-unlocked")
		if ma, ok := r.objs[rec.Addr]; ok {
			if !r.verifyChained(ma, sc, a, rec, "issue-object-after-unlock") {
				return
			}
		} else if !r.checkIssued(i, true) {
			return
		}
	}
}

func (r *run) opChpass(op core.Op) {
	private := op.Arg(0)&1 == 0
	wrongOld := op.Arg(1)%4 == 3
	mode, k := op.Arg(2), op.Arg(3)
	kind := 1
	cur := r.m.Pub
	if private {
		kind, cur = 0, r.m.Priv
	}
	newPass := passphrase(r.p.Seed, kind, r.m.PassCtr)
	old := append([]byte(nil), cur...)
	if wrongOld {
		old = append(old, '!')
	}
	if r.c4 != nil {
		r.c4.addPassphrase(newPass, private)
	}
	if r.c10 != nil {
		r.c10.kind = "chpass-public"
		if private {
			r.c10.kind = "chpass-private"
			r.c10.extra = r.privPassAsBefore
		}
	}
	window := op.Arg(5)
	if r.c5 == nil || r.mgr.WatchOnly() || wrongOld || !private {
		window = 0
	}
	res := r.tx(mode, k, func(ns walletdb.ReadWriteBucket) error {
		// the caller's buffers are its own again once the call has returned:
		// they are wiped before the transaction commits
		oldBuf, newBuf := append([]byte(nil), old...), append([]byte(nil), newPass...)
		err := r.mgr.ChangePassphrase(ns, oldBuf, newBuf, private, &waddrmgr.FastScryptOptions)
		for i := range oldBuf {
			oldBuf[i] = 0
		}
		for i := range newBuf {
			newBuf[i] = 0
		}
		if err == nil && window != 0 {
			// Another caller, in the window between ChangePassphrase
			// returning and its transaction committing (a read transaction
			// of its own; the passphrase in force is still the old one).
			// Nothing is demanded of this call itself; the model follows the
			// lock state the manager reports.
			switch window {
			case 1:
				werr, _ := r.unlockWith(append([]byte(nil), r.m.Priv...))
				r.env.Count("probe.unlock-inside-uncommitted-passphrase-change")
				r.env.Logf("%d   window: Unlock(current) -> %s", r.opIdx, errName(werr))
				if now := r.mgr.IsLocked(); now != r.locked {
					r.locked = now
				}
				// whether the manager is locked or unlocked once the change
				// has committed is not prescribed; if it locks itself the
				// memory must be wiped as after any Lock
				r.c5.beforeLock()
			default:
				was := r.locked
				if !was {
					r.c5.beforeLock()
				}
				_ = r.mgr.Lock()
				r.env.Count("probe.lock-inside-uncommitted-passphrase-change")
				r.locked = r.mgr.IsLocked()
				if !was && r.locked {
					r.c5.afterLock("lock")
				}
			}
		}
		return err
	})
	if res.aborted || (r.stop && r.c10 != nil) {
		return
	}
	if window == 2 && r.c5 != nil && r.locked && r.mgr.IsLocked() && !r.stop {
		// Locked inside the window, and the commit found the manager locked:
		// whatever the commit installed must not be clear-text key material
		r.env.Count("probe.commit-of-a-passphrase-change-on-a-manager-locked-meanwhile")
		r.c5.afterLock("passphrase-change-commit-on-locked-manager")
		if r.stop {
			return
		}
	}
	if window != 0 {
		if now := r.mgr.IsLocked(); now != r.locked {
			r.locked = now
			if now {
				r.env.Count("probe.locked-by-passphrase-change-commit")
				r.c5.afterLock("passphrase-change")
				if r.stop {
					return
				}
			}
		}
	}
	r.env.Eff()
	r.env.Logf("%d chpass private=%v wrongold=%v window=%d state=%s -> %s %s", r.opIdx, private, wrongOld, window, r.stateName(), errName(res.err), res.kind)
	if wrongOld {
		if r.c5 != nil && !isCode(res.opErr, waddrmgr.ErrWrongPassphrase) {
			r.fail("chpass-accepted-wrong-old:"+errName(res.opErr), "ChangePassphrase with a wrong old passphrase returned %v", res.opErr)
		}
		return
	}
	if res.opErr != nil && res.kind == "op-error" {
		r.fail("op-failed:chpass:"+errName(res.opErr), "ChangePassphrase(private=%v) with the right old passphrase failed in state %s: %v",
			private, r.stateName(), res.opErr)
		return
	}
	if !res.committed {
		r.after(res)
		return
	}
	r.m.PassCtr++
	if private {
		r.m.OldPriv = append(r.m.OldPriv, r.m.Priv)
		r.m.Priv = newPass
	} else {
		r.m.OldPub = append(r.m.OldPub, r.m.Pub)
		r.m.Pub = newPass
	}
	r.env.Count("probe.passphrase-change")
	if r.locked {
		r.env.Count("probe.passphrase-change-while-locked")
	} else {
		r.env.Count("probe.passphrase-change-while-unlocked")
	}
	r.after(res)
	if r.stop {
		return
	}
	if r.c5 != nil {
		r.c5.afterChpass(private, mod64(op.Arg(4), 3))
	}
}

// ---------------------------------------------------------------- accounts

func (r *run) opNewAccount(op core.Op) {
	si := mod(op.Arg(0), len(r.m.Scopes))
	sc := &r.m.Scopes[si]
	mode, k := op.Arg(1), op.Arg(2)
	if len(sc.Accts) >= maxAcctPerScope {
		return
	}
	sm := r.scoped(si)
	if sm == nil {
		return
	}
	name := fmt.Sprintf("acct%d", r.m.NameCtr)
	want := sc.LastAcct + 1
	if r.c4 != nil {
		r.c4.addAccountSecrets(sc, want)
	}
	var num uint32
	res := r.tx(mode, k, func(ns walletdb.ReadWriteBucket) error {
		var err error
		num, err = r.scoped(si).NewAccount(ns, name)
		return err
	})
	if res.aborted || (r.stop && r.c10 != nil) {
		return
	}
	r.env.Eff()
	r.env.Logf("%d newaccount s%d state=%s mode=%d -> %s %s", r.opIdx, si, r.stateName(), mode, errName(res.err), res.kind)
	if r.locked {
		if r.c5 != nil && !isLockErr(res.opErr) {
			r.fail("accessor-not-denied:accessor=NewAccount:state=locked:got="+errName(res.opErr),
				"NewAccount while locked returned %v", res.opErr)
		}
		if res.committed {
			// follow the implementation so that later checks stay meaningful
			sc.Accts = append(sc.Accts, acctM{Num: num, Name: name, CreatedSeq: r.opIdx})
			sc.LastAcct = num
			r.m.NameCtr++
		}
		return
	}
	if res.opErr != nil && res.kind == "op-error" {
		r.fail("op-failed:newaccount:"+errName(res.opErr), "NewAccount(%q) failed while unlocked: %v", name, res.opErr)
		return
	}
	if res.committed {
		if num != want {
			r.accountNumberWrong("NewAccount", sc, num, want)
			return
		}
		sc.Accts = append(sc.Accts, acctM{Num: num, Name: name, CreatedSeq: r.opIdx})
		sc.LastAcct = num
		r.m.NameCtr++
		r.env.Count("probe.new-account")
		if _, cz := r.orc.LeadingZeroOnPath(sc.kscope()); cz {
			r.env.Count("probe.leading-zero-coin-key-new-account")
		}
	}
	r.after(res)
}

// accountNumberWrong handles an account-creating call that committed under a
// number the model did not expect. The committed state is then no longer what
// the model describes, so the run ends here whether or not the signature is a
// known finding.
func (r *run) accountNumberWrong(api string, sc *scopeM, num, want uint32) {
	if r.modelProp() {
		if sc.Custom && num == 0 {
			r.fail("new-account-overwrites-account-0:scope=custom",
				"%s on scope m/%d'/%d' (created with NewScopedKeyManager) returned account number 0: the existing account 0 row was replaced (name and next indices reset on disk)",
				api, sc.Purpose, sc.Coin)
		} else {
			r.fail("newaccount-number", "%s returned account %d, expected %d", api, num, want)
		}
	}
	r.stop = true
}

func (r *run) opNewRaw(op core.Op) {
	si := mod(op.Arg(0), len(r.m.Scopes))
	sc := &r.m.Scopes[si]
	mode, k := op.Arg(2), op.Arg(3)
	if len(sc.Accts) >= maxAcctPerScope {
		return
	}
	sm := r.scoped(si)
	if sm == nil {
		return
	}
	num := sc.LastAcct + 1 + uint32(mod(op.Arg(1), 3))
	name := fmt.Sprintf("act:%d", num)
	if r.c4 != nil {
		r.c4.addAccountSecrets(sc, num)
	}
	res := r.tx(mode, k, func(ns walletdb.ReadWriteBucket) error {
		return r.scoped(si).NewRawAccount(ns, num)
	})
	if res.aborted || (r.stop && r.c10 != nil) {
		return
	}
	r.env.Eff()
	r.env.Logf("%d newraw s%d num=%d state=%s mode=%d -> %s %s", r.opIdx, si, num, r.stateName(), mode, errName(res.err), res.kind)
	if r.locked {
		if r.c5 != nil && !isLockErr(res.opErr) {
			r.fail("accessor-not-denied:accessor=NewRawAccount:state=locked:got="+errName(res.opErr),
				"NewRawAccount while locked returned %v", res.opErr)
		}
		if res.committed {
			sc.Accts = append(sc.Accts, acctM{Num: num, Name: name, CreatedSeq: r.opIdx})
			sc.LastAcct = num
		}
		return
	}
	if res.opErr != nil && res.kind == "op-error" {
		r.fail("op-failed:newraw:"+errName(res.opErr), "NewRawAccount(%d) failed while unlocked: %v", num, res.opErr)
		return
	}
	if res.committed {
		sc.Accts = append(sc.Accts, acctM{Num: num, Name: name, CreatedSeq: r.opIdx})
		sc.LastAcct = num
		r.env.Count("probe.new-account")
	}
	r.after(res)
}

// opDropAccts: ScopedKeyManager.InvalidateAccountCache, the exported call the
// wallet makes after a rolled-back account creation, an account-import
// preview and a failed recovery batch. It drops cached account state only:
// nothing the manager answers may change, and whatever Lock has to clear must
// still be cleared when no account of a scope is loaded.
func (r *run) opDropAccts(op core.Op) {
	si, sc, a := r.pickAcct(op.Arg(0), op.Arg(1))
	sm := r.scoped(si)
	if sm == nil {
		return
	}
	if op.Arg(2)%3 != 0 {
		for i := range sc.Accts {
			sm.InvalidateAccountCache(sc.Accts[i].Num)
		}
		sm.InvalidateAccountCache(waddrmgr.ImportedAddrAccount)
		r.env.Count("probe.every-account-of-a-scope-dropped-from-the-cache")
	} else {
		sm.InvalidateAccountCache(a.Num)
	}
	r.env.Count("op.dropaccts")
	r.env.Eff()
	r.env.Logf("%d dropaccts s%d a%d all=%v", r.opIdx, si, a.Num, op.Arg(2)%3 != 0)
}

func (r *run) opRename(op core.Op) {
	si, sc, a := r.pickAcct(op.Arg(0), op.Arg(1))
	dup := op.Arg(2)%5 == 4 && len(sc.Accts) > 1
	mode, k := op.Arg(3), op.Arg(4)
	sm := r.scoped(si)
	if sm == nil {
		return
	}
	name := fmt.Sprintf("ren%d", r.m.NameCtr)
	if dup {
		for i := range sc.Accts {
			if sc.Accts[i].Num != a.Num {
				name = sc.Accts[i].Name
				break
			}
		}
	}
	res := r.tx(mode, k, func(ns walletdb.ReadWriteBucket) error {
		return r.scoped(si).RenameAccount(ns, a.Num, name)
	})
	if res.aborted || (r.stop && r.c10 != nil) {
		return
	}
	r.env.Eff()
	r.env.Logf("%d rename s%d a%d dup=%v mode=%d -> %s %s", r.opIdx, si, a.Num, dup, mode, errName(res.err), res.kind)
	if dup {
		if !isCode(res.opErr, waddrmgr.ErrDuplicateAccount) && r.modelProp() {
			r.fail("rename-duplicate-accepted:"+errName(res.opErr), "RenameAccount to an existing name returned %v", res.opErr)
		}
		if r.c8 != nil && !r.stop {
			r.c8.afterTx(res)
		}
		return
	}
	if res.opErr != nil && res.kind == "op-error" {
		r.fail("op-failed:rename:"+errName(res.opErr), "RenameAccount(%d, %q) failed: %v", a.Num, name, res.opErr)
		return
	}
	r.m.NameCtr++
	if res.committed {
		a.OldNames = append(a.OldNames, a.Name)
		a.Name = name
	}
	r.after(res)
	if r.stop || !res.committed {
		return
	}
	r.env.Count("probe.rename-then-lookup-old-and-new")
	r.acctQuery(si, sc, a)
}

func (r *run) opAcctQuery(op core.Op) {
	si, sc, a := r.pickAcct(op.Arg(0), op.Arg(1))
	r.env.Eff()
	r.env.Logf("%d acctquery s%d a%d", r.opIdx, si, a.Num)
	r.acctQuery(si, sc, a)
}

func (r *run) opNewWatch(op core.Op) {
	si := mod(op.Arg(0), len(r.m.Scopes))
	sc := &r.m.Scopes[si]
	if len(sc.Accts) >= maxAcctPerScope {
		return
	}
	sm := r.scoped(si)
	if sm == nil {
		return
	}
	o := mod(op.Arg(1), nOthers)
	purposes := []uint32{44, 49, 84, 86, 1017}
	opurp := purposes[mod(op.Arg(2), len(purposes))]
	oacct := uint32(mod(op.Arg(3), 4))
	mode, k := op.Arg(6), op.Arg(7)
	id := fmt.Sprintf("%d/%d/%d", o, opurp, oacct)
	if r.m.UsedXpub[id] {
		return
	}
	acctKey, err := r.others[o].AccountKey(keyoracle.Scope{Purpose: opurp, Coin: 0}, oacct)
	if err != nil {
		return
	}
	xpub, err := hdkeychain.NewKeyFromString(acctKey.XPub(r.net))
	if err != nil {
		r.harnessTrouble("xpub-parse", err)
		return
	}
	var ovr *waddrmgr.ScopeAddrSchema
	switch mod(op.Arg(4), 6) {
	case 1:
		s := waddrmgr.KeyScopeBIP0049AddrSchema
		ovr = &s
	case 2:
		ovr = &waddrmgr.ScopeAddrSchema{ExternalAddrType: waddrmgr.WitnessPubKey, InternalAddrType: waddrmgr.WitnessPubKey}
	case 3:
		ovr = &waddrmgr.ScopeAddrSchema{ExternalAddrType: waddrmgr.TaprootPubKey, InternalAddrType: waddrmgr.TaprootPubKey}
	case 4:
		ovr = &waddrmgr.ScopeAddrSchema{ExternalAddrType: waddrmgr.PubKeyHash, InternalAddrType: waddrmgr.NestedWitnessPubKey}
	}
	var mfp uint32
	if op.Arg(5)&1 == 1 {
		mfp = r.others[o].MasterKey().Fingerprint()
	}
	name := fmt.Sprintf("watch%d", r.m.NameCtr)
	want := sc.LastAcct + 1
	if r.c4 != nil {
		r.c4.addQuasi("imported-xpub", []byte(acctKey.XPub(r.net)))
		r.c4.addQuasi("imported-xpub-key", acctKey.PubBytes())
	}
	var num uint32
	res := r.tx(mode, k, func(ns walletdb.ReadWriteBucket) error {
		var err error
		num, err = r.scoped(si).NewAccountWatchingOnly(ns, name, xpub, mfp, ovr)
		return err
	})
	if res.aborted || (r.stop && r.c10 != nil) {
		return
	}
	r.env.Eff()
	r.env.Logf("%d newwatch s%d other=%s ovr=%v mfp=%v mode=%d -> %s %s", r.opIdx, si, id, ovr != nil, mfp != 0, mode, errName(res.err), res.kind)
	if res.opErr != nil && res.kind == "op-error" {
		r.fail("op-failed:newwatch:"+errName(res.opErr), "NewAccountWatchingOnly failed: %v", res.opErr)
		return
	}
	r.m.NameCtr++
	if res.committed {
		if num != want {
			r.accountNumberWrong("NewAccountWatchingOnly", sc, num, want)
			return
		}
		am := acctM{Num: num, Name: name, Watch: true, Other: o, OPurpose: opurp, OCoin: 0, OAcct: oacct, MFP: mfp, CreatedSeq: r.opIdx}
		if ovr != nil {
			am.HasOvr, am.OvrExt, am.OvrInt = true, uint8(ovr.ExternalAddrType), uint8(ovr.InternalAddrType)
			r.env.Count("probe.schema-override-account")
		}
		sc.Accts = append(sc.Accts, am)
		sc.LastAcct = num
		r.m.UsedXpub[id] = true
		r.env.Count("probe.imported-xpub-account")
	}
	r.after(res)
}

// ---------------------------------------------------------------- imports

func (r *run) opImportPriv(op core.Op) {
	si := mod(op.Arg(0), len(r.m.Scopes))
	sc := &r.m.Scopes[si]
	idx := mod(op.Arg(1), 40)
	compressed := op.Arg(2)%4 != 3
	mode, k := op.Arg(3), op.Arg(4)
	id := fmt.Sprintf("k%d", idx)
	if r.m.UsedKeys[id] || len(r.m.Imps) >= maxImports {
		return
	}
	sm := r.scoped(si)
	if sm == nil {
		return
	}
	priv := importKey(r.p.Seed, idx)
	wif, err := btcutil.NewWIF(priv, r.net, compressed)
	if err != nil {
		return
	}
	t := waddrmgr.AddressType(sc.Ext)
	want, err := importedAddr(priv.PubKey(), compressed, t, r.net)
	if err != nil {
		return
	}
	if r.c4 != nil {
		r.c4.addImportKeySecrets(idx, compressed, want)
	}
	bs := r.curStamp()
	var ma waddrmgr.ManagedPubKeyAddress
	res := r.tx(mode, k, func(ns walletdb.ReadWriteBucket) error {
		var err error
		ma, err = r.scoped(si).ImportPrivateKey(ns, wif, bs)
		return err
	})
	if res.aborted || (r.stop && r.c10 != nil) {
		return
	}
	r.env.Eff()
	r.env.Logf("%d importpriv s%d k%d compressed=%v state=%s mode=%d -> %s %s", r.opIdx, si, idx, compressed, r.stateName(), mode, errName(res.err), res.kind)
	if r.locked {
		if r.c5 != nil && !isLockErr(res.opErr) {
			r.fail("accessor-not-denied:accessor=ImportPrivateKey:state=locked:got="+errName(res.opErr),
				"ImportPrivateKey while locked returned %v", res.opErr)
			return
		}
		if !res.committed {
			return
		}
	} else if res.opErr != nil && res.kind == "op-error" {
		r.fail("op-failed:importpriv:"+errName(res.opErr), "ImportPrivateKey failed while unlocked: %v", res.opErr)
		return
	}
	if res.opErr == nil || res.ranOK {
		// whatever happens to the transaction, the in-memory view of this
		// manager instance now knows the key (see DESIGN §10 item 5); do not
		// offer it again in this run.
		r.m.UsedKeys[id] = true
	}
	if res.committed {
		rec := impM{Scope: si, Kind: "priv", Addr: want.String(), KeyIdx: idx, Compressed: compressed}
		r.m.Imps = append(r.m.Imps, rec)
		r.objs[rec.Addr] = ma
		r.env.Count("probe.import-key")
		if ma.Address().String() != rec.Addr && (r.prop == "C03" || r.prop == "C10") {
			r.fail("imported-address-wrong:kind=priv", "ImportPrivateKey returned address %s, the key's %v address is %s", ma.Address(), t, rec.Addr)
			return
		}
	}
	r.after(res)
	if r.stop || !res.committed {
		return
	}
	r.checkImported(len(r.m.Imps)-1, true)
}

func (r *run) opImportPub(op core.Op) {
	si := mod(op.Arg(0), len(r.m.Scopes))
	sc := &r.m.Scopes[si]
	idx := 100 + mod(op.Arg(1), 40)
	mode, k := op.Arg(2), op.Arg(3)
	id := fmt.Sprintf("k%d", idx)
	if r.m.UsedKeys[id] || len(r.m.Imps) >= maxImports {
		return
	}
	sm := r.scoped(si)
	if sm == nil {
		return
	}
	pub := importKey(r.p.Seed, idx).PubKey()
	t := waddrmgr.AddressType(sc.Ext)
	want, err := importedAddr(pub, true, t, r.net)
	if err != nil {
		return
	}
	if r.c4 != nil {
		r.c4.addImportPubQuasi(idx, want)
	}
	bs := r.curStamp()
	var ma waddrmgr.ManagedAddress
	res := r.tx(mode, k, func(ns walletdb.ReadWriteBucket) error {
		var err error
		ma, err = r.scoped(si).ImportPublicKey(ns, pub, bs)
		return err
	})
	if res.aborted || (r.stop && r.c10 != nil) {
		return
	}
	r.env.Eff()
	r.env.Logf("%d importpub s%d k%d mode=%d -> %s %s", r.opIdx, si, idx, mode, errName(res.err), res.kind)
	if res.opErr != nil && res.kind == "op-error" {
		r.fail("op-failed:importpub:"+errName(res.opErr), "ImportPublicKey failed: %v", res.opErr)
		return
	}
	if res.opErr == nil || res.ranOK {
		r.m.UsedKeys[id] = true
	}
	if res.committed {
		rec := impM{Scope: si, Kind: "pub", Addr: want.String(), KeyIdx: idx, Compressed: true}
		r.m.Imps = append(r.m.Imps, rec)
		r.objs[rec.Addr] = ma
		r.env.Count("probe.import-pubkey")
	}
	r.after(res)
	if r.stop || !res.committed {
		return
	}
	r.checkImported(len(r.m.Imps)-1, true)
}

// tapscriptFor builds the full-tree tapscript (one leaf) of an import.
func (r *run) tapscriptFor(idx int) (*waddrmgr.Tapscript, []byte) {
	internal := importKey(r.p.Seed, 700+idx).PubKey()
	leaf := importScriptBytes(r.p.Seed, 300+idx)
	return &waddrmgr.Tapscript{
		Type:         waddrmgr.TapscriptTypeFullTree,
		ControlBlock: &txscript.ControlBlock{InternalKey: internal, LeafVersion: txscript.BaseLeafVersion},
		Leaves:       []txscript.TapLeaf{txscript.NewBaseTapLeaf(leaf)},
	}, leaf
}

func (r *run) opImportScript(op core.Op) {
	si := mod(op.Arg(0), len(r.m.Scopes))
	kind := mod(op.Arg(1), 4)
	idx := mod(op.Arg(2), 20)
	mode, k := op.Arg(3), op.Arg(4)
	id := fmt.Sprintf("s%d/%d", kind, idx)
	if r.m.UsedKeys[id] || len(r.m.Imps) >= maxImports {
		return
	}
	sm := r.scoped(si)
	if sm == nil {
		return
	}
	script := importScriptBytes(r.p.Seed, kind*50+idx)
	var want btcutil.Address
	var err error
	rec := impM{Scope: si, KeyIdx: idx, Script: script, Secret: true}
	var tap *waddrmgr.Tapscript
	switch kind {
	case 0:
		rec.Kind = "script"
		want, err = btcutil.NewAddressScriptHash(script, r.net)
	case 1, 2:
		rec.Kind = "wscript"
		if kind == 2 {
			rec.Kind, rec.Secret = "wscriptpub", false
		}
		h := sha256.Sum256(script)
		want, err = btcutil.NewAddressWitnessScriptHash(h[:], r.net)
	case 3:
		rec.Kind = "tapscript"
		tap, script = r.tapscriptFor(idx)
		rec.Script = script
		root := txscript.NewBaseTapLeaf(script).TapHash()
		out := txscript.ComputeTaprootOutputKey(tap.ControlBlock.InternalKey, root[:])
		want, err = btcutil.NewAddressTaproot(schnorr.SerializePubKey(out), r.net)
	}
	if err != nil {
		return
	}
	rec.Addr = want.String()
	if r.c4 != nil {
		r.c4.addScript(rec.Kind, script, rec.Secret, want)
	}
	bs := r.curStamp()
	if r.c10 != nil {
		r.c10.kind = "importscript" // one code path (importScriptAddress) for all script kinds
		r.env.Count("enum.variant.import" + rec.Kind)
	}
	var ma waddrmgr.ManagedScriptAddress
	res := r.tx(mode, k, func(ns walletdb.ReadWriteBucket) error {
		var err error
		switch kind {
		case 0:
			ma, err = r.scoped(si).ImportScript(ns, script, bs)
		case 1, 2:
			ma, err = r.scoped(si).ImportWitnessScript(ns, script, bs, 0, rec.Secret)
		case 3:
			var t waddrmgr.ManagedTaprootScriptAddress
			t, err = r.scoped(si).ImportTaprootScript(ns, tap, bs, 1, true)
			if err == nil {
				ma = t
			}
		}
		return err
	})
	if res.aborted || (r.stop && r.c10 != nil) {
		return
	}
	r.env.Eff()
	r.env.Logf("%d importscript s%d kind=%s idx=%d state=%s mode=%d -> %s %s", r.opIdx, si, rec.Kind, idx, r.stateName(), mode, errName(res.err), res.kind)
	if r.locked && rec.Secret {
		if r.c5 != nil && !isLockErr(res.opErr) {
			r.fail("accessor-not-denied:accessor=Import"+rec.Kind+":state=locked:got="+errName(res.opErr),
				"importing a secret script while locked returned %v", res.opErr)
			return
		}
		if !res.committed {
			return
		}
	} else if res.opErr != nil && res.kind == "op-error" {
		r.fail("op-failed:importscript:"+errName(res.opErr), "import of a %s failed in state %s: %v", rec.Kind, r.stateName(), res.opErr)
		return
	}
	if res.opErr == nil || res.ranOK {
		r.m.UsedKeys[id] = true
	}
	if res.committed {
		r.m.Imps = append(r.m.Imps, rec)
		r.objs[rec.Addr] = ma
		r.env.Count("probe.import-script")
		if ma.Address().String() != rec.Addr && (r.prop == "C03" || r.prop == "C10") {
			r.fail("imported-address-wrong:kind="+rec.Kind, "imported %s got address %s, expected %s", rec.Kind, ma.Address(), rec.Addr)
			return
		}
	}
	r.after(res)
	if r.stop || !res.committed {
		return
	}
	r.checkImported(len(r.m.Imps)-1, true)
}

// ---------------------------------------------------------------- sync state

func (r *run) curStamp() *waddrmgr.BlockStamp {
	return &waddrmgr.BlockStamp{Height: r.m.Sync.Height, Hash: hashFrom(r.m.Sync.Hash), Timestamp: time.Unix(r.m.Sync.TS, 0)}
}

func (r *run) opSetSynced(op core.Op) {
	dir := mod(op.Arg(0), 8)
	mode, k := op.Arg(1), op.Arg(2)
	s := &r.m.Sync
	var bs *waddrmgr.BlockStamp
	var nh int32
	var hash []byte
	var ts int64
	switch {
	case dir == 6 && s.Height >= 2:
		// reorg: step back to a block we have
		nh = s.Height - int32(1+op.Arg(3)%2)
		hash = s.Blocks[fmt.Sprint(nh)]
		if hash == nil {
			return
		}
		ts = 1_600_000_000 + int64(nh)*600
		if nh == 0 {
			ts = r.net.GenesisBlock.Header.Timestamp.Unix()
		}
	case dir == 7:
		// nil: back to the start block (genesis)
		nh, hash, ts = 0, s.Blocks["0"], r.net.GenesisBlock.Header.Timestamp.Unix()
	default:
		nh = s.Height + 1
		hash = blockHash(r.p.Seed, nh, int64(r.opIdx))
		ts = 1_600_000_000 + int64(nh)*600
	}
	if dir != 7 {
		bs = &waddrmgr.BlockStamp{Height: nh, Hash: hashFrom(hash), Timestamp: time.Unix(ts, 0)}
	}
	res := r.tx(mode, k, func(ns walletdb.ReadWriteBucket) error {
		return r.mgr.SetSyncedTo(ns, bs)
	})
	if res.aborted || (r.stop && r.c10 != nil) {
		return
	}
	r.env.Eff()
	r.env.Logf("%d setsynced h=%d nil=%v mode=%d -> %s %s", r.opIdx, nh, bs == nil, mode, errName(res.err), res.kind)
	if res.opErr != nil && res.kind == "op-error" {
		r.fail("op-failed:setsynced:"+errName(res.opErr), "SetSyncedTo(%d) failed: %v", nh, res.opErr)
		return
	}
	if res.committed {
		s.Height, s.Hash, s.TS = nh, hash, ts
		s.Blocks[fmt.Sprint(nh)] = hash
	} else if res.kind == "commit-failure" {
		r.env.Count("probe.failed-commit-of-SetSyncedTo")
	}
	r.after(res)
}

// opBirthday sets the wallet birthday (SetBirthday) or the birthday block
// (SetBirthdayBlock).
func (r *run) opBirthday(op core.Op) {
	which := mod(op.Arg(0), 2)
	mode, k := op.Arg(2), op.Arg(3)
	s := &r.m.Sync
	var res txResult
	if which == 0 {
		ts := int64(1_500_000_000 + mod(op.Arg(1), 1000)*86400)
		if r.c10 != nil {
			r.c10.kind = "setbirthday"
		}
		res = r.tx(mode, k, func(ns walletdb.ReadWriteBucket) error {
			return r.mgr.SetBirthday(ns, time.Unix(ts, 0))
		})
		r.env.Eff()
		r.env.Logf("%d setbirthday mode=%d -> %s %s", r.opIdx, mode, errName(res.err), res.kind)
		if res.aborted || r.stop {
			return
		}
		if res.opErr != nil && res.kind == "op-error" {
			r.fail("op-failed:setbirthday:"+errName(res.opErr), "SetBirthday failed: %v", res.opErr)
			return
		}
		if res.committed {
			s.Birthday = ts
		}
		r.after(res)
		return
	}
	if r.c10 != nil {
		r.c10.kind = "setbirthdayblock"
	}
	bs := r.curStamp()
	verified := op.Arg(1)&1 == 1
	res = r.tx(mode, k, func(ns walletdb.ReadWriteBucket) error {
		return r.mgr.SetBirthdayBlock(ns, *bs, verified)
	})
	r.env.Eff()
	r.env.Logf("%d setbirthdayblock h=%d mode=%d -> %s %s", r.opIdx, bs.Height, mode, errName(res.err), res.kind)
	if res.aborted || r.stop {
		return
	}
	if res.opErr != nil && res.kind == "op-error" {
		r.fail("op-failed:setbirthdayblock:"+errName(res.opErr), "SetBirthdayBlock failed: %v", res.opErr)
		return
	}
	if res.committed {
		s.BBSet, s.BBHeight, s.BBHash, s.BBTS, s.BBVerified = true, bs.Height, append([]byte(nil), bs.Hash[:]...), bs.Timestamp.Unix(), verified
	}
	r.after(res)
}

func (r *run) opSyncQuery(op core.Op) {
	r.env.Eff()
	if r.prop != "C08" && r.prop != "C10" {
		return
	}
	s := &r.m.Sync
	if b := r.mgr.Birthday().Unix(); b != s.Birthday {
		r.fail("birthday-differs-from-committed", "Birthday() = %d, committed state is %d", b, s.Birthday)
		return
	}
	got := r.mgr.SyncedTo()
	r.env.Logf("%d syncquery h=%d", r.opIdx, got.Height)
	// (the timestamp is compared by the restart observer only: what a nil
	// SetSyncedTo stores as the start block's time is not modelled)
	if got.Height != s.Height || !bytesEq(got.Hash[:], s.Hash) {
		r.fail("synced-to-differs-from-committed", "SyncedTo() = height %d hash %x, committed state is height %d hash %x",
			got.Height, got.Hash[:4], s.Height, s.Hash[:4])
	}
}

// ---------------------------------------------------------------- restart

func (r *run) opRestart(op core.Op) {
	r.env.Eff()
	r.env.Logf("%d restart", r.opIdx)
	if !r.reopen(r.path) {
		return
	}
	r.env.Count("probe.restart")
	if r.c8 != nil {
		r.c8.observe("restart", "")
	}
}

func (r *run) opCrashRestart(op core.Op) {
	if len(r.snaps) == 0 {
		return
	}
	j := mod(op.Arg(0), len(r.snaps))
	// bias towards the most recent images
	if op.Arg(0)%3 != 0 {
		j = len(r.snaps) - 1
	}
	snap := r.snaps[j]
	r.gen++
	path := fmt.Sprintf("%s/w%d.db", r.env.Dir, r.gen)
	if err := writeFile(path, snap.img); err != nil {
		r.harnessTrouble("write-image", err)
		return
	}
	r.env.Eff()
	r.env.Logf("%d crashrestart to image of op %d", r.opIdx, snap.op)
	r.m = snap.m.clone()
	r.snaps = r.snaps[:j+1]
	if !r.reopen(path) {
		return
	}
	r.env.Count("probe.crash-restart")
	if r.c4 != nil {
		r.c4.scanImage(snap.img, "crash-image")
	}
	if r.c8 != nil && !r.stop {
		r.c8.observe("crashrestart", "")
	}
}

func (r *run) opNewScope(op core.Op) {
	if len(r.m.Scopes) >= maxScopes {
		return
	}
	purposes := []uint32{1017, 2, 100, 7, 333}
	ks := waddrmgr.KeyScope{Purpose: purposes[mod(op.Arg(0), len(purposes))], Coin: r.net.HDCoinType}
	if op.Arg(2)&1 == 1 {
		ks.Coin = 5
	}
	for _, sc := range r.m.Scopes {
		if sc.Purpose == ks.Purpose && sc.Coin == ks.Coin {
			return
		}
	}
	schemas := []waddrmgr.ScopeAddrSchema{
		{ExternalAddrType: waddrmgr.WitnessPubKey, InternalAddrType: waddrmgr.WitnessPubKey},
		{ExternalAddrType: waddrmgr.PubKeyHash, InternalAddrType: waddrmgr.PubKeyHash},
		{ExternalAddrType: waddrmgr.NestedWitnessPubKey, InternalAddrType: waddrmgr.WitnessPubKey},
		{ExternalAddrType: waddrmgr.TaprootPubKey, InternalAddrType: waddrmgr.TaprootPubKey},
		{ExternalAddrType: waddrmgr.TaprootPubKey, InternalAddrType: waddrmgr.PubKeyHash},
	}
	sch := schemas[mod(op.Arg(1), len(schemas))]
	mode, k := op.Arg(3), op.Arg(4)
	scm := scopeM{Purpose: ks.Purpose, Coin: ks.Coin, Ext: uint8(sch.ExternalAddrType), Int: uint8(sch.InternalAddrType),
		Custom: true, Accts: []acctM{{Num: 0, Name: "default", CreatedSeq: r.opIdx}}}
	if r.c4 != nil {
		r.c4.addScopeSecrets(&scm)
	}
	res := r.tx(mode, k, func(ns walletdb.ReadWriteBucket) error {
		_, err := r.mgr.NewScopedKeyManager(ns, ks, sch)
		return err
	})
	if res.aborted || (r.stop && r.c10 != nil) {
		return
	}
	r.env.Eff()
	r.env.Logf("%d newscope %d'/%d' state=%s mode=%d -> %s %s", r.opIdx, ks.Purpose, ks.Coin, r.stateName(), mode, errName(res.err), res.kind)
	if r.locked {
		if r.c5 != nil && !isLockErr(res.opErr) {
			r.fail("accessor-not-denied:accessor=NewScopedKeyManager:state=locked:got="+errName(res.opErr),
				"NewScopedKeyManager while locked returned %v", res.opErr)
		}
		return
	}
	if res.opErr != nil && res.kind == "op-error" {
		r.fail("op-failed:newscope:"+errName(res.opErr), "NewScopedKeyManager(%v) failed while unlocked: %v", ks, res.opErr)
		return
	}
	if res.opErr == nil && !res.committed {
		// NewScopedKeyManager registers the scope in memory before the
		// transaction commits; the instance now disagrees with its file
		// about which scopes exist. Nothing in the four properties speaks
		// about scope registration, so the run restarts the manager to get
		// back to a well-defined state.
		r.after(res)
		if !r.stop {
			r.reopen(r.path)
		}
		return
	}
	if res.committed {
		r.m.Scopes = append(r.m.Scopes, scm)
		r.env.Count("probe.custom-scope")
		if pz, cz := r.orc.LeadingZeroOnPath(scm.kscope()); pz || cz {
			r.env.Count("probe.leading-zero-path")
		}
	}
	r.after(res)
}

// keep faultdb import used even if hooks change
var _ = faultdb.ErrInjected

func bytesEq(a, b []byte) bool {
	if len(a) != len(b) {
		return false
	}
	for i := range a {
		if a[i] != b[i] {
			return false
		}
	}
	return true
}
