// Package toysim is the runner's own self-test: a trivial counter "system"
// with a deliberately planted violation (only when VERIF_TOY_BUG=1). It lets
// the master / worker / minimise / replay / known-finding paths be exercised
// without any btcwallet code. It serves no property.
package toysim

import (
	"os"
	"time"

	"verifsim/core"
)

type sim struct{}

func init() { core.Register(sim{}) }

func (sim) Name() string    { return "toysim" }
func (sim) Props() []string { return []string{"TOY"} }

func (sim) Generate(prop, tier string, seed uint64) *core.Plan {
	r := core.NewRand(seed)
	p := &core.Plan{Cfg: map[string]int64{"limit": int64(r.Range(50, 100))}}
	n := r.Range(5, 40)
	for i := 0; i < n; i++ {
		switch r.Intn(3) {
		case 0:
			p.Ops = append(p.Ops, core.Op{K: "add", A: []int64{int64(r.Range(1, 30))}})
		case 1:
			p.Ops = append(p.Ops, core.Op{K: "sleep", A: []int64{int64(r.Range(1, 3600))}})
		default:
			p.Ops = append(p.Ops, core.Op{K: "reset"})
		}
	}
	return p
}

func (sim) Execute(env *core.Env, p *core.Plan) {
	bug := os.Getenv("VERIF_TOY_BUG") == "1"
	if os.Getenv("VERIF_TOY_BUG") == "2" && p.C("limit", 0) == 77 {
		for { // planted hang (watchdog self-test)
		}
	}
	total, model := int64(0), int64(0)
	for i, op := range p.Ops {
		env.Step(i)
		switch op.K {
		case "add":
			total += op.Arg(0)
			model += op.Arg(0)
			if bug && total > p.C("limit", 50) && op.Arg(0) >= 7 {
				total++ // planted drift
			}
			env.Eff()
		case "sleep":
			time.Sleep(time.Duration(op.Arg(0)) * time.Second)
			env.Eff()
		case "reset":
			total, model = 0, 0
			env.Eff()
		}
		env.Logf("%d %s total=%d", i, op.K, total)
		env.State("%d", model)
		if total != model {
			env.Fail("TOY", "toy:drift", "total %d != model %d", total, model)
			return
		}
	}
}
