package simrt

import (
	"reflect"
	"runtime"
)

// Case is one communication clause of a mediated select.
type Case struct {
	send bool
	ch   reflect.Value
	val  reflect.Value
	key  uintptr
}

// RecvCase builds a receive clause.
func RecvCase[T any](ch <-chan T) Case {
	v := reflect.ValueOf(ch)
	return Case{ch: v, key: chanKey(v)}
}

// SendCase builds a send clause.
func SendCase[T any](ch chan<- T, x T) Case {
	v := reflect.ValueOf(ch)
	xv := reflect.New(v.Type().Elem()).Elem()
	if any(x) != nil {
		xv.Set(reflect.ValueOf(x))
	}
	return Case{send: true, ch: v, val: xv, key: chanKey(v)}
}

func chanKey(v reflect.Value) uintptr {
	if !v.IsValid() || v.IsNil() {
		return 0
	}
	return v.Pointer()
}

// As converts the value received by Select for a clause on ch to ch's element
// type (zero value when the channel was closed).
func As[T any](ch <-chan T, v any) T {
	if v == nil {
		var z T
		return z
	}
	return v.(T)
}

type waiter struct {
	t     *task
	cases []Case
	fired int
	val   any
	ok    bool
}

// Select replaces a select statement. It returns the index of the clause that
// fired (-1 for default), and for a receive the value and the ok flag.
func Select(site string, hasDefault bool, cases ...Case) (int, any, bool) {
	s := cur.Load()
	if s == nil || !s.cfg.MediateChans {
		return nativeSelect(hasDefault, cases)
	}
	t := s.self(site)
	s.park(t, stParked, site) // the operation happens when the scheduler says so
	for {
		s.mu.Lock()
		n := len(cases)
		// PRNG order of clauses: a select with several ready clauses takes the
		// one the run's PRNG picks, not the one Go's runtime would pick.
		order := make([]int, n)
		for i := range order {
			order[i] = i
		}
		for i := n - 1; i > 0; i-- {
			j := s.rng.intn(i + 1)
			order[i], order[j] = order[j], order[i]
		}
		for _, i := range order {
			c := cases[i]
			if c.key == 0 {
				continue // nil channel: never ready
			}
			if c.send {
				// 1. a mediated receiver is waiting on this channel and the
				// buffer is empty (unbuffered or drained): hand over directly.
				if c.ch.Len() == 0 {
					if w, wi := s.findWaiter(c.key, false, t); w != nil {
						w.fired, w.val, w.ok = wi, c.val.Interface(), true
						s.release(w)
						s.mu.Unlock()
						return i, nil, false
					}
				}
				// 2. native non-blocking send (buffer space, or a natively
				// blocked receiver). Panics on a closed channel, as Go does.
				sent, pv := trySend(c.ch, c.val)
				if pv != nil {
					s.mu.Unlock()
					panic(pv) // send on closed channel, as the Go runtime would
				}
				if sent {
					s.notify(c.key)
					s.mu.Unlock()
					return i, nil, false
				}
			} else {
				// 1. native non-blocking receive (buffered data, closed channel
				// or a natively blocked sender).
				if v, ok := c.ch.TryRecv(); v.IsValid() {
					s.notify(c.key)
					s.mu.Unlock()
					if !ok {
						return i, nil, false
					}
					return i, v.Interface(), true
				}
				// 2. a mediated sender is waiting on this channel.
				if w, wi := s.findWaiter(c.key, true, t); w != nil {
					val := w.cases[wi].val.Interface()
					w.fired = wi
					s.release(w)
					// a sender left: if the channel is buffered other parties
					// may be able to proceed now
					s.mu.Unlock()
					return i, val, true
				}
			}
		}
		if hasDefault {
			s.mu.Unlock()
			return -1, nil, false
		}
		w := &waiter{t: t, cases: cases, fired: -1}
		s.waiters = append(s.waiters, w)
		t.w = w
		t.state = stBlockedChan
		t.site = site
		s.mu.Unlock()
		s.poke()
		<-t.wake
		if t.kill {
			runtime.Goexit()
		}
		s.mu.Lock()
		fired, val, ok := w.fired, w.val, w.ok
		s.dropWaiter(w)
		t.w = nil
		s.mu.Unlock()
		if fired >= 0 {
			if cases[fired].send {
				return fired, nil, false
			}
			return fired, val, ok
		}
		// woken to re-poll: a channel it waits on changed state
	}
}

// findWaiter returns a parked mediated task (other than self) that has a
// clause of the wanted direction on the channel; chosen by the PRNG among the
// candidates in task-id order.
func (s *Sim) findWaiter(key uintptr, wantSend bool, self *task) (*waiter, int) {
	type cand struct {
		w *waiter
		i int
	}
	var cs []cand
	for _, w := range s.waiters {
		if w.t == self || w.fired >= 0 || w.t.state != stBlockedChan {
			continue
		}
		for i, c := range w.cases {
			if c.key == key && c.send == wantSend {
				cs = append(cs, cand{w, i})
				break
			}
		}
	}
	if len(cs) == 0 {
		return nil, 0
	}
	// deterministic order, then PRNG choice
	for i := 1; i < len(cs); i++ {
		for j := i; j > 0 && cs[j].w.t.id < cs[j-1].w.t.id; j-- {
			cs[j], cs[j-1] = cs[j-1], cs[j]
		}
	}
	c := cs[s.rng.intn(len(cs))]
	return c.w, c.i
}

// release makes a waiter whose clause fired runnable.
func (s *Sim) release(w *waiter) {
	w.t.state = stParked
}

// notify makes every waiter with a clause on the channel runnable so that it
// polls again (buffer space or data appeared, or the channel was closed).
func (s *Sim) notify(key uintptr) {
	for _, w := range s.waiters {
		if w.fired >= 0 || w.t.state != stBlockedChan {
			continue
		}
		for _, c := range w.cases {
			if c.key == key {
				w.t.state = stParked
				break
			}
		}
	}
}

func (s *Sim) dropWaiter(w *waiter) {
	for i, x := range s.waiters {
		if x == w {
			s.waiters = append(s.waiters[:i], s.waiters[i+1:]...)
			return
		}
	}
}

func trySend(ch, v reflect.Value) (sent bool, panicVal any) {
	defer func() {
		if r := recover(); r != nil {
			panicVal = r
		}
	}()
	return ch.TrySend(v), nil
}

func nativeSelect(hasDefault bool, cases []Case) (int, any, bool) {
	sc := make([]reflect.SelectCase, 0, len(cases)+1)
	for _, c := range cases {
		if c.send {
			sc = append(sc, reflect.SelectCase{Dir: reflect.SelectSend, Chan: c.ch, Send: c.val})
		} else {
			sc = append(sc, reflect.SelectCase{Dir: reflect.SelectRecv, Chan: c.ch})
		}
	}
	if hasDefault {
		sc = append(sc, reflect.SelectCase{Dir: reflect.SelectDefault})
	}
	i, v, ok := reflect.Select(sc)
	if hasDefault && i == len(cases) {
		return -1, nil, false
	}
	if cases[i].send || !ok {
		return i, nil, false
	}
	return i, v.Interface(), true
}

// Send replaces `ch <- v`.
func Send[T any](site string, ch chan<- T, v T) {
	s := cur.Load()
	if s == nil || !s.cfg.MediateChans {
		ch <- v
		return
	}
	Select(site, false, SendCase(ch, v))
}

// Recv replaces `<-ch`.
func Recv[T any](site string, ch <-chan T) T {
	s := cur.Load()
	if s == nil || !s.cfg.MediateChans {
		return <-ch
	}
	_, v, _ := Select(site, false, RecvCase(ch))
	return As(ch, v)
}

// Recv2 replaces `v, ok := <-ch`.
func Recv2[T any](site string, ch <-chan T) (T, bool) {
	s := cur.Load()
	if s == nil || !s.cfg.MediateChans {
		v, ok := <-ch
		return v, ok
	}
	_, v, ok := Select(site, false, RecvCase(ch))
	return As(ch, v), ok
}

// TryRecv is a non-blocking mediated receive (harness consumers).
func TryRecv[T any](site string, ch <-chan T) (T, bool, bool) {
	i, v, ok := Select(site, true, RecvCase(ch))
	if i < 0 {
		var z T
		return z, false, false
	}
	return As(ch, v), ok, true
}

// Close replaces close(ch).
func Close[T any](site string, ch chan T) {
	s := cur.Load()
	if s == nil || !s.cfg.MediateChans {
		close(ch)
		return
	}
	t := s.self(site)
	s.park(t, stParked, site)
	s.mu.Lock()
	close(ch)
	s.notify(reflect.ValueOf(ch).Pointer())
	s.mu.Unlock()
}
