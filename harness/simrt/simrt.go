// Package simrt is the deterministic scheduler of the simulator.
//
// Instrumented code (btcwallet packages and the bbolt copy, rewritten at check
// time by tools/instrument) calls into this package at every mutex
// acquisition/release and every `go` statement, and — for files instrumented
// in "mediated channel" mode (chain/queue.go) — at every channel operation
// and select. The harness's own workload tasks and faultdb call Yield at
// operation and database-transaction boundaries.
//
// When no simulation is active every function is a plain pass-through to the
// primitive it replaces, so instrumented code behaves exactly like the
// original (single-task simulations and the transparency self-test rely on
// that).
//
// When a simulation is active (Run), every goroutine that reaches one of these
// calls becomes a *task* with a stable hierarchical id and parks there; the
// scheduler — the goroutine that called Run, inside a testing/synctest
// bubble — waits until every goroutine of the bubble is parked or durably
// blocked (synctest.Wait), then lets exactly one parked task continue, chosen
// by the run's PRNG / strategy. No goroutine ever blocks inside a sync.Mutex:
// Lock is TryLock + "blocked on this mutex until someone unlocks it".
package simrt

import (
	"fmt"
	"runtime"
	"sort"
	"strconv"
	"strings"
	"sync"
	"sync/atomic"
	"testing/synctest"
	"time"
	"unsafe"
)

// Config of one simulated run.
type Config struct {
	Seed     uint64
	Strategy string // "random" | "pct" | "rtb0".."rtbN" (run-to-block with N preemptions)
	// MediateChans: channel operations routed through simrt (Send/Recv/Select/
	// Close) are decided by the scheduler instead of the Go runtime. Only for
	// simulations in which every party of every such channel is instrumented.
	MediateChans bool
	// StuckAfter: simulated time without any runnable task, with the workload
	// unfinished, after which the run is declared stuck (liveness bound).
	StuckAfter time.Duration
	// MaxSteps bounds the number of scheduling decisions.
	MaxSteps int
	// ExpectedSteps is the estimate used by PCT to place priority change points.
	ExpectedSteps int
	// TargetSites: a task reaching a site whose name contains one of these
	// strings is deprioritised once (parked until another task has made
	// progress), which makes rare windows common ("buggify" for schedules).
	TargetSites []string
	// Trace keeps the decision log (task id @ site) for replay output.
	Trace bool
	// YieldAfterUnlock makes every mutex release a scheduling point as well:
	// another task may run between a task's unlock and its next statement
	// (code that selects something under a lock and uses it after releasing
	// the lock). Off by default; recorded schedules depend on it.
	YieldAfterUnlock bool
}

// Report of a run.
type Report struct {
	Steps       int
	Tasks       int
	Stuck       bool     // no runnable task for StuckAfter with the workload unfinished
	StuckInfo   string   // what every task was waiting for
	StepLimit   bool     // MaxSteps exceeded
	Preemptions int      // times a different task than the last one was chosen while the last was runnable
	SiteHits    map[string]int
	Decisions   []string // when Trace
	SchedHash   uint64   // hash of the decision sequence (task ids)
	TargetHits  int
}

type taskState int

const (
	stRunning taskState = iota
	stParked            // runnable, waiting for the scheduler
	stBlockedMutex
	stBlockedChan
	stIdleWait
	stDone
)

type task struct {
	id      string
	wake    chan struct{}
	state   taskState
	site    string
	blocked unsafe.Pointer // mutex blocked on
	nchild  int
	prio    int // pct
	kill    bool
	w       *waiter
	delayed bool // deprioritised by a target site
}

// Sim is one active simulation.
type Sim struct {
	cfg   Config
	mu    sync.Mutex // protects everything below; never held while parked
	tasks map[uint64]*task
	all   []*task
	rng   rng
	kick  chan struct{}
	steps int
	rep   Report
	last  *task
	done  bool // workload finished
	// pct
	changePts map[int]bool
	rtbLeft   int
	rtbPts    map[int]bool
	autoN     map[string]int
	waiters   []*waiter
	progress  int // operations completed by any task (TargetSites bookkeeping)
}

var cur atomic.Pointer[Sim]

// Active reports whether a simulation is running.
func Active() bool { return cur.Load() != nil }

type rng struct{ s uint64 }

func (r *rng) next() uint64 {
	r.s += 0x9e3779b97f4a7c15
	z := r.s
	z = (z ^ (z >> 30)) * 0xbf58476d1ce4e5b9
	z = (z ^ (z >> 27)) * 0x94d049bb133111eb
	return z ^ (z >> 31)
}
func (r *rng) intn(n int) int {
	if n <= 1 {
		return 0
	}
	return int(r.next() % uint64(n))
}

func goid() uint64 {
	var buf [64]byte
	n := runtime.Stack(buf[:], false)
	// "goroutine 123 ["
	s := buf[10:n]
	var id uint64
	for _, c := range s {
		if c < '0' || c > '9' {
			break
		}
		id = id*10 + uint64(c-'0')
	}
	return id
}

// Run executes main as task "m" under the scheduler and returns when main has
// returned and every remaining parked task has been unwound. It must be called
// from inside a synctest bubble; the calling goroutine becomes the scheduler.
func Run(cfg Config, main func()) *Report {
	if cfg.StuckAfter == 0 {
		cfg.StuckAfter = 48 * time.Hour
	}
	if cfg.MaxSteps == 0 {
		cfg.MaxSteps = 5_000_000
	}
	if cfg.ExpectedSteps == 0 {
		cfg.ExpectedSteps = 2000
	}
	if cfg.Strategy == "" {
		cfg.Strategy = "random"
	}
	s := &Sim{cfg: cfg, tasks: map[uint64]*task{}, kick: make(chan struct{}, 1),
		rng: rng{s: cfg.Seed}, autoN: map[string]int{}}
	s.rep.SiteHits = map[string]int{}
	switch {
	case cfg.Strategy == "pct":
		s.changePts = map[int]bool{}
		d := 1 + s.rng.intn(3)
		for i := 0; i < d; i++ {
			s.changePts[1+s.rng.intn(cfg.ExpectedSteps)] = true
		}
	case strings.HasPrefix(cfg.Strategy, "rtb"):
		n, _ := strconv.Atoi(strings.TrimPrefix(cfg.Strategy, "rtb"))
		s.rtbPts = map[int]bool{}
		for i := 0; i < n; i++ {
			s.rtbPts[1+s.rng.intn(cfg.ExpectedSteps)] = true
		}
	}
	if !cur.CompareAndSwap(nil, s) {
		panic("simrt: a simulation is already active in this process")
	}
	defer cur.Store(nil)

	s.spawn(nil, "m", func() {
		defer func() {
			s.mu.Lock()
			s.done = true
			s.mu.Unlock()
		}()
		main()
	})
	s.loop()
	return &s.rep
}

func (s *Sim) spawn(parent *task, id string, fn func()) {
	t := &task{id: id, wake: make(chan struct{}, 1), state: stParked, site: "start"}
	s.mu.Lock()
	t.prio = 1000 + s.rng.intn(1000)
	s.all = append(s.all, t)
	s.rep.Tasks++
	s.mu.Unlock()
	s.poke()
	go func() {
		g := goid()
		s.mu.Lock()
		s.tasks[g] = t
		s.mu.Unlock()
		defer func() {
			s.mu.Lock()
			t.state = stDone
			delete(s.tasks, g)
			s.mu.Unlock()
			s.poke()
		}()
		<-t.wake
		if t.kill {
			return
		}
		fn()
	}()
}

func (s *Sim) poke() {
	select {
	case s.kick <- struct{}{}:
	default:
	}
}

// self returns the task of the calling goroutine, registering an anonymous
// one for goroutines that were not started through Go (e.g. timer callbacks
// of uninstrumented dependencies).
func (s *Sim) self(site string) *task {
	g := goid()
	s.mu.Lock()
	t := s.tasks[g]
	if t == nil {
		n := s.autoN[site]
		s.autoN[site] = n + 1
		t = &task{id: fmt.Sprintf("x:%s#%d", site, n), wake: make(chan struct{}, 1), state: stRunning}
		t.prio = 1000 + s.rng.intn(1000)
		s.tasks[g] = t
		s.all = append(s.all, t)
		s.rep.Tasks++
	}
	s.mu.Unlock()
	return t
}

// park puts the calling task into the given state and waits until the
// scheduler lets it continue.
func (s *Sim) park(t *task, st taskState, site string) {
	s.mu.Lock()
	t.state = st
	t.site = site
	s.mu.Unlock()
	s.poke()
	<-t.wake
	if t.kill {
		// End of run: unwind this goroutine; deferred unlocks/rollbacks run.
		runtime.Goexit()
	}
}

func (s *Sim) loop() {
	idle := time.Duration(0)
	for {
		synctest.Wait()
		s.mu.Lock()
		if s.done {
			s.mu.Unlock()
			break
		}
		var cands, idlers []*task
		for _, t := range s.all {
			switch t.state {
			case stParked:
				cands = append(cands, t)
			case stIdleWait:
				idlers = append(idlers, t)
			}
		}
		if len(cands) == 0 {
			cands = idlers
		}
		if len(cands) == 0 {
			s.mu.Unlock()
			// Nothing runnable: wait for a goroutine to park (a timer may
			// fire as the fake clock advances) or for the liveness bound.
			select {
			case <-s.kick:
				// A kick may be stale; only count real waiting as idle time.
			case <-time.After(time.Hour):
				idle += time.Hour
				if idle >= s.cfg.StuckAfter {
					s.mu.Lock()
					s.rep.Stuck = true
					s.rep.StuckInfo = s.describe()
					s.mu.Unlock()
					s.finish()
					return
				}
			}
			continue
		}
		idle = 0
		sort.Slice(cands, func(i, j int) bool { return cands[i].id < cands[j].id })
		t := s.pick(cands)
		s.steps++
		s.rep.Steps = s.steps
		s.rep.SiteHits[siteClass(t.site)]++
		s.rep.SchedHash = (s.rep.SchedHash ^ hashStr(t.id)) * 0x100000001b3
		if s.cfg.Trace && len(s.rep.Decisions) < 20000 {
			s.rep.Decisions = append(s.rep.Decisions, t.id+"@"+t.site)
		}
		t.state = stRunning
		s.last = t
		over := s.steps > s.cfg.MaxSteps
		s.mu.Unlock()
		if over {
			s.rep.StepLimit = true
			s.finish()
			return
		}
		t.wake <- struct{}{}
	}
	s.finish()
}

// finish unwinds every task that is still parked.
func (s *Sim) finish() {
	for round := 0; round < 1000; round++ {
		synctest.Wait()
		s.mu.Lock()
		var left []*task
		for _, t := range s.all {
			if t.state != stRunning && t.state != stDone {
				left = append(left, t)
			}
		}
		s.mu.Unlock()
		if len(left) == 0 {
			return
		}
		sort.Slice(left, func(i, j int) bool { return left[i].id < left[j].id })
		for _, t := range left {
			s.mu.Lock()
			t.kill = true
			t.state = stRunning
			s.mu.Unlock()
			t.wake <- struct{}{}
			synctest.Wait()
		}
	}
}

func (s *Sim) describe() string {
	var b strings.Builder
	ts := append([]*task(nil), s.all...)
	sort.Slice(ts, func(i, j int) bool { return ts[i].id < ts[j].id })
	for _, t := range ts {
		if t.state == stDone {
			continue
		}
		st := [...]string{"running-or-blocked-natively", "runnable", "blocked-on-mutex", "blocked-on-channel", "idle-wait", "done"}[t.state]
		fmt.Fprintf(&b, "%s:%s@%s; ", t.id, st, t.site)
	}
	return b.String()
}

func (s *Sim) pick(c []*task) *task {
	// Target sites: a task that reached a target site is held back once, as
	// long as anything else can run.
	if len(s.cfg.TargetSites) > 0 && len(c) > 1 {
		var rest []*task
		for _, t := range c {
			hold := false
			if !t.delayed {
				for _, ts := range s.cfg.TargetSites {
					if strings.Contains(t.site, ts) {
						hold = true
					}
				}
			}
			if hold {
				t.delayed = true
				s.rep.TargetHits++
				continue
			}
			rest = append(rest, t)
		}
		if len(rest) > 0 && len(rest) < len(c) {
			// held-back tasks become eligible again next time (delayed=true)
			c = rest
		}
	}
	switch {
	case s.cfg.Strategy == "pct":
		if s.changePts[s.steps] && s.last != nil {
			s.last.prio = s.rng.intn(1000) // below every initial priority
		}
		best := c[0]
		for _, t := range c[1:] {
			if t.prio > best.prio {
				best = t
			}
		}
		if s.last != nil && best != s.last && s.last.state == stParked {
			s.rep.Preemptions++
		}
		return best
	case s.rtbPts != nil:
		force := s.rtbPts[s.steps]
		if s.last != nil && !force {
			for _, t := range c {
				if t == s.last {
					return t
				}
			}
		}
		var others []*task
		for _, t := range c {
			if t != s.last {
				others = append(others, t)
			}
		}
		if len(others) == 0 {
			return c[0]
		}
		if force {
			s.rep.Preemptions++
		}
		return others[s.rng.intn(len(others))]
	default:
		t := c[s.rng.intn(len(c))]
		if s.last != nil && t != s.last && s.last.state == stParked {
			s.rep.Preemptions++
		}
		return t
	}
}

func siteClass(site string) string {
	if i := strings.IndexByte(site, '#'); i >= 0 {
		return site[:i]
	}
	return site
}

func hashStr(s string) uint64 {
	h := uint64(0xcbf29ce484222325)
	for i := 0; i < len(s); i++ {
		h = (h ^ uint64(s[i])) * 0x100000001b3
	}
	return h
}

// ---------------------------------------------------------------- public API

// Yield is a scheduling point.
func Yield(site string) {
	s := cur.Load()
	if s == nil {
		return
	}
	t := s.self(site)
	s.park(t, stParked, site)
}

// WaitIdle parks the calling task until nothing else is runnable: every other
// goroutine of the bubble is durably blocked (channels, timers) or finished.
func WaitIdle(site string) {
	s := cur.Load()
	if s == nil {
		synctest.Wait()
		return
	}
	t := s.self(site)
	s.park(t, stIdleWait, site)
}

// Go replaces the go statement.
func Go(site string, fn func()) {
	s := cur.Load()
	if s == nil {
		go fn()
		return
	}
	p := s.self(site)
	s.mu.Lock()
	id := p.id + "." + strconv.Itoa(p.nchild)
	p.nchild++
	s.mu.Unlock()
	s.spawn(p, id, fn)
}

// GoNamed starts a workload task with an explicit id (harness use).
func GoNamed(id string, fn func()) {
	s := cur.Load()
	if s == nil {
		go fn()
		return
	}
	s.spawn(nil, id, fn)
}

// TaskID returns the id of the calling task ("" outside a simulation).
func TaskID() string {
	s := cur.Load()
	if s == nil {
		return ""
	}
	return s.self("taskid").id
}

// Step returns the number of scheduling decisions taken so far: the global
// event sequence number used to stamp invoke/return events of histories.
func Step() int {
	s := cur.Load()
	if s == nil {
		return 0
	}
	s.mu.Lock()
	defer s.mu.Unlock()
	return s.steps
}

type tryLocker interface {
	TryLock() bool
	Lock()
}

func (s *Sim) lock(site string, key unsafe.Pointer, try func() bool) {
	t := s.self(site)
	s.park(t, stParked, site) // acquisition order is a scheduler decision
	for {
		s.mu.Lock()
		if try() {
			s.mu.Unlock()
			return
		}
		t.state = stBlockedMutex
		t.blocked = key
		t.site = site
		s.mu.Unlock()
		s.poke()
		<-t.wake
		if t.kill {
			runtime.Goexit()
		}
	}
}

func (s *Sim) unlocked(key unsafe.Pointer) {
	s.mu.Lock()
	for _, t := range s.all {
		if t.state == stBlockedMutex && t.blocked == key {
			t.state = stParked
			t.blocked = nil
		}
	}
	s.mu.Unlock()
	if s.cfg.YieldAfterUnlock {
		t := s.self("unlock")
		s.park(t, stParked, "after-unlock")
	}
}

// Lock replaces (*sync.Mutex).Lock.
func Lock(site string, m *sync.Mutex) {
	s := cur.Load()
	if s == nil {
		m.Lock()
		return
	}
	s.lock(site, unsafe.Pointer(m), m.TryLock)
}

// Unlock replaces (*sync.Mutex).Unlock.
func Unlock(site string, m *sync.Mutex) {
	m.Unlock()
	if s := cur.Load(); s != nil {
		s.unlocked(unsafe.Pointer(m))
	}
}

// WLock replaces (*sync.RWMutex).Lock.
func WLock(site string, m *sync.RWMutex) {
	s := cur.Load()
	if s == nil {
		m.Lock()
		return
	}
	s.lock(site, unsafe.Pointer(m), m.TryLock)
}

// WUnlock replaces (*sync.RWMutex).Unlock.
func WUnlock(site string, m *sync.RWMutex) {
	m.Unlock()
	if s := cur.Load(); s != nil {
		s.unlocked(unsafe.Pointer(m))
	}
}

// RLock replaces (*sync.RWMutex).RLock.
func RLock(site string, m *sync.RWMutex) {
	s := cur.Load()
	if s == nil {
		m.RLock()
		return
	}
	s.lock(site, unsafe.Pointer(m), m.TryRLock)
}

// RUnlock replaces (*sync.RWMutex).RUnlock.
func RUnlock(site string, m *sync.RWMutex) {
	m.RUnlock()
	if s := cur.Load(); s != nil {
		s.unlocked(unsafe.Pointer(m))
	}
}

// Progress lets the workload tell the scheduler that an operation completed
// (used by target-site bookkeeping and traces).
func Progress() {
	if s := cur.Load(); s != nil {
		s.mu.Lock()
		s.progress++
		for _, t := range s.all {
			_ = t
		}
		s.mu.Unlock()
	}
}

// Alive lists the ids of tasks that have not finished (harness use, at
// quiescence: "stopping the queue terminates its worker").
func Alive() []string {
	s := cur.Load()
	if s == nil {
		return nil
	}
	s.mu.Lock()
	defer s.mu.Unlock()
	var out []string
	for _, t := range s.all {
		if t.state != stDone {
			out = append(out, t.id)
		}
	}
	sort.Strings(out)
	return out
}

// Blocked reports, for a task id, the site it is parked or blocked at ("" if
// it is running or finished).
func Blocked(id string) string {
	s := cur.Load()
	if s == nil {
		return ""
	}
	s.mu.Lock()
	defer s.mu.Unlock()
	for _, t := range s.all {
		if t.id == id && t.state != stDone && t.state != stRunning {
			return t.site
		}
	}
	return ""
}

// ---- map iteration order

var mapSeed atomic.Uint64

// SetMapSeed sets the seed that decides the iteration order of every
// instrumented `for ... range <map>` (0: canonical sorted order). It is a
// process-wide setting so that single-task simulations (no scheduler) can use
// it too; one simulated run executes at a time per process.
func SetMapSeed(seed uint64) { mapSeed.Store(seed) }

// MapKeys returns the keys of m in an order that is a pure function of
// (map seed, site, key set): the keys are ranked by a keyed hash of their
// printed form. Stateless, so concurrent callers cannot perturb each other.
func MapKeys[M ~map[K]V, K comparable, V any](site string, m M) []K {
	type kh struct {
		k K
		h uint64
		s string
	}
	seed := mapSeed.Load()
	hs := hashStr(site) ^ seed*0x9e3779b97f4a7c15
	ks := make([]kh, 0, len(m))
	for k := range m {
		s := fmt.Sprint(k)
		h := uint64(0)
		if seed != 0 {
			h = hashStr(s) ^ hs
			h ^= h >> 29
			h *= 0xbf58476d1ce4e5b9
			h ^= h >> 32
		}
		ks = append(ks, kh{k, h, s})
	}
	sort.Slice(ks, func(i, j int) bool {
		if ks[i].h != ks[j].h {
			return ks[i].h < ks[j].h
		}
		return ks[i].s < ks[j].s
	})
	out := make([]K, len(ks))
	for i := range ks {
		out[i] = ks[i].k
	}
	return out
}
