// Verification probe, ADDED to package waddrmgr at build time through
// `go build -overlay` (never part of the repository). Read-only: it
// enumerates the clear-text secret buffers a *Manager currently holds so that
// the harness can check that Lock() wipes them (property C05). It changes no
// state of the package.
package waddrmgr

import (
	"fmt"
	"reflect"
	"sort"
	"unsafe"

	"github.com/btcsuite/btcd/btcutil/hdkeychain"
)

// VerifSecretBuf describes one in-memory clear-text secret buffer.
type VerifSecretBuf struct {
	// Kind names the buffer class (stable, used in violation signatures):
	// masterKeyPriv, cryptoKeyPriv, cryptoKeyScript, hashedPrivPassphrase,
	// acctKeyPriv, privKeyCT, lastAddrPrivKeyCT, scriptClearText,
	// witnessScriptClearText, privKeyCache.
	Kind string
	// Where identifies the owner (scope/account/address) for messages.
	Where string
	// Bytes aliases the live buffer (NOT a copy): the harness keeps the alias
	// captured while unlocked and later checks that this very memory was
	// zeroed. Nil when the owner holds no buffer.
	Bytes []byte
	// ID is the address of the first byte (identity of the buffer).
	ID uintptr
	// Secret tells whether an all-non-zero content is private material (false
	// for e.g. a clear-text copy of a script that is stored under the public
	// key anyway).
	Secret bool
}

// Live reports whether the buffer currently holds a non-zero byte.
func (b VerifSecretBuf) Live() bool {
	for _, c := range b.Bytes {
		if c != 0 {
			return true
		}
	}
	return false
}

func verifBuf(kind, where string, b []byte, secret bool) VerifSecretBuf {
	v := VerifSecretBuf{Kind: kind, Where: where, Bytes: b, Secret: secret}
	if len(b) > 0 {
		v.ID = uintptr(unsafe.Pointer(&b[0]))
	}
	return v
}

// verifExtKeyBytes aliases the unexported key bytes of an extended key (the
// type lives in another module, so reflection is the only way in). After
// ExtendedKey.Zero() the field is nil and the old backing array is zeroed.
func verifExtKeyBytes(k *hdkeychain.ExtendedKey) []byte {
	if k == nil {
		return nil
	}
	f := reflect.ValueOf(k).Elem().FieldByName("key")
	if !f.IsValid() || f.Kind() != reflect.Slice {
		return nil
	}
	return f.Bytes()
}

// VerifSecretBuffers enumerates every clear-text secret buffer reachable from
// the manager, in a deterministic order. It takes the same locks a reader
// would take.
func (m *Manager) VerifSecretBuffers() []VerifSecretBuf {
	m.mtx.RLock()
	defer m.mtx.RUnlock()

	var out []VerifSecretBuf
	if m.masterKeyPriv != nil && m.masterKeyPriv.Key != nil {
		out = append(out, verifBuf("masterKeyPriv", "manager", m.masterKeyPriv.Key[:], true))
	}
	if ck, ok := m.cryptoKeyPriv.(*cryptoKey); ok && ck != nil {
		out = append(out, verifBuf("cryptoKeyPriv", "manager", ck.CryptoKey[:], true))
	}
	if ck, ok := m.cryptoKeyScript.(*cryptoKey); ok && ck != nil {
		out = append(out, verifBuf("cryptoKeyScript", "manager", ck.CryptoKey[:], true))
	}
	out = append(out, verifBuf("hashedPrivPassphrase", "manager", m.hashedPrivPassphrase[:], true))

	scopes := make([]KeyScope, 0, len(m.scopedManagers))
	for s := range m.scopedManagers {
		scopes = append(scopes, s)
	}
	sort.Slice(scopes, func(i, j int) bool {
		if scopes[i].Purpose != scopes[j].Purpose {
			return scopes[i].Purpose < scopes[j].Purpose
		}
		return scopes[i].Coin < scopes[j].Coin
	})
	for _, sc := range scopes {
		s := m.scopedManagers[sc]
		s.mtx.RLock()
		accts := make([]uint32, 0, len(s.acctInfo))
		for a := range s.acctInfo {
			accts = append(accts, a)
		}
		sort.Slice(accts, func(i, j int) bool { return accts[i] < accts[j] })
		for _, a := range accts {
			ai := s.acctInfo[a]
			if ai.acctKeyPriv != nil {
				out = append(out, verifBuf("acctKeyPriv",
					fmt.Sprintf("%v/acct=%d", sc, a), verifExtKeyBytes(ai.acctKeyPriv), true))
			}
		}
		keys := make([]string, 0, len(s.addrs))
		for k := range s.addrs {
			keys = append(keys, string(k))
		}
		sort.Strings(keys)
		for _, k := range keys {
			where := fmt.Sprintf("%v/addr=%x", sc, k)
			switch a := s.addrs[addrKey(k)].(type) {
			case *managedAddress:
				a.privKeyMutex.Lock()
				if len(a.privKeyCT) > 0 {
					out = append(out, verifBuf("privKeyCT", where, a.privKeyCT, true))
				}
				a.privKeyMutex.Unlock()
			case *scriptAddress:
				if len(a.scriptClearText) > 0 {
					out = append(out, verifBuf("scriptClearText", where, a.scriptClearText, true))
				}
			case *witnessScriptAddress:
				if len(a.scriptClearText) > 0 {
					out = append(out, verifBuf("witnessScriptClearText", where, a.scriptClearText, a.isSecretScript))
				}
			case *taprootScriptAddress:
				if len(a.scriptClearText) > 0 {
					out = append(out, verifBuf("witnessScriptClearText", where, a.scriptClearText, a.isSecretScript))
				}
			}
		}
		// Last-address objects held by the account info. lock() only walks
		// s.addrs, so an object that is referenced from acctInfo but is not
		// (or no longer) the cache entry is reported under its own kind.
		seen := map[uintptr]bool{}
		for _, b := range out {
			if b.Kind == "privKeyCT" {
				seen[b.ID] = true
			}
		}
		for _, a := range accts {
			ai := s.acctInfo[a]
			for i, ma := range []ManagedAddress{ai.lastExternalAddr, ai.lastInternalAddr} {
				if x, ok := ma.(*managedAddress); ok && x != nil {
					x.privKeyMutex.Lock()
					if len(x.privKeyCT) > 0 {
						b := verifBuf("lastAddrPrivKeyCT",
							fmt.Sprintf("%v/acct=%d/last[%d]", sc, a, i), x.privKeyCT, true)
						if !seen[b.ID] {
							seen[b.ID] = true
							out = append(out, b)
						}
					}
					x.privKeyMutex.Unlock()
				}
			}
		}
		if s.privKeyCache != nil {
			n := 0
			s.privKeyCache.RangeFIFO(func(p DerivationPath, ck *cachedKey) bool {
				b := unsafe.Slice((*byte)(unsafe.Pointer(&ck.key)), unsafe.Sizeof(ck.key))
				out = append(out, verifBuf("privKeyCache",
					fmt.Sprintf("%v/path=%d/%d/%d#%d", sc, p.InternalAccount, p.Branch, p.Index, n), b, true))
				n++
				return true
			})
		}
		s.mtx.RUnlock()
	}
	return out
}

// VerifAddrPrivCT aliases the clear-text private key bytes currently held by
// a managed address object the harness got from the API (nil if none or if
// the object is not a pubkey address). Needed because objects handed out by
// Next*Addresses may not be the ones in the cache.
func VerifAddrPrivCT(ma ManagedAddress) []byte {
	a, ok := ma.(*managedAddress)
	if !ok || a == nil {
		return nil
	}
	a.privKeyMutex.Lock()
	defer a.privKeyMutex.Unlock()
	return a.privKeyCT
}

// VerifCacheLen returns the number of entries of the derived private key
// cache of a scoped manager.
func (s *ScopedKeyManager) VerifCacheLen() int {
	if s.privKeyCache == nil {
		return 0
	}
	return s.privKeyCache.Len()
}

// VerifDeriveOnUnlockLen returns the length of the derive-on-unlock list.
func (s *ScopedKeyManager) VerifDeriveOnUnlockLen() int {
	s.mtx.RLock()
	defer s.mtx.RUnlock()
	return len(s.deriveOnUnlock)
}

// VerifAddrCached tells whether the address is in the in-memory address map
// of the scoped manager (cache hit vs disk lookup).
func (s *ScopedKeyManager) VerifAddrCached(scriptAddr []byte) bool {
	s.mtx.RLock()
	defer s.mtx.RUnlock()
	_, ok := s.addrs[addrKey(scriptAddr)]
	return ok
}
