package chain

// Added to package chain through the build overlay at check time (never part
// of the repository). Gives the simulator a NeutrinoClient whose chain service
// is a stub, so that the client's own notification queue (notificationHandler
// and the rescan callbacks that feed it) can be driven without a network.

import (
	"fmt"
	"time"

	"github.com/btcsuite/btcd/btcutil"
	"github.com/btcsuite/btcd/chaincfg/chainhash"
	"github.com/btcsuite/btcd/wire"
	"github.com/lightninglabs/neutrino/headerfs"
)

// VerifChainService answers the three calls the notification path makes;
// every other method of the embedded (nil) interface is never reached.
type VerifChainService struct {
	NeutrinoChainService
	Best    func() (chainhash.Hash, int32)
	Current func() bool
}

func (c *VerifChainService) Start() error { return nil }
func (c *VerifChainService) Stop() error  { return nil }
func (c *VerifChainService) BestBlock() (*headerfs.BlockStamp, error) {
	h, n := c.Best()
	return &headerfs.BlockStamp{Hash: h, Height: n}, nil
}
func (c *VerifChainService) IsCurrent() bool { return c.Current() }

// VerifNewNeutrinoClient returns a client around the stub.
func VerifNewNeutrinoClient(cs *VerifChainService) *NeutrinoClient {
	return &NeutrinoClient{CS: cs}
}

// VerifBeginRescan puts the client into the state Rescan() leaves it in,
// without creating a neutrino rescan object.
func (s *NeutrinoClient) VerifBeginRescan(start time.Time) {
	s.clientMtx.Lock()
	s.rescanQuit = make(chan struct{})
	s.scanning = true
	s.finished = false
	s.lastProgressSent = false
	s.lastFilteredBlockHeader = nil
	s.isRescan = true
	s.startTime = start
	s.clientMtx.Unlock()
}

// The rescan callbacks, as neutrino's rescan goroutine calls them.
func (s *NeutrinoClient) VerifBlockConnected(hash *chainhash.Hash, height int32, t time.Time) {
	s.onBlockConnected(hash, height, t)
}
func (s *NeutrinoClient) VerifFilteredBlockConnected(height int32, header *wire.BlockHeader, txs []*btcutil.Tx) {
	s.onFilteredBlockConnected(height, header, txs)
}
func (s *NeutrinoClient) VerifBlockDisconnected(hash *chainhash.Hash, height int32, t time.Time) {
	s.onBlockDisconnected(hash, height, t)
}

// VerifBtcdMapRPCErr is RPCClient.MapRPCErr with the backend's version given
// instead of asked over the network (the real method calls BackendVersion):
// the same two passes over the real BtcdErrMap / BtcdErrMapPre2402 tables with
// the real matchErrStr.
func VerifBtcdMapRPCErr(rpcErr error, supportsTestMempoolAccept bool) error {
	for btcdErr, matchedErr := range BtcdErrMap {
		if matchErrStr(rpcErr, btcdErr) {
			return matchedErr
		}
	}
	if !supportsTestMempoolAccept {
		for btcdErr, matchedErr := range BtcdErrMapPre2402 {
			if matchErrStr(rpcErr, btcdErr) {
				return matchedErr
			}
		}
	}
	return fmt.Errorf("%w: %v", ErrUndefined, rpcErr)
}
