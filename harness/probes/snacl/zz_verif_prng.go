// Probe file, ADDED to package snacl at build time through the overlay (never
// part of /repo). Its only purpose is to set a seam: snacl draws nonces, salts
// and generated crypto keys from the package-level `prng`; a simulation may
// replace it with a reader that is a function of the plan seed so that the
// ciphertext bytes of a run are a function of the plan too.
package snacl

import (
	"crypto/rand"
	"io"
)

// VerifSetPRNG replaces the entropy source of the package. nil restores
// crypto/rand.Reader (the value snacl.go initialises it with).
func VerifSetPRNG(r io.Reader) {
	if r == nil {
		prng = rand.Reader
		return
	}
	prng = r
}
