package txauthor

import mrand "math/rand"

// VerifSeedCPRNG reseeds the package's prng (change output position) so that
// transaction ids are a function of the simulation plan. Added by the
// verification overlay only; not part of the repository.
func VerifSeedCPRNG(seed int64) {
	cprng.mu.Lock()
	cprng.r = mrand.New(mrand.NewSource(seed))
	cprng.mu.Unlock()
}
