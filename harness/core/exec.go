package core

import (
	"encoding/json"
	"fmt"
	"os"
	"path/filepath"
	"runtime"
	"runtime/debug"
	"strings"
	"testing"
	"testing/synctest"
	"time"
)

// ScratchRoot is where per-run directories live (tmpfs: fsync is free).
func ScratchRoot() string {
	if d := os.Getenv("VERIF_SCRATCH"); d != "" {
		return d
	}
	if st, err := os.Stat("/dev/shm"); err == nil && st.IsDir() {
		return "/dev/shm"
	}
	return os.TempDir()
}

var runCounter int

// RunPlan executes one plan in a fresh synctest bubble and scratch directory.
func RunPlan(t *testing.T, sim Sim, p *Plan, verbose bool) *Result {
	runCounter++
	dir := filepath.Join(ScratchRoot(), fmt.Sprintf("verifsim-%d", os.Getpid()), fmt.Sprintf("r%d", runCounter))
	if err := os.MkdirAll(dir, 0o755); err != nil {
		return &Result{Infra: "mkdir scratch: " + err.Error()}
	}
	defer os.RemoveAll(dir)
	env := NewEnv(dir)
	env.Verbose = verbose
	var simSecs float64
	var infra string
	func() {
		defer func() {
			if r := recover(); r != nil {
				// synctest's own complaints (goroutines left blocked at the end
				// of the bubble). If the run already produced a verdict this is
				// just an unclean teardown; otherwise it is infrastructure trouble
				// unless the simulation says deadlocks are violations.
				msg := fmt.Sprint(r)
				if env.viol == nil {
					if strings.Contains(msg, "deadlock") || strings.Contains(msg, "blocked goroutines") {
						if sig, ok := env.deadlockSig(); ok {
							env.Fail(p.Prop, sig, "simulation ended with goroutines blocked forever: %s", msg)
						} else {
							infra = "bubble: " + msg
						}
					} else {
						infra = "panic outside bubble: " + msg
					}
				}
			}
		}()
		synctest.Test(t, func(t *testing.T) {
			start := time.Now()
			defer func() {
				simSecs = time.Since(start).Seconds()
				if r := recover(); r != nil {
					if _, ok := r.(abortRun); ok {
						return
					}
					st := string(debug.Stack())
					env.Fail(p.Prop, "panic:"+panicSite(st), "panic during simulated run: %v\n%s", r, trimStack(st))
				}
			}()
			sim.Execute(env, p)
		})
	}()
	res := env.Result()
	res.SimSeconds = simSecs
	res.Infra = infra
	if res.Infra == "" {
		res.Infra = env.infra
	}
	if verbose {
		for _, l := range env.Trace {
			fmt.Println("  | " + l)
		}
	}
	return res
}

type abortRun struct{}

// Abort unwinds the bubble's root goroutine after a violation was recorded.
func (e *Env) Abort() { panic(abortRun{}) }

// DeadlockIsViolation lets a simulation declare that goroutines left blocked
// at the end of its bubble are a violation with the given signature (C18:
// "stopping the queue terminates its worker"); by default it is reported as
// infrastructure trouble.
func (e *Env) DeadlockIsViolation(sig string) { e.dlSig = sig }

func (e *Env) deadlockSig() (string, bool) { return e.dlSig, e.dlSig != "" }

func panicSite(stack string) string {
	// first frame below the panic machinery that is in btcwallet or bbolt
	lines := strings.Split(stack, "\n")
	for _, l := range lines {
		l = strings.TrimSpace(l)
		if strings.HasPrefix(l, "github.com/btcsuite/btcwallet") || strings.HasPrefix(l, "go.etcd.io/bbolt") {
			// drop the argument list: "pkg.(*T).Method(0x..., ...)" -> "pkg.(*T).Method"
			if i := strings.LastIndex(l, "("); i > 0 {
				l = l[:i]
			}
			if j := strings.LastIndex(l, "/"); j >= 0 {
				l = l[j+1:]
			}
			return SigSafe(l)
		}
	}
	return "harness"
}

func trimStack(st string) string {
	lines := strings.Split(st, "\n")
	if len(lines) > 40 {
		lines = lines[:40]
	}
	return strings.Join(lines, "\n")
}

// WritePlan stores a plan (replay file) as indented JSON.
func WritePlan(path string, p *Plan) error {
	b, err := json.MarshalIndent(p, "", " ")
	if err != nil {
		return err
	}
	if err := os.MkdirAll(filepath.Dir(path), 0o755); err != nil {
		return err
	}
	return os.WriteFile(path, append(b, '\n'), 0o644)
}

func ReadPlan(path string) (*Plan, error) {
	b, err := os.ReadFile(path)
	if err != nil {
		return nil, err
	}
	p := &Plan{}
	if err := json.Unmarshal(b, p); err != nil {
		return nil, err
	}
	return p, nil
}

// FreeMem is called between runs by workers every so often.
func FreeMem() { runtime.GC() }
